/-
  DDS.Proofs.Wire — lemmas about the block format of `DDS.Model.Wire` (encoder, documentation
  decoder `parseBlocks`, documentation content `interp`) and about the transcribed decoder
  `Sketch.decodeLoop` of `DDS.Model.Sketch`.  Core Lean only.

  The flag constants are the generated `Consts.*` definitions; every fact about them is obtained
  by unfolding them, never assumed.

  Proof style (kernel pitfall): a decoder applied to a symbolic encoder output must never be
  reduced by definitional unfolding (`simp`/`show`/`rfl` across a `match` make the kernel evaluate
  `Nat.mod` on symbolic words and overflow its stack).  Every step lemma is therefore stated on
  OPAQUE byte lists with the sub-decoder results as hypotheses (`…_of_ok`, `…_of_err`, `loop_*`),
  and the round-trip lemmas of `DDS.Proofs.Codec` are only ever plugged in as those hypotheses.
  `Wire.Reads` / `Sketch.SReads` / `Sketch.ItemReads` package "reads exactly this encoding:
  untouched tail + every strict prefix is eof" so that whole/cut statements are proved together.
-/
import DDS.Model.Sketch
import DDS.Proofs.Codec

namespace DDS

open Codec

/-! ### well-formed blocks: what an encoder can produce -/

/-- the int64 range -/
def I64 (v : Int) : Prop := -(2:Int)^63 ≤ v ∧ v < (2:Int)^63

def BinsPayload.WF : BinsPayload → Prop
  | .deltasCounts items => items.length < W64 ∧ ∀ p ∈ items, I64 p.1 ∧ p.2 < W64
  | .deltas items => items.length < W64 ∧ ∀ d ∈ items, I64 d
  | .contiguous start stride counts =>
    counts.length < W64 ∧ I64 start ∧ I64 stride ∧ ∀ c ∈ counts, c < W64

/-- all 64-bit payloads `< 2^64`; mapping sub-flag `≤ 4`; list lengths `< 2^64`; every delta /
    start / stride in the int64 range -/
def Block.WF : Block → Prop
  | .zeroCount b => b < W64
  | .count b => b < W64
  | .sum b => b < W64
  | .min b => b < W64
  | .max b => b < W64
  | .mapping sub g o => sub ≤ 4 ∧ g < W64 ∧ o < W64
  | .bins _ p => p.WF

instance (v : Int) : Decidable (I64 v) := by unfold I64; infer_instance

instance : (p : BinsPayload) → Decidable p.WF
  | .deltasCounts _ => by unfold BinsPayload.WF; infer_instance
  | .deltas _ => by unfold BinsPayload.WF; infer_instance
  | .contiguous _ _ _ => by unfold BinsPayload.WF; infer_instance

instance : (b : Block) → Decidable b.WF
  | .zeroCount _ => by unfold Block.WF; infer_instance
  | .count _ => by unfold Block.WF; infer_instance
  | .sum _ => by unfold Block.WF; infer_instance
  | .min _ => by unfold Block.WF; infer_instance
  | .max _ => by unfold Block.WF; infer_instance
  | .mapping _ _ _ => by unfold Block.WF; infer_instance
  | .bins _ _ => by unfold Block.WF; infer_instance

namespace Wire

/-! ### list helpers -/

theorem take_append_cases (a R : Bytes) (k : Nat) (hk : k < (a ++ R).length) :
    (k < a.length ∧ (a ++ R).take k = a.take k) ∨
    (∃ k', k' < R.length ∧ k = a.length + k' ∧ (a ++ R).take k = a ++ R.take k') := by
  by_cases h : k < a.length
  · left
    refine ⟨h, ?_⟩
    rw [List.take_append, show k - a.length = 0 by omega]
    simp
  · right
    refine ⟨k - a.length, ?_, by omega, ?_⟩
    · simp at hk; omega
    · rw [List.take_append, List.take_of_length_le (by omega)]

/-! ### `parseN` -/

theorem parseN_enc {α} (item : Bytes → Except ParseErr (α × Bytes)) (enc : α → Bytes)
    (l : List α)
    (hrt : ∀ a ∈ l, ∀ rest, item (enc a ++ rest) = .ok (a, rest)) (rest : Bytes) :
    parseN item l.length (l.flatMap enc ++ rest) = .ok (l, rest) := by
  induction l with
  | nil => simp [parseN]
  | cons a l ih =>
    simp only [List.length_cons, List.flatMap_cons, List.append_assoc, parseN]
    rw [hrt a (by simp)]
    simp only
    rw [ih (fun b hb => hrt b (by simp [hb]))]

theorem parseN_take {α} (item : Bytes → Except ParseErr (α × Bytes)) (enc : α → Bytes)
    (l : List α)
    (hrt : ∀ a ∈ l, ∀ rest, item (enc a ++ rest) = .ok (a, rest))
    (hpre : ∀ a ∈ l, ∀ k, k < (enc a).length → item ((enc a).take k) = .error .eof)
    (k : Nat) (hk : k < (l.flatMap enc).length) :
    parseN item l.length ((l.flatMap enc).take k) = .error .eof := by
  induction l generalizing k with
  | nil => simp at hk
  | cons a l ih =>
    simp only [List.length_cons, List.flatMap_cons, parseN] at hk ⊢
    rcases take_append_cases (enc a) (l.flatMap enc) k hk with ⟨h1, h2⟩ | ⟨k', h1, _, h2⟩
    · rw [h2, hpre a (by simp) k h1]
    · rw [h2, hrt a (by simp)]
      simp only
      rw [ih (fun b hb => hrt b (by simp [hb])) (fun b hb => hpre b (by simp [hb])) k' h1]

/-! ### parsers that read exactly an encoding -/

theorem bind_ok {α β} (x : Except ParseErr α) (a : α) (f : α → Except ParseErr β) (h : x = .ok a) :
    (x >>= f) = f a := by subst h; rfl
theorem bind_error {α β} (x : Except ParseErr α) (e : ParseErr) (f : α → Except ParseErr β)
    (h : x = .error e) : (x >>= f) = .error e := by subst h; rfl

theorem liftDec_of_ok {α} (x : Except DecErr α) (a : α) (h : x = .ok a) : liftDec x = .ok a := by
  subst h; rfl
theorem liftDec_of_error {α} (x : Except DecErr α) (e : DecErr) (h : x = .error e) :
    liftDec x = .error .eof := by subst h; rfl

/-- the parser `P` reads exactly the bytes `e`, yielding `a`: whatever follows is left untouched,
    and every strict prefix of `e` is an unexpected end of input -/
structure Reads {α} (P : Bytes → Except ParseErr (α × Bytes)) (e : Bytes) (a : α) : Prop where
  full : ∀ rest, P (e ++ rest) = .ok (a, rest)
  cut : ∀ k, k < e.length → P (e.take k) = .error .eof

theorem Reads.congr {α} {P Q : Bytes → Except ParseErr (α × Bytes)} {e a}
    (h : ∀ bs, Q bs = P bs) (hP : Reads P e a) : Reads Q e a :=
  ⟨fun rest => by rw [h, hP.full], fun k hk => by rw [h, hP.cut k hk]⟩

theorem Reads.bind {α β} {P : Bytes → Except ParseErr (α × Bytes)}
    {f : α × Bytes → Except ParseErr (β × Bytes)} {e e' : Bytes} {a : α} {b : β}
    (hP : Reads P e a) (hQ : Reads (fun bs => f (a, bs)) e' b) :
    Reads (fun bs => P bs >>= f) (e ++ e') b := by
  constructor
  · intro rest
    show (P (e ++ e' ++ rest) >>= f) = _
    rw [List.append_assoc, bind_ok _ _ _ (hP.full _)]
    exact hQ.full rest
  · intro k hk
    show (P ((e ++ e').take k) >>= f) = _
    rcases take_append_cases e e' k hk with ⟨h1, h2⟩ | ⟨k', h1, _, h2⟩
    · rw [h2, bind_error _ _ _ (hP.cut k h1)]
    · rw [h2, bind_ok _ _ _ (hP.full _)]
      exact hQ.cut k' h1

theorem Reads.map {α β} {P : Bytes → Except ParseErr (α × Bytes)} {e a} (g : α × Bytes → β × Bytes)
    (g' : α → β) (hg : ∀ x r, g (x, r) = (g' x, r))
    (hP : Reads P e a) : Reads (fun bs => (P bs).map g) e (g' a) := by
  constructor
  · intro rest
    show (P _).map g = _
    rw [hP.full]; show Except.ok (g (a, rest)) = _; rw [hg]
  · intro k hk
    show (P _).map g = _
    rw [hP.cut k hk]; rfl

theorem Reads.parseN {α} {item : Bytes → Except ParseErr (α × Bytes)} {enc : α → Bytes}
    {l : List α} (h : ∀ a ∈ l, Reads item (enc a) a) :
    Reads (Wire.parseN item l.length) (l.flatMap enc) l :=
  ⟨fun rest => parseN_enc item enc l (fun a ha => (h a ha).full) rest,
   fun k hk => parseN_take item enc l (fun a ha => (h a ha).full) (fun a ha => (h a ha).cut) k hk⟩

theorem reads_uvarint (v : Nat) (hv : v < W64) :
    Reads (fun bs => liftDec (decUvarint64 bs)) (encUvarint64 v) v :=
  ⟨fun rest => liftDec_of_ok _ _ (decUvarint64_encUvarint64 v hv rest),
   fun k hk => liftDec_of_error _ _ (decUvarint64_take v k hk)⟩

theorem reads_varint (v : Int) (hv : I64 v) :
    Reads (fun bs => liftDec (decVarint64 bs)) (encVarint64 v) v :=
  ⟨fun rest => liftDec_of_ok _ _ (decVarint64_encVarint64 v hv.1 hv.2 rest),
   fun k hk => by
    apply liftDec_of_error _ .eof
    unfold decVarint64 encVarint64
    rw [decUvarint64_take _ k hk]⟩

theorem reads_varfloat (b : Nat) (hb : b < W64) :
    Reads (fun bs => liftDec (decVarfloatBits bs)) (encVarfloatBits b) b :=
  ⟨fun rest => liftDec_of_ok _ _ (decVarfloatBits_encVarfloatBits b hb rest),
   fun k hk => liftDec_of_error _ _ (decVarfloatBits_take b k hk)⟩

theorem reads_f64le (b : Nat) (hb : b < W64) :
    Reads (fun bs => liftDec (decF64LE bs)) (encF64LE b) b :=
  ⟨fun rest => liftDec_of_ok _ _ (decF64LE_encF64LE b hb rest),
   fun k hk => liftDec_of_error _ _ (decF64LE_take b k (by rwa [encF64LE_length] at hk))⟩

theorem Reads.bind2 {α β} {P : Bytes → Except ParseErr (α × Bytes)}
    (K : α → Bytes → Except ParseErr (β × Bytes)) {e e' : Bytes} {a : α} {b : β}
    (hP : Reads P e a) (hQ : Reads (K a) e' b) :
    Reads (fun bs => P bs >>= fun x => K x.1 x.2) (e ++ e') b :=
  Reads.bind hP hQ

theorem Reads.ret {α β} {P : Bytes → Except ParseErr (α × Bytes)}
    (g : α → β) {e : Bytes} {a : α} (hP : Reads P e a) :
    Reads (fun bs => P bs >>= fun x => pure (g x.1, x.2)) e (g a) := by
  constructor
  · intro rest
    show (P (e ++ rest) >>= _) = _
    rw [bind_ok _ _ _ (hP.full _)]
    rfl
  · intro k hk
    show (P (e.take k) >>= _) = _
    rw [bind_error _ _ _ (hP.cut k hk)]

def pairItem (bs : Bytes) : Except ParseErr ((Int × Nat) × Bytes) := do
  let (d, bs) ← liftDec (decVarint64 bs)
  let (c, bs) ← liftDec (decVarfloatBits bs)
  pure ((d, c), bs)
def intItem (bs : Bytes) : Except ParseErr (Int × Bytes) := liftDec (decVarint64 bs)
def vfItem (bs : Bytes) : Except ParseErr (Nat × Bytes) := liftDec (decVarfloatBits bs)

theorem pairItem_reads (a : Int × Nat) (h1 : I64 a.1) (h2 : a.2 < W64) :
    Reads pairItem (encVarint64 a.1 ++ encVarfloatBits a.2) a :=
  Reads.congr (fun _ => rfl)
    (Reads.bind2 (fun d bs => liftDec (decVarfloatBits bs) >>= fun x => pure ((d, x.1), x.2))
      (reads_varint a.1 h1) (Reads.ret (fun c => (a.1, c)) (reads_varfloat a.2 h2)))

theorem subs_ne : Consts.binEncodingIndexDeltas ≠ Consts.binEncodingIndexDeltasAndCounts ∧
    Consts.binEncodingContiguousCounts ≠ Consts.binEncodingIndexDeltasAndCounts ∧
    Consts.binEncodingContiguousCounts ≠ Consts.binEncodingIndexDeltas := by decide

theorem parsePayload_reads (p : BinsPayload) (hp : p.WF) :
    Reads (parsePayload (payloadSub p)) (encPayload p) p := by
  obtain ⟨n1, n2, n3⟩ := subs_ne
  cases p with
  | deltasCounts items =>
    obtain ⟨h, hi⟩ := hp
    have h2 : Reads (parseN pairItem items.length)
        (items.flatMap (fun p => encVarint64 p.1 ++ encVarfloatBits p.2)) items :=
      Reads.parseN (fun a ha => pairItem_reads a (hi a ha).1 (hi a ha).2)
    refine Reads.congr (fun bs => ?_)
      (Reads.bind2 (fun n bs => parseN pairItem n bs >>= fun x => pure (BinsPayload.deltasCounts x.1, x.2))
        (reads_uvarint _ h) (Reads.ret BinsPayload.deltasCounts h2))
    simp only [parsePayload, payloadSub, if_pos]
    rfl
  | deltas items =>
    obtain ⟨h, hi⟩ := hp
    have h2 : Reads (parseN intItem items.length) (items.flatMap encVarint64) items :=
      Reads.parseN (fun a ha => reads_varint a (hi a ha))
    refine Reads.congr (fun bs => ?_)
      (Reads.bind2 (fun n bs => parseN intItem n bs >>= fun x => pure (BinsPayload.deltas x.1, x.2))
        (reads_uvarint _ h) (Reads.ret BinsPayload.deltas h2))
    simp only [parsePayload, payloadSub, if_neg n1, if_pos]
    rfl
  | contiguous start stride counts =>
    obtain ⟨h, hs, ht, hi⟩ := hp
    have h2 : Reads (parseN vfItem counts.length) (counts.flatMap encVarfloatBits) counts :=
      Reads.parseN (fun a ha => reads_varfloat a (hi a ha))
    have := Reads.bind2 (fun n bs => liftDec (decVarint64 bs) >>= fun x =>
          (fun st bs => liftDec (decVarint64 bs) >>= fun y =>
            (fun sd bs => parseN vfItem n bs >>= fun z =>
              pure (BinsPayload.contiguous st sd z.1, z.2)) y.1 y.2) x.1 x.2)
        (reads_uvarint _ h)
        (Reads.bind2 (fun st bs => liftDec (decVarint64 bs) >>= fun y =>
            (fun sd bs => parseN vfItem counts.length bs >>= fun z =>
              pure (BinsPayload.contiguous st sd z.1, z.2)) y.1 y.2) (reads_varint _ hs)
          (Reads.bind2 (fun sd bs => parseN vfItem counts.length bs >>= fun z =>
              pure (BinsPayload.contiguous start sd z.1, z.2)) (reads_varint _ ht)
            (Reads.ret (BinsPayload.contiguous start stride) h2)))
    simp only [← List.append_assoc] at this
    refine Reads.congr (fun bs => ?_) this
    simp only [parsePayload, payloadSub, if_neg n2, if_neg n3, if_pos]
    rfl

theorem flag_mk (t s : Nat) (ht : t < 2 ^ Consts.numBitsForType) :
    flagType (mkFlag t s) = t ∧ flagSub (mkFlag t s) = s := by
  unfold flagType flagSub mkFlag
  generalize 2 ^ Consts.numBitsForType = m at *
  constructor
  · rw [Nat.add_mul_mod_self_right, Nat.mod_eq_of_lt ht]
  · rw [Nat.add_mul_div_right _ _ (by omega), Nat.div_eq_of_lt ht, Nat.zero_add]

theorem Reads.flag {P : Bytes → Except ParseErr (Block × Bytes)} {e : Bytes} {b : Block} (f : Nat)
    (hP : Reads P e b) (h : ∀ bs, parseBlock (f :: bs) = P bs) : Reads parseBlock (f :: e) b := by
  constructor
  · intro rest
    rw [List.cons_append, h, hP.full]
  · intro k hk
    cases k with
    | zero => rfl
    | succ k =>
      rw [List.take_succ_cons, h]
      exact hP.cut k (by simpa using hk)

theorem parseBlock_reads (b : Block) (hb : b.WF) : Reads parseBlock (encBlock b) b := by
  cases b with
  | zeroCount x =>
    exact Reads.flag _ (Reads.map (fun (b, r) => (Block.zeroCount b, r)) Block.zeroCount
      (fun _ _ => rfl) (reads_varfloat x hb)) (fun bs => rfl)
  | count x =>
    exact Reads.flag _ (Reads.map (fun (b, r) => (Block.count b, r)) Block.count
      (fun _ _ => rfl) (reads_varfloat x hb)) (fun bs => rfl)
  | sum x =>
    exact Reads.flag _ (Reads.map (fun (b, r) => (Block.sum b, r)) Block.sum
      (fun _ _ => rfl) (reads_f64le x hb)) (fun bs => rfl)
  | min x =>
    exact Reads.flag _ (Reads.map (fun (b, r) => (Block.min b, r)) Block.min
      (fun _ _ => rfl) (reads_f64le x hb)) (fun bs => rfl)
  | max x =>
    exact Reads.flag _ (Reads.map (fun (b, r) => (Block.max b, r)) Block.max
      (fun _ _ => rfl) (reads_f64le x hb)) (fun bs => rfl)
  | mapping sub g o =>
    obtain ⟨hs, hg, ho⟩ := hb
    refine Reads.flag _ (Reads.bind2 (fun g bs => liftDec (decF64LE bs) >>= fun x =>
        pure (Block.mapping sub g x.1, x.2)) (reads_f64le g hg)
      (Reads.ret (Block.mapping sub g) (reads_f64le o ho))) (fun bs => ?_)
    obtain ⟨h1, h2⟩ := flag_mk Consts.flagTypeIndexMapping sub (by decide)
    simp only [parseBlock, h1, h2, hs, if_true,
      if_neg (show ¬ Consts.flagTypeIndexMapping = Consts.flagTypePositiveStore by decide),
      if_neg (show ¬ Consts.flagTypeIndexMapping = Consts.flagTypeNegativeStore by decide)]
  | bins side p =>
    have hp := parsePayload_reads p hb
    cases side with
    | pos =>
      obtain ⟨h1, h2⟩ := flag_mk Consts.flagTypePositiveStore (payloadSub p) (by decide)
      refine Reads.flag _ (Reads.map (fun (p, r) => (Block.bins .pos p, r)) (Block.bins .pos)
        (fun _ _ => rfl) hp) (fun bs => ?_)
      simp only [parseBlock, sideType, h1, h2, if_true]
    | neg =>
      obtain ⟨h1, h2⟩ := flag_mk Consts.flagTypeNegativeStore (payloadSub p) (by decide)
      refine Reads.flag _ (Reads.map (fun (p, r) => (Block.bins .neg p, r)) (Block.bins .neg)
        (fun _ _ => rfl) hp) (fun bs => ?_)
      simp only [parseBlock, sideType, h1, h2, if_true,
        if_neg (show ¬ Consts.flagTypeNegativeStore = Consts.flagTypePositiveStore by decide)]

/-! ### whole streams -/

theorem parseBlock_encBlock (b : Block) (hb : b.WF) (rest : Bytes) :
    parseBlock (encBlock b ++ rest) = .ok (b, rest) := (parseBlock_reads b hb).full rest

theorem parseBlock_take (b : Block) (hb : b.WF) (k : Nat) (hk : k < (encBlock b).length) :
    parseBlock ((encBlock b).take k) = .error .eof := (parseBlock_reads b hb).cut k hk

theorem encBlock_eq_cons (b : Block) : ∃ f e, encBlock b = f :: e := by
  cases b <;> exact ⟨_, _, rfl⟩

theorem encBlock_length_pos (b : Block) : 1 ≤ (encBlock b).length := by
  obtain ⟨f, e, h⟩ := encBlock_eq_cons b
  rw [h]
  exact Nat.le_add_left 1 _

theorem encBlocks_nil : encBlocks [] = [] := rfl
theorem encBlocks_cons (b : Block) (bs : List Block) :
    encBlocks (b :: bs) = encBlock b ++ encBlocks bs := by simp [encBlocks]
theorem encBlocks_append (a b : List Block) : encBlocks (a ++ b) = encBlocks a ++ encBlocks b := by
  simp [encBlocks]

theorem encBlocks_length_ge (bs : List Block) : bs.length ≤ (encBlocks bs).length := by
  induction bs with
  | nil => simp
  | cons b bs ih =>
    rw [encBlocks_cons, List.length_append, List.length_cons]
    have := encBlock_length_pos b
    omega

theorem parseBlocksFuel_nil (n : Nat) : parseBlocksFuel n [] = .ok [] := by cases n <;> rfl

theorem parseBlocksFuel_step_ok (n : Nat) (bs : Bytes) (b : Block) (rest : Bytes) (hne : bs ≠ [])
    (h : parseBlock bs = .ok (b, rest)) :
    parseBlocksFuel (n + 1) bs =
      (match parseBlocksFuel n rest with
       | .error e => .error e
       | .ok more => .ok (b :: more)) := by
  cases bs with
  | nil => exact absurd rfl hne
  | cons x xs =>
    simp only [parseBlocksFuel]; rw [h]; rfl

theorem encBlock_append_ne_nil (b : Block) (r : Bytes) : encBlock b ++ r ≠ [] := by
  cases hb : encBlock b with
  | nil => have := encBlock_length_pos b; rw [hb] at this; simp at this
  | cons x xs => simp

theorem parseBlocksFuel_step_error (n : Nat) (bs : Bytes) (e : ParseErr) (hne : bs ≠ [])
    (h : parseBlock bs = .error e) : parseBlocksFuel (n + 1) bs = .error e := by
  cases bs with
  | nil => exact absurd rfl hne
  | cons x xs => simp only [parseBlocksFuel]; rw [h]

/-- one unit of fuel per block: the encoded blocks are peeled off, the tail is parsed with what is left -/
theorem parseBlocksFuel_encBlocks_append (bs : List Block) (h : ∀ b ∈ bs, b.WF) (tail : Bytes)
    (n : Nat) :
    parseBlocksFuel (n + bs.length) (encBlocks bs ++ tail) =
      (match parseBlocksFuel n tail with
       | .error e => .error e
       | .ok more => .ok (bs ++ more)) := by
  induction bs with
  | nil =>
    simp only [encBlocks_nil, List.length_nil, Nat.add_zero, List.nil_append]
    cases parseBlocksFuel n tail <;> rfl
  | cons b bs ih =>
    have hne := encBlock_append_ne_nil b (encBlocks bs ++ tail)
    rw [encBlocks_cons, List.append_assoc, List.length_cons, ← Nat.add_assoc,
      parseBlocksFuel_step_ok _ _ b _ hne (parseBlock_encBlock b (h b (by simp)) _),
      ih (fun c hc => h c (by simp [hc]))]
    cases parseBlocksFuel n tail <;> rfl

theorem parseBlocks_encBlocks (bs : List Block) (h : ∀ b ∈ bs, b.WF) :
    parseBlocks (encBlocks bs) = .ok bs := by
  unfold parseBlocks
  have hl := encBlocks_length_ge bs
  have := parseBlocksFuel_encBlocks_append bs h [] ((encBlocks bs).length - bs.length)
  rw [Nat.sub_add_cancel hl, List.append_nil, parseBlocksFuel_nil] at this
  simpa using this

/-- a cut in the middle of a block, after any number of complete blocks -/
theorem parseBlocks_cut_inside (pre : List Block) (h : ∀ b ∈ pre, b.WF) (b : Block) (hb : b.WF)
    (k : Nat) (h0 : 0 < k) (hk : k < (encBlock b).length) :
    parseBlocks (encBlocks pre ++ (encBlock b).take k) = .error .eof := by
  unfold parseBlocks
  have hl := encBlocks_length_ge pre
  have hlen : ((encBlock b).take k).length = k := by rw [List.length_take]; omega
  have hne : (encBlock b).take k ≠ [] := by
    intro h0'; rw [h0'] at hlen; simp at hlen; omega
  have := parseBlocksFuel_encBlocks_append pre h ((encBlock b).take k)
    ((encBlocks pre).length - pre.length + (k - 1) + 1)
  rw [parseBlocksFuel_step_error _ _ _ hne (parseBlock_take b hb k hk)] at this
  rw [List.length_append, hlen]
  rw [show (encBlocks pre).length + k = (encBlocks pre).length - pre.length + (k - 1) + 1 + pre.length by omega]
  exact this

theorem encBlocks_take (bs : List Block) (k : Nat) (hk : k ≤ (encBlocks bs).length) :
    ∃ j, j ≤ bs.length ∧
      ((k = (encBlocks (bs.take j)).length ∧ (encBlocks bs).take k = encBlocks (bs.take j)) ∨
       (∃ b k', b ∈ bs ∧ 0 < k' ∧ k' < (encBlock b).length ∧
          (encBlocks bs).take k = encBlocks (bs.take j) ++ (encBlock b).take k')) := by
  induction bs generalizing k with
  | nil => exact ⟨0, by simp, .inl (by simp [encBlocks_nil] at hk ⊢; exact hk)⟩
  | cons b bs ih =>
    rw [encBlocks_cons, List.length_append] at hk
    by_cases hk0 : k = 0
    · subst hk0
      exact ⟨0, by simp, .inl (by simp [encBlocks_nil])⟩
    by_cases hkb : k < (encBlock b).length
    · refine ⟨0, by simp, .inr ⟨b, k, by simp, by omega, hkb, ?_⟩⟩
      rw [encBlocks_cons, List.take_append, show k - (encBlock b).length = 0 by omega]
      simp [encBlocks_nil]
    · obtain ⟨j, hj, hcase⟩ := ih (k - (encBlock b).length) (by omega)
      have htk : (encBlocks (b :: bs)).take k
          = encBlock b ++ (encBlocks bs).take (k - (encBlock b).length) := by
        rw [encBlocks_cons, List.take_append, List.take_of_length_le (by omega)]
      refine ⟨j + 1, by simp; omega, ?_⟩
      rcases hcase with ⟨h1, h2⟩ | ⟨c, k', hc, h1, h2, h3⟩
      · left
        rw [htk, h2, List.take_succ_cons, encBlocks_cons, List.length_append]
        exact ⟨by omega, rfl⟩
      · right
        refine ⟨c, k', by simp [hc], h1, h2, ?_⟩
        rw [htk, h3, List.take_succ_cons, encBlocks_cons, List.append_assoc]

theorem parseBlocks_cut (bs : List Block) (h : ∀ b ∈ bs, b.WF) (k : Nat)
    (hk : k ≤ (encBlocks bs).length) :
    (∃ j, k = (encBlocks (bs.take j)).length ∧
        parseBlocks ((encBlocks bs).take k) = .ok (bs.take j))
    ∨ parseBlocks ((encBlocks bs).take k) = .error .eof := by
  obtain ⟨j, _, ⟨h1, h2⟩ | ⟨b, k', hb, h1, h2, h3⟩⟩ := encBlocks_take bs k hk
  · left
    refine ⟨j, h1, ?_⟩
    rw [h2]
    exact parseBlocks_encBlocks _ (fun b hb => h b (List.mem_of_mem_take hb))
  · right
    rw [h3]
    exact parseBlocks_cut_inside _ (fun b hb => h b (List.mem_of_mem_take hb)) b (h b hb) k' h1 h2

/-! ### flag bytes -/

/-- the flag bytes the format defines, as (type, sub-flag) pairs -/
def featureFlags : List (Nat × Nat) :=
  [(Consts.flagTypeSketchFeatures, Consts.subFlagZeroCountVarFloat),
   (Consts.flagTypeSketchFeatures, Consts.subFlagCount),
   (Consts.flagTypeSketchFeatures, Consts.subFlagSum),
   (Consts.flagTypeSketchFeatures, Consts.subFlagMin),
   (Consts.flagTypeSketchFeatures, Consts.subFlagMax)]
def mappingFlags : List (Nat × Nat) :=
  [(Consts.flagTypeIndexMapping, Consts.subFlagIndexMappingBaseLogarithmic),
   (Consts.flagTypeIndexMapping, Consts.subFlagIndexMappingBaseLinear),
   (Consts.flagTypeIndexMapping, Consts.subFlagIndexMappingBaseQuadratic),
   (Consts.flagTypeIndexMapping, Consts.subFlagIndexMappingBaseCubic),
   (Consts.flagTypeIndexMapping, Consts.subFlagIndexMappingBaseQuartic)]
def binFlags : List (Nat × Nat) :=
  [(Consts.flagTypePositiveStore, Consts.binEncodingIndexDeltasAndCounts),
   (Consts.flagTypePositiveStore, Consts.binEncodingIndexDeltas),
   (Consts.flagTypePositiveStore, Consts.binEncodingContiguousCounts),
   (Consts.flagTypeNegativeStore, Consts.binEncodingIndexDeltasAndCounts),
   (Consts.flagTypeNegativeStore, Consts.binEncodingIndexDeltas),
   (Consts.flagTypeNegativeStore, Consts.binEncodingContiguousCounts)]
def allFlags : List (Nat × Nat) := featureFlags ++ mappingFlags ++ binFlags
def definedFlagBytes : List Nat := allFlags.map (fun p => mkFlag p.1 p.2)

theorem flags_distinct :
    definedFlagBytes.Nodup ∧ definedFlagBytes.length = 16 ∧
    ∀ p ∈ allFlags, mkFlag p.1 p.2 < 256 ∧ flagType (mkFlag p.1 p.2) = p.1 ∧
      flagSub (mkFlag p.1 p.2) = p.2 := by decide

theorem parsePayload_unknown (sub : Nat) (bs : Bytes)
    (h1 : sub ≠ Consts.binEncodingIndexDeltasAndCounts) (h2 : sub ≠ Consts.binEncodingIndexDeltas)
    (h3 : sub ≠ Consts.binEncodingContiguousCounts) :
    parsePayload sub bs = .error (.unknownFlag sub) := by
  simp only [parsePayload, if_neg h1, if_neg h2, if_neg h3]

theorem mkFlag_type_sub (f : Nat) : mkFlag (flagType f) (flagSub f) = f := by
  unfold mkFlag flagType flagSub
  rw [Nat.add_comm, Nat.mul_comm]
  exact Nat.div_add_mod f _

theorem mem_defined_of (f t s : Nat) (ht : flagType f = t) (hs : flagSub f = s)
    (h : (t, s) ∈ allFlags) : f ∈ definedFlagBytes := by
  have := mkFlag_type_sub f
  rw [ht, hs] at this
  rw [← this]
  exact List.mem_map_of_mem (f := fun p : Nat × Nat => mkFlag p.1 p.2) h

theorem mapping_sub_le (s : Nat) (hs : s ≤ 4) : (Consts.flagTypeIndexMapping, s) ∈ allFlags := by
  have : ∀ s, s < 5 → (Consts.flagTypeIndexMapping, s) ∈ allFlags := by decide
  exact this s (by omega)

theorem parseBlock_unknown_flag (f : Nat) (rest : Bytes) (hf : f ∉ definedFlagBytes) :
    ∃ g, parseBlock (f :: rest) = .error (.unknownFlag g) := by
  have key : ∀ t s, (t, s) ∈ allFlags → ¬ (flagType f = t ∧ flagSub f = s) :=
    fun t s h ⟨ht, hs⟩ => hf (mem_defined_of f t s ht hs h)
  by_cases h1 : flagType f = Consts.flagTypePositiveStore
  · have a1 : flagSub f ≠ Consts.binEncodingIndexDeltasAndCounts := fun h => key _ _ (by decide) ⟨h1, h⟩
    have a2 : flagSub f ≠ Consts.binEncodingIndexDeltas := fun h => key _ _ (by decide) ⟨h1, h⟩
    have a3 : flagSub f ≠ Consts.binEncodingContiguousCounts := fun h => key _ _ (by decide) ⟨h1, h⟩
    refine ⟨flagSub f, ?_⟩
    simp only [parseBlock, h1, if_true, parsePayload_unknown _ rest a1 a2 a3]
    rfl
  by_cases h2 : flagType f = Consts.flagTypeNegativeStore
  · have a1 : flagSub f ≠ Consts.binEncodingIndexDeltasAndCounts := fun h => key _ _ (by decide) ⟨h2, h⟩
    have a2 : flagSub f ≠ Consts.binEncodingIndexDeltas := fun h => key _ _ (by decide) ⟨h2, h⟩
    have a3 : flagSub f ≠ Consts.binEncodingContiguousCounts := fun h => key _ _ (by decide) ⟨h2, h⟩
    refine ⟨flagSub f, ?_⟩
    rw [h2] at h1
    simp only [parseBlock, h2, if_neg h1, if_true, parsePayload_unknown _ rest a1 a2 a3]
    rfl
  by_cases h3 : flagType f = Consts.flagTypeIndexMapping
  · have a1 : ¬ flagSub f ≤ 4 := fun h => key _ _ (mapping_sub_le _ h) ⟨h3, rfl⟩
    refine ⟨f, ?_⟩
    rw [h3] at h1 h2
    simp only [parseBlock, h3, if_neg h1, if_neg h2, if_true, if_neg a1]
  · have h0 : flagType f = Consts.flagTypeSketchFeatures := by
      have : flagType f < 4 := Nat.mod_lt _ (by decide)
      revert h1 h2 h3
      generalize flagType f = t at *
      have : ∀ t, t < 4 → t ≠ Consts.flagTypePositiveStore → t ≠ Consts.flagTypeNegativeStore →
        t ≠ Consts.flagTypeIndexMapping → t = Consts.flagTypeSketchFeatures := by decide
      exact this t ‹_›
    have a1 : flagSub f ≠ Consts.subFlagZeroCountVarFloat := fun h => key _ _ (by decide) ⟨h0, h⟩
    have a2 : flagSub f ≠ Consts.subFlagCount := fun h => key _ _ (by decide) ⟨h0, h⟩
    have a3 : flagSub f ≠ Consts.subFlagSum := fun h => key _ _ (by decide) ⟨h0, h⟩
    have a4 : flagSub f ≠ Consts.subFlagMin := fun h => key _ _ (by decide) ⟨h0, h⟩
    have a5 : flagSub f ≠ Consts.subFlagMax := fun h => key _ _ (by decide) ⟨h0, h⟩
    refine ⟨f, ?_⟩
    simp only [parseBlock, if_neg h1, if_neg h2, if_neg h3, if_neg a1, if_neg a2, if_neg a3,
      if_neg a4, if_neg a5]

/-- success, or an unexpected end of input — never an unknown flag -/
def OkOrEof {α} (x : Except ParseErr α) : Prop := x = .error .eof ∨ ∃ a, x = .ok a

theorem OkOrEof.liftDec {α} (x : Except DecErr α) : OkOrEof (liftDec x) := by
  cases x with
  | ok a => exact .inr ⟨a, rfl⟩
  | error e => exact .inl rfl

theorem OkOrEof.bind {α β} {x : Except ParseErr α} {f : α → Except ParseErr β}
    (hx : OkOrEof x) (hf : ∀ a, OkOrEof (f a)) : OkOrEof (x >>= f) := by
  rcases hx with h | ⟨a, h⟩
  · rw [bind_error _ _ _ h]; exact .inl rfl
  · rw [bind_ok _ _ _ h]; exact hf a

theorem OkOrEof.map {α β} {x : Except ParseErr α} (g : α → β) (hx : OkOrEof x) :
    OkOrEof (x.map g) := by
  rcases hx with h | ⟨a, h⟩
  · rw [h]; exact .inl rfl
  · rw [h]; exact .inr ⟨g a, rfl⟩

theorem OkOrEof.pure {α} (a : α) : OkOrEof (Pure.pure a : Except ParseErr α) := .inr ⟨a, rfl⟩

theorem OkOrEof.parseN {α} (item : Bytes → Except ParseErr (α × Bytes))
    (h : ∀ bs, OkOrEof (item bs)) (n : Nat) (bs : Bytes) : OkOrEof (Wire.parseN item n bs) := by
  induction n generalizing bs with
  | zero => exact .inr ⟨_, rfl⟩
  | succ n ih =>
    simp only [Wire.parseN]
    rcases h bs with h1 | ⟨⟨a, r⟩, h1⟩
    · rw [h1]; exact .inl rfl
    · rw [h1]
      simp only
      rcases ih r with h2 | ⟨⟨as, r'⟩, h2⟩
      · rw [h2]; exact .inl rfl
      · rw [h2]; exact .inr ⟨_, rfl⟩

theorem OkOrEof.parsePayload (sub : Nat) (bs : Bytes)
    (h : sub = Consts.binEncodingIndexDeltasAndCounts ∨ sub = Consts.binEncodingIndexDeltas ∨
      sub = Consts.binEncodingContiguousCounts) : OkOrEof (parsePayload sub bs) := by
  obtain ⟨n1, n2, n3⟩ := subs_ne
  rcases h with h | h | h
  · subst h
    simp only [Wire.parsePayload, if_true]
    refine OkOrEof.bind (OkOrEof.liftDec _) (fun ⟨n, bs⟩ => ?_)
    refine OkOrEof.bind (OkOrEof.parseN _ (fun bs => ?_) _ _) (fun ⟨items, bs⟩ => OkOrEof.pure _)
    refine OkOrEof.bind (OkOrEof.liftDec _) (fun ⟨d, bs⟩ => ?_)
    exact OkOrEof.bind (OkOrEof.liftDec _) (fun ⟨c, bs⟩ => OkOrEof.pure _)
  · subst h
    simp only [Wire.parsePayload, if_neg n1, if_true]
    refine OkOrEof.bind (OkOrEof.liftDec _) (fun ⟨n, bs⟩ => ?_)
    exact OkOrEof.bind (OkOrEof.parseN _ (fun bs => OkOrEof.liftDec _) _ _)
      (fun ⟨items, bs⟩ => OkOrEof.pure _)
  · subst h
    simp only [Wire.parsePayload, if_neg n2, if_neg n3, if_true]
    refine OkOrEof.bind (OkOrEof.liftDec _) (fun ⟨n, bs⟩ => ?_)
    refine OkOrEof.bind (OkOrEof.liftDec _) (fun ⟨st, bs⟩ => ?_)
    refine OkOrEof.bind (OkOrEof.liftDec _) (fun ⟨sd, bs⟩ => ?_)
    exact OkOrEof.bind (OkOrEof.parseN _ (fun bs => OkOrEof.liftDec _) _ _)
      (fun ⟨items, bs⟩ => OkOrEof.pure _)

set_option linter.unusedSimpArgs false in
/-- a defined flag byte is never reported as unknown -/
theorem parseBlock_defined_flag (f : Nat) (rest : Bytes) (hf : f ∈ definedFlagBytes) :
    OkOrEof (parseBlock (f :: rest)) := by
  obtain ⟨⟨t, s⟩, hp, rfl⟩ := List.mem_map.mp hf
  have hlt : t < 2 ^ Consts.numBitsForType := by
    have : ∀ p ∈ allFlags, p.1 < 2 ^ Consts.numBitsForType := by decide
    exact this _ hp
  obtain ⟨h1, h2⟩ := flag_mk t s hlt
  simp only [allFlags, featureFlags, mappingFlags, binFlags, List.mem_append, List.mem_cons,
    List.not_mem_nil, or_false, Prod.mk.injEq] at hp
  rcases hp with ((h|h|h|h|h)|(h|h|h|h|h))|(h|h|h|h|h|h)
  all_goals
    obtain ⟨rfl, rfl⟩ := h
    simp (decide := true) only [parseBlock, h1, h2, if_true, if_false]
    first
      | exact OkOrEof.map _ (OkOrEof.liftDec _)
      | exact OkOrEof.map _ (OkOrEof.parsePayload _ _ (by decide))
      | exact OkOrEof.bind (OkOrEof.liftDec _) (fun ⟨g, bs⟩ =>
          OkOrEof.bind (OkOrEof.liftDec _) (fun ⟨o, bs⟩ => OkOrEof.pure _))

/-! ### every encoded byte is a byte -/

theorem encF64LE_bytes (b : Nat) : ∀ x ∈ encF64LE b, x < 256 := by
  intro x hx
  simp only [encF64LE, List.mem_map] at hx
  obtain ⟨i, _, rfl⟩ := hx
  exact Nat.mod_lt _ (by decide)

theorem encUvarint64_bytes (v : Nat) : ∀ x ∈ encUvarint64 v, x < 256 := encU_bytes _ v
theorem encVarint64_bytes (v : Int) : ∀ x ∈ encVarint64 v, x < 256 := encU_bytes _ _
theorem encVarfloatBits_bytes (b : Nat) : ∀ x ∈ encVarfloatBits b, x < 256 := by
  rw [encVarfloatBits_eq]; exact encVF_bytes 8 _ (vfWord_lt b)

theorem encPayload_bytes (p : BinsPayload) : ∀ x ∈ encPayload p, x < 256 := by
  intro x hx
  cases p with
  | deltasCounts items =>
    simp only [encPayload, List.mem_append, List.mem_flatMap] at hx
    rcases hx with hx | ⟨a, _, hx | hx⟩
    · exact encUvarint64_bytes _ x hx
    · exact encVarint64_bytes _ x hx
    · exact encVarfloatBits_bytes _ x hx
  | deltas items =>
    simp only [encPayload, List.mem_append, List.mem_flatMap] at hx
    rcases hx with hx | ⟨a, _, hx⟩
    · exact encUvarint64_bytes _ x hx
    · exact encVarint64_bytes _ x hx
  | contiguous start stride counts =>
    simp only [encPayload, List.mem_append, List.mem_flatMap] at hx
    rcases hx with ((hx | hx) | hx) | ⟨a, _, hx⟩
    · exact encUvarint64_bytes _ x hx
    · exact encVarint64_bytes _ x hx
    · exact encVarint64_bytes _ x hx
    · exact encVarfloatBits_bytes _ x hx

theorem defined_flag_lt (t s : Nat) (h : (t, s) ∈ allFlags) : mkFlag t s < 256 :=
  (flags_distinct.2.2 (t, s) h).1

theorem encBlock_bytes (b : Block) (hb : b.WF) : ∀ x ∈ encBlock b, x < 256 := by
  intro x hx
  cases b with
  | zeroCount v =>
    rcases List.mem_cons.mp hx with rfl | hx
    · exact defined_flag_lt _ _ (by decide)
    · exact encVarfloatBits_bytes _ x hx
  | count v =>
    rcases List.mem_cons.mp hx with rfl | hx
    · exact defined_flag_lt _ _ (by decide)
    · exact encVarfloatBits_bytes _ x hx
  | sum v =>
    rcases List.mem_cons.mp hx with rfl | hx
    · exact defined_flag_lt _ _ (by decide)
    · exact encF64LE_bytes _ x hx
  | min v =>
    rcases List.mem_cons.mp hx with rfl | hx
    · exact defined_flag_lt _ _ (by decide)
    · exact encF64LE_bytes _ x hx
  | max v =>
    rcases List.mem_cons.mp hx with rfl | hx
    · exact defined_flag_lt _ _ (by decide)
    · exact encF64LE_bytes _ x hx
  | mapping sub g o =>
    rcases List.mem_cons.mp hx with rfl | hx
    · exact defined_flag_lt _ _ (mapping_sub_le sub hb.1)
    · rcases List.mem_append.mp hx with hx | hx
      · exact encF64LE_bytes _ x hx
      · exact encF64LE_bytes _ x hx
  | bins side p =>
    rcases List.mem_cons.mp hx with rfl | hx
    · cases side <;> cases p <;> exact defined_flag_lt _ _ (by simp only [sideType, payloadSub]; decide)
    · exact encPayload_bytes p x hx

/-! ### the documentation content of a concatenation -/

/-- the step of `interp` -/
def interpStep (d : Doc) (b : Block) : Doc :=
  match b with
  | .zeroCount x => { d with zero := F64.add d.zero (vfValue x) }
  | .count x => { d with count := d.count ++ [vfValue x] }
  | .sum x => { d with sum := d.sum ++ [F64.ofBits (UInt64.ofNat x)] }
  | .min x => { d with min := d.min ++ [F64.ofBits (UInt64.ofNat x)] }
  | .max x => { d with max := d.max ++ [F64.ofBits (UInt64.ofNat x)] }
  | .mapping s g o => { d with mappings := d.mappings ++ [(s, g, o)] }
  | .bins .pos p => { d with pos := d.pos ++ payloadBins p }
  | .bins .neg p => { d with neg := d.neg ++ payloadBins p }

theorem interp_eq (bs : List Block) : interp bs = bs.foldl interpStep {} := rfl

/-- the zero-count increments of a block list, in stream order -/
def zeroIncrements (bs : List Block) : List F64 :=
  bs.filterMap (fun b => match b with | .zeroCount x => some (vfValue x) | _ => none)

theorem foldl_interpStep (d : Doc) (bs : List Block) :
    (bs.foldl interpStep d).zero = (zeroIncrements bs).foldl F64.add d.zero ∧
    (bs.foldl interpStep d).pos = d.pos ++ (interp bs).pos ∧
    (bs.foldl interpStep d).neg = d.neg ++ (interp bs).neg ∧
    (bs.foldl interpStep d).mappings = d.mappings ++ (interp bs).mappings ∧
    (bs.foldl interpStep d).count = d.count ++ (interp bs).count ∧
    (bs.foldl interpStep d).sum = d.sum ++ (interp bs).sum ∧
    (bs.foldl interpStep d).min = d.min ++ (interp bs).min ∧
    (bs.foldl interpStep d).max = d.max ++ (interp bs).max := by
  induction bs generalizing d with
  | nil => simp [interp_eq, zeroIncrements]
  | cons b bs ih =>
    have h1 := ih (interpStep d b)
    have h2 := ih (interpStep {} b)
    simp only [interp_eq, List.foldl_cons] at h1 h2 ⊢
    obtain ⟨a1, a2, a3, a4, a5, a6, a7, a8⟩ := h1
    obtain ⟨_, b2, b3, b4, b5, b6, b7, b8⟩ := h2
    rw [a1, a2, a3, a4, a5, a6, a7, a8, b2, b3, b4, b5, b6, b7, b8]
    cases b with
    | bins side p => cases side <;> simp [interpStep, zeroIncrements]
    | _ => simp [interpStep, zeroIncrements]

theorem interp_append (a b : List Block) :
    (interp (a ++ b)).zero = (zeroIncrements b).foldl F64.add (interp a).zero ∧
    (interp (a ++ b)).pos = (interp a).pos ++ (interp b).pos ∧
    (interp (a ++ b)).neg = (interp a).neg ++ (interp b).neg ∧
    (interp (a ++ b)).mappings = (interp a).mappings ++ (interp b).mappings ∧
    (interp (a ++ b)).count = (interp a).count ++ (interp b).count ∧
    (interp (a ++ b)).sum = (interp a).sum ++ (interp b).sum ∧
    (interp (a ++ b)).min = (interp a).min ++ (interp b).min ∧
    (interp (a ++ b)).max = (interp a).max ++ (interp b).max := by
  have := foldl_interpStep (interp a) b
  rw [interp_eq (a ++ b), List.foldl_append, ← interp_eq a]
  exact this

theorem interp_zero (bs : List Block) :
    (interp bs).zero = (zeroIncrements bs).foldl F64.add (.fin 0) :=
  (foldl_interpStep {} bs).1

end Wire
namespace Sketch
open Wire

/-! ### the transcribed decoder: stores -/

/-- add decoded bins to a store in stream order (`none`: the store panics or a weight is not finite) -/
def addBins (st : Store) : List (Int × F64) → Option Store
  | [] => some st
  | p :: rest =>
    match addF st p.1 p.2 with
    | none => none
    | some st' => addBins st' rest

theorem addBins_append (st : Store) (a b : List (Int × F64)) :
    addBins st (a ++ b) = (match addBins st a with | none => none | some st' => addBins st' b) := by
  induction a generalizing st with
  | nil => rfl
  | cons p a ih =>
    simp only [List.cons_append, addBins]
    cases addF st p.1 p.2 with
    | none => rfl
    | some st' => exact ih st'

theorem sk_liftDec_of_ok {α} (x : Except DecErr α) (a : α) (h : x = .ok a) :
    Sketch.liftDec x = .ok a := by subst h; rfl
theorem sk_liftDec_of_error {α} (x : Except DecErr α) (e : DecErr) (h : x = .error e) :
    Sketch.liftDec x = .error .eof := by subst h; rfl

theorem decVarfloat64_of_ok (bs : Bytes) (b : Nat) (rest : Bytes)
    (h : decVarfloatBits bs = .ok (b, rest)) : decVarfloat64 bs = .ok (vfValue b, rest) := by
  unfold decVarfloat64; rw [h]; rfl
theorem decVarfloat64_of_error (bs : Bytes) (e : DecErr)
    (h : decVarfloatBits bs = .error e) : decVarfloat64 bs = .error e := by
  unfold decVarfloat64; rw [h]

theorem decVarint64_take (v : Int) (k : Nat) (hk : k < (encVarint64 v).length) :
    decVarint64 ((encVarint64 v).take k) = .error .eof := by
  unfold decVarint64 encVarint64
  rw [decUvarint64_take _ k hk]

/-- a sketch-level reader of one value: `D` reads exactly `e`, yielding `a` -/
structure SReads {α} (D : Bytes → Except SkErr (α × Bytes)) (e : Bytes) (a : α) : Prop where
  full : ∀ rest, D (e ++ rest) = .ok (a, rest)
  cut : ∀ k, k < e.length → D (e.take k) = .error .eof

theorem sreads_uvarint (v : Nat) (hv : v < W64) :
    SReads (fun bs => Sketch.liftDec (decUvarint64 bs)) (encUvarint64 v) v :=
  ⟨fun rest => sk_liftDec_of_ok _ _ (decUvarint64_encUvarint64 v hv rest),
   fun k hk => sk_liftDec_of_error _ _ (decUvarint64_take v k hk)⟩

theorem sreads_varint (v : Int) (hv : I64 v) :
    SReads (fun bs => Sketch.liftDec (decVarint64 bs)) (encVarint64 v) v :=
  ⟨fun rest => sk_liftDec_of_ok _ _ (decVarint64_encVarint64 v hv.1 hv.2 rest),
   fun k hk => sk_liftDec_of_error _ _ (decVarint64_take v k hk)⟩

theorem sreads_varfloat (b : Nat) (hb : b < W64) :
    SReads (fun bs => Sketch.liftDec (decVarfloat64 bs)) (encVarfloatBits b) (vfValue b) :=
  ⟨fun rest => sk_liftDec_of_ok _ _
      (decVarfloat64_of_ok _ _ _ (decVarfloatBits_encVarfloatBits b hb rest)),
   fun k hk => sk_liftDec_of_error _ _ (decVarfloat64_of_error _ _ (decVarfloatBits_take b k hk))⟩

theorem sreads_f64le (b : Nat) (hb : b < W64) :
    SReads (fun bs => Sketch.liftDec (decF64LE bs)) (encF64LE b) b :=
  ⟨fun rest => sk_liftDec_of_ok _ _ (decF64LE_encF64LE b hb rest),
   fun k hk => sk_liftDec_of_error _ _ (decF64LE_take b k (by rwa [encF64LE_length] at hk))⟩

/-! #### items -/

def dcItem (st : Store) (idx : Int) (bs : Bytes) : Option (Except SkErr (Store × Int × Bytes)) :=
  match Sketch.liftDec (Codec.decVarint64 bs) with
  | .error e => some (.error e)
  | .ok (d, bs) =>
    match Sketch.liftDec (Codec.decVarfloat64 bs) with
    | .error e => some (.error e)
    | .ok (c, bs) => (addF st (idx + d) c).map (fun st' => .ok (st', idx + d, bs))

def dItem (st : Store) (idx : Int) (bs : Bytes) : Option (Except SkErr (Store × Int × Bytes)) :=
  match Sketch.liftDec (Codec.decVarint64 bs) with
  | .error e => some (.error e)
  | .ok (d, bs) => (st.addWithCount (idx + d) 1).map (fun st' => .ok (st', idx + d, bs))

def ccItem (stride : Int) (st : Store) (idx : Int) (bs : Bytes) :
    Option (Except SkErr (Store × Int × Bytes)) :=
  match Sketch.liftDec (Codec.decVarfloat64 bs) with
  | .error e => some (.error e)
  | .ok (c, bs) => (addF st idx c).map (fun st' => .ok (st', idx + stride, bs))

theorem decodeStore_eq (st : Store) (sub : Nat) (bs : Bytes) : decodeStore st sub bs =
  if sub = Consts.binEncodingIndexDeltasAndCounts then
    match Sketch.liftDec (Codec.decUvarint64 bs) with
    | .error e => some (.error e)
    | .ok (n, bs) => decItems dcItem n st 0 bs
  else if sub = Consts.binEncodingIndexDeltas then
    match Sketch.liftDec (Codec.decUvarint64 bs) with
    | .error e => some (.error e)
    | .ok (n, bs) => decItems dItem n st 0 bs
  else if sub = Consts.binEncodingContiguousCounts then
    match Sketch.liftDec (Codec.decUvarint64 bs) with
    | .error e => some (.error e)
    | .ok (n, bs) =>
      match Sketch.liftDec (Codec.decVarint64 bs) with
      | .error e => some (.error e)
      | .ok (start, bs) =>
        match Sketch.liftDec (Codec.decVarint64 bs) with
        | .error e => some (.error e)
        | .ok (stride, bs) => decItems (ccItem stride) n st start bs
  else some (.error .unknownBinEncoding) := rfl

/-- what one item does to the store and the running index -/
def dcStep (st : Store) (idx : Int) (a : Int × Nat) : Option (Store × Int) :=
  (addF st (idx + a.1) (vfValue a.2)).map (fun st' => (st', idx + a.1))
def dStep (st : Store) (idx : Int) (d : Int) : Option (Store × Int) :=
  (addF st (idx + d) F64.one).map (fun st' => (st', idx + d))
def ccStep (stride : Int) (st : Store) (idx : Int) (c : Nat) : Option (Store × Int) :=
  (addF st idx (vfValue c)).map (fun st' => (st', idx + stride))

/-- an item decoder reads exactly `enc a` and performs `step` -/
structure ItemReads {α} (item : Store → Int → Bytes → Option (Except SkErr (Store × Int × Bytes)))
    (enc : α → Bytes) (step : Store → Int → α → Option (Store × Int)) (a : α) : Prop where
  full : ∀ st idx rest, item st idx (enc a ++ rest) =
    (match step st idx a with
     | none => none
     | some r => some (.ok (r.1, r.2, rest)))
  cut : ∀ st idx k, k < (enc a).length → item st idx ((enc a).take k) = some (.error .eof)

theorem dcItem_of_ok (st : Store) (idx : Int) (bs bs1 bs2 : Bytes) (d : Int) (c : F64)
    (h1 : Sketch.liftDec (decVarint64 bs) = .ok (d, bs1))
    (h2 : Sketch.liftDec (decVarfloat64 bs1) = .ok (c, bs2)) :
    dcItem st idx bs = (addF st (idx + d) c).map (fun st' => .ok (st', idx + d, bs2)) := by
  unfold dcItem; rw [h1]; simp only; rw [h2]

theorem dcItem_of_err1 (st : Store) (idx : Int) (bs : Bytes) (e : SkErr)
    (h1 : Sketch.liftDec (decVarint64 bs) = .error e) : dcItem st idx bs = some (.error e) := by
  unfold dcItem; rw [h1]

theorem dcItem_of_err2 (st : Store) (idx : Int) (bs bs1 : Bytes) (d : Int) (e : SkErr)
    (h1 : Sketch.liftDec (decVarint64 bs) = .ok (d, bs1))
    (h2 : Sketch.liftDec (decVarfloat64 bs1) = .error e) : dcItem st idx bs = some (.error e) := by
  unfold dcItem; rw [h1]; simp only; rw [h2]

theorem dcItem_reads (a : Int × Nat) (h1 : I64 a.1) (h2 : a.2 < W64) :
    ItemReads dcItem (fun p : Int × Nat => encVarint64 p.1 ++ encVarfloatBits p.2) dcStep a := by
  constructor
  · intro st idx rest
    show dcItem st idx ((encVarint64 a.1 ++ encVarfloatBits a.2) ++ rest) = _
    rw [List.append_assoc,
      dcItem_of_ok _ _ _ _ _ _ _ ((sreads_varint a.1 h1).full _) ((sreads_varfloat a.2 h2).full _)]
    unfold dcStep
    cases addF st (idx + a.1) (vfValue a.2) <;> rfl
  · intro st idx k hk
    rcases take_append_cases _ _ k hk with ⟨k1, k2⟩ | ⟨k', k1, _, k2⟩
    · show dcItem st idx ((encVarint64 a.1 ++ encVarfloatBits a.2).take k) = _
      rw [k2, dcItem_of_err1 _ _ _ _ ((sreads_varint a.1 h1).cut k k1)]
    · show dcItem st idx ((encVarint64 a.1 ++ encVarfloatBits a.2).take k) = _
      have := (sreads_varint a.1 h1).full ((encVarfloatBits a.2).take k')
      rw [k2, dcItem_of_err2 _ _ _ _ _ _ this ((sreads_varfloat a.2 h2).cut k' k1)]

theorem dItem_of_ok (st : Store) (idx : Int) (bs bs1 : Bytes) (d : Int)
    (h1 : Sketch.liftDec (decVarint64 bs) = .ok (d, bs1)) :
    dItem st idx bs = (st.addWithCount (idx + d) 1).map (fun st' => .ok (st', idx + d, bs1)) := by
  unfold dItem; rw [h1]

theorem dItem_of_err (st : Store) (idx : Int) (bs : Bytes) (e : SkErr)
    (h1 : Sketch.liftDec (decVarint64 bs) = .error e) : dItem st idx bs = some (.error e) := by
  unfold dItem; rw [h1]

theorem addF_one (st : Store) (i : Int) : addF st i F64.one = st.addWithCount i 1 := rfl

theorem dItem_reads (a : Int) (h1 : I64 a) : ItemReads dItem encVarint64 dStep a := by
  constructor
  · intro st idx rest
    rw [dItem_of_ok _ _ _ _ _ ((sreads_varint a h1).full _)]
    unfold dStep
    rw [addF_one]
    cases st.addWithCount (idx + a) 1 <;> rfl
  · intro st idx k hk
    rw [dItem_of_err _ _ _ _ ((sreads_varint a h1).cut k hk)]

theorem ccItem_of_ok (stride : Int) (st : Store) (idx : Int) (bs bs1 : Bytes) (c : F64)
    (h1 : Sketch.liftDec (decVarfloat64 bs) = .ok (c, bs1)) :
    ccItem stride st idx bs = (addF st idx c).map (fun st' => .ok (st', idx + stride, bs1)) := by
  unfold ccItem; rw [h1]

theorem ccItem_of_err (stride : Int) (st : Store) (idx : Int) (bs : Bytes) (e : SkErr)
    (h1 : Sketch.liftDec (decVarfloat64 bs) = .error e) :
    ccItem stride st idx bs = some (.error e) := by
  unfold ccItem; rw [h1]

theorem ccItem_reads (stride : Int) (a : Nat) (h1 : a < W64) :
    ItemReads (ccItem stride) encVarfloatBits (ccStep stride) a := by
  constructor
  · intro st idx rest
    rw [ccItem_of_ok _ _ _ _ _ _ ((sreads_varfloat a h1).full _)]
    unfold ccStep
    cases addF st idx (vfValue a) <;> rfl
  · intro st idx k hk
    rw [ccItem_of_err _ _ _ _ _ ((sreads_varfloat a h1).cut k hk)]

/-- the steps of a whole item list -/
def foldSteps {α} (step : Store → Int → α → Option (Store × Int)) : Store → Int → List α → Option Store
  | st, _, [] => some st
  | st, idx, a :: l =>
    match step st idx a with
    | none => none
    | some r => foldSteps step r.1 r.2 l

theorem decItems_enc {α} (item : Store → Int → Bytes → Option (Except SkErr (Store × Int × Bytes)))
    (enc : α → Bytes) (step : Store → Int → α → Option (Store × Int)) (l : List α)
    (h : ∀ a ∈ l, ItemReads item enc step a) (st : Store) (idx : Int) (rest : Bytes) :
    decItems item l.length st idx (l.flatMap enc ++ rest) =
      (match foldSteps step st idx l with
       | none => none
       | some st' => some (.ok (st', rest))) := by
  induction l generalizing st idx with
  | nil => rfl
  | cons a l ih =>
    simp only [List.length_cons, List.flatMap_cons, List.append_assoc, decItems, foldSteps]
    rw [(h a (by simp)).full]
    cases step st idx a with
    | none => rfl
    | some r => exact ih (fun b hb => h b (by simp [hb])) r.1 r.2

theorem decItems_take {α} (item : Store → Int → Bytes → Option (Except SkErr (Store × Int × Bytes)))
    (enc : α → Bytes) (step : Store → Int → α → Option (Store × Int)) (l : List α)
    (h : ∀ a ∈ l, ItemReads item enc step a) (st : Store) (idx : Int)
    (hs : foldSteps step st idx l ≠ none) (k : Nat) (hk : k < (l.flatMap enc).length) :
    decItems item l.length st idx ((l.flatMap enc).take k) = some (.error .eof) := by
  induction l generalizing st idx k with
  | nil => simp at hk
  | cons a l ih =>
    simp only [List.length_cons, List.flatMap_cons, decItems] at hk ⊢
    rcases take_append_cases (enc a) (l.flatMap enc) k hk with ⟨h1, h2⟩ | ⟨k', h1, _, h2⟩
    · rw [h2, (h a (by simp)).cut st idx k h1]
    · rw [h2, (h a (by simp)).full]
      simp only [foldSteps] at hs
      cases hst : step st idx a with
      | none => rw [hst] at hs; exact absurd rfl hs
      | some r =>
        rw [hst] at hs
        exact ih (fun b hb => h b (by simp [hb])) r.1 r.2 hs k' h1

/-! #### the bins a payload denotes, with an explicit running index -/

def dcBins (idx : Int) : List (Int × Nat) → List (Int × F64)
  | [] => []
  | p :: rest => (idx + p.1, vfValue p.2) :: dcBins (idx + p.1) rest
def dBins (idx : Int) : List Int → List (Int × F64)
  | [] => []
  | d :: rest => (idx + d, F64.one) :: dBins (idx + d) rest
def ccBins (stride : Int) (idx : Int) : List Nat → List (Int × F64)
  | [] => []
  | c :: rest => (idx, vfValue c) :: ccBins stride (idx + stride) rest

theorem dc_foldl (items : List (Int × Nat)) (i0 : Int) (acc : List (Int × F64)) :
    (items.foldl (fun (acc : Int × List (Int × F64)) p =>
        (acc.1 + p.1, (acc.1 + p.1, vfValue p.2) :: acc.2)) (i0, acc)).2.reverse
      = acc.reverse ++ dcBins i0 items := by
  induction items generalizing i0 acc with
  | nil => simp [dcBins]
  | cons p items ih => simp [List.foldl_cons, ih, dcBins]

theorem d_foldl (items : List Int) (i0 : Int) (acc : List (Int × F64)) :
    (items.foldl (fun (acc : Int × List (Int × F64)) d =>
        (acc.1 + d, (acc.1 + d, F64.one) :: acc.2)) (i0, acc)).2.reverse
      = acc.reverse ++ dBins i0 items := by
  induction items generalizing i0 acc with
  | nil => simp [dBins]
  | cons p items ih => simp [List.foldl_cons, ih, dBins]

theorem cc_zipIdx (start stride : Int) (counts : List Nat) (n : Nat) :
    (counts.zipIdx n).map (fun (c, k) => (start + stride * (k : Int), vfValue c))
      = ccBins stride (start + stride * (n : Int)) counts := by
  induction counts generalizing n with
  | nil => simp [ccBins]
  | cons c counts ih =>
    simp only [List.zipIdx_cons, List.map_cons, ccBins, ih (n + 1)]
    congr 2
    rw [Int.natCast_add, Int.mul_add]; simp [Int.add_assoc]

theorem payloadBins_dc (items : List (Int × Nat)) :
    payloadBins (.deltasCounts items) = dcBins 0 items := by
  simp [payloadBins, dc_foldl]
theorem payloadBins_d (items : List Int) : payloadBins (.deltas items) = dBins 0 items := by
  simp [payloadBins, d_foldl]
theorem payloadBins_cc (start stride : Int) (counts : List Nat) :
    payloadBins (.contiguous start stride counts) = ccBins stride start counts := by
  have := cc_zipIdx start stride counts 0
  simpa [payloadBins] using this

theorem foldSteps_dc (st : Store) (idx : Int) (items : List (Int × Nat)) :
    foldSteps dcStep st idx items = addBins st (dcBins idx items) := by
  induction items generalizing st idx with
  | nil => rfl
  | cons p items ih =>
    simp only [foldSteps, dcBins, addBins, dcStep]
    cases addF st (idx + p.1) (vfValue p.2) with
    | none => rfl
    | some st' => exact ih st' _

theorem foldSteps_d (st : Store) (idx : Int) (items : List Int) :
    foldSteps dStep st idx items = addBins st (dBins idx items) := by
  induction items generalizing st idx with
  | nil => rfl
  | cons p items ih =>
    simp only [foldSteps, dBins, addBins, dStep]
    cases addF st (idx + p) F64.one with
    | none => rfl
    | some st' => exact ih st' _

theorem foldSteps_cc (stride : Int) (st : Store) (idx : Int) (counts : List Nat) :
    foldSteps (ccStep stride) st idx counts = addBins st (ccBins stride idx counts) := by
  induction counts generalizing st idx with
  | nil => rfl
  | cons p items ih =>
    simp only [foldSteps, ccBins, addBins, ccStep]
    cases addF st idx (vfValue p) with
    | none => rfl
    | some st' => exact ih st' _

/-! #### `decodeStore` on an encoded payload, whole and cut -/

theorem decodeStore_dc_ok (st : Store) (bs bs1 : Bytes) (n : Nat)
    (h : Sketch.liftDec (decUvarint64 bs) = .ok (n, bs1)) :
    decodeStore st Consts.binEncodingIndexDeltasAndCounts bs = decItems dcItem n st 0 bs1 := by
  rw [decodeStore_eq, if_pos rfl, h]

theorem decodeStore_d_ok (st : Store) (bs bs1 : Bytes) (n : Nat)
    (h : Sketch.liftDec (decUvarint64 bs) = .ok (n, bs1)) :
    decodeStore st Consts.binEncodingIndexDeltas bs = decItems dItem n st 0 bs1 := by
  rw [decodeStore_eq, if_neg subs_ne.1, if_pos rfl, h]

theorem decodeStore_cc_ok (st : Store) (bs bs1 bs2 bs3 : Bytes) (n : Nat) (start stride : Int)
    (h1 : Sketch.liftDec (decUvarint64 bs) = .ok (n, bs1))
    (h2 : Sketch.liftDec (decVarint64 bs1) = .ok (start, bs2))
    (h3 : Sketch.liftDec (decVarint64 bs2) = .ok (stride, bs3)) :
    decodeStore st Consts.binEncodingContiguousCounts bs = decItems (ccItem stride) n st start bs3 := by
  rw [decodeStore_eq, if_neg subs_ne.2.1, if_neg subs_ne.2.2, if_pos rfl, h1]
  simp only
  rw [h2]
  simp only
  rw [h3]

theorem decodeStore_err1 (st : Store) (p : BinsPayload) (bs : Bytes) (e : SkErr)
    (h : Sketch.liftDec (decUvarint64 bs) = .error e) :
    decodeStore st (payloadSub p) bs = some (.error e) := by
  cases p with
  | deltasCounts items => rw [payloadSub, decodeStore_eq, if_pos rfl, h]
  | deltas items => rw [payloadSub, decodeStore_eq, if_neg subs_ne.1, if_pos rfl, h]
  | contiguous a b c =>
    rw [payloadSub, decodeStore_eq, if_neg subs_ne.2.1, if_neg subs_ne.2.2, if_pos rfl, h]

theorem decodeStore_cc_err2 (st : Store) (bs bs1 : Bytes) (n : Nat) (e : SkErr)
    (h1 : Sketch.liftDec (decUvarint64 bs) = .ok (n, bs1))
    (h2 : Sketch.liftDec (decVarint64 bs1) = .error e) :
    decodeStore st Consts.binEncodingContiguousCounts bs = some (.error e) := by
  rw [decodeStore_eq, if_neg subs_ne.2.1, if_neg subs_ne.2.2, if_pos rfl, h1]
  simp only
  rw [h2]

theorem decodeStore_cc_err3 (st : Store) (bs bs1 bs2 : Bytes) (n : Nat) (start : Int) (e : SkErr)
    (h1 : Sketch.liftDec (decUvarint64 bs) = .ok (n, bs1))
    (h2 : Sketch.liftDec (decVarint64 bs1) = .ok (start, bs2))
    (h3 : Sketch.liftDec (decVarint64 bs2) = .error e) :
    decodeStore st Consts.binEncodingContiguousCounts bs = some (.error e) := by
  rw [decodeStore_eq, if_neg subs_ne.2.1, if_neg subs_ne.2.2, if_pos rfl, h1]
  simp only
  rw [h2]
  simp only
  rw [h3]

theorem decodeStore_encPayload (st : Store) (p : BinsPayload) (hp : p.WF) (rest : Bytes) :
    decodeStore st (payloadSub p) (encPayload p ++ rest) =
      (match addBins st (payloadBins p) with
       | none => none
       | some st' => some (.ok (st', rest))) := by
  cases p with
  | deltasCounts items =>
    obtain ⟨h, hi⟩ := hp
    rw [payloadSub, encPayload, List.append_assoc,
      decodeStore_dc_ok _ _ _ _ ((sreads_uvarint _ h).full _),
      decItems_enc dcItem _ dcStep items (fun a ha => dcItem_reads a (hi a ha).1 (hi a ha).2),
      foldSteps_dc, payloadBins_dc]
  | deltas items =>
    obtain ⟨h, hi⟩ := hp
    rw [payloadSub, encPayload, List.append_assoc,
      decodeStore_d_ok _ _ _ _ ((sreads_uvarint _ h).full _),
      decItems_enc dItem _ dStep items (fun a ha => dItem_reads a (hi a ha)),
      foldSteps_d, payloadBins_d]
  | contiguous start stride counts =>
    obtain ⟨h, hs, ht, hi⟩ := hp
    rw [payloadSub, encPayload, List.append_assoc, List.append_assoc, List.append_assoc,
      decodeStore_cc_ok _ _ _ _ _ _ _ _ ((sreads_uvarint _ h).full _)
        ((sreads_varint _ hs).full _) ((sreads_varint _ ht).full _),
      decItems_enc (ccItem stride) _ (ccStep stride) counts (fun a ha => ccItem_reads stride a (hi a ha)),
      foldSteps_cc, payloadBins_cc]

theorem decodeStore_take (st : Store) (p : BinsPayload) (hp : p.WF)
    (hs : addBins st (payloadBins p) ≠ none) (k : Nat) (hk : k < (encPayload p).length) :
    decodeStore st (payloadSub p) ((encPayload p).take k) = some (.error .eof) := by
  cases p with
  | deltasCounts items =>
    obtain ⟨h, hi⟩ := hp
    rw [payloadBins_dc, ← foldSteps_dc] at hs
    rw [encPayload] at hk ⊢
    rcases take_append_cases _ _ k hk with ⟨k1, k2⟩ | ⟨m1, k1, _, k2⟩
    · rw [k2]; exact decodeStore_err1 _ (.deltasCounts items) _ _ ((sreads_uvarint _ h).cut k k1)
    · rw [k2, payloadSub, decodeStore_dc_ok _ _ _ _ ((sreads_uvarint _ h).full _)]
      exact decItems_take dcItem _ dcStep items
        (fun a ha => dcItem_reads a (hi a ha).1 (hi a ha).2) st 0 hs m1 k1
  | deltas items =>
    obtain ⟨h, hi⟩ := hp
    rw [payloadBins_d, ← foldSteps_d] at hs
    rw [encPayload] at hk ⊢
    rcases take_append_cases _ _ k hk with ⟨k1, k2⟩ | ⟨m1, k1, _, k2⟩
    · rw [k2]; exact decodeStore_err1 _ (.deltas items) _ _ ((sreads_uvarint _ h).cut k k1)
    · rw [k2, payloadSub, decodeStore_d_ok _ _ _ _ ((sreads_uvarint _ h).full _)]
      exact decItems_take dItem _ dStep items (fun a ha => dItem_reads a (hi a ha)) st 0 hs m1 k1
  | contiguous start stride counts =>
    obtain ⟨h, hst, htr, hi⟩ := hp
    rw [payloadBins_cc, ← foldSteps_cc] at hs
    rw [encPayload, List.append_assoc, List.append_assoc] at hk ⊢
    rcases take_append_cases _ _ k hk with ⟨k1, k2⟩ | ⟨m1, k1, _, k2⟩
    · rw [k2]
      exact decodeStore_err1 _ (.contiguous start stride counts) _ _ ((sreads_uvarint _ h).cut k k1)
    rw [k2, payloadSub]
    have r1 := (sreads_uvarint _ h).full
    rcases take_append_cases _ _ m1 k1 with ⟨k3, k4⟩ | ⟨m2, k3, _, k4⟩
    · rw [k4]
      exact decodeStore_cc_err2 _ _ _ _ _ (r1 _) ((sreads_varint _ hst).cut m1 k3)
    rw [k4]
    have r2 := (sreads_varint _ hst).full
    rcases take_append_cases _ _ m2 k3 with ⟨k5, k6⟩ | ⟨m3, k5, _, k6⟩
    · rw [k6]
      exact decodeStore_cc_err3 _ _ _ _ _ _ _ (r1 _) (r2 _) ((sreads_varint _ htr).cut m2 k5)
    rw [k6, decodeStore_cc_ok _ _ _ _ _ _ _ _ (r1 _) (r2 _) ((sreads_varint _ htr).full _)]
    exact decItems_take (ccItem stride) _ (ccStep stride) counts
      (fun a ha => ccItem_reads stride a (hi a ha)) st start hs m3 k5

/-! ### the transcribed decoder: the block loop -/

/-- the effect of a mapping block on the sketch -/
def mapResult (s : Sketch) (sub g o : Nat) : Except SkErr Sketch :=
  match MapId.ofBlock sub g o with
  | .error .unknownMapping => .error .unknownMapping
  | .error .gammaTooSmall => .error .badGamma
  | .ok id =>
    match s.mapping with
    | some cur => if cur.equals id then .ok { s with mapping := some id } else .error .mismatch
    | none => .ok { s with mapping := some id }

/-- what the documentation says one block does to a sketch being decoded into
    (`none`: a store panics / a weight is not finite) -/
def applyBlock (s : Sketch) (aux : DecAux) : Block → Option (Except SkErr (Sketch × DecAux))
  | .zeroCount x => some (.ok ({ s with zero := F64.add s.zero (vfValue x) }, aux))
  | .count x =>
    some (.ok (s, { aux with stats := aux.stats.map (fun st => st.addToCount (vfValue x)) }))
  | .sum x =>
    some (.ok (s, { aux with stats := aux.stats.map (fun st => st.addToSum (F64.ofBits (UInt64.ofNat x))) }))
  | .min x =>
    some (.ok (s, { aux with stats := aux.stats.map (fun st => st.add (F64.ofBits (UInt64.ofNat x)) (.fin 0)) }))
  | .max x =>
    some (.ok (s, { aux with stats := aux.stats.map (fun st => st.add (F64.ofBits (UInt64.ofNat x)) (.fin 0)) }))
  | .mapping sub g o =>
    match mapResult s sub g o with
    | .error e => some (.error e)
    | .ok s' => some (.ok (s', aux))
  | .bins .pos p =>
    match addBins s.pos (payloadBins p) with
    | none => none
    | some st => some (.ok ({ s with pos := st }, aux))
  | .bins .neg p =>
    match addBins s.neg (payloadBins p) with
    | none => none
    | some st => some (.ok ({ s with neg := st }, aux))

/-- fold `applyBlock` over a block list, stopping at the first refusal or panic -/
def applyBlocks : Sketch → DecAux → List Block → Option (Except SkErr (Sketch × DecAux))
  | s, aux, [] => some (.ok (s, aux))
  | s, aux, b :: bs =>
    match applyBlock s aux b with
    | none => none
    | some (.error e) => some (.error e)
    | some (.ok r) => applyBlocks r.1 r.2 bs

/-- continue after a step -/
def andThen (r : Option (Except SkErr (Sketch × DecAux)))
    (k : Sketch → DecAux → Option (Except SkErr (Sketch × DecAux))) :
    Option (Except SkErr (Sketch × DecAux)) :=
  match r with
  | none => none
  | some (.error e) => some (.error e)
  | some (.ok r) => k r.1 r.2

theorem decodeLoop_nil (n : Nat) (s : Sketch) (aux : DecAux) :
    decodeLoop n s aux [] = some (.ok (s, aux)) := by cases n <;> rfl

/-! #### one iteration, on opaque input -/

theorem loop_pos (n : Nat) (s : Sketch) (aux : DecAux) (f : Nat) (bs : Bytes)
    (ht : flagType f = Consts.flagTypePositiveStore) :
    decodeLoop (n + 1) s aux (f :: bs) =
      (match decodeStore s.pos (flagSub f) bs with
       | none => none
       | some (.error e) => some (.error e)
       | some (.ok (p, bs)) => decodeLoop n { s with pos := p } aux bs) := by
  simp only [decodeLoop, ht, if_true]
  rfl

theorem loop_neg (n : Nat) (s : Sketch) (aux : DecAux) (f : Nat) (bs : Bytes)
    (ht : flagType f = Consts.flagTypeNegativeStore) :
    decodeLoop (n + 1) s aux (f :: bs) =
      (match decodeStore s.neg (flagSub f) bs with
       | none => none
       | some (.error e) => some (.error e)
       | some (.ok (p, bs)) => decodeLoop n { s with neg := p } aux bs) := by
  simp only [decodeLoop, ht, if_true,
    if_neg (show ¬ Consts.flagTypeNegativeStore = Consts.flagTypePositiveStore by decide)]
  rfl

theorem loop_pos_ok (n : Nat) (s : Sketch) (aux : DecAux) (f : Nat) (bs bs' : Bytes) (p : Store)
    (ht : flagType f = Consts.flagTypePositiveStore)
    (h : decodeStore s.pos (flagSub f) bs = some (.ok (p, bs'))) :
    decodeLoop (n + 1) s aux (f :: bs) = decodeLoop n { s with pos := p } aux bs' := by
  rw [loop_pos n s aux f bs ht, h]
theorem loop_pos_none (n : Nat) (s : Sketch) (aux : DecAux) (f : Nat) (bs : Bytes)
    (ht : flagType f = Consts.flagTypePositiveStore)
    (h : decodeStore s.pos (flagSub f) bs = none) :
    decodeLoop (n + 1) s aux (f :: bs) = none := by
  rw [loop_pos n s aux f bs ht, h]
theorem loop_pos_err (n : Nat) (s : Sketch) (aux : DecAux) (f : Nat) (bs : Bytes) (e : SkErr)
    (ht : flagType f = Consts.flagTypePositiveStore)
    (h : decodeStore s.pos (flagSub f) bs = some (.error e)) :
    decodeLoop (n + 1) s aux (f :: bs) = some (.error e) := by
  rw [loop_pos n s aux f bs ht, h]

theorem loop_neg_ok (n : Nat) (s : Sketch) (aux : DecAux) (f : Nat) (bs bs' : Bytes) (p : Store)
    (ht : flagType f = Consts.flagTypeNegativeStore)
    (h : decodeStore s.neg (flagSub f) bs = some (.ok (p, bs'))) :
    decodeLoop (n + 1) s aux (f :: bs) = decodeLoop n { s with neg := p } aux bs' := by
  rw [loop_neg n s aux f bs ht, h]
theorem loop_neg_none (n : Nat) (s : Sketch) (aux : DecAux) (f : Nat) (bs : Bytes)
    (ht : flagType f = Consts.flagTypeNegativeStore)
    (h : decodeStore s.neg (flagSub f) bs = none) :
    decodeLoop (n + 1) s aux (f :: bs) = none := by
  rw [loop_neg n s aux f bs ht, h]
theorem loop_neg_err (n : Nat) (s : Sketch) (aux : DecAux) (f : Nat) (bs : Bytes) (e : SkErr)
    (ht : flagType f = Consts.flagTypeNegativeStore)
    (h : decodeStore s.neg (flagSub f) bs = some (.error e)) :
    decodeLoop (n + 1) s aux (f :: bs) = some (.error e) := by
  rw [loop_neg n s aux f bs ht, h]

/-- the sub-flags `mapping.Decode` knows -/
def KnownMapping (sub : Nat) : Prop :=
  sub = Consts.subFlagIndexMappingBaseLogarithmic ∨ sub = Consts.subFlagIndexMappingBaseLinear ∨
    sub = Consts.subFlagIndexMappingBaseCubic

instance (sub : Nat) : Decidable (KnownMapping sub) := by unfold KnownMapping; infer_instance

theorem loop_map (n : Nat) (s : Sketch) (aux : DecAux) (f : Nat) (bs : Bytes)
    (ht : flagType f = Consts.flagTypeIndexMapping) :
    decodeLoop (n + 1) s aux (f :: bs) =
      (match Sketch.liftDec (Codec.decF64LE bs) with
      | .error e => some (.error (if KnownMapping (flagSub f) then e else .unknownMapping))
      | .ok (g, bs1) =>
        if ¬ KnownMapping (flagSub f) then some (.error .unknownMapping)
        else match Sketch.liftDec (Codec.decF64LE bs1) with
        | .error e => some (.error e)
        | .ok (o, bs2) =>
          match MapId.ofBlock (flagSub f) g o with
          | .error .unknownMapping => some (.error .unknownMapping)
          | .error .gammaTooSmall => some (.error .badGamma)
          | .ok id =>
            match s.mapping with
            | some cur => if cur.equals id then decodeLoop n { s with mapping := some id } aux bs2 else some (.error .mismatch)
            | none => decodeLoop n { s with mapping := some id } aux bs2) := by
  simp only [decodeLoop, ht, if_true,
    if_neg (show ¬ Consts.flagTypeIndexMapping = Consts.flagTypePositiveStore by decide),
    if_neg (show ¬ Consts.flagTypeIndexMapping = Consts.flagTypeNegativeStore by decide)]
  rfl

theorem ofBlock_unknown (sub g o : Nat) (h : ¬ KnownMapping sub) :
    MapId.ofBlock sub g o = .error .unknownMapping := by
  unfold KnownMapping at h
  simp only [not_or] at h
  simp only [MapId.ofBlock, if_neg h.1, if_neg h.2.1, if_neg h.2.2]

theorem loop_map_err1 (n : Nat) (s : Sketch) (aux : DecAux) (f : Nat) (bs : Bytes) (e : SkErr)
    (ht : flagType f = Consts.flagTypeIndexMapping)
    (h1 : Sketch.liftDec (Codec.decF64LE bs) = .error e) :
    ∃ e', decodeLoop (n + 1) s aux (f :: bs) = some (.error e') := by
  rw [loop_map n s aux f bs ht, h1]
  exact ⟨_, rfl⟩

theorem loop_map_unknown (n : Nat) (s : Sketch) (aux : DecAux) (f : Nat) (bs bs1 : Bytes) (g : Nat)
    (ht : flagType f = Consts.flagTypeIndexMapping)
    (h1 : Sketch.liftDec (Codec.decF64LE bs) = .ok (g, bs1)) (hk : ¬ KnownMapping (flagSub f)) :
    decodeLoop (n + 1) s aux (f :: bs) = some (.error .unknownMapping) := by
  rw [loop_map n s aux f bs ht, h1]
  simp only [hk, not_false_eq_true, if_true]

theorem loop_map_err2 (n : Nat) (s : Sketch) (aux : DecAux) (f : Nat) (bs bs1 : Bytes) (g : Nat)
    (e : SkErr) (ht : flagType f = Consts.flagTypeIndexMapping)
    (h1 : Sketch.liftDec (Codec.decF64LE bs) = .ok (g, bs1)) (hk : KnownMapping (flagSub f))
    (h2 : Sketch.liftDec (Codec.decF64LE bs1) = .error e) :
    decodeLoop (n + 1) s aux (f :: bs) = some (.error e) := by
  rw [loop_map n s aux f bs ht, h1]
  simp only [hk, not_true_eq_false, if_false]
  rw [h2]

theorem loop_map_ok (n : Nat) (s : Sketch) (aux : DecAux) (f : Nat) (bs bs1 bs2 : Bytes) (g o : Nat)
    (ht : flagType f = Consts.flagTypeIndexMapping)
    (h1 : Sketch.liftDec (Codec.decF64LE bs) = .ok (g, bs1)) (hk : KnownMapping (flagSub f))
    (h2 : Sketch.liftDec (Codec.decF64LE bs1) = .ok (o, bs2)) :
    decodeLoop (n + 1) s aux (f :: bs) =
      (match mapResult s (flagSub f) g o with
       | .error e => some (.error e)
       | .ok s' => decodeLoop n s' aux bs2) := by
  rw [loop_map n s aux f bs ht, h1]
  simp only [hk, not_true_eq_false, if_false]
  rw [h2]
  simp only [mapResult]
  cases MapId.ofBlock (flagSub f) g o with
  | error e => cases e <;> rfl
  | ok id =>
    simp only
    cases s.mapping with
    | none => rfl
    | some cur =>
      simp only
      split <;> rfl

def zeroFlag : Nat := mkFlag Consts.flagTypeSketchFeatures Consts.subFlagZeroCountVarFloat

theorem loop_zero (n : Nat) (s : Sketch) (aux : DecAux) (bs : Bytes) :
    decodeLoop (n + 1) s aux (zeroFlag :: bs) =
      (match Sketch.liftDec (Codec.decVarfloat64 bs) with
       | .error e => some (.error e)
       | .ok (z, bs) => decodeLoop n { s with zero := F64.add s.zero z } aux bs) := by
  have h1 : flagType zeroFlag ≠ Consts.flagTypePositiveStore := by decide
  have h2 : flagType zeroFlag ≠ Consts.flagTypeNegativeStore := by decide
  have h3 : flagType zeroFlag ≠ Consts.flagTypeIndexMapping := by decide
  simp only [decodeLoop, if_neg h1, if_neg h2, if_neg h3]
  rw [if_pos (show zeroFlag = mkFlag Consts.flagTypeSketchFeatures Consts.subFlagZeroCountVarFloat from rfl)]
  rfl

theorem loop_zero_ok (n : Nat) (s : Sketch) (aux : DecAux) (bs bs' : Bytes) (z : F64)
    (h : Sketch.liftDec (Codec.decVarfloat64 bs) = .ok (z, bs')) :
    decodeLoop (n + 1) s aux (zeroFlag :: bs) =
      decodeLoop n { s with zero := F64.add s.zero z } aux bs' := by
  rw [loop_zero, h]

theorem loop_zero_err (n : Nat) (s : Sketch) (aux : DecAux) (bs : Bytes) (e : SkErr)
    (h : Sketch.liftDec (Codec.decVarfloat64 bs) = .error e) :
    decodeLoop (n + 1) s aux (zeroFlag :: bs) = some (.error e) := by
  rw [loop_zero, h]

theorem loop_fallback (n : Nat) (s : Sketch) (aux : DecAux) (f : Nat) (bs : Bytes)
    (ht : flagType f = Consts.flagTypeSketchFeatures) (hz : f ≠ zeroFlag) :
    decodeLoop (n + 1) s aux (f :: bs) =
      (match fallback aux f bs with
       | .error e => some (.error e)
       | .ok (aux, bs) => decodeLoop n s aux bs) := by
  simp only [decodeLoop, ht,
    if_neg (show ¬ Consts.flagTypeSketchFeatures = Consts.flagTypePositiveStore by decide),
    if_neg (show ¬ Consts.flagTypeSketchFeatures = Consts.flagTypeNegativeStore by decide),
    if_neg (show ¬ Consts.flagTypeSketchFeatures = Consts.flagTypeIndexMapping by decide)]
  rw [if_neg (show ¬ f = mkFlag Consts.flagTypeSketchFeatures Consts.subFlagZeroCountVarFloat from hz)]
  rfl

theorem loop_fallback_ok (n : Nat) (s : Sketch) (aux aux' : DecAux) (f : Nat) (bs bs' : Bytes)
    (ht : flagType f = Consts.flagTypeSketchFeatures) (hz : f ≠ zeroFlag)
    (h : fallback aux f bs = .ok (aux', bs')) :
    decodeLoop (n + 1) s aux (f :: bs) = decodeLoop n s aux' bs' := by
  rw [loop_fallback n s aux f bs ht hz, h]

theorem loop_fallback_err (n : Nat) (s : Sketch) (aux : DecAux) (f : Nat) (bs : Bytes) (e : SkErr)
    (ht : flagType f = Consts.flagTypeSketchFeatures) (hz : f ≠ zeroFlag)
    (h : fallback aux f bs = .error e) :
    decodeLoop (n + 1) s aux (f :: bs) = some (.error e) := by
  rw [loop_fallback n s aux f bs ht hz, h]

/-! `fallback` on the four statistics flags -/

def countFlag : Nat := mkFlag Consts.flagTypeSketchFeatures Consts.subFlagCount
def sumFlag : Nat := mkFlag Consts.flagTypeSketchFeatures Consts.subFlagSum
def minFlag : Nat := mkFlag Consts.flagTypeSketchFeatures Consts.subFlagMin
def maxFlag : Nat := mkFlag Consts.flagTypeSketchFeatures Consts.subFlagMax

theorem fallback_count (aux : DecAux) (bs : Bytes) : fallback aux countFlag bs =
    (match Sketch.liftDec (Codec.decVarfloat64 bs) with
     | .error e => .error e
     | .ok (c, bs) => .ok ({ aux with stats := aux.stats.map (fun st => st.addToCount c) }, bs)) := by
  have h1 : ¬ flagType countFlag ≠ Consts.flagTypeSketchFeatures := by decide
  have h2 : flagSub countFlag = Consts.subFlagCount := by decide
  simp only [fallback, if_neg h1, if_pos h2]
  rfl

theorem fallback_sum (aux : DecAux) (bs : Bytes) : fallback aux sumFlag bs =
    (match Sketch.liftDec (Codec.decF64LE bs) with
     | .error e => .error e
     | .ok (b, bs) => .ok ({ aux with stats := aux.stats.map (fun st => st.addToSum (F64.ofBits (UInt64.ofNat b))) }, bs)) := by
  have h1 : ¬ flagType sumFlag ≠ Consts.flagTypeSketchFeatures := by decide
  have h2 : ¬ flagSub sumFlag = Consts.subFlagCount := by decide
  have h3 : flagSub sumFlag = Consts.subFlagSum := by decide
  simp only [fallback, if_neg h1, if_neg h2, if_pos h3]
  rfl

theorem fallback_min (aux : DecAux) (bs : Bytes) : fallback aux minFlag bs =
    (match Sketch.liftDec (Codec.decF64LE bs) with
     | .error e => .error e
     | .ok (b, bs) => .ok ({ aux with stats := aux.stats.map (fun st => st.add (F64.ofBits (UInt64.ofNat b)) (.fin 0)) }, bs)) := by
  have h1 : ¬ flagType minFlag ≠ Consts.flagTypeSketchFeatures := by decide
  have h2 : ¬ flagSub minFlag = Consts.subFlagCount := by decide
  have h3 : ¬ flagSub minFlag = Consts.subFlagSum := by decide
  have h4 : flagSub minFlag = Consts.subFlagMin ∨ flagSub minFlag = Consts.subFlagMax := by decide
  simp only [fallback, if_neg h1, if_neg h2, if_neg h3, if_pos h4]
  rfl

theorem fallback_max (aux : DecAux) (bs : Bytes) : fallback aux maxFlag bs =
    (match Sketch.liftDec (Codec.decF64LE bs) with
     | .error e => .error e
     | .ok (b, bs) => .ok ({ aux with stats := aux.stats.map (fun st => st.add (F64.ofBits (UInt64.ofNat b)) (.fin 0)) }, bs)) := by
  have h1 : ¬ flagType maxFlag ≠ Consts.flagTypeSketchFeatures := by decide
  have h2 : ¬ flagSub maxFlag = Consts.subFlagCount := by decide
  have h3 : ¬ flagSub maxFlag = Consts.subFlagSum := by decide
  have h4 : flagSub maxFlag = Consts.subFlagMin ∨ flagSub maxFlag = Consts.subFlagMax := by decide
  simp only [fallback, if_neg h1, if_neg h2, if_neg h3, if_pos h4]
  rfl

theorem fallback_count_ok (aux : DecAux) (bs bs' : Bytes) (c : F64)
    (h : Sketch.liftDec (Codec.decVarfloat64 bs) = .ok (c, bs')) :
    fallback aux countFlag bs =
      .ok ({ aux with stats := aux.stats.map (fun st => st.addToCount c) }, bs') := by
  rw [fallback_count, h]
theorem fallback_count_err (aux : DecAux) (bs : Bytes) (e : SkErr)
    (h : Sketch.liftDec (Codec.decVarfloat64 bs) = .error e) :
    fallback aux countFlag bs = .error e := by
  rw [fallback_count, h]
theorem fallback_sum_ok (aux : DecAux) (bs bs' : Bytes) (b : Nat)
    (h : Sketch.liftDec (Codec.decF64LE bs) = .ok (b, bs')) :
    fallback aux sumFlag bs =
      .ok ({ aux with stats := aux.stats.map (fun st => st.addToSum (F64.ofBits (UInt64.ofNat b))) }, bs') := by
  rw [fallback_sum, h]
theorem fallback_sum_err (aux : DecAux) (bs : Bytes) (e : SkErr)
    (h : Sketch.liftDec (Codec.decF64LE bs) = .error e) :
    fallback aux sumFlag bs = .error e := by
  rw [fallback_sum, h]
theorem fallback_min_ok (aux : DecAux) (bs bs' : Bytes) (b : Nat)
    (h : Sketch.liftDec (Codec.decF64LE bs) = .ok (b, bs')) :
    fallback aux minFlag bs =
      .ok ({ aux with stats := aux.stats.map (fun st => st.add (F64.ofBits (UInt64.ofNat b)) (.fin 0)) }, bs') := by
  rw [fallback_min, h]
theorem fallback_min_err (aux : DecAux) (bs : Bytes) (e : SkErr)
    (h : Sketch.liftDec (Codec.decF64LE bs) = .error e) :
    fallback aux minFlag bs = .error e := by
  rw [fallback_min, h]
theorem fallback_max_ok (aux : DecAux) (bs bs' : Bytes) (b : Nat)
    (h : Sketch.liftDec (Codec.decF64LE bs) = .ok (b, bs')) :
    fallback aux maxFlag bs =
      .ok ({ aux with stats := aux.stats.map (fun st => st.add (F64.ofBits (UInt64.ofNat b)) (.fin 0)) }, bs') := by
  rw [fallback_max, h]
theorem fallback_max_err (aux : DecAux) (bs : Bytes) (e : SkErr)
    (h : Sketch.liftDec (Codec.decF64LE bs) = .error e) :
    fallback aux maxFlag bs = .error e := by
  rw [fallback_max, h]

theorem stat_flags : (flagType countFlag = Consts.flagTypeSketchFeatures ∧ countFlag ≠ zeroFlag) ∧
    (flagType sumFlag = Consts.flagTypeSketchFeatures ∧ sumFlag ≠ zeroFlag) ∧
    (flagType minFlag = Consts.flagTypeSketchFeatures ∧ minFlag ≠ zeroFlag) ∧
    (flagType maxFlag = Consts.flagTypeSketchFeatures ∧ maxFlag ≠ zeroFlag) := by decide

theorem encBlock_zeroCount (x : Nat) : encBlock (.zeroCount x) = zeroFlag :: encVarfloatBits x := rfl
theorem encBlock_count (x : Nat) : encBlock (.count x) = countFlag :: encVarfloatBits x := rfl
theorem encBlock_sum (x : Nat) : encBlock (.sum x) = sumFlag :: encF64LE x := rfl
theorem encBlock_min (x : Nat) : encBlock (.min x) = minFlag :: encF64LE x := rfl
theorem encBlock_max (x : Nat) : encBlock (.max x) = maxFlag :: encF64LE x := rfl
theorem encBlock_mapping (sub g o : Nat) : encBlock (.mapping sub g o) =
    mkFlag Consts.flagTypeIndexMapping sub :: (encF64LE g ++ encF64LE o) := rfl
theorem encBlock_bins_pos (p : BinsPayload) : encBlock (.bins .pos p) =
    mkFlag Consts.flagTypePositiveStore (payloadSub p) :: encPayload p := rfl
theorem encBlock_bins_neg (p : BinsPayload) : encBlock (.bins .neg p) =
    mkFlag Consts.flagTypeNegativeStore (payloadSub p) :: encPayload p := rfl

/-! #### one encoded block -/

theorem decodeLoop_encBlock (b : Block) (hb : b.WF) (n : Nat) (s : Sketch) (aux : DecAux)
    (tail : Bytes) :
    decodeLoop (n + 1) s aux (encBlock b ++ tail) =
      andThen (applyBlock s aux b) (fun s' aux' => decodeLoop n s' aux' tail) := by
  obtain ⟨⟨c1, c2⟩, ⟨s1, s2⟩, ⟨m1, m2⟩, ⟨x1, x2⟩⟩ := stat_flags
  cases b with
  | zeroCount x =>
    rw [encBlock_zeroCount, List.cons_append]
    rw [loop_zero_ok _ _ _ _ _ _ ((sreads_varfloat x hb).full tail)]
    rfl
  | count x =>
    rw [encBlock_count, List.cons_append]
    rw [loop_fallback_ok _ _ _ _ _ _ _ c1 c2
      (fallback_count_ok _ _ _ _ ((sreads_varfloat x hb).full tail))]
    rfl
  | sum x =>
    rw [encBlock_sum, List.cons_append]
    rw [loop_fallback_ok _ _ _ _ _ _ _ s1 s2
      (fallback_sum_ok _ _ _ _ ((sreads_f64le x hb).full tail))]
    rfl
  | min x =>
    rw [encBlock_min, List.cons_append]
    rw [loop_fallback_ok _ _ _ _ _ _ _ m1 m2
      (fallback_min_ok _ _ _ _ ((sreads_f64le x hb).full tail))]
    rfl
  | max x =>
    rw [encBlock_max, List.cons_append]
    rw [loop_fallback_ok _ _ _ _ _ _ _ x1 x2
      (fallback_max_ok _ _ _ _ ((sreads_f64le x hb).full tail))]
    rfl
  | mapping sub g o =>
    obtain ⟨hs, hg, ho⟩ := hb
    obtain ⟨h1, h2⟩ := flag_mk Consts.flagTypeIndexMapping sub (by decide)
    rw [encBlock_mapping, List.cons_append, List.append_assoc]
    by_cases hk : KnownMapping sub
    · rw [loop_map_ok _ _ _ _ _ _ _ _ _ h1 ((sreads_f64le g hg).full _) (by rw [h2]; exact hk)
        ((sreads_f64le o ho).full _), h2]
      simp only [applyBlock]
      cases mapResult s sub g o <;> rfl
    · rw [loop_map_unknown _ _ _ _ _ _ _ h1 ((sreads_f64le g hg).full _) (by rw [h2]; exact hk)]
      simp only [applyBlock, mapResult, ofBlock_unknown sub g o hk]
      rfl
  | bins side p =>
    cases side with
    | pos =>
      obtain ⟨h1, h2⟩ := flag_mk Consts.flagTypePositiveStore (payloadSub p) (by decide)
      rw [encBlock_bins_pos, List.cons_append]
      have hd := decodeStore_encPayload s.pos p hb tail
      rw [← h2] at hd
      simp only [applyBlock]
      cases hab : addBins s.pos (payloadBins p) with
      | none =>
        rw [hab] at hd
        rw [loop_pos_none _ _ _ _ _ h1 hd]; rfl
      | some st =>
        rw [hab] at hd
        rw [loop_pos_ok _ _ _ _ _ _ _ h1 hd]; rfl
    | neg =>
      obtain ⟨h1, h2⟩ := flag_mk Consts.flagTypeNegativeStore (payloadSub p) (by decide)
      rw [encBlock_bins_neg, List.cons_append]
      have hd := decodeStore_encPayload s.neg p hb tail
      rw [← h2] at hd
      simp only [applyBlock]
      cases hab : addBins s.neg (payloadBins p) with
      | none =>
        rw [hab] at hd
        rw [loop_neg_none _ _ _ _ _ h1 hd]; rfl
      | some st =>
        rw [hab] at hd
        rw [loop_neg_ok _ _ _ _ _ _ _ h1 hd]; rfl

theorem lt_of_succ_lt_cons_length {x : Nat} {l : Bytes} {k : Nat} (h : k + 1 < (x :: l).length) :
    k < l.length := by rw [List.length_cons] at h; omega

theorem decodeLoop_take_encBlock (b : Block) (hb : b.WF) (n : Nat) (s : Sketch) (aux : DecAux)
    (k : Nat) (h0 : 0 < k) (hk : k < (encBlock b).length) (hsafe : applyBlock s aux b ≠ none) :
    ∃ e, decodeLoop (n + 1) s aux ((encBlock b).take k) = some (.error e) := by
  obtain ⟨⟨c1, c2⟩, ⟨s1, s2⟩, ⟨m1, m2⟩, ⟨x1, x2⟩⟩ := stat_flags
  obtain ⟨k, rfl⟩ : ∃ k', k = k' + 1 := ⟨k - 1, by omega⟩
  cases b with
  | zeroCount x =>
    rw [encBlock_zeroCount] at hk ⊢
    rw [List.take_succ_cons]
    exact ⟨_, loop_zero_err _ _ _ _ _ ((sreads_varfloat x hb).cut k (lt_of_succ_lt_cons_length hk))⟩
  | count x =>
    rw [encBlock_count] at hk ⊢
    rw [List.take_succ_cons]
    exact ⟨_, loop_fallback_err _ _ _ _ _ _ c1 c2
      (fallback_count_err _ _ _ ((sreads_varfloat x hb).cut k (lt_of_succ_lt_cons_length hk)))⟩
  | sum x =>
    rw [encBlock_sum] at hk ⊢
    rw [List.take_succ_cons]
    exact ⟨_, loop_fallback_err _ _ _ _ _ _ s1 s2
      (fallback_sum_err _ _ _ ((sreads_f64le x hb).cut k (lt_of_succ_lt_cons_length hk)))⟩
  | min x =>
    rw [encBlock_min] at hk ⊢
    rw [List.take_succ_cons]
    exact ⟨_, loop_fallback_err _ _ _ _ _ _ m1 m2
      (fallback_min_err _ _ _ ((sreads_f64le x hb).cut k (lt_of_succ_lt_cons_length hk)))⟩
  | max x =>
    rw [encBlock_max] at hk ⊢
    rw [List.take_succ_cons]
    exact ⟨_, loop_fallback_err _ _ _ _ _ _ x1 x2
      (fallback_max_err _ _ _ ((sreads_f64le x hb).cut k (lt_of_succ_lt_cons_length hk)))⟩
  | mapping sub g o =>
    obtain ⟨hs, hg, ho⟩ := hb
    obtain ⟨h1, h2⟩ := flag_mk Consts.flagTypeIndexMapping sub (by decide)
    rw [encBlock_mapping] at hk ⊢
    rw [List.take_succ_cons]
    have hk' : k < (encF64LE g ++ encF64LE o).length := lt_of_succ_lt_cons_length hk
    rcases take_append_cases _ _ k hk' with ⟨k1, k2⟩ | ⟨m, k1, _, k2⟩
    · rw [k2]
      exact loop_map_err1 _ _ _ _ _ _ h1 ((sreads_f64le g hg).cut k k1)
    · rw [k2]
      by_cases hkn : KnownMapping sub
      · exact ⟨_, loop_map_err2 _ _ _ _ _ _ _ _ h1 ((sreads_f64le g hg).full _)
          (by rw [h2]; exact hkn) ((sreads_f64le o ho).cut m k1)⟩
      · exact ⟨_, loop_map_unknown _ _ _ _ _ _ _ h1 ((sreads_f64le g hg).full _)
          (by rw [h2]; exact hkn)⟩
  | bins side p =>
    cases side with
    | pos =>
      obtain ⟨h1, h2⟩ := flag_mk Consts.flagTypePositiveStore (payloadSub p) (by decide)
      rw [encBlock_bins_pos] at hk ⊢
      rw [List.take_succ_cons]
      have hs : addBins s.pos (payloadBins p) ≠ none := by
        intro h; apply hsafe; simp only [applyBlock, h]
      have hd := decodeStore_take s.pos p hb hs k (lt_of_succ_lt_cons_length hk)
      rw [← h2] at hd
      exact ⟨_, loop_pos_err _ _ _ _ _ _ h1 hd⟩
    | neg =>
      obtain ⟨h1, h2⟩ := flag_mk Consts.flagTypeNegativeStore (payloadSub p) (by decide)
      rw [encBlock_bins_neg] at hk ⊢
      rw [List.take_succ_cons]
      have hs : addBins s.neg (payloadBins p) ≠ none := by
        intro h; apply hsafe; simp only [applyBlock, h]
      have hd := decodeStore_take s.neg p hb hs k (lt_of_succ_lt_cons_length hk)
      rw [← h2] at hd
      exact ⟨_, loop_neg_err _ _ _ _ _ _ h1 hd⟩

/-! #### whole streams -/

theorem decodeLoop_encBlocks_append (bs : List Block) (h : ∀ b ∈ bs, b.WF) (tail : Bytes) (n : Nat)
    (s : Sketch) (aux : DecAux) :
    decodeLoop (n + bs.length) s aux (encBlocks bs ++ tail) =
      andThen (applyBlocks s aux bs) (fun s' aux' => decodeLoop n s' aux' tail) := by
  induction bs generalizing s aux with
  | nil => rfl
  | cons b bs ih =>
    rw [encBlocks_cons, List.append_assoc, List.length_cons, ← Nat.add_assoc,
      decodeLoop_encBlock b (h b (by simp))]
    simp only [applyBlocks]
    cases applyBlock s aux b with
    | none => rfl
    | some r =>
      cases r with
      | error e => rfl
      | ok r => exact ih (fun c hc => h c (by simp [hc])) r.1 r.2

theorem decodeLoop_encBlocks (bs : List Block) (h : ∀ b ∈ bs, b.WF) (fuel : Nat)
    (hf : bs.length ≤ fuel) (s : Sketch) (aux : DecAux) :
    decodeLoop fuel s aux (encBlocks bs) = applyBlocks s aux bs := by
  have := decodeLoop_encBlocks_append bs h [] (fuel - bs.length) s aux
  rw [Nat.sub_add_cancel hf, List.append_nil] at this
  rw [this]
  cases applyBlocks s aux bs with
  | none => rfl
  | some r =>
    cases r with
    | error e => rfl
    | ok r => exact decodeLoop_nil _ _ _

/-! #### spec stores never panic on finite weights -/

/-- the accumulation step of `Wire.contentOf` -/
def addPair (acc : Content) (p : Int × F64) : Option Content :=
  match p.2 with
  | .fin w => some (acc.add p.1 w)
  | _ => none

theorem contentOf_eq (l : List (Int × F64)) : contentOf l = l.foldlM addPair [] := rfl

theorem addBins_sp (c : Content) (l : List (Int × F64)) :
    addBins (.sp c) l = (l.foldlM addPair c).map Store.sp := by
  induction l generalizing c with
  | nil => rfl
  | cons p l ih =>
    obtain ⟨i, w⟩ := p
    cases w with
    | fin q =>
      simp only [addBins, addF, Store.addWithCount, List.foldlM_cons, addPair]
      exact ih _
    | pinf => rfl
    | ninf => rfl
    | nan => rfl

/-- every weight in the list is a finite float -/
def FiniteBins (l : List (Int × F64)) : Prop := ∀ p ∈ l, p.2.isFinite = true

theorem foldlM_addPair_finite (c : Content) (l : List (Int × F64)) (h : FiniteBins l) :
    ∃ c', l.foldlM addPair c = some c' := by
  induction l generalizing c with
  | nil => exact ⟨c, rfl⟩
  | cons p l ih =>
    obtain ⟨i, w⟩ := p
    have hw := h (i, w) (by simp)
    cases w with
    | fin q =>
      simp only [List.foldlM_cons, addPair]
      exact ih _ (fun p hp => h p (by simp [hp]))
    | pinf => simp [F64.isFinite] at hw
    | ninf => simp [F64.isFinite] at hw
    | nan => simp [F64.isFinite] at hw

theorem addBins_sp_finite (c : Content) (l : List (Int × F64)) (h : FiniteBins l) :
    ∃ c', addBins (.sp c) l = some (.sp c') := by
  obtain ⟨c', hc⟩ := foldlM_addPair_finite c l h
  exact ⟨c', by rw [addBins_sp, hc]; rfl⟩

end Sketch

/-- every bin weight a block carries is a finite float -/
def Block.FiniteWeights : Block → Prop
  | .bins _ p => Sketch.FiniteBins (Wire.payloadBins p)
  | _ => True

/-- both stores are plain finite maps (the SPEC stratum) -/
def Sketch.IsSparse (s : Sketch) : Prop := (∃ c, s.pos = .sp c) ∧ (∃ c, s.neg = .sp c)

namespace Sketch
open Wire

theorem isSparse_spec (m : Option MapId) (cp cn : Content) (z : F64) :
    ({ mapping := m, pos := .sp cp, neg := .sp cn, zero := z } : Sketch).IsSparse :=
  ⟨⟨cp, rfl⟩, ⟨cn, rfl⟩⟩

theorem mapResult_isSpec (s s' : Sketch) (sub g o : Nat) (hs : s.IsSparse)
    (h : mapResult s sub g o = .ok s') : s'.IsSparse := by
  unfold mapResult at h
  split at h
  · simp at h
  · simp at h
  · split at h
    · split at h
      · simp at h; subst h; exact hs
      · simp at h
    · simp at h; subst h; exact hs

theorem applyBlock_spec (s : Sketch) (aux : DecAux) (b : Block) (hs : s.IsSparse)
    (hb : b.FiniteWeights) :
    applyBlock s aux b ≠ none ∧
      ∀ s' aux', applyBlock s aux b = some (.ok (s', aux')) → s'.IsSparse := by
  obtain ⟨⟨cp, hp⟩, ⟨cn, hn⟩⟩ := hs
  cases b with
  | zeroCount x =>
    refine ⟨by simp [applyBlock], fun s' aux' h => ?_⟩
    simp only [applyBlock, Option.some.injEq, Except.ok.injEq, Prod.mk.injEq] at h
    rw [← h.1]; exact ⟨⟨cp, hp⟩, ⟨cn, hn⟩⟩
  | count x =>
    refine ⟨by simp [applyBlock], fun s' aux' h => ?_⟩
    simp only [applyBlock, Option.some.injEq, Except.ok.injEq, Prod.mk.injEq] at h
    rw [← h.1]; exact ⟨⟨cp, hp⟩, ⟨cn, hn⟩⟩
  | sum x =>
    refine ⟨by simp [applyBlock], fun s' aux' h => ?_⟩
    simp only [applyBlock, Option.some.injEq, Except.ok.injEq, Prod.mk.injEq] at h
    rw [← h.1]; exact ⟨⟨cp, hp⟩, ⟨cn, hn⟩⟩
  | min x =>
    refine ⟨by simp [applyBlock], fun s' aux' h => ?_⟩
    simp only [applyBlock, Option.some.injEq, Except.ok.injEq, Prod.mk.injEq] at h
    rw [← h.1]; exact ⟨⟨cp, hp⟩, ⟨cn, hn⟩⟩
  | max x =>
    refine ⟨by simp [applyBlock], fun s' aux' h => ?_⟩
    simp only [applyBlock, Option.some.injEq, Except.ok.injEq, Prod.mk.injEq] at h
    rw [← h.1]; exact ⟨⟨cp, hp⟩, ⟨cn, hn⟩⟩
  | mapping sub g o =>
    simp only [applyBlock]
    cases hm : mapResult s sub g o with
    | error e => exact ⟨by simp, fun s' aux' h => by simp at h⟩
    | ok s1 =>
      refine ⟨by simp, fun s' aux' h => ?_⟩
      simp only [Option.some.injEq, Except.ok.injEq, Prod.mk.injEq] at h
      rw [← h.1]
      exact mapResult_isSpec s s1 sub g o ⟨⟨cp, hp⟩, ⟨cn, hn⟩⟩ hm
  | bins side p =>
    cases side with
    | pos =>
      obtain ⟨c', hc⟩ := addBins_sp_finite cp _ hb
      simp only [applyBlock, hp, hc]
      refine ⟨by simp, fun s' aux' h => ?_⟩
      simp only [Option.some.injEq, Except.ok.injEq, Prod.mk.injEq] at h
      rw [← h.1]; exact ⟨⟨c', rfl⟩, ⟨cn, hn⟩⟩
    | neg =>
      obtain ⟨c', hc⟩ := addBins_sp_finite cn _ hb
      simp only [applyBlock, hn, hc]
      refine ⟨by simp, fun s' aux' h => ?_⟩
      simp only [Option.some.injEq, Except.ok.injEq, Prod.mk.injEq] at h
      rw [← h.1]; exact ⟨⟨cp, hp⟩, ⟨c', rfl⟩⟩

theorem applyBlocks_spec (bs : List Block) (hb : ∀ b ∈ bs, b.FiniteWeights) (s : Sketch)
    (aux : DecAux) (hs : s.IsSparse) :
    applyBlocks s aux bs ≠ none ∧
      ∀ s' aux', applyBlocks s aux bs = some (.ok (s', aux')) → s'.IsSparse := by
  induction bs generalizing s aux with
  | nil =>
    refine ⟨by simp [applyBlocks], fun s' aux' h => ?_⟩
    simp only [applyBlocks, Option.some.injEq, Except.ok.injEq, Prod.mk.injEq] at h
    rw [← h.1]; exact hs
  | cons b bs ih =>
    obtain ⟨h1, h2⟩ := applyBlock_spec s aux b hs (hb b (by simp))
    simp only [applyBlocks]
    cases hab : applyBlock s aux b with
    | none => exact absurd hab h1
    | some r =>
      cases r with
      | error e => exact ⟨by simp, fun s' aux' h => by simp at h⟩
      | ok r =>
        obtain ⟨s1, aux1⟩ := r
        exact ih (fun c hc => hb c (by simp [hc])) s1 aux1 (h2 s1 aux1 hab)

/-! #### truncated streams -/

/-- a cut strictly inside a block, after any number of complete blocks, is always refused
    (whatever the fuel left for the cut block, as long as there is some) -/
theorem decodeLoop_cut_inside (pre : List Block) (hpre : ∀ b ∈ pre, b.WF)
    (hfin : ∀ b ∈ pre, b.FiniteWeights) (b : Block) (hb : b.WF) (hbf : b.FiniteWeights)
    (k : Nat) (h0 : 0 < k) (hk : k < (encBlock b).length) (n : Nat) (s : Sketch) (aux : DecAux)
    (hs : s.IsSparse) :
    ∃ e, decodeLoop (n + 1 + pre.length) s aux (encBlocks pre ++ (encBlock b).take k)
      = some (.error e) := by
  rw [decodeLoop_encBlocks_append pre hpre]
  obtain ⟨h1, h2⟩ := applyBlocks_spec pre hfin s aux hs
  cases hab : applyBlocks s aux pre with
  | none => exact absurd hab h1
  | some r =>
    cases r with
    | error e => exact ⟨e, rfl⟩
    | ok r =>
      obtain ⟨s1, aux1⟩ := r
      exact decodeLoop_take_encBlock b hb n s1 aux1 k h0 hk
        (applyBlock_spec s1 aux1 b (h2 s1 aux1 hab) hbf).1

theorem decodeAndMergeWith_of_error (s : Sketch) (bs : Bytes) (e : SkErr)
    (h : decodeLoop (bs.length + 1) s { stats := none } bs = some (.error e)) :
    decodeAndMergeWith s bs = some (.error e) := by
  unfold decodeAndMergeWith; rw [h]

/-! #### arbitrary input: the decoder never panics on spec stores -/

/-- wherever a varfloat can be read in the stream, it is a finite float -/
def FiniteVarfloats (bytes : Bytes) : Prop :=
  ∀ suf c rest, suf <:+ bytes → decVarfloat64 suf = .ok (c, rest) → c.isFinite = true

theorem FiniteVarfloats.suffix {bytes suf : Bytes} (h : FiniteVarfloats bytes) (hs : suf <:+ bytes) :
    FiniteVarfloats suf :=
  fun s c r hs' hd => h s c r (hs'.trans hs) hd

theorem liftDec_ok_inv {α} (x : Except DecErr α) (a : α) (h : Sketch.liftDec x = .ok a) :
    x = .ok a := by
  cases x with
  | ok b => simpa [Sketch.liftDec] using h
  | error e => simp [Sketch.liftDec] at h

theorem uvarint_suffix (bs : Bytes) (n : Nat) (r : Bytes) (h : decUvarint64 bs = .ok (n, r)) :
    r <:+ bs := by
  obtain ⟨k, _, _, hr, _⟩ := decUvarint64_ok bs n r h
  rw [hr]; exact List.drop_suffix k bs

theorem varint_suffix (bs : Bytes) (n : Int) (r : Bytes) (h : decVarint64 bs = .ok (n, r)) :
    r <:+ bs := by
  unfold decVarint64 at h
  split at h
  · rename_i u rest heq
    simp only [Except.ok.injEq, Prod.mk.injEq] at h
    rw [← h.2]; exact uvarint_suffix _ _ _ heq
  · simp at h

theorem varfloat_suffix (bs : Bytes) (c : F64) (r : Bytes) (h : decVarfloat64 bs = .ok (c, r)) :
    r <:+ bs := by
  unfold decVarfloat64 at h
  split at h
  · rename_i u rest heq
    simp only [Except.ok.injEq, Prod.mk.injEq] at h
    obtain ⟨k, _, _, hr⟩ := decVarfloatBits_ok _ _ _ heq
    rw [← h.2, hr]; exact List.drop_suffix k bs
  · simp at h

theorem f64le_suffix (bs : Bytes) (b : Nat) (r : Bytes) (h : decF64LE bs = .ok (b, r)) :
    r <:+ bs := by
  unfold decF64LE at h
  split at h
  · simp at h
  · simp only [Except.ok.injEq, Prod.mk.injEq] at h
    rw [← h.2]; exact List.drop_suffix 8 bs

/-- a store-level result that is not a panic, keeps the store a finite map and returns a suffix -/
def GoodItem (bs : Bytes) (r : Option (Except SkErr (Store × Int × Bytes))) : Prop :=
  r ≠ none ∧ ∀ st' idx' bs', r = some (.ok (st', idx', bs')) → (∃ c', st' = .sp c') ∧ bs' <:+ bs

def GoodStore (bs : Bytes) (r : Option (Except SkErr (Store × Bytes))) : Prop :=
  r ≠ none ∧ ∀ st' bs', r = some (.ok (st', bs')) → (∃ c', st' = .sp c') ∧ bs' <:+ bs

theorem goodItem_error (bs : Bytes) (e : SkErr) : GoodItem bs (some (.error e)) :=
  ⟨by simp, fun _ _ _ h => by simp at h⟩
theorem goodStore_error (bs : Bytes) (e : SkErr) : GoodStore bs (some (.error e)) :=
  ⟨by simp, fun _ _ h => by simp at h⟩

theorem addF_sp_finite (c : Content) (i : Int) (w : F64) (hw : w.isFinite = true) :
    ∃ c', addF (.sp c) i w = some (.sp c') := by
  cases w with
  | fin q => exact ⟨_, rfl⟩
  | pinf => simp [F64.isFinite] at hw
  | ninf => simp [F64.isFinite] at hw
  | nan => simp [F64.isFinite] at hw

theorem goodItem_map (bs bs' : Bytes) (c : Content) (i idx' : Int) (w : F64)
    (hw : w.isFinite = true) (hs : bs' <:+ bs) :
    GoodItem bs ((addF (.sp c) i w).map (fun st' => .ok (st', idx', bs'))) := by
  obtain ⟨c', hc⟩ := addF_sp_finite c i w hw
  rw [hc]
  refine ⟨by simp, fun st' i' b' h => ?_⟩
  simp only [Option.map_some, Option.some.injEq, Except.ok.injEq, Prod.mk.injEq] at h
  exact ⟨⟨c', h.1.symm⟩, by rw [← h.2.2]; exact hs⟩

theorem dcItem_good (c : Content) (idx : Int) (bs : Bytes) (hf : FiniteVarfloats bs) :
    GoodItem bs (dcItem (.sp c) idx bs) := by
  unfold dcItem
  cases h1 : Sketch.liftDec (decVarint64 bs) with
  | error e => exact goodItem_error _ _
  | ok r1 =>
    obtain ⟨d, bs1⟩ := r1
    have s1 := varint_suffix _ _ _ (liftDec_ok_inv _ _ h1)
    simp only
    cases h2 : Sketch.liftDec (decVarfloat64 bs1) with
    | error e => exact goodItem_error _ _
    | ok r2 =>
      obtain ⟨w, bs2⟩ := r2
      have hd := liftDec_ok_inv _ _ h2
      have s2 := varfloat_suffix _ _ _ hd
      exact goodItem_map bs bs2 c _ _ w (hf bs1 w bs2 s1 hd) (s2.trans s1)

theorem dItem_good (c : Content) (idx : Int) (bs : Bytes) :
    GoodItem bs (dItem (.sp c) idx bs) := by
  unfold dItem
  cases h1 : Sketch.liftDec (decVarint64 bs) with
  | error e => exact goodItem_error _ _
  | ok r1 =>
    obtain ⟨d, bs1⟩ := r1
    have s1 := varint_suffix _ _ _ (liftDec_ok_inv _ _ h1)
    exact goodItem_map bs bs1 c _ _ F64.one rfl s1

theorem ccItem_good (stride : Int) (c : Content) (idx : Int) (bs : Bytes) (hf : FiniteVarfloats bs) :
    GoodItem bs (ccItem stride (.sp c) idx bs) := by
  unfold ccItem
  cases h2 : Sketch.liftDec (decVarfloat64 bs) with
  | error e => exact goodItem_error _ _
  | ok r2 =>
    obtain ⟨w, bs2⟩ := r2
    have hd := liftDec_ok_inv _ _ h2
    exact goodItem_map bs bs2 c _ _ w (hf bs w bs2 (List.suffix_refl _) hd) (varfloat_suffix _ _ _ hd)

theorem decItems_good (item : Store → Int → Bytes → Option (Except SkErr (Store × Int × Bytes)))
    (hitem : ∀ c idx bs, FiniteVarfloats bs → GoodItem bs (item (.sp c) idx bs))
    (n : Nat) (c : Content) (idx : Int) (bs : Bytes) (hf : FiniteVarfloats bs) :
    GoodStore bs (decItems item n (.sp c) idx bs) := by
  induction n generalizing c idx bs with
  | zero =>
    refine ⟨by simp [decItems], fun st' bs' h => ?_⟩
    simp only [decItems, Option.some.injEq, Except.ok.injEq, Prod.mk.injEq] at h
    exact ⟨⟨c, h.1.symm⟩, by rw [← h.2]; exact List.suffix_refl _⟩
  | succ n ih =>
    obtain ⟨g1, g2⟩ := hitem c idx bs hf
    simp only [decItems]
    cases hi : item (.sp c) idx bs with
    | none => exact absurd hi g1
    | some r =>
      cases r with
      | error e => exact goodStore_error _ _
      | ok r =>
        obtain ⟨st', idx', bs'⟩ := r
        obtain ⟨⟨c', rfl⟩, hs⟩ := g2 st' idx' bs' hi
        obtain ⟨k1, k2⟩ := ih c' idx' bs' (hf.suffix hs)
        exact ⟨k1, fun st'' bs'' h => ⟨(k2 st'' bs'' h).1, (k2 st'' bs'' h).2.trans hs⟩⟩

theorem GoodStore.mono {bs bs1 : Bytes} {r} (h : GoodStore bs1 r) (hs : bs1 <:+ bs) :
    GoodStore bs r :=
  ⟨h.1, fun st' bs' hr => ⟨(h.2 st' bs' hr).1, (h.2 st' bs' hr).2.trans hs⟩⟩

theorem decodeStore_good (c : Content) (sub : Nat) (bs : Bytes) (hf : FiniteVarfloats bs) :
    GoodStore bs (decodeStore (.sp c) sub bs) := by
  rw [decodeStore_eq]
  split
  · cases h1 : Sketch.liftDec (decUvarint64 bs) with
    | error e => exact goodStore_error _ _
    | ok r1 =>
      obtain ⟨n, bs1⟩ := r1
      have s1 := uvarint_suffix _ _ _ (liftDec_ok_inv _ _ h1)
      exact (decItems_good dcItem dcItem_good n c 0 bs1 (hf.suffix s1)).mono s1
  split
  · cases h1 : Sketch.liftDec (decUvarint64 bs) with
    | error e => exact goodStore_error _ _
    | ok r1 =>
      obtain ⟨n, bs1⟩ := r1
      have s1 := uvarint_suffix _ _ _ (liftDec_ok_inv _ _ h1)
      exact (decItems_good dItem (fun c idx bs _ => dItem_good c idx bs) n c 0 bs1
        (hf.suffix s1)).mono s1
  split
  · cases h1 : Sketch.liftDec (decUvarint64 bs) with
    | error e => exact goodStore_error _ _
    | ok r1 =>
      obtain ⟨n, bs1⟩ := r1
      have s1 := uvarint_suffix _ _ _ (liftDec_ok_inv _ _ h1)
      simp only
      cases h2 : Sketch.liftDec (decVarint64 bs1) with
      | error e => exact goodStore_error _ _
      | ok r2 =>
        obtain ⟨start, bs2⟩ := r2
        have s2 := (varint_suffix _ _ _ (liftDec_ok_inv _ _ h2)).trans s1
        simp only
        cases h3 : Sketch.liftDec (decVarint64 bs2) with
        | error e => exact goodStore_error _ _
        | ok r3 =>
          obtain ⟨stride, bs3⟩ := r3
          have s3 := (varint_suffix _ _ _ (liftDec_ok_inv _ _ h3)).trans s2
          exact (decItems_good (ccItem stride) (ccItem_good stride) n c start bs3
            (hf.suffix s3)).mono s3
  · exact goodStore_error _ _

theorem fallback_suffix (aux aux' : DecAux) (f : Nat) (bs bs' : Bytes)
    (h : fallback aux f bs = .ok (aux', bs')) : bs' <:+ bs := by
  unfold fallback at h
  simp only at h
  split at h
  · simp at h
  split at h
  · cases h1 : Sketch.liftDec (decVarfloat64 bs) with
    | error e => rw [h1] at h; simp at h
    | ok r =>
      rw [h1] at h
      simp only [Except.ok.injEq, Prod.mk.injEq] at h
      rw [← h.2]; exact varfloat_suffix _ _ _ (liftDec_ok_inv _ _ h1)
  split at h
  · cases h1 : Sketch.liftDec (decF64LE bs) with
    | error e => rw [h1] at h; simp at h
    | ok r =>
      rw [h1] at h
      simp only [Except.ok.injEq, Prod.mk.injEq] at h
      rw [← h.2]; exact f64le_suffix _ _ _ (liftDec_ok_inv _ _ h1)
  split at h
  · cases h1 : Sketch.liftDec (decF64LE bs) with
    | error e => rw [h1] at h; simp at h
    | ok r =>
      rw [h1] at h
      simp only [Except.ok.injEq, Prod.mk.injEq] at h
      rw [← h.2]; exact f64le_suffix _ _ _ (liftDec_ok_inv _ _ h1)
  · simp at h

theorem flagType_cases (f : Nat) : flagType f = Consts.flagTypePositiveStore ∨
    flagType f = Consts.flagTypeNegativeStore ∨ flagType f = Consts.flagTypeIndexMapping ∨
    flagType f = Consts.flagTypeSketchFeatures := by
  have h : flagType f < 4 := Nat.mod_lt _ (by decide)
  have : ∀ t, t < 4 → t = Consts.flagTypePositiveStore ∨ t = Consts.flagTypeNegativeStore ∨
    t = Consts.flagTypeIndexMapping ∨ t = Consts.flagTypeSketchFeatures := by decide
  exact this _ h

/-- on spec stores the decoder loop never panics and never runs out of fuel, on ANY input in which
    every readable varfloat is finite -/
theorem decodeLoop_total_spec (fuel : Nat) (bytes : Bytes) (s : Sketch) (aux : DecAux)
    (hl : bytes.length ≤ fuel) (hs : s.IsSparse) (hf : FiniteVarfloats bytes) :
    decodeLoop fuel s aux bytes ≠ none := by
  induction fuel generalizing bytes s aux with
  | zero =>
    have : bytes = [] := List.eq_nil_of_length_eq_zero (by omega)
    subst this; simp [decodeLoop_nil]
  | succ n ih =>
    cases bytes with
    | nil => simp [decodeLoop_nil]
    | cons f bs =>
      have hl' : bs.length ≤ n := by simpa using hl
      have hf' : FiniteVarfloats bs := hf.suffix (List.suffix_cons f bs)
      obtain ⟨⟨cp, hp⟩, ⟨cn, hn⟩⟩ := hs
      have next : ∀ (s' : Sketch) (aux' : DecAux) (bs' : Bytes), s'.IsSparse → bs' <:+ bs →
          decodeLoop n s' aux' bs' ≠ none := fun s' aux' bs' h1 h2 =>
        ih bs' s' aux' (Nat.le_trans h2.length_le hl') h1 (hf'.suffix h2)
      rcases flagType_cases f with ht | ht | ht | ht
      · rw [loop_pos n s aux f bs ht, hp]
        obtain ⟨g1, g2⟩ := decodeStore_good cp (flagSub f) bs hf'
        cases hd : decodeStore (.sp cp) (flagSub f) bs with
        | none => exact absurd hd g1
        | some r =>
          cases r with
          | error e => simp
          | ok r =>
            obtain ⟨p, bs'⟩ := r
            obtain ⟨⟨c', rfl⟩, hsuf⟩ := g2 p bs' hd
            exact next _ _ _ ⟨⟨c', rfl⟩, ⟨cn, hn⟩⟩ hsuf
      · rw [loop_neg n s aux f bs ht, hn]
        obtain ⟨g1, g2⟩ := decodeStore_good cn (flagSub f) bs hf'
        cases hd : decodeStore (.sp cn) (flagSub f) bs with
        | none => exact absurd hd g1
        | some r =>
          cases r with
          | error e => simp
          | ok r =>
            obtain ⟨p, bs'⟩ := r
            obtain ⟨⟨c', rfl⟩, hsuf⟩ := g2 p bs' hd
            exact next _ _ _ ⟨⟨cp, hp⟩, ⟨c', rfl⟩⟩ hsuf
      · rw [loop_map n s aux f bs ht]
        cases h1 : Sketch.liftDec (decF64LE bs) with
        | error e => simp
        | ok r1 =>
          obtain ⟨g, bs1⟩ := r1
          have s1 := f64le_suffix _ _ _ (liftDec_ok_inv _ _ h1)
          simp only
          split
          · simp
          cases h2 : Sketch.liftDec (decF64LE bs1) with
          | error e => simp
          | ok r2 =>
            obtain ⟨o, bs2⟩ := r2
            have s2 := (f64le_suffix _ _ _ (liftDec_ok_inv _ _ h2)).trans s1
            simp only
            cases MapId.ofBlock (flagSub f) g o with
            | error e => cases e <;> simp
            | ok id =>
              simp only
              cases s.mapping with
              | none => exact next _ _ _ ⟨⟨cp, hp⟩, ⟨cn, hn⟩⟩ s2
              | some cur =>
                simp only
                split
                · exact next _ _ _ ⟨⟨cp, hp⟩, ⟨cn, hn⟩⟩ s2
                · simp
      · by_cases hz : f = zeroFlag
        · subst hz
          rw [loop_zero]
          cases h1 : Sketch.liftDec (decVarfloat64 bs) with
          | error e => simp
          | ok r1 =>
            obtain ⟨z, bs1⟩ := r1
            exact next _ _ _ ⟨⟨cp, hp⟩, ⟨cn, hn⟩⟩ (varfloat_suffix _ _ _ (liftDec_ok_inv _ _ h1))
        · rw [loop_fallback n s aux f bs ht hz]
          cases h1 : fallback aux f bs with
          | error e => simp
          | ok r1 =>
            obtain ⟨aux', bs1⟩ := r1
            exact next _ _ _ ⟨⟨cp, hp⟩, ⟨cn, hn⟩⟩ (fallback_suffix _ _ _ _ _ h1)

/-! #### the decoded sketch is the documentation content merged into the receiver -/

theorem mapResult_fields (s s' : Sketch) (sub g o : Nat) (h : mapResult s sub g o = .ok s') :
    s'.pos = s.pos ∧ s'.neg = s.neg ∧ s'.zero = s.zero := by
  unfold mapResult at h
  split at h
  · simp at h
  · simp at h
  · split at h
    · split at h
      · simp at h; subst h; exact ⟨rfl, rfl, rfl⟩
      · simp at h
    · simp at h; subst h; exact ⟨rfl, rfl, rfl⟩

theorem interp_cons (b : Block) (bs : List Block) :
    (interp (b :: bs)).pos = (interp [b]).pos ++ (interp bs).pos ∧
    (interp (b :: bs)).neg = (interp [b]).neg ++ (interp bs).neg := by
  have := interp_append [b] bs
  exact ⟨this.2.1, this.2.2.1⟩

theorem applyBlock_interp (s s1 : Sketch) (aux aux1 : DecAux) (b : Block)
    (h : applyBlock s aux b = some (.ok (s1, aux1))) :
    s1.zero = (zeroIncrements [b]).foldl F64.add s.zero ∧
    addBins s.pos (interp [b]).pos = some s1.pos ∧
    addBins s.neg (interp [b]).neg = some s1.neg := by
  cases b with
  | mapping sub g o =>
    simp only [applyBlock] at h
    cases hm : mapResult s sub g o with
    | error e => rw [hm] at h; simp at h
    | ok s2 =>
      rw [hm] at h
      simp only [Option.some.injEq, Except.ok.injEq, Prod.mk.injEq] at h
      obtain ⟨h1, h2, h3⟩ := mapResult_fields s s2 sub g o hm
      rw [← h.1, h1, h2, h3]
      simp [zeroIncrements, interp_eq, interpStep, addBins]
  | bins side p =>
    cases side with
    | pos =>
      simp only [applyBlock] at h
      cases ha : addBins s.pos (payloadBins p) with
      | none => rw [ha] at h; simp at h
      | some st =>
        rw [ha] at h
        simp only [Option.some.injEq, Except.ok.injEq, Prod.mk.injEq] at h
        rw [← h.1]
        simp [zeroIncrements, interp_eq, interpStep, addBins, ha]
    | neg =>
      simp only [applyBlock] at h
      cases ha : addBins s.neg (payloadBins p) with
      | none => rw [ha] at h; simp at h
      | some st =>
        rw [ha] at h
        simp only [Option.some.injEq, Except.ok.injEq, Prod.mk.injEq] at h
        rw [← h.1]
        simp [zeroIncrements, interp_eq, interpStep, addBins, ha]
  | _ =>
    simp only [applyBlock, Option.some.injEq, Except.ok.injEq, Prod.mk.injEq] at h
    rw [← h.1]
    simp [zeroIncrements, interp_eq, interpStep, addBins]

theorem zeroIncrements_cons (b : Block) (bs : List Block) :
    zeroIncrements (b :: bs) = zeroIncrements [b] ++ zeroIncrements bs := by
  simp [zeroIncrements, List.filterMap_cons]
  cases b <;> simp

theorem applyBlocks_interp (bs : List Block) (s s' : Sketch) (aux aux' : DecAux)
    (h : applyBlocks s aux bs = some (.ok (s', aux'))) :
    s'.zero = (zeroIncrements bs).foldl F64.add s.zero ∧
    addBins s.pos (interp bs).pos = some s'.pos ∧
    addBins s.neg (interp bs).neg = some s'.neg := by
  induction bs generalizing s aux with
  | nil =>
    simp only [applyBlocks, Option.some.injEq, Except.ok.injEq, Prod.mk.injEq] at h
    rw [← h.1]
    simp [zeroIncrements, interp_eq, addBins]
  | cons b bs ih =>
    simp only [applyBlocks] at h
    cases hab : applyBlock s aux b with
    | none => rw [hab] at h; simp at h
    | some r =>
      cases r with
      | error e => rw [hab] at h; simp at h
      | ok r =>
        obtain ⟨s1, aux1⟩ := r
        rw [hab] at h
        obtain ⟨a1, a2, a3⟩ := applyBlock_interp s s1 aux aux1 b hab
        obtain ⟨b1, b2, b3⟩ := ih s1 aux1 h
        obtain ⟨c1, c2⟩ := interp_cons b bs
        refine ⟨?_, ?_, ?_⟩
        · rw [b1, a1, zeroIncrements_cons b bs, List.foldl_append]
        · rw [c1, addBins_append, a2]; exact b2
        · rw [c2, addBins_append, a3]; exact b3

/-- decoding into an EMPTY spec sketch yields exactly the documentation content -/
theorem applyBlocks_interp_empty (bs : List Block) (m : Option MapId) (s' : Sketch)
    (aux aux' : DecAux)
    (h : applyBlocks { mapping := m, pos := .sp [], neg := .sp [], zero := .fin 0 } aux bs
      = some (.ok (s', aux'))) :
    s'.zero = (interp bs).zero ∧
    (∃ cp, contentOf (interp bs).pos = some cp ∧ s'.pos = .sp cp) ∧
    (∃ cn, contentOf (interp bs).neg = some cn ∧ s'.neg = .sp cn) := by
  obtain ⟨h1, h2, h3⟩ := applyBlocks_interp bs _ s' aux aux' h
  refine ⟨by rw [h1, interp_zero], ?_, ?_⟩
  · simp only [addBins_sp] at h2
    rw [contentOf_eq]
    cases hc : List.foldlM addPair [] (interp bs).pos with
    | none => rw [hc] at h2; simp at h2
    | some cp =>
      rw [hc] at h2
      simp only [Option.map_some, Option.some.injEq] at h2
      exact ⟨cp, rfl, h2.symm⟩
  · simp only [addBins_sp] at h3
    rw [contentOf_eq]
    cases hc : List.foldlM addPair [] (interp bs).neg with
    | none => rw [hc] at h3; simp at h3
    | some cn =>
      rw [hc] at h3
      simp only [Option.map_some, Option.some.injEq] at h3
      exact ⟨cn, rfl, h3.symm⟩

/-! #### `decodeAndMergeWith` -/

theorem decodeAndMergeWith_cut_inside (pre : List Block) (hpre : ∀ b ∈ pre, b.WF)
    (hfin : ∀ b ∈ pre, b.FiniteWeights) (b : Block) (hb : b.WF) (hbf : b.FiniteWeights)
    (k : Nat) (h0 : 0 < k) (hk : k < (encBlock b).length) (s : Sketch) (hs : s.IsSparse) :
    ∃ e, decodeAndMergeWith s (encBlocks pre ++ (encBlock b).take k) = some (.error e) := by
  have hl := encBlocks_length_ge pre
  have hlen : (encBlocks pre ++ (encBlock b).take k).length = (encBlocks pre).length + k := by
    rw [List.length_append, List.length_take]; omega
  obtain ⟨e, he⟩ := decodeLoop_cut_inside pre hpre hfin b hb hbf k h0 hk
    ((encBlocks pre).length - pre.length + k) s { stats := none } hs
  refine ⟨e, decodeAndMergeWith_of_error _ _ _ ?_⟩
  rw [hlen, ← he]
  congr 1
  omega

theorem decodeAndMergeWith_total_spec (s : Sketch) (hs : s.IsSparse) (bytes : Bytes)
    (hf : FiniteVarfloats bytes) : decodeAndMergeWith s bytes ≠ none := by
  have := decodeLoop_total_spec (bytes.length + 1) bytes s { stats := none } (by omega) hs hf
  unfold decodeAndMergeWith
  cases h : decodeLoop (bytes.length + 1) s { stats := none } bytes with
  | none => exact absurd h this
  | some r =>
    cases r with
    | error e => simp
    | ok r => simp only; split <;> simp

/-- an encoded stream of finite weights, cut anywhere, never makes the decoder panic -/
theorem decodeLoop_encoded_take_ne_none (bs : List Block) (h : ∀ b ∈ bs, b.WF)
    (hfin : ∀ b ∈ bs, b.FiniteWeights) (k : Nat) (hk : k ≤ (encBlocks bs).length) (fuel : Nat)
    (hfuel : k < fuel) (s : Sketch) (aux : DecAux) (hs : s.IsSparse) :
    (∃ j, k = (encBlocks (bs.take j)).length ∧
        decodeLoop fuel s aux ((encBlocks bs).take k) = applyBlocks s aux (bs.take j) ∧
        applyBlocks s aux (bs.take j) ≠ none)
    ∨ ∃ e, decodeLoop fuel s aux ((encBlocks bs).take k) = some (.error e) := by
  obtain ⟨j, _, ⟨h1, h2⟩ | ⟨b, k', hb, h1, h2, h3⟩⟩ := encBlocks_take bs k hk
  · left
    have hwf : ∀ b ∈ bs.take j, b.WF := fun b hb => h b (List.mem_of_mem_take hb)
    have hl := encBlocks_length_ge (bs.take j)
    refine ⟨j, h1, ?_, (applyBlocks_spec _ (fun b hb => hfin b (List.mem_of_mem_take hb)) s aux hs).1⟩
    rw [h2]
    exact decodeLoop_encBlocks _ hwf fuel (by omega) s aux
  · right
    have hwf : ∀ b ∈ bs.take j, b.WF := fun b hb => h b (List.mem_of_mem_take hb)
    have hl := encBlocks_length_ge (bs.take j)
    have hlen : ((encBlocks bs).take k).length = k := by rw [List.length_take]; omega
    rw [h3] at hlen ⊢
    rw [List.length_append, List.length_take, Nat.min_eq_left (by omega)] at hlen
    obtain ⟨e, he⟩ := decodeLoop_cut_inside (bs.take j) hwf
      (fun b hb => hfin b (List.mem_of_mem_take hb)) b (h b hb) (hfin b hb) k' h1 h2
      (fuel - 1 - (bs.take j).length) s aux hs
    refine ⟨e, ?_⟩
    rw [← he]
    congr 1
    omega

end Sketch
end DDS
