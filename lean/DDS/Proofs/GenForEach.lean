/-
  DDS.Proofs.GenForEach — the REGENERATED state-passing `ForEach` of the three stores
  (`DDS/Generated/CodeDenseIter.lean`, `CodeSparseIter.lean`, `CodePaginatedIter.lean`) is the stop-aware left fold
  `visitS` of the visitor over the hand model's list of bins.

  `visitS f st l`: call `f st i c` on each bin `(i, c)` of `l` in order, threading the state; stop with the state the
  visitor returned as soon as it answers `true`; `.panic` / `.nofuel` of the visitor propagate.
-/
import DDS.Generated.CodeDenseIter
import DDS.Generated.CodeSparseIter
import DDS.Generated.CodePaginatedIter
import DDS.Proofs.GenDenseBase
import DDS.Proofs.GenSparse
import DDS.Proofs.GenPagIter

namespace DDS.GenForEach

open DDS DDS.GoSem

/-! ## the walker -/

/-- the stop-aware left fold of a state-passing visitor over a list of bins -/
def visitS {σ : Type} (f : σ → Int → Rat → Res (σ × Bool)) : σ → List (Int × Rat) → Res σ
  | st, [] => .ok st
  | st, (i, c) :: rest => (f st i c).bind (fun r => if r.2 then .ok r.1 else visitS f r.1 rest)

/-- the same with a continuation for "the list is exhausted" and a wrapper for "stopped" -/
def visitSR {σ ρ : Type} (f : σ → Int → Rat → Res (σ × Bool)) (mk : σ → ρ) :
    σ → List (Int × Rat) → (σ → Res ρ) → Res ρ
  | st, [], k => k st
  | st, (i, c) :: rest, k => (f st i c).bind (fun r => if r.2 then .ok (mk r.1) else visitSR f mk r.1 rest k)

/-- the same inside a loop: stopping is a `return` -/
def visitSL {σ τ ρ : Type} (f : σ → Int → Rat → Res (σ × Bool)) (mk : σ → ρ) :
    σ → List (Int × Rat) → (σ → Loop τ ρ) → Loop τ ρ
  | st, [], k => k st
  | st, (i, c) :: rest, k => (f st i c).bindL (fun r => if r.2 then .ret (mk r.1) else visitSL f mk r.1 rest k)

theorem visitSL_append {σ τ ρ : Type} (f : σ → Int → Rat → Res (σ × Bool)) (mk : σ → ρ)
    (a b : List (Int × Rat)) (k : σ → Loop τ ρ) : ∀ st : σ,
    visitSL f mk st (a ++ b) k = visitSL f mk st a (fun st' => visitSL f mk st' b k) := by
  induction a with
  | nil => intro st; rfl
  | cons p a ih =>
    intro st
    obtain ⟨i, c⟩ := p
    simp only [List.cons_append, visitSL, ih]

theorem visitSR_append {σ ρ : Type} (f : σ → Int → Rat → Res (σ × Bool)) (mk : σ → ρ)
    (a b : List (Int × Rat)) (k : σ → Res ρ) : ∀ st : σ,
    visitSR f mk st (a ++ b) k = visitSR f mk st a (fun st' => visitSR f mk st' b k) := by
  induction a with
  | nil => intro st; rfl
  | cons p a ih =>
    intro st
    obtain ⟨i, c⟩ := p
    simp only [List.cons_append, visitSR, ih]

theorem elimL_visitSL {σ τ τ' ρ : Type} (f : σ → Int → Rat → Res (σ × Bool)) (mk : σ → ρ)
    (l : List (Int × Rat)) (k : σ → Loop τ ρ) (K : τ → Loop τ' ρ) : ∀ st : σ,
    Loop.elimL (visitSL f mk st l k) K = visitSL f mk st l (fun st' => Loop.elimL (k st') K) := by
  induction l with
  | nil => intro st; rfl
  | cons p l ih =>
    intro st
    obtain ⟨i, c⟩ := p
    simp only [visitSL]
    cases f st i c with
    | ok r =>
      obtain ⟨st', b⟩ := r
      cases b with
      | false => exact ih st'
      | true => rfl
    | panic => rfl
    | nofuel => rfl

theorem elim_visitSL {σ τ ρ : Type} (f : σ → Int → Rat → Res (σ × Bool)) (mk : σ → ρ)
    (l : List (Int × Rat)) (k : σ → Loop τ ρ) (K : τ → Res ρ) : ∀ st : σ,
    Loop.elim (visitSL f mk st l k) K = visitSR f mk st l (fun st' => Loop.elim (k st') K) := by
  induction l with
  | nil => intro st; rfl
  | cons p l ih =>
    intro st
    obtain ⟨i, c⟩ := p
    simp only [visitSL, visitSR]
    cases f st i c with
    | ok r =>
      obtain ⟨st', b⟩ := r
      cases b with
      | false => exact ih st'
      | true => rfl
    | panic => rfl
    | nofuel => rfl

/-- with the same wrapper at the end, `visitSR` is `visitS` followed by the wrapper -/
theorem visitSR_eq_visitS {σ ρ : Type} (f : σ → Int → Rat → Res (σ × Bool)) (mk : σ → ρ)
    (l : List (Int × Rat)) : ∀ st : σ,
    visitSR f mk st l (fun st' => .ok (mk st')) = (visitS f st l).bind (fun st' => .ok (mk st')) := by
  induction l with
  | nil => intro st; rfl
  | cons p l ih =>
    intro st
    obtain ⟨i, c⟩ := p
    simp only [visitSR, visitS]
    cases f st i c with
    | ok r =>
      obtain ⟨st', b⟩ := r
      cases b with
      | false => exact ih st'
      | true => rfl
    | panic => rfl
    | nofuel => rfl

theorem visitS_nil {σ : Type} (f : σ → Int → Rat → Res (σ × Bool)) (st : σ) : visitS f st [] = .ok st := rfl

/-- one step of the fold, by cases on the visitor's answer -/
theorem visitS_cons {σ : Type} (f : σ → Int → Rat → Res (σ × Bool)) (st : σ) (i : Int) (c : Rat)
    (rest : List (Int × Rat)) :
    visitS f st ((i, c) :: rest) =
      match f st i c with
      | .ok (st', true) => .ok st'
      | .ok (st', false) => visitS f st' rest
      | .panic => .panic
      | .nofuel => .nofuel := by
  simp only [visitS]
  cases f st i c with
  | ok r =>
    obtain ⟨st', b⟩ := r
    cases b <;> rfl
  | panic => rfl
  | nofuel => rfl

/-! ## corollaries about particular visitors (any list of bins) -/

/-- the prefix of `l` up to and including the first bin on which `p` answers `true` -/
def uptoFirst (p : Int → Rat → Bool) (l : List (Int × Rat)) : List (Int × Rat) :=
  l.takeWhile (fun x => !p x.1 x.2) ++ (l.dropWhile (fun x => !p x.1 x.2)).take 1

theorem uptoFirst_nil (p : Int → Rat → Bool) : uptoFirst p [] = [] := rfl

theorem uptoFirst_cons (p : Int → Rat → Bool) (i : Int) (c : Rat) (rest : List (Int × Rat)) :
    uptoFirst p ((i, c) :: rest) = (i, c) :: (if p i c then [] else uptoFirst p rest) := by
  unfold uptoFirst
  simp only [List.takeWhile_cons, List.dropWhile_cons]
  cases p i c <;> simp

/-- never asked to stop: the prefix is the whole list -/
theorem uptoFirst_false (l : List (Int × Rat)) : uptoFirst (fun _ _ => false) l = l := by
  induction l with
  | nil => rfl
  | cons x rest ih =>
    obtain ⟨i, c⟩ := x
    rw [uptoFirst_cons, ih]; rfl

/-- the collecting visitor (what `ToProto`-style closures and the `MergeWith` fallbacks are): never stops -/
def collect : List (Int × Rat) → Int → Rat → Res (List (Int × Rat) × Bool) :=
  fun acc i c => .ok (acc ++ [(i, c)], false)

/-- a visitor that records every call it receives and asks to stop at the first bin satisfying `p` -/
def logStop (p : Int → Rat → Bool) : List (Int × Rat) → Int → Rat → Res (List (Int × Rat) × Bool) :=
  fun acc i c => .ok (acc ++ [(i, c)], p i c)

/-- (b) the calls received are exactly the bins up to and including the first one satisfying `p` -/
theorem visitS_logStop (p : Int → Rat → Bool) (l : List (Int × Rat)) : ∀ acc : List (Int × Rat),
    visitS (logStop p) acc l = .ok (acc ++ uptoFirst p l) := by
  induction l with
  | nil => intro acc; simp [visitS, uptoFirst_nil]
  | cons x rest ih =>
    intro acc
    obtain ⟨i, c⟩ := x
    rw [uptoFirst_cons]
    simp only [visitS, logStop, Res.bind_ok]
    cases hp : p i c with
    | true => simp
    | false =>
      have := ih (acc ++ [(i, c)])
      simp [this]

/-- (a) the collecting visitor ends with exactly the list of bins appended to its state -/
theorem visitS_collect (l : List (Int × Rat)) (acc : List (Int × Rat)) :
    visitS collect acc l = .ok (acc ++ l) := by
  have h := visitS_logStop (fun _ _ => false) l acc
  rw [uptoFirst_false] at h
  exact h

/-- a visitor that never stops and never fails is the plain left fold -/
theorem visitS_total {σ : Type} (step : σ → Int → Rat → σ) (l : List (Int × Rat)) : ∀ st : σ,
    visitS (fun st i c => .ok (step st i c, false)) st l = .ok (l.foldl (fun st x => step st x.1 x.2) st) := by
  induction l with
  | nil => intro st; rfl
  | cons x rest ih =>
    intro st
    obtain ⟨i, c⟩ := x
    simp only [visitS, Res.bind_ok, List.foldl_cons]
    exact ih _

/-- a stop predicate on the bin alone with a pure state update: the fold over `uptoFirst p l` -/
theorem visitS_pred {σ : Type} (step : σ → Int → Rat → σ) (p : Int → Rat → Bool) (l : List (Int × Rat)) :
    ∀ st : σ,
    visitS (fun st i c => .ok (step st i c, p i c)) st l
      = .ok ((uptoFirst p l).foldl (fun st x => step st x.1 x.2) st) := by
  induction l with
  | nil => intro st; rfl
  | cons x rest ih =>
    intro st
    obtain ⟨i, c⟩ := x
    rw [uptoFirst_cons]
    simp only [visitS, Res.bind_ok, List.foldl_cons]
    cases hp : p i c with
    | true => simp
    | false => simpa using ih _

/-! ## 1. the dense store -/

section Dense
open DDS.DStore DDS.GenDense
open DDS.Gen.DenseIter

/-- the walk over the window as the generated code does it: checked read, skip non-positive counts -/
def denseWalk {σ : Type} (s : DStore) (f : σ → Int → Rat → Res (σ × Bool)) : σ → List Int → Res σ
  | st, [] => .ok st
  | st, idx :: rest =>
    match rd s.bins (idx - s.offset) with
    | none => .panic
    | some c =>
      if 0 < c then (f st idx c).bind (fun r => if r.2 then .ok r.1 else denseWalk s f r.1 rest)
      else denseWalk s f st rest

/-- fuel: one iteration per index of the window, one more to see the end -/
def denseFuel (s : DStore) : Nat := (s.maxIndex - s.minIndex + 1).toNat + 1

theorem dense_loop1 {σ : Type} (s : DStore) (f : σ → Int → Rat → Res (σ × Bool)) :
    ∀ (n : Nat) (fuel : Nat) (lo : Int) (st : σ), n = (s.maxIndex - lo + 1).toNat → n + 1 ≤ fuel →
      Loop.elim (DenseStore.ForEach.loop1 (GenDense.toGen s) f fuel st lo) (fun x => .ok x.1)
        = denseWalk s f st (irange lo n) := by
  intro n
  induction n with
  | zero =>
    intro fuel lo st hn hf
    obtain ⟨fuel, rfl⟩ : ∃ k, fuel = k + 1 := ⟨fuel - 1, by omega⟩
    unfold DenseStore.ForEach.loop1
    have hle : ¬ lo ≤ (GenDense.toGen s).maxIndex := by show ¬ lo ≤ s.maxIndex; omega
    rw [if_neg (by rw [decide_eq_false hle]; decide)]
    rfl
  | succ n ih =>
    intro fuel lo st hn hf
    obtain ⟨fuel, rfl⟩ : ∃ k, fuel = k + 1 := ⟨fuel - 1, by omega⟩
    unfold DenseStore.ForEach.loop1
    have hle : lo ≤ (GenDense.toGen s).maxIndex := by show lo ≤ s.maxIndex; omega
    rw [if_pos (decide_eq_true hle), irange_succ_left]
    simp only [toGen_bins, toGen_offset, idx_toList, denseWalk]
    cases hrd : rd s.bins (lo - s.offset) with
    | none => rfl
    | some c =>
      simp only [optL_some]
      by_cases hc : 0 < c
      · rw [if_pos (by simpa using hc), if_pos hc]
        cases f st lo c with
        | ok r =>
          obtain ⟨st', b⟩ := r
          cases b with
          | true => rfl
          | false => exact ih fuel (lo + 1) st' (by omega) (by omega)
        | panic => rfl
        | nofuel => rfl
      · rw [if_neg (by simpa using hc), if_neg hc]
        exact ih fuel (lo + 1) st (by omega) (by omega)

/-- MAIN (dense, every store): `ForEach` is the checked walk over the window `minIndex … maxIndex` -/
theorem dense_forEach_eq_walk {σ : Type} (s : DStore) (st : σ) (f : σ → Int → Rat → Res (σ × Bool)) (fuel : Nat)
    (hf : denseFuel s ≤ fuel) :
    DenseStore.ForEach fuel (GenDense.toGen s) st f = denseWalk s f st (idxRange s.minIndex s.maxIndex) := by
  unfold DenseStore.ForEach
  rw [idxRange_eq]
  exact dense_loop1 s f _ fuel s.minIndex st rfl hf

/-- when the model's `binsList` succeeds, the walk is the fold over it -/
theorem denseWalk_eq_visitS {σ : Type} (s : DStore) (f : σ → Int → Rat → Res (σ × Bool)) :
    ∀ (l : List Int) (bins : List (Int × Rat)) (st : σ),
      l.foldrM (fun idx acc => do
          let c ← rd s.bins (idx - s.offset)
          pure (if c > 0 then (idx, c) :: acc else acc)) [] = some bins →
      denseWalk s f st l = visitS f st bins := by
  intro l
  induction l with
  | nil =>
    intro bins st h
    simp only [List.foldrM_nil, Option.pure_def, Option.some.injEq] at h
    subst h; rfl
  | cons idx rest ih =>
    intro bins st h
    rw [List.foldrM_cons] at h
    cases hacc : rest.foldrM (fun idx acc => do
          let c ← rd s.bins (idx - s.offset)
          pure (if c > 0 then (idx, c) :: acc else acc)) [] with
    | none => rw [hacc] at h; simp at h
    | some acc =>
      rw [hacc] at h
      simp only [Option.bind_eq_bind, Option.bind_some] at h
      cases hrd : rd s.bins (idx - s.offset) with
      | none => rw [hrd] at h; simp at h
      | some c =>
        rw [hrd] at h
        simp only [Option.bind_some, Option.pure_def, Option.some.injEq] at h
        simp only [denseWalk, hrd]
        by_cases hc : 0 < c
        · rw [if_pos hc] at h ⊢
          subst h
          simp only [visitS, ih acc _ hacc]
        · rw [if_neg hc] at h ⊢
          subst h
          exact ih _ st hacc

/-- MAIN (dense): the regenerated stateful `ForEach` is the stop-aware fold over the model's `binsList` -/
theorem dense_forEach_eq_visitS {σ : Type} (s : DStore) (bins : List (Int × Rat)) (hb : s.binsList = some bins)
    (st : σ) (f : σ → Int → Rat → Res (σ × Bool)) (fuel : Nat) (hf : denseFuel s ≤ fuel) :
    DenseStore.ForEach fuel (GenDense.toGen s) st f = visitS f st bins := by
  rw [dense_forEach_eq_walk s st f fuel hf]
  exact denseWalk_eq_visitS s f _ bins st hb

/-- the invariant of the dense store makes `binsList` succeed: the equation holds for every reachable store -/
theorem dense_forEach_inv {σ : Type} (s : DStore) (h : DStore.Inv s)
    (st : σ) (f : σ → Int → Rat → Res (σ × Bool)) (fuel : Nat) (hf : denseFuel s ≤ fuel) :
    ∃ bins, s.binsList = some bins ∧ DenseStore.ForEach fuel (GenDense.toGen s) st f = visitS f st bins := by
  obtain ⟨l, hl, _⟩ := DStore.binsList_spec s h
  exact ⟨l, hl, dense_forEach_eq_visitS s l hl st f fuel hf⟩

/-- (a) dense: the collecting visitor ends with exactly the model's bins -/
theorem dense_forEach_collect (s : DStore) (bins : List (Int × Rat)) (hb : s.binsList = some bins)
    (acc : List (Int × Rat)) (fuel : Nat) (hf : denseFuel s ≤ fuel) :
    DenseStore.ForEach fuel (GenDense.toGen s) acc collect = .ok (acc ++ bins) := by
  rw [dense_forEach_eq_visitS s bins hb acc collect fuel hf, visitS_collect]

/-- (b) dense: a visitor that stops at the first bin satisfying `p` is called exactly on the bins up to and
    including that one -/
theorem dense_forEach_logStop (s : DStore) (bins : List (Int × Rat)) (hb : s.binsList = some bins)
    (p : Int → Rat → Bool) (acc : List (Int × Rat)) (fuel : Nat) (hf : denseFuel s ≤ fuel) :
    DenseStore.ForEach fuel (GenDense.toGen s) acc (logStop p) = .ok (acc ++ uptoFirst p bins) := by
  rw [dense_forEach_eq_visitS s bins hb acc (logStop p) fuel hf, visitS_logStop]

end Dense

/-! ## 3. the sparse store -/

section Sparse
open DDS.GenSparse
open DDS.Gen.Sparse DDS.Gen.SparseIter

theorem sparse_loop1 {σ : Type} (f : σ → Int → Rat → Res (σ × Bool)) : ∀ (l : List (Int × Rat)) (st : σ),
    Loop.elim (SparseStore.ForEach.loop1 f l st) (fun st' => .ok st') = visitS f st l := by
  intro l
  induction l with
  | nil => intro st; rfl
  | cons p l ih =>
    intro st
    obtain ⟨i, c⟩ := p
    unfold SparseStore.ForEach.loop1
    simp only [visitS]
    cases f st i c with
    | ok r =>
      obtain ⟨st', b⟩ := r
      cases b with
      | true => rfl
      | false => exact ih st'
    | panic => rfl
    | nofuel => rfl

/-- MAIN (sparse, every store, every oracle, any fuel): `ForEach` is the fold over the entries in the order the
    oracle enumerates the map -/
theorem sparse_forEach_eq_visitS {σ : Type} (fuel : Nat) (ord : MapOrder) (g : SparseStore) (st : σ)
    (f : σ → Int → Rat → Res (σ × Bool)) :
    SparseStore.ForEach fuel ord g st f = visitS f st (mrange ord g.counts) := by
  unfold SparseStore.ForEach
  exact sparse_loop1 f _ st

/-- against the model content `c`: for a lawful oracle the enumerated bins are a permutation of the model's bins -/
theorem sparse_forEach_model {σ : Type} {g : SparseStore} {c : Content} (h : RepS g c) (fuel : Nat)
    (ord : MapOrder) (hl : ord.Lawful) (st : σ) (f : σ → Int → Rat → Res (σ × Bool)) :
    SparseStore.ForEach fuel ord g st f = visitS f st (mrange ord c) ∧ (mrange ord c).Perm c := by
  refine ⟨?_, mrange_perm ord hl c h.2⟩
  rw [sparse_forEach_eq_visitS, h.1]

/-- with the ascending oracle the bins are the model's list itself -/
theorem sparse_forEach_ascending {σ : Type} {g : SparseStore} {c : Content} (h : RepS g c) (fuel : Nat)
    (st : σ) (f : σ → Int → Rat → Res (σ × Bool)) :
    SparseStore.ForEach fuel MapOrder.ascending g st f = visitS f st c := by
  rw [sparse_forEach_eq_visitS, h.1, mrange_ascending c h.2]

/-- (a) sparse: the collecting visitor ends with the entries in the oracle's order, a permutation of the content -/
theorem sparse_forEach_collect {g : SparseStore} {c : Content} (h : RepS g c) (fuel : Nat)
    (ord : MapOrder) (hl : ord.Lawful) (acc : List (Int × Rat)) :
    SparseStore.ForEach fuel ord g acc collect = .ok (acc ++ mrange ord c) ∧ (mrange ord c).Perm c := by
  refine ⟨?_, mrange_perm ord hl c h.2⟩
  rw [sparse_forEach_eq_visitS, h.1, visitS_collect]

/-- (b) sparse: a visitor that stops at the first entry satisfying `p` is called exactly on the entries up to and
    including that one (in the oracle's order) -/
theorem sparse_forEach_logStop (fuel : Nat) (ord : MapOrder) (g : SparseStore) (p : Int → Rat → Bool)
    (acc : List (Int × Rat)) :
    SparseStore.ForEach fuel ord g acc (logStop p) = .ok (acc ++ uptoFirst p (mrange ord g.counts)) := by
  rw [sparse_forEach_eq_visitS, visitS_logStop]

end Sparse

end DDS.GenForEach
