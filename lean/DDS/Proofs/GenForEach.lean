/-
  DDS.Proofs.GenForEach — the REGENERATED state-passing `ForEach` of the three stores
  (`DDS/Generated/CodeDenseIter.lean`, `CodeSparseIter.lean`, `CodePaginatedIter.lean`; the translator's convention:
  `ForEach {σ} fuel … (st : σ) (f : σ → Int → Rat → Res (σ × Bool)) : Res (σ × …)`, the state is threaded through every
  call of `f`, a visitor answering `true` stops the iteration) is the stop-aware left fold `visitS` of the visitor
  over the hand model's list of bins.

  `visitS f st l`: call `f st i c` on each bin `(i, c)` of `l` in order, threading the state; stop with the state the
  visitor returned as soon as it answers `true`; `.panic` / `.nofuel` of the visitor propagate (`visitS_cons`).

  1. DENSE (`DDS.Gen.DenseIter.DenseStore.ForEach`, model `DStore`, embedding `GenDense.toGen`)
     * `dense_forEach_eq_walk` (every store, no hypothesis but fuel): `ForEach fuel (toGen s) st f
         = denseWalk s f st (idxRange s.minIndex s.maxIndex)` — the checked walk over the window (out-of-range read =
       panic, non-positive counts skipped); fuel `denseFuel s = (maxIndex - minIndex + 1).toNat + 1`.
       `dense_forEach_gen`: the same for every generated store `g` through `ofGen`.
     * `dense_forEach_eq_visitS` (MAIN): `s.binsList = some bins → ForEach fuel (toGen s) st f = visitS f st bins`;
       `dense_forEach_inv`: under `DStore.Inv s` such a `bins` exists.
     * `dense_forEach_panic`: `s.binsList = none`, visitor total and never stopping ⇒ `.panic` (as the model).
     * DIFFERENCE (not reachable under `Inv`): the model's `binsList` is all-or-nothing, the generated loop is lazy:
       `lazyEx_binsList` / `lazyEx_forEach` — window leaving the array, `binsList = none`, yet a visitor that stops
       on the first bin gets `.ok`.
  2. PAGINATED (`DDS.Gen.PaginatedIter.BufferedPaginatedStore.ForEach`, model `PStore`, embedding `GenPag.toGen s cap`)
     * `pag_forEach_eq_visitS` (MAIN; every store, capacity, visitor; NO invariant):
         `ForEach fuel (toGen s cap) st f = (visitS f st s.binsList).bind (fun st' => .ok (st', toGen s.sortRead cap))`
       when `GenPag.forEachFuel s = s.buffer.length + 1 ≤ fuel`.  The proof is `GenPag.forEach_eq_visit` with the state
       threaded (`pg_loop6_run`, `pg_loop5_spec`, `pg_loop4_spec`, `pg_loop3_spec`, `pg_loop1_spec`; the state-independent
       data — consumed prefix, remaining runs — are existentially quantified OUTSIDE `∀ st`); the run calculus
       (`expand`, `RunsOK`, `takeLt/afterRest/mergedN`, `emitted/remaining`, `mergeIter_split`) is imported from there.
  3. SPARSE (`DDS.Gen.SparseIter.SparseStore.ForEach`)
     * `sparse_forEach_eq_visitS` (every store, every oracle, ANY fuel — the loop is structural):
         `ForEach fuel ord g st f = visitS f st (mrange ord g.counts)`.
     * `sparse_forEach_model`: `RepS g c`, `ord.Lawful` ⇒ `… = visitS f st (mrange ord c) ∧ (mrange ord c).Perm c`;
       `sparse_forEach_ascending`: with `MapOrder.ascending` the list is the model's content `c` itself.
  COROLLARIES (generic: `visitS_collect`, `visitS_logStop`, `visitS_total`, `visitS_pred`; per store `*_forEach_collect`,
  `*_forEach_logStop`):
     (a) the collecting visitor `collect = fun acc i c => .ok (acc ++ [(i, c)], false)` ends with `acc ++ bins`;
     (b) `logStop p = fun acc i c => .ok (acc ++ [(i, c)], p i c)` (records every call, stops at the first bin satisfying
         `p`) ends with `acc ++ uptoFirst p bins`: the visitor is called exactly on the bins up to and including the
         first one satisfying `p` — iteration stops as soon as asked.
  No disagreement between generated code and model on reachable stores.
-/
import DDS.Generated.CodeDenseIter
import DDS.Generated.CodeSparseIter
import DDS.Generated.CodePaginatedIter
import DDS.Proofs.GenDenseBase
import DDS.Proofs.GenSparse
import DDS.Proofs.GenPagIter

namespace DDS.GenForEach

open DDS DDS.GoSem

/-! ## the walker -/

/-- the stop-aware left fold of a state-passing visitor over a list of bins -/
def visitS {σ : Type} (f : σ → Int → Rat → Res (σ × Bool)) : σ → List (Int × Rat) → Res σ
  | st, [] => .ok st
  | st, (i, c) :: rest => (f st i c).bind (fun r => if r.2 then .ok r.1 else visitS f r.1 rest)

/-- the same with a continuation for "the list is exhausted" and a wrapper for "stopped" -/
def visitSR {σ ρ : Type} (f : σ → Int → Rat → Res (σ × Bool)) (mk : σ → ρ) :
    σ → List (Int × Rat) → (σ → Res ρ) → Res ρ
  | st, [], k => k st
  | st, (i, c) :: rest, k => (f st i c).bind (fun r => if r.2 then .ok (mk r.1) else visitSR f mk r.1 rest k)

/-- the same inside a loop: stopping is a `return` -/
def visitSL {σ τ ρ : Type} (f : σ → Int → Rat → Res (σ × Bool)) (mk : σ → ρ) :
    σ → List (Int × Rat) → (σ → Loop τ ρ) → Loop τ ρ
  | st, [], k => k st
  | st, (i, c) :: rest, k => (f st i c).bindL (fun r => if r.2 then .ret (mk r.1) else visitSL f mk r.1 rest k)

theorem visitSL_append {σ τ ρ : Type} (f : σ → Int → Rat → Res (σ × Bool)) (mk : σ → ρ)
    (a b : List (Int × Rat)) (k : σ → Loop τ ρ) : ∀ st : σ,
    visitSL f mk st (a ++ b) k = visitSL f mk st a (fun st' => visitSL f mk st' b k) := by
  induction a with
  | nil => intro st; rfl
  | cons p a ih =>
    intro st
    obtain ⟨i, c⟩ := p
    simp only [List.cons_append, visitSL, ih]

theorem visitSR_append {σ ρ : Type} (f : σ → Int → Rat → Res (σ × Bool)) (mk : σ → ρ)
    (a b : List (Int × Rat)) (k : σ → Res ρ) : ∀ st : σ,
    visitSR f mk st (a ++ b) k = visitSR f mk st a (fun st' => visitSR f mk st' b k) := by
  induction a with
  | nil => intro st; rfl
  | cons p a ih =>
    intro st
    obtain ⟨i, c⟩ := p
    simp only [List.cons_append, visitSR, ih]

theorem elimL_visitSL {σ τ τ' ρ : Type} (f : σ → Int → Rat → Res (σ × Bool)) (mk : σ → ρ)
    (l : List (Int × Rat)) (k : σ → Loop τ ρ) (K : τ → Loop τ' ρ) : ∀ st : σ,
    Loop.elimL (visitSL f mk st l k) K = visitSL f mk st l (fun st' => Loop.elimL (k st') K) := by
  induction l with
  | nil => intro st; rfl
  | cons p l ih =>
    intro st
    obtain ⟨i, c⟩ := p
    simp only [visitSL]
    cases f st i c with
    | ok r =>
      obtain ⟨st', b⟩ := r
      cases b with
      | false => exact ih st'
      | true => rfl
    | panic => rfl
    | nofuel => rfl

theorem elim_visitSL {σ τ ρ : Type} (f : σ → Int → Rat → Res (σ × Bool)) (mk : σ → ρ)
    (l : List (Int × Rat)) (k : σ → Loop τ ρ) (K : τ → Res ρ) : ∀ st : σ,
    Loop.elim (visitSL f mk st l k) K = visitSR f mk st l (fun st' => Loop.elim (k st') K) := by
  induction l with
  | nil => intro st; rfl
  | cons p l ih =>
    intro st
    obtain ⟨i, c⟩ := p
    simp only [visitSL, visitSR]
    cases f st i c with
    | ok r =>
      obtain ⟨st', b⟩ := r
      cases b with
      | false => exact ih st'
      | true => rfl
    | panic => rfl
    | nofuel => rfl

/-- with the same wrapper at the end, `visitSR` is `visitS` followed by the wrapper -/
theorem visitSR_eq_visitS {σ ρ : Type} (f : σ → Int → Rat → Res (σ × Bool)) (mk : σ → ρ)
    (l : List (Int × Rat)) : ∀ st : σ,
    visitSR f mk st l (fun st' => .ok (mk st')) = (visitS f st l).bind (fun st' => .ok (mk st')) := by
  induction l with
  | nil => intro st; rfl
  | cons p l ih =>
    intro st
    obtain ⟨i, c⟩ := p
    simp only [visitSR, visitS]
    cases f st i c with
    | ok r =>
      obtain ⟨st', b⟩ := r
      cases b with
      | false => exact ih st'
      | true => rfl
    | panic => rfl
    | nofuel => rfl

theorem visitS_nil {σ : Type} (f : σ → Int → Rat → Res (σ × Bool)) (st : σ) : visitS f st [] = .ok st := rfl

/-- one step of the fold, by cases on the visitor's answer -/
theorem visitS_cons {σ : Type} (f : σ → Int → Rat → Res (σ × Bool)) (st : σ) (i : Int) (c : Rat)
    (rest : List (Int × Rat)) :
    visitS f st ((i, c) :: rest) =
      match f st i c with
      | .ok (st', true) => .ok st'
      | .ok (st', false) => visitS f st' rest
      | .panic => .panic
      | .nofuel => .nofuel := by
  simp only [visitS]
  cases f st i c with
  | ok r =>
    obtain ⟨st', b⟩ := r
    cases b <;> rfl
  | panic => rfl
  | nofuel => rfl

/-! ## corollaries about particular visitors (any list of bins) -/

/-- the prefix of `l` up to and including the first bin on which `p` answers `true` -/
def uptoFirst (p : Int → Rat → Bool) (l : List (Int × Rat)) : List (Int × Rat) :=
  l.takeWhile (fun x => !p x.1 x.2) ++ (l.dropWhile (fun x => !p x.1 x.2)).take 1

theorem uptoFirst_nil (p : Int → Rat → Bool) : uptoFirst p [] = [] := rfl

theorem uptoFirst_cons (p : Int → Rat → Bool) (i : Int) (c : Rat) (rest : List (Int × Rat)) :
    uptoFirst p ((i, c) :: rest) = (i, c) :: (if p i c then [] else uptoFirst p rest) := by
  unfold uptoFirst
  simp only [List.takeWhile_cons, List.dropWhile_cons]
  cases p i c <;> simp

/-- never asked to stop: the prefix is the whole list -/
theorem uptoFirst_false (l : List (Int × Rat)) : uptoFirst (fun _ _ => false) l = l := by
  induction l with
  | nil => rfl
  | cons x rest ih =>
    obtain ⟨i, c⟩ := x
    rw [uptoFirst_cons, ih]; rfl

/-- the collecting visitor (what `ToProto`-style closures and the `MergeWith` fallbacks are): never stops -/
def collect : List (Int × Rat) → Int → Rat → Res (List (Int × Rat) × Bool) :=
  fun acc i c => .ok (acc ++ [(i, c)], false)

/-- a visitor that records every call it receives and asks to stop at the first bin satisfying `p` -/
def logStop (p : Int → Rat → Bool) : List (Int × Rat) → Int → Rat → Res (List (Int × Rat) × Bool) :=
  fun acc i c => .ok (acc ++ [(i, c)], p i c)

/-- (b) the calls received are exactly the bins up to and including the first one satisfying `p` -/
theorem visitS_logStop (p : Int → Rat → Bool) (l : List (Int × Rat)) : ∀ acc : List (Int × Rat),
    visitS (logStop p) acc l = .ok (acc ++ uptoFirst p l) := by
  induction l with
  | nil => intro acc; simp [visitS, uptoFirst_nil]
  | cons x rest ih =>
    intro acc
    obtain ⟨i, c⟩ := x
    rw [uptoFirst_cons]
    simp only [visitS, logStop, Res.bind_ok]
    cases hp : p i c with
    | true => simp
    | false =>
      have := ih (acc ++ [(i, c)])
      simp [this]

/-- (a) the collecting visitor ends with exactly the list of bins appended to its state -/
theorem visitS_collect (l : List (Int × Rat)) (acc : List (Int × Rat)) :
    visitS collect acc l = .ok (acc ++ l) := by
  have h := visitS_logStop (fun _ _ => false) l acc
  rw [uptoFirst_false] at h
  exact h

/-- a visitor that never stops and never fails is the plain left fold -/
theorem visitS_total {σ : Type} (step : σ → Int → Rat → σ) (l : List (Int × Rat)) : ∀ st : σ,
    visitS (fun st i c => .ok (step st i c, false)) st l = .ok (l.foldl (fun st x => step st x.1 x.2) st) := by
  induction l with
  | nil => intro st; rfl
  | cons x rest ih =>
    intro st
    obtain ⟨i, c⟩ := x
    simp only [visitS, Res.bind_ok, List.foldl_cons]
    exact ih _

/-- a stop predicate on the bin alone with a pure state update: the fold over `uptoFirst p l` -/
theorem visitS_pred {σ : Type} (step : σ → Int → Rat → σ) (p : Int → Rat → Bool) (l : List (Int × Rat)) :
    ∀ st : σ,
    visitS (fun st i c => .ok (step st i c, p i c)) st l
      = .ok ((uptoFirst p l).foldl (fun st x => step st x.1 x.2) st) := by
  induction l with
  | nil => intro st; rfl
  | cons x rest ih =>
    intro st
    obtain ⟨i, c⟩ := x
    rw [uptoFirst_cons]
    simp only [visitS, Res.bind_ok, List.foldl_cons]
    cases hp : p i c with
    | true => simp
    | false => simpa using ih _

/-! ## 1. the dense store -/

section Dense
open DDS.DStore DDS.GenDense
open DDS.Gen.DenseIter

/-- the walk over the window as the generated code does it: checked read, skip non-positive counts -/
def denseWalk {σ : Type} (s : DStore) (f : σ → Int → Rat → Res (σ × Bool)) : σ → List Int → Res σ
  | st, [] => .ok st
  | st, idx :: rest =>
    match rd s.bins (idx - s.offset) with
    | none => .panic
    | some c =>
      if 0 < c then (f st idx c).bind (fun r => if r.2 then .ok r.1 else denseWalk s f r.1 rest)
      else denseWalk s f st rest

/-- fuel: one iteration per index of the window, one more to see the end -/
def denseFuel (s : DStore) : Nat := (s.maxIndex - s.minIndex + 1).toNat + 1

theorem dense_loop1 {σ : Type} (s : DStore) (f : σ → Int → Rat → Res (σ × Bool)) :
    ∀ (n : Nat) (fuel : Nat) (lo : Int) (st : σ), n = (s.maxIndex - lo + 1).toNat → n + 1 ≤ fuel →
      Loop.elim (DenseStore.ForEach.loop1 (GenDense.toGen s) f fuel st lo) (fun x => .ok x.1)
        = denseWalk s f st (irange lo n) := by
  intro n
  induction n with
  | zero =>
    intro fuel lo st hn hf
    obtain ⟨fuel, rfl⟩ : ∃ k, fuel = k + 1 := ⟨fuel - 1, by omega⟩
    unfold DenseStore.ForEach.loop1
    have hle : ¬ lo ≤ (GenDense.toGen s).maxIndex := by show ¬ lo ≤ s.maxIndex; omega
    rw [if_neg (by rw [decide_eq_false hle]; decide)]
    rfl
  | succ n ih =>
    intro fuel lo st hn hf
    obtain ⟨fuel, rfl⟩ : ∃ k, fuel = k + 1 := ⟨fuel - 1, by omega⟩
    unfold DenseStore.ForEach.loop1
    have hle : lo ≤ (GenDense.toGen s).maxIndex := by show lo ≤ s.maxIndex; omega
    rw [if_pos (decide_eq_true hle), irange_succ_left]
    simp only [toGen_bins, toGen_offset, idx_toList, denseWalk]
    cases hrd : rd s.bins (lo - s.offset) with
    | none => rfl
    | some c =>
      simp only [optL_some]
      by_cases hc : 0 < c
      · rw [if_pos (by simpa using hc), if_pos hc]
        cases f st lo c with
        | ok r =>
          obtain ⟨st', b⟩ := r
          cases b with
          | true => rfl
          | false => exact ih fuel (lo + 1) st' (by omega) (by omega)
        | panic => rfl
        | nofuel => rfl
      · rw [if_neg (by simpa using hc), if_neg hc]
        exact ih fuel (lo + 1) st (by omega) (by omega)

/-- MAIN (dense, every store): `ForEach` is the checked walk over the window `minIndex … maxIndex` -/
theorem dense_forEach_eq_walk {σ : Type} (s : DStore) (st : σ) (f : σ → Int → Rat → Res (σ × Bool)) (fuel : Nat)
    (hf : denseFuel s ≤ fuel) :
    DenseStore.ForEach fuel (GenDense.toGen s) st f = denseWalk s f st (idxRange s.minIndex s.maxIndex) := by
  unfold DenseStore.ForEach
  rw [idxRange_eq]
  exact dense_loop1 s f _ fuel s.minIndex st rfl hf

/-- when the model's `binsList` succeeds, the walk is the fold over it -/
theorem denseWalk_eq_visitS {σ : Type} (s : DStore) (f : σ → Int → Rat → Res (σ × Bool)) :
    ∀ (l : List Int) (bins : List (Int × Rat)) (st : σ),
      l.foldrM (fun idx acc => do
          let c ← rd s.bins (idx - s.offset)
          pure (if c > 0 then (idx, c) :: acc else acc)) [] = some bins →
      denseWalk s f st l = visitS f st bins := by
  intro l
  induction l with
  | nil =>
    intro bins st h
    simp only [List.foldrM_nil, Option.pure_def, Option.some.injEq] at h
    subst h; rfl
  | cons idx rest ih =>
    intro bins st h
    rw [List.foldrM_cons] at h
    cases hacc : rest.foldrM (fun idx acc => do
          let c ← rd s.bins (idx - s.offset)
          pure (if c > 0 then (idx, c) :: acc else acc)) [] with
    | none => rw [hacc] at h; simp at h
    | some acc =>
      rw [hacc] at h
      simp only [Option.bind_eq_bind, Option.bind_some] at h
      cases hrd : rd s.bins (idx - s.offset) with
      | none => rw [hrd] at h; simp at h
      | some c =>
        rw [hrd] at h
        simp only [Option.bind_some, Option.pure_def, Option.some.injEq] at h
        simp only [denseWalk, hrd]
        by_cases hc : 0 < c
        · rw [if_pos hc] at h ⊢
          subst h
          simp only [visitS, ih acc _ hacc]
        · rw [if_neg hc] at h ⊢
          subst h
          exact ih _ st hacc

/-- MAIN (dense): the regenerated stateful `ForEach` is the stop-aware fold over the model's `binsList` -/
theorem dense_forEach_eq_visitS {σ : Type} (s : DStore) (bins : List (Int × Rat)) (hb : s.binsList = some bins)
    (st : σ) (f : σ → Int → Rat → Res (σ × Bool)) (fuel : Nat) (hf : denseFuel s ≤ fuel) :
    DenseStore.ForEach fuel (GenDense.toGen s) st f = visitS f st bins := by
  rw [dense_forEach_eq_walk s st f fuel hf]
  exact denseWalk_eq_visitS s f _ bins st hb

/-- the invariant of the dense store makes `binsList` succeed: the equation holds for every reachable store -/
theorem dense_forEach_inv {σ : Type} (s : DStore) (h : DStore.Inv s)
    (st : σ) (f : σ → Int → Rat → Res (σ × Bool)) (fuel : Nat) (hf : denseFuel s ≤ fuel) :
    ∃ bins, s.binsList = some bins ∧ DenseStore.ForEach fuel (GenDense.toGen s) st f = visitS f st bins := by
  obtain ⟨l, hl, _⟩ := DStore.binsList_spec s h
  exact ⟨l, hl, dense_forEach_eq_visitS s l hl st f fuel hf⟩

/-- (a) dense: the collecting visitor ends with exactly the model's bins -/
theorem dense_forEach_collect (s : DStore) (bins : List (Int × Rat)) (hb : s.binsList = some bins)
    (acc : List (Int × Rat)) (fuel : Nat) (hf : denseFuel s ≤ fuel) :
    DenseStore.ForEach fuel (GenDense.toGen s) acc collect = .ok (acc ++ bins) := by
  rw [dense_forEach_eq_visitS s bins hb acc collect fuel hf, visitS_collect]

/-- (b) dense: a visitor that stops at the first bin satisfying `p` is called exactly on the bins up to and
    including that one -/
theorem dense_forEach_logStop (s : DStore) (bins : List (Int × Rat)) (hb : s.binsList = some bins)
    (p : Int → Rat → Bool) (acc : List (Int × Rat)) (fuel : Nat) (hf : denseFuel s ≤ fuel) :
    DenseStore.ForEach fuel (GenDense.toGen s) acc (logStop p) = .ok (acc ++ uptoFirst p bins) := by
  rw [dense_forEach_eq_visitS s bins hb acc (logStop p) fuel hf, visitS_logStop]

/-- every generated `DenseStore` (not only images of model stores): the same equation through `ofGen` -/
theorem dense_forEach_gen {σ : Type} (g : GS) (st : σ) (f : σ → Int → Rat → Res (σ × Bool)) (fuel : Nat)
    (hf : denseFuel (ofGen g) ≤ fuel) :
    DenseStore.ForEach fuel g st f = denseWalk (ofGen g) f st (idxRange g.minIndex g.maxIndex) := by
  have h := dense_forEach_eq_walk (ofGen g) st f fuel hf
  rw [toGen_ofGen] at h
  exact h

/-- the model's `binsList` fails (an index of the window lies outside the array, impossible under `Inv`): a visitor
    that never stops and never fails reaches the bad index, `ForEach` panics like the model -/
theorem denseWalk_panic_of_none {σ : Type} (s : DStore) (f : σ → Int → Rat → Res (σ × Bool))
    (htot : ∀ st i c, ∃ st', f st i c = .ok (st', false)) :
    ∀ (l : List Int) (st : σ),
      l.foldrM (fun idx acc => do
          let c ← rd s.bins (idx - s.offset)
          pure (if c > 0 then (idx, c) :: acc else acc)) ([] : List (Int × Rat)) = none →
      denseWalk s f st l = .panic := by
  intro l
  induction l with
  | nil => intro st h; simp at h
  | cons idx rest ih =>
    intro st h
    rw [List.foldrM_cons] at h
    simp only [denseWalk]
    cases hrd : rd s.bins (idx - s.offset) with
    | none => rfl
    | some c =>
      have hrest : rest.foldrM (fun idx acc => do
          let c ← rd s.bins (idx - s.offset)
          pure (if c > 0 then (idx, c) :: acc else acc)) ([] : List (Int × Rat)) = none := by
        cases hacc : rest.foldrM (fun idx acc => do
            let c ← rd s.bins (idx - s.offset)
            pure (if c > 0 then (idx, c) :: acc else acc)) ([] : List (Int × Rat)) with
        | none => rfl
        | some acc => rw [hacc] at h; simp [hrd] at h
      simp only []
      by_cases hc : 0 < c
      · rw [if_pos hc]
        obtain ⟨st', hst'⟩ := htot st idx c
        rw [hst']
        exact ih st' hrest
      · rw [if_neg hc]
        exact ih st hrest

theorem dense_forEach_panic {σ : Type} (s : DStore) (hb : s.binsList = none) (st : σ)
    (f : σ → Int → Rat → Res (σ × Bool)) (htot : ∀ st i c, ∃ st', f st i c = .ok (st', false))
    (fuel : Nat) (hf : denseFuel s ≤ fuel) :
    DenseStore.ForEach fuel (GenDense.toGen s) st f = .panic := by
  rw [dense_forEach_eq_walk s st f fuel hf]
  exact denseWalk_panic_of_none s f htot _ st hb

/-- … but the generated iteration is LAZY where the model's list is all-or-nothing: on a store whose window leaves
    the array (`binsList = none`), a visitor that stops before the bad index gets its answer.  (Not reachable: `Inv`
    keeps the window inside the array.) -/
def lazyEx : DStore :=
  { kind := .plain, bins := #[1], count := 1, offset := 0, minIndex := 0, maxIndex := 1, isCollapsed := false }

theorem lazyEx_binsList : lazyEx.binsList = none := by decide

theorem lazyEx_forEach :
    DenseStore.ForEach 3 (GenDense.toGen lazyEx) ([] : List (Int × Rat)) (logStop (fun _ _ => true))
      = .ok [(0, 1)] := by
  rw [dense_forEach_eq_walk lazyEx _ _ 3 (by decide)]
  have h0 : rd lazyEx.bins (0 - lazyEx.offset) = some 1 := by decide
  have hr : idxRange lazyEx.minIndex lazyEx.maxIndex = [0, 1] := by decide
  rw [hr]
  simp only [denseWalk, h0]
  rw [if_pos (by decide)]
  rfl

end Dense

/-! ## 2. the paginated store

The proof of the pure-callback version (`DDS.GenPag.forEach_eq_visit`) with the state threaded: the loop invariant is
`buffer = pre ++ expand rs ∧ RunsOK rs` (consumed prefix, remaining runs), `bufferPos = pre.length`; the run
decomposition (`expand`, `RunsOK`, `takeLt`, `afterRest`, `mergedN`, `emitted`, `remaining`) is reused from there. -/

section Pag
open DDS.GenPag
open DDS.Gen.PaginatedIter
open DDS.PStore (castRuns runs mergeIter linesOf linesFrom)

theorem bindL_congr {α τ ρ : Type} (x : Res α) (k k' : α → Loop τ ρ) (h : ∀ a, k a = k' a) :
    x.bindL k = x.bindL k' := by
  cases x with
  | ok a => exact h a
  | panic => rfl
  | nofuel => rfl

theorem visitSL_congr {σ τ ρ : Type} (f : σ → Int → Rat → Res (σ × Bool)) (mk : σ → ρ) (l : List (Int × Rat))
    (k k' : σ → Loop τ ρ) (h : ∀ st, k st = k' st) (st : σ) : visitSL f mk st l k = visitSL f mk st l k' := by
  have : k = k' := funext h
  rw [this]

/-! ### the run scanners `loop6` / `loop2` -/

theorem pg_loop6_run {σ : Type} (g : GP) (st : Nat) (y : Int) (hst : g.buffer[st]? = some y) :
    ∀ (m p fuel : Nat), (∀ j, p ≤ j → j < p + m → g.buffer[j]? = some y) →
      g.buffer[p + m]? ≠ some y → m + 1 ≤ fuel →
      BufferedPaginatedStore.ForEach.loop6 (σ := σ) g (st : Int) fuel (p : Int) = .done ((p + m : Nat) : Int) := by
  intro m
  induction m with
  | zero =>
    intro p fuel _ hend hf
    obtain ⟨fuel, rfl⟩ : ∃ k, fuel = k + 1 := ⟨fuel - 1, by omega⟩
    unfold BufferedPaginatedStore.ForEach.loop6
    by_cases hp : p < g.buffer.length
    · obtain ⟨z, hz⟩ : ∃ z, g.buffer[p]? = some z := ⟨g.buffer[p], List.getElem?_eq_getElem hp⟩
      have hne : z ≠ y := by
        intro h; subst h; exact hend (by simpa using hz)
      have hb : (z == y) = false := by simpa using hne
      simp only [GoSem.len, fe_idx_nat, hst, hz, optL_some, hb]
      rw [if_pos (by simpa using hp)]
      rfl
    · rw [if_neg (by simpa [GoSem.len] using hp)]
      rfl
  | succ m ih =>
    intro p fuel hrun hend hf
    obtain ⟨fuel, rfl⟩ : ∃ k, fuel = k + 1 := ⟨fuel - 1, by omega⟩
    have hp : g.buffer[p]? = some y := hrun p (Nat.le_refl _) (by omega)
    obtain ⟨hlt, _⟩ := List.getElem?_eq_some_iff.1 hp
    have e : (p : Int) + 1 = ((p + 1 : Nat) : Int) := by omega
    unfold BufferedPaginatedStore.ForEach.loop6
    simp only [GoSem.len, fe_idx_nat, hst, hp, optL_some, beq_self_eq_true, if_true]
    rw [if_pos (by simpa using hlt), e, ih (p + 1) fuel (fun j h1 h2 => hrun j (by omega) (by omega))
      (by rw [show p + 1 + m = p + (m + 1) by omega]; exact hend) (by omega)]
    congr 2; omega

theorem pg_loop2_eq_loop6 {σ : Type} (g : GP) (st : Int) : ∀ (fuel : Nat) (p : Int),
    BufferedPaginatedStore.ForEach.loop2 (σ := σ) g st fuel p
      = BufferedPaginatedStore.ForEach.loop6 (σ := σ) g st fuel p := by
  intro fuel
  induction fuel with
  | zero => intro p; rfl
  | succ n ih =>
    intro p
    unfold BufferedPaginatedStore.ForEach.loop2 BufferedPaginatedStore.ForEach.loop6
    simp only [ih]

/-! ### `loop5`: drain the runs up to a page line -/

theorem pg_loop5_spec {σ : Type} (g : GP) (index : Int) (f : σ → Int → Rat → Res (σ × Bool)) :
    ∀ (rs : List (Int × Nat)) (pre : List Int) (fuel : Nat) (st0 : Int),
      g.buffer = pre ++ expand rs → RunsOK rs → (expand rs).length + 1 ≤ fuel →
      ∃ (pre' : List Int) (st1 : Int), g.buffer = pre' ++ expand (afterRest index rs) ∧
        (pre'.length : Int) - st1 = (mergedN index rs : Int) ∧
        ∀ st : σ, BufferedPaginatedStore.ForEach.loop5 g index f fuel st0 (pre.length : Int) st
          = visitSL f (fun x => (x, g)) st (castRuns (takeLt index rs))
              (fun st' => .done (st1, (pre'.length : Int), st')) := by
  intro rs
  induction rs with
  | nil =>
    intro pre fuel st0 hB _ hf
    obtain ⟨fuel, rfl⟩ : ∃ k, fuel = k + 1 := ⟨fuel - 1, by omega⟩
    refine ⟨pre, (pre.length : Int), hB, by simp [mergedN], ?_⟩
    intro st
    unfold BufferedPaginatedStore.ForEach.loop5
    have hl : g.buffer.length = pre.length := by rw [hB]; simp
    simp only [GoSem.len, hl]
    rw [if_pos (by simp)]
    rfl
  | cons r more ih =>
    intro pre fuel st0 hB hok hf
    obtain ⟨y, n⟩ := r
    obtain ⟨hget, hend⟩ := fe_run_facts g.buffer pre y n more hB hok
    have hn : 0 < n := hok.1
    have hmore : RunsOK more := hok.2.2
    have hlen : g.buffer.length = pre.length + n + (expand more).length := by
      rw [hB, expand_cons]; simp; omega
    rw [expand_cons] at hf
    simp only [List.length_append, List.length_replicate] at hf
    obtain ⟨fuel, rfl⟩ : ∃ k, fuel = k + 1 := ⟨fuel - 1, by omega⟩
    have h0 : g.buffer[pre.length]? = some y := by simpa using hget 0 hn
    by_cases hlt : index < y
    · obtain ⟨e1, e2, e3⟩ := pieces_gt index y n more hlt
      refine ⟨pre, (pre.length : Int), by rw [e2]; exact hB, by rw [e3]; simp, ?_⟩
      intro st
      unfold BufferedPaginatedStore.ForEach.loop5
      simp only [GoSem.len, fe_idx_nat, h0, optL_some]
      rw [if_neg (by simp; omega), if_pos (by simpa using hlt), e1]
      rfl
    · have e : (pre.length : Int) + 1 = ((pre.length + 1 : Nat) : Int) := by omega
      have h6 := pg_loop6_run (σ := σ) g pre.length y h0 (n - 1) (pre.length + 1) fuel
        (fun j h1 h2 => by
          have := hget (j - pre.length) (by omega)
          rwa [show pre.length + (j - pre.length) = j by omega] at this)
        (by rw [show pre.length + 1 + (n - 1) = pre.length + n by omega]; exact hend) (by omega)
      have epos : pre.length + 1 + (n - 1) = (pre ++ List.replicate n y).length := by simp; omega
      rw [epos] at h6
      have hB' : g.buffer = (pre ++ List.replicate n y) ++ expand more := by
        rw [hB, expand_cons]; simp
      by_cases heq : y = index
      · subst heq
        obtain ⟨e1, e2, e3⟩ := pieces_eq y n more
        refine ⟨pre ++ List.replicate n y, (pre.length : Int), by rw [e2]; exact hB', by rw [e3]; simp, ?_⟩
        intro st
        unfold BufferedPaginatedStore.ForEach.loop5
        simp only [GoSem.len, fe_idx_nat, h0, optL_some]
        rw [if_neg (by simp; omega), if_neg (by simp), e, h6, e1]
        simp [Loop.elimL, visitSL]
      · obtain ⟨e1, e2, e3⟩ := pieces_lt index y n more (by omega)
        obtain ⟨pre', st1, h1, h2, h3⟩ := ih (pre ++ List.replicate n y) fuel (pre.length : Int) hB' hmore (by omega)
        refine ⟨pre', st1, by rw [e2]; exact h1, by rw [e3]; exact h2, ?_⟩
        intro st
        have hb : (y == index) = false := by simpa using heq
        have ecnt : (((pre ++ List.replicate n y).length : Int) - (pre.length : Int)) = (n : Int) := by
          simp
        unfold BufferedPaginatedStore.ForEach.loop5
        simp only [GoSem.len, fe_idx_nat, h0, optL_some]
        rw [if_neg (by simp; omega), if_neg (by simpa using hlt), e, h6, e1]
        simp only [Loop.elimL, hb, castRuns, List.map_cons, visitSL, ecnt, Bool.false_eq_true, if_false]
        apply bindL_congr
        rintro ⟨st', b⟩
        cases b with
        | true => rfl
        | false => exact h3 st'

/-! ### `loop4` (one page), `loop3` (all pages), `loop1` (the rest of the buffer) -/

theorem pg_loop4_spec {σ : Type} (s : PStore) (cap : Int) (off : Int) (f : σ → Int → Rat → Res (σ × Bool))
    (fuel : Nat) (hf : (toGen s cap).buffer.length + 1 ≤ fuel) :
    ∀ (ys : List Rat) (m : Nat) (rs : List (Int × Nat)) (pre : List Int),
      (toGen s cap).buffer = pre ++ expand rs → RunsOK rs →
      ∃ pre' : List Int,
        (toGen s cap).buffer = pre' ++ expand (remaining (linesOf s (s.minPageIndex + off) ys m) rs) ∧
        ∀ st : σ, BufferedPaginatedStore.ForEach.loop4 fuel (toGen s cap) off f ys (m : Int) (pre.length : Int) st
          = visitSL f (fun x => (x, toGen s cap)) st (emitted (linesOf s (s.minPageIndex + off) ys m) rs)
              (fun st' => .done ((pre'.length : Int), st')) := by
  intro ys
  induction ys with
  | nil =>
    intro m rs pre hB _
    exact ⟨pre, hB, fun st => rfl⟩
  | cons y ys ih =>
    intro m rs pre hB hok
    have e : (m : Int) + 1 = ((m + 1 : Nat) : Int) := by omega
    rw [PStore.linesOf_cons]
    by_cases hc : y = 0
    · have hb : (y == (0 : Rat)) = true := by simpa using hc
      obtain ⟨pre', h4, h5⟩ := ih (m + 1) rs pre hB hok
      refine ⟨pre', by simpa only [remaining, if_pos hc] using h4, ?_⟩
      intro st
      unfold BufferedPaginatedStore.ForEach.loop4
      simp only [hb, if_true, emitted, if_pos hc]
      rw [e]
      exact h5 st
    · have hb : (y == (0 : Rat)) = false := by simpa using hc
      obtain ⟨pre1, st1, h1, h2, h3⟩ := pg_loop5_spec (toGen s cap) (s.index (s.minPageIndex + off) m) f rs pre fuel 0
        hB hok (by have := expand_length_le _ _ _ hB; omega)
      obtain ⟨pre', h4, h5⟩ := ih (m + 1) _ pre1 h1 (runsOK_afterRest _ rs hok)
      refine ⟨pre', by simpa only [remaining, if_neg hc] using h4, ?_⟩
      intro st
      unfold BufferedPaginatedStore.ForEach.loop4
      simp only [hb, emitted, if_neg hc, toGen_minPageIndex, fe_index_eq, Bool.false_eq_true, if_false]
      rw [h3 st, elimL_visitSL, visitSL_append]
      apply visitSL_congr
      intro st'
      simp only [Loop.elimL, visitSL, h2]
      apply bindL_congr
      rintro ⟨st'', b⟩
      cases b with
      | true => rfl
      | false =>
        simp only [Bool.false_eq_true, if_false]
        rw [e]
        exact h5 st''

theorem pg_loop3_spec {σ : Type} (s : PStore) (cap : Int) (f : σ → Int → Rat → Res (σ × Bool)) (fuel : Nat)
    (hf : (toGen s cap).buffer.length + 1 ≤ fuel) :
    ∀ (xs : List (Array Rat)) (n : Nat) (rs : List (Int × Nat)) (pre : List Int),
      (toGen s cap).buffer = pre ++ expand rs → RunsOK rs →
      ∃ pre' : List Int,
        (toGen s cap).buffer = pre' ++ expand (remaining (linesFrom s xs n) rs) ∧
        ∀ st : σ, BufferedPaginatedStore.ForEach.loop3 fuel (toGen s cap) f (xs.map Array.toList) (n : Int)
            (pre.length : Int) st
          = visitSL f (fun x => (x, toGen s cap)) st (emitted (linesFrom s xs n) rs)
              (fun st' => .done ((pre'.length : Int), st')) := by
  intro xs
  induction xs with
  | nil =>
    intro n rs pre hB _
    exact ⟨pre, hB, fun st => rfl⟩
  | cons pg xs ih =>
    intro n rs pre hB hok
    have e : (n : Int) + 1 = ((n + 1 : Nat) : Int) := by omega
    rw [PStore.linesFrom_cons, emitted_append, remaining_append]
    obtain ⟨pre1, h1, h2⟩ := pg_loop4_spec s cap (n : Int) f fuel hf pg.toList 0 rs pre hB hok
    obtain ⟨pre', h3, h4⟩ := ih (n + 1) _ pre1 h1 (runsOK_remaining _ rs hok)
    refine ⟨pre', h3, ?_⟩
    intro st
    simp only [List.map_cons]
    unfold BufferedPaginatedStore.ForEach.loop3
    have h2' := h2 st
    simp only [Int.natCast_zero] at h2'
    rw [h2', elimL_visitSL, visitSL_append]
    apply visitSL_congr
    intro st'
    simp only [Loop.elimL]
    rw [e]
    exact h4 st'

theorem pg_loop1_spec {σ : Type} (g : GP) (f : σ → Int → Rat → Res (σ × Bool)) :
    ∀ (rs : List (Int × Nat)) (pre : List Int) (fuel : Nat),
      g.buffer = pre ++ expand rs → RunsOK rs → (expand rs).length + 1 ≤ fuel →
      ∀ st : σ, BufferedPaginatedStore.ForEach.loop1 g f fuel (pre.length : Int) st
        = visitSL f (fun x => (x, g)) st (castRuns rs) (fun st' => .done ((g.buffer.length : Int), st')) := by
  intro rs
  induction rs with
  | nil =>
    intro pre fuel hB _ hf st
    obtain ⟨fuel, rfl⟩ : ∃ k, fuel = k + 1 := ⟨fuel - 1, by omega⟩
    have hl : g.buffer.length = pre.length := by rw [hB]; simp
    unfold BufferedPaginatedStore.ForEach.loop1
    simp only [GoSem.len, hl]
    rw [if_neg (by simp)]
    rfl
  | cons r more ih =>
    intro pre fuel hB hok hf st
    obtain ⟨y, n⟩ := r
    obtain ⟨hget, hend⟩ := fe_run_facts g.buffer pre y n more hB hok
    have hn : 0 < n := hok.1
    have hmore : RunsOK more := hok.2.2
    have hlen : g.buffer.length = pre.length + n + (expand more).length := by
      rw [hB, expand_cons]; simp; omega
    rw [expand_cons] at hf
    simp only [List.length_append, List.length_replicate] at hf
    obtain ⟨fuel, rfl⟩ : ∃ k, fuel = k + 1 := ⟨fuel - 1, by omega⟩
    have h0 : g.buffer[pre.length]? = some y := by simpa using hget 0 hn
    unfold BufferedPaginatedStore.ForEach.loop1
    have hlt : decide ((pre.length : Int) < GoSem.len g.buffer) = true := by
      simp [GoSem.len]; omega
    rw [if_pos hlt]
    have e : (pre.length : Int) + 1 = ((pre.length + 1 : Nat) : Int) := by omega
    simp only []
    rw [e, pg_loop2_eq_loop6, pg_loop6_run g pre.length y h0 (n - 1) (pre.length + 1) fuel
      (fun j h1 h2 => by
        have := hget (j - pre.length) (by omega)
        rwa [show pre.length + (j - pre.length) = j by omega] at this)
      (by rw [show pre.length + 1 + (n - 1) = pre.length + n by omega]; exact hend) (by omega)]
    have epos : pre.length + 1 + (n - 1) = (pre ++ List.replicate n y).length := by simp; omega
    have hB' : g.buffer = (pre ++ List.replicate n y) ++ expand more := by
      rw [hB, expand_cons]; simp
    have ecnt : (((pre ++ List.replicate n y).length : Int) - (pre.length : Int)) = (n : Int) := by
      simp
    simp only [Loop.elimL, fe_idx_nat, h0, optL_some, epos, ecnt, castRuns, List.map_cons, visitSL]
    apply bindL_congr
    rintro ⟨st', b⟩
    cases b with
    | true => rfl
    | false => exact ih (pre ++ List.replicate n y) fuel hB' hmore (by omega) st'

/-! ### `ForEach` -/

/-- MAIN (paginated, every store, capacity, visitor; no invariant): the regenerated stateful `ForEach` is the
    stop-aware fold over the model's `binsList`, and returns the store with its buffer sorted -/
theorem pag_forEach_eq_visitS {σ : Type} (s : PStore) (cap : Int) (st : σ) (f : σ → Int → Rat → Res (σ × Bool))
    (fuel : Nat) (hf : forEachFuel s ≤ fuel) :
    BufferedPaginatedStore.ForEach fuel (toGen s cap) st f
      = (visitS f st s.binsList).bind (fun st' => .ok (st', toGen s.sortRead cap)) := by
  unfold BufferedPaginatedStore.ForEach
  simp only [fe_sortBuffer_toGen]
  have hB : (toGen s.sortRead cap).buffer = [] ++ expand (runs (PStore.sortInts s.buffer)) := by
    rw [expand_runs]; rfl
  have hlen : (toGen s.sortRead cap).buffer.length + 1 ≤ fuel := by
    show (PStore.sortInts s.buffer).length + 1 ≤ fuel
    rw [PStore.length_sortInts]; exact hf
  obtain ⟨pre', h1, h2⟩ := pg_loop3_spec s.sortRead cap f fuel hlen s.pages.toList 0 _ [] hB (runsOK_runs _)
  have h2' : BufferedPaginatedStore.ForEach.loop3 fuel (toGen s.sortRead cap) f (toGen s.sortRead cap).pages 0 0 st
      = visitSL f (fun x => (x, toGen s.sortRead cap)) st
          (emitted (linesFrom s.sortRead s.pages.toList 0) (runs (PStore.sortInts s.buffer)))
          (fun st' => .done ((pre'.length : Int), st')) := h2 st
  have h3 := pg_loop1_spec (toGen s.sortRead cap) f _ pre' fuel h1 (runsOK_remaining _ _ (runsOK_runs _))
    (by have := expand_length_le _ _ _ h1; omega)
  rw [h2', elim_visitSL]
  simp only [Loop.elim_done, h3, elim_visitSL]
  rw [← visitSR_append]
  have e : s.binsList = emitted (linesFrom s.sortRead s.pages.toList 0) (runs (PStore.sortInts s.buffer)) ++
      castRuns (remaining (linesFrom s.sortRead s.pages.toList 0) (runs (PStore.sortInts s.buffer))) := by
    rw [← mergeIter_split]; rfl
  rw [e]
  exact visitSR_eq_visitS f (fun x => (x, toGen s.sortRead cap)) _ st

/-- (a) paginated: the collecting visitor ends with exactly the model's `binsList` -/
theorem pag_forEach_collect (s : PStore) (cap : Int) (acc : List (Int × Rat)) (fuel : Nat)
    (hf : forEachFuel s ≤ fuel) :
    BufferedPaginatedStore.ForEach fuel (toGen s cap) acc collect
      = .ok (acc ++ s.binsList, toGen s.sortRead cap) := by
  rw [pag_forEach_eq_visitS s cap acc collect fuel hf, visitS_collect]
  rfl

/-- (b) paginated: a visitor that stops at the first bin satisfying `p` is called exactly on the bins up to and
    including that one -/
theorem pag_forEach_logStop (s : PStore) (cap : Int) (p : Int → Rat → Bool) (acc : List (Int × Rat)) (fuel : Nat)
    (hf : forEachFuel s ≤ fuel) :
    BufferedPaginatedStore.ForEach fuel (toGen s cap) acc (logStop p)
      = .ok (acc ++ uptoFirst p s.binsList, toGen s.sortRead cap) := by
  rw [pag_forEach_eq_visitS s cap acc (logStop p) fuel hf, visitS_logStop]
  rfl

end Pag

/-! ## 3. the sparse store -/

section Sparse
open DDS.GenSparse
open DDS.Gen.Sparse DDS.Gen.SparseIter

theorem sparse_loop1 {σ : Type} (f : σ → Int → Rat → Res (σ × Bool)) : ∀ (l : List (Int × Rat)) (st : σ),
    Loop.elim (SparseStore.ForEach.loop1 f l st) (fun st' => .ok st') = visitS f st l := by
  intro l
  induction l with
  | nil => intro st; rfl
  | cons p l ih =>
    intro st
    obtain ⟨i, c⟩ := p
    unfold SparseStore.ForEach.loop1
    simp only [visitS]
    cases f st i c with
    | ok r =>
      obtain ⟨st', b⟩ := r
      cases b with
      | true => rfl
      | false => exact ih st'
    | panic => rfl
    | nofuel => rfl

/-- MAIN (sparse, every store, every oracle, any fuel): `ForEach` is the fold over the entries in the order the
    oracle enumerates the map -/
theorem sparse_forEach_eq_visitS {σ : Type} (fuel : Nat) (ord : MapOrder) (g : SparseStore) (st : σ)
    (f : σ → Int → Rat → Res (σ × Bool)) :
    SparseStore.ForEach fuel ord g st f = visitS f st (mrange ord g.counts) := by
  unfold SparseStore.ForEach
  exact sparse_loop1 f _ st

/-- against the model content `c`: for a lawful oracle the enumerated bins are a permutation of the model's bins -/
theorem sparse_forEach_model {σ : Type} {g : SparseStore} {c : Content} (h : RepS g c) (fuel : Nat)
    (ord : MapOrder) (hl : ord.Lawful) (st : σ) (f : σ → Int → Rat → Res (σ × Bool)) :
    SparseStore.ForEach fuel ord g st f = visitS f st (mrange ord c) ∧ (mrange ord c).Perm c := by
  refine ⟨?_, mrange_perm ord hl c h.2⟩
  rw [sparse_forEach_eq_visitS, h.1]

/-- with the ascending oracle the bins are the model's list itself -/
theorem sparse_forEach_ascending {σ : Type} {g : SparseStore} {c : Content} (h : RepS g c) (fuel : Nat)
    (st : σ) (f : σ → Int → Rat → Res (σ × Bool)) :
    SparseStore.ForEach fuel MapOrder.ascending g st f = visitS f st c := by
  rw [sparse_forEach_eq_visitS, h.1, mrange_ascending c h.2]

/-- (a) sparse: the collecting visitor ends with the entries in the oracle's order, a permutation of the content -/
theorem sparse_forEach_collect {g : SparseStore} {c : Content} (h : RepS g c) (fuel : Nat)
    (ord : MapOrder) (hl : ord.Lawful) (acc : List (Int × Rat)) :
    SparseStore.ForEach fuel ord g acc collect = .ok (acc ++ mrange ord c) ∧ (mrange ord c).Perm c := by
  refine ⟨?_, mrange_perm ord hl c h.2⟩
  rw [sparse_forEach_eq_visitS, h.1, visitS_collect]

/-- (b) sparse: a visitor that stops at the first entry satisfying `p` is called exactly on the entries up to and
    including that one (in the oracle's order) -/
theorem sparse_forEach_logStop (fuel : Nat) (ord : MapOrder) (g : SparseStore) (p : Int → Rat → Bool)
    (acc : List (Int × Rat)) :
    SparseStore.ForEach fuel ord g acc (logStop p) = .ok (acc ++ uptoFirst p (mrange ord g.counts)) := by
  rw [sparse_forEach_eq_visitS, visitS_logStop]

end Sparse

end DDS.GenForEach
