/-
  DDS.Proofs.GenDenseBase — shared base for the equivalence between the REGENERATED dense stores
  (`DDS/Generated/CodeDense.lean`, translated from `/repo/ddsketch/store/{dense_store,
  collapsing_lowest_dense_store,collapsing_highest_dense_store}.go` on every run) and the
  HAND-WRITTEN model `DDS.DStore` (`DDS/Model/Dense.lean`).

  * `toGen` embeds a model store into the generated `DenseStore` (`Array Rat ↦ List Rat`),
    `withGen` puts generated fields back into a model store (keeping `kind`/`isCollapsed`),
    `ofGen` is the inverse on plain stores; `toLow n`/`toHigh n` (and `withLow/withHigh`,
    `ofLow/ofHigh`) do the same for the two collapsing structures.
  * `toRes f : Option α → Res β` (`some a ↦ .ok (f a)`, `none ↦ .panic`) and the relation
    `RRel f m r :↔ r = toRes f m`: the model says `some t` ⇒ the generated code returns `.ok (f t)`,
    the model says `none` (Go would panic) ⇒ the generated code returns `.panic`.  In particular the
    generated code never returns `.nofuel` when the stated fuel bound holds.
  * bridging lemmas `List ↔ Array` for the Go-semantics primitives (`idx/set/copyWithin/mkSlice/…`).
  * the `DenseStore` functions shared by the three stores:
    `getNewLength_rel`, `resetBins_rel`, `shiftCounts_rel`, `centerCounts_rel`, `adjust_rel`
    (the plain `DenseStore.adjust` = `centerCounts`), `isEmpty_eq`, `totalCount_eq`, `minIndex_eq`,
    `maxIndex_eq`, `clear_rel`, `copy_eq`.

  FUEL.  `resetBins` is the only loop here.  `s.bins.size + 2 ≤ fuel` always suffices (also for the
  runs that end in a panic: the loop hits the out-of-range write before the fuel is gone), and so
  does `(toIndex - fromIndex + 1).toNat + 1 ≤ fuel`.  `extendFuel s a b` is the bound that the
  `extendRange` family needs (the array may grow to the new length first).

  No disagreement between generated code and model was found for the functions in this file: every
  statement is an equation that holds for all inputs (given the fuel bound).
-/
import DDS.Generated.CodeDense
import DDS.Proofs.Dense
import DDS.Proofs.Num

namespace DDS.GenDense

open DDS DDS.GoSem DDS.DStore

/-- the generated structures -/
abbrev GS := DDS.Gen.Dense.DenseStore
abbrev GLow := DDS.Gen.Dense.CollapsingLowestDenseStore
abbrev GHigh := DDS.Gen.Dense.CollapsingHighestDenseStore

/-! ### the embeddings -/

/-- model store ↦ generated `DenseStore` (the fields `kind`, `isCollapsed` are dropped) -/
def toGen (s : DStore) : GS :=
  { bins := s.bins.toList, count := s.count, offset := s.offset, minIndex := s.minIndex,
    maxIndex := s.maxIndex }

/-- put the generated fields back into a model store, keeping `kind` and `isCollapsed` -/
def withGen (s : DStore) (g : GS) : DStore :=
  { s with bins := g.bins.toArray, count := g.count, offset := g.offset, minIndex := g.minIndex,
           maxIndex := g.maxIndex }

/-- generated `DenseStore` ↦ plain model store -/
def ofGen (g : GS) : DStore :=
  { kind := .plain, bins := g.bins.toArray, count := g.count, offset := g.offset,
    minIndex := g.minIndex, maxIndex := g.maxIndex, isCollapsed := false }

@[simp] theorem toGen_bins (s : DStore) : (toGen s).bins = s.bins.toList := rfl
@[simp] theorem toGen_count (s : DStore) : (toGen s).count = s.count := rfl
@[simp] theorem toGen_offset (s : DStore) : (toGen s).offset = s.offset := rfl
@[simp] theorem toGen_minIndex (s : DStore) : (toGen s).minIndex = s.minIndex := rfl
@[simp] theorem toGen_maxIndex (s : DStore) : (toGen s).maxIndex = s.maxIndex := rfl

@[simp] theorem withGen_kind (s : DStore) (g : GS) : (withGen s g).kind = s.kind := rfl
@[simp] theorem withGen_isCollapsed (s : DStore) (g : GS) : (withGen s g).isCollapsed = s.isCollapsed := rfl
@[simp] theorem withGen_bins (s : DStore) (g : GS) : (withGen s g).bins = g.bins.toArray := rfl
@[simp] theorem withGen_count (s : DStore) (g : GS) : (withGen s g).count = g.count := rfl
@[simp] theorem withGen_offset (s : DStore) (g : GS) : (withGen s g).offset = g.offset := rfl
@[simp] theorem withGen_minIndex (s : DStore) (g : GS) : (withGen s g).minIndex = g.minIndex := rfl
@[simp] theorem withGen_maxIndex (s : DStore) (g : GS) : (withGen s g).maxIndex = g.maxIndex := rfl

@[simp] theorem toGen_withGen (s : DStore) (g : GS) : toGen (withGen s g) = g := by
  cases g; simp [toGen, withGen]

@[simp] theorem withGen_toGen (s : DStore) : withGen s (toGen s) = s := by
  cases s; simp [toGen, withGen]

@[simp] theorem toGen_ofGen (g : GS) : toGen (ofGen g) = g := by
  cases g; simp [toGen, ofGen]

@[simp] theorem ofGen_kind (g : GS) : (ofGen g).kind = .plain := rfl

theorem ofGen_toGen (s : DStore) (hk : s.kind = .plain) (hc : s.isCollapsed = false) :
    ofGen (toGen s) = s := by
  cases s; simp only at hk hc; simp [toGen, ofGen, hk, hc]

/-- updating a field of `toGen s` is `toGen` of the updated model store -/
theorem toGen_with_bins (s : DStore) (b : Array Rat) :
    ({ toGen s with bins := b.toList } : GS) = toGen { s with bins := b } := rfl

/-- the same after the fields of `toGen s` have been simplified (`simp only [toGen_count, …]`) -/
theorem toGen_mk_bins (s : DStore) (b : Array Rat) :
    ({ bins := b.toList, count := s.count, offset := s.offset, minIndex := s.minIndex,
       maxIndex := s.maxIndex } : GS) = toGen { s with bins := b } := rfl

/-- `toGen` only looks at the five generated fields -/
theorem toGen_congr {s t : DStore} (hb : s.bins = t.bins) (hc : s.count = t.count)
    (ho : s.offset = t.offset) (hm : s.minIndex = t.minIndex) (hM : s.maxIndex = t.maxIndex) :
    toGen s = toGen t := by
  simp only [toGen, hb, hc, ho, hm, hM]

/-- every generated `DenseStore` is the image of a plain model store: a statement about `toGen s`
    for all (plain) `s` is a statement about every generated store -/
theorem forall_gen {P : GS → Prop} (h : ∀ s : DStore, s.kind = .plain → P (toGen s)) (g : GS) : P g := by
  rw [← toGen_ofGen g]; exact h _ rfl

/-- `CollapsingLowestDenseStore` with `maxNumBins = n` -/
def toLow (n : Int) (s : DStore) : GLow :=
  { DenseStore := toGen s, maxNumBins := n, isCollapsed := s.isCollapsed }

/-- `CollapsingHighestDenseStore` with `maxNumBins = n` -/
def toHigh (n : Int) (s : DStore) : GHigh :=
  { DenseStore := toGen s, maxNumBins := n, isCollapsed := s.isCollapsed }

/-- put the fields of a generated collapsing store back, keeping `kind` -/
def withLow (s : DStore) (g : GLow) : DStore :=
  { withGen s g.DenseStore with isCollapsed := g.isCollapsed }

def withHigh (s : DStore) (g : GHigh) : DStore :=
  { withGen s g.DenseStore with isCollapsed := g.isCollapsed }

/-- generated collapsing store ↦ model store of kind `low maxNumBins` -/
def ofLow (g : GLow) : DStore :=
  { ofGen g.DenseStore with kind := .low g.maxNumBins.toNat, isCollapsed := g.isCollapsed }

def ofHigh (g : GHigh) : DStore :=
  { ofGen g.DenseStore with kind := .high g.maxNumBins.toNat, isCollapsed := g.isCollapsed }

@[simp] theorem toLow_DenseStore (n : Int) (s : DStore) : (toLow n s).DenseStore = toGen s := rfl
@[simp] theorem toLow_maxNumBins (n : Int) (s : DStore) : (toLow n s).maxNumBins = n := rfl
@[simp] theorem toLow_isCollapsed (n : Int) (s : DStore) : (toLow n s).isCollapsed = s.isCollapsed := rfl
@[simp] theorem toHigh_DenseStore (n : Int) (s : DStore) : (toHigh n s).DenseStore = toGen s := rfl
@[simp] theorem toHigh_maxNumBins (n : Int) (s : DStore) : (toHigh n s).maxNumBins = n := rfl
@[simp] theorem toHigh_isCollapsed (n : Int) (s : DStore) : (toHigh n s).isCollapsed = s.isCollapsed := rfl

@[simp] theorem withLow_kind (s : DStore) (g : GLow) : (withLow s g).kind = s.kind := rfl
@[simp] theorem withHigh_kind (s : DStore) (g : GHigh) : (withHigh s g).kind = s.kind := rfl
@[simp] theorem withLow_isCollapsed (s : DStore) (g : GLow) : (withLow s g).isCollapsed = g.isCollapsed := rfl
@[simp] theorem withHigh_isCollapsed (s : DStore) (g : GHigh) : (withHigh s g).isCollapsed = g.isCollapsed := rfl

@[simp] theorem toLow_withLow (s : DStore) (g : GLow) : toLow g.maxNumBins (withLow s g) = g := by
  cases g with | mk d n c => cases d; simp [toLow, withLow, withGen, toGen]

@[simp] theorem toHigh_withHigh (s : DStore) (g : GHigh) : toHigh g.maxNumBins (withHigh s g) = g := by
  cases g with | mk d n c => cases d; simp [toHigh, withHigh, withGen, toGen]

@[simp] theorem withLow_toLow (n : Int) (s : DStore) : withLow s (toLow n s) = s := by
  cases s; simp [toLow, withLow, withGen, toGen]

@[simp] theorem withHigh_toHigh (n : Int) (s : DStore) : withHigh s (toHigh n s) = s := by
  cases s; simp [toHigh, withHigh, withGen, toGen]

@[simp] theorem toLow_ofLow (g : GLow) : toLow g.maxNumBins (ofLow g) = g := by
  cases g with | mk d n c => cases d; simp [toLow, ofLow, ofGen, toGen]

@[simp] theorem toHigh_ofHigh (g : GHigh) : toHigh g.maxNumBins (ofHigh g) = g := by
  cases g with | mk d n c => cases d; simp [toHigh, ofHigh, ofGen, toGen]

theorem ofLow_kind (g : GLow) : (ofLow g).kind = .low g.maxNumBins.toNat := rfl
theorem ofHigh_kind (g : GHigh) : (ofHigh g).kind = .high g.maxNumBins.toNat := rfl

theorem ofLow_toLow (n : Nat) (s : DStore) (hk : s.kind = .low n) : ofLow (toLow (n : Int) s) = s := by
  cases s; simp only at hk; simp [toLow, ofLow, ofGen, toGen, hk]

theorem ofHigh_toHigh (n : Nat) (s : DStore) (hk : s.kind = .high n) : ofHigh (toHigh (n : Int) s) = s := by
  cases s; simp only at hk; simp [toHigh, ofHigh, ofGen, toGen, hk]

/-- every generated lowest-collapsing store with `0 ≤ maxNumBins` is the image of a model store of
    kind `low n` -/
theorem forall_low {P : GLow → Prop}
    (h : ∀ (n : Nat) (s : DStore), s.kind = .low n → P (toLow (n : Int) s)) (g : GLow)
    (hn : 0 ≤ g.maxNumBins) : P g := by
  have := h g.maxNumBins.toNat (ofLow g) rfl
  rwa [show ((g.maxNumBins.toNat : Nat) : Int) = g.maxNumBins by omega, toLow_ofLow] at this

theorem forall_high {P : GHigh → Prop}
    (h : ∀ (n : Nat) (s : DStore), s.kind = .high n → P (toHigh (n : Int) s)) (g : GHigh)
    (hn : 0 ≤ g.maxNumBins) : P g := by
  have := h g.maxNumBins.toNat (ofHigh g) rfl
  rwa [show ((g.maxNumBins.toNat : Nat) : Int) = g.maxNumBins by omega, toHigh_ofHigh] at this

/-- updating the embedded `DenseStore` / `isCollapsed` of `toLow n s` -/
theorem toLow_with (n : Int) (s t : DStore) (c : Bool) :
    ({ toLow n s with DenseStore := toGen t, isCollapsed := c } : GLow)
      = toLow n { withGen s (toGen t) with isCollapsed := c } := by
  simp [toLow, toGen, withGen]

theorem toHigh_with (n : Int) (s t : DStore) (c : Bool) :
    ({ toHigh n s with DenseStore := toGen t, isCollapsed := c } : GHigh)
      = toHigh n { withGen s (toGen t) with isCollapsed := c } := by
  simp [toHigh, toGen, withGen]

/-! ### the result relation -/

/-- model outcome ↦ generated outcome: `none` (Go would panic) is `.panic` -/
def toRes {α β : Type} (f : α → β) : Option α → Res β
  | some a => .ok (f a)
  | none => .panic

@[simp] theorem toRes_some {α β : Type} (f : α → β) (a : α) : toRes f (some a) = .ok (f a) := rfl
@[simp] theorem toRes_none {α β : Type} (f : α → β) : toRes f (none : Option α) = .panic := rfl

/-- the generated result `r` agrees with the model result `m` through `f` -/
def RRel {α β : Type} (f : α → β) (m : Option α) (r : Res β) : Prop := r = toRes f m

@[simp] theorem RRel_some {α β : Type} (f : α → β) (a : α) (r : Res β) :
    RRel f (some a) r ↔ r = .ok (f a) := Iff.rfl
@[simp] theorem RRel_none {α β : Type} (f : α → β) (r : Res β) :
    RRel f (none : Option α) r ↔ r = .panic := Iff.rfl
theorem RRel_iff {α β : Type} (f : α → β) (m : Option α) (r : Res β) : RRel f m r ↔ r = toRes f m := Iff.rfl

theorem toRes_ne_nofuel {α β : Type} (f : α → β) (m : Option α) : toRes f m ≠ .nofuel := by
  cases m <;> simp [toRes]

theorem toRes_eq_ok {α β : Type} (f : α → β) (m : Option α) (b : β) :
    toRes f m = .ok b ↔ ∃ a, m = some a ∧ f a = b := by
  cases m <;> simp [toRes]

theorem toRes_eq_panic {α β : Type} (f : α → β) (m : Option α) : toRes f m = .panic ↔ m = none := by
  cases m <;> simp [toRes]

/-- `toRes` commutes with bind -/
theorem toRes_bind {α β γ δ : Type} (f : α → β) (g : γ → δ) (m : Option α) (k : α → Option γ)
    (k' : β → Res δ) (h : ∀ a, k' (f a) = toRes g (k a)) :
    Res.bind (toRes f m) k' = toRes g (m.bind k) := by
  cases m with
  | none => rfl
  | some a => simp [h]

theorem toRes_map {α β γ δ : Type} (f : α → β) (g : γ → δ) (m : Option α) (k : α → γ)
    (k' : β → Res δ) (h : ∀ a, k' (f a) = .ok (g (k a))) :
    Res.bind (toRes f m) k' = toRes g (m.map k) := by
  cases m with
  | none => rfl
  | some a => simp [h]

theorem optR_eq_toRes {α β γ : Type} (f : α → β) (m : Option α) (k : α → Res γ) (k' : β → Res γ)
    (h : ∀ a, k' (f a) = k a) : optR (m.map f) k' = (match m with | some a => k a | none => .panic) := by
  cases m with
  | none => rfl
  | some a => simp [h]

/-! ### `goMin` / `goMax`, `IsEmpty` -/

@[simp] theorem goMin_eq (x y : Int) : Gen.Dense.goMin x y = min x y := by
  unfold Gen.Dense.goMin
  by_cases h : x < y
  · simp [h]; omega
  · simp [h]; omega

@[simp] theorem goMax_eq (x y : Int) : Gen.Dense.goMax x y = max x y := by
  unfold Gen.Dense.goMax
  by_cases h : y < x
  · simp [h]; omega
  · simp [h]; omega

/-! ### arrays: extensionality by `at0`, `tabulate` -/

theorem array_ext_at0 (a b : Array Rat) (hs : a.size = b.size) (h : ∀ j : Int, 0 ≤ j → j < a.size → at0 a j = at0 b j) :
    a = b := by
  apply Array.ext hs
  intro k hk1 hk2
  have := h (k : Int) (by omega) (by omega)
  rw [at0_nat, at0_nat] at this
  simpa [hk1, hk2] using this

theorem tabulate_congr (n : Nat) (f g : Int → Rat) (h : ∀ j : Int, 0 ≤ j → j < n → f j = g j) :
    tabulate n f = tabulate n g := by
  apply array_ext_at0 _ _ (by simp)
  intro j h0 h1
  rw [size_tabulate] at h1
  rw [at0_tabulate, at0_tabulate, if_pos ⟨h0, h1⟩, if_pos ⟨h0, h1⟩]
  exact h j h0 h1

theorem tabulate_at0 (a : Array Rat) : tabulate a.size (at0 a) = a := by
  apply array_ext_at0 _ _ (by simp)
  intro j h0 h1
  rw [size_tabulate] at h1
  rw [at0_tabulate, if_pos ⟨h0, h1⟩]

/-- a `tabulate` that changes nothing -/
theorem tabulate_eq_self (a : Array Rat) (f : Int → Rat) (h : ∀ j : Int, 0 ≤ j → j < a.size → f j = at0 a j) :
    tabulate a.size f = a := by
  rw [tabulate_congr a.size f (at0 a) h, tabulate_at0]

/-- `tabulate` as a list -/
theorem toList_tabulate (n : Nat) (f : Int → Rat) :
    (tabulate n f).toList = List.ofFn (n := n) (fun j => f (j.val : Int)) := by
  simp [tabulate]

theorem getElem?_toList_tabulate (n : Nat) (f : Int → Rat) (k : Nat) :
    (tabulate n f).toList[k]? = if k < n then some (f (k : Int)) else none := by
  rw [toList_tabulate, List.getElem?_ofFn]
  by_cases h : k < n <;> simp [h]

/-- list extensionality by length and `getElem?` below the length -/
theorem list_ext_getElem? {α : Type} (l₁ l₂ : List α) (hl : l₁.length = l₂.length)
    (h : ∀ k : Nat, k < l₁.length → l₁[k]? = l₂[k]?) : l₁ = l₂ := by
  apply List.ext_getElem?
  intro k
  by_cases hk : k < l₁.length
  · exact h k hk
  · rw [List.getElem?_eq_none (by omega), List.getElem?_eq_none (by omega)]

/-- a list is determined by its array's `at0` -/
theorem toList_eq_of_at0 (l : List Rat) (a : Array Rat) (hs : l.length = a.size)
    (h : ∀ j : Int, 0 ≤ j → j < a.size → at0 l.toArray j = at0 a j) : l = a.toList := by
  have : l.toArray = a := array_ext_at0 _ _ (by simpa using hs) (by
    intro j h0 h1; exact h j h0 (by simpa [hs] using h1))
  rw [← this]

theorem at0_toArray_nat (l : List Rat) (k : Nat) : at0 l.toArray (k : Int) = l[k]?.getD 0 := by
  rw [at0_nat]; simp

/-! ### bridging lemmas for the slice primitives -/

theorem len_toList (a : Array Rat) : GoSem.len a.toList = (a.size : Int) := by
  simp [GoSem.len]

@[simp] theorem len_toGen (s : DStore) : GoSem.len (toGen s).bins = s.len := by
  simp [GoSem.len, DStore.len]

/-- `x[i]` -/
theorem idx_toList (a : Array Rat) (i : Int) : GoSem.idx a.toList i = rd a i := by
  unfold GoSem.idx rd
  by_cases h : 0 ≤ i ∧ i < a.size
  · rw [if_neg (by omega), if_pos h]
    have : i.toNat < a.size := by omega
    simp [this]
  · rw [if_neg h]
    by_cases h0 : i < 0
    · rw [if_pos h0]
    · rw [if_neg h0]
      have : a.size ≤ i.toNat := by omega
      simp [this]

/-- `x[i] = v` -/
theorem set_toList (a : Array Rat) (i : Int) (v : Rat) :
    GoSem.set a.toList i v = (setAt a i v).map Array.toList := by
  unfold GoSem.set setAt
  by_cases h : 0 ≤ i ∧ i < a.size
  · rw [if_neg (by simp; omega), if_pos h]
    simp
  · rw [if_pos (by simp; omega), if_neg h]
    rfl

/-- `x[i] += v` (a read followed by a write) -/
theorem addAt_toList {γ : Type} (a : Array Rat) (i : Int) (v : Rat) (k : List Rat → Res γ) :
    optR (GoSem.idx a.toList i) (fun t => optR (GoSem.set a.toList i (t + v)) k)
      = optR ((addAt a i v).map Array.toList) k := by
  rw [idx_toList]
  unfold rd addAt
  by_cases h : 0 ≤ i ∧ i < a.size
  · rw [if_pos h, if_pos h]
    simp only [optR_some, set_toList, setAt, if_pos h, Option.map_some]
  · rw [if_neg h, if_neg h]; rfl

/-- the same inside a loop body -/
theorem addAt_toList_L {σ ρ : Type} (a : Array Rat) (i : Int) (v : Rat) (k : List Rat → Loop σ ρ) :
    optL (GoSem.idx a.toList i) (fun t => optL (GoSem.set a.toList i (t + v)) k)
      = optL ((addAt a i v).map Array.toList) k := by
  rw [idx_toList]
  unfold rd addAt
  by_cases h : 0 ≤ i ∧ i < a.size
  · rw [if_pos h, if_pos h]
    simp only [optL_some, set_toList, setAt, if_pos h, Option.map_some]
  · rw [if_neg h, if_neg h]; rfl

theorem addAt_size (a b : Array Rat) (i : Int) (v : Rat) (h : addAt a i v = some b) : b.size = a.size := by
  unfold addAt at h
  split at h
  · cases h; simp
  · cases h

theorem setAt_size (a b : Array Rat) (i : Int) (v : Rat) (h : setAt a i v = some b) : b.size = a.size := by
  unfold setAt at h
  split at h
  · cases h; simp
  · cases h

/-- `make([]float64, n)` -/
theorem mkSlice_eq (n : Int) :
    GoSem.mkSlice n (0 : Rat) = if n < 0 then none else some (Array.replicate n.toNat (0 : Rat)).toList := by
  unfold GoSem.mkSlice
  split <;> simp

/-- `append(s.bins, make([]float64, k)...)` -/
theorem grow_toGen (s : DStore) (k : Int) :
    optR (GoSem.mkSlice k (0 : Rat)) (fun t => Res.ok ({ toGen s with bins := (toGen s).bins ++ t } : GS))
      = toRes toGen (s.grow k) := by
  unfold DStore.grow
  rw [mkSlice_eq]
  by_cases h : k < 0
  · rw [if_pos h, if_pos h]; rfl
  · rw [if_neg h, if_neg h]
    simp [toGen]

/-- `copy(x[dlo:], x[slo:shi])` with `dlo = slo + shift` is the model's pointwise move -/
theorem copyWithin_toList (a : Array Rat) (slo shi shift : Int) :
    GoSem.copyWithin a.toList (slo + shift) slo shi =
      if ¬ (0 ≤ slo + shift ∧ slo + shift ≤ a.size ∧ 0 ≤ slo ∧ slo ≤ shi ∧ shi ≤ a.size) then none
      else some (tabulate a.size (fun j =>
        if slo + shift ≤ j ∧ j < slo + shift + min ((a.size : Int) - (slo + shift)) (shi - slo)
        then at0 a (j - shift) else at0 a j)).toList := by
  unfold GoSem.copyWithin
  by_cases hb : 0 ≤ slo + shift ∧ slo + shift ≤ a.size ∧ 0 ≤ slo ∧ slo ≤ shi ∧ shi ≤ a.size
  · rw [if_neg (by simp only [Array.length_toList]; omega), if_neg (by simpa using hb)]
    obtain ⟨d, hd⟩ : ∃ d : Nat, slo + shift = (d : Int) := ⟨(slo + shift).toNat, by omega⟩
    obtain ⟨p, hp⟩ : ∃ p : Nat, slo = (p : Int) := ⟨slo.toNat, by omega⟩
    obtain ⟨q, hq⟩ : ∃ q : Nat, shi = (q : Int) := ⟨shi.toNat, by omega⟩
    rw [hd, hp, hq]
    simp only [Int.toNat_natCast, Array.length_toList]
    have hd1 : d ≤ a.size := by omega
    have hpq : p ≤ q := by omega
    have hq1 : q ≤ a.size := by omega
    obtain ⟨n, hn⟩ : ∃ n : Nat, n = min (a.size - d) (q - p) := ⟨_, rfl⟩
    rw [← hn]
    have hnI : min ((a.size : Int) - (d : Int)) ((q : Int) - (p : Int)) = (n : Int) := by omega
    rw [hnI]
    refine congrArg some ?_
    apply list_ext_getElem?
    · simp only [List.length_append, List.length_take, List.length_drop, Array.length_toList,
        size_tabulate]
      omega
    · intro k _
      rw [getElem?_toList_tabulate]
      by_cases hk1 : k < d
      · rw [List.append_assoc, List.getElem?_append_left (by simp; omega), List.getElem?_take_of_lt hk1,
          if_pos (by omega), if_neg (by omega), at0_nat]
        have : k < a.size := by omega
        simp [this]
      · by_cases hk2 : k < d + n
        · rw [List.getElem?_append_left (by simp; omega), List.getElem?_append_right (by simp; omega)]
          simp only [List.length_take, Array.length_toList]
          rw [show min d a.size = d by omega, List.getElem?_take_of_lt (by omega), List.getElem?_drop,
            if_pos (by omega), if_pos (by omega)]
          have e : (k : Int) - shift = ((p + (k - d) : Nat) : Int) := by omega
          rw [e, at0_nat]
          have : p + (k - d) < a.size := by omega
          simp [this]
        · by_cases hk3 : k < a.size
          · rw [List.getElem?_append_right (by simp; omega)]
            simp only [List.length_append, List.length_take, List.length_drop, Array.length_toList]
            rw [List.getElem?_drop, if_pos hk3, if_neg (by omega), at0_nat]
            have e : d + n + (k - (min d a.size + min n (a.size - p))) = k := by omega
            rw [e]
            simp [hk3]
          · rw [if_neg hk3]
            apply List.getElem?_eq_none
            simp only [List.length_append, List.length_take, List.length_drop, Array.length_toList]
            omega
  · rw [if_pos (by simp only [Array.length_toList]; omega), if_pos (by simpa using hb)]

/-! ### the simple observers -/

theorem isEmpty_eq (s : DStore) : Gen.Dense.DenseStore.IsEmpty (toGen s) = s.isEmpty := rfl

theorem totalCount_eq (s : DStore) : Gen.Dense.DenseStore.TotalCount (toGen s) = s.totalCount := rfl

/-- `MinIndex()`: `(minIndex, nil)` on a non-empty store, `(0, errUndefinedMinIndex)` on an empty one -/
theorem minIndex_eq (s : DStore) :
    Gen.Dense.DenseStore.MinIndex (toGen s) =
      match s.minIndex? with
      | some i => (i, GoErr.nil)
      | none => (0, Gen.Dense.errUndefinedMinIndex) := by
  unfold Gen.Dense.DenseStore.MinIndex DStore.minIndex?
  rw [isEmpty_eq]
  cases s.isEmpty <;> rfl

theorem maxIndex_eq (s : DStore) :
    Gen.Dense.DenseStore.MaxIndex (toGen s) =
      match s.maxIndex? with
      | some i => (i, GoErr.nil)
      | none => (0, Gen.Dense.errUndefinedMaxIndex) := by
  unfold Gen.Dense.DenseStore.MaxIndex DStore.maxIndex?
  rw [isEmpty_eq]
  cases s.isEmpty <;> rfl

theorem newDenseStore_eq : Gen.Dense.NewDenseStore = toGen (DStore.new .plain) := rfl

/-- `Clear` never panics and needs no fuel -/
theorem clear_rel (fuel : Nat) (s : DStore) :
    Gen.Dense.DenseStore.Clear fuel (toGen s) = .ok (toGen s.clear) := by
  have h : ¬ ((s.bins.size : Int) < 0) := by omega
  simp [Gen.Dense.DenseStore.Clear, GoSem.sliceTo, DStore.clear, toGen, maxInt32, minInt32, h]

/-- `Copy` is the identity on the value (a fresh slice with the same content) -/
theorem copy_eq (s : DStore) : Gen.Dense.DenseStore.Copy (toGen s) = toGen s := by
  simp [Gen.Dense.DenseStore.Copy, GoSem.copySlice, GoSem.len, toGen]

/-! ### `getNewLength` -/

/-- the generated growth function is the model's `denseNewLength` (same `F64` expression; the
    constants `arrayLengthOverhead = 64`, `arrayLengthGrowthIncrement = 0.1` are re-read from the
    source by `hx consts`) -/
theorem getNewLength_rel (fuel : Nat) (g : GS) (a b : Int) :
    Gen.Dense.DenseStore.getNewLength fuel g a b = toRes id (DStore.denseNewLength a b) := by
  unfold Gen.Dense.DenseStore.getNewLength DStore.denseNewLength
  simp only [growthIncrement_eq, Consts.arrayLengthOverhead, F64.one]
  have e : (((64 : Nat) : Int)) = (64 : Int) := rfl
  rw [e]
  cases F64.truncToInt _ <;> rfl

/-- fuel that suffices for the `extendRange` family called with `(a, b)`: the array may first grow
    to the new length `L`, and `resetBins` then walks over (part of) it -/
def extendFuel (s : DStore) (a b : Int) : Nat :=
  s.bins.size + ((DStore.denseNewLength (min a s.minIndex) (max b s.maxIndex)).getD 0).toNat + 2

/-! ### `resetBins` -/

/-- the loop of `resetBins`, successful run: `n` positions `i … toIndex - offset` inside the array -/
theorem resetBins_loop_ok (toIndex : Int) (n : Nat) :
    ∀ (fuel : Nat) (s : DStore) (i : Int), 0 ≤ i → i + n = toIndex - s.offset + 1 →
      toIndex - s.offset < s.bins.size → n + 1 ≤ fuel →
      Gen.Dense.DenseStore.resetBins.loop1 toIndex fuel (toGen s) i =
        .done (toGen { s with bins := tabulate s.bins.size (fun j => if i ≤ j ∧ j ≤ toIndex - s.offset then 0 else at0 s.bins j) },
               toIndex - s.offset + 1) := by
  induction n with
  | zero =>
    intro fuel s i h0 hn hhi hf
    obtain ⟨f, rfl⟩ : ∃ f, fuel = f + 1 := ⟨fuel - 1, by omega⟩
    unfold Gen.Dense.DenseStore.resetBins.loop1
    have hc : ¬ (i ≤ toIndex - s.offset) := by omega
    simp only [toGen_offset, hc, decide_false, Bool.false_eq_true, if_false]
    congr 2
    · apply toGen_congr <;> try rfl
      show s.bins = tabulate s.bins.size (fun j => if i ≤ j ∧ j ≤ toIndex - s.offset then 0 else at0 s.bins j)
      symm
      apply tabulate_eq_self
      intro j _ _
      rw [if_neg (by omega)]
    · omega
  | succ n ih =>
    intro fuel s i h0 hn hhi hf
    obtain ⟨f, rfl⟩ : ∃ f, fuel = f + 1 := ⟨fuel - 1, by omega⟩
    unfold Gen.Dense.DenseStore.resetBins.loop1
    have hc : i ≤ toIndex - s.offset := by omega
    have hin : 0 ≤ i ∧ i < s.bins.size := by omega
    simp only [toGen_offset, toGen_count, toGen_minIndex, toGen_maxIndex, hc, decide_true, if_true,
      toGen_bins, set_toList, setAt, if_pos hin, Option.map_some, optL_some]
    rw [toGen_mk_bins]
    rw [ih f { s with bins := s.bins.setIfInBounds i.toNat 0 } (i + 1) (by omega) (by simp only; omega)
      (by simp only [Array.size_setIfInBounds]; omega) (by omega)]
    congr 2
    apply toGen_congr <;> try rfl
    simp only [Array.size_setIfInBounds]
    apply tabulate_congr
    intro j hj0 hj1
    rw [at0_setIfInBounds]
    split_ifs <;> first | rfl | omega

/-- the loop of `resetBins`, run that leaves the array at the top: panics after
    `size - i` writes -/
theorem resetBins_loop_panic (toIndex : Int) (n : Nat) :
    ∀ (fuel : Nat) (s : DStore) (i : Int), 0 ≤ i → ((s.bins.size : Int) - i).toNat = n →
      (s.bins.size : Int) ≤ toIndex - s.offset → i ≤ toIndex - s.offset → n + 1 ≤ fuel →
      Gen.Dense.DenseStore.resetBins.loop1 toIndex fuel (toGen s) i = .panic := by
  induction n with
  | zero =>
    intro fuel s i h0 hn hhi hi hf
    obtain ⟨f, rfl⟩ : ∃ f, fuel = f + 1 := ⟨fuel - 1, by omega⟩
    unfold Gen.Dense.DenseStore.resetBins.loop1
    have hc : i ≤ toIndex - s.offset := by omega
    have hin : ¬ (0 ≤ i ∧ i < s.bins.size) := by omega
    simp only [toGen_offset, hc, decide_true, if_true, toGen_bins, set_toList, setAt, if_neg hin,
      Option.map_none, optL_none]
  | succ n ih =>
    intro fuel s i h0 hn hhi hi hf
    obtain ⟨f, rfl⟩ : ∃ f, fuel = f + 1 := ⟨fuel - 1, by omega⟩
    unfold Gen.Dense.DenseStore.resetBins.loop1
    have hc : i ≤ toIndex - s.offset := by omega
    have hin : 0 ≤ i ∧ i < s.bins.size := by omega
    simp only [toGen_offset, toGen_count, toGen_minIndex, toGen_maxIndex, hc, decide_true, if_true,
      toGen_bins, set_toList, setAt, if_pos hin, Option.map_some, optL_some]
    rw [toGen_mk_bins]
    exact ih f { s with bins := s.bins.setIfInBounds i.toNat 0 } (i + 1) (by omega)
      (by simp only [Array.size_setIfInBounds]; omega)
      (by simp only [Array.size_setIfInBounds]; omega) (by simp only; omega) (by omega)

/-- `resetBins`: equal to the model for all arguments.  Fuel: `bins.size + 2`, or the width of
    the range plus one. -/
theorem resetBins_rel (fuel : Nat) (s : DStore) (fromIndex toIndex : Int)
    (hf : s.bins.size + 2 ≤ fuel ∨ (toIndex - fromIndex + 1).toNat + 1 ≤ fuel) :
    Gen.Dense.DenseStore.resetBins fuel (toGen s) fromIndex toIndex
      = toRes toGen (s.resetBins fromIndex toIndex) := by
  unfold Gen.Dense.DenseStore.resetBins DStore.resetBins
  simp only [toGen_offset]
  by_cases h1 : toIndex - s.offset < fromIndex - s.offset
  · -- empty range: the loop exits at once
    rw [if_pos h1]
    obtain ⟨f, rfl⟩ : ∃ f, fuel = f + 1 := ⟨fuel - 1, by omega⟩
    unfold Gen.Dense.DenseStore.resetBins.loop1
    have hc : ¬ (fromIndex - s.offset ≤ toIndex - s.offset) := by omega
    simp only [toGen_offset, hc, decide_false, Bool.false_eq_true, if_false, Loop.elim_done, toRes_some]
  · rw [if_neg h1]
    by_cases h2 : 0 ≤ fromIndex - s.offset ∧ toIndex - s.offset < s.len
    · rw [if_pos h2]
      unfold DStore.len at h2
      rw [resetBins_loop_ok toIndex (toIndex - fromIndex + 1).toNat fuel s (fromIndex - s.offset)
        h2.1 (by omega) h2.2 (by omega)]
      simp only [Loop.elim_done, toRes_some]
    · rw [if_neg h2]
      unfold DStore.len at h2
      by_cases h3 : 0 ≤ fromIndex - s.offset
      · rw [resetBins_loop_panic toIndex _ fuel s (fromIndex - s.offset) h3 rfl (by omega) (by omega)
          (by omega)]
        rfl
      · obtain ⟨f, rfl⟩ : ∃ f, fuel = f + 1 := ⟨fuel - 1, by omega⟩
        unfold Gen.Dense.DenseStore.resetBins.loop1
        have hc : fromIndex - s.offset ≤ toIndex - s.offset := by omega
        have hin : ¬ (0 ≤ fromIndex - s.offset ∧ fromIndex - s.offset < s.bins.size) := by omega
        simp only [toGen_offset, hc, decide_true, if_true, toGen_bins, set_toList, setAt, if_neg hin,
          Option.map_none, optL_none, Loop.elim_panic, toRes_none]

theorem resetBins_rel' (fuel : Nat) (s : DStore) (a b : Int) (hf : s.bins.size + 2 ≤ fuel) :
    RRel toGen (s.resetBins a b) (Gen.Dense.DenseStore.resetBins fuel (toGen s) a b) :=
  resetBins_rel fuel s a b (Or.inl hf)

/-- the model's `resetBins` keeps the array size -/
theorem resetBins_size (s t : DStore) (a b : Int) (h : s.resetBins a b = some t) :
    t.bins.size = s.bins.size := by
  unfold DStore.resetBins at h
  simp only at h
  split at h
  · cases h; rfl
  · split at h
    · cases h; simp
    · cases h

/-! ### `shiftCounts`, `centerCounts`, `adjust` -/

/-- `shiftCounts`: equal to the model for all arguments; fuel `bins.size + 2` -/
theorem shiftCounts_rel (fuel : Nat) (s : DStore) (shift : Int) (hf : s.bins.size + 2 ≤ fuel) :
    Gen.Dense.DenseStore.shiftCounts fuel (toGen s) shift = toRes toGen (s.shiftCounts shift) := by
  unfold Gen.Dense.DenseStore.shiftCounts DStore.shiftCounts
  simp only [toGen_offset, toGen_minIndex, toGen_maxIndex, toGen_count, toGen_bins, copyWithin_toList]
  rw [show s.len = (s.bins.size : Int) from rfl]
  by_cases hb : 0 ≤ s.minIndex - s.offset + shift ∧ s.minIndex - s.offset + shift ≤ s.bins.size ∧
      0 ≤ s.minIndex - s.offset ∧ s.minIndex - s.offset ≤ s.maxIndex - s.offset + 1 ∧
      s.maxIndex - s.offset + 1 ≤ s.bins.size
  · rw [if_neg (not_not_intro hb), if_neg (not_not_intro hb)]
    simp only [optR_some]
    rw [toGen_mk_bins]
    generalize hmv : ({ s with bins := tabulate s.bins.size (fun j =>
      if s.minIndex - s.offset + shift ≤ j ∧ j < s.minIndex - s.offset + shift +
          min ((s.bins.size : Int) - (s.minIndex - s.offset + shift)) (s.maxIndex - s.offset + 1 - (s.minIndex - s.offset))
      then at0 s.bins (j - shift) else at0 s.bins j) } : DStore) = moved
    have hsz : moved.bins.size = s.bins.size := by rw [← hmv]; simp
    have hmin : moved.minIndex = s.minIndex := by rw [← hmv]
    have hmax : moved.maxIndex = s.maxIndex := by rw [← hmv]
    by_cases hs : 0 < shift
    · rw [if_pos (by simpa using hs), if_pos (by omega), resetBins_rel fuel moved _ _ (Or.inl (by omega))]
      exact toRes_map _ _ _ _ _ (fun a => rfl)
    · rw [if_neg (by simpa using hs), if_neg (by omega), resetBins_rel fuel moved _ _ (Or.inl (by omega))]
      exact toRes_map _ _ _ _ _ (fun a => rfl)
  · rw [if_pos hb, if_pos hb]
    rfl

theorem shiftCounts_size (s t : DStore) (shift : Int) (h : s.shiftCounts shift = some t) :
    t.bins.size = s.bins.size := by
  unfold DStore.shiftCounts at h
  simp only at h
  split at h
  · cases h
  · simp only [Option.map_eq_some_iff] at h
    obtain ⟨u, hu, rfl⟩ := h
    split at hu
    · rw [resetBins_size _ _ _ _ hu]; simp
    · rw [resetBins_size _ _ _ _ hu]; simp

/-- `centerCounts`: equal to the model for all arguments; fuel `bins.size + 2` -/
theorem centerCounts_rel (fuel : Nat) (s : DStore) (a b : Int) (hf : s.bins.size + 2 ≤ fuel) :
    Gen.Dense.DenseStore.centerCounts fuel (toGen s) a b = toRes toGen (s.centerCounts a b) := by
  unfold Gen.Dense.DenseStore.centerCounts DStore.centerCounts
  simp only [toGen_offset, len_toGen]
  rw [shiftCounts_rel fuel s _ hf]
  exact toRes_bind _ _ _ _ _ (fun t => rfl)

theorem centerCounts_size (s t : DStore) (a b : Int) (h : s.centerCounts a b = some t) :
    t.bins.size = s.bins.size := by
  unfold DStore.centerCounts at h
  simp only [Option.bind_eq_bind, Option.bind_eq_some_iff] at h
  obtain ⟨u, hu, h2⟩ := h
  cases h2
  exact shiftCounts_size s u _ hu

/-- the plain `DenseStore.adjust` is `centerCounts` -/
theorem denseAdjust_eq_centerCounts (fuel : Nat) (g : GS) (a b : Int) :
    Gen.Dense.DenseStore.adjust fuel g a b = Gen.Dense.DenseStore.centerCounts fuel g a b := by
  unfold Gen.Dense.DenseStore.adjust
  cases Gen.Dense.DenseStore.centerCounts fuel g a b <;> rfl

end DDS.GenDense
