/-
  DDS.Proofs.Collapsing — refinement proofs for the collapsing dense stores
  (`kind = .low N` : `CollapsingLowestDenseStore`, `kind = .high N` : `CollapsingHighestDenseStore`).

  `hG : GrowthOK` (the float computation of `getNewLength` covers spans below `2^33`) is proved
  in `DDS.Proofs.Growth`; since it only covers bounded spans, every theorem about an operation
  that may grow the array carries a span hypothesis `SpanOK` or the int32 hypotheses
  (`Tight32` + int32 index) from which it follows (`InvLow.spanOK`, `InvHigh.spanOK`).
-/
import DDS.Proofs.Dense
import DDS.Proofs.Bins

namespace DDS
namespace DStore

/-! ## generic facts (independent of the kind) -/

theorem getNewLength_low (hG : GrowthOK) (s : DStore) (N : Nat) (hk : s.kind = .low N)
    (a b : Int) (hab : a ≤ b) (hsp : b - a < 2^33) :
    ∃ L, s.getNewLength a b = some L ∧ L ≤ N ∧ (b - a + 1 ≤ L ∨ L = N) := by
  obtain ⟨d, hd, hge⟩ := hG a b hab hsp
  refine ⟨min d N, ?_, by omega, by omega⟩
  unfold getNewLength
  rw [hd, hk]; rfl

theorem cum_step (s : DStore) (e : Int) (he : s.offset ≤ e) : cum s e = cum s (e - 1) + wt s e := by
  unfold cum
  rw [show (e - s.offset + 1).toNat = (e - 1 - s.offset + 1).toNat + 1 by omega]
  simp only [rsum]
  congr 2
  omega

theorem cum_nonneg (s : DStore) (hnn : ∀ j, 0 ≤ wt s j) (e : Int) : 0 ≤ cum s e :=
  rsum_nonneg _ _ hnn

theorem cum_ge_wt (s : DStore) (hnn : ∀ j, 0 ≤ wt s j) (e : Int) : wt s e ≤ cum s e := by
  by_cases he : s.offset ≤ e
  · rw [cum_step s e he]
    have := cum_nonneg s hnn (e - 1)
    grind
  · rw [cum_of_lt s e (by omega)]
    unfold wt
    rw [at0_neg _ _ (by omega)]
    exact Rat.le_refl

/-- nothing below `m`: the cumulative weight up to `e < m` is zero -/
theorem cum_zero_of_lt (s : DStore) (m : Int) (hz : ∀ j, j < m → wt s j = 0) (e : Int) (he : e < m) :
    cum s e = 0 :=
  rsum_zero _ _ (fun j _ h2 => hz j (by omega))

/-- nothing below `m`: the cumulative weight up to `e ≤ m` is the weight at `e` -/
theorem cum_eq_wt_of_le (s : DStore) (m : Int) (hz : ∀ j, j < m → wt s j = 0) (e : Int) (he : e ≤ m) :
    cum s e = wt s e := by
  by_cases ho : s.offset ≤ e
  · rw [cum_step s e ho, cum_zero_of_lt s m hz (e - 1) (by omega)]; grind
  · rw [cum_of_lt s e (by omega)]
    unfold wt
    rw [at0_neg _ _ (by omega)]

theorem cum_congr (s t : DStore) (h : ∀ j, wt t j = wt s j) (e : Int) : cum t e = cum s e := by
  rw [cum_eq s e (min s.offset t.offset) (by omega), cum_eq t e (min s.offset t.offset) (by omega)]
  exact rsum_congr _ _ (fun j _ _ => h j)

/-- everything is `≤ M`: the cumulative weight up to `e ≥ M` is the whole array -/
theorem cum_eq_total (s : DStore) (M : Int) (hz : ∀ j, M < j → wt s j = 0) (e : Int) (he : M ≤ e) :
    cum s e = s.bins.toList.sum := by
  rw [sum_eq_window s.bins s.offset (min s.offset e) (e - (min s.offset e) + 1).toNat
    (fun j hj => by
      rcases hj with hj | hj
      · exact at0_neg _ _ (by omega)
      · exact hz j (by omega))]
  exact cum_eq s e _ (by omega)

/-- `cum` as a sum over a window starting at any index below which there is no weight -/
theorem cum_eq_from (s : DStore) (m : Int) (hz : ∀ j, j < m → wt s j = 0) (e : Int) (he : m ≤ e) :
    cum s e = rsum (wt s) m (e - m + 1).toNat := by
  rw [cum_eq s e (min s.offset m) (by omega)]
  obtain ⟨a, ha⟩ : ∃ a : Nat, m = min s.offset m + a := ⟨(m - min s.offset m).toNat, by omega⟩
  rw [show (e - min s.offset m + 1).toNat = a + (e - m + 1).toNat by omega, rsum_append,
    rsum_zero _ a (fun j _ h2 => hz j (by omega)), ← ha]
  grind

/-! ## `sumRange` -/

theorem sumRange_loop (a : Array Rat) (off : Int) (n : Nat) (lo : Int)
    (hin : ∀ idx, lo ≤ idx → idx < lo + n → 0 ≤ idx - off ∧ idx - off < a.size) :
    (irange lo n).foldlM (fun acc idx => (rd a (idx - off)).map (acc + ·)) 0
      = some (rsum (fun j => at0 a (j - off)) lo n) := by
  induction n with
  | zero => rfl
  | succ n ih =>
    rw [irange_succ_right, List.foldlM_append, ih (fun idx h1 h2 => hin idx h1 (by omega))]
    simp only [Option.bind_eq_bind, Option.bind_some, List.foldlM_cons, List.foldlM_nil,
      rd_eq a _ (hin (lo + n) (by omega) (by omega)), Option.map_some, Option.pure_def, rsum]

theorem sumRange_spec (s : DStore) (a b : Int)
    (h : b < a ∨ (s.offset ≤ a ∧ b < s.offset + s.len)) :
    s.sumRange a b = some (rsum (wt s) a (b - a + 1).toNat) := by
  unfold sumRange
  rw [idxRange_eq]
  exact sumRange_loop s.bins s.offset _ a (fun idx h1 h2 => by unfold len at h; omega)

/-! ## `collapseLow` -/

/-- the weight function after folding everything below `e` into `e`; `c` is the folded mass
    `Σ_{k ≤ e} f k` -/
def foldW (f : Int → Rat) (c : Rat) (e : Int) (j : Int) : Rat :=
  if j < e then 0 else if j = e then c else f j

theorem at0_replicate_zero (n : Nat) (j : Int) : at0 (Array.replicate n (0 : Rat)) j = 0 := by
  have := at0_append_replicate #[] n j
  simp only [Array.empty_append] at this
  rw [this, at0_empty]

theorem collapseLow_spec (t : DStore) (nm : Int) (hz : ZeroOut t)
    (hmm : t.minIndex ≤ t.maxIndex) (hlo : t.offset ≤ t.minIndex)
    (hhi : t.maxIndex < t.offset + t.len) (hcnt : t.count = t.bins.toList.sum)
    (hfit : t.maxIndex - t.len + 1 ≤ nm) :
    ∃ nb, t.collapseLow nm = some { t with bins := nb, offset := nm, minIndex := nm } ∧
      nb.size = t.bins.size ∧ ∀ j, at0 nb (j - nm) = foldW (wt t) (cum t nm) nm j := by
  have hlen : t.len = (t.bins.size : Int) := rfl
  have hzlo : ∀ j, j < t.minIndex → wt t j = 0 := fun j hj => hz j (Or.inl hj)
  have hzhi : ∀ j, t.maxIndex < j → wt t j = 0 := fun j hj => hz j (Or.inr hj)
  unfold collapseLow
  by_cases h1 : nm ≥ t.maxIndex
  · -- everything in one bucket
    rw [if_pos h1]
    obtain ⟨b, hb, hsz, hat⟩ := setAt_eq (Array.replicate t.bins.size 0) 0 t.count
      (by simp only [Array.size_replicate]; omega)
    refine ⟨b, ?_, by rw [hsz]; simp, ?_⟩
    · simp only [Option.bind_eq_bind, hb, Option.bind_some, Option.pure_def]
    · intro j
      rw [hat, at0_replicate_zero]
      unfold foldW
      by_cases hj1 : j < nm
      · rw [if_pos hj1, if_neg (by omega)]
      · rw [if_neg hj1]
        by_cases hj2 : j = nm
        · rw [if_pos (by omega), if_pos hj2, hcnt, cum_eq_total t t.maxIndex hzhi nm h1]
        · rw [if_neg (by omega), if_neg hj2, hzhi j (by omega)]
  · rw [if_neg h1]
    by_cases h2 : t.offset - nm < 0
    · rw [if_pos h2]
      rw [sumRange_spec t t.minIndex (nm - 1) (Or.inr ⟨hlo, by omega⟩)]
      obtain ⟨nb1, hr, hsz1, hw1⟩ := resetBins_spec t t.minIndex (nm - 1) (Or.inr ⟨hlo, by omega⟩)
      rw [hr]
      simp only [Option.bind_eq_bind, Option.bind_some]
      obtain ⟨b, hb, hszb, hatb⟩ := addAt_eq nb1 (nm - t.offset)
        (rsum (wt t) t.minIndex (nm - 1 - t.minIndex + 1).toNat) (by rw [hsz1]; omega)
      rw [hb]
      simp only [Option.bind_some]
      -- the state handed to `shiftCounts`
      have hwt2 : ∀ j, wt ({ t with bins := b, minIndex := nm } : DStore) j =
          (if t.minIndex ≤ j ∧ j ≤ nm - 1 then 0 else wt t j) +
            (if j = nm then rsum (wt t) t.minIndex (nm - 1 - t.minIndex + 1).toNat else 0) := by
        intro j
        show at0 b (j - t.offset) = _
        rw [hatb, hw1]
        congr 1
        by_cases hj : j = nm
        · rw [if_pos (by omega), if_pos hj]
        · rw [if_neg (by omega), if_neg hj]
      have hz2 : ZeroOut ({ t with bins := b, minIndex := nm } : DStore) := by
        intro j hj
        rw [hwt2]
        have hj' : j < nm ∨ t.maxIndex < j := hj
        rw [if_neg (show ¬ j = nm by omega)]
        by_cases hj2 : t.minIndex ≤ j ∧ j ≤ nm - 1
        · rw [if_pos hj2]; grind
        · rw [if_neg hj2, hz j (by omega)]; grind
      obtain ⟨nb, hsc, hsznb, hwnb⟩ := shiftCounts_spec
        ({ t with bins := b, minIndex := nm } : DStore) (t.offset - nm) hz2
        (by show nm ≤ t.maxIndex; omega) (by show t.offset ≤ nm; omega)
        (by show t.maxIndex < t.offset + (b.size : Int); rw [hszb, hsz1]; omega)
        (by show 0 ≤ nm - t.offset + (t.offset - nm); omega)
        (by show t.maxIndex - t.offset + (t.offset - nm) < (b.size : Int); rw [hszb, hsz1]; omega)
      have hoff : t.offset - (t.offset - nm) = nm := by omega
      refine ⟨nb, ?_, by rw [hsznb]; show b.size = _; rw [hszb, hsz1], ?_⟩
      · rw [hsc]
        simp only [hoff]
      · intro j
        have := hwnb j
        simp only [hoff] at this
        rw [this, hwt2]
        unfold foldW
        by_cases hj1 : j < nm
        · rw [if_pos hj1, if_neg (show ¬ j = nm by omega)]
          by_cases hj2 : t.minIndex ≤ j ∧ j ≤ nm - 1
          · rw [if_pos hj2]; grind
          · rw [if_neg hj2, hzlo j (by omega)]; grind
        · rw [if_neg hj1, if_neg (by omega)]
          by_cases hj2 : j = nm
          · rw [if_pos hj2, if_pos hj2, hj2]
            by_cases hmn : t.minIndex ≤ nm
            · rw [cum_eq_from t t.minIndex hzlo nm hmn,
                show (nm - t.minIndex + 1).toNat = (nm - 1 - t.minIndex + 1).toNat + 1 by omega]
              simp only [rsum]
              rw [show t.minIndex + ((nm - 1 - t.minIndex + 1).toNat : Int) = nm by omega]
              grind
            · rw [cum_eq_wt_of_le t t.minIndex hzlo nm (by omega),
                show (nm - 1 - t.minIndex + 1).toNat = 0 by omega]
              simp only [rsum]; grind
          · rw [if_neg hj2, if_neg hj2]; grind
    · rw [if_neg h2]
      obtain ⟨nb, hsc, hsznb, hwnb⟩ := shiftCounts_spec t (t.offset - nm) hz hmm hlo hhi
        (by omega) (by omega)
      have hoff : t.offset - (t.offset - nm) = nm := by omega
      refine ⟨nb, ?_, hsznb, ?_⟩
      · rw [hsc]
        simp only [Option.bind_eq_bind, Option.bind_some, Option.pure_def, hoff]
      · intro j
        have := hwnb j
        simp only [hoff] at this
        rw [this]
        unfold foldW
        by_cases hj1 : j < nm
        · rw [if_pos hj1, hzlo j (by omega)]
        · rw [if_neg hj1]
          by_cases hj2 : j = nm
          · rw [if_pos hj2, hj2, cum_eq_wt_of_le t t.minIndex hzlo nm (by omega)]
          · rw [if_neg hj2]

/-! ## the invariant of the lowest-collapsing store -/

/-- Invariant of `CollapsingLowestDenseStore` with limit `N`.  No assumption on the range of
    the indexes (tightness of `minIndex`/`maxIndex` is kept separately, see `TightLow`). -/
structure InvLow (N : Nat) (s : DStore) : Prop where
  kind    : s.kind = .low N
  hN      : 1 ≤ N
  nonneg  : ∀ j, 0 ≤ at0 s.bins j
  countEq : s.count = s.bins.toList.sum
  empty   : s.count = 0 → s.bins.size = 0 ∧ s.minIndex = maxInt32 ∧ s.maxIndex = minInt32 ∧
              s.isCollapsed = false
  window  : s.count ≠ 0 → s.offset ≤ s.minIndex ∧ s.minIndex ≤ s.maxIndex ∧
              s.maxIndex < s.offset + s.len
  outside : ∀ i, (i < s.minIndex ∨ s.maxIndex < i) → wt s i = 0
  lenLe   : s.bins.size ≤ N
  collapsed : s.isCollapsed = true →
              s.offset = s.minIndex ∧ s.bins.size = N ∧ s.maxIndex - s.minIndex + 1 = N

theorem invLow_new (N : Nat) (hN : 1 ≤ N) : InvLow N (DStore.new (.low N)) where
  kind := rfl
  hN := hN
  nonneg := by intro j; simp [DStore.new, at0_empty]
  countEq := by simp [DStore.new]
  empty := by intro _; simp [DStore.new]
  window := by intro h; exact absurd rfl h
  outside := by intro i _; simp [wt, DStore.new, at0_empty]
  lenLe := by simp [DStore.new]
  collapsed := by intro h; simp [DStore.new] at h

theorem InvLow.count_nonneg {N : Nat} {s : DStore} (h : InvLow N s) : 0 ≤ s.count := by
  rw [h.countEq]; exact sum_nonneg_of _ h.nonneg

theorem InvLow.wt_nonneg {N : Nat} {s : DStore} (h : InvLow N s) (j : Int) : 0 ≤ wt s j := h.nonneg _

theorem InvLow.wt_zero_of_empty {N : Nat} {s : DStore} (h : InvLow N s) (h0 : s.count = 0) (j : Int) :
    wt s j = 0 := by
  have := (h.empty h0).1
  exact at0_out _ _ (by omega)

theorem InvLow.cum_zero_of_empty {N : Nat} {s : DStore} (h : InvLow N s) (h0 : s.count = 0) (e : Int) :
    cum s e = 0 :=
  rsum_zero _ _ (fun j _ _ => h.wt_zero_of_empty h0 j)

theorem InvLow.nonempty_of_le {N : Nat} {s : DStore} (h : InvLow N s) (hle : s.minIndex ≤ s.maxIndex) :
    s.count ≠ 0 := by
  intro h0
  obtain ⟨_, e1, e2, _⟩ := h.empty h0
  simp only [maxInt32, minInt32] at e1 e2
  omega

/-- the span of the window never exceeds `N` -/
theorem InvLow.span_le {N : Nat} {s : DStore} (h : InvLow N s) (h0 : s.count ≠ 0) :
    s.maxIndex - s.minIndex + 1 ≤ N := by
  obtain ⟨w1, w2, w3⟩ := h.window h0
  have := h.lenLe
  unfold len at w3
  omega

/-- a store satisfying the invariant is "already folded" at its own edge -/
theorem InvLow.self_fold {N : Nat} {s : DStore} (h : InvLow N s) (mx : Int)
    (hmx : s.count ≠ 0 → mx - (N : Int) + 1 ≤ s.minIndex) (j : Int) :
    wt s j = foldW (wt s) (cum s (mx - N + 1)) (mx - N + 1) j := by
  unfold foldW
  by_cases h0 : s.count = 0
  · rw [h.wt_zero_of_empty h0, h.cum_zero_of_empty h0]; split <;> (try split) <;> rfl
  · have hle := hmx h0
    by_cases hj1 : j < mx - N + 1
    · rw [if_pos hj1, h.outside j (by omega)]
    · rw [if_neg hj1]
      by_cases hj2 : j = mx - N + 1
      · rw [if_pos hj2, hj2,
          cum_eq_wt_of_le s s.minIndex (fun j hj => h.outside j (Or.inl hj)) _ hle]
      · rw [if_neg hj2]

/-! ## `adjust` and `extendRange` of the lowest-collapsing store -/

theorem low_adjust_spec (N : Nat) (_hN : 1 ≤ N) (t : DStore) (hk : t.kind = .low N) (hz : ZeroOut t)
    (hmm : t.minIndex ≤ t.maxIndex) (hlo : t.offset ≤ t.minIndex)
    (hhi : t.maxIndex < t.offset + t.len) (hcnt : t.count = t.bins.toList.sum)
    (hlen : t.bins.size ≤ N) (nMin nMax : Int)
    (hsub : nMin ≤ t.minIndex ∧ t.maxIndex ≤ nMax)
    (hbig : nMax - nMin + 1 > t.len → t.len = N) :
    ∃ t', t.adjust nMin nMax = some t' ∧ t'.kind = .low N ∧ t'.count = t.count ∧
      t'.maxIndex = nMax ∧ t'.minIndex = max nMin (nMax - N + 1) ∧ t'.offset ≤ t'.minIndex ∧
      nMax < t'.offset + t'.len ∧ t'.bins.size = t.bins.size ∧
      (∀ j, wt t' j = foldW (wt t) (cum t (nMax - N + 1)) (nMax - N + 1) j) ∧
      (t'.isCollapsed = (t.isCollapsed || decide (nMax - nMin + 1 > t.len))) ∧
      (nMax - nMin + 1 > t.len → t'.offset = t'.minIndex) := by
  have hlen' : t.len = (t.bins.size : Int) := rfl
  have hzlo : ∀ j, j < t.minIndex → wt t j = 0 := fun j hj => hz j (Or.inl hj)
  unfold adjust
  simp only [hk]
  by_cases hgt : nMax - nMin + 1 > t.len
  · rw [if_pos hgt]
    have hN' := hbig hgt
    obtain ⟨nb, hc, hsz, hw⟩ := collapseLow_spec t (nMax - t.len + 1) hz hmm hlo hhi hcnt (by omega)
    rw [hc]
    simp only [Option.bind_eq_bind, Option.bind_some, Option.pure_def]
    refine ⟨_, rfl, hk, rfl, rfl, ?_, ?_, ?_, hsz, ?_, ?_, ?_⟩
    · show nMax - t.len + 1 = _; omega
    · show nMax - t.len + 1 ≤ nMax - t.len + 1; omega
    · show nMax < nMax - t.len + 1 + (nb.size : Int); rw [hsz]; omega
    · intro j
      show at0 nb (j - (nMax - t.len + 1)) = _
      rw [hw, hN']
    · show true = _
      simp [hgt]
    · intro _; rfl
  · rw [if_neg hgt]
    obtain ⟨nb, off', hc, hsz, h1, h2, hw⟩ :=
      centerCounts_spec t nMin nMax hz hmm hlo hhi (by omega) hsub
    rw [hc]
    refine ⟨_, rfl, hk, rfl, rfl, ?_, ?_, ?_, hsz, ?_, ?_, ?_⟩
    · show nMin = _; omega
    · exact h1
    · show nMax < off' + (nb.size : Int); rw [hsz]; exact h2
    · intro j
      show at0 nb (j - off') = _
      rw [hw]
      unfold foldW
      by_cases hj1 : j < nMax - N + 1
      · rw [if_pos hj1, hzlo j (by omega)]
      · rw [if_neg hj1]
        by_cases hj2 : j = nMax - N + 1
        · rw [if_pos hj2, hj2, cum_eq_wt_of_le t t.minIndex hzlo _ (by omega)]
        · rw [if_neg hj2]
    · show t.isCollapsed = _
      simp [hgt]
    · intro h; exact absurd h hgt

/-- what `extendRange` (or doing nothing) establishes: the window `[max mn e, mx]` with
    `e = mx - N + 1`, the content folded at `e` -/
structure ExtLow (N : Nat) (s t : DStore) (mn mx : Int) : Prop where
  kind  : t.kind = .low N
  count : t.count = s.count
  maxI  : t.maxIndex = mx
  minI  : t.minIndex = max mn (mx - N + 1)
  off   : t.offset ≤ t.minIndex
  hi    : t.maxIndex < t.offset + t.len
  lenLe : t.bins.size ≤ N
  coll  : t.isCollapsed = true →
            t.offset = t.minIndex ∧ t.bins.size = N ∧ t.maxIndex - t.minIndex + 1 = N
  collOf : mn < mx - N + 1 → t.isCollapsed = true ∧ t.offset = t.minIndex
  wtEq  : ∀ j, wt t j = foldW (wt s) (cum s (mx - N + 1)) (mx - N + 1) j

/-- doing nothing is a (trivial) extension -/
theorem ExtLow.self {N : Nat} {s : DStore} (h : InvLow N s) (h0 : s.count ≠ 0) :
    ExtLow N s s s.minIndex s.maxIndex := by
  obtain ⟨w1, w2, w3⟩ := h.window h0
  have hsp := h.span_le h0
  exact
    { kind := h.kind, count := rfl, maxI := rfl, minI := by omega, off := w1, hi := w3
      lenLe := h.lenLe, coll := h.collapsed, collOf := fun hc => by omega
      wtEq := h.self_fold s.maxIndex (fun _ => by omega) }

theorem low_extendRange_spec (hG : GrowthOK) (N : Nat) (s : DStore) (h : InvLow N s) (a b : Int)
    (hab : a ≤ b) (hspan : SpanOK s a b) :
    ∃ t, s.extendRange a b = some t ∧ ExtLow N s t (min a s.minIndex) (max b s.maxIndex) := by
  have hN := h.hN
  simp only [extendRange]
  by_cases h0 : s.count = 0
  · rw [if_pos h0]
    obtain ⟨hsz, hmin, hmax, hcol⟩ := h.empty h0
    obtain ⟨L, hL, hLN, hLge⟩ := getNewLength_low hG s N h.kind (min a s.minIndex) (max b s.maxIndex)
      (by omega) hspan
    rw [hL]
    simp only [Option.bind_eq_bind, Option.bind_some]
    have hL1 : 1 ≤ L := by omega
    rw [grow_spec s L (by omega)]
    simp only [Option.bind_some, h.kind]
    -- the state handed to `adjust`, for either value of `wide`
    have key : ∀ (nm : Int) (c : Bool), max b s.maxIndex - nm + 1 ≤ L →
        nm = max (min a s.minIndex) (max b s.maxIndex - N + 1) →
        (c = true → L = N ∧ max b s.maxIndex - nm + 1 = N) →
        (min a s.minIndex < max b s.maxIndex - N + 1 → c = true) →
        ∃ t, ({ kind := DKind.low N, bins := s.bins ++ Array.replicate L.toNat 0, count := s.count, offset := nm, minIndex := nm, maxIndex := max b s.maxIndex, isCollapsed := c } : DStore).adjust nm (max b s.maxIndex) = some t ∧
          ExtLow N s t (min a s.minIndex) (max b s.maxIndex) := by
      intro nm c hfit hnm hc1 hc2
      have hlen0 : ({ kind := DKind.low N, bins := s.bins ++ Array.replicate L.toNat 0, count := s.count, offset := nm, minIndex := nm, maxIndex := max b s.maxIndex, isCollapsed := c } : DStore).len = L := by
        simp [len, hsz]; omega
      have hwt0 : ∀ j, wt ({ kind := DKind.low N, bins := s.bins ++ Array.replicate L.toNat 0, count := s.count, offset := nm, minIndex := nm, maxIndex := max b s.maxIndex, isCollapsed := c } : DStore) j = 0 := by
        intro j
        simp only [wt, at0_append_replicate]
        exact at0_out _ _ (by omega)
      obtain ⟨t', ht', hk', hc', hma', hmi', ho1, ho2, hsz', hw', hcol', _⟩ := low_adjust_spec N hN
        { kind := DKind.low N, bins := s.bins ++ Array.replicate L.toNat 0, count := s.count, offset := nm, minIndex := nm, maxIndex := max b s.maxIndex, isCollapsed := c } rfl
        (fun i _ => hwt0 i) (by show nm ≤ max b s.maxIndex; omega) (by show nm ≤ nm; omega)
        (by rw [hlen0]; show max b s.maxIndex < nm + L; omega)
        (by
          show s.count = _
          rw [h0, sum_eq_rsum _ 0]
          exact (rsum_zero _ _ (fun j _ _ => by
            have := hwt0 (j - 0 + nm)
            simp only [wt] at this
            rw [show j - 0 + nm - nm = j - 0 by omega] at this
            exact this)).symm)
        (by show (s.bins ++ Array.replicate L.toNat 0).size ≤ N; simp [hsz]; omega)
        nm (max b s.maxIndex) ⟨by show nm ≤ nm; omega, by show max b s.maxIndex ≤ _; omega⟩
        (by rw [hlen0]; intro hh; omega)
      have hszL : (t'.bins.size : Int) = L := by
        rw [hsz']; simp [hsz]; omega
      have hcolc : t'.isCollapsed = c := by
        rw [hcol', hlen0]
        have : ¬ (max b s.maxIndex - nm + 1 > L) := by omega
        simp [this]
      refine ⟨t', ht', ?_⟩
      exact
        { kind := hk', count := hc', maxI := hma'
          minI := by rw [hmi']; omega
          off := ho1
          hi := by rw [hma']; exact ho2
          lenLe := by omega
          coll := by
            intro hcc
            rw [hcolc] at hcc
            obtain ⟨e1, e2⟩ := hc1 hcc
            have : ¬ (max b s.maxIndex - nm + 1 > L) := by omega
            refine ⟨?_, by omega, by omega⟩
            -- the array has exactly `N` slots and the window has `N` indexes
            unfold len at ho2
            omega
          collOf := by
            intro hlt
            have hcc := hc2 hlt
            obtain ⟨e1, e2⟩ := hc1 hcc
            refine ⟨by rw [hcolc]; exact hcc, ?_⟩
            unfold len at ho2
            omega
          wtEq := by
            intro j
            rw [hw']
            unfold foldW
            rw [h.cum_zero_of_empty h0, h.wt_zero_of_empty h0]
            have hcz : cum ({ kind := DKind.low N, bins := s.bins ++ Array.replicate L.toNat 0, count := s.count, offset := nm, minIndex := nm, maxIndex := max b s.maxIndex, isCollapsed := c } : DStore) (max b s.maxIndex - N + 1) = 0 :=
              rsum_zero _ _ (fun j _ _ => hwt0 j)
            rw [hcz, hwt0] }
    by_cases hwide : max b s.maxIndex - min a s.minIndex + 1 > L
    · simp only [hwide, if_true]
      exact key (max b s.maxIndex - L + 1) true (by omega) (by omega) (fun _ => by omega)
        (fun _ => rfl)
    · simp only [hwide, if_false]
      exact key (min a s.minIndex) s.isCollapsed (by omega) (by omega)
        (fun hc => by rw [hcol] at hc; cases hc) (fun hlt => by omega)
  · rw [if_neg h0]
    obtain ⟨w1, w2, w3⟩ := h.window h0
    have hsp := h.span_le h0
    have hlenLe := h.lenLe
    have hls : s.len = (s.bins.size : Int) := rfl
    by_cases hin : min a s.minIndex ≥ s.offset ∧ max b s.maxIndex < s.offset + s.len
    · rw [if_pos hin]
      refine ⟨_, rfl, ?_⟩
      have hlen' : s.len = (s.bins.size : Int) := rfl
      exact
        { kind := h.kind, count := rfl, maxI := rfl
          minI := by show min a s.minIndex = _; omega
          off := hin.1, hi := hin.2, lenLe := h.lenLe
          coll := by
            intro hc
            obtain ⟨c1, c2, c3⟩ := h.collapsed hc
            show s.offset = min a s.minIndex ∧ s.bins.size = N ∧
              max b s.maxIndex - min a s.minIndex + 1 = N
            omega
          collOf := by intro hlt; omega
          wtEq := by
            intro j
            show wt s j = _
            exact h.self_fold (max b s.maxIndex) (fun _ => by omega) j }
    · rw [if_neg hin]
      obtain ⟨L, hL, hLN, hLge⟩ := getNewLength_low hG s N h.kind (min a s.minIndex)
        (max b s.maxIndex) (by omega) hspan
      rw [hL]
      simp only [Option.bind_eq_bind, Option.bind_some]
      -- the (possibly grown) state handed to `adjust`
      have key : ∀ (t0 : DStore), t0.kind = .low N → t0.count = s.count → t0.offset = s.offset →
          t0.minIndex = s.minIndex → t0.maxIndex = s.maxIndex → t0.isCollapsed = s.isCollapsed →
          (∀ j, wt t0 j = wt s j) → t0.len = max s.len L → t0.count = t0.bins.toList.sum →
          ∃ t, t0.adjust (min a s.minIndex) (max b s.maxIndex) = some t ∧
            ExtLow N s t (min a s.minIndex) (max b s.maxIndex) := by
        intro t0 k0 c0 o0 mi0 ma0 col0 hw0 hl0 hs0
        have hl0' : t0.len = (t0.bins.size : Int) := rfl
        obtain ⟨t', ht', hk', hc', hma', hmi', ho1, ho2, hsz', hw', hcol', hoffc⟩ :=
          low_adjust_spec N hN t0 k0
          (by intro i hi; rw [hw0]; exact h.outside i (by rw [mi0, ma0] at hi; exact hi))
          (by omega) (by omega) (by rw [hl0]; omega) hs0 (by omega)
          (min a s.minIndex) (max b s.maxIndex) (by omega) (by rw [hl0]; intro hh; omega)
        refine ⟨t', ht', ?_⟩
        have hl' : t'.len = (t'.bins.size : Int) := rfl
        exact
          { kind := hk', count := by rw [hc', c0], maxI := hma'
            minI := hmi', off := ho1
            hi := by rw [hma']; exact ho2
            lenLe := by omega
            coll := by
              intro hc
              rw [hcol', Bool.or_eq_true, decide_eq_true_eq] at hc
              rcases hc with hc | hc
              · -- the receiver was collapsed: any extension outside the array collapses again
                rw [col0] at hc
                obtain ⟨c1, c2, c3⟩ := h.collapsed hc
                have hgt : max b s.maxIndex - min a s.minIndex + 1 > t0.len := by
                  unfold len at hin; omega
                have := hoffc hgt
                omega
              · have := hoffc hc
                omega
            collOf := by
              intro hlt
              have hgt : max b s.maxIndex - min a s.minIndex + 1 > t0.len := by omega
              refine ⟨?_, hoffc hgt⟩
              rw [hcol', Bool.or_eq_true, decide_eq_true_eq]
              exact Or.inr hgt
            wtEq := by
              intro j
              rw [hw', cum_congr s t0 hw0]
              unfold foldW
              rw [hw0] }
      by_cases hgt : L > s.len
      · rw [if_pos hgt, grow_spec s _ (by omega)]
        simp only [Option.bind_some]
        apply key { s with bins := s.bins ++ Array.replicate (L - s.len).toNat 0 } h.kind rfl rfl rfl rfl rfl
        · intro j; simp only [wt, at0_append_replicate]
        · simp [len] at hgt ⊢; omega
        · show s.count = _
          rw [h.countEq]
          exact (sum_eq_of_wt s.bins _ s.offset s.offset
            (fun j => by simp only [at0_append_replicate])).symm
      · rw [if_neg hgt]
        simp only [Option.pure_def, Option.bind_some]
        exact key s h.kind rfl rfl rfl rfl rfl (fun j => rfl) (by omega) h.countEq

/-! ## consequences of `ExtLow` -/

theorem cum_mono (s : DStore) (hnn : ∀ j, 0 ≤ wt s j) (m e : Int) (hme : m ≤ e) : cum s m ≤ cum s e := by
  rw [cum_eq s m (min s.offset m) (by omega), cum_eq s e (min s.offset m) (by omega),
    show (e - min s.offset m + 1).toNat = (m - min s.offset m + 1).toNat + (e - m).toNat by omega,
    rsum_append]
  have := rsum_nonneg (f := wt s) (min s.offset m + ((m - min s.offset m + 1).toNat : Int)) (e - m).toNat hnn
  grind

/-- folding does not change the total (window form) -/
theorem rsum_foldW (s : DStore) (e lo : Int) (n : Nat) (hlo1 : lo ≤ s.offset) (hlo3 : lo ≤ e)
    (hhi1 : s.offset + s.bins.size ≤ lo + n) (hhi3 : e + 1 ≤ lo + n) :
    rsum (foldW (wt s) (cum s e) e) lo n = s.bins.toList.sum := by
  obtain ⟨n1, hn1⟩ : ∃ n1 : Nat, e = lo + n1 := ⟨(e - lo).toNat, by omega⟩
  obtain ⟨n2, hn2⟩ : ∃ n2 : Nat, n = n1 + 1 + n2 := ⟨n - n1 - 1, by omega⟩
  subst hn2
  rw [sum_eq_window s.bins s.offset lo (n1 + 1 + n2) (fun j hj => at0_out _ _ (by omega))]
  rw [rsum_append, rsum_append (fun j => at0 s.bins (j - s.offset))]
  congr 1
  · -- the part up to `e`
    simp only [rsum]
    rw [rsum_zero lo n1 (fun j h1 h2 => by unfold foldW; rw [if_pos (by omega)])]
    rw [← hn1]
    have hce := cum_eq s e lo hlo1
    rw [show (e - lo + 1).toNat = n1 + 1 by omega] at hce
    simp only [rsum] at hce
    rw [← hn1] at hce
    unfold foldW
    rw [if_neg (by omega), if_pos rfl, hce]
    unfold wt
    grind
  · exact rsum_congr _ _ (fun j h1 h2 => by
      unfold foldW
      rw [if_neg (by omega), if_neg (by omega)]; rfl)

/-- folding does not change the total -/
theorem sum_foldW (s : DStore) (b : Array Rat) (ob e : Int)
    (h : ∀ j, at0 b (j - ob) = foldW (wt s) (cum s e) e j) : b.toList.sum = s.bins.toList.sum := by
  let lo := min (min s.offset ob) e
  let n := (max (max (s.offset + s.bins.size) (ob + b.size)) (e + 1) - lo).toNat
  rw [sum_eq_window b ob lo n (fun j hj => at0_out _ _ (by omega)),
    rsum_congr lo n (fun j _ _ => h j)]
  exact rsum_foldW s e lo n (by omega) (by omega) (by omega) (by omega)

/-- adding a folded store adds its total -/
theorem sum_add_foldW (t o : DStore) (nb : Array Rat) (e : Int) (hsz : nb.size = t.bins.size)
    (h : ∀ j, at0 nb (j - t.offset) = wt t j + foldW (wt o) (cum o e) e j) :
    nb.toList.sum = t.bins.toList.sum + o.bins.toList.sum := by
  let lo := min (min t.offset o.offset) e
  let n := (max (max (t.offset + t.bins.size) (o.offset + o.bins.size)) (e + 1) - lo).toNat
  rw [sum_eq_window nb t.offset lo n (fun j hj => at0_out _ _ (by omega)),
    rsum_congr lo n (fun j _ _ => h j), rsum_add,
    rsum_foldW o e lo n (by omega) (by omega) (by omega) (by omega)]
  congr 1
  exact (sum_eq_window t.bins t.offset lo n (fun j hj => at0_out _ _ (by omega))).symm

theorem foldW_nonneg (f : Int → Rat) (c : Rat) (e : Int) (hf : ∀ j, 0 ≤ f j) (hc : 0 ≤ c) (j : Int) :
    0 ≤ foldW f c e j := by
  unfold foldW
  split
  · exact Rat.le_refl
  · split
    · exact hc
    · exact hf j

theorem ExtLow.wt_nonneg {N : Nat} {s t : DStore} {mn mx : Int} (x : ExtLow N s t mn mx)
    (h : InvLow N s) (j : Int) : 0 ≤ wt t j := by
  rw [x.wtEq]
  exact foldW_nonneg _ _ _ h.wt_nonneg (cum_nonneg s h.wt_nonneg _) j

theorem ExtLow.sum_eq {N : Nat} {s t : DStore} {mn mx : Int} (x : ExtLow N s t mn mx) :
    t.bins.toList.sum = s.bins.toList.sum :=
  sum_foldW s t.bins t.offset _ x.wtEq

theorem ExtLow.zeroOut {N : Nat} {s t : DStore} {mn mx : Int} (x : ExtLow N s t mn mx)
    (h : InvLow N s) (hmn : mn ≤ s.minIndex) (hmx : s.maxIndex ≤ mx) :
    ∀ j, (j < t.minIndex ∨ t.maxIndex < j) → wt t j = 0 := by
  intro j hj
  rw [x.minI, x.maxI] at hj
  have hN := h.hN
  rw [x.wtEq]
  unfold foldW
  by_cases hj1 : j < mx - N + 1
  · rw [if_pos hj1]
  · rw [if_neg hj1]
    by_cases hj2 : j = mx - N + 1
    · rw [if_pos hj2]
      exact cum_zero_of_lt s s.minIndex (fun k hk => h.outside k (Or.inl hk)) _ (by omega)
    · rw [if_neg hj2]
      exact h.outside j (by omega)

/-- the common last step of `addWithCount` and `mergeSame`: after the window has been
    extended, non-negative weight is added inside the window -/
theorem ExtLow.finish {N : Nat} {s t : DStore} {mn mx : Int} (x : ExtLow N s t mn mx)
    (h : InvLow N s) (hmn : mn ≤ s.minIndex) (hmx : s.maxIndex ≤ mx) (hle : mn ≤ mx)
    (nb : Array Rat) (hsz : nb.size = t.bins.size) (g : Int → Rat) (c : Rat) (hc : 0 < c)
    (hg : ∀ j, 0 ≤ g j) (hg0 : ∀ j, (j < t.minIndex ∨ t.maxIndex < j) → g j = 0)
    (hat : ∀ j, at0 nb (j - t.offset) = wt t j + g j)
    (hsum : nb.toList.sum = t.bins.toList.sum + c) :
    InvLow N ({ t with bins := nb, count := t.count + c } : DStore) := by
  have hN := h.hN
  have hmi := x.minI
  have hma := x.maxI
  have hcnn := h.count_nonneg
  refine
    { kind := x.kind
      hN := hN
      nonneg := ?_
      countEq := ?_
      empty := ?_
      window := ?_
      outside := ?_
      lenLe := by show nb.size ≤ N; rw [hsz]; exact x.lenLe
      collapsed := ?_ }
  · apply nonneg_of_wt
    intro j
    show 0 ≤ at0 nb (j - t.offset)
    rw [hat]
    have := x.wt_nonneg h j
    have := hg j
    grind
  · show t.count + c = nb.toList.sum
    rw [hsum, x.count, h.countEq, x.sum_eq]
  · intro h0
    have : s.count + c = 0 := by rw [← x.count]; exact h0
    grind
  · intro _
    exact ⟨x.off, by show t.minIndex ≤ t.maxIndex; omega, by simp only [len, hsz]; exact x.hi⟩
  · intro j hj
    show at0 nb (j - t.offset) = 0
    have hj' : j < t.minIndex ∨ t.maxIndex < j := hj
    rw [hat, x.zeroOut h hmn hmx j hj', hg0 j hj']
    grind
  · intro hcc
    have := x.coll hcc
    show t.offset = t.minIndex ∧ nb.size = N ∧ t.maxIndex - t.minIndex + 1 = N
    rw [hsz]; exact this

/-! ## `normalize` / `addWithCount` of the lowest-collapsing store -/

theorem low_normalize_spec (hG : GrowthOK) (N : Nat) (s : DStore) (h : InvLow N s) (i : Int)
    (hsp : SpanOK s i i) :
    ∃ t, s.normalize i = some (t, max i (max i s.maxIndex - N + 1) - t.offset) ∧
      ExtLow N s t (min i s.minIndex) (max i s.maxIndex) := by
  have hN := h.hN
  unfold normalize
  simp only [h.kind]
  by_cases h1 : i < s.minIndex
  · rw [if_pos h1]
    by_cases hc : s.isCollapsed = true
    · rw [if_pos hc]
      obtain ⟨c1, c2, c3⟩ := h.collapsed hc
      have h0 : s.count ≠ 0 := by
        intro h0; rw [(h.empty h0).2.2.2] at hc; cases hc
      obtain ⟨w1, w2, w3⟩ := h.window h0
      have x := ExtLow.self h h0
      refine ⟨s, ?_, ?_⟩
      · show some (s, (0 : Int)) = _
        congr 2; omega
      · rw [show max i s.maxIndex = s.maxIndex by omega]
        exact
          { kind := x.kind, count := rfl, maxI := rfl, minI := by omega, off := x.off, hi := x.hi
            lenLe := x.lenLe, coll := x.coll, collOf := fun _ => ⟨hc, c1⟩, wtEq := x.wtEq }
    · rw [if_neg hc]
      obtain ⟨t, ht, x⟩ := low_extendRange_spec hG N s h i i (Int.le_refl _) hsp
      rw [ht]
      simp only [Option.bind_eq_bind, Option.bind_some, Option.pure_def]
      refine ⟨t, ?_, x⟩
      have hmi := x.minI
      by_cases htc : t.isCollapsed = true
      · rw [if_pos htc]
        have := (x.coll htc).1
        congr 2; omega
      · rw [if_neg htc]
        have : ¬ (min i s.minIndex < max i s.maxIndex - N + 1) := fun hh => htc (x.collOf hh).1
        congr 2; omega
  · rw [if_neg h1]
    by_cases h2 : i > s.maxIndex
    · rw [if_pos h2]
      obtain ⟨t, ht, x⟩ := low_extendRange_spec hG N s h i i (Int.le_refl _) hsp
      rw [ht]
      simp only [Option.bind_eq_bind, Option.bind_some, Option.pure_def]
      refine ⟨t, ?_, x⟩
      congr 2; omega
    · rw [if_neg h2]
      have h0 := h.nonempty_of_le (by omega)
      have hsp := h.span_le h0
      refine ⟨s, ?_, ?_⟩
      · show some (s, i - s.offset) = _
        congr 2; omega
      · rw [show min i s.minIndex = s.minIndex by omega, show max i s.maxIndex = s.maxIndex by omega]
        exact ExtLow.self h h0

/-- the weight function after adding `w` at `i` to a store whose maximum becomes `mx`:
    exact add, then fold at `e = mx − N + 1` -/
def addFold (s : DStore) (i : Int) (w : Rat) (e : Int) (j : Int) : Rat :=
  foldW (fun k => wt s k + if k = i then w else 0) (cum s e + if i ≤ e then w else 0) e j

/-- no panic, invariant kept, weight conserved, and the new content is
    "exact add, then fold at `max − N + 1`" — for any `Int` index within a span of `2^33`
    (`hsp`; automatic for int32 indexes, `InvLow.spanOK`) -/
theorem low_addWithCount_full (hG : GrowthOK) (N : Nat) (s : DStore) (h : InvLow N s) (i : Int)
    (w : Rat) (hw : 0 ≤ w) (hsp : SpanOK s i i) :
    ∃ s', s.addWithCount i w = some s' ∧ InvLow N s' ∧ s'.count = s.count + w ∧
      (w ≠ 0 → s'.maxIndex = max i s.maxIndex ∧
        s'.minIndex = max (min i s.minIndex) (max i s.maxIndex - N + 1) ∧
        ∀ j, wt s' j = addFold s i w (max i s.maxIndex - N + 1) j) := by
  have hN := h.hN
  unfold addWithCount
  by_cases hw0 : w = 0
  · rw [if_pos hw0]
    exact ⟨s, rfl, h, by rw [hw0]; grind, fun hne => absurd hw0 hne⟩
  · rw [if_neg hw0]
    have hwpos : 0 < w := by grind
    obtain ⟨t, hn, x⟩ := low_normalize_spec hG N s h i hsp
    have hmn : min i s.minIndex ≤ s.minIndex := by omega
    have hmx : s.maxIndex ≤ max i s.maxIndex := by omega
    have hmi := x.minI
    have hma := x.maxI
    have ho1 := x.off
    have ho2 := x.hi
    have hlen : t.len = (t.bins.size : Int) := rfl
    generalize hq : max i (max i s.maxIndex - N + 1) = q at hn
    have hin : 0 ≤ q - t.offset ∧ q - t.offset < t.bins.size := by omega
    obtain ⟨nb, hadd, hsz, hat⟩ := addAt_eq t.bins (q - t.offset) w hin
    rw [hn]
    simp only [Option.bind_eq_bind, Option.bind_some, hadd, Option.pure_def]
    have hcnn := h.count_nonneg
    have hwt1 : ∀ j, wt ({ t with bins := nb, count := t.count + w } : DStore) j
        = wt t j + (if j = q then w else 0) := by
      intro j
      simp only [wt]
      rw [hat]
      congr 1
      by_cases hj : j = q
      · rw [if_pos hj, if_pos (by omega)]
      · rw [if_neg hj, if_neg (by omega)]
    refine ⟨_, rfl, ?_, by simp only [x.count], fun _ => ⟨hma, hmi, ?_⟩⟩
    · refine x.finish h hmn hmx (by omega) nb hsz (fun j => if j = q then w else 0) w hwpos
        (fun j => by split <;> grind)
        (fun j hj => by rw [if_neg (by omega)]) ?_
        (sum_point t.bins nb (q - t.offset) w hin hsz hat)
      intro j
      exact hwt1 j
    · intro j
      rw [hwt1, x.wtEq]
      unfold addFold foldW
      dsimp only
      by_cases hj1 : j < max i s.maxIndex - N + 1
      · rw [if_pos hj1, if_pos hj1, if_neg (by omega)]; grind
      · rw [if_neg hj1, if_neg hj1]
        by_cases hj2 : j = max i s.maxIndex - N + 1
        · rw [if_pos hj2, if_pos hj2]
          by_cases hie : i ≤ max i s.maxIndex - N + 1
          · rw [if_pos (by omega), if_pos hie]
          · rw [if_neg (by omega), if_neg hie]
        · rw [if_neg hj2, if_neg hj2]
          by_cases hji : j = i
          · rw [if_pos (by omega), if_pos hji]
          · rw [if_neg (by omega), if_neg hji]

/-! ## tightness of `minIndex` / `maxIndex` (needs indexes in the int32 range) -/

/-- both ends of the window carry weight and lie in the int32 range (the sentinels
    `MaxInt32`/`MinInt32` of the empty store make this false for arbitrary `Int` indexes,
    exactly as for the plain store) -/
def Tight32 (s : DStore) : Prop :=
  s.count ≠ 0 → 0 < wt s s.minIndex ∧ 0 < wt s s.maxIndex ∧ minInt32 ≤ s.minIndex ∧ s.maxIndex ≤ maxInt32

theorem tight32_new (k : DKind) : Tight32 (DStore.new k) := fun h => absurd rfl h

/-- under `Tight32` the window bounds are int32 (sentinels of the empty store included) -/
theorem window32_gen (s : DStore) (ht : Tight32 s)
    (hemp : s.count = 0 → s.minIndex = maxInt32 ∧ s.maxIndex = minInt32)
    (hwin : s.count ≠ 0 → s.minIndex ≤ s.maxIndex) :
    (minInt32 ≤ s.minIndex ∧ s.minIndex ≤ maxInt32) ∧ (minInt32 ≤ s.maxIndex ∧ s.maxIndex ≤ maxInt32) := by
  by_cases h0 : s.count = 0
  · obtain ⟨h1, h2⟩ := hemp h0
    rw [h1, h2]; simp only [maxInt32, minInt32]; omega
  · obtain ⟨_, _, t3, t4⟩ := ht h0
    have := hwin h0
    omega

theorem InvLow.window32 {N : Nat} {s : DStore} (h : InvLow N s) (ht : Tight32 s) :
    (minInt32 ≤ s.minIndex ∧ s.minIndex ≤ maxInt32) ∧ (minInt32 ≤ s.maxIndex ∧ s.maxIndex ≤ maxInt32) :=
  window32_gen s ht (fun h0 => ⟨(h.empty h0).2.1, (h.empty h0).2.2.1⟩) (fun h0 => (h.window h0).2.1)

/-- int32 indexes never need a span of `2^33` or more -/
theorem InvLow.spanOK {N : Nat} {s : DStore} (h : InvLow N s) (ht : Tight32 s) (a b : Int)
    (ha : minInt32 ≤ a ∧ a ≤ maxInt32) (hb : minInt32 ≤ b ∧ b ≤ maxInt32) : SpanOK s a b := by
  obtain ⟨⟨w1, w2⟩, w3, w4⟩ := h.window32 ht
  unfold SpanOK
  simp only [maxInt32, minInt32] at *
  omega

theorem low_addWithCount_tight (hG : GrowthOK) (N : Nat) (s : DStore) (h : InvLow N s)
    (ht : Tight32 s) (i : Int) (w : Rat) (hw : 0 ≤ w) (hi : minInt32 ≤ i ∧ i ≤ maxInt32) :
    ∀ s', s.addWithCount i w = some s' → Tight32 s' := by
  intro s' hs'
  obtain ⟨s'', h1, hinv, hcnt, hrest⟩ := low_addWithCount_full hG N s h i w hw
    (h.spanOK ht i i hi hi)
  rw [h1] at hs'
  cases hs'
  by_cases hw0 : w = 0
  · have : s.addWithCount i w = some s := by unfold addWithCount; rw [if_pos hw0]
    rw [this] at h1; cases h1; exact ht
  · obtain ⟨hma, hmi, hwt⟩ := hrest hw0
    have hwpos : 0 < w := by grind
    have hN := h.hN
    intro _
    have hnn := h.wt_nonneg
    have hcn := cum_nonneg s hnn
    -- facts about the old store
    have hold : (s.count = 0 ∧ s.minIndex = maxInt32 ∧ s.maxIndex = minInt32) ∨
        (s.count ≠ 0 ∧ s.minIndex ≤ s.maxIndex ∧ 0 < wt s s.minIndex ∧ 0 < wt s s.maxIndex ∧
          minInt32 ≤ s.minIndex ∧ s.maxIndex ≤ maxInt32) := by
      by_cases h0 : s.count = 0
      · exact Or.inl ⟨h0, (h.empty h0).2.1, (h.empty h0).2.2.1⟩
      · exact Or.inr ⟨h0, (h.window h0).2.1, ht h0⟩
    have hi1 := hi.1
    have hi2 := hi.2
    simp only [maxInt32, minInt32] at hold hi1 hi2 ⊢
    refine ⟨?_, ?_, by omega, by omega⟩
    · rw [hwt, hmi]
      unfold addFold foldW
      dsimp only
      by_cases hc : min i s.minIndex ≤ max i s.maxIndex - N + 1
      · rw [show max (min i s.minIndex) (max i s.maxIndex - N + 1) = max i s.maxIndex - N + 1 by omega,
          if_neg (by omega), if_pos rfl]
        by_cases hie : i ≤ max i s.maxIndex - N + 1
        · rw [if_pos hie]; have := hcn (max i s.maxIndex - N + 1); grind
        · rw [if_neg hie]
          rcases hold with ⟨h0, e1, e2⟩ | ⟨h0, hle, hp1, hp2, _, _⟩
          · omega
          · have h3 := cum_ge_wt s hnn s.minIndex
            have h4 := cum_mono s hnn s.minIndex (max i s.maxIndex - N + 1) (by omega)
            grind
      · rw [show max (min i s.minIndex) (max i s.maxIndex - N + 1) = min i s.minIndex by omega,
          if_neg (by omega), if_neg (by omega)]
        by_cases hle : i ≤ s.minIndex
        · rw [show min i s.minIndex = i by omega, if_pos rfl]; have := hnn i; grind
        · rw [show min i s.minIndex = s.minIndex by omega, if_neg (by omega)]
          rcases hold with ⟨h0, e1, e2⟩ | ⟨h0, _, hp1, hp2, _, _⟩
          · omega
          · grind
    · rw [hwt, hma]
      unfold addFold foldW
      dsimp only
      rw [if_neg (by omega)]
      by_cases hge : s.maxIndex ≤ i
      · rw [show max i s.maxIndex = i by omega]
        by_cases hN1 : i = i - N + 1
        · rw [if_pos hN1, if_pos (by omega)]; have := hcn (i - N + 1); grind
        · rw [if_neg hN1, if_pos rfl]; have := hnn i; grind
      · rw [show max i s.maxIndex = s.maxIndex by omega]
        rcases hold with ⟨h0, e1, e2⟩ | ⟨h0, _, hp1, hp2, _, _⟩
        · omega
        · by_cases hN1 : s.maxIndex = s.maxIndex - N + 1
          · rw [if_pos hN1, ← hN1]
            have := cum_ge_wt s hnn s.maxIndex
            split <;> grind
          · rw [if_neg hN1, if_neg (by omega)]; grind

/-! ## `mergeSame` of the lowest-collapsing store -/

theorem low_merge_loop (ob : Array Rat) (oo so smin : Int) (n : Nat) (lo : Int) (b : Array Rat)
    (hb0 : 0 < b.size)
    (hin : ∀ idx, lo ≤ idx → idx < lo + n →
      (0 ≤ idx - oo ∧ idx - oo < ob.size) ∧ (smin ≤ idx → 0 ≤ idx - so ∧ idx - so < b.size)) :
    ∃ b', (irange lo n).foldlM (fun b idx => do
            let c ← rd ob (idx - oo)
            if idx < smin then addAt b 0 c else addAt b (idx - so) c) b = some b' ∧
      b'.size = b.size ∧
      ∀ j, at0 b' (j - so) = at0 b (j - so)
        + (if lo ≤ j ∧ j < lo + n ∧ smin ≤ j then at0 ob (j - oo) else 0)
        + (if j = so then rsum (fun k => if k < smin then at0 ob (k - oo) else 0) lo n else 0) := by
  induction n with
  | zero =>
    refine ⟨b, rfl, rfl, ?_⟩
    intro j
    rw [if_neg (by omega)]
    simp only [rsum]
    split <;> grind
  | succ n ih =>
    obtain ⟨b1, hb1, hsz1, hat1⟩ := ih (fun idx h1 h2 => hin idx h1 (by omega))
    obtain ⟨hi1, hi2⟩ := hin (lo + n) (by omega) (by omega)
    by_cases hlt : lo + (n : Int) < smin
    · obtain ⟨b2, hb2, hsz2, hat2⟩ := addAt_eq b1 0 (at0 ob (lo + n - oo)) (by rw [hsz1]; omega)
      refine ⟨b2, ?_, by rw [hsz2, hsz1], ?_⟩
      · rw [irange_succ_right, List.foldlM_append, hb1]
        simp only [Option.bind_eq_bind, Option.bind_some, List.foldlM_cons, List.foldlM_nil,
          rd_eq ob _ hi1, if_pos hlt, hb2, Option.pure_def]
      · intro j
        rw [hat2, hat1]
        simp only [rsum]
        rw [if_pos hlt]
        by_cases hj : j = so
        · rw [if_pos (show j - so = 0 by omega), if_pos hj, if_pos hj]
          by_cases hA : lo ≤ j ∧ j < lo + (n : Int) ∧ smin ≤ j
          · rw [if_pos hA, if_pos (by omega)]; grind
          · rw [if_neg hA, if_neg (by omega)]; grind
        · rw [if_neg (show ¬ j - so = 0 by omega), if_neg hj, if_neg hj]
          by_cases hA : lo ≤ j ∧ j < lo + (n : Int) ∧ smin ≤ j
          · rw [if_pos hA, if_pos (by omega)]; grind
          · rw [if_neg hA, if_neg (by omega)]; grind
    · obtain ⟨b2, hb2, hsz2, hat2⟩ := addAt_eq b1 (lo + n - so) (at0 ob (lo + n - oo))
        (by rw [hsz1]; exact hi2 (by omega))
      refine ⟨b2, ?_, by rw [hsz2, hsz1], ?_⟩
      · rw [irange_succ_right, List.foldlM_append, hb1]
        simp only [Option.bind_eq_bind, Option.bind_some, List.foldlM_cons, List.foldlM_nil,
          rd_eq ob _ hi1, if_neg hlt, hb2, Option.pure_def]
      · intro j
        rw [hat2, hat1]
        simp only [rsum]
        rw [if_neg hlt]
        by_cases hj : j = lo + n
        · rw [if_pos (show j - so = lo + ↑n - so by omega)]
          rw [if_neg (show ¬ (lo ≤ j ∧ j < lo + (n : Int) ∧ smin ≤ j) by omega),
            if_pos (show lo ≤ j ∧ j < lo + ((n + 1 : Nat) : Int) ∧ smin ≤ j by omega), hj]
          split <;> grind
        · rw [if_neg (show ¬ (j - so = lo + ↑n - so) by omega)]
          by_cases hA : lo ≤ j ∧ j < lo + (n : Int) ∧ smin ≤ j
          · rw [if_pos hA, if_pos (show lo ≤ j ∧ j < lo + ((n + 1 : Nat) : Int) ∧ smin ≤ j by omega)]
            split <;> grind
          · rw [if_neg hA, if_neg (show ¬ (lo ≤ j ∧ j < lo + ((n + 1 : Nat) : Int) ∧ smin ≤ j) by omega)]
            split <;> grind

/-- the mass of `o` below `e`, as collected by the merge loop, is `cum o (e - 1)` -/
theorem rsum_below_eq_cum (o : DStore) (m : Int) (n : Nat) (hz1 : ∀ j, j < m → wt o j = 0)
    (hz2 : ∀ j, m + n ≤ j → wt o j = 0) (e : Int) :
    rsum (fun k => if k < e then wt o k else 0) m n = cum o (e - 1) := by
  let lo := min o.offset m
  have hlo1 : lo ≤ o.offset := by omega
  have hlo2 : lo ≤ m := by omega
  generalize lo = lo at *
  rw [cum_eq o (e - 1) lo hlo1, show (e - 1 - lo + 1).toNat = (e - lo).toNat by omega]
  rw [← rsum_congr (f := fun k => if k < e then wt o k else 0) lo (e - lo).toNat
    (fun j _ h2 => by rw [if_pos (by omega)])]
  -- a window covering both
  let n' := (max (m + n) e - lo).toNat
  rw [← rsum_widen (f := fun k => if k < e then wt o k else 0) m n lo n'
    (fun j hj => by
      split
      · rcases hj with hj | hj
        · exact hz1 j hj
        · exact hz2 j hj
      · rfl) hlo2 (by omega)]
  exact rsum_widen (f := fun k => if k < e then wt o k else 0) lo (e - lo).toNat lo n'
    (fun j hj => by
      split
      · rcases hj with hj | hj
        · exact hz1 j (by omega)
        · omega
      · rfl) (Int.le_refl _) (by omega)

theorem cum_step' (s : DStore) (e : Int) : cum s e = cum s (e - 1) + wt s e := by
  by_cases he : s.offset ≤ e
  · exact cum_step s e he
  · rw [cum_of_lt s e (by omega), cum_of_lt s (e - 1) (by omega)]
    unfold wt
    rw [at0_neg _ _ (by omega)]
    grind

theorem low_mergeSame_cont (N M : Nat) (s o s1 : DStore) (hs : InvLow N s) (ho : InvLow M o)
    (h0 : o.count ≠ 0)
    (x : ExtLow N s s1 (min o.minIndex s.minIndex) (max o.maxIndex s.maxIndex)) :
    ∃ s', (do
        let b ← (idxRange o.minIndex o.maxIndex).foldlM (fun b idx => do
            let c ← rd o.bins (idx - o.offset)
            if idx < s1.minIndex then addAt b 0 c else addAt b (idx - s1.offset) c) s1.bins
        pure ({ s1 with bins := b, count := s1.count + o.count } : DStore)) = some s' ∧
      InvLow N s' ∧ s'.count = s.count + o.count ∧
      s'.maxIndex = max o.maxIndex s.maxIndex ∧
      s'.minIndex = max (min o.minIndex s.minIndex) (max o.maxIndex s.maxIndex - N + 1) ∧
      ∀ j, wt s' j = foldW (fun k => wt s k + wt o k)
        (cum s (max o.maxIndex s.maxIndex - N + 1) + cum o (max o.maxIndex s.maxIndex - N + 1))
        (max o.maxIndex s.maxIndex - N + 1) j := by
  have hN := hs.hN
  have hopos : 0 < o.count := by have := ho.count_nonneg; grind
  obtain ⟨ow1, ow2, ow3⟩ := ho.window h0
  have holen : o.len = (o.bins.size : Int) := rfl
  have hlen1 : s1.len = (s1.bins.size : Int) := rfl
  have hmi := x.minI
  have hma := x.maxI
  have ho1 := x.off
  have ho2 := x.hi
  have hozlo : ∀ j, j < o.minIndex → wt o j = 0 := fun j hj => ho.outside j (Or.inl hj)
  have hozhi : ∀ j, o.maxIndex < j → wt o j = 0 := fun j hj => ho.outside j (Or.inr hj)
  have hin : ∀ idx, o.minIndex ≤ idx → idx < o.minIndex + ((o.maxIndex - o.minIndex + 1).toNat : Int) →
      (0 ≤ idx - o.offset ∧ idx - o.offset < o.bins.size) ∧
      (s1.minIndex ≤ idx → 0 ≤ idx - s1.offset ∧ idx - s1.offset < s1.bins.size) := by
    intro idx h1 h2
    exact ⟨by omega, fun _ => by omega⟩
  obtain ⟨b', hb', hsz, hat⟩ := low_merge_loop o.bins o.offset s1.offset s1.minIndex _ o.minIndex
    s1.bins (by omega) hin
  rw [idxRange_eq, hb']
  simp only [Option.bind_eq_bind, Option.bind_some, Option.pure_def]
  -- offset below the window: nothing of `o` lies below the window
  have hoffmin : s1.offset < s1.minIndex → cum o (s1.minIndex - 1) = 0 := by
    intro hlt
    have : ¬ (min o.minIndex s.minIndex < max o.maxIndex s.maxIndex - N + 1) :=
      fun hh => by have := (x.collOf hh).2; omega
    exact cum_zero_of_lt o o.minIndex hozlo _ (by omega)
  have hat' : ∀ j, at0 b' (j - s1.offset) =
      wt s1 j + foldW (wt o) (cum o s1.minIndex) s1.minIndex j := by
    intro j
    have hB := rsum_below_eq_cum o o.minIndex (o.maxIndex - o.minIndex + 1).toNat hozlo
      (fun k hk => hozhi k (by omega)) s1.minIndex
    simp only [wt] at hB
    rw [hat, hB]
    show wt s1 j + _ + _ = _
    rw [Rat.add_assoc]
    congr 1
    unfold foldW
    have hstep := cum_step' o s1.minIndex
    by_cases hj1 : j < s1.minIndex
    · rw [if_pos hj1, if_neg (by omega)]
      by_cases hjo : j = s1.offset
      · rw [if_pos hjo, hoffmin (by omega)]; grind
      · rw [if_neg hjo]; grind
    · rw [if_neg hj1]
      by_cases hj2 : j = s1.minIndex
      · rw [if_pos hj2]
        have hA : (if o.minIndex ≤ j ∧ j < o.minIndex + ((o.maxIndex - o.minIndex + 1).toNat : Int) ∧
            s1.minIndex ≤ j then at0 o.bins (j - o.offset) else 0) = wt o j := by
          split
          · rfl
          · exact (ho.outside j (by omega)).symm
        rw [hA]
        by_cases hjo : j = s1.offset
        · rw [if_pos hjo, hstep, hj2]; grind
        · rw [if_neg hjo, hstep, hoffmin (by omega), hj2]; grind
      · rw [if_neg hj2, if_neg (show ¬ j = s1.offset by omega)]
        have hA : (if o.minIndex ≤ j ∧ j < o.minIndex + ((o.maxIndex - o.minIndex + 1).toNat : Int) ∧
            s1.minIndex ≤ j then at0 o.bins (j - o.offset) else 0) = wt o j := by
          split
          · rfl
          · exact (ho.outside j (by omega)).symm
        rw [hA]; grind
  have hmn : min o.minIndex s.minIndex ≤ s.minIndex := by omega
  have hmx : s.maxIndex ≤ max o.maxIndex s.maxIndex := by omega
  refine ⟨_, rfl, ?_, by simp only [x.count], hma, hmi, ?_⟩
  · refine x.finish hs hmn hmx (by omega) b' hsz (foldW (wt o) (cum o s1.minIndex) s1.minIndex)
      o.count hopos
      (foldW_nonneg _ _ _ ho.wt_nonneg (cum_nonneg o ho.wt_nonneg _))
      (fun j hj => ?_) hat' ?_
    · unfold foldW
      rcases hj with hj | hj
      · rw [if_pos hj]
      · rw [if_neg (by omega), if_neg (by omega)]
        exact hozhi j (by omega)
    · rw [sum_add_foldW s1 o b' s1.minIndex hsz hat', ho.countEq]
  · intro j
    show at0 b' (j - s1.offset) = _
    rw [hat', x.wtEq, hmi]
    by_cases hc : min o.minIndex s.minIndex ≤ max o.maxIndex s.maxIndex - N + 1
    · rw [show max (min o.minIndex s.minIndex) (max o.maxIndex s.maxIndex - N + 1)
        = max o.maxIndex s.maxIndex - N + 1 by omega]
      unfold foldW
      split
      · grind
      · split <;> rfl
    · rw [show max (min o.minIndex s.minIndex) (max o.maxIndex s.maxIndex - N + 1)
        = min o.minIndex s.minIndex by omega]
      have hg : foldW (wt o) (cum o (min o.minIndex s.minIndex)) (min o.minIndex s.minIndex) j = wt o j := by
        unfold foldW
        by_cases hj1 : j < min o.minIndex s.minIndex
        · rw [if_pos hj1, hozlo j (by omega)]
        · rw [if_neg hj1]
          by_cases hj2 : j = min o.minIndex s.minIndex
          · rw [if_pos hj2, hj2, cum_eq_wt_of_le o o.minIndex hozlo _ (by omega)]
          · rw [if_neg hj2]
      rw [hg]
      unfold foldW
      dsimp only
      by_cases hj1 : j < max o.maxIndex s.maxIndex - N + 1
      · rw [if_pos hj1, if_pos hj1, hozlo j (by omega)]; grind
      · rw [if_neg hj1, if_neg hj1]
        by_cases hj2 : j = max o.maxIndex s.maxIndex - N + 1
        · rw [if_pos hj2, if_pos hj2, hozlo j (by omega),
            cum_zero_of_lt o o.minIndex hozlo _ (by omega)]
        · rw [if_neg hj2, if_neg hj2]

/-- EVERY same-kind merge is safe — whatever the two limits `N`, `M`, the widths and the emptiness
    of the two stores — keeps the invariant, conserves the weight, and the new content is
    "exact pointwise sum, then fold at `max − N + 1`" (any `Int` indexes within a span of
    `2^33`, `hsp`; automatic under `Tight32`) -/
theorem low_mergeSame_full (hG : GrowthOK) (N M : Nat) (s o : DStore) (hs : InvLow N s)
    (ho : InvLow M o) (hsp : SpanOK s o.minIndex o.maxIndex) :
    ∃ s', s.mergeSame o = some s' ∧ InvLow N s' ∧ s'.count = s.count + o.count ∧
      (o.count ≠ 0 → s'.maxIndex = max o.maxIndex s.maxIndex ∧
        s'.minIndex = max (min o.minIndex s.minIndex) (max o.maxIndex s.maxIndex - N + 1) ∧
        ∀ j, wt s' j = foldW (fun k => wt s k + wt o k)
          (cum s (max o.maxIndex s.maxIndex - N + 1) + cum o (max o.maxIndex s.maxIndex - N + 1))
          (max o.maxIndex s.maxIndex - N + 1) j) := by
  unfold mergeSame
  by_cases he : o.isEmpty = true
  · rw [if_pos he]
    have h0 := (isEmpty_iff_count o).1 he
    exact ⟨s, rfl, hs, by rw [h0]; grind, fun hne => absurd h0 hne⟩
  · rw [if_neg he]
    have h0 : o.count ≠ 0 := fun h0 => he ((isEmpty_iff_count o).2 h0)
    obtain ⟨ow1, ow2, ow3⟩ := ho.window h0
    by_cases hc : o.minIndex < s.minIndex ∨ o.maxIndex > s.maxIndex
    · obtain ⟨s1, hs1e, x⟩ := low_extendRange_spec hG N s hs o.minIndex o.maxIndex ow2 hsp
      simp only [if_pos hc, hs1e, Option.bind_eq_bind, Option.bind_some, Option.pure_def, x.kind]
      have key := low_mergeSame_cont N M s o s1 hs ho h0 x
      simp only [Option.bind_eq_bind, Option.pure_def, x.kind] at key
      obtain ⟨s', k1, k2, k3, k4⟩ := key
      exact ⟨s', k1, k2, k3, fun _ => k4⟩
    · have hsc : s.count ≠ 0 := hs.nonempty_of_le (by omega)
      have x := ExtLow.self hs hsc
      rw [show s.minIndex = min o.minIndex s.minIndex by omega,
        show s.maxIndex = max o.maxIndex s.maxIndex by omega] at x
      simp only [if_neg hc, Option.bind_eq_bind, Option.bind_some, Option.pure_def, hs.kind]
      have key := low_mergeSame_cont N M s o s hs ho h0 x
      simp only [Option.bind_eq_bind, Option.pure_def, hs.kind] at key
      obtain ⟨s', k1, k2, k3, k4⟩ := key
      exact ⟨s', k1, k2, k3, fun _ => k4⟩

theorem low_mergeSame_tight (hG : GrowthOK) (N M : Nat) (s o : DStore) (hs : InvLow N s)
    (ho : InvLow M o) (ts : Tight32 s) (to : Tight32 o) :
    ∀ s', s.mergeSame o = some s' → Tight32 s' := by
  intro s' hs'
  obtain ⟨s'', h1, hinv, hcnt, hrest⟩ := low_mergeSame_full hG N M s o hs ho
    (hs.spanOK ts _ _ (ho.window32 to).1 (ho.window32 to).2)
  rw [h1] at hs'
  cases hs'
  by_cases h0 : o.count = 0
  · have : s.mergeSame o = some s := by
      unfold mergeSame; rw [if_pos ((isEmpty_iff_count o).2 h0)]
    rw [this] at h1; cases h1; exact ts
  · obtain ⟨hma, hmi, hwt⟩ := hrest h0
    have hN := hs.hN
    intro _
    have hnns := hs.wt_nonneg
    have hnno := ho.wt_nonneg
    have hcs := cum_nonneg s hnns
    have hco := cum_nonneg o hnno
    obtain ⟨op1, op2, ob1, ob2⟩ := to h0
    have ole := (ho.window h0).2.1
    have hold : (s.count = 0 ∧ s.minIndex = maxInt32 ∧ s.maxIndex = minInt32) ∨
        (s.count ≠ 0 ∧ s.minIndex ≤ s.maxIndex ∧ 0 < wt s s.minIndex ∧ 0 < wt s s.maxIndex ∧
          minInt32 ≤ s.minIndex ∧ s.maxIndex ≤ maxInt32) := by
      by_cases h0 : s.count = 0
      · exact Or.inl ⟨h0, (hs.empty h0).2.1, (hs.empty h0).2.2.1⟩
      · exact Or.inr ⟨h0, (hs.window h0).2.1, ts h0⟩
    simp only [maxInt32, minInt32] at hold ob1 ob2 ⊢
    refine ⟨?_, ?_, by omega, by omega⟩
    · rw [hwt, hmi]
      unfold foldW
      dsimp only
      by_cases hc : min o.minIndex s.minIndex ≤ max o.maxIndex s.maxIndex - N + 1
      · rw [show max (min o.minIndex s.minIndex) (max o.maxIndex s.maxIndex - N + 1)
          = max o.maxIndex s.maxIndex - N + 1 by omega, if_neg (by omega), if_pos rfl]
        have c1 := hcs (max o.maxIndex s.maxIndex - N + 1)
        have c2 := hco (max o.maxIndex s.maxIndex - N + 1)
        by_cases hle : o.minIndex ≤ s.minIndex
        · have h3 := cum_ge_wt o hnno o.minIndex
          have h4 := cum_mono o hnno o.minIndex (max o.maxIndex s.maxIndex - N + 1) (by omega)
          grind
        · rcases hold with ⟨_, e1, e2⟩ | ⟨_, _, hp1, hp2, _, _⟩
          · omega
          · have h3 := cum_ge_wt s hnns s.minIndex
            have h4 := cum_mono s hnns s.minIndex (max o.maxIndex s.maxIndex - N + 1) (by omega)
            grind
      · rw [show max (min o.minIndex s.minIndex) (max o.maxIndex s.maxIndex - N + 1)
          = min o.minIndex s.minIndex by omega, if_neg (by omega), if_neg (by omega)]
        have c1 := hnns (min o.minIndex s.minIndex)
        have c2 := hnno (min o.minIndex s.minIndex)
        by_cases hle : o.minIndex ≤ s.minIndex
        · rw [show min o.minIndex s.minIndex = o.minIndex by omega] at c1 c2 ⊢; grind
        · rcases hold with ⟨_, e1, e2⟩ | ⟨_, _, hp1, hp2, _, _⟩
          · omega
          · rw [show min o.minIndex s.minIndex = s.minIndex by omega] at c1 c2 ⊢; grind
    · rw [hwt, hma]
      unfold foldW
      dsimp only
      rw [if_neg (by omega)]
      have hpos : 0 < wt s (max o.maxIndex s.maxIndex) + wt o (max o.maxIndex s.maxIndex) := by
        have c1 := hnns (max o.maxIndex s.maxIndex)
        have c2 := hnno (max o.maxIndex s.maxIndex)
        by_cases hle : s.maxIndex ≤ o.maxIndex
        · rw [show max o.maxIndex s.maxIndex = o.maxIndex by omega] at c1 c2 ⊢; grind
        · rcases hold with ⟨_, e1, e2⟩ | ⟨_, _, hp1, hp2, _, _⟩
          · omega
          · rw [show max o.maxIndex s.maxIndex = s.maxIndex by omega] at c1 c2 ⊢; grind
      by_cases hN1 : max o.maxIndex s.maxIndex = max o.maxIndex s.maxIndex - N + 1
      · rw [if_pos hN1, ← hN1]
        have := cum_ge_wt s hnns (max o.maxIndex s.maxIndex)
        have := cum_ge_wt o hnno (max o.maxIndex s.maxIndex)
        grind
      · rw [if_neg hN1]; exact hpos

/-! ## `mergeBins`, `clear`, `reweight` -/

theorem low_mergeBins_inv (hG : GrowthOK) (N : Nat) (s : DStore) (h : InvLow N s) (ht : Tight32 s)
    (l : List (Int × Rat)) (hl : ∀ p ∈ l, 0 ≤ p.2)
    (hl32 : ∀ p ∈ l, minInt32 ≤ p.1 ∧ p.1 ≤ maxInt32) :
    ∃ s', s.mergeBins l = some s' ∧ InvLow N s' ∧ s'.count = s.count + (l.map (·.2)).sum := by
  unfold mergeBins
  induction l generalizing s with
  | nil => exact ⟨s, rfl, h, by simp; grind⟩
  | cons p l ih =>
    obtain ⟨s1, h1, hi1, hc1, _⟩ := low_addWithCount_full hG N s h p.1 p.2 (hl p (by simp))
      (h.spanOK ht _ _ (hl32 p (by simp)) (hl32 p (by simp)))
    have ht1 := low_addWithCount_tight hG N s h ht p.1 p.2 (hl p (by simp)) (hl32 p (by simp)) s1 h1
    obtain ⟨s2, h2, hi2, hc2⟩ := ih s1 hi1 ht1 (fun q hq => hl q (by simp [hq]))
      (fun q hq => hl32 q (by simp [hq]))
    refine ⟨s2, ?_, hi2, ?_⟩
    · rw [List.foldlM_cons, h1]; exact h2
    · rw [hc2, hc1, List.map_cons, List.sum_cons]; grind

theorem invLow_clear (N : Nat) (s : DStore) (h : InvLow N s) : InvLow N s.clear where
  kind := h.kind
  hN := h.hN
  nonneg := by intro j; simp [clear, at0_empty]
  countEq := by simp [clear]
  empty := by intro _; simp [clear]
  window := by intro hc; exact absurd rfl hc
  outside := by intro i _; simp [wt, clear, at0_empty]
  lenLe := by simp [clear]
  collapsed := by intro hc; simp [clear] at hc

theorem low_clear_spec (N : Nat) (s : DStore) (h : InvLow N s) :
    InvLow N s.clear ∧ s.clear.count = 0 ∧ (∀ j, wt s.clear j = 0) ∧ Tight32 s.clear :=
  ⟨invLow_clear N s h, rfl, by intro j; simp [wt, clear, at0_empty], fun hc => absurd rfl hc⟩

theorem InvLow.window_in {N : Nat} {s : DStore} (h : InvLow N s) :
    ∀ idx, s.minIndex ≤ idx → idx < s.minIndex + ((s.maxIndex - s.minIndex + 1).toNat : Int) →
      0 ≤ idx - s.offset ∧ idx - s.offset < s.bins.size := by
  intro idx h1 h2
  have h0 := h.nonempty_of_le (by omega)
  obtain ⟨w1, w2, w3⟩ := h.window h0
  unfold len at w3
  omega

theorem low_reweight_full (N : Nat) (s : DStore) (h : InvLow N s) (w : Rat) (hw : 0 < w) :
    ∃ s', s.reweight w = some s' ∧ InvLow N s' ∧ (∀ j, wt s' j = wt s j * w) ∧
      s'.count = s.count * w ∧ s'.minIndex = s.minIndex ∧ s'.maxIndex = s.maxIndex ∧
      s'.offset = s.offset ∧ s'.bins.size = s.bins.size := by
  obtain ⟨b', hb', hsz, hat⟩ := reweight_loop s.offset w _ s.minIndex s.bins h.window_in
  simp only [reweight, idxRange_eq, Option.bind_eq_bind, Option.pure_def]
  simp only [Option.bind_eq_bind] at hb'
  rw [hb']
  simp only [Option.bind_some]
  have hwt' : ∀ j, wt ({ s with bins := b', count := s.count * w } : DStore) j = wt s j * w := by
    intro j
    simp only [wt]
    rw [hat]
    by_cases hj : s.minIndex ≤ j ∧ j < s.minIndex + ((s.maxIndex - s.minIndex + 1).toNat : Int)
    · rw [if_pos hj]
    · rw [if_neg hj]
      have := h.outside j (by omega)
      simp only [wt] at this
      rw [this]; grind
  have hnn' : ∀ j, 0 ≤ wt ({ s with bins := b', count := s.count * w } : DStore) j := by
    intro j; rw [hwt']; exact Rat.mul_nonneg (h.wt_nonneg j) (Rat.le_of_lt hw)
  have hcz : s.count * w = 0 → s.count = 0 := by
    intro hz
    rcases Rat.mul_eq_zero.1 hz with h1 | h1
    · exact h1
    · grind
  refine ⟨_, rfl, ?_, hwt', rfl, rfl, rfl, rfl, hsz⟩
  refine
    { kind := h.kind
      hN := h.hN
      nonneg := nonneg_of_wt _ hnn'
      countEq := ?_
      empty := ?_
      window := ?_
      outside := ?_
      lenLe := by show b'.size ≤ N; rw [hsz]; exact h.lenLe
      collapsed := ?_ }
  · show s.count * w = b'.toList.sum
    rw [sum_mul_of_wt s.bins b' s.offset s.offset w hwt', h.countEq]
  · intro hz
    have := h.empty (hcz hz)
    exact ⟨by show b'.size = 0; rw [hsz]; exact this.1, this.2⟩
  · intro hnz
    have h0 : s.count ≠ 0 := by
      intro h0; apply hnz; show s.count * w = 0; rw [h0]; grind
    obtain ⟨w1, w2, w3⟩ := h.window h0
    exact ⟨w1, w2, by simp only [len, hsz]; exact w3⟩
  · intro j hj
    rw [hwt', h.outside j hj]; grind
  · intro hc
    have := h.collapsed hc
    show s.offset = s.minIndex ∧ b'.size = N ∧ s.maxIndex - s.minIndex + 1 = N
    rw [hsz]; exact this

theorem low_reweight_tight (N : Nat) (s : DStore) (h : InvLow N s) (ht : Tight32 s) (w : Rat)
    (hw : 0 < w) : ∀ s', s.reweight w = some s' → Tight32 s' := by
  intro s' hs'
  obtain ⟨s'', h1, _, h2, h3, h4, h5, _⟩ := low_reweight_full N s h w hw
  rw [h1] at hs'
  cases hs'
  intro hc
  have h0 : s.count ≠ 0 := by
    intro h0; apply hc; rw [h3, h0]; grind
  obtain ⟨p1, p2, b1, b2⟩ := ht h0
  rw [h2, h2, h4, h5]
  exact ⟨Rat.mul_pos p1 hw, Rat.mul_pos p2 hw, b1, b2⟩

end DStore

/-! ## a few more facts about the SPEC stratum -/

namespace Content

theorem sorted_of_pairwise (l : Content) (h : l.Pairwise (fun a b => a.1 < b.1)) : Sorted l := by
  induction l with
  | nil => trivial
  | cons p rest ih =>
    rw [List.pairwise_cons] at h
    exact (sorted_cons p rest).2 ⟨h.1, ih h.2⟩

theorem cumul_eq_wsum (m : Content) (e : Int) : cumul m e = wsum (fun i => decide (i ≤ e)) m := by
  rw [cumul_eq_sum]; rfl

theorem cumul_add (m : Content) (i : Int) (w : Rat) (e : Int) :
    cumul (m.add i w) e = cumul m e + if i ≤ e then w else 0 := by
  rw [cumul_eq_wsum, cumul_eq_wsum, wsum_add]
  simp only [decide_eq_true_eq]

theorem cumul_merge (a b : Content) (e : Int) : cumul (a.merge b) e = cumul a e + cumul b e := by
  rw [cumul_eq_wsum, cumul_eq_wsum, cumul_eq_wsum, wsum_merge]

theorem cumul_step (c : Content) (e : Int) : c.cumul e = c.cumul (e - 1) + c.lookup e := by
  induction c with
  | nil => simp only [cumul_nil, lookup_nil]; grind
  | cons p rest ih =>
    simp only [cumul_cons, lookup_cons, ih]
    by_cases h1 : p.1 ≤ e - 1
    · rw [if_pos h1, if_pos (by omega), if_neg (by omega)]; grind
    · rw [if_neg h1]
      by_cases h2 : p.1 = e
      · rw [if_pos (by omega), if_pos h2]; grind
      · rw [if_neg (by omega), if_neg h2]; grind

theorem cumul_eq_total_of_le (c : Content) (e : Int) (h : ∀ p ∈ c, p.1 ≤ e) : c.cumul e = c.total := by
  induction c with
  | nil => rfl
  | cons p rest ih =>
    simp only [cumul_cons, total_cons, if_pos (h p (List.mem_cons_self ..)),
      ih (fun q hq => h q (List.mem_cons_of_mem _ hq))]

theorem cumul_scale (m : Content) (w : Rat) (e : Int) : cumul (m.scale w) e = cumul m e * w := by
  induction m with
  | nil => simp
  | cons p rest ih =>
    simp only [scale_cons, cumul_cons, ih]
    split <;> grind

theorem maxIndex?_scale (m : Content) (w : Rat) : (m.scale w).maxIndex? = m.maxIndex? := by
  induction m with
  | nil => rfl
  | cons p rest ih =>
    cases rest with
    | nil => simp
    | cons q r =>
      simp only [scale_cons, maxIndex?_cons_cons] at ih ⊢
      exact ih

theorem wsum_congr (P Q : Int → Bool) (m : Content) (h : ∀ i, P i = Q i) : wsum P m = wsum Q m := by
  have : P = Q := funext h
  rw [this]

theorem wsum_false (m : Content) : wsum (fun _ => false) m = 0 := by
  induction m with
  | nil => rfl
  | cons p rest ih => simp only [wsum_cons, ih]; grind

/-- the pointwise description of `foldLow` -/
theorem lookup_foldLow (m : Content) (e j : Int) :
    (foldLow m e).lookup j = DStore.foldW m.lookup (m.cumul e) e j := by
  unfold foldLow DStore.foldW
  rw [lookup_eq_wsum, wsum_relabel]
  by_cases h1 : j < e
  · rw [if_pos h1, ← wsum_false m]
    apply wsum_congr
    intro i
    simp only [decide_eq_false_iff_not]
    split <;> omega
  · rw [if_neg h1]
    by_cases h2 : j = e
    · rw [if_pos h2, cumul_eq_wsum]
      apply wsum_congr
      intro i
      simp only [decide_eq_decide]
      split <;> omega
    · rw [if_neg h2, lookup_eq_wsum]
      apply wsum_congr
      intro i
      simp only [decide_eq_decide]
      split <;> omega

theorem maxIndex?_of_lookup (m : Content) (hm : WF m) (k : Int) (hpos : 0 < m.lookup k)
    (hub : ∀ j, k < j → m.lookup j = 0) : m.maxIndex? = some k := by
  apply maxIndex?_eq_of m hm.1 k ((lookup_pos_iff m hm k).1 hpos)
  intro p hp
  apply Classical.byContradiction
  intro hlt
  have h1 := lookup_pos_of_mem m hm p hp
  have h2 := hm.2 p hp
  have h3 := hub p.1 (by omega)
  grind

theorem minIndex?_of_lookup (m : Content) (hm : WF m) (k : Int) (hpos : 0 < m.lookup k)
    (hlb : ∀ j, j < k → m.lookup j = 0) : m.minIndex? = some k := by
  apply minIndex?_eq_of m hm.1 k ((lookup_pos_iff m hm k).1 hpos)
  intro p hp
  apply Classical.byContradiction
  intro hlt
  have h1 := lookup_pos_of_mem m hm p hp
  have h2 := hm.2 p hp
  have h3 := hlb p.1 (by omega)
  grind

theorem eq_nil_of_lookup_zero (m : Content) (hm : WF m) (h : ∀ j, m.lookup j = 0) : m = [] :=
  ext m [] hm wf_nil (fun j => by rw [h j]; rfl)

/-- a canonical content whose lookup is "`m` folded at `max − N + 1`" is `specLow N m` -/
theorem eq_specLow_of_fold (N : Nat) (c' m : Content) (hc' : WF c') (hm : WF m) (mx : Int)
    (hmx : m.maxIndex? = some mx)
    (h : ∀ j, c'.lookup j = DStore.foldW m.lookup (m.cumul (mx - N + 1)) (mx - N + 1) j) :
    c' = specLow N m :=
  ext c' (specLow N m) hc' (wf_specLow N m hm)
    (fun j => by rw [specLow_of_max N m mx hmx, lookup_foldLow, h])

theorem specLow_scale (N : Nat) (m : Content) (hm : WF m) (w : Rat) (hw : 0 < w) :
    specLow N (m.scale w) = (specLow N m).scale w := by
  cases hmax : m.maxIndex? with
  | none =>
    have : m = [] := maxIndex?_eq_none.1 hmax
    subst this; rfl
  | some mx =>
    apply ext _ _ (wf_specLow N _ (wf_scale m w hm hw)) (wf_scale _ w (wf_specLow N m hm) hw)
    intro j
    rw [specLow_of_max N (m.scale w) mx (by rw [maxIndex?_scale]; exact hmax),
      specLow_of_max N m mx hmax, lookup_scale, lookup_foldLow, lookup_foldLow, cumul_scale]
    unfold DStore.foldW
    split
    · grind
    · split
      · rfl
      · exact lookup_scale m w j

end Content

namespace DStore

/-! ## the canonical content of a store -/

/-- the content a caller observes through `Bins()`/`ForEach` -/
def content (s : DStore) : Content := (s.binsList).getD []

/-- `binsList` succeeds and returns the canonical content with `lookup = wt` (kind-independent) -/
theorem content_spec_gen (s : DStore) (hnn : ∀ j, 0 ≤ wt s j)
    (hout : ∀ i, (i < s.minIndex ∨ s.maxIndex < i) → wt s i = 0)
    (hin : ∀ idx, s.minIndex ≤ idx →
      idx < s.minIndex + ((s.maxIndex - s.minIndex + 1).toNat : Int) →
      0 ≤ idx - s.offset ∧ idx - s.offset < s.bins.size) :
    s.binsList = some (content s) ∧ Content.WF (content s) ∧
      ∀ j, (content s).lookup j = wt s j := by
  obtain ⟨l, hl, hmem, hpw⟩ := bins_loop s.bins s.offset _ s.minIndex hin
  have hb : s.binsList = some l := by unfold binsList; rw [idxRange_eq]; exact hl
  have hc : content s = l := by unfold content; rw [hb]; rfl
  rw [hc]
  have hsorted := Content.sorted_of_pairwise l hpw
  refine ⟨hb, ⟨hsorted, fun p hp => ((hmem p).1 hp).2.2.1⟩, ?_⟩
  intro j
  by_cases hj : 0 < wt s j
  · have hmemj : (j, wt s j) ∈ l := by
      rw [hmem]
      have : ¬ (j < s.minIndex ∨ s.maxIndex < j) := by
        intro hc; rw [hout j hc] at hj; exact absurd hj (by grind)
      exact ⟨by simp only; omega, by simp only; omega, hj, rfl⟩
    exact Content.lookup_of_mem_sorted l hsorted _ hmemj
  · have hz : wt s j = 0 := by have := hnn j; grind
    rw [hz]
    apply Content.lookup_eq_zero_of_not_mem
    intro p hp hpj
    obtain ⟨_, _, h3, h4⟩ := (hmem p).1 hp
    rw [hpj] at h4
    have : p.2 = wt s j := h4
    grind

theorem low_content_spec (N : Nat) (s : DStore) (h : InvLow N s) :
    s.binsList = some (content s) ∧ Content.WF (content s) ∧
      ∀ j, (content s).lookup j = wt s j :=
  content_spec_gen s h.wt_nonneg h.outside h.window_in

/-- the spec-level cumulative weight is the model-level one -/
theorem cumul_eq_cum (s : DStore) (c : Content) (hc : Content.WF c)
    (hl : ∀ j, c.lookup j = wt s j) (e : Int) : c.cumul e = cum s e := by
  have hbase : ∀ e, e < s.offset → c.cumul e = cum s e := by
    intro e he
    rw [cum_of_lt s e he]
    apply Content.cumul_eq_zero_of_lt
    intro p hp
    apply Classical.byContradiction
    intro hlt
    have h1 := Content.lookup_pos_of_mem c hc p hp
    have h2 := hc.2 p hp
    rw [hl] at h1
    unfold wt at h1
    rw [at0_neg _ _ (by omega)] at h1
    grind
  suffices H : ∀ (n : Nat) (e : Int), e - s.offset + 1 ≤ n → c.cumul e = cum s e from
    H (e - s.offset + 1).toNat e (by omega)
  intro n
  induction n with
  | zero => intro e he; exact hbase e (by omega)
  | succ n ih =>
    intro e he
    by_cases hlt : e < s.offset
    · exact hbase e hlt
    · rw [Content.cumul_step, cum_step s e (by omega), ih (e - 1) (by omega), hl]

/-- bridge: a store whose weights are "`m` folded at `maxIndex − N + 1`" has content `specLow N m` -/
theorem low_content_eq_specLow (N : Nat) (s' : DStore) (h' : InvLow N s') (m : Content)
    (hm : Content.WF m) (hmx : m.maxIndex? = some s'.maxIndex)
    (hw : ∀ j, wt s' j = foldW m.lookup (m.cumul (s'.maxIndex - N + 1)) (s'.maxIndex - N + 1) j) :
    content s' = Content.specLow N m := by
  obtain ⟨_, hwf, hlk⟩ := low_content_spec N s' h'
  exact Content.eq_specLow_of_fold N (content s') m hwf hm s'.maxIndex hmx
    (fun j => by rw [hlk, hw])

theorem low_content_empty (N : Nat) (s : DStore) (h : InvLow N s) (h0 : s.count = 0) :
    content s = [] := by
  obtain ⟨_, hwf, hlk⟩ := low_content_spec N s h
  exact Content.eq_nil_of_lookup_zero _ hwf (fun j => by rw [hlk, h.wt_zero_of_empty h0])

theorem low_content_max (N : Nat) (s : DStore) (h : InvLow N s) (ht : Tight32 s) (h0 : s.count ≠ 0) :
    (content s).maxIndex? = some s.maxIndex ∧ (content s).minIndex? = some s.minIndex := by
  obtain ⟨_, hwf, hlk⟩ := low_content_spec N s h
  obtain ⟨p1, p2, _, _⟩ := ht h0
  exact ⟨Content.maxIndex?_of_lookup _ hwf _ (by rw [hlk]; exact p2)
      (fun j hj => by rw [hlk]; exact h.outside j (Or.inr hj)),
    Content.minIndex?_of_lookup _ hwf _ (by rw [hlk]; exact p1)
      (fun j hj => by rw [hlk]; exact h.outside j (Or.inl hj))⟩

/-- a store satisfying the invariant is a fixed point of the clamping -/
theorem low_content_fixed (N : Nat) (s : DStore) (h : InvLow N s) (ht : Tight32 s) :
    Content.specLow N (content s) = content s := by
  by_cases h0 : s.count = 0
  · rw [low_content_empty N s h h0]; rfl
  · obtain ⟨_, hwf, hlk⟩ := low_content_spec N s h
    have hsp := h.span_le h0
    refine (low_content_eq_specLow N s h (content s) hwf (low_content_max N s h ht h0).1 ?_).symm
    intro j
    rw [h.self_fold s.maxIndex (fun _ => by omega) j, cumul_eq_cum s _ hwf hlk]
    unfold foldW
    rw [hlk]

/-! ## the main theorems at the level of contents (int32 indexes) -/

/-- every add is safe and is "exact add, then fold at `max − N + 1`" -/
theorem low_addWithCount_ok (hG : GrowthOK) (N : Nat) (s : DStore) (h : InvLow N s)
    (ht : Tight32 s) (i : Int) (w : Rat) (hw : 0 ≤ w) (hi : minInt32 ≤ i ∧ i ≤ maxInt32) :
    ∃ s', s.addWithCount i w = some s' ∧ InvLow N s' ∧ Tight32 s' ∧ s'.count = s.count + w ∧
      content s' = Content.specLow N ((content s).add i w) := by
  obtain ⟨s', h1, hinv, hcnt, hrest⟩ := low_addWithCount_full hG N s h i w hw
    (h.spanOK ht i i hi hi)
  have ht' := low_addWithCount_tight hG N s h ht i w hw hi s' h1
  refine ⟨s', h1, hinv, ht', hcnt, ?_⟩
  by_cases hw0 : w = 0
  · have : s.addWithCount i w = some s := by unfold addWithCount; rw [if_pos hw0]
    rw [this] at h1; cases h1
    rw [hw0, Content.add_zero_weight, low_content_fixed N s h ht]
  · obtain ⟨hma, hmi, hwt⟩ := hrest hw0
    obtain ⟨_, hwf, hlk⟩ := low_content_spec N s h
    have hc' : s'.count ≠ 0 := by rw [hcnt]; have := h.count_nonneg; grind
    obtain ⟨_, hwf', hlk'⟩ := low_content_spec N s' hinv
    have hm := Content.wf_add (content s) i w hwf hw
    have hlm : ∀ k, ((content s).add i w).lookup k = wt s k + if k = i then w else 0 := by
      intro k; rw [Content.lookup_add, hlk]
    apply low_content_eq_specLow N s' hinv _ hm
    · -- the spec maximum is the model maximum
      have hmx' := (low_content_max N s' hinv ht' hc').1
      obtain ⟨_, p2, _, _⟩ := ht' hc'
      apply Content.maxIndex?_of_lookup _ hm
      · rw [hlm, hma]
        have hnn := h.wt_nonneg (max i s.maxIndex)
        by_cases him : max i s.maxIndex = i
        · rw [if_pos him]; grind
        · rw [if_neg him]
          have h0 : s.count ≠ 0 := by
            intro h0
            have e2 := (h.empty h0).2.2.1
            have hi1 := hi.1
            simp only [minInt32] at e2 hi1; omega
          have := (ht h0).2.1
          rw [show max i s.maxIndex = s.maxIndex by omega]; grind
      · intro j hj
        rw [hlm, h.outside j (by omega), if_neg (by omega)]; grind
    · intro j
      rw [hma, hwt]
      unfold addFold
      have hf : (fun k => wt s k + if k = i then w else 0) = ((content s).add i w).lookup :=
        funext (fun k => (hlm k).symm)
      rw [hf, Content.cumul_add, cumul_eq_cum s _ hwf hlk]

/-- EVERY same-kind merge is safe (any two limits, widths, emptiness) and is
    "exact merge, then fold at `max − N + 1`" -/
theorem low_mergeSame_ok (hG : GrowthOK) (N M : Nat) (s o : DStore) (hs : InvLow N s)
    (ho : InvLow M o) (ts : Tight32 s) (to : Tight32 o) :
    ∃ s', s.mergeSame o = some s' ∧ InvLow N s' ∧ Tight32 s' ∧ s'.count = s.count + o.count ∧
      content s' = Content.specLow N ((content s).merge (content o)) := by
  obtain ⟨s', h1, hinv, hcnt, hrest⟩ := low_mergeSame_full hG N M s o hs ho
    (hs.spanOK ts _ _ (ho.window32 to).1 (ho.window32 to).2)
  have ht' := low_mergeSame_tight hG N M s o hs ho ts to s' h1
  refine ⟨s', h1, hinv, ht', hcnt, ?_⟩
  obtain ⟨_, hwfs, hlks⟩ := low_content_spec N s hs
  obtain ⟨_, hwfo, hlko⟩ := low_content_spec M o ho
  by_cases h0 : o.count = 0
  · have : s.mergeSame o = some s := by
      unfold mergeSame; rw [if_pos ((isEmpty_iff_count o).2 h0)]
    rw [this] at h1; cases h1
    rw [low_content_empty M o ho h0, Content.merge_nil_right, low_content_fixed N s hs ts]
  · obtain ⟨hma, hmi, hwt⟩ := hrest h0
    have hc' : s'.count ≠ 0 := by
      rw [hcnt]; have := hs.count_nonneg; have := ho.count_nonneg; grind
    have hm := Content.wf_merge _ _ hwfs hwfo
    have hlm : ∀ k, ((content s).merge (content o)).lookup k = wt s k + wt o k := by
      intro k; rw [Content.lookup_merge, hlks, hlko]
    have hN := hs.hN
    apply low_content_eq_specLow N s' hinv _ hm
    · obtain ⟨_, p2, _, _⟩ := ht' hc'
      apply Content.maxIndex?_of_lookup _ hm
      · rw [hlm, hma]
        have c1 := hs.wt_nonneg (max o.maxIndex s.maxIndex)
        have c2 := ho.wt_nonneg (max o.maxIndex s.maxIndex)
        by_cases hle : s.maxIndex ≤ o.maxIndex
        · have := (to h0).2.1
          rw [show max o.maxIndex s.maxIndex = o.maxIndex by omega] at c1 c2 ⊢; grind
        · have hs0 : s.count ≠ 0 := by
            intro hs0
            have e2 := (hs.empty hs0).2.2.1
            have ole := (ho.window h0).2.1
            have ob := (to h0).2.2.1
            simp only [minInt32] at e2 ob; omega
          have := (ts hs0).2.1
          rw [show max o.maxIndex s.maxIndex = s.maxIndex by omega] at c1 c2 ⊢; grind
      · intro j hj
        rw [hlm, hs.outside j (by omega), ho.outside j (by omega)]; grind
    · intro j
      rw [hma, hwt]
      have hf : (fun k => wt s k + wt o k) = ((content s).merge (content o)).lookup :=
        funext (fun k => (hlm k).symm)
      rw [hf, Content.cumul_merge, cumul_eq_cum s _ hwfs hlks, cumul_eq_cum o _ hwfo hlko]

theorem wf_ofList (l : List (Int × Rat)) (hl : ∀ p ∈ l, 0 ≤ p.2) : Content.WF (Content.ofList l) :=
  Content.wf_merge_of_nonneg [] l Content.wf_nil hl

theorem lookup_ofList (l : List (Int × Rat)) (j : Int) :
    (Content.ofList l).lookup j = Content.lookup l j := by
  have : Content.ofList l = Content.merge [] l := rfl
  rw [this, Content.lookup_merge, Content.lookup_nil]; grind

theorem low_mergeBins_ok (hG : GrowthOK) (N : Nat) (s : DStore) (h : InvLow N s) (ht : Tight32 s)
    (l : List (Int × Rat)) (hl : ∀ p ∈ l, 0 ≤ p.2)
    (hl32 : ∀ p ∈ l, minInt32 ≤ p.1 ∧ p.1 ≤ maxInt32) :
    ∃ s', s.mergeBins l = some s' ∧ InvLow N s' ∧ Tight32 s' ∧
      s'.count = s.count + (l.map (·.2)).sum ∧
      content s' = Content.specLow N ((content s).merge (Content.ofList l)) := by
  unfold mergeBins
  induction l generalizing s with
  | nil =>
    refine ⟨s, rfl, h, ht, by simp; grind, ?_⟩
    show _ = Content.specLow N ((content s).merge [])
    rw [Content.merge_nil_right, low_content_fixed N s h ht]
  | cons p l ih =>
    obtain ⟨s1, h1, hi1, ht1, hc1, hct1⟩ :=
      low_addWithCount_ok hG N s h ht p.1 p.2 (hl p (by simp)) (hl32 p (by simp))
    obtain ⟨s2, h2, hi2, ht2, hc2, hct2⟩ := ih s1 hi1 ht1 (fun q hq => hl q (by simp [hq]))
      (fun q hq => hl32 q (by simp [hq]))
    refine ⟨s2, ?_, hi2, ht2, ?_, ?_⟩
    · rw [List.foldlM_cons, h1]; exact h2
    · rw [hc2, hc1, List.map_cons, List.sum_cons]; grind
    · obtain ⟨_, hwf, _⟩ := low_content_spec N s h
      have hwl := wf_ofList l (fun q hq => hl q (by simp [hq]))
      have hwpl := wf_ofList (p :: l) hl
      have hwa := Content.wf_add (content s) p.1 p.2 hwf (hl p (by simp))
      rw [hct2, hct1, Content.specLow_merge_specLow N h.hN _ _ hwa hwl]
      congr 1
      apply Content.ext _ _ (Content.wf_merge _ _ hwa hwl) (Content.wf_merge _ _ hwf hwpl)
      intro j
      rw [Content.lookup_merge, Content.lookup_merge, Content.lookup_add, lookup_ofList,
        lookup_ofList, Content.lookup_cons]
      by_cases hj : j = p.1
      · rw [if_pos hj, if_pos hj.symm]; grind
      · rw [if_neg hj, if_neg (fun hh => hj hh.symm)]; grind

theorem low_clear_ok (N : Nat) (s : DStore) (h : InvLow N s) :
    InvLow N s.clear ∧ Tight32 s.clear ∧ s.clear.count = 0 ∧ content s.clear = [] :=
  ⟨invLow_clear N s h, fun hc => absurd rfl hc, rfl,
    low_content_empty N s.clear (invLow_clear N s h) rfl⟩

theorem low_reweight_ok (N : Nat) (s : DStore) (h : InvLow N s) (ht : Tight32 s) (w : Rat)
    (hw : 0 < w) :
    ∃ s', s.reweight w = some s' ∧ InvLow N s' ∧ Tight32 s' ∧ s'.count = s.count * w ∧
      content s' = (content s).scale w := by
  obtain ⟨s', h1, hinv, hwt, hcnt, _⟩ := low_reweight_full N s h w hw
  refine ⟨s', h1, hinv, low_reweight_tight N s h ht w hw s' h1, hcnt, ?_⟩
  obtain ⟨_, hwf, hlk⟩ := low_content_spec N s h
  obtain ⟨_, hwf', hlk'⟩ := low_content_spec N s' hinv
  apply Content.ext _ _ hwf' (Content.wf_scale _ w hwf hw)
  intro j
  rw [hlk', hwt, Content.lookup_scale, hlk]

/-! ## boundedness and conservation -/

theorem low_bounded (N : Nat) (s : DStore) (h : InvLow N s) :
    s.bins.size ≤ N ∧ (content s).length ≤ N ∧ (s.count ≠ 0 → s.maxIndex - s.minIndex + 1 ≤ N) := by
  refine ⟨h.lenLe, ?_, h.span_le⟩
  by_cases h0 : s.count = 0
  · rw [low_content_empty N s h h0]; simp
  · obtain ⟨_, hwf, hlk⟩ := low_content_spec N s h
    have hsp := h.span_le h0
    apply Content.length_le_of_sorted_range _ hwf.1 s.minIndex N
    intro p hp
    have h1 := Content.lookup_pos_of_mem _ hwf p hp
    have h2 := hwf.2 p hp
    rw [hlk] at h1
    have : ¬ (p.1 < s.minIndex ∨ s.maxIndex < p.1) := by
      intro hc; rw [h.outside _ hc] at h1; grind
    omega

theorem low_total (N : Nat) (s : DStore) (h : InvLow N s) : s.totalCount = (content s).total := by
  obtain ⟨_, hwf, hlk⟩ := low_content_spec N s h
  show s.count = _
  rw [h.countEq, ← cum_eq_total s s.maxIndex (fun j hj => h.outside j (Or.inr hj)) s.maxIndex
    (Int.le_refl _), ← cumul_eq_cum s _ hwf hlk]
  apply Content.cumul_eq_total_of_le
  intro p hp
  have h1 := Content.lookup_pos_of_mem _ hwf p hp
  have h2 := hwf.2 p hp
  rw [hlk] at h1
  apply Classical.byContradiction
  intro hc
  rw [h.outside _ (Or.inr (by omega))] at h1
  grind

/-! ## observers -/

theorem low_binsList_spec (N : Nat) (s : DStore) (h : InvLow N s) :
    s.binsList = some (content s) ∧ Content.WF (content s) ∧
      ∀ j, (content s).lookup j = wt s j := low_content_spec N s h

theorem low_isEmpty (N : Nat) (s : DStore) (h : InvLow N s) :
    s.isEmpty = (content s).isEmpty := by
  obtain ⟨_, hwf, _⟩ := low_content_spec N s h
  have ht := low_total N s h
  have h1 := isEmpty_iff_count s
  have h2 := Content.isEmpty_iff_total_zero (content s) hwf
  have : s.totalCount = s.count := rfl
  rw [Bool.eq_iff_iff, h1, h2, ← ht, this]

theorem low_minIndex? (N : Nat) (s : DStore) (h : InvLow N s) (ht : Tight32 s) :
    s.minIndex? = (content s).minIndex? := by
  unfold minIndex?
  by_cases h0 : s.count = 0
  · rw [if_pos ((isEmpty_iff_count s).2 h0), low_content_empty N s h h0]; rfl
  · rw [if_neg (fun he => h0 ((isEmpty_iff_count s).1 he)), (low_content_max N s h ht h0).2]

theorem low_maxIndex? (N : Nat) (s : DStore) (h : InvLow N s) (ht : Tight32 s) :
    s.maxIndex? = (content s).maxIndex? := by
  unfold maxIndex?
  by_cases h0 : s.count = 0
  · rw [if_pos ((isEmpty_iff_count s).2 h0), low_content_empty N s h h0]; rfl
  · rw [if_neg (fun he => h0 ((isEmpty_iff_count s).1 he)), (low_content_max N s h ht h0).1]

/-- rank lookup (same statement as for the plain store): the first index whose cumulative
    weight exceeds `max r 0`, else `maxIndex` -/
theorem low_keyAtRank_spec (N : Nat) (s : DStore) (h : InvLow N s) (r : Rat) :
    let k := s.keyAtRank r
    let r' := if r < 0 then 0 else r
    (r' < cum s k ∧ ∀ j, j < k → cum s j ≤ r') ∨ (s.count ≤ r' ∧ k = s.maxIndex) := by
  intro k r'
  have hr' : (0 : Rat) ≤ r' := by
    show (0 : Rat) ≤ if r < 0 then 0 else r
    split <;> grind
  have hf : ∀ m : Nat, m < s.bins.toList.length → at0 s.bins (0 + m) = s.bins.toList[m]?.getD 0 := by
    intro m _
    rw [Int.zero_add, at0_nat]; simp
  rcases keyAtRank_go_spec s r' (at0 s.bins) s.bins.toList 0 0 hf hr' with
    ⟨m, hm, hgo, hlt, hall⟩ | ⟨hle, hgo⟩
  · left
    have hk : k = m + s.offset := by
      show s.keyAtRank r = _
      unfold keyAtRank
      rw [hgo]; omega
    rw [hk, cum_at]
    refine ⟨by grind, ?_⟩
    intro j hj
    by_cases hjo : j < s.offset
    · rw [cum_of_lt s j hjo]; exact hr'
    · obtain ⟨m', hm'⟩ : ∃ m' : Nat, j = m' + s.offset := ⟨(j - s.offset).toNat, by omega⟩
      rw [hm', cum_at]
      have := hall (m' + 1) (by omega)
      grind
  · right
    refine ⟨?_, by show s.keyAtRank r = _; unfold keyAtRank; exact hgo⟩
    rw [h.countEq, sum_eq_rsum s.bins 0]
    simp only [Array.length_toList] at hle
    have : rsum (fun j => at0 s.bins (j - 0)) 0 s.bins.size = rsum (at0 s.bins) 0 s.bins.size :=
      rsum_congr _ _ (fun j _ _ => by simp)
    rw [this]; grind

/-! ## every reachable state -/

/-- admissible operations: non-negative weights on int32 indexes (int32 is needed for safety
    itself, `DStore.GrowthOK` only covers spans below `2^33`, and for the exact clamping
    relation, `low_below_int32_discrepancy`) -/
def Op.ok32 : Op → Prop
  | .add i w => 0 ≤ w ∧ minInt32 ≤ i ∧ i ≤ maxInt32
  | _ => True

theorem low_applyOp_ok (hG : GrowthOK) (N : Nat) (s : DStore) (h : InvLow N s) (ht : Tight32 s)
    (op : Op) (hop : op.ok32) :
    ∃ s', applyOp s op = some s' ∧ InvLow N s' ∧ Tight32 s' := by
  cases op with
  | add i w =>
    obtain ⟨s', h1, h2, _⟩ := low_addWithCount_full hG N s h i w hop.1 (h.spanOK ht i i hop.2 hop.2)
    exact ⟨s', h1, h2, low_addWithCount_tight hG N s h ht i w hop.1 hop.2 s' h1⟩
  | clear => exact ⟨s.clear, rfl, invLow_clear N s h, fun hc => absurd rfl hc⟩
  | reweight w =>
    simp only [applyOp]
    by_cases hc : w ≤ 0 ∨ w = 1
    · rw [if_pos hc]; exact ⟨s, rfl, h, ht⟩
    · rw [if_neg hc]
      have hw : 0 < w := by grind
      obtain ⟨s', h1, h2, _⟩ := low_reweight_full N s h w hw
      exact ⟨s', h1, h2, low_reweight_tight N s h ht w hw s' h1⟩

theorem low_run_from (hG : GrowthOK) (N : Nat) (ops : List Op) (s : DStore) (h : InvLow N s)
    (ht : Tight32 s) (hops : ∀ op ∈ ops, op.ok32) :
    ∃ s', ops.foldlM applyOp s = some s' ∧ InvLow N s' ∧ Tight32 s' := by
  induction ops generalizing s with
  | nil => exact ⟨s, rfl, h, ht⟩
  | cons op ops ih =>
    obtain ⟨s1, h1, hi1, ht1⟩ := low_applyOp_ok hG N s h ht op (hops op (by simp))
    obtain ⟨s2, h2, hi2, ht2⟩ := ih s1 hi1 ht1 (fun q hq => hops q (by simp [hq]))
    exact ⟨s2, by rw [List.foldlM_cons, h1]; exact h2, hi2, ht2⟩

/-- no history (int32 indexes, non-negative weights) panics or breaks the invariant -/
theorem low_run_ok (hG : GrowthOK) (N : Nat) (hN : 1 ≤ N) (ops : List Op)
    (hops : ∀ op ∈ ops, op.ok32) :
    ∃ s, ops.foldlM applyOp (DStore.new (.low N)) = some s ∧ InvLow N s := by
  obtain ⟨s, h1, h2, _⟩ := low_run_from hG N ops _ (invLow_new N hN) (tight32_new _) hops
  exact ⟨s, h1, h2⟩

/-! ## histories: "fold at every step" = "fold once" -/

/-- the exact (unbounded) effect of an operation on a content -/
def specStep (c : Content) : Op → Content
  | .add i w => c.add i w
  | .clear => []
  | .reweight w => if w ≤ 0 ∨ w = 1 then c else c.scale w

/-- the exact content of a history: what an unbounded store would hold -/
def exactContent (ops : List Op) : Content := ops.foldl specStep []

theorem wf_specStep (c : Content) (hc : Content.WF c) (op : Op) (hop : op.ok32) :
    Content.WF (specStep c op) := by
  cases op with
  | add i w => exact Content.wf_add c i w hc hop.1
  | clear => exact Content.wf_nil
  | reweight w =>
    simp only [specStep]
    by_cases hw : w ≤ 0 ∨ w = 1
    · rw [if_pos hw]; exact hc
    · rw [if_neg hw]; exact Content.wf_scale c w hc (by grind)

theorem wf_exact_from (ops : List Op) (E : Content) (hE : Content.WF E) (hops : ∀ op ∈ ops, op.ok32) :
    Content.WF (ops.foldl specStep E) := by
  induction ops generalizing E with
  | nil => exact hE
  | cons op ops ih =>
    exact ih _ (wf_specStep E hE op (hops op (by simp))) (fun q hq => hops q (by simp [hq]))

theorem wf_exactContent (ops : List Op) (hops : ∀ op ∈ ops, op.ok32) :
    Content.WF (exactContent ops) := wf_exact_from ops [] Content.wf_nil hops

theorem specLow_add_specLow (N : Nat) (hN : 1 ≤ N) (E : Content) (hE : Content.WF E) (i : Int)
    (w : Rat) (hw : 0 ≤ w) :
    Content.specLow N ((Content.specLow N E).add i w) = Content.specLow N (E.add i w) := by
  by_cases hw0 : w = 0
  · rw [hw0, Content.add_zero_weight, Content.add_zero_weight, Content.specLow_idem N hN E hE]
  · have hwf : Content.WF [(i, w)] := by
      rw [Content.wf_cons]
      exact ⟨by show 0 < w; grind, by simp, Content.wf_nil⟩
    rw [Content.add_eq_merge_singleton, Content.add_eq_merge_singleton,
      Content.specLow_merge_specLow N hN E _ hE hwf]

theorem low_step_ok32 (hG : GrowthOK) (N : Nat) (s : DStore) (h : InvLow N s) (ht : Tight32 s)
    (E : Content) (hE : Content.WF E) (hcs : content s = Content.specLow N E) (op : Op)
    (hop : op.ok32) :
    ∃ s', applyOp s op = some s' ∧ InvLow N s' ∧ Tight32 s' ∧
      content s' = Content.specLow N (specStep E op) := by
  cases op with
  | add i w =>
    obtain ⟨s', h1, h2, h3, _, h5⟩ := low_addWithCount_ok hG N s h ht i w hop.1 hop.2
    refine ⟨s', h1, h2, h3, ?_⟩
    rw [h5, hcs]
    exact specLow_add_specLow N h.hN E hE i w hop.1
  | clear =>
    obtain ⟨h2, h3, _, h5⟩ := low_clear_ok N s h
    exact ⟨s.clear, rfl, h2, h3, by rw [h5]; rfl⟩
  | reweight w =>
    simp only [applyOp, specStep]
    by_cases hc : w ≤ 0 ∨ w = 1
    · rw [if_pos hc, if_pos hc]; exact ⟨s, rfl, h, ht, hcs⟩
    · rw [if_neg hc, if_neg hc]
      have hw : 0 < w := by grind
      obtain ⟨s', h1, h2, h3, _, h5⟩ := low_reweight_ok N s h ht w hw
      refine ⟨s', h1, h2, h3, ?_⟩
      rw [h5, hcs, Content.specLow_scale N E hE w hw]

theorem low_history_from (hG : GrowthOK) (N : Nat) (ops : List Op) (s : DStore) (h : InvLow N s)
    (ht : Tight32 s) (E : Content) (hE : Content.WF E) (hcs : content s = Content.specLow N E)
    (hops : ∀ op ∈ ops, op.ok32) :
    ∃ s', ops.foldlM applyOp s = some s' ∧ InvLow N s' ∧ Tight32 s' ∧
      content s' = Content.specLow N (ops.foldl specStep E) := by
  induction ops generalizing s E with
  | nil => exact ⟨s, rfl, h, ht, hcs⟩
  | cons op ops ih =>
    have hop := hops op (by simp)
    obtain ⟨s1, h1, hi1, ht1, hc1⟩ := low_step_ok32 hG N s h ht E hE hcs op hop
    obtain ⟨s2, h2, hi2, ht2, hc2⟩ := ih s1 hi1 ht1 (specStep E op) (wf_specStep E hE op hop) hc1
      (fun q hq => hops q (by simp [hq]))
    exact ⟨s2, by rw [List.foldlM_cons, h1]; exact h2, hi2, ht2, hc2⟩

/-- after ANY history (int32 indexes, non-negative weights) the store does not panic, keeps its
    invariant, and its content is the exact content folded ONCE at `max − N + 1` -/
theorem low_history (hG : GrowthOK) (N : Nat) (hN : 1 ≤ N) (ops : List Op)
    (hops : ∀ op ∈ ops, op.ok32) :
    ∃ s, ops.foldlM applyOp (DStore.new (.low N)) = some s ∧ InvLow N s ∧ Tight32 s ∧
      content s = Content.specLow N (exactContent ops) :=
  low_history_from hG N ops _ (invLow_new N hN) (tight32_new _) [] Content.wf_nil
    (by rw [low_content_empty N _ (invLow_new N hN) rfl]; rfl) hops

/-! ## discrepancy for indexes below the int32 range

`NewCollapsingLowestDenseStore(N)` starts from the sentinel `maxIndex = MinInt32`.  Adding an
index `i < MinInt32` to an empty store leaves `maxIndex = MinInt32` (a bin that holds nothing),
so the store folds at `MinInt32 − N + 1` instead of `i − N + 1`: with `N = 3`, the weight added at
`MinInt32 − 5` is stored at `MinInt32 − 2`, whereas `specLow 3` keeps it at `MinInt32 − 5`.
The general relation `low_addWithCount_full` (fold at `s'.maxIndex − N + 1`) still holds; the
`specLow` relation needs `MinInt32 ≤ i` (`low_addWithCount_ok`). -/
theorem low_below_int32_discrepancy (hG : GrowthOK) :
    ∃ s', (DStore.new (.low 3)).addWithCount (minInt32 - 5) 1 = some s' ∧
      s'.maxIndex = minInt32 ∧ wt s' (minInt32 - 5) = 0 ∧ wt s' (minInt32 - 2) = 1 ∧
      (Content.specLow 3 ((content (DStore.new (.low 3))).add (minInt32 - 5) 1)).lookup
        (minInt32 - 5) = 1 := by
  obtain ⟨s', h1, _, _, h4⟩ := low_addWithCount_full hG 3 (DStore.new (.low 3))
    (invLow_new 3 (by omega)) (minInt32 - 5) 1 (by decide) (by unfold SpanOK; decide)
  obtain ⟨hma, _, hwt⟩ := h4 (by decide)
  have hw0 : ∀ j, wt (DStore.new (.low 3)) j = 0 := fun j => by simp [wt, DStore.new, at0_empty]
  have hc0 : ∀ e, cum (DStore.new (.low 3)) e = 0 := fun e => rsum_zero _ _ (fun j _ _ => hw0 j)
  have hmax : max (minInt32 - 5) (DStore.new (.low 3)).maxIndex = minInt32 := by
    simp only [DStore.new, minInt32]; omega
  rw [hmax] at hma hwt
  refine ⟨s', h1, hma, ?_, ?_, ?_⟩
  · rw [hwt]; unfold addFold foldW
    rw [if_pos (by simp only [minInt32]; omega)]
  · rw [hwt]; unfold addFold foldW
    rw [if_neg (by simp only [minInt32]; omega), if_pos (by simp only [minInt32]; omega), hc0,
      if_pos (by simp only [minInt32]; omega)]
    grind
  · have hc : content (DStore.new (.low 3)) = [] :=
      low_content_empty 3 _ (invLow_new 3 (by omega)) rfl
    rw [hc]
    have : Content.add [] (minInt32 - 5) 1 = [(minInt32 - 5, 1)] := by
      rw [Content.add_nil, if_neg (by decide)]
    rw [this, Content.specLow_of_max 3 _ (minInt32 - 5) (by simp), Content.lookup_foldLow]
    unfold foldW
    rw [if_neg (by simp only [minInt32]; omega), if_neg (by simp only [minInt32]; omega)]
    simp only [Content.lookup_cons, Content.lookup_nil]
    grind

/-! # the highest-collapsing store (`kind = .high N`)

Everything is the mirror image of the lowest-collapsing store: overflow is folded into the bin
`e = min + N − 1`.  The mass above an index is `cumH s e = Σ_{k ≥ e} wt s k`, defined as the
complement of `cum`. -/

/-- `Σ_{k ≥ e} wt s k` -/
def cumH (s : DStore) (e : Int) : Rat := s.bins.toList.sum - cum s (e - 1)

/-- the weight function after folding everything above `e` into `e`; `c` is the folded mass -/
def foldWH (f : Int → Rat) (c : Rat) (e : Int) (j : Int) : Rat :=
  if e < j then 0 else if j = e then c else f j

theorem cumH_step (s : DStore) (e : Int) : cumH s e = cumH s (e + 1) + wt s e := by
  unfold cumH
  rw [show e + 1 - 1 = e by omega, cum_step' s e]
  grind

theorem cumH_zero_of_gt (s : DStore) (M : Int) (hz : ∀ j, M < j → wt s j = 0) (e : Int) (he : M < e) :
    cumH s e = 0 := by
  unfold cumH
  rw [cum_eq_total s M hz (e - 1) (by omega)]
  grind

theorem cumH_eq_wt_of_ge (s : DStore) (M : Int) (hz : ∀ j, M < j → wt s j = 0) (e : Int) (he : M ≤ e) :
    cumH s e = wt s e := by
  rw [cumH_step, cumH_zero_of_gt s M hz (e + 1) (by omega)]; grind

theorem cumH_eq_total (s : DStore) (m : Int) (hz : ∀ j, j < m → wt s j = 0) (e : Int) (he : e ≤ m) :
    cumH s e = s.bins.toList.sum := by
  unfold cumH
  rw [cum_zero_of_lt s m hz (e - 1) (by omega)]
  grind

theorem cumH_congr (s t : DStore) (h : ∀ j, wt t j = wt s j) (e : Int) : cumH t e = cumH s e := by
  unfold cumH
  rw [cum_congr s t h, sum_eq_of_wt s.bins t.bins s.offset t.offset h]

theorem cum_le_total (s : DStore) (hnn : ∀ j, 0 ≤ wt s j) (e : Int) : cum s e ≤ s.bins.toList.sum := by
  have h1 := cum_mono s hnn e (max e (s.offset + s.bins.size)) (by omega)
  rw [cum_eq_total s (s.offset + s.bins.size) (fun j hj => at0_ge _ _ (by omega))
    (max e (s.offset + s.bins.size)) (by omega)] at h1
  exact h1

theorem cumH_nonneg (s : DStore) (hnn : ∀ j, 0 ≤ wt s j) (e : Int) : 0 ≤ cumH s e := by
  unfold cumH
  have := cum_le_total s hnn (e - 1)
  grind

theorem cumH_anti (s : DStore) (hnn : ∀ j, 0 ≤ wt s j) (m e : Int) (hme : m ≤ e) :
    cumH s e ≤ cumH s m := by
  unfold cumH
  have := cum_mono s hnn (m - 1) (e - 1) (by omega)
  grind

theorem cumH_ge_wt (s : DStore) (hnn : ∀ j, 0 ≤ wt s j) (e : Int) : wt s e ≤ cumH s e := by
  rw [cumH_step]
  have := cumH_nonneg s hnn (e + 1)
  grind

/-- `cumH` as a sum over a window ending at any index above which there is no weight -/
theorem cumH_eq_to (s : DStore) (M : Int) (hz : ∀ j, M < j → wt s j = 0) (e : Int) (he : e ≤ M) :
    cumH s e = rsum (wt s) e (M - e + 1).toNat := by
  unfold cumH
  rw [← cum_eq_total s M hz M (Int.le_refl _)]
  rw [cum_eq s M (min s.offset e) (by omega), cum_eq s (e - 1) (min s.offset e) (by omega)]
  rw [show (M - min s.offset e + 1).toNat = (e - 1 - min s.offset e + 1).toNat + (M - e + 1).toNat by omega,
    rsum_append]
  rw [show min s.offset e + ((e - 1 - min s.offset e + 1).toNat : Int) = e by omega]
  grind

/-- folding does not change the total (window form) -/
theorem rsum_foldWH (s : DStore) (e lo : Int) (n : Nat) (hlo1 : lo ≤ s.offset) (hlo3 : lo ≤ e)
    (hhi1 : s.offset + s.bins.size ≤ lo + n) (hhi3 : e + 1 ≤ lo + n) :
    rsum (foldWH (wt s) (cumH s e) e) lo n = s.bins.toList.sum := by
  obtain ⟨n1, hn1⟩ : ∃ n1 : Nat, e = lo + n1 := ⟨(e - lo).toNat, by omega⟩
  obtain ⟨n2, hn2⟩ : ∃ n2 : Nat, n = n1 + 1 + n2 := ⟨n - n1 - 1, by omega⟩
  subst hn2
  rw [rsum_append, rsum_append]
  simp only [rsum]
  rw [rsum_zero (lo + ((n1 + 1 : Nat) : Int)) n2
    (fun j h1 h2 => by unfold foldWH; rw [if_pos (by omega)])]
  rw [rsum_congr (g := wt s) lo n1 (fun j h1 h2 => by
    unfold foldWH; rw [if_neg (by omega), if_neg (by omega)])]
  have hce := cum_eq s (e - 1) lo hlo1
  rw [show (e - 1 - lo + 1).toNat = n1 by omega] at hce
  rw [← hce, ← hn1]
  unfold foldWH cumH
  simp only [Int.natCast_zero, Int.add_zero, Int.lt_irrefl, if_false, if_true]
  grind

theorem sum_foldWH (s : DStore) (b : Array Rat) (ob e : Int)
    (h : ∀ j, at0 b (j - ob) = foldWH (wt s) (cumH s e) e j) : b.toList.sum = s.bins.toList.sum := by
  let lo := min (min s.offset ob) e
  let n := (max (max (s.offset + s.bins.size) (ob + b.size)) (e + 1) - lo).toNat
  rw [sum_eq_window b ob lo n (fun j hj => at0_out _ _ (by omega)),
    rsum_congr lo n (fun j _ _ => h j)]
  exact rsum_foldWH s e lo n (by omega) (by omega) (by omega) (by omega)

theorem sum_add_foldWH (t o : DStore) (nb : Array Rat) (e : Int) (hsz : nb.size = t.bins.size)
    (h : ∀ j, at0 nb (j - t.offset) = wt t j + foldWH (wt o) (cumH o e) e j) :
    nb.toList.sum = t.bins.toList.sum + o.bins.toList.sum := by
  let lo := min (min t.offset o.offset) e
  let n := (max (max (t.offset + t.bins.size) (o.offset + o.bins.size)) (e + 1) - lo).toNat
  rw [sum_eq_window nb t.offset lo n (fun j hj => at0_out _ _ (by omega)),
    rsum_congr lo n (fun j _ _ => h j), rsum_add,
    rsum_foldWH o e lo n (by omega) (by omega) (by omega) (by omega)]
  congr 1
  exact (sum_eq_window t.bins t.offset lo n (fun j hj => at0_out _ _ (by omega))).symm

theorem foldWH_nonneg (f : Int → Rat) (c : Rat) (e : Int) (hf : ∀ j, 0 ≤ f j) (hc : 0 ≤ c) (j : Int) :
    0 ≤ foldWH f c e j := by
  unfold foldWH
  split
  · exact Rat.le_refl
  · split
    · exact hc
    · exact hf j

theorem cumH_zero_of_all (s : DStore) (hz : ∀ j, wt s j = 0) (e : Int) : cumH s e = 0 := by
  unfold cumH
  have h1 : cum s (e - 1) = 0 := rsum_zero _ _ (fun j _ _ => hz j)
  have h2 : s.bins.toList.sum = 0 := by
    rw [sum_eq_rsum s.bins s.offset]
    exact rsum_zero _ _ (fun j _ _ => hz j)
  rw [h1, h2]; grind

/-! ## `collapseHigh` -/

theorem collapseHigh_spec (t : DStore) (nMin nM : Int) (hnM : nM = nMin + t.len - 1) (hz : ZeroOut t)
    (hmm : t.minIndex ≤ t.maxIndex) (hlo : t.offset ≤ t.minIndex)
    (hhi : t.maxIndex < t.offset + t.len) (hcnt : t.count = t.bins.toList.sum)
    (hfit : nMin ≤ t.minIndex) :
    ∃ nb, t.collapseHigh nMin nM = some { t with bins := nb, offset := nMin, maxIndex := nM } ∧
      nb.size = t.bins.size ∧ ∀ j, at0 nb (j - nMin) = foldWH (wt t) (cumH t nM) nM j := by
  have hlen : t.len = (t.bins.size : Int) := rfl
  have hzlo : ∀ j, j < t.minIndex → wt t j = 0 := fun j hj => hz j (Or.inl hj)
  have hzhi : ∀ j, t.maxIndex < j → wt t j = 0 := fun j hj => hz j (Or.inr hj)
  unfold collapseHigh
  by_cases h1 : nM ≤ t.minIndex
  · rw [if_pos h1]
    obtain ⟨b, hb, hsz, hat⟩ := setAt_eq (Array.replicate t.bins.size 0) (t.len - 1) t.count
      (by simp only [Array.size_replicate]; omega)
    refine ⟨b, ?_, by rw [hsz]; simp, ?_⟩
    · simp only [Option.bind_eq_bind, hb, Option.bind_some, Option.pure_def]
    · intro j
      rw [hat, at0_replicate_zero]
      unfold foldWH
      by_cases hj1 : nM < j
      · rw [if_pos hj1, if_neg (by omega)]
      · rw [if_neg hj1]
        by_cases hj2 : j = nM
        · rw [if_pos (by omega), if_pos hj2, hcnt, cumH_eq_total t t.minIndex hzlo nM h1]
        · rw [if_neg (by omega), if_neg hj2, hzlo j (by omega)]
  · rw [if_neg h1]
    by_cases h2 : t.offset - nMin > 0
    · rw [if_pos h2]
      rw [sumRange_spec t (nM + 1) t.maxIndex (Or.inr ⟨by omega, hhi⟩)]
      obtain ⟨nb1, hr, hsz1, hw1⟩ := resetBins_spec t (nM + 1) t.maxIndex (Or.inr ⟨by omega, hhi⟩)
      rw [hr]
      simp only [Option.bind_eq_bind, Option.bind_some]
      obtain ⟨b, hb, hszb, hatb⟩ := addAt_eq nb1 (nM - t.offset)
        (rsum (wt t) (nM + 1) (t.maxIndex - (nM + 1) + 1).toNat) (by rw [hsz1]; omega)
      rw [hb]
      simp only [Option.bind_some]
      have hwt2 : ∀ j, wt ({ t with bins := b, maxIndex := nM } : DStore) j =
          (if nM + 1 ≤ j ∧ j ≤ t.maxIndex then 0 else wt t j) +
            (if j = nM then rsum (wt t) (nM + 1) (t.maxIndex - (nM + 1) + 1).toNat else 0) := by
        intro j
        show at0 b (j - t.offset) = _
        rw [hatb, hw1]
        congr 1
        by_cases hj : j = nM
        · rw [if_pos (by omega), if_pos hj]
        · rw [if_neg (by omega), if_neg hj]
      have hz2 : ZeroOut ({ t with bins := b, maxIndex := nM } : DStore) := by
        intro j hj
        rw [hwt2]
        have hj' : j < t.minIndex ∨ nM < j := hj
        rw [if_neg (show ¬ j = nM by omega)]
        by_cases hj2 : nM + 1 ≤ j ∧ j ≤ t.maxIndex
        · rw [if_pos hj2]; grind
        · rw [if_neg hj2, hz j (by omega)]; grind
      obtain ⟨nb, hsc, hsznb, hwnb⟩ := shiftCounts_spec
        ({ t with bins := b, maxIndex := nM } : DStore) (t.offset - nMin) hz2
        (by show t.minIndex ≤ nM; omega) (by show t.offset ≤ t.minIndex; omega)
        (by show nM < t.offset + (b.size : Int); rw [hszb, hsz1]; omega)
        (by show 0 ≤ t.minIndex - t.offset + (t.offset - nMin); omega)
        (by show nM - t.offset + (t.offset - nMin) < (b.size : Int); rw [hszb, hsz1]; omega)
      have hoff : t.offset - (t.offset - nMin) = nMin := by omega
      refine ⟨nb, ?_, by rw [hsznb]; show b.size = _; rw [hszb, hsz1], ?_⟩
      · rw [hsc]
        simp only [hoff]
      · intro j
        have := hwnb j
        simp only [hoff] at this
        rw [this, hwt2]
        unfold foldWH
        by_cases hj1 : nM < j
        · rw [if_pos hj1, if_neg (show ¬ j = nM by omega)]
          by_cases hj2 : nM + 1 ≤ j ∧ j ≤ t.maxIndex
          · rw [if_pos hj2]; grind
          · rw [if_neg hj2, hzhi j (by omega)]; grind
        · rw [if_neg hj1, if_neg (by omega)]
          by_cases hj2 : j = nM
          · rw [if_pos hj2, if_pos hj2, hj2]
            by_cases hmn : nM ≤ t.maxIndex
            · rw [cumH_eq_to t t.maxIndex hzhi nM hmn,
                show (t.maxIndex - nM + 1).toNat = (t.maxIndex - (nM + 1) + 1).toNat + 1 by omega,
                rsum_succ_left]
            · rw [cumH_eq_wt_of_ge t t.maxIndex hzhi nM (by omega),
                show (t.maxIndex - (nM + 1) + 1).toNat = 0 by omega]
              simp only [rsum]; grind
          · rw [if_neg hj2, if_neg hj2]; grind
    · rw [if_neg h2]
      obtain ⟨nb, hsc, hsznb, hwnb⟩ := shiftCounts_spec t (t.offset - nMin) hz hmm hlo hhi
        (by omega) (by omega)
      have hoff : t.offset - (t.offset - nMin) = nMin := by omega
      refine ⟨nb, ?_, hsznb, ?_⟩
      · rw [hsc]
        simp only [Option.bind_eq_bind, Option.bind_some, Option.pure_def, hoff]
      · intro j
        have := hwnb j
        simp only [hoff] at this
        rw [this]
        unfold foldWH
        by_cases hj1 : nM < j
        · rw [if_pos hj1, hzhi j (by omega)]
        · rw [if_neg hj1]
          by_cases hj2 : j = nM
          · rw [if_pos hj2, hj2, cumH_eq_wt_of_ge t t.maxIndex hzhi nM (by omega)]
          · rw [if_neg hj2]

/-! ## the invariant of the highest-collapsing store -/

theorem getNewLength_high (hG : GrowthOK) (s : DStore) (N : Nat) (hk : s.kind = .high N)
    (a b : Int) (hab : a ≤ b) (hsp : b - a < 2^33) :
    ∃ L, s.getNewLength a b = some L ∧ L ≤ N ∧ (b - a + 1 ≤ L ∨ L = N) := by
  obtain ⟨d, hd, hge⟩ := hG a b hab hsp
  refine ⟨min d N, ?_, by omega, by omega⟩
  unfold getNewLength
  rw [hd, hk]; rfl

/-- Invariant of `CollapsingHighestDenseStore` with limit `N` (arbitrary `Int` indexes). -/
structure InvHigh (N : Nat) (s : DStore) : Prop where
  kind    : s.kind = .high N
  hN      : 1 ≤ N
  nonneg  : ∀ j, 0 ≤ at0 s.bins j
  countEq : s.count = s.bins.toList.sum
  empty   : s.count = 0 → s.bins.size = 0 ∧ s.minIndex = maxInt32 ∧ s.maxIndex = minInt32 ∧
              s.isCollapsed = false
  window  : s.count ≠ 0 → s.offset ≤ s.minIndex ∧ s.minIndex ≤ s.maxIndex ∧
              s.maxIndex < s.offset + s.len
  outside : ∀ i, (i < s.minIndex ∨ s.maxIndex < i) → wt s i = 0
  lenLe   : s.bins.size ≤ N
  collapsed : s.isCollapsed = true →
              s.offset = s.minIndex ∧ s.bins.size = N ∧ s.maxIndex - s.minIndex + 1 = N

theorem InvHigh.window32 {N : Nat} {s : DStore} (h : InvHigh N s) (ht : Tight32 s) :
    (minInt32 ≤ s.minIndex ∧ s.minIndex ≤ maxInt32) ∧ (minInt32 ≤ s.maxIndex ∧ s.maxIndex ≤ maxInt32) :=
  window32_gen s ht (fun h0 => ⟨(h.empty h0).2.1, (h.empty h0).2.2.1⟩) (fun h0 => (h.window h0).2.1)

theorem InvHigh.spanOK {N : Nat} {s : DStore} (h : InvHigh N s) (ht : Tight32 s) (a b : Int)
    (ha : minInt32 ≤ a ∧ a ≤ maxInt32) (hb : minInt32 ≤ b ∧ b ≤ maxInt32) : SpanOK s a b := by
  obtain ⟨⟨w1, w2⟩, w3, w4⟩ := h.window32 ht
  unfold SpanOK
  simp only [maxInt32, minInt32] at *
  omega

theorem invHigh_new (N : Nat) (hN : 1 ≤ N) : InvHigh N (DStore.new (.high N)) where
  kind := rfl
  hN := hN
  nonneg := by intro j; simp [DStore.new, at0_empty]
  countEq := by simp [DStore.new]
  empty := by intro _; simp [DStore.new]
  window := by intro h; exact absurd rfl h
  outside := by intro i _; simp [wt, DStore.new, at0_empty]
  lenLe := by simp [DStore.new]
  collapsed := by intro h; simp [DStore.new] at h

theorem InvHigh.count_nonneg {N : Nat} {s : DStore} (h : InvHigh N s) : 0 ≤ s.count := by
  rw [h.countEq]; exact sum_nonneg_of _ h.nonneg

theorem InvHigh.wt_nonneg {N : Nat} {s : DStore} (h : InvHigh N s) (j : Int) : 0 ≤ wt s j := h.nonneg _

theorem InvHigh.wt_zero_of_empty {N : Nat} {s : DStore} (h : InvHigh N s) (h0 : s.count = 0) (j : Int) :
    wt s j = 0 := by
  have := (h.empty h0).1
  exact at0_out _ _ (by omega)

theorem InvHigh.cumH_zero_of_empty {N : Nat} {s : DStore} (h : InvHigh N s) (h0 : s.count = 0) (e : Int) :
    cumH s e = 0 := by
  exact cumH_zero_of_all s (h.wt_zero_of_empty h0) e

theorem InvHigh.nonempty_of_le {N : Nat} {s : DStore} (h : InvHigh N s) (hle : s.minIndex ≤ s.maxIndex) :
    s.count ≠ 0 := by
  intro h0
  obtain ⟨_, e1, e2, _⟩ := h.empty h0
  simp only [maxInt32, minInt32] at e1 e2
  omega

theorem InvHigh.span_le {N : Nat} {s : DStore} (h : InvHigh N s) (h0 : s.count ≠ 0) :
    s.maxIndex - s.minIndex + 1 ≤ N := by
  obtain ⟨w1, w2, w3⟩ := h.window h0
  have := h.lenLe
  unfold len at w3
  omega

theorem InvHigh.window_in {N : Nat} {s : DStore} (h : InvHigh N s) :
    ∀ idx, s.minIndex ≤ idx → idx < s.minIndex + ((s.maxIndex - s.minIndex + 1).toNat : Int) →
      0 ≤ idx - s.offset ∧ idx - s.offset < s.bins.size := by
  intro idx h1 h2
  have h0 := h.nonempty_of_le (by omega)
  obtain ⟨w1, w2, w3⟩ := h.window h0
  unfold len at w3
  omega

theorem InvHigh.self_fold {N : Nat} {s : DStore} (h : InvHigh N s) (mn : Int)
    (hmn : s.count ≠ 0 → s.maxIndex ≤ mn + (N : Int) - 1) (j : Int) :
    wt s j = foldWH (wt s) (cumH s (mn + N - 1)) (mn + N - 1) j := by
  unfold foldWH
  by_cases h0 : s.count = 0
  · rw [h.wt_zero_of_empty h0, h.cumH_zero_of_empty h0]; split <;> (try split) <;> rfl
  · have hle := hmn h0
    by_cases hj1 : mn + N - 1 < j
    · rw [if_pos hj1, h.outside j (by omega)]
    · rw [if_neg hj1]
      by_cases hj2 : j = mn + N - 1
      · rw [if_pos hj2, hj2,
          cumH_eq_wt_of_ge s s.maxIndex (fun j hj => h.outside j (Or.inr hj)) _ hle]
      · rw [if_neg hj2]

/-! ## `adjust` and `extendRange` of the highest-collapsing store -/

theorem high_adjust_spec (N : Nat) (_hN : 1 ≤ N) (t : DStore) (hk : t.kind = .high N) (hz : ZeroOut t)
    (hmm : t.minIndex ≤ t.maxIndex) (hlo : t.offset ≤ t.minIndex)
    (hhi : t.maxIndex < t.offset + t.len) (hcnt : t.count = t.bins.toList.sum)
    (hlen : t.bins.size ≤ N) (nMin nMax : Int)
    (hsub : nMin ≤ t.minIndex ∧ t.maxIndex ≤ nMax)
    (hbig : nMax - nMin + 1 > t.len → t.len = N) :
    ∃ t', t.adjust nMin nMax = some t' ∧ t'.kind = .high N ∧ t'.count = t.count ∧
      t'.minIndex = nMin ∧ t'.maxIndex = min nMax (nMin + N - 1) ∧ t'.offset ≤ t'.minIndex ∧
      t'.maxIndex < t'.offset + t'.len ∧ t'.bins.size = t.bins.size ∧
      (∀ j, wt t' j = foldWH (wt t) (cumH t (nMin + N - 1)) (nMin + N - 1) j) ∧
      (t'.isCollapsed = (t.isCollapsed || decide (nMax - nMin + 1 > t.len))) ∧
      (nMax - nMin + 1 > t.len → t'.offset = t'.minIndex) := by
  have hlen' : t.len = (t.bins.size : Int) := rfl
  have hzhi : ∀ j, t.maxIndex < j → wt t j = 0 := fun j hj => hz j (Or.inr hj)
  unfold adjust
  simp only [hk]
  by_cases hgt : nMax - nMin + 1 > t.len
  · rw [if_pos hgt]
    have hN' := hbig hgt
    obtain ⟨nb, hc, hsz, hw⟩ := collapseHigh_spec t nMin (nMin + t.len - 1) rfl hz hmm hlo hhi hcnt
      (by omega)
    rw [hc]
    simp only [Option.bind_eq_bind, Option.bind_some, Option.pure_def]
    refine ⟨_, rfl, hk, rfl, rfl, ?_, ?_, ?_, hsz, ?_, ?_, ?_⟩
    · show nMin + t.len - 1 = _; omega
    · show nMin ≤ nMin; omega
    · show nMin + t.len - 1 < nMin + (nb.size : Int); rw [hsz]; omega
    · intro j
      show at0 nb (j - nMin) = _
      rw [hw, hN']
    · show true = _
      simp [hgt]
    · intro _; rfl
  · rw [if_neg hgt]
    obtain ⟨nb, off', hc, hsz, h1, h2, hw⟩ :=
      centerCounts_spec t nMin nMax hz hmm hlo hhi (by omega) hsub
    rw [hc]
    refine ⟨_, rfl, hk, rfl, rfl, ?_, ?_, ?_, hsz, ?_, ?_, ?_⟩
    · show nMax = _; omega
    · exact h1
    · show nMax < off' + (nb.size : Int); rw [hsz]; exact h2
    · intro j
      show at0 nb (j - off') = _
      rw [hw]
      unfold foldWH
      by_cases hj1 : nMin + N - 1 < j
      · rw [if_pos hj1, hzhi j (by omega)]
      · rw [if_neg hj1]
        by_cases hj2 : j = nMin + N - 1
        · rw [if_pos hj2, hj2, cumH_eq_wt_of_ge t t.maxIndex hzhi _ (by omega)]
        · rw [if_neg hj2]
    · show t.isCollapsed = _
      simp [hgt]
    · intro h; exact absurd h hgt

/-- what `extendRange` (or doing nothing) establishes for the highest-collapsing store: the
    window `[mn, min mx e]` with `e = mn + N - 1`, the content folded at `e` -/
structure ExtHigh (N : Nat) (s t : DStore) (mn mx : Int) : Prop where
  kind  : t.kind = .high N
  count : t.count = s.count
  minI  : t.minIndex = mn
  maxI  : t.maxIndex = min mx (mn + N - 1)
  off   : t.offset ≤ t.minIndex
  hi    : t.maxIndex < t.offset + t.len
  lenLe : t.bins.size ≤ N
  coll  : t.isCollapsed = true →
            t.offset = t.minIndex ∧ t.bins.size = N ∧ t.maxIndex - t.minIndex + 1 = N
  collOf : mn + N - 1 < mx → t.isCollapsed = true ∧ t.offset = t.minIndex
  wtEq  : ∀ j, wt t j = foldWH (wt s) (cumH s (mn + N - 1)) (mn + N - 1) j

theorem ExtHigh.self {N : Nat} {s : DStore} (h : InvHigh N s) (h0 : s.count ≠ 0) :
    ExtHigh N s s s.minIndex s.maxIndex := by
  obtain ⟨w1, w2, w3⟩ := h.window h0
  have hsp := h.span_le h0
  exact
    { kind := h.kind, count := rfl, minI := rfl, maxI := by omega, off := w1, hi := w3
      lenLe := h.lenLe, coll := h.collapsed, collOf := fun hc => by omega
      wtEq := h.self_fold s.minIndex (fun _ => by omega) }

theorem high_extendRange_spec (hG : GrowthOK) (N : Nat) (s : DStore) (h : InvHigh N s) (a b : Int)
    (hab : a ≤ b) (hspan : SpanOK s a b) :
    ∃ t, s.extendRange a b = some t ∧ ExtHigh N s t (min a s.minIndex) (max b s.maxIndex) := by
  have hN := h.hN
  simp only [extendRange]
  by_cases h0 : s.count = 0
  · rw [if_pos h0]
    obtain ⟨hsz, hmin, hmax, hcol⟩ := h.empty h0
    obtain ⟨L, hL, hLN, hLge⟩ := getNewLength_high hG s N h.kind (min a s.minIndex) (max b s.maxIndex)
      (by omega) hspan
    rw [hL]
    simp only [Option.bind_eq_bind, Option.bind_some]
    have hL1 : 1 ≤ L := by omega
    rw [grow_spec s L (by omega)]
    simp only [Option.bind_some, h.kind]
    have key : ∀ (nM : Int) (c : Bool), nM - min a s.minIndex + 1 ≤ L → min a s.minIndex ≤ nM →
        nM = min (max b s.maxIndex) (min a s.minIndex + N - 1) →
        (c = true → L = N ∧ nM - min a s.minIndex + 1 = N) →
        (min a s.minIndex + N - 1 < max b s.maxIndex → c = true) →
        ∃ t, ({ kind := DKind.high N, bins := s.bins ++ Array.replicate L.toNat 0, count := s.count, offset := min a s.minIndex, minIndex := min a s.minIndex, maxIndex := nM, isCollapsed := c } : DStore).adjust (min a s.minIndex) nM = some t ∧
          ExtHigh N s t (min a s.minIndex) (max b s.maxIndex) := by
      intro nM c hfit hle hnM hc1 hc2
      have hlen0 : ({ kind := DKind.high N, bins := s.bins ++ Array.replicate L.toNat 0, count := s.count, offset := min a s.minIndex, minIndex := min a s.minIndex, maxIndex := nM, isCollapsed := c } : DStore).len = L := by
        simp [len, hsz]; omega
      have hwt0 : ∀ j, wt ({ kind := DKind.high N, bins := s.bins ++ Array.replicate L.toNat 0, count := s.count, offset := min a s.minIndex, minIndex := min a s.minIndex, maxIndex := nM, isCollapsed := c } : DStore) j = 0 := by
        intro j
        simp only [wt, at0_append_replicate]
        exact at0_out _ _ (by omega)
      have hsum0 : s.count = (s.bins ++ Array.replicate L.toNat 0).toList.sum := by
        rw [h0, sum_eq_rsum _ 0]
        exact (rsum_zero _ _ (fun j _ _ => by
          have := hwt0 (j - 0 + min a s.minIndex)
          simp only [wt] at this
          rw [show j - 0 + min a s.minIndex - min a s.minIndex = j - 0 by omega] at this
          exact this)).symm
      obtain ⟨t', ht', hk', hc', hmi', hma', ho1, ho2, hsz', hw', hcol', _⟩ := high_adjust_spec N hN
        { kind := DKind.high N, bins := s.bins ++ Array.replicate L.toNat 0, count := s.count, offset := min a s.minIndex, minIndex := min a s.minIndex, maxIndex := nM, isCollapsed := c } rfl
        (fun i _ => hwt0 i) (by show min a s.minIndex ≤ nM; omega)
        (by show min a s.minIndex ≤ min a s.minIndex; omega)
        (by rw [hlen0]; show nM < min a s.minIndex + L; omega)
        hsum0
        (by show (s.bins ++ Array.replicate L.toNat 0).size ≤ N; simp [hsz]; omega)
        (min a s.minIndex) nM
        ⟨by show min a s.minIndex ≤ min a s.minIndex; omega, by show nM ≤ nM; omega⟩
        (by rw [hlen0]; intro hh; omega)
      have hszL : (t'.bins.size : Int) = L := by
        rw [hsz']; simp [hsz]; omega
      have hcolc : t'.isCollapsed = c := by
        rw [hcol', hlen0]
        have : ¬ (nM - min a s.minIndex + 1 > L) := by omega
        simp [this]
      refine ⟨t', ht', ?_⟩
      exact
        { kind := hk', count := hc', minI := hmi'
          maxI := by rw [hma']; omega
          off := ho1
          hi := ho2
          lenLe := by omega
          coll := by
            intro hcc
            rw [hcolc] at hcc
            obtain ⟨e1, e2⟩ := hc1 hcc
            refine ⟨?_, by omega, by omega⟩
            unfold len at ho2
            omega
          collOf := by
            intro hlt
            have hcc := hc2 hlt
            obtain ⟨e1, e2⟩ := hc1 hcc
            refine ⟨by rw [hcolc]; exact hcc, ?_⟩
            unfold len at ho2
            omega
          wtEq := by
            intro j
            rw [hw']
            unfold foldWH
            rw [h.cumH_zero_of_empty h0, h.wt_zero_of_empty h0]
            have hcz : cumH ({ kind := DKind.high N, bins := s.bins ++ Array.replicate L.toNat 0, count := s.count, offset := min a s.minIndex, minIndex := min a s.minIndex, maxIndex := nM, isCollapsed := c } : DStore) (min a s.minIndex + N - 1) = 0 :=
              cumH_zero_of_all _ hwt0 _
            rw [hcz, hwt0] }
    by_cases hwide : max b s.maxIndex - min a s.minIndex + 1 > L
    · simp only [hwide, if_true]
      exact key (min a s.minIndex + L - 1) true (by omega) (by omega) (by omega) (fun _ => by omega)
        (fun _ => rfl)
    · simp only [hwide, if_false]
      exact key (max b s.maxIndex) s.isCollapsed (by omega) (by omega) (by omega)
        (fun hc => by rw [hcol] at hc; cases hc) (fun hlt => by omega)
  · rw [if_neg h0]
    obtain ⟨w1, w2, w3⟩ := h.window h0
    have hsp := h.span_le h0
    have hlenLe := h.lenLe
    have hls : s.len = (s.bins.size : Int) := rfl
    by_cases hin : min a s.minIndex ≥ s.offset ∧ max b s.maxIndex < s.offset + s.len
    · rw [if_pos hin]
      refine ⟨_, rfl, ?_⟩
      exact
        { kind := h.kind, count := rfl, minI := rfl
          maxI := by show max b s.maxIndex = _; omega
          off := hin.1, hi := hin.2, lenLe := h.lenLe
          coll := by
            intro hc
            obtain ⟨c1, c2, c3⟩ := h.collapsed hc
            show s.offset = min a s.minIndex ∧ s.bins.size = N ∧
              max b s.maxIndex - min a s.minIndex + 1 = N
            omega
          collOf := by intro hlt; omega
          wtEq := by
            intro j
            show wt s j = _
            exact h.self_fold (min a s.minIndex) (fun _ => by omega) j }
    · rw [if_neg hin]
      obtain ⟨L, hL, hLN, hLge⟩ := getNewLength_high hG s N h.kind (min a s.minIndex)
        (max b s.maxIndex) (by omega) hspan
      rw [hL]
      simp only [Option.bind_eq_bind, Option.bind_some]
      have key : ∀ (t0 : DStore), t0.kind = .high N → t0.count = s.count → t0.offset = s.offset →
          t0.minIndex = s.minIndex → t0.maxIndex = s.maxIndex → t0.isCollapsed = s.isCollapsed →
          (∀ j, wt t0 j = wt s j) → t0.len = max s.len L → t0.count = t0.bins.toList.sum →
          ∃ t, t0.adjust (min a s.minIndex) (max b s.maxIndex) = some t ∧
            ExtHigh N s t (min a s.minIndex) (max b s.maxIndex) := by
        intro t0 k0 c0 o0 mi0 ma0 col0 hw0 hl0 hs0
        have hl0' : t0.len = (t0.bins.size : Int) := rfl
        obtain ⟨t', ht', hk', hc', hmi', hma', ho1, ho2, hsz', hw', hcol', hoffc⟩ :=
          high_adjust_spec N hN t0 k0
          (by intro i hi; rw [hw0]; exact h.outside i (by rw [mi0, ma0] at hi; exact hi))
          (by omega) (by omega) (by rw [hl0]; omega) hs0 (by omega)
          (min a s.minIndex) (max b s.maxIndex) (by omega) (by rw [hl0]; intro hh; omega)
        refine ⟨t', ht', ?_⟩
        have hl' : t'.len = (t'.bins.size : Int) := rfl
        exact
          { kind := hk', count := by rw [hc', c0], minI := hmi'
            maxI := hma', off := ho1
            hi := ho2
            lenLe := by omega
            coll := by
              intro hc
              rw [hcol', Bool.or_eq_true, decide_eq_true_eq] at hc
              rcases hc with hc | hc
              · rw [col0] at hc
                obtain ⟨c1, c2, c3⟩ := h.collapsed hc
                have hgt : max b s.maxIndex - min a s.minIndex + 1 > t0.len := by
                  unfold len at hin; omega
                have := hoffc hgt
                omega
              · have := hoffc hc
                omega
            collOf := by
              intro hlt
              have hgt : max b s.maxIndex - min a s.minIndex + 1 > t0.len := by omega
              refine ⟨?_, hoffc hgt⟩
              rw [hcol', Bool.or_eq_true, decide_eq_true_eq]
              exact Or.inr hgt
            wtEq := by
              intro j
              rw [hw', cumH_congr s t0 hw0]
              unfold foldWH
              rw [hw0] }
      by_cases hgt : L > s.len
      · rw [if_pos hgt, grow_spec s _ (by omega)]
        simp only [Option.bind_some]
        apply key { s with bins := s.bins ++ Array.replicate (L - s.len).toNat 0 } h.kind rfl rfl rfl rfl rfl
        · intro j; simp only [wt, at0_append_replicate]
        · simp [len] at hgt ⊢; omega
        · show s.count = _
          rw [h.countEq]
          exact (sum_eq_of_wt s.bins _ s.offset s.offset
            (fun j => by simp only [at0_append_replicate])).symm
      · rw [if_neg hgt]
        simp only [Option.pure_def, Option.bind_some]
        exact key s h.kind rfl rfl rfl rfl rfl (fun j => rfl) (by omega) h.countEq

/-! ## consequences of `ExtHigh` -/

theorem ExtHigh.wt_nonneg {N : Nat} {s t : DStore} {mn mx : Int} (x : ExtHigh N s t mn mx)
    (h : InvHigh N s) (j : Int) : 0 ≤ wt t j := by
  rw [x.wtEq]
  exact foldWH_nonneg _ _ _ h.wt_nonneg (cumH_nonneg s h.wt_nonneg _) j

theorem ExtHigh.sum_eq {N : Nat} {s t : DStore} {mn mx : Int} (x : ExtHigh N s t mn mx) :
    t.bins.toList.sum = s.bins.toList.sum :=
  sum_foldWH s t.bins t.offset _ x.wtEq

theorem ExtHigh.zeroOut {N : Nat} {s t : DStore} {mn mx : Int} (x : ExtHigh N s t mn mx)
    (h : InvHigh N s) (hmn : mn ≤ s.minIndex) (hmx : s.maxIndex ≤ mx) :
    ∀ j, (j < t.minIndex ∨ t.maxIndex < j) → wt t j = 0 := by
  intro j hj
  rw [x.minI, x.maxI] at hj
  have hN := h.hN
  rw [x.wtEq]
  unfold foldWH
  by_cases hj1 : mn + N - 1 < j
  · rw [if_pos hj1]
  · rw [if_neg hj1]
    by_cases hj2 : j = mn + N - 1
    · rw [if_pos hj2]
      exact cumH_zero_of_gt s s.maxIndex (fun k hk => h.outside k (Or.inr hk)) _ (by omega)
    · rw [if_neg hj2]
      exact h.outside j (by omega)

theorem ExtHigh.finish {N : Nat} {s t : DStore} {mn mx : Int} (x : ExtHigh N s t mn mx)
    (h : InvHigh N s) (hmn : mn ≤ s.minIndex) (hmx : s.maxIndex ≤ mx) (hle : mn ≤ mx)
    (nb : Array Rat) (hsz : nb.size = t.bins.size) (g : Int → Rat) (c : Rat) (hc : 0 < c)
    (hg : ∀ j, 0 ≤ g j) (hg0 : ∀ j, (j < t.minIndex ∨ t.maxIndex < j) → g j = 0)
    (hat : ∀ j, at0 nb (j - t.offset) = wt t j + g j)
    (hsum : nb.toList.sum = t.bins.toList.sum + c) :
    InvHigh N ({ t with bins := nb, count := t.count + c } : DStore) := by
  have hN := h.hN
  have hmi := x.minI
  have hma := x.maxI
  have hcnn := h.count_nonneg
  refine
    { kind := x.kind
      hN := hN
      nonneg := ?_
      countEq := ?_
      empty := ?_
      window := ?_
      outside := ?_
      lenLe := by show nb.size ≤ N; rw [hsz]; exact x.lenLe
      collapsed := ?_ }
  · apply nonneg_of_wt
    intro j
    show 0 ≤ at0 nb (j - t.offset)
    rw [hat]
    have := x.wt_nonneg h j
    have := hg j
    grind
  · show t.count + c = nb.toList.sum
    rw [hsum, x.count, h.countEq, x.sum_eq]
  · intro h0
    have : s.count + c = 0 := by rw [← x.count]; exact h0
    grind
  · intro _
    exact ⟨x.off, by show t.minIndex ≤ t.maxIndex; omega, by simp only [len, hsz]; exact x.hi⟩
  · intro j hj
    show at0 nb (j - t.offset) = 0
    have hj' : j < t.minIndex ∨ t.maxIndex < j := hj
    rw [hat, x.zeroOut h hmn hmx j hj', hg0 j hj']
    grind
  · intro hcc
    have := x.coll hcc
    show t.offset = t.minIndex ∧ nb.size = N ∧ t.maxIndex - t.minIndex + 1 = N
    rw [hsz]; exact this

/-! ## `normalize` / `addWithCount` of the highest-collapsing store -/

theorem high_normalize_spec (hG : GrowthOK) (N : Nat) (s : DStore) (h : InvHigh N s) (i : Int)
    (hsp : SpanOK s i i) :
    ∃ t, s.normalize i = some (t, min i (min i s.minIndex + N - 1) - t.offset) ∧
      ExtHigh N s t (min i s.minIndex) (max i s.maxIndex) := by
  have hN := h.hN
  unfold normalize
  simp only [h.kind]
  by_cases h1 : i > s.maxIndex
  · rw [if_pos h1]
    by_cases hc : s.isCollapsed = true
    · rw [if_pos hc]
      obtain ⟨c1, c2, c3⟩ := h.collapsed hc
      have h0 : s.count ≠ 0 := by
        intro h0; rw [(h.empty h0).2.2.2] at hc; cases hc
      obtain ⟨w1, w2, w3⟩ := h.window h0
      have x := ExtHigh.self h h0
      have hlen : s.len = (s.bins.size : Int) := rfl
      refine ⟨s, ?_, ?_⟩
      · show some (s, s.len - 1) = _
        congr 2; omega
      · rw [show min i s.minIndex = s.minIndex by omega]
        exact
          { kind := x.kind, count := rfl, minI := rfl, maxI := by omega, off := x.off, hi := x.hi
            lenLe := x.lenLe, coll := x.coll, collOf := fun _ => ⟨hc, c1⟩, wtEq := x.wtEq }
    · rw [if_neg hc]
      obtain ⟨t, ht, x⟩ := high_extendRange_spec hG N s h i i (Int.le_refl _) hsp
      rw [ht]
      simp only [Option.bind_eq_bind, Option.bind_some, Option.pure_def]
      refine ⟨t, ?_, x⟩
      have hmi := x.minI
      have hma := x.maxI
      have hlen : t.len = (t.bins.size : Int) := rfl
      by_cases htc : t.isCollapsed = true
      · rw [if_pos htc]
        obtain ⟨d1, d2, d3⟩ := x.coll htc
        congr 2; omega
      · rw [if_neg htc]
        have : ¬ (min i s.minIndex + N - 1 < max i s.maxIndex) := fun hh => htc (x.collOf hh).1
        congr 2; omega
  · rw [if_neg h1]
    by_cases h2 : i < s.minIndex
    · rw [if_pos h2]
      obtain ⟨t, ht, x⟩ := high_extendRange_spec hG N s h i i (Int.le_refl _) hsp
      rw [ht]
      simp only [Option.bind_eq_bind, Option.bind_some, Option.pure_def]
      refine ⟨t, ?_, x⟩
      congr 2; omega
    · rw [if_neg h2]
      have h0 := h.nonempty_of_le (by omega)
      have hsp := h.span_le h0
      refine ⟨s, ?_, ?_⟩
      · show some (s, i - s.offset) = _
        congr 2; omega
      · rw [show min i s.minIndex = s.minIndex by omega, show max i s.maxIndex = s.maxIndex by omega]
        exact ExtHigh.self h h0

/-- exact add, then fold at `e = min + N − 1` -/
def addFoldH (s : DStore) (i : Int) (w : Rat) (e : Int) (j : Int) : Rat :=
  foldWH (fun k => wt s k + if k = i then w else 0) (cumH s e + if e ≤ i then w else 0) e j

theorem high_addWithCount_full (hG : GrowthOK) (N : Nat) (s : DStore) (h : InvHigh N s) (i : Int)
    (w : Rat) (hw : 0 ≤ w) (hsp : SpanOK s i i) :
    ∃ s', s.addWithCount i w = some s' ∧ InvHigh N s' ∧ s'.count = s.count + w ∧
      (w ≠ 0 → s'.minIndex = min i s.minIndex ∧
        s'.maxIndex = min (max i s.maxIndex) (min i s.minIndex + N - 1) ∧
        ∀ j, wt s' j = addFoldH s i w (min i s.minIndex + N - 1) j) := by
  have hN := h.hN
  unfold addWithCount
  by_cases hw0 : w = 0
  · rw [if_pos hw0]
    exact ⟨s, rfl, h, by rw [hw0]; grind, fun hne => absurd hw0 hne⟩
  · rw [if_neg hw0]
    have hwpos : 0 < w := by grind
    obtain ⟨t, hn, x⟩ := high_normalize_spec hG N s h i hsp
    have hmn : min i s.minIndex ≤ s.minIndex := by omega
    have hmx : s.maxIndex ≤ max i s.maxIndex := by omega
    have hmi := x.minI
    have hma := x.maxI
    have ho1 := x.off
    have ho2 := x.hi
    have hlen : t.len = (t.bins.size : Int) := rfl
    generalize hq : min i (min i s.minIndex + N - 1) = q at hn
    have hin : 0 ≤ q - t.offset ∧ q - t.offset < t.bins.size := by omega
    obtain ⟨nb, hadd, hsz, hat⟩ := addAt_eq t.bins (q - t.offset) w hin
    rw [hn]
    simp only [Option.bind_eq_bind, Option.bind_some, hadd, Option.pure_def]
    have hwt1 : ∀ j, wt ({ t with bins := nb, count := t.count + w } : DStore) j
        = wt t j + (if j = q then w else 0) := by
      intro j
      simp only [wt]
      rw [hat]
      congr 1
      by_cases hj : j = q
      · rw [if_pos hj, if_pos (by omega)]
      · rw [if_neg hj, if_neg (by omega)]
    refine ⟨_, rfl, ?_, by simp only [x.count], fun _ => ⟨hmi, hma, ?_⟩⟩
    · refine x.finish h hmn hmx (by omega) nb hsz (fun j => if j = q then w else 0) w hwpos
        (fun j => by split <;> grind)
        (fun j hj => by rw [if_neg (by omega)]) ?_
        (sum_point t.bins nb (q - t.offset) w hin hsz hat)
      intro j
      exact hwt1 j
    · intro j
      rw [hwt1, x.wtEq]
      unfold addFoldH foldWH
      dsimp only
      by_cases hj1 : min i s.minIndex + N - 1 < j
      · rw [if_pos hj1, if_pos hj1, if_neg (by omega)]; grind
      · rw [if_neg hj1, if_neg hj1]
        by_cases hj2 : j = min i s.minIndex + N - 1
        · rw [if_pos hj2, if_pos hj2]
          by_cases hie : min i s.minIndex + N - 1 ≤ i
          · rw [if_pos (by omega), if_pos hie]
          · rw [if_neg (by omega), if_neg hie]
        · rw [if_neg hj2, if_neg hj2]
          by_cases hji : j = i
          · rw [if_pos (by omega), if_pos hji]
          · rw [if_neg (by omega), if_neg hji]

theorem high_addWithCount_tight (hG : GrowthOK) (N : Nat) (s : DStore) (h : InvHigh N s)
    (ht : Tight32 s) (i : Int) (w : Rat) (hw : 0 ≤ w) (hi : minInt32 ≤ i ∧ i ≤ maxInt32) :
    ∀ s', s.addWithCount i w = some s' → Tight32 s' := by
  intro s' hs'
  obtain ⟨s'', h1, hinv, hcnt, hrest⟩ := high_addWithCount_full hG N s h i w hw
    (h.spanOK ht i i hi hi)
  rw [h1] at hs'
  cases hs'
  by_cases hw0 : w = 0
  · have : s.addWithCount i w = some s := by unfold addWithCount; rw [if_pos hw0]
    rw [this] at h1; cases h1; exact ht
  · obtain ⟨hmi, hma, hwt⟩ := hrest hw0
    have hwpos : 0 < w := by grind
    have hN := h.hN
    intro _
    have hnn := h.wt_nonneg
    have hcn := cumH_nonneg s hnn
    have hold : (s.count = 0 ∧ s.minIndex = maxInt32 ∧ s.maxIndex = minInt32) ∨
        (s.count ≠ 0 ∧ s.minIndex ≤ s.maxIndex ∧ 0 < wt s s.minIndex ∧ 0 < wt s s.maxIndex ∧
          minInt32 ≤ s.minIndex ∧ s.maxIndex ≤ maxInt32) := by
      by_cases h0 : s.count = 0
      · exact Or.inl ⟨h0, (h.empty h0).2.1, (h.empty h0).2.2.1⟩
      · exact Or.inr ⟨h0, (h.window h0).2.1, ht h0⟩
    have hi1 := hi.1
    have hi2 := hi.2
    simp only [maxInt32, minInt32] at hold hi1 hi2 ⊢
    refine ⟨?_, ?_, by omega, by omega⟩
    · rw [hwt, hmi]
      unfold addFoldH foldWH
      dsimp only
      rw [if_neg (by omega)]
      by_cases hle : i ≤ s.minIndex
      · rw [show min i s.minIndex = i by omega]
        by_cases hN1 : i = i + N - 1
        · rw [if_pos hN1, if_pos (by omega)]; have := hcn (i + N - 1); grind
        · rw [if_neg hN1, if_pos rfl]; have := hnn i; grind
      · rw [show min i s.minIndex = s.minIndex by omega]
        rcases hold with ⟨h0, e1, e2⟩ | ⟨h0, _, hp1, hp2, _, _⟩
        · omega
        · by_cases hN1 : s.minIndex = s.minIndex + N - 1
          · rw [if_pos hN1, ← hN1]
            have := cumH_ge_wt s hnn s.minIndex
            split <;> grind
          · rw [if_neg hN1, if_neg (by omega)]; grind
    · rw [hwt, hma]
      unfold addFoldH foldWH
      dsimp only
      by_cases hc : min i s.minIndex + N - 1 ≤ max i s.maxIndex
      · rw [show min (max i s.maxIndex) (min i s.minIndex + N - 1) = min i s.minIndex + N - 1 by omega,
          if_neg (by omega), if_pos rfl]
        by_cases hie : min i s.minIndex + N - 1 ≤ i
        · rw [if_pos hie]; have := hcn (min i s.minIndex + N - 1); grind
        · rw [if_neg hie]
          rcases hold with ⟨h0, e1, e2⟩ | ⟨h0, hle, hp1, hp2, _, _⟩
          · omega
          · have h3 := cumH_ge_wt s hnn s.maxIndex
            have h4 := cumH_anti s hnn (min i s.minIndex + N - 1) s.maxIndex (by omega)
            grind
      · rw [show min (max i s.maxIndex) (min i s.minIndex + N - 1) = max i s.maxIndex by omega,
          if_neg (by omega), if_neg (by omega)]
        by_cases hle : s.maxIndex ≤ i
        · rw [show max i s.maxIndex = i by omega, if_pos rfl]; have := hnn i; grind
        · rw [show max i s.maxIndex = s.maxIndex by omega, if_neg (by omega)]
          rcases hold with ⟨h0, e1, e2⟩ | ⟨h0, _, hp1, hp2, _, _⟩
          · omega
          · grind

/-! ## `mergeSame` of the highest-collapsing store -/

theorem high_merge_loop (ob : Array Rat) (oo so smax sl : Int) (n : Nat) (lo : Int) (b : Array Rat)
    (hsl : 0 ≤ sl ∧ sl < b.size)
    (hin : ∀ idx, lo ≤ idx → idx < lo + n →
      (0 ≤ idx - oo ∧ idx - oo < ob.size) ∧ (idx ≤ smax → 0 ≤ idx - so ∧ idx - so < b.size)) :
    ∃ b', (irange lo n).foldlM (fun b idx => do
            let c ← rd ob (idx - oo)
            if idx > smax then addAt b sl c else addAt b (idx - so) c) b = some b' ∧
      b'.size = b.size ∧
      ∀ j, at0 b' (j - so) = at0 b (j - so)
        + (if lo ≤ j ∧ j < lo + n ∧ j ≤ smax then at0 ob (j - oo) else 0)
        + (if j = so + sl then rsum (fun k => if k > smax then at0 ob (k - oo) else 0) lo n else 0) := by
  induction n with
  | zero =>
    refine ⟨b, rfl, rfl, ?_⟩
    intro j
    rw [if_neg (by omega)]
    simp only [rsum]
    split <;> grind
  | succ n ih =>
    obtain ⟨b1, hb1, hsz1, hat1⟩ := ih (fun idx h1 h2 => hin idx h1 (by omega))
    obtain ⟨hi1, hi2⟩ := hin (lo + n) (by omega) (by omega)
    by_cases hlt : lo + (n : Int) > smax
    · obtain ⟨b2, hb2, hsz2, hat2⟩ := addAt_eq b1 sl (at0 ob (lo + n - oo)) (by rw [hsz1]; omega)
      refine ⟨b2, ?_, by rw [hsz2, hsz1], ?_⟩
      · rw [irange_succ_right, List.foldlM_append, hb1]
        simp only [Option.bind_eq_bind, Option.bind_some, List.foldlM_cons, List.foldlM_nil,
          rd_eq ob _ hi1, if_pos hlt, hb2, Option.pure_def]
      · intro j
        rw [hat2, hat1]
        simp only [rsum]
        rw [if_pos hlt]
        by_cases hj : j = so + sl
        · rw [if_pos (show j - so = sl by omega), if_pos hj, if_pos hj]
          by_cases hA : lo ≤ j ∧ j < lo + (n : Int) ∧ j ≤ smax
          · rw [if_pos hA, if_pos (show lo ≤ j ∧ j < lo + ((n + 1 : Nat) : Int) ∧ j ≤ smax by omega)]
            grind
          · rw [if_neg hA, if_neg (show ¬ (lo ≤ j ∧ j < lo + ((n + 1 : Nat) : Int) ∧ j ≤ smax) by omega)]
            grind
        · rw [if_neg (show ¬ j - so = sl by omega), if_neg hj, if_neg hj]
          by_cases hA : lo ≤ j ∧ j < lo + (n : Int) ∧ j ≤ smax
          · rw [if_pos hA, if_pos (show lo ≤ j ∧ j < lo + ((n + 1 : Nat) : Int) ∧ j ≤ smax by omega)]
            grind
          · rw [if_neg hA, if_neg (show ¬ (lo ≤ j ∧ j < lo + ((n + 1 : Nat) : Int) ∧ j ≤ smax) by omega)]
            grind
    · obtain ⟨b2, hb2, hsz2, hat2⟩ := addAt_eq b1 (lo + n - so) (at0 ob (lo + n - oo))
        (by rw [hsz1]; exact hi2 (by omega))
      refine ⟨b2, ?_, by rw [hsz2, hsz1], ?_⟩
      · rw [irange_succ_right, List.foldlM_append, hb1]
        simp only [Option.bind_eq_bind, Option.bind_some, List.foldlM_cons, List.foldlM_nil,
          rd_eq ob _ hi1, if_neg hlt, hb2, Option.pure_def]
      · intro j
        rw [hat2, hat1]
        simp only [rsum]
        rw [if_neg hlt]
        by_cases hj : j = lo + n
        · rw [if_pos (show j - so = lo + ↑n - so by omega)]
          rw [if_neg (show ¬ (lo ≤ j ∧ j < lo + (n : Int) ∧ j ≤ smax) by omega),
            if_pos (show lo ≤ j ∧ j < lo + ((n + 1 : Nat) : Int) ∧ j ≤ smax by omega), hj]
          split <;> grind
        · rw [if_neg (show ¬ (j - so = lo + ↑n - so) by omega)]
          by_cases hA : lo ≤ j ∧ j < lo + (n : Int) ∧ j ≤ smax
          · rw [if_pos hA, if_pos (show lo ≤ j ∧ j < lo + ((n + 1 : Nat) : Int) ∧ j ≤ smax by omega)]
            split <;> grind
          · rw [if_neg hA, if_neg (show ¬ (lo ≤ j ∧ j < lo + ((n + 1 : Nat) : Int) ∧ j ≤ smax) by omega)]
            split <;> grind

/-- the mass of `o` above `e`, as collected by the merge loop, is `cumH o (e + 1)` -/
theorem rsum_above_eq_cumH (o : DStore) (m : Int) (n : Nat) (hz1 : ∀ j, j < m → wt o j = 0)
    (hz2 : ∀ j, m + n ≤ j → wt o j = 0) (e : Int) :
    rsum (fun k => if k > e then wt o k else 0) m n = cumH o (e + 1) := by
  have hb := rsum_below_eq_cum o m n hz1 hz2 (e + 1)
  rw [show e + 1 - 1 = e by omega] at hb
  have htot : rsum (wt o) m n = o.bins.toList.sum :=
    (sum_eq_window o.bins o.offset m n (fun j hj => by
      rcases hj with hj | hj
      · exact hz1 j hj
      · exact hz2 j hj)).symm
  have hsplit : rsum (wt o) m n = rsum (fun k => if k > e then wt o k else 0) m n +
      rsum (fun k => if k < e + 1 then wt o k else 0) m n := by
    rw [← rsum_add]
    apply rsum_congr
    intro j _ _
    by_cases hj : j > e
    · rw [if_pos hj, if_neg (by omega)]; grind
    · rw [if_neg hj, if_pos (by omega)]; grind
  unfold cumH
  rw [show e + 1 - 1 = e by omega, ← hb, ← htot, hsplit]
  grind

theorem high_mergeSame_cont (N M : Nat) (s o s1 : DStore) (hs : InvHigh N s) (ho : InvHigh M o)
    (h0 : o.count ≠ 0)
    (x : ExtHigh N s s1 (min o.minIndex s.minIndex) (max o.maxIndex s.maxIndex)) :
    ∃ s', (do
        let b ← (idxRange o.minIndex o.maxIndex).foldlM (fun b idx => do
            let c ← rd o.bins (idx - o.offset)
            if idx > s1.maxIndex then addAt b (s1.len - 1) c else addAt b (idx - s1.offset) c) s1.bins
        pure ({ s1 with bins := b, count := s1.count + o.count } : DStore)) = some s' ∧
      InvHigh N s' ∧ s'.count = s.count + o.count ∧
      s'.minIndex = min o.minIndex s.minIndex ∧
      s'.maxIndex = min (max o.maxIndex s.maxIndex) (min o.minIndex s.minIndex + N - 1) ∧
      ∀ j, wt s' j = foldWH (fun k => wt s k + wt o k)
        (cumH s (min o.minIndex s.minIndex + N - 1) + cumH o (min o.minIndex s.minIndex + N - 1))
        (min o.minIndex s.minIndex + N - 1) j := by
  have hN := hs.hN
  have hopos : 0 < o.count := by have := ho.count_nonneg; grind
  obtain ⟨ow1, ow2, ow3⟩ := ho.window h0
  have holen : o.len = (o.bins.size : Int) := rfl
  have hlen1 : s1.len = (s1.bins.size : Int) := rfl
  have hmi := x.minI
  have hma := x.maxI
  have ho1 := x.off
  have ho2 := x.hi
  have hozlo : ∀ j, j < o.minIndex → wt o j = 0 := fun j hj => ho.outside j (Or.inl hj)
  have hozhi : ∀ j, o.maxIndex < j → wt o j = 0 := fun j hj => ho.outside j (Or.inr hj)
  have hin : ∀ idx, o.minIndex ≤ idx → idx < o.minIndex + ((o.maxIndex - o.minIndex + 1).toNat : Int) →
      (0 ≤ idx - o.offset ∧ idx - o.offset < o.bins.size) ∧
      (idx ≤ s1.maxIndex → 0 ≤ idx - s1.offset ∧ idx - s1.offset < s1.bins.size) := by
    intro idx h1 h2
    exact ⟨by omega, fun _ => by omega⟩
  obtain ⟨b', hb', hsz, hat⟩ := high_merge_loop o.bins o.offset s1.offset s1.maxIndex (s1.len - 1) _
    o.minIndex s1.bins (by omega) hin
  rw [idxRange_eq, hb']
  simp only [Option.bind_eq_bind, Option.bind_some, Option.pure_def]
  -- room above the window: nothing of `o` lies above the window
  have htop : s1.maxIndex < s1.offset + (s1.len - 1) → cumH o (s1.maxIndex + 1) = 0 := by
    intro hlt
    have : ¬ (min o.minIndex s.minIndex + N - 1 < max o.maxIndex s.maxIndex) := by
      intro hh
      obtain ⟨c1, c2⟩ := x.collOf hh
      obtain ⟨_, d2, d3⟩ := x.coll c1
      omega
    exact cumH_zero_of_gt o o.maxIndex hozhi _ (by omega)
  have hat' : ∀ j, at0 b' (j - s1.offset) =
      wt s1 j + foldWH (wt o) (cumH o s1.maxIndex) s1.maxIndex j := by
    intro j
    have hB := rsum_above_eq_cumH o o.minIndex (o.maxIndex - o.minIndex + 1).toNat hozlo
      (fun k hk => hozhi k (by omega)) s1.maxIndex
    simp only [wt] at hB
    rw [hat, hB]
    show wt s1 j + _ + _ = _
    rw [Rat.add_assoc]
    congr 1
    unfold foldWH
    have hstep := cumH_step o s1.maxIndex
    have hA : j ≤ s1.maxIndex →
        (if o.minIndex ≤ j ∧ j < o.minIndex + ((o.maxIndex - o.minIndex + 1).toNat : Int) ∧
          j ≤ s1.maxIndex then at0 o.bins (j - o.offset) else 0) = wt o j := by
      intro hj
      split
      · rfl
      · exact (ho.outside j (by omega)).symm
    by_cases hj1 : s1.maxIndex < j
    · rw [if_pos hj1, if_neg (by omega)]
      by_cases hjo : j = s1.offset + (s1.len - 1)
      · rw [if_pos hjo, htop (by omega)]; grind
      · rw [if_neg hjo]; grind
    · rw [if_neg hj1, hA (by omega)]
      by_cases hj2 : j = s1.maxIndex
      · rw [if_pos hj2]
        by_cases hjo : j = s1.offset + (s1.len - 1)
        · rw [if_pos hjo, hstep, hj2]; grind
        · rw [if_neg hjo, hstep, htop (by omega), hj2]; grind
      · rw [if_neg hj2, if_neg (show ¬ j = s1.offset + (s1.len - 1) by omega)]
        grind
  have hmn : min o.minIndex s.minIndex ≤ s.minIndex := by omega
  have hmx : s.maxIndex ≤ max o.maxIndex s.maxIndex := by omega
  refine ⟨_, rfl, ?_, by simp only [x.count], hmi, hma, ?_⟩
  · refine x.finish hs hmn hmx (by omega) b' hsz (foldWH (wt o) (cumH o s1.maxIndex) s1.maxIndex)
      o.count hopos
      (foldWH_nonneg _ _ _ ho.wt_nonneg (cumH_nonneg o ho.wt_nonneg _))
      (fun j hj => ?_) hat' ?_
    · unfold foldWH
      rcases hj with hj | hj
      · rw [if_neg (by omega), if_neg (by omega)]
        exact hozlo j (by omega)
      · rw [if_pos hj]
    · rw [sum_add_foldWH s1 o b' s1.maxIndex hsz hat', ho.countEq]
  · intro j
    show at0 b' (j - s1.offset) = _
    rw [hat', x.wtEq, hma]
    by_cases hc : min o.minIndex s.minIndex + N - 1 ≤ max o.maxIndex s.maxIndex
    · rw [show min (max o.maxIndex s.maxIndex) (min o.minIndex s.minIndex + N - 1)
        = min o.minIndex s.minIndex + N - 1 by omega]
      unfold foldWH
      split
      · grind
      · split <;> rfl
    · rw [show min (max o.maxIndex s.maxIndex) (min o.minIndex s.minIndex + N - 1)
        = max o.maxIndex s.maxIndex by omega]
      have hg : foldWH (wt o) (cumH o (max o.maxIndex s.maxIndex)) (max o.maxIndex s.maxIndex) j
          = wt o j := by
        unfold foldWH
        by_cases hj1 : max o.maxIndex s.maxIndex < j
        · rw [if_pos hj1, hozhi j (by omega)]
        · rw [if_neg hj1]
          by_cases hj2 : j = max o.maxIndex s.maxIndex
          · rw [if_pos hj2, hj2, cumH_eq_wt_of_ge o o.maxIndex hozhi _ (by omega)]
          · rw [if_neg hj2]
      rw [hg]
      unfold foldWH
      dsimp only
      by_cases hj1 : min o.minIndex s.minIndex + N - 1 < j
      · rw [if_pos hj1, if_pos hj1, hozhi j (by omega)]; grind
      · rw [if_neg hj1, if_neg hj1]
        by_cases hj2 : j = min o.minIndex s.minIndex + N - 1
        · rw [if_pos hj2, if_pos hj2, hozhi j (by omega),
            cumH_zero_of_gt o o.maxIndex hozhi _ (by omega)]
        · rw [if_neg hj2, if_neg hj2]

theorem high_mergeSame_full (hG : GrowthOK) (N M : Nat) (s o : DStore) (hs : InvHigh N s)
    (ho : InvHigh M o) (hsp : SpanOK s o.minIndex o.maxIndex) :
    ∃ s', s.mergeSame o = some s' ∧ InvHigh N s' ∧ s'.count = s.count + o.count ∧
      (o.count ≠ 0 → s'.minIndex = min o.minIndex s.minIndex ∧
        s'.maxIndex = min (max o.maxIndex s.maxIndex) (min o.minIndex s.minIndex + N - 1) ∧
        ∀ j, wt s' j = foldWH (fun k => wt s k + wt o k)
          (cumH s (min o.minIndex s.minIndex + N - 1) + cumH o (min o.minIndex s.minIndex + N - 1))
          (min o.minIndex s.minIndex + N - 1) j) := by
  unfold mergeSame
  by_cases he : o.isEmpty = true
  · rw [if_pos he]
    have h0 := (isEmpty_iff_count o).1 he
    exact ⟨s, rfl, hs, by rw [h0]; grind, fun hne => absurd h0 hne⟩
  · rw [if_neg he]
    have h0 : o.count ≠ 0 := fun h0 => he ((isEmpty_iff_count o).2 h0)
    obtain ⟨ow1, ow2, ow3⟩ := ho.window h0
    by_cases hc : o.minIndex < s.minIndex ∨ o.maxIndex > s.maxIndex
    · obtain ⟨s1, hs1e, x⟩ := high_extendRange_spec hG N s hs o.minIndex o.maxIndex ow2 hsp
      simp only [if_pos hc, hs1e, Option.bind_eq_bind, Option.bind_some, Option.pure_def, x.kind]
      have key := high_mergeSame_cont N M s o s1 hs ho h0 x
      simp only [Option.bind_eq_bind, Option.pure_def, x.kind] at key
      obtain ⟨s', k1, k2, k3, k4⟩ := key
      exact ⟨s', k1, k2, k3, fun _ => k4⟩
    · have hsc : s.count ≠ 0 := hs.nonempty_of_le (by omega)
      have x := ExtHigh.self hs hsc
      rw [show s.minIndex = min o.minIndex s.minIndex by omega,
        show s.maxIndex = max o.maxIndex s.maxIndex by omega] at x
      simp only [if_neg hc, Option.bind_eq_bind, Option.bind_some, Option.pure_def, hs.kind]
      have key := high_mergeSame_cont N M s o s hs ho h0 x
      simp only [Option.bind_eq_bind, Option.pure_def, hs.kind] at key
      obtain ⟨s', k1, k2, k3, k4⟩ := key
      exact ⟨s', k1, k2, k3, fun _ => k4⟩

theorem high_mergeSame_tight (hG : GrowthOK) (N M : Nat) (s o : DStore) (hs : InvHigh N s)
    (ho : InvHigh M o) (ts : Tight32 s) (to : Tight32 o) :
    ∀ s', s.mergeSame o = some s' → Tight32 s' := by
  intro s' hs'
  obtain ⟨s'', h1, hinv, hcnt, hrest⟩ := high_mergeSame_full hG N M s o hs ho
    (hs.spanOK ts _ _ (ho.window32 to).1 (ho.window32 to).2)
  rw [h1] at hs'
  cases hs'
  by_cases h0 : o.count = 0
  · have : s.mergeSame o = some s := by
      unfold mergeSame; rw [if_pos ((isEmpty_iff_count o).2 h0)]
    rw [this] at h1; cases h1; exact ts
  · obtain ⟨hmi, hma, hwt⟩ := hrest h0
    have hN := hs.hN
    intro _
    have hnns := hs.wt_nonneg
    have hnno := ho.wt_nonneg
    have hcs := cumH_nonneg s hnns
    have hco := cumH_nonneg o hnno
    obtain ⟨op1, op2, ob1, ob2⟩ := to h0
    have ole := (ho.window h0).2.1
    have hold : (s.count = 0 ∧ s.minIndex = maxInt32 ∧ s.maxIndex = minInt32) ∨
        (s.count ≠ 0 ∧ s.minIndex ≤ s.maxIndex ∧ 0 < wt s s.minIndex ∧ 0 < wt s s.maxIndex ∧
          minInt32 ≤ s.minIndex ∧ s.maxIndex ≤ maxInt32) := by
      by_cases h0 : s.count = 0
      · exact Or.inl ⟨h0, (hs.empty h0).2.1, (hs.empty h0).2.2.1⟩
      · exact Or.inr ⟨h0, (hs.window h0).2.1, ts h0⟩
    simp only [maxInt32, minInt32] at hold ob1 ob2 ⊢
    refine ⟨?_, ?_, by omega, by omega⟩
    · rw [hwt, hmi]
      unfold foldWH
      dsimp only
      rw [if_neg (by omega)]
      have hpos : 0 < wt s (min o.minIndex s.minIndex) + wt o (min o.minIndex s.minIndex) := by
        have c1 := hnns (min o.minIndex s.minIndex)
        have c2 := hnno (min o.minIndex s.minIndex)
        by_cases hle : o.minIndex ≤ s.minIndex
        · rw [show min o.minIndex s.minIndex = o.minIndex by omega] at c1 c2 ⊢; grind
        · rcases hold with ⟨_, e1, e2⟩ | ⟨_, _, hp1, hp2, _, _⟩
          · omega
          · rw [show min o.minIndex s.minIndex = s.minIndex by omega] at c1 c2 ⊢; grind
      by_cases hN1 : min o.minIndex s.minIndex = min o.minIndex s.minIndex + N - 1
      · rw [if_pos hN1, ← hN1]
        have := cumH_ge_wt s hnns (min o.minIndex s.minIndex)
        have := cumH_ge_wt o hnno (min o.minIndex s.minIndex)
        grind
      · rw [if_neg hN1]; exact hpos
    · rw [hwt, hma]
      unfold foldWH
      dsimp only
      by_cases hc : min o.minIndex s.minIndex + N - 1 ≤ max o.maxIndex s.maxIndex
      · rw [show min (max o.maxIndex s.maxIndex) (min o.minIndex s.minIndex + N - 1)
          = min o.minIndex s.minIndex + N - 1 by omega, if_neg (by omega), if_pos rfl]
        have c1 := hcs (min o.minIndex s.minIndex + N - 1)
        have c2 := hco (min o.minIndex s.minIndex + N - 1)
        by_cases hle : s.maxIndex ≤ o.maxIndex
        · have h3 := cumH_ge_wt o hnno o.maxIndex
          have h4 := cumH_anti o hnno (min o.minIndex s.minIndex + N - 1) o.maxIndex (by omega)
          grind
        · rcases hold with ⟨_, e1, e2⟩ | ⟨_, _, hp1, hp2, _, _⟩
          · omega
          · have h3 := cumH_ge_wt s hnns s.maxIndex
            have h4 := cumH_anti s hnns (min o.minIndex s.minIndex + N - 1) s.maxIndex (by omega)
            grind
      · rw [show min (max o.maxIndex s.maxIndex) (min o.minIndex s.minIndex + N - 1)
          = max o.maxIndex s.maxIndex by omega, if_neg (by omega), if_neg (by omega)]
        have c1 := hnns (max o.maxIndex s.maxIndex)
        have c2 := hnno (max o.maxIndex s.maxIndex)
        by_cases hle : s.maxIndex ≤ o.maxIndex
        · rw [show max o.maxIndex s.maxIndex = o.maxIndex by omega] at c1 c2 ⊢; grind
        · rcases hold with ⟨_, e1, e2⟩ | ⟨_, _, hp1, hp2, _, _⟩
          · omega
          · rw [show max o.maxIndex s.maxIndex = s.maxIndex by omega] at c1 c2 ⊢; grind

/-! ## `mergeBins`, `clear`, `reweight` (highest-collapsing) -/

theorem high_mergeBins_inv (hG : GrowthOK) (N : Nat) (s : DStore) (h : InvHigh N s) (ht : Tight32 s)
    (l : List (Int × Rat)) (hl : ∀ p ∈ l, 0 ≤ p.2)
    (hl32 : ∀ p ∈ l, minInt32 ≤ p.1 ∧ p.1 ≤ maxInt32) :
    ∃ s', s.mergeBins l = some s' ∧ InvHigh N s' ∧ s'.count = s.count + (l.map (·.2)).sum := by
  unfold mergeBins
  induction l generalizing s with
  | nil => exact ⟨s, rfl, h, by simp; grind⟩
  | cons p l ih =>
    obtain ⟨s1, h1, hi1, hc1, _⟩ := high_addWithCount_full hG N s h p.1 p.2 (hl p (by simp))
      (h.spanOK ht _ _ (hl32 p (by simp)) (hl32 p (by simp)))
    have ht1 := high_addWithCount_tight hG N s h ht p.1 p.2 (hl p (by simp)) (hl32 p (by simp)) s1 h1
    obtain ⟨s2, h2, hi2, hc2⟩ := ih s1 hi1 ht1 (fun q hq => hl q (by simp [hq]))
      (fun q hq => hl32 q (by simp [hq]))
    refine ⟨s2, ?_, hi2, ?_⟩
    · rw [List.foldlM_cons, h1]; exact h2
    · rw [hc2, hc1, List.map_cons, List.sum_cons]; grind

theorem invHigh_clear (N : Nat) (s : DStore) (h : InvHigh N s) : InvHigh N s.clear where
  kind := h.kind
  hN := h.hN
  nonneg := by intro j; simp [clear, at0_empty]
  countEq := by simp [clear]
  empty := by intro _; simp [clear]
  window := by intro hc; exact absurd rfl hc
  outside := by intro i _; simp [wt, clear, at0_empty]
  lenLe := by simp [clear]
  collapsed := by intro hc; simp [clear] at hc

theorem high_reweight_full (N : Nat) (s : DStore) (h : InvHigh N s) (w : Rat) (hw : 0 < w) :
    ∃ s', s.reweight w = some s' ∧ InvHigh N s' ∧ (∀ j, wt s' j = wt s j * w) ∧
      s'.count = s.count * w ∧ s'.minIndex = s.minIndex ∧ s'.maxIndex = s.maxIndex ∧
      s'.offset = s.offset ∧ s'.bins.size = s.bins.size := by
  obtain ⟨b', hb', hsz, hat⟩ := reweight_loop s.offset w _ s.minIndex s.bins h.window_in
  simp only [reweight, idxRange_eq, Option.bind_eq_bind, Option.pure_def]
  simp only [Option.bind_eq_bind] at hb'
  rw [hb']
  simp only [Option.bind_some]
  have hwt' : ∀ j, wt ({ s with bins := b', count := s.count * w } : DStore) j = wt s j * w := by
    intro j
    simp only [wt]
    rw [hat]
    by_cases hj : s.minIndex ≤ j ∧ j < s.minIndex + ((s.maxIndex - s.minIndex + 1).toNat : Int)
    · rw [if_pos hj]
    · rw [if_neg hj]
      have := h.outside j (by omega)
      simp only [wt] at this
      rw [this]; grind
  have hnn' : ∀ j, 0 ≤ wt ({ s with bins := b', count := s.count * w } : DStore) j := by
    intro j; rw [hwt']; exact Rat.mul_nonneg (h.wt_nonneg j) (Rat.le_of_lt hw)
  have hcz : s.count * w = 0 → s.count = 0 := by
    intro hz
    rcases Rat.mul_eq_zero.1 hz with h1 | h1
    · exact h1
    · grind
  refine ⟨_, rfl, ?_, hwt', rfl, rfl, rfl, rfl, hsz⟩
  refine
    { kind := h.kind
      hN := h.hN
      nonneg := nonneg_of_wt _ hnn'
      countEq := ?_
      empty := ?_
      window := ?_
      outside := ?_
      lenLe := by show b'.size ≤ N; rw [hsz]; exact h.lenLe
      collapsed := ?_ }
  · show s.count * w = b'.toList.sum
    rw [sum_mul_of_wt s.bins b' s.offset s.offset w hwt', h.countEq]
  · intro hz
    have := h.empty (hcz hz)
    exact ⟨by show b'.size = 0; rw [hsz]; exact this.1, this.2⟩
  · intro hnz
    have h0 : s.count ≠ 0 := by
      intro h0; apply hnz; show s.count * w = 0; rw [h0]; grind
    obtain ⟨w1, w2, w3⟩ := h.window h0
    exact ⟨w1, w2, by simp only [len, hsz]; exact w3⟩
  · intro j hj
    rw [hwt', h.outside j hj]; grind
  · intro hc
    have := h.collapsed hc
    show s.offset = s.minIndex ∧ b'.size = N ∧ s.maxIndex - s.minIndex + 1 = N
    rw [hsz]; exact this

theorem high_reweight_tight (N : Nat) (s : DStore) (h : InvHigh N s) (ht : Tight32 s) (w : Rat)
    (hw : 0 < w) : ∀ s', s.reweight w = some s' → Tight32 s' := by
  intro s' hs'
  obtain ⟨s'', h1, _, h2, h3, h4, h5, _⟩ := high_reweight_full N s h w hw
  rw [h1] at hs'
  cases hs'
  intro hc
  have h0 : s.count ≠ 0 := by
    intro h0; apply hc; rw [h3, h0]; grind
  obtain ⟨p1, p2, b1, b2⟩ := ht h0
  rw [h2, h2, h4, h5]
  exact ⟨Rat.mul_pos p1 hw, Rat.mul_pos p2 hw, b1, b2⟩

end DStore

/-! ## SPEC stratum: the mirror facts for `foldHigh` / `specHigh` -/

namespace Content

/-- `Σ_{k ≥ e}` of a content -/
def cumulH (m : Content) (e : Int) : Rat := m.total - m.cumul (e - 1)

theorem wsum_ge (m : Content) (e : Int) : wsum (fun i => decide (e ≤ i)) m = cumulH m e := by
  unfold cumulH
  induction m with
  | nil => simp only [wsum_nil, total_nil, cumul_nil]; grind
  | cons p rest ih =>
    simp only [wsum_cons, total_cons, cumul_cons, ih, decide_eq_true_eq]
    by_cases h : e ≤ p.1
    · rw [if_pos h, if_neg (by omega)]; grind
    · rw [if_neg h, if_pos (by omega)]; grind

theorem cumulH_add (m : Content) (i : Int) (w : Rat) (e : Int) :
    cumulH (m.add i w) e = cumulH m e + if e ≤ i then w else 0 := by
  unfold cumulH
  rw [total_add, cumul_add]
  by_cases h : e ≤ i
  · rw [if_pos h, if_neg (by omega)]; grind
  · rw [if_neg h, if_pos (by omega)]; grind

theorem cumulH_merge (a b : Content) (e : Int) : cumulH (a.merge b) e = cumulH a e + cumulH b e := by
  unfold cumulH
  rw [total_merge, cumul_merge]; grind

theorem cumulH_scale (m : Content) (w : Rat) (e : Int) : cumulH (m.scale w) e = cumulH m e * w := by
  unfold cumulH
  rw [total_scale, cumul_scale]; grind

theorem minIndex?_scale (m : Content) (w : Rat) : (m.scale w).minIndex? = m.minIndex? := by
  cases m with
  | nil => rfl
  | cons p rest => simp

/-- the pointwise description of `foldHigh` -/
theorem lookup_foldHigh (m : Content) (e j : Int) :
    (foldHigh m e).lookup j = DStore.foldWH m.lookup (m.cumulH e) e j := by
  unfold foldHigh DStore.foldWH
  rw [lookup_eq_wsum, wsum_relabel]
  by_cases h1 : e < j
  · rw [if_pos h1, ← wsum_false m]
    apply wsum_congr
    intro i
    simp only [decide_eq_false_iff_not]
    split <;> omega
  · rw [if_neg h1]
    by_cases h2 : j = e
    · rw [if_pos h2, ← wsum_ge]
      apply wsum_congr
      intro i
      simp only [decide_eq_decide]
      split <;> omega
    · rw [if_neg h2, lookup_eq_wsum]
      apply wsum_congr
      intro i
      simp only [decide_eq_decide]
      split <;> omega

theorem eq_specHigh_of_fold (N : Nat) (c' m : Content) (hc' : WF c') (hm : WF m) (mn : Int)
    (hmn : m.minIndex? = some mn)
    (h : ∀ j, c'.lookup j = DStore.foldWH m.lookup (m.cumulH (mn + N - 1)) (mn + N - 1) j) :
    c' = specHigh N m :=
  ext c' (specHigh N m) hc' (wf_specHigh N m hm)
    (fun j => by rw [specHigh_of_min N m mn hmn, lookup_foldHigh, h])

theorem specHigh_scale (N : Nat) (m : Content) (hm : WF m) (w : Rat) (hw : 0 < w) :
    specHigh N (m.scale w) = (specHigh N m).scale w := by
  cases hmin : m.minIndex? with
  | none =>
    have : m = [] := minIndex?_eq_none.1 hmin
    subst this; rfl
  | some mn =>
    apply ext _ _ (wf_specHigh N _ (wf_scale m w hm hw)) (wf_scale _ w (wf_specHigh N m hm) hw)
    intro j
    rw [specHigh_of_min N (m.scale w) mn (by rw [minIndex?_scale]; exact hmin),
      specHigh_of_min N m mn hmin, lookup_scale, lookup_foldHigh, lookup_foldHigh, cumulH_scale]
    unfold DStore.foldWH
    split
    · grind
    · split
      · rfl
      · exact lookup_scale m w j

end Content

namespace DStore

/-! ## contents of the highest-collapsing store -/

theorem high_content_spec (N : Nat) (s : DStore) (h : InvHigh N s) :
    s.binsList = some (content s) ∧ Content.WF (content s) ∧
      ∀ j, (content s).lookup j = wt s j :=
  content_spec_gen s h.wt_nonneg h.outside h.window_in

/-- the total of the canonical content is the sum of the array (kind-independent) -/
theorem total_eq_sum_gen (s : DStore) (c : Content) (hc : Content.WF c)
    (hl : ∀ j, c.lookup j = wt s j) : c.total = s.bins.toList.sum := by
  rw [← cum_eq_total s (s.offset + s.bins.size) (fun j hj => at0_ge _ _ (by omega))
    (s.offset + s.bins.size) (Int.le_refl _), ← cumul_eq_cum s c hc hl]
  symm
  apply Content.cumul_eq_total_of_le
  intro p hp
  have h1 := Content.lookup_pos_of_mem c hc p hp
  have h2 := hc.2 p hp
  rw [hl] at h1
  apply Classical.byContradiction
  intro hlt
  unfold wt at h1
  rw [at0_ge _ _ (by omega)] at h1
  grind

theorem cumulH_eq_cumH (s : DStore) (c : Content) (hc : Content.WF c)
    (hl : ∀ j, c.lookup j = wt s j) (e : Int) : c.cumulH e = cumH s e := by
  unfold Content.cumulH cumH
  rw [total_eq_sum_gen s c hc hl, cumul_eq_cum s c hc hl]

theorem high_content_eq_specHigh (N : Nat) (s' : DStore) (h' : InvHigh N s') (m : Content)
    (hm : Content.WF m) (hmn : m.minIndex? = some s'.minIndex)
    (hw : ∀ j, wt s' j = foldWH m.lookup (m.cumulH (s'.minIndex + N - 1)) (s'.minIndex + N - 1) j) :
    content s' = Content.specHigh N m := by
  obtain ⟨_, hwf, hlk⟩ := high_content_spec N s' h'
  exact Content.eq_specHigh_of_fold N (content s') m hwf hm s'.minIndex hmn
    (fun j => by rw [hlk, hw])

theorem high_content_empty (N : Nat) (s : DStore) (h : InvHigh N s) (h0 : s.count = 0) :
    content s = [] := by
  obtain ⟨_, hwf, hlk⟩ := high_content_spec N s h
  exact Content.eq_nil_of_lookup_zero _ hwf (fun j => by rw [hlk, h.wt_zero_of_empty h0])

theorem high_content_max (N : Nat) (s : DStore) (h : InvHigh N s) (ht : Tight32 s) (h0 : s.count ≠ 0) :
    (content s).maxIndex? = some s.maxIndex ∧ (content s).minIndex? = some s.minIndex := by
  obtain ⟨_, hwf, hlk⟩ := high_content_spec N s h
  obtain ⟨p1, p2, _, _⟩ := ht h0
  exact ⟨Content.maxIndex?_of_lookup _ hwf _ (by rw [hlk]; exact p2)
      (fun j hj => by rw [hlk]; exact h.outside j (Or.inr hj)),
    Content.minIndex?_of_lookup _ hwf _ (by rw [hlk]; exact p1)
      (fun j hj => by rw [hlk]; exact h.outside j (Or.inl hj))⟩

theorem high_content_fixed (N : Nat) (s : DStore) (h : InvHigh N s) (ht : Tight32 s) :
    Content.specHigh N (content s) = content s := by
  by_cases h0 : s.count = 0
  · rw [high_content_empty N s h h0]; rfl
  · obtain ⟨_, hwf, hlk⟩ := high_content_spec N s h
    have hsp := h.span_le h0
    refine (high_content_eq_specHigh N s h (content s) hwf (high_content_max N s h ht h0).2 ?_).symm
    intro j
    rw [h.self_fold s.minIndex (fun _ => by omega) j, cumulH_eq_cumH s _ hwf hlk]
    unfold foldWH
    rw [hlk]

/-- every add is safe and is "exact add, then fold at `min + N − 1`" -/
theorem high_addWithCount_ok (hG : GrowthOK) (N : Nat) (s : DStore) (h : InvHigh N s)
    (ht : Tight32 s) (i : Int) (w : Rat) (hw : 0 ≤ w) (hi : minInt32 ≤ i ∧ i ≤ maxInt32) :
    ∃ s', s.addWithCount i w = some s' ∧ InvHigh N s' ∧ Tight32 s' ∧ s'.count = s.count + w ∧
      content s' = Content.specHigh N ((content s).add i w) := by
  obtain ⟨s', h1, hinv, hcnt, hrest⟩ := high_addWithCount_full hG N s h i w hw
    (h.spanOK ht i i hi hi)
  have ht' := high_addWithCount_tight hG N s h ht i w hw hi s' h1
  refine ⟨s', h1, hinv, ht', hcnt, ?_⟩
  by_cases hw0 : w = 0
  · have : s.addWithCount i w = some s := by unfold addWithCount; rw [if_pos hw0]
    rw [this] at h1; cases h1
    rw [hw0, Content.add_zero_weight, high_content_fixed N s h ht]
  · obtain ⟨hmi, hma, hwt⟩ := hrest hw0
    obtain ⟨_, hwf, hlk⟩ := high_content_spec N s h
    have hm := Content.wf_add (content s) i w hwf hw
    have hlm : ∀ k, ((content s).add i w).lookup k = wt s k + if k = i then w else 0 := by
      intro k; rw [Content.lookup_add, hlk]
    apply high_content_eq_specHigh N s' hinv _ hm
    · apply Content.minIndex?_of_lookup _ hm
      · rw [hlm, hmi]
        have hnn := h.wt_nonneg (min i s.minIndex)
        by_cases him : min i s.minIndex = i
        · rw [if_pos him]; grind
        · rw [if_neg him]
          have h0 : s.count ≠ 0 := by
            intro h0
            have e2 := (h.empty h0).2.1
            have hi2 := hi.2
            simp only [maxInt32] at e2 hi2; omega
          have := (ht h0).1
          rw [show min i s.minIndex = s.minIndex by omega]; grind
      · intro j hj
        rw [hlm, h.outside j (by omega), if_neg (by omega)]; grind
    · intro j
      rw [hmi, hwt]
      unfold addFoldH
      have hf : (fun k => wt s k + if k = i then w else 0) = ((content s).add i w).lookup :=
        funext (fun k => (hlm k).symm)
      rw [hf, Content.cumulH_add, cumulH_eq_cumH s _ hwf hlk]

/-- EVERY same-kind merge is safe (any two limits, widths, emptiness) and is
    "exact merge, then fold at `min + N − 1`" -/
theorem high_mergeSame_ok (hG : GrowthOK) (N M : Nat) (s o : DStore) (hs : InvHigh N s)
    (ho : InvHigh M o) (ts : Tight32 s) (to : Tight32 o) :
    ∃ s', s.mergeSame o = some s' ∧ InvHigh N s' ∧ Tight32 s' ∧ s'.count = s.count + o.count ∧
      content s' = Content.specHigh N ((content s).merge (content o)) := by
  obtain ⟨s', h1, hinv, hcnt, hrest⟩ := high_mergeSame_full hG N M s o hs ho
    (hs.spanOK ts _ _ (ho.window32 to).1 (ho.window32 to).2)
  have ht' := high_mergeSame_tight hG N M s o hs ho ts to s' h1
  refine ⟨s', h1, hinv, ht', hcnt, ?_⟩
  obtain ⟨_, hwfs, hlks⟩ := high_content_spec N s hs
  obtain ⟨_, hwfo, hlko⟩ := high_content_spec M o ho
  by_cases h0 : o.count = 0
  · have : s.mergeSame o = some s := by
      unfold mergeSame; rw [if_pos ((isEmpty_iff_count o).2 h0)]
    rw [this] at h1; cases h1
    rw [high_content_empty M o ho h0, Content.merge_nil_right, high_content_fixed N s hs ts]
  · obtain ⟨hmi, hma, hwt⟩ := hrest h0
    have hm := Content.wf_merge _ _ hwfs hwfo
    have hlm : ∀ k, ((content s).merge (content o)).lookup k = wt s k + wt o k := by
      intro k; rw [Content.lookup_merge, hlks, hlko]
    have hN := hs.hN
    apply high_content_eq_specHigh N s' hinv _ hm
    · apply Content.minIndex?_of_lookup _ hm
      · rw [hlm, hmi]
        have c1 := hs.wt_nonneg (min o.minIndex s.minIndex)
        have c2 := ho.wt_nonneg (min o.minIndex s.minIndex)
        by_cases hle : o.minIndex ≤ s.minIndex
        · have := (to h0).1
          rw [show min o.minIndex s.minIndex = o.minIndex by omega] at c1 c2 ⊢; grind
        · have hs0 : s.count ≠ 0 := by
            intro hs0
            have e2 := (hs.empty hs0).2.1
            have ole := (ho.window h0).2.1
            have ob := (to h0).2.2.2
            simp only [maxInt32] at e2 ob; omega
          have := (ts hs0).1
          rw [show min o.minIndex s.minIndex = s.minIndex by omega] at c1 c2 ⊢; grind
      · intro j hj
        rw [hlm, hs.outside j (by omega), ho.outside j (by omega)]; grind
    · intro j
      rw [hmi, hwt]
      have hf : (fun k => wt s k + wt o k) = ((content s).merge (content o)).lookup :=
        funext (fun k => (hlm k).symm)
      rw [hf, Content.cumulH_merge, cumulH_eq_cumH s _ hwfs hlks, cumulH_eq_cumH o _ hwfo hlko]

theorem high_mergeBins_ok (hG : GrowthOK) (N : Nat) (s : DStore) (h : InvHigh N s) (ht : Tight32 s)
    (l : List (Int × Rat)) (hl : ∀ p ∈ l, 0 ≤ p.2)
    (hl32 : ∀ p ∈ l, minInt32 ≤ p.1 ∧ p.1 ≤ maxInt32) :
    ∃ s', s.mergeBins l = some s' ∧ InvHigh N s' ∧ Tight32 s' ∧
      s'.count = s.count + (l.map (·.2)).sum ∧
      content s' = Content.specHigh N ((content s).merge (Content.ofList l)) := by
  unfold mergeBins
  induction l generalizing s with
  | nil =>
    refine ⟨s, rfl, h, ht, by simp; grind, ?_⟩
    show _ = Content.specHigh N ((content s).merge [])
    rw [Content.merge_nil_right, high_content_fixed N s h ht]
  | cons p l ih =>
    obtain ⟨s1, h1, hi1, ht1, hc1, hct1⟩ :=
      high_addWithCount_ok hG N s h ht p.1 p.2 (hl p (by simp)) (hl32 p (by simp))
    obtain ⟨s2, h2, hi2, ht2, hc2, hct2⟩ := ih s1 hi1 ht1 (fun q hq => hl q (by simp [hq]))
      (fun q hq => hl32 q (by simp [hq]))
    refine ⟨s2, ?_, hi2, ht2, ?_, ?_⟩
    · rw [List.foldlM_cons, h1]; exact h2
    · rw [hc2, hc1, List.map_cons, List.sum_cons]; grind
    · obtain ⟨_, hwf, _⟩ := high_content_spec N s h
      have hwl := wf_ofList l (fun q hq => hl q (by simp [hq]))
      have hwpl := wf_ofList (p :: l) hl
      have hwa := Content.wf_add (content s) p.1 p.2 hwf (hl p (by simp))
      rw [hct2, hct1, Content.specHigh_merge_specHigh N h.hN _ _ hwa hwl]
      congr 1
      apply Content.ext _ _ (Content.wf_merge _ _ hwa hwl) (Content.wf_merge _ _ hwf hwpl)
      intro j
      rw [Content.lookup_merge, Content.lookup_merge, Content.lookup_add, lookup_ofList,
        lookup_ofList, Content.lookup_cons]
      by_cases hj : j = p.1
      · rw [if_pos hj, if_pos hj.symm]; grind
      · rw [if_neg hj, if_neg (fun hh => hj hh.symm)]; grind

theorem high_clear_ok (N : Nat) (s : DStore) (h : InvHigh N s) :
    InvHigh N s.clear ∧ Tight32 s.clear ∧ s.clear.count = 0 ∧ content s.clear = [] :=
  ⟨invHigh_clear N s h, fun hc => absurd rfl hc, rfl,
    high_content_empty N s.clear (invHigh_clear N s h) rfl⟩

theorem high_reweight_ok (N : Nat) (s : DStore) (h : InvHigh N s) (ht : Tight32 s) (w : Rat)
    (hw : 0 < w) :
    ∃ s', s.reweight w = some s' ∧ InvHigh N s' ∧ Tight32 s' ∧ s'.count = s.count * w ∧
      content s' = (content s).scale w := by
  obtain ⟨s', h1, hinv, hwt, hcnt, _⟩ := high_reweight_full N s h w hw
  refine ⟨s', h1, hinv, high_reweight_tight N s h ht w hw s' h1, hcnt, ?_⟩
  obtain ⟨_, hwf, hlk⟩ := high_content_spec N s h
  obtain ⟨_, hwf', hlk'⟩ := high_content_spec N s' hinv
  apply Content.ext _ _ hwf' (Content.wf_scale _ w hwf hw)
  intro j
  rw [hlk', hwt, Content.lookup_scale, hlk]

theorem high_bounded (N : Nat) (s : DStore) (h : InvHigh N s) :
    s.bins.size ≤ N ∧ (content s).length ≤ N ∧ (s.count ≠ 0 → s.maxIndex - s.minIndex + 1 ≤ N) := by
  refine ⟨h.lenLe, ?_, h.span_le⟩
  by_cases h0 : s.count = 0
  · rw [high_content_empty N s h h0]; simp
  · obtain ⟨_, hwf, hlk⟩ := high_content_spec N s h
    have hsp := h.span_le h0
    apply Content.length_le_of_sorted_range _ hwf.1 s.minIndex N
    intro p hp
    have h1 := Content.lookup_pos_of_mem _ hwf p hp
    have h2 := hwf.2 p hp
    rw [hlk] at h1
    have : ¬ (p.1 < s.minIndex ∨ s.maxIndex < p.1) := by
      intro hc; rw [h.outside _ hc] at h1; grind
    omega

theorem high_total (N : Nat) (s : DStore) (h : InvHigh N s) : s.totalCount = (content s).total := by
  obtain ⟨_, hwf, hlk⟩ := high_content_spec N s h
  show s.count = _
  rw [h.countEq, total_eq_sum_gen s _ hwf hlk]

theorem high_binsList_spec (N : Nat) (s : DStore) (h : InvHigh N s) :
    s.binsList = some (content s) ∧ Content.WF (content s) ∧
      ∀ j, (content s).lookup j = wt s j := high_content_spec N s h

theorem high_isEmpty (N : Nat) (s : DStore) (h : InvHigh N s) :
    s.isEmpty = (content s).isEmpty := by
  obtain ⟨_, hwf, _⟩ := high_content_spec N s h
  have ht := high_total N s h
  have h1 := isEmpty_iff_count s
  have h2 := Content.isEmpty_iff_total_zero (content s) hwf
  have : s.totalCount = s.count := rfl
  rw [Bool.eq_iff_iff, h1, h2, ← ht, this]

theorem high_minIndex? (N : Nat) (s : DStore) (h : InvHigh N s) (ht : Tight32 s) :
    s.minIndex? = (content s).minIndex? := by
  unfold minIndex?
  by_cases h0 : s.count = 0
  · rw [if_pos ((isEmpty_iff_count s).2 h0), high_content_empty N s h h0]; rfl
  · rw [if_neg (fun he => h0 ((isEmpty_iff_count s).1 he)), (high_content_max N s h ht h0).2]

theorem high_maxIndex? (N : Nat) (s : DStore) (h : InvHigh N s) (ht : Tight32 s) :
    s.maxIndex? = (content s).maxIndex? := by
  unfold maxIndex?
  by_cases h0 : s.count = 0
  · rw [if_pos ((isEmpty_iff_count s).2 h0), high_content_empty N s h h0]; rfl
  · rw [if_neg (fun he => h0 ((isEmpty_iff_count s).1 he)), (high_content_max N s h ht h0).1]

/-! ## every reachable state / histories (highest-collapsing) -/

theorem high_applyOp_ok (hG : GrowthOK) (N : Nat) (s : DStore) (h : InvHigh N s) (ht : Tight32 s)
    (op : Op) (hop : op.ok32) :
    ∃ s', applyOp s op = some s' ∧ InvHigh N s' ∧ Tight32 s' := by
  cases op with
  | add i w =>
    obtain ⟨s', h1, h2, _⟩ := high_addWithCount_full hG N s h i w hop.1 (h.spanOK ht i i hop.2 hop.2)
    exact ⟨s', h1, h2, high_addWithCount_tight hG N s h ht i w hop.1 hop.2 s' h1⟩
  | clear => exact ⟨s.clear, rfl, invHigh_clear N s h, fun hc => absurd rfl hc⟩
  | reweight w =>
    simp only [applyOp]
    by_cases hc : w ≤ 0 ∨ w = 1
    · rw [if_pos hc]; exact ⟨s, rfl, h, ht⟩
    · rw [if_neg hc]
      have hw : 0 < w := by grind
      obtain ⟨s', h1, h2, _⟩ := high_reweight_full N s h w hw
      exact ⟨s', h1, h2, high_reweight_tight N s h ht w hw s' h1⟩

theorem high_run_from (hG : GrowthOK) (N : Nat) (ops : List Op) (s : DStore) (h : InvHigh N s)
    (ht : Tight32 s) (hops : ∀ op ∈ ops, op.ok32) :
    ∃ s', ops.foldlM applyOp s = some s' ∧ InvHigh N s' ∧ Tight32 s' := by
  induction ops generalizing s with
  | nil => exact ⟨s, rfl, h, ht⟩
  | cons op ops ih =>
    obtain ⟨s1, h1, hi1, ht1⟩ := high_applyOp_ok hG N s h ht op (hops op (by simp))
    obtain ⟨s2, h2, hi2, ht2⟩ := ih s1 hi1 ht1 (fun q hq => hops q (by simp [hq]))
    exact ⟨s2, by rw [List.foldlM_cons, h1]; exact h2, hi2, ht2⟩

theorem high_run_ok (hG : GrowthOK) (N : Nat) (hN : 1 ≤ N) (ops : List Op)
    (hops : ∀ op ∈ ops, op.ok32) :
    ∃ s, ops.foldlM applyOp (DStore.new (.high N)) = some s ∧ InvHigh N s := by
  obtain ⟨s, h1, h2, _⟩ := high_run_from hG N ops _ (invHigh_new N hN) (tight32_new _) hops
  exact ⟨s, h1, h2⟩

theorem specHigh_add_specHigh (N : Nat) (hN : 1 ≤ N) (E : Content) (hE : Content.WF E) (i : Int)
    (w : Rat) (hw : 0 ≤ w) :
    Content.specHigh N ((Content.specHigh N E).add i w) = Content.specHigh N (E.add i w) := by
  by_cases hw0 : w = 0
  · rw [hw0, Content.add_zero_weight, Content.add_zero_weight, Content.specHigh_idem N hN E hE]
  · have hwf : Content.WF [(i, w)] := by
      rw [Content.wf_cons]
      exact ⟨by show 0 < w; grind, by simp, Content.wf_nil⟩
    rw [Content.add_eq_merge_singleton, Content.add_eq_merge_singleton,
      Content.specHigh_merge_specHigh N hN E _ hE hwf]

theorem high_step_ok32 (hG : GrowthOK) (N : Nat) (s : DStore) (h : InvHigh N s) (ht : Tight32 s)
    (E : Content) (hE : Content.WF E) (hcs : content s = Content.specHigh N E) (op : Op)
    (hop : op.ok32) :
    ∃ s', applyOp s op = some s' ∧ InvHigh N s' ∧ Tight32 s' ∧
      content s' = Content.specHigh N (specStep E op) := by
  cases op with
  | add i w =>
    obtain ⟨s', h1, h2, h3, _, h5⟩ := high_addWithCount_ok hG N s h ht i w hop.1 hop.2
    refine ⟨s', h1, h2, h3, ?_⟩
    rw [h5, hcs]
    exact specHigh_add_specHigh N h.hN E hE i w hop.1
  | clear =>
    obtain ⟨h2, h3, _, h5⟩ := high_clear_ok N s h
    exact ⟨s.clear, rfl, h2, h3, by rw [h5]; rfl⟩
  | reweight w =>
    simp only [applyOp, specStep]
    by_cases hc : w ≤ 0 ∨ w = 1
    · rw [if_pos hc, if_pos hc]; exact ⟨s, rfl, h, ht, hcs⟩
    · rw [if_neg hc, if_neg hc]
      have hw : 0 < w := by grind
      obtain ⟨s', h1, h2, h3, _, h5⟩ := high_reweight_ok N s h ht w hw
      refine ⟨s', h1, h2, h3, ?_⟩
      rw [h5, hcs, Content.specHigh_scale N E hE w hw]

theorem high_history_from (hG : GrowthOK) (N : Nat) (ops : List Op) (s : DStore) (h : InvHigh N s)
    (ht : Tight32 s) (E : Content) (hE : Content.WF E) (hcs : content s = Content.specHigh N E)
    (hops : ∀ op ∈ ops, op.ok32) :
    ∃ s', ops.foldlM applyOp s = some s' ∧ InvHigh N s' ∧ Tight32 s' ∧
      content s' = Content.specHigh N (ops.foldl specStep E) := by
  induction ops generalizing s E with
  | nil => exact ⟨s, rfl, h, ht, hcs⟩
  | cons op ops ih =>
    have hop := hops op (by simp)
    obtain ⟨s1, h1, hi1, ht1, hc1⟩ := high_step_ok32 hG N s h ht E hE hcs op hop
    obtain ⟨s2, h2, hi2, ht2, hc2⟩ := ih s1 hi1 ht1 (specStep E op) (wf_specStep E hE op hop) hc1
      (fun q hq => hops q (by simp [hq]))
    exact ⟨s2, by rw [List.foldlM_cons, h1]; exact h2, hi2, ht2, hc2⟩

/-- after ANY history (int32 indexes, non-negative weights) the highest-collapsing store does not
    panic, keeps its invariant, and its content is the exact content folded ONCE at `min + N − 1` -/
theorem high_history (hG : GrowthOK) (N : Nat) (hN : 1 ≤ N) (ops : List Op)
    (hops : ∀ op ∈ ops, op.ok32) :
    ∃ s, ops.foldlM applyOp (DStore.new (.high N)) = some s ∧ InvHigh N s ∧ Tight32 s ∧
      content s = Content.specHigh N (exactContent ops) :=
  high_history_from hG N ops _ (invHigh_new N hN) (tight32_new _) [] Content.wf_nil
    (by rw [high_content_empty N _ (invHigh_new N hN) rfl]; rfl) hops

/-! ## `keyAtRank` agrees with the spec-level rank lookup (both collapsing kinds) -/

/-- rank lookup, kind-independent form of `Dense.keyAtRank_spec` -/
theorem keyAtRank_spec_gen (s : DStore) (hcnt : s.count = s.bins.toList.sum) (r : Rat) :
    let k := s.keyAtRank r
    let r' := if r < 0 then 0 else r
    (r' < cum s k ∧ ∀ j, j < k → cum s j ≤ r') ∨ (s.count ≤ r' ∧ k = s.maxIndex) := by
  intro k r'
  have hr' : (0 : Rat) ≤ r' := by
    show (0 : Rat) ≤ if r < 0 then 0 else r
    split <;> grind
  have hf : ∀ m : Nat, m < s.bins.toList.length → at0 s.bins (0 + m) = s.bins.toList[m]?.getD 0 := by
    intro m _
    rw [Int.zero_add, at0_nat]; simp
  rcases keyAtRank_go_spec s r' (at0 s.bins) s.bins.toList 0 0 hf hr' with
    ⟨m, hm, hgo, hlt, hall⟩ | ⟨hle, hgo⟩
  · left
    have hk : k = m + s.offset := by
      show s.keyAtRank r = _
      unfold keyAtRank
      rw [hgo]; omega
    rw [hk, cum_at]
    refine ⟨by grind, ?_⟩
    intro j hj
    by_cases hjo : j < s.offset
    · rw [cum_of_lt s j hjo]; exact hr'
    · obtain ⟨m', hm'⟩ : ∃ m' : Nat, j = m' + s.offset := ⟨(j - s.offset).toNat, by omega⟩
      rw [hm', cum_at]
      have := hall (m' + 1) (by omega)
      grind
  · right
    refine ⟨?_, by show s.keyAtRank r = _; unfold keyAtRank; exact hgo⟩
    rw [hcnt, sum_eq_rsum s.bins 0]
    simp only [Array.length_toList] at hle
    have : rsum (fun j => at0 s.bins (j - 0)) 0 s.bins.size = rsum (at0 s.bins) 0 s.bins.size :=
      rsum_congr _ _ (fun j _ _ => by simp)
    rw [this]; grind

theorem keyAtRank_eq_content_gen (s : DStore) (c : Content) (hwf : Content.WF c)
    (hlk : ∀ j, c.lookup j = wt s j) (hnn : ∀ j, 0 ≤ wt s j)
    (hcnt : s.count = s.bins.toList.sum) (hne : s.count ≠ 0)
    (hmax : c.maxIndex? = some s.maxIndex) (r : Rat) :
    s.keyAtRank r = c.keyAtRank r := by
  have htot := total_eq_sum_gen s c hwf hlk
  have hcne : c ≠ [] := by
    intro hc
    rw [hc] at htot
    apply hne
    rw [hcnt, ← htot]; rfl
  have hcum : ∀ e, c.cumul e = cum s e := cumul_eq_cum s c hwf hlk
  have hle : ∀ e, cum s e ≤ s.count := fun e => by rw [hcnt]; exact cum_le_total s hnn e
  have A := keyAtRank_spec_gen s hcnt r
  have B := Content.keyAtRank_spec c hwf hcne r
  simp only [hcum] at B
  rw [htot, ← hcnt] at B
  rcases A with ⟨a1, a2⟩ | ⟨a1, a2⟩
  · rcases B with ⟨b1, b2⟩ | ⟨b1, b2⟩
    · -- both are "the first index whose cumulative weight exceeds the rank"
      have h1 : s.keyAtRank r ≤ c.keyAtRank r := by
        apply Classical.byContradiction
        intro hlt
        have := a2 (c.keyAtRank r) (by omega)
        grind
      have h2 : c.keyAtRank r ≤ s.keyAtRank r := by
        apply Classical.byContradiction
        intro hlt
        have hstep := cum_step' s (s.keyAtRank r)
        have hprev := a2 (s.keyAtRank r - 1) (by omega)
        have hpos : 0 < c.lookup (s.keyAtRank r) := by rw [hlk]; grind
        obtain ⟨w, hw⟩ := (Content.lookup_pos_iff c hwf _).1 hpos
        have := b2 _ hw (by simp only; omega)
        simp only at this
        grind
      omega
    · have := hle (s.keyAtRank r); grind
  · rcases B with ⟨b1, b2⟩ | ⟨b1, b2⟩
    · have := hle (c.keyAtRank r); grind
    · rw [hmax] at b2
      rw [a2]; exact Option.some.inj b2

theorem low_keyAtRank_eq (N : Nat) (s : DStore) (h : InvLow N s) (ht : Tight32 s)
    (h0 : s.count ≠ 0) (r : Rat) : s.keyAtRank r = (content s).keyAtRank r := by
  obtain ⟨_, hwf, hlk⟩ := low_content_spec N s h
  exact keyAtRank_eq_content_gen s _ hwf hlk h.wt_nonneg h.countEq h0
    (low_content_max N s h ht h0).1 r

theorem high_keyAtRank_eq (N : Nat) (s : DStore) (h : InvHigh N s) (ht : Tight32 s)
    (h0 : s.count ≠ 0) (r : Rat) : s.keyAtRank r = (content s).keyAtRank r := by
  obtain ⟨_, hwf, hlk⟩ := high_content_spec N s h
  exact keyAtRank_eq_content_gen s _ hwf hlk h.wt_nonneg h.countEq h0
    (high_content_max N s h ht h0).1 r

theorem high_keyAtRank_spec (N : Nat) (s : DStore) (h : InvHigh N s) (r : Rat) :
    let k := s.keyAtRank r
    let r' := if r < 0 then 0 else r
    (r' < cum s k ∧ ∀ j, j < k → cum s j ≤ r') ∨ (s.count ≤ r' ∧ k = s.maxIndex) :=
  keyAtRank_spec_gen s h.countEq r

/-! ## discrepancy for indexes above the int32 range (highest-collapsing)

Mirror image of `low_below_int32_discrepancy`: the empty store starts from the sentinel
`minIndex = MaxInt32`; adding `i > MaxInt32` leaves `minIndex = MaxInt32`, so the store folds at
`MaxInt32 + N − 1` instead of `i + N − 1`.  With `N = 3`, the weight added at `MaxInt32 + 5` is
stored at `MaxInt32 + 2`, whereas `specHigh 3` keeps it at `MaxInt32 + 5`. -/
theorem high_above_int32_discrepancy (hG : GrowthOK) :
    ∃ s', (DStore.new (.high 3)).addWithCount (maxInt32 + 5) 1 = some s' ∧
      s'.minIndex = maxInt32 ∧ wt s' (maxInt32 + 5) = 0 ∧ wt s' (maxInt32 + 2) = 1 ∧
      (Content.specHigh 3 ((content (DStore.new (.high 3))).add (maxInt32 + 5) 1)).lookup
        (maxInt32 + 5) = 1 := by
  obtain ⟨s', h1, _, _, h4⟩ := high_addWithCount_full hG 3 (DStore.new (.high 3))
    (invHigh_new 3 (by omega)) (maxInt32 + 5) 1 (by decide) (by unfold SpanOK; decide)
  obtain ⟨hmi, _, hwt⟩ := h4 (by decide)
  have hw0 : ∀ j, wt (DStore.new (.high 3)) j = 0 := fun j => by simp [wt, DStore.new, at0_empty]
  have hc0 : ∀ e, cumH (DStore.new (.high 3)) e = 0 := fun e => cumH_zero_of_all _ hw0 e
  have hmin : min (maxInt32 + 5) (DStore.new (.high 3)).minIndex = maxInt32 := by
    simp only [DStore.new, maxInt32]; omega
  rw [hmin] at hmi hwt
  refine ⟨s', h1, hmi, ?_, ?_, ?_⟩
  · rw [hwt]; unfold addFoldH foldWH
    rw [if_pos (by simp only [maxInt32]; omega)]
  · rw [hwt]; unfold addFoldH foldWH
    rw [if_neg (by simp only [maxInt32]; omega), if_pos (by simp only [maxInt32]; omega), hc0,
      if_pos (by simp only [maxInt32]; omega)]
    grind
  · have hc : content (DStore.new (.high 3)) = [] :=
      high_content_empty 3 _ (invHigh_new 3 (by omega)) rfl
    rw [hc]
    have : Content.add [] (maxInt32 + 5) 1 = [(maxInt32 + 5, 1)] := by
      rw [Content.add_nil, if_neg (by decide)]
    rw [this, Content.specHigh_of_min 3 _ (maxInt32 + 5) (by simp), Content.lookup_foldHigh]
    unfold foldWH
    rw [if_neg (by simp only [maxInt32]; omega), if_neg (by simp only [maxInt32]; omega)]
    simp only [Content.lookup_cons, Content.lookup_nil]
    grind

end DStore
end DDS
