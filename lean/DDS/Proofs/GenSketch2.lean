/-
  DDS.Proofs.GenSketch2 — the METHOD-BY-METHOD EQUIVALENCE THEOREMS announced in
  `DDS/Proofs/GenSketch.lean`: every method of the REGENERATED `DDSketch` /
  `DDSketchWithExactSummaryStatistics` (`DDS/Generated/CodeSketch.lean`), instantiated with the
  model's mapping oracle and stores, equals the corresponding operation of the hand-written model
  `DDS.Sketch` / `DDS.XSketch`, for ALL inputs.  Where the model answers `none` (Go panics / outside
  the model) nothing is claimed; where it answers `some …` the generated code returns exactly the
  corresponding Go pair.

  Core Lean only.
-/
import DDS.Proofs.GenSketch

namespace DDS.GenSketch

open DDS DDS.GoSem DDS.Gen.Sketch

/-! ### small facts -/

theorem named_ne_nil (m : String) : (GoErr.named m != GoErr.nil) = true := by
  simp

theorem nil_bne_nil : (GoErr.nil != GoErr.nil) = false := by
  simp

/-- the validity test of a quantile, as the model writes it and as the Go code writes it -/
theorem quantile_guard (q : F64) :
    (!(F64.le (.fin 0) q && F64.le q (.fin 1))) =
      ((F64.lt q (.fin 0) || F64.lt (.fin 1) q) || F64.isNaN q) := by
  cases q with
  | fin r =>
    rw [Bool.eq_iff_iff]
    simp only [F64.le, F64.lt, F64.eq, F64.isNaN, Bool.not_eq_true', Bool.and_eq_false_iff,
      Bool.or_eq_false_iff, Bool.or_eq_true, decide_eq_false_iff_not, decide_eq_true_eq,
      beq_eq_false_iff_ne, ne_eq, Bool.or_false]
    grind
  | pinf => decide
  | ninf => decide
  | nan => decide

/-- the index Go hands to the store: `Index(value)` on the positive side, `Index(-value)` on the
    negative side (the model's `addWithCount` takes it as an argument) -/
def goIdx (env : MapEnv) (v : F64) : Int :=
  if F64.lt env.minIndexable v then env.index v else env.index (F64.neg v)

/-! ### plain sketch: constructor, copy, clear, observers -/

theorem NewDDSketch_eq (env : MapEnv) (m : Option MapId) (k : StoreKind) :
    NewDDSketch env (Store.new k) (Store.new k) = toGen env (Sketch.new m k) := rfl

/-- … for any two stores -/
theorem NewDDSketch_eq' (env : MapEnv) (m : Option MapId) (p n : Store) :
    NewDDSketch env p n = toGen env { mapping := m, pos := p, neg := n, zero := .fin 0 } := rfl

theorem Copy_eq (env : MapEnv) (s : Sketch) : DDSketch.Copy (toGen env s) = toGen env s := rfl

theorem Clear_eq (env : MapEnv) (s : Sketch) : DDSketch.Clear (toGen env s) = toGen env s.clear := rfl

theorem GetCount_eq (env : MapEnv) (s : Sketch) : DDSketch.GetCount (toGen env s) = s.getCount := rfl

theorem GetZeroCount_eq (env : MapEnv) (s : Sketch) : DDSketch.GetZeroCount (toGen env s) = s.zero := rfl

theorem IsEmpty_eq (env : MapEnv) (s : Sketch) : DDSketch.IsEmpty (toGen env s) = s.isEmpty := rfl

/-! ### `AddWithCount`, `Add` -/

/-- `AddWithCount`, for any index argument of the model that is the one Go computes on the side the
    value is routed to -/
theorem AddWithCount_rel_idx (env : MapEnv) (s : Sketch) (v c : F64) (idx : Int)
    (hp : F64.lt env.minIndexable v = true → idx = env.index v)
    (hn : F64.lt env.minIndexable v = false → idx = env.index (F64.neg v)) :
    StepRel env s (s.addWithCount env v c idx) (DDSketch.AddWithCount (toGen env s) v c) := by
  unfold Sketch.addWithCount DDSketch.AddWithCount
  simp only [F64.gt, toGen_mapping, map_min, map_max, map_index, toGen_pos, toGen_neg, toGen_zero,
    store_addWithCount]
  by_cases h0 : F64.lt c (.fin 0) = true
  · simp [h0, StepRel, goErr?]
  · simp only [h0, Bool.false_eq_true, if_false]
    by_cases h1 : F64.lt env.minIndexable v = true
    · simp only [h1, if_true]
      by_cases h2 : F64.lt env.maxIndexable v = true
      · simp [h2, StepRel, goErr?]
      · simp only [h2, Bool.false_eq_true, if_false]
        rw [← hp h1]
        cases c with
        | fin w =>
          cases hs : s.pos.addWithCount idx w with
          | none => simp [Sketch.ratOf?, hs, StepRel]
          | some p => simp [Sketch.ratOf?, hs, StepRel, storeAddF, Sketch.addF, toGen]
        | pinf => simp [Sketch.ratOf?, StepRel]
        | ninf => simp [Sketch.ratOf?, StepRel]
        | nan => simp [Sketch.ratOf?, StepRel]
    · simp only [h1, Bool.false_eq_true, if_false]
      by_cases h3 : F64.lt v (F64.neg env.minIndexable) = true
      · simp only [h3, if_true]
        by_cases h4 : F64.lt v (F64.neg env.maxIndexable) = true
        · simp [h4, StepRel, goErr?]
        · simp only [h4, Bool.false_eq_true, if_false]
          rw [← hn (by simpa using h1)]
          cases c with
          | fin w =>
            cases hs : s.neg.addWithCount idx w with
            | none => simp [Sketch.ratOf?, hs, StepRel]
            | some p => simp [Sketch.ratOf?, hs, StepRel, storeAddF, Sketch.addF, toGen]
          | pinf => simp [Sketch.ratOf?, StepRel]
          | ninf => simp [Sketch.ratOf?, StepRel]
          | nan => simp [Sketch.ratOf?, StepRel]
      · simp only [h3, Bool.false_eq_true, if_false]
        by_cases h5 : v.isNaN = true
        · simp [h5, StepRel, goErr?]
        · simp only [h5, Bool.false_eq_true, if_false]
          cases c with
          | fin w => simp [Sketch.ratOf?, StepRel, toGen]
          | pinf => simp [Sketch.ratOf?, StepRel]
          | ninf => simp [Sketch.ratOf?, StepRel]
          | nan => simp [Sketch.ratOf?, StepRel]

/-- `AddWithCount(value, count)` -/
theorem AddWithCount_rel (env : MapEnv) (s : Sketch) (v c : F64) :
    StepRel env s (s.addWithCount env v c (goIdx env v)) (DDSketch.AddWithCount (toGen env s) v c) := by
  apply AddWithCount_rel_idx
  · intro h; simp [goIdx, h]
  · intro h; simp [goIdx, h]

/-- `Add(value)` is `AddWithCount(value, 1)` -/
theorem Add_eq_AddWithCount (g : DDSketch MapEnv Store) (v : F64) :
    DDSketch.Add g v = DDSketch.AddWithCount g v (.fin 1) := rfl

theorem Add_rel (env : MapEnv) (s : Sketch) (v : F64) :
    StepRel env s (s.addWithCount env v (.fin 1) (goIdx env v)) (DDSketch.Add (toGen env s) v) := by
  rw [Add_eq_AddWithCount]; exact AddWithCount_rel env s v (.fin 1)

/-- with a mapping whose smallest indexable value is not negative, the index Go computes is the
    index of the magnitude: the model's `Sketch.addV` is `AddWithCount` on finite arguments -/
theorem goIdx_rabs (env : MapEnv) (mn v : Rat) (hmin : env.minIndexable = .fin mn) (hmn : 0 ≤ mn) :
    (F64.lt env.minIndexable (.fin v) = true → env.index (.fin (rabs v)) = env.index (.fin v)) ∧
    (F64.lt (.fin v) (F64.neg env.minIndexable) = true →
      env.index (.fin (rabs v)) = env.index (F64.neg (.fin v))) := by
  rw [hmin]
  simp only [F64.lt, F64.neg, decide_eq_true_eq, rabs]
  constructor
  · intro h
    have : ¬ v < 0 := by grind
    rw [if_neg this]
  · intro h
    have : v < 0 := by grind
    rw [if_pos this]

theorem addWithCount_idx_irrelevant (env : MapEnv) (s : Sketch) (v c : F64) (i j : Int)
    (hp : F64.lt env.minIndexable v = true → i = j)
    (hn : F64.lt env.minIndexable v = false → F64.lt v (F64.neg env.minIndexable) = true → i = j) :
    s.addWithCount env v c i = s.addWithCount env v c j := by
  unfold Sketch.addWithCount
  simp only [F64.gt]
  by_cases h1 : F64.lt env.minIndexable v = true
  · rw [hp h1]
  · by_cases h3 : F64.lt v (F64.neg env.minIndexable) = true
    · rw [hn (by simpa using h1) h3]
    · simp [h1, h3]

theorem AddV_rel (env : MapEnv) (s : Sketch) (mn v c : Rat)
    (hmin : env.minIndexable = .fin mn) (hmn : 0 ≤ mn) :
    StepRel env s (s.addV env v c) (DDSketch.AddWithCount (toGen env s) (.fin v) (.fin c)) := by
  have h := AddWithCount_rel env s (.fin v) (.fin c)
  have hi := goIdx_rabs env mn v hmin hmn
  unfold Sketch.addV
  rw [addWithCount_idx_irrelevant env s (.fin v) (.fin c) (env.index (.fin (rabs v)))
    (goIdx env (.fin v))]
  · exact h
  · intro h1; simp only [goIdx, h1, if_true]; exact hi.1 h1
  · intro h1 h3; simp only [goIdx, h1, Bool.false_eq_true, if_false]; exact hi.2 h3

/-! ### `GetValueAtQuantile` -/

theorem GetValueAtQuantile_rel (env : MapEnv) (s : Sketch) (q : F64) :
    QRel (s.quantile env q) (DDSketch.GetValueAtQuantile (toGen env s) q) := by
  unfold Sketch.quantile DDSketch.GetValueAtQuantile
  rw [quantile_guard, GetCount_eq]
  simp only [toGen_mapping, toGen_pos, toGen_neg, toGen_zero, store_totalCount, store_keyAtRank,
    map_value, F64.one, Sketch.negTotal]
  by_cases hg : ((F64.lt q (.fin 0) || F64.lt (.fin 1) q) || F64.isNaN q) = true
  · simp [hg, QRel, goErr?, errBadQuantile]
  · simp only [hg, Bool.false_eq_true, if_false]
    by_cases hc : F64.eq s.getCount (.fin 0) = true
    · simp [hc, QRel, goErr?]
    · simp only [hc, Bool.false_eq_true, if_false]
      by_cases hr : F64.lt (F64.mul q (F64.sub s.getCount (.fin 1))) (.fin 0) = true
      · simp only [hr, if_true]
        by_cases ha : F64.lt (.fin 0) (.fin s.neg.totalCount) = true
        · simp [ha, QRel]
        · by_cases hb : F64.lt (.fin 0) (F64.add s.zero (.fin s.neg.totalCount)) = true
          · simp [ha, hb, QRel]
          · simp [ha, hb, QRel]
      · simp only [hr, Bool.false_eq_true, if_false]
        by_cases ha : F64.lt (F64.mul q (F64.sub s.getCount (.fin 1))) (.fin s.neg.totalCount) = true
        · simp [ha, QRel]
        · by_cases hb : F64.lt (F64.mul q (F64.sub s.getCount (.fin 1)))
              (F64.add s.zero (.fin s.neg.totalCount)) = true
          · simp [ha, hb, QRel]
          · simp [ha, hb, QRel]

/-! ### `GetMaxValue`, `GetMinValue`

  On an empty sketch the Go code hands back the STORE's error (`errUndefinedMinIndex`,
  store/store.go:29), not the sketch-level `errEmptySketch`; the model has a single refusal `.empty`
  for both, so the relation here names the store's error explicitly. -/

/-- model `Except SkErr F64` vs Go pair for the two extreme getters: the only refusal is `.empty`,
    reported with NaN and the store's `errUndefinedMinIndex` -/
def ExtRel : Except SkErr F64 → F64 × GoErr → Prop
  | .ok v, r => r = (v, GoErr.nil)
  | .error e, r => e = .empty ∧ r = (F64.nan, errUndefinedMinIndex)

theorem GetMaxValue_rel (env : MapEnv) (s : Sketch) :
    ExtRel (s.getMax env) (DDSketch.GetMaxValue (toGen env s)) := by
  unfold Sketch.getMax DDSketch.GetMaxValue
  simp only [toGen_mapping, toGen_pos, toGen_neg, toGen_zero, store_isEmpty, store_maxIndex,
    store_minIndex, map_value, F64.gt]
  by_cases h1 : s.pos.isEmpty = true
  · simp only [h1, Bool.not_true, Bool.false_eq_true, if_false]
    by_cases h2 : F64.lt (.fin 0) s.zero = true
    · simp [h2, ExtRel]
    · simp only [h2, Bool.false_eq_true, if_false]
      cases hm : s.neg.minIndex? with
      | none => simp [storeMinIndex, hm, ExtRel, errUndefinedMinIndex]
      | some k => simp [storeMinIndex, hm, ExtRel]
  · simp only [h1, Bool.not_false, if_true]
    cases hm : s.pos.maxIndex? with
    | none => simp [storeMaxIndex, hm, ExtRel]
    | some k => simp [storeMaxIndex, hm, ExtRel]

theorem GetMinValue_rel (env : MapEnv) (s : Sketch) :
    ExtRel (s.getMin env) (DDSketch.GetMinValue (toGen env s)) := by
  unfold Sketch.getMin DDSketch.GetMinValue
  simp only [toGen_mapping, toGen_pos, toGen_neg, toGen_zero, store_isEmpty, store_maxIndex,
    store_minIndex, map_value, F64.gt]
  by_cases h1 : s.neg.isEmpty = true
  · simp only [h1, Bool.not_true, Bool.false_eq_true, if_false]
    by_cases h2 : F64.lt (.fin 0) s.zero = true
    · simp [h2, ExtRel]
    · simp only [h2, Bool.false_eq_true, if_false]
      cases hm : s.pos.minIndex? with
      | none => simp [storeMinIndex, hm, ExtRel, errUndefinedMinIndex]
      | some k => simp [storeMinIndex, hm, ExtRel]
  · simp only [h1, Bool.not_false, if_true]
    cases hm : s.neg.maxIndex? with
    | none => simp [storeMaxIndex, hm, ExtRel]
    | some k => simp [storeMaxIndex, hm, ExtRel]

/-- the value part agrees with `QRel` (NaN on refusal, the model's value otherwise); only the
    IDENTITY of the error differs from `goErr? .empty` -/
theorem ExtRel.value {m : Except SkErr F64} {r : F64 × GoErr} (h : ExtRel m r) :
    (∀ v, m = .ok v → r = (v, GoErr.nil)) ∧
    (∀ e, m = .error e → e = .empty ∧ r.1 = F64.nan ∧ r.2 ≠ GoErr.nil) := by
  cases m with
  | ok v => exact ⟨fun w hw => (by cases hw; exact h), fun e he => (by cases he)⟩
  | error e =>
    refine ⟨fun w hw => (by cases hw), fun e' he' => ?_⟩
    cases he'
    obtain ⟨h1, h2⟩ := h
    subst h2
    exact ⟨h1, rfl, by decide⟩

/-! ### `MergeWith` -/

/-- `MergeWith`: `env`, `env'` are the mapping objects of the two sketches.  Refusal on different
    mappings with the receiver unchanged (frame condition in `StepRel`). -/
theorem MergeWith_rel (env env' : MapEnv) (s o : Sketch)
    (hs : s.mapping = some env.id) (ho : o.mapping = some env'.id) :
    StepRel env s (s.mergeWith o) (DDSketch.MergeWith (toGen env s) (toGen env' o)) := by
  unfold Sketch.mergeWith DDSketch.MergeWith
  rw [hs, ho]
  simp only [toGen_mapping, toGen_pos, toGen_neg, toGen_zero, map_equals, store_mergeWith,
    Sketch.mappingEquals]
  by_cases he : env.id.equals env'.id = true
  · simp only [he, Bool.not_true, Bool.false_eq_true, if_false]
    cases hp : s.pos.mergeWith o.pos with
    | none => simp [StepRel]
    | some p =>
      cases hn : s.neg.mergeWith o.neg with
      | none => simp [StepRel]
      | some n => simp [StepRel, toGen]
  · simp [he, StepRel, goErr?, errMismatch]

/-- the same read from the generated side: no hypothesis -/
theorem MergeWith_rel_gen (g o : DDSketch MapEnv Store) :
    StepRel g.IndexMapping (ofGen g) ((ofGen g).mergeWith (ofGen o)) (DDSketch.MergeWith g o) := by
  have h := MergeWith_rel g.IndexMapping o.IndexMapping (ofGen g) (ofGen o) rfl rfl
  simpa using h

/-! ### `Reweight` -/

/-- a positive factor is never refused by a store of the model -/
theorem store_reweight_not_error (st : Store) (q : Rat) (e : Store.RwErr) (hq : ¬ q ≤ 0) :
    st.reweight q ≠ some (.error e) := by
  intro h
  have h1 := store_reweight_error st q e h
  have h2 := (store_reweight_err_iff st (.fin q)).1 (by rw [h1]; simp [errStoreReweight])
  rw [le_fin_zero] at h2
  simp [hq] at h2

theorem Reweight_rel (env : MapEnv) (s : Sketch) (w : F64) :
    StepRel env s (s.reweight w) (DDSketch.Reweight (toGen env s) w) := by
  unfold Sketch.reweight DDSketch.Reweight
  simp only [toGen_pos, toGen_neg, toGen_zero, store_reweight, F64.one]
  by_cases h0 : F64.le w (.fin 0) = true
  · simp [h0, StepRel, goErr?, errReweight]
  · simp only [h0, Bool.false_eq_true, if_false]
    by_cases h1 : F64.eq w (.fin 1) = true
    · simp [h1, StepRel]
    · simp only [h1, Bool.false_eq_true, if_false]
      cases w with
      | fin q =>
        have hq : ¬ q ≤ 0 := by
          rw [le_fin_zero] at h0; simpa using h0
        cases hp : s.pos.reweight q with
        | none => simp [Sketch.ratOf?, hp, StepRel]
        | some rp =>
          cases rp with
          | error e => exact absurd hp (store_reweight_not_error s.pos q e hq)
          | ok p =>
            cases hn : s.neg.reweight q with
            | none => simp [Sketch.ratOf?, hp, hn, StepRel]
            | some rn =>
              cases rn with
              | error e => exact absurd hn (store_reweight_not_error s.neg q e hq)
              | ok n =>
                have e1 := store_reweight_ok s.pos p q hp
                have e2 := store_reweight_ok s.neg n q hn
                simp only [store_reweight] at e1 e2
                simp [Sketch.ratOf?, hp, hn, StepRel, e1, e2, toGen]
      | pinf => simp [Sketch.ratOf?, StepRel]
      | ninf => simp [Sketch.ratOf?, StepRel]
      | nan => simp [Sketch.ratOf?, StepRel]

/-! ## the variant with exact summary statistics -/

open DDS.Gen.Stat in
/-- `NewDDSketchWithExactSummaryStatisticsFromData`: accepted exactly when "the sketch is empty" and
    "the statistics count is zero" agree; then the two arguments are stored as they are -/
theorem XFromData_ok (env : MapEnv) (s : Sketch) (st : Summary)
    (h : s.isEmpty = F64.eq st.count (.fin 0)) :
    NewDDSketchWithExactSummaryStatisticsFromData (toGen env s) (GenStat.ofModel st) =
      (toGenX env { sk := s, st := st }, GoErr.nil) := by
  unfold NewDDSketchWithExactSummaryStatisticsFromData
  rw [IsEmpty_eq, GenStat.count_eq, GenStat.toModel_ofModel, h]
  simp [toGenX]

/-- … and refused with the documented error otherwise (Go returns a nil pointer; the translation
    returns the zero value of the structure) -/
theorem XFromData_refused (env : MapEnv) (s : Sketch) (st : Summary)
    (h : s.isEmpty ≠ F64.eq st.count (.fin 0)) :
    (NewDDSketchWithExactSummaryStatisticsFromData (toGen env s) (GenStat.ofModel st)).2 =
      errStatsMismatch := by
  unfold NewDDSketchWithExactSummaryStatisticsFromData
  rw [IsEmpty_eq, GenStat.count_eq, GenStat.toModel_ofModel]
  have : (s.isEmpty != F64.eq st.count (.fin 0)) = true := by simpa using h
  rw [if_pos this]
  rfl

/-- error ≠ nil exactly when the two emptiness tests disagree -/
theorem XFromData_err_iff (env : MapEnv) (s : Sketch) (st : Summary) :
    (NewDDSketchWithExactSummaryStatisticsFromData (toGen env s) (GenStat.ofModel st)).2 ≠ GoErr.nil ↔
      s.isEmpty ≠ F64.eq st.count (.fin 0) := by
  by_cases h : s.isEmpty = F64.eq st.count (.fin 0)
  · rw [XFromData_ok env s st h]; simp [h]
  · rw [XFromData_refused env s st h]; simp [h, errStatsMismatch]

theorem XIsEmpty_eq (env : MapEnv) (x : XSketch) :
    DDSketchWithExactSummaryStatistics.IsEmpty (toGenX env x) = x.isEmpty := rfl

theorem XGetCount_eq (env : MapEnv) (x : XSketch) :
    DDSketchWithExactSummaryStatistics.GetCount (toGenX env x) = x.getCount := rfl

theorem XGetZeroCount_eq (env : MapEnv) (x : XSketch) :
    DDSketchWithExactSummaryStatistics.GetZeroCount (toGenX env x) = x.sk.zero := rfl

theorem XGetSum_eq (env : MapEnv) (x : XSketch) :
    DDSketchWithExactSummaryStatistics.GetSum (toGenX env x) = x.getSum := by
  unfold DDSketchWithExactSummaryStatistics.GetSum XSketch.getSum
  rw [toGenX_st, GenStat.sum_eq, GenStat.toModel_ofModel]

theorem XGetMinValue_rel (env : MapEnv) (x : XSketch) :
    QRel x.getMin (DDSketchWithExactSummaryStatistics.GetMinValue (toGenX env x)) := by
  unfold DDSketchWithExactSummaryStatistics.GetMinValue XSketch.getMin
  rw [toGenX_sk, IsEmpty_eq, toGenX_st, GenStat.min_eq, GenStat.toModel_ofModel]
  by_cases h : x.sk.isEmpty = true
  · simp [h, QRel, goErr?]
  · simp [h, QRel]

theorem XGetMaxValue_rel (env : MapEnv) (x : XSketch) :
    QRel x.getMax (DDSketchWithExactSummaryStatistics.GetMaxValue (toGenX env x)) := by
  unfold DDSketchWithExactSummaryStatistics.GetMaxValue XSketch.getMax
  rw [toGenX_sk, IsEmpty_eq, toGenX_st, GenStat.max_eq, GenStat.toModel_ofModel]
  by_cases h : x.sk.isEmpty = true
  · simp [h, QRel, goErr?]
  · simp [h, QRel]

theorem lt_nan_l (x : F64) : F64.lt .nan x = false := by cases x <;> rfl
theorem lt_nan_r (x : F64) : F64.lt x .nan = false := by cases x <;> rfl

/-- `GetValueAtQuantile` of the exact variant: the plain answer clamped into `[min, max]`; a refusal
    (value NaN) passes through both comparisons -/
theorem XGetValueAtQuantile_rel (env : MapEnv) (x : XSketch) (q : F64) :
    QRel (x.quantile env q) (DDSketchWithExactSummaryStatistics.GetValueAtQuantile (toGenX env x) q) := by
  have h := GetValueAtQuantile_rel env x.sk q
  unfold DDSketchWithExactSummaryStatistics.GetValueAtQuantile XSketch.quantile
  simp only [toGenX_sk, toGenX_st, GenStat.min_eq, GenStat.max_eq, GenStat.toModel_ofModel]
  cases hm : x.sk.quantile env q with
  | ok v =>
    simp only [h.ok hm]
    simp only [Except.map, QRel, XSketch.clampTo, F64.gt]
    by_cases h1 : F64.lt v x.st.min = true
    · simp [h1]
    · by_cases h2 : F64.lt x.st.max v = true
      · simp [h1, h2]
      · simp [h1, h2]
  | error e =>
    obtain ⟨g, hg, hr⟩ := h.error hm
    simp only [hr]
    simp [Except.map, QRel, lt_nan_l, lt_nan_r, hg]

theorem XClear_eq (env : MapEnv) (x : XSketch) :
    DDSketchWithExactSummaryStatistics.Clear (toGenX env x) = toGenX env x.clear := by
  unfold DDSketchWithExactSummaryStatistics.Clear XSketch.clear
  simp only [Clear_eq, toGenX]
  congr 1

theorem XCopy_eq (env : MapEnv) (x : XSketch) :
    DDSketchWithExactSummaryStatistics.Copy (toGenX env x) = toGenX env x := rfl

/-! ### `AddWithCount`, `Add` of the exact variant -/

/-- what the Go code does, in the vocabulary of the model: as `XSketch.addWithCount`, except that
    with a zero count the plain sketch is the one RETURNED BY the plain `AddWithCount(value, 0)`
    (the model keeps the old one) -/
def xAddWithCountGo (env : MapEnv) (x : XSketch) (v c : F64) (idx : Int) :
    Option (Except SkErr XSketch) :=
  match x.sk.addWithCount env v c idx with
  | none => none
  | some (.error e) => some (.error e)
  | some (.ok sk) =>
    if F64.eq c (.fin 0) then some (.ok { x with sk := sk })
    else some (.ok { sk := sk, st := x.st.add v c })

/-- the generated `AddWithCount` of the exact variant is `xAddWithCountGo`, for all inputs -/
theorem XAddWithCount_rel_go (env : MapEnv) (x : XSketch) (v c : F64) :
    XStepRel env x (xAddWithCountGo env x v c (goIdx env v))
      (DDSketchWithExactSummaryStatistics.AddWithCount (toGenX env x) v c) := by
  have h := AddWithCount_rel env x.sk v c
  unfold DDSketchWithExactSummaryStatistics.AddWithCount xAddWithCountGo
  simp only [toGenX_sk, toGenX_st]
  cases hm : x.sk.addWithCount env v c (goIdx env v) with
  | none => simp [XStepRel]
  | some r =>
    cases r with
    | error e =>
      obtain ⟨g, hg, hr⟩ := h.error hm
      have hne : (g != GoErr.nil) = true := by simpa using goErr?_ne_nil hg
      simp only [hr]
      simp only [hne, if_true, XStepRel]
      exact ⟨rfl, hg⟩
    | ok sk =>
      simp only [h.ok hm]
      simp only [nil_bne_nil, Bool.false_eq_true, if_false]
      by_cases h0 : F64.eq c (.fin 0) = true
      · simp [h0, XStepRel, toGenX]
      · simp [h0, XStepRel, toGenX, GenStat.add_ofModel]

/-- a store of the model ignores a zero weight -/
theorem store_addWithCount_zero (st : Store) (i : Int) : st.addWithCount i 0 = some st := by
  cases st with
  | d s => simp [Store.addWithCount, DStore.addWithCount]
  | sp c => simp [Store.addWithCount, Content.add_zero_weight]
  | pg s => simp [Store.addWithCount, PStore.addWithCount]

/-- the plain `AddWithCount(value, 0)`, when accepted, changes at most the zero count, to
    `zeroCount + 0` -/
theorem addWithCount_zero_count (env : MapEnv) (s sk : Sketch) (v : F64) (idx : Int)
    (h : s.addWithCount env v (.fin 0) idx = some (.ok sk)) :
    sk = s ∨ sk = { s with zero := F64.add s.zero (.fin 0) } := by
  unfold Sketch.addWithCount at h
  simp only [Sketch.ratOf?] at h
  split at h
  · cases h
  · split at h
    · split at h
      · cases h
      · left; simp [store_addWithCount_zero] at h; exact h.symm
    · split at h
      · split at h
        · cases h
        · left; simp [store_addWithCount_zero] at h; exact h.symm
      · split at h
        · cases h
        · right; simp at h; exact h.symm

/-- `x + 0 = x` on every float64: non-finite values, and finite values on the binary64 grid -/
theorem add_zero_of_rep (z : F64) (hz : ∀ q, z = .fin q → F64.isRep q = true) :
    F64.add z (.fin 0) = z := by
  cases z with
  | fin q =>
    have := hz q rfl
    simp only [F64.add, Rat.add_zero]
    simpa [F64.isRep] using this
  | pinf => rfl
  | ninf => rfl
  | nan => rfl

/-- under `zeroCount + 0 = zeroCount` (true for every float64, `add_zero_of_rep`) the Go behaviour
    and the model coincide -/
theorem xAddWithCountGo_eq (env : MapEnv) (x : XSketch) (v c : F64) (idx : Int)
    (hz : F64.eq c (.fin 0) = true → F64.add x.sk.zero (.fin 0) = x.sk.zero) :
    xAddWithCountGo env x v c idx = x.addWithCount env v c idx := by
  unfold xAddWithCountGo XSketch.addWithCount
  cases hm : x.sk.addWithCount env v c idx with
  | none => rfl
  | some r =>
    cases r with
    | error e => rfl
    | ok sk =>
      simp only []
      by_cases h0 : F64.eq c (.fin 0) = true
      · simp only [h0, if_true]
        have hc : c = .fin 0 := by
          cases c with
          | fin w => simp only [F64.eq, beq_iff_eq] at h0; rw [h0]
          | pinf => cases h0
          | ninf => cases h0
          | nan => cases h0
        subst hc
        rcases addWithCount_zero_count env x.sk sk v idx hm with h | h
        · rw [h]
        · rw [h, hz h0]
      · simp [h0]

/-- `AddWithCount(value, count)` of the exact variant vs the model, under the hypothesis of the
    header of `GenSketch.lean`: if the count is zero then `zeroCount + 0 = zeroCount` -/
theorem XAddWithCount_rel (env : MapEnv) (x : XSketch) (v c : F64)
    (hz : F64.eq c (.fin 0) = true → F64.add x.sk.zero (.fin 0) = x.sk.zero) :
    XStepRel env x (x.addWithCount env v c (goIdx env v))
      (DDSketchWithExactSummaryStatistics.AddWithCount (toGenX env x) v c) := by
  rw [← xAddWithCountGo_eq env x v c _ hz]
  exact XAddWithCount_rel_go env x v c

/-- a non-zero count needs no hypothesis -/
theorem XAddWithCount_rel_nonzero (env : MapEnv) (x : XSketch) (v c : F64)
    (hc : F64.eq c (.fin 0) = false) :
    XStepRel env x (x.addWithCount env v c (goIdx env v))
      (DDSketchWithExactSummaryStatistics.AddWithCount (toGenX env x) v c) :=
  XAddWithCount_rel env x v c (by simp [hc])

/-- a zero count on a sketch whose zero count is a float64 -/
theorem XAddWithCount_rel_rep (env : MapEnv) (x : XSketch) (v c : F64)
    (hz : ∀ q, x.sk.zero = .fin q → F64.isRep q = true) :
    XStepRel env x (x.addWithCount env v c (goIdx env v))
      (DDSketchWithExactSummaryStatistics.AddWithCount (toGenX env x) v c) :=
  XAddWithCount_rel env x v c (fun _ => add_zero_of_rep _ hz)

/-- `Add(value)`: the plain `Add`, then the statistics absorb `(value, 1)` -/
theorem XAdd_rel (env : MapEnv) (x : XSketch) (v : F64) :
    XStepRel env x (x.addWithCount env v (.fin 1) (goIdx env v))
      (DDSketchWithExactSummaryStatistics.Add (toGenX env x) v) := by
  have h := XAddWithCount_rel_nonzero env x v (.fin 1) (by decide)
  have e : DDSketchWithExactSummaryStatistics.Add (toGenX env x) v =
      DDSketchWithExactSummaryStatistics.AddWithCount (toGenX env x) v (.fin 1) := by
    unfold DDSketchWithExactSummaryStatistics.Add DDSketchWithExactSummaryStatistics.AddWithCount
    rw [Add_eq_AddWithCount]
    have : F64.eq (.fin 1) (.fin 0) = false := by decide
    simp only [this, Bool.false_eq_true, if_false]
  rw [e]; exact h

/-! #### the discrepancy, concretely

  `zeroCount = 1/3` is not a float64.  The model's exact `AddWithCount(0, 0)` returns the receiver
  unchanged; the Go code has run `zeroCount += 0`, which rounds `1/3` to the binary64 grid. -/

def discEnv : MapEnv :=
  { id := { kind := .log, gamma := .fin 2, indexOffset := .fin 0 }
    minIndexable := .fin (1 / 1000)
    maxIndexable := .fin 1000
    relAcc := .fin (1 / 3)
    value := fun i => .fin ((i.toNat : Rat) + 1)
    lowerBound := fun i => .fin (i.toNat : Rat)
    index := fun _ => 0 }

def discX : XSketch :=
  { sk := { mapping := some discEnv.id, pos := .sp [], neg := .sp [], zero := .fin (1 / 3) },
    st := Summary.new }

theorem exact_addWithCount_zero_discrepancy :
    XSketch.addWithCount discEnv discX (.fin 0) (.fin 0) (goIdx discEnv (.fin 0)) = some (.ok discX) ∧
    (DDSketchWithExactSummaryStatistics.AddWithCount (toGenX discEnv discX) (.fin 0) (.fin 0)).2 =
      GoErr.nil ∧
    (DDSketchWithExactSummaryStatistics.AddWithCount (toGenX discEnv discX) (.fin 0) (.fin 0)).1.DDSketch.zeroCount =
      .fin (6004799503160661 / 18014398509481984) ∧
    (DDSketchWithExactSummaryStatistics.AddWithCount (toGenX discEnv discX) (.fin 0) (.fin 0)).1 ≠
      toGenX discEnv discX := by
  have hlt1 : F64.lt (.fin 0) (.fin 0) = false := by decide +kernel
  have hlt2 : F64.lt (.fin (1 / 1000)) (.fin 0) = false := by decide +kernel
  have hlt3 : F64.lt (.fin 0) (F64.neg (.fin (1 / 1000))) = false := by decide +kernel
  have hadd : F64.add (.fin (1 / 3)) (.fin 0) = .fin (6004799503160661 / 18014398509481984) := by
    decide +kernel
  have hgen : DDSketchWithExactSummaryStatistics.AddWithCount (toGenX discEnv discX) (.fin 0) (.fin 0) =
      ({ toGenX discEnv discX with
          DDSketch := { toGen discEnv discX.sk with zeroCount := .fin (6004799503160661 / 18014398509481984) } },
        GoErr.nil) := by
    unfold DDSketchWithExactSummaryStatistics.AddWithCount DDSketch.AddWithCount
    simp [discEnv, discX, toGenX, toGen, hlt1, hlt2, hlt3, hadd, F64.isNaN, F64.eq]
  refine ⟨?_, ?_, ?_, ?_⟩
  · simp [XSketch.addWithCount, Sketch.addWithCount, discEnv, discX, F64.gt, hlt1, hlt2, hlt3,
      F64.isNaN, F64.eq, Sketch.ratOf?]
  · rw [hgen]
  · rw [hgen]
  · rw [hgen]
    intro h
    have := congrArg (fun g => g.DDSketch.zeroCount) h
    simp only [toGenX, toGen, discX] at this
    revert this
    decide +kernel

/-! ### `MergeWith`, `Reweight` of the exact variant -/

theorem XMergeWith_rel (env env' : MapEnv) (x o : XSketch)
    (hs : x.sk.mapping = some env.id) (ho : o.sk.mapping = some env'.id) :
    XStepRel env x (x.mergeWith o)
      (DDSketchWithExactSummaryStatistics.MergeWith (toGenX env x) (toGenX env' o)) := by
  have h := MergeWith_rel env env' x.sk o.sk hs ho
  unfold DDSketchWithExactSummaryStatistics.MergeWith XSketch.mergeWith
  simp only [toGenX_sk, toGenX_st]
  cases hm : x.sk.mergeWith o.sk with
  | none => simp [XStepRel]
  | some r =>
    cases r with
    | error e =>
      obtain ⟨g, hg, hr⟩ := h.error hm
      have hne : (g != GoErr.nil) = true := by simpa using goErr?_ne_nil hg
      simp only [hr]
      simp only [hne, if_true, XStepRel]
      exact ⟨rfl, hg⟩
    | ok sk =>
      simp only [h.ok hm]
      simp [XStepRel, toGenX, GenStat.mergeWith_ofModel]

theorem XMergeWith_rel_gen (g o : DDSketchWithExactSummaryStatistics MapEnv Store) :
    XStepRel g.DDSketch.IndexMapping (ofGenX g) ((ofGenX g).mergeWith (ofGenX o))
      (DDSketchWithExactSummaryStatistics.MergeWith g o) := by
  have h := XMergeWith_rel g.DDSketch.IndexMapping o.DDSketch.IndexMapping (ofGenX g) (ofGenX o) rfl rfl
  simpa using h

theorem XReweight_rel (env : MapEnv) (x : XSketch) (w : F64) :
    XStepRel env x (x.reweight w) (DDSketchWithExactSummaryStatistics.Reweight (toGenX env x) w) := by
  have h := Reweight_rel env x.sk w
  unfold DDSketchWithExactSummaryStatistics.Reweight XSketch.reweight
  simp only [toGenX_sk, toGenX_st]
  cases hm : x.sk.reweight w with
  | none => simp [XStepRel]
  | some r =>
    cases r with
    | error e =>
      obtain ⟨g, hg, hr⟩ := h.error hm
      have hne : (g != GoErr.nil) = true := by simpa using goErr?_ne_nil hg
      simp only [hr]
      simp only [hne, if_true, XStepRel]
      exact ⟨rfl, hg⟩
    | ok sk =>
      simp only [h.ok hm]
      simp [XStepRel, toGenX, GenStat.reweight_ofModel]

end DDS.GenSketch
