/-
  DDS.Proofs.Codec — helper lemmas about the byte-level codecs of `DDS.Model.Codec`.
  Core Lean only.
-/
import DDS.Model.Codec

namespace DDS
namespace Codec

/-! ### uvarint64 -/

theorem encU_length_pos (f v : Nat) : 1 ≤ (encU f v).length := by
  cases f with
  | zero => simp [encU]
  | succ f => unfold encU; split <;> simp

theorem encU_length_le (f v : Nat) : (encU f v).length ≤ f + 1 := by
  induction f generalizing v with
  | zero => simp [encU]
  | succ f ih =>
    unfold encU; split
    · simp
    · have := ih (v / 128); simp; omega

theorem encU_bytes (f v : Nat) : ∀ b ∈ encU f v, b < 256 := by
  induction f generalizing v with
  | zero => intro b hb; simp [encU] at hb; omega
  | succ f ih =>
    intro b hb
    unfold encU at hb
    split at hb
    · simp at hb; omega
    · simp at hb
      rcases hb with hb | hb
      · omega
      · exact ih _ b hb

/-- Round trip of the uvarint loops, for any fuel, any starting shift and accumulator. -/
theorem decU_encU (f v shift acc : Nat) (rest : Bytes) (hv : v < 2 ^ (7 * f + 8)) :
    decU f shift acc (encU f v ++ rest) = .ok (acc + v * 2 ^ shift, rest) := by
  induction f generalizing v shift acc with
  | zero =>
    have : v % 256 = v := Nat.mod_eq_of_lt (by simpa using hv)
    simp [encU, decU, this]
  | succ f ih =>
    unfold encU
    split
    · rename_i h; simp [decU, h]
    · rename_i h
      have hp : 2 ^ (7 * (f + 1) + 8) = 128 * 2 ^ (7 * f + 8) := by
        rw [show 7 * (f + 1) + 8 = 7 + (7 * f + 8) by omega, Nat.pow_add]
      have hq : v / 128 < 2 ^ (7 * f + 8) := by
        rw [hp] at hv; omega
      have hn : ¬ (v % 128 + 128 < 128) := by omega
      simp only [List.cons_append, decU, hn, if_false]
      rw [ih (v / 128) (shift + 7) _ hq]
      have hm : (v % 128 + 128) % 128 = v % 128 := by omega
      have hs : 2 ^ (shift + 7) = 128 * 2 ^ shift := by rw [Nat.pow_add, Nat.mul_comm]
      rw [hm, hs]
      have hd : v = 128 * (v / 128) + v % 128 := (Nat.div_add_mod v 128).symm
      generalize v / 128 = q at *
      generalize v % 128 = r at *
      generalize 2 ^ shift = S at *
      subst hd
      have he : acc + r * S + q * (128 * S) = acc + (128 * q + r) * S := by
        rw [Nat.add_mul, Nat.mul_assoc, Nat.add_assoc, Nat.add_comm (r * S), Nat.mul_left_comm]
      rw [he]

/-- Every strict prefix of an encoding makes the decoding loop run out of bytes. -/
theorem decU_take_encU (f v shift acc k : Nat) (hk : k < (encU f v).length) :
    decU f shift acc ((encU f v).take k) = .error .eof := by
  induction f generalizing v shift acc k with
  | zero =>
    simp [encU] at hk; subst hk; simp [decU]
  | succ f ih =>
    unfold encU at hk ⊢
    split
    · rename_i h; simp [h] at hk; subst hk; simp [decU]
    · rename_i h
      simp [h] at hk
      cases k with
      | zero => simp [decU]
      | succ k =>
        have hn : ¬ (v % 128 + 128 < 128) := by omega
        simp only [List.take_succ_cons, decU, hn, if_false]
        exact ih _ _ _ _ (by omega)

/-- A successful run of the decoding loop consumes between 1 and `fuel + 1` bytes. -/
theorem decU_ok (f shift acc : Nat) (bs : Bytes) (v : Nat) (rest : Bytes)
    (h : decU f shift acc bs = .ok (v, rest)) :
    ∃ k, 1 ≤ k ∧ k ≤ f + 1 ∧ rest = bs.drop k := by
  induction f generalizing shift acc bs with
  | zero =>
    cases bs with
    | nil => simp [decU] at h
    | cons n tl =>
      simp [decU] at h
      exact ⟨1, by omega, by omega, by simp [h.2]⟩
  | succ f ih =>
    cases bs with
    | nil => simp [decU] at h
    | cons n tl =>
      simp only [decU] at h
      split at h
      · simp at h
        exact ⟨1, by omega, by omega, by simp [h.2]⟩
      · obtain ⟨k, h1, h2, h3⟩ := ih _ _ _ h
        exact ⟨k + 1, by omega, by omega, by simp [h3]⟩

theorem maxVarLen64_pred : Consts.maxVarLen64 - 1 = 8 := by decide

/-- `decUvarint64` in terms of the loop, on an opaque input. -/
theorem decUvarint64_of_ok (bs : Bytes) (x : Nat) (rest : Bytes)
    (h : decU 8 0 0 bs = .ok (x, rest)) :
    decUvarint64 bs = .ok (x % W64, rest) := by
  unfold decUvarint64
  rw [maxVarLen64_pred, h]

theorem decUvarint64_of_error (bs : Bytes) (e : DecErr)
    (h : decU 8 0 0 bs = .error e) :
    decUvarint64 bs = .error e := by
  unfold decUvarint64
  rw [maxVarLen64_pred, h]

theorem encUvarint64_eq (v : Nat) : encUvarint64 v = encU 8 v := by
  unfold encUvarint64
  rw [maxVarLen64_pred]

theorem decUvarint64_encUvarint64 (v : Nat) (hv : v < W64) (rest : Bytes) :
    decUvarint64 (encUvarint64 v ++ rest) = .ok (v, rest) := by
  rw [encUvarint64_eq, decUvarint64_of_ok _ _ _ (decU_encU 8 v 0 0 rest hv),
    Nat.zero_add, Nat.pow_zero, Nat.mul_one, Nat.mod_eq_of_lt hv]

theorem decUvarint64_take (v k : Nat) (hk : k < (encUvarint64 v).length) :
    decUvarint64 ((encUvarint64 v).take k) = .error .eof := by
  rw [encUvarint64_eq] at hk ⊢
  exact decUvarint64_of_error _ _ (decU_take_encU _ _ _ _ _ hk)

theorem decUvarint64_ok (bs : Bytes) (v : Nat) (rest : Bytes)
    (h : decUvarint64 bs = .ok (v, rest)) :
    ∃ k, 1 ≤ k ∧ k ≤ 9 ∧ rest = bs.drop k ∧ v < W64 := by
  unfold decUvarint64 at h
  rw [maxVarLen64_pred] at h
  split at h
  · rename_i v' rest' heq
    simp at h
    obtain ⟨k, h1, h2, h3⟩ := decU_ok _ _ _ _ _ _ heq
    refine ⟨k, h1, h2, ?_, ?_⟩
    · rw [← h.2]; exact h3
    · rw [← h.1]; exact Nat.mod_lt _ (by decide)
  · simp at h

/-! ### sizes of uvarint64 -/

/-- The length of an encoding depends only on the bit length of the value. -/
theorem encU_length_congr (f v w : Nat) (h : ∀ n, v < 2 ^ n ↔ w < 2 ^ n) :
    (encU f v).length = (encU f w).length := by
  induction f generalizing v w with
  | zero => simp [encU]
  | succ f ih =>
    have h7 : v < 128 ↔ w < 128 := h 7
    unfold encU
    by_cases hv : v < 128
    · have hw := h7.mp hv
      simp [hv, hw]
    · have hw : ¬ w < 128 := fun hw => hv (h7.mpr hw)
      simp only [hv, hw, if_false, List.length_cons]
      congr 1
      apply ih
      intro n
      have := h (n + 7)
      rw [Nat.pow_add] at this
      have e : (2 : Nat) ^ 7 = 128 := by decide
      rw [e] at this
      rw [Nat.div_lt_iff_lt_mul (by decide), Nat.div_lt_iff_lt_mul (by decide)]
      exact this

theorem allOnes_shift_lt (v n : Nat) (hv0 : v ≠ 0) (hv : v < W64) :
    (W64 - 1) / 2 ^ (63 - v.log2) < 2 ^ n ↔ v < 2 ^ n := by
  have hL : v.log2 < 64 := (Nat.log2_lt hv0).mpr hv
  rw [← Nat.log2_lt hv0, Nat.div_lt_iff_lt_mul (Nat.pow_pos (by decide)), ← Nat.pow_add]
  have h1 : W64 - 1 < 2 ^ (n + (63 - v.log2)) ↔ 2 ^ 64 ≤ 2 ^ (n + (63 - v.log2)) := by
    have : 0 < W64 := by decide
    unfold W64 at *
    omega
  rw [h1, Nat.pow_le_pow_iff_right (by decide)]
  omega

theorem uvarint64Size_eq (v : Nat) (hv : v < W64) :
    uvarint64Size v = (encUvarint64 v).length := by
  unfold uvarint64Size uvarintSizeTable lzcnt64 encUvarint64
  apply encU_length_congr
  intro n
  by_cases h0 : v = 0
  · subst h0
    have : (W64 - 1) / 2 ^ 64 = 0 := by decide
    simp [this]
  · simp only [h0, if_false]
    exact allOnes_shift_lt v n h0 hv

/-! ### zig-zag -/

theorem unzigzag_zigzag' (v : Int) : unzigzag (zigzag v) = v := by
  unfold unzigzag zigzag
  split <;> split <;> omega

theorem zigzag_unzigzag' (u : Nat) : zigzag (unzigzag u) = u := by
  unfold unzigzag zigzag
  split <;> split <;> omega

theorem zigzag_lt (v : Int) (h1 : -(2:Int)^63 ≤ v) (h2 : v < (2:Int)^63) : zigzag v < W64 := by
  unfold zigzag W64
  split <;> omega

theorem decVarint64_encVarint64 (v : Int) (h1 : -(2:Int)^63 ≤ v) (h2 : v < (2:Int)^63)
    (rest : Bytes) : decVarint64 (encVarint64 v ++ rest) = .ok (v, rest) := by
  unfold decVarint64 encVarint64
  rw [decUvarint64_encUvarint64 _ (zigzag_lt v h1 h2)]
  simp [unzigzag_zigzag']

theorem decVarint32_encVarint64 (v : Int) (h1 : -(2:Int)^63 ≤ v) (h2 : v < (2:Int)^63)
    (rest : Bytes) :
    decVarint32 (encVarint64 v ++ rest) =
      (if v > 2147483647 ∨ v < -2147483648 then .error .overflow32 else .ok (v, rest)) := by
  unfold decVarint32
  rw [decVarint64_encVarint64 v h1 h2]

/-! ### float64, little endian -/

theorem range8 : List.range 8 = [0, 1, 2, 3, 4, 5, 6, 7] := by decide

theorem encF64LE_length (b : Nat) : (encF64LE b).length = 8 := by
  simp [encF64LE]

theorem leValue_encF64LE (b : Nat) (hb : b < W64) : leValue (encF64LE b) = b := by
  unfold W64 at hb
  simp only [encF64LE, range8, List.map, leValue, Nat.reducePow]
  omega

theorem decF64LE_encF64LE (b : Nat) (hb : b < W64) (rest : Bytes) :
    decF64LE (encF64LE b ++ rest) = .ok (b, rest) := by
  have hl := encF64LE_length b
  unfold decF64LE
  rw [List.take_left' hl, List.drop_left' hl, leValue_encF64LE b hb]
  simp [hl]

theorem decF64LE_take (b k : Nat) (hk : k < 8) :
    decF64LE ((encF64LE b).take k) = .error .eof := by
  unfold decF64LE
  have : ((encF64LE b).take k).length < 8 := by
    rw [List.length_take, encF64LE_length]; omega
  rw [if_pos this]

/-! ### varfloat64 -/

theorem vfWord_lt (b : Nat) : vfWord b < W64 := by
  unfold vfWord rotl64 W64 oneBits
  simp only [show Consts.varfloat64Rotate = 6 by decide, Nat.reducePow, Nat.reduceSub]
  omega

theorem rotr64_rotl64_6 (y : Nat) (hy : y < W64) :
    rotr64 (rotl64 y Consts.varfloat64Rotate) Consts.varfloat64Rotate = y := by
  unfold rotl64 rotr64
  unfold W64 at *
  simp only [show Consts.varfloat64Rotate = 6 by decide, Nat.reducePow, Nat.reduceSub]
  have h1 : y * 64 % 18446744073709551616 = (y % 288230376151711744) * 64 := by omega
  rw [h1]
  omega

theorem vfUnword_vfWord (b : Nat) (hb : b < W64) : vfUnword (vfWord b) = b := by
  unfold vfUnword vfWord
  rw [rotr64_rotl64_6 _ (Nat.mod_lt _ (by decide))]
  unfold oneBits
  unfold W64 at *
  omega

theorem encVF_length_pos (f x : Nat) : 1 ≤ (encVF f x).length := by
  cases f with
  | zero => simp [encVF]
  | succ f => simp only [encVF]; split <;> simp

theorem encVF_length_le (f x : Nat) : (encVF f x).length ≤ f + 1 := by
  induction f generalizing x with
  | zero => simp [encVF]
  | succ f ih =>
    simp only [encVF]; split
    · simp
    · have := ih ((x * 128) % W64); simp; omega

theorem encVF_bytes (f x : Nat) (hx : x < W64) : ∀ b ∈ encVF f x, b < 256 := by
  induction f generalizing x with
  | zero =>
    intro b hb; unfold W64 at hx; simp [encVF] at hb; omega
  | succ f ih =>
    intro b hb
    simp only [encVF] at hb
    have hn : x / 2 ^ 57 < 128 := by unfold W64 at hx; omega
    split at hb
    · simp at hb; omega
    · simp at hb
      rcases hb with hb | hb
      · omega
      · exact ih _ (Nat.mod_lt _ (by decide)) b hb

theorem decVF_take_encVF (f x shift acc k : Nat) (hx : x < W64) (hk : k < (encVF f x).length) :
    decVF f shift acc ((encVF f x).take k) = .error .eof := by
  induction f generalizing x shift acc k with
  | zero =>
    simp [encVF] at hk; subst hk; simp [decVF]
  | succ f ih =>
    simp only [encVF] at hk ⊢
    split
    · rename_i h; simp [h] at hk; subst hk; simp [decVF]
    · rename_i h
      simp [h] at hk
      cases k with
      | zero => simp [decVF]
      | succ k =>
        have hn : ¬ (x / 2 ^ 57 + 128 < 128) := by omega
        simp only [List.take_succ_cons, decVF, hn, if_false]
        exact ih _ _ _ _ (Nat.mod_lt _ (by decide)) (by omega)

theorem decVF_ok (f shift acc : Nat) (bs : Bytes) (v : Nat) (rest : Bytes)
    (h : decVF f shift acc bs = .ok (v, rest)) :
    ∃ k, 1 ≤ k ∧ k ≤ f + 1 ∧ rest = bs.drop k := by
  induction f generalizing shift acc bs with
  | zero =>
    cases bs with
    | nil => simp [decVF] at h
    | cons n tl =>
      simp [decVF] at h
      exact ⟨1, by omega, by omega, by simp [h.2]⟩
  | succ f ih =>
    cases bs with
    | nil => simp [decVF] at h
    | cons n tl =>
      simp only [decVF] at h
      split at h
      · simp at h
        exact ⟨1, by omega, by omega, by simp [h.2]⟩
      · obtain ⟨k, h1, h2, h3⟩ := ih _ _ _ h
        exact ⟨k + 1, by omega, by omega, by simp [h3]⟩

/-- Round trip of the varfloat loops.  With `f` continuation bytes left, the word still to be
    emitted is `y · 2^(56 − 7f)` with `y < 2^(7f+8)`, and the decoder's shift is `7f + 1`. -/
theorem decVF_encVF (f y acc : Nat) (rest : Bytes) (hf : f ≤ 8) (hy : y < 2 ^ (7 * f + 8)) :
    decVF f (7 * f + 1) acc (encVF f (y * 2 ^ (56 - 7 * f)) ++ rest) = .ok (acc + y, rest) := by
  induction f generalizing y acc with
  | zero =>
    have : y * 2 ^ 56 / 2 ^ 56 = y := Nat.mul_div_cancel _ (by decide)
    simp [encVF, decVF, this]
  | succ f ih =>
    have hf' : f ≤ 7 := by omega
    -- the three facts about the current step
    have e57 : (2 : Nat) ^ 57 = 2 ^ (7 * f + 8) * 2 ^ (56 - 7 * (f + 1)) := by
      rw [← Nat.pow_add]; congr 1; omega
    have e64 : W64 = 2 ^ (7 * f + 8) * 2 ^ (56 - 7 * f) := by
      unfold W64; rw [← Nat.pow_add]; congr 1; omega
    have e128 : 2 ^ (56 - 7 * (f + 1)) * 128 = 2 ^ (56 - 7 * f) := by
      rw [show (128 : Nat) = 2 ^ 7 by decide, ← Nat.pow_add]; congr 1; omega
    have hn : y * 2 ^ (56 - 7 * (f + 1)) / 2 ^ 57 = y / 2 ^ (7 * f + 8) := by
      rw [e57, Nat.mul_div_mul_right _ _ (Nat.pow_pos (by decide))]
    have hx' : y * 2 ^ (56 - 7 * (f + 1)) * 128 % W64
        = y % 2 ^ (7 * f + 8) * 2 ^ (56 - 7 * f) := by
      rw [Nat.mul_assoc, e128, e64, Nat.mul_mod_mul_right]
    have hp : 2 ^ (7 * (f + 1) + 8) = 128 * 2 ^ (7 * f + 8) := by
      rw [show 7 * (f + 1) + 8 = 7 + (7 * f + 8) by omega, Nat.pow_add]
    have hP : 0 < 2 ^ (7 * f + 8) := Nat.pow_pos (by decide)
    have hQ : 0 < 2 ^ (56 - 7 * f) := Nat.pow_pos (by decide)
    have hdm : 2 ^ (7 * f + 8) * (y / 2 ^ (7 * f + 8)) + y % 2 ^ (7 * f + 8) = y :=
      Nat.div_add_mod y _
    have hn128 : y / 2 ^ (7 * f + 8) < 128 := by
      rw [Nat.div_lt_iff_lt_mul hP, ← hp]; exact hy
    have hr : y % 2 ^ (7 * f + 8) < 2 ^ (7 * f + 8) := Nat.mod_lt _ hP
    simp only [encVF, hn, hx']
    have hsh : 7 * (f + 1) + 1 = 7 * f + 8 := by omega
    rw [hsh]
    rw [Nat.mul_comm] at hdm
    generalize y / 2 ^ (7 * f + 8) = n at *
    generalize y % 2 ^ (7 * f + 8) = r at *
    by_cases hr0 : r = 0
    · subst hr0
      simp only [Nat.zero_mul, if_true, List.cons_append, List.nil_append, decVF, hn128,
        Except.ok.injEq, Prod.mk.injEq, and_true]
      omega
    · have hne : r * 2 ^ (56 - 7 * f) ≠ 0 := Nat.mul_ne_zero hr0 (by omega)
      have hnn : ¬ (n + 128 < 128) := by omega
      have hm : (n + 128) % 128 = n := by omega
      simp only [hne, if_false, List.cons_append, decVF, hnn, hm]
      rw [show 7 * f + 8 - 7 = 7 * f + 1 by omega, ih r _ (by omega) hr]
      simp only [Except.ok.injEq, Prod.mk.injEq, and_true]
      omega

theorem decVF_encVF8 (x acc : Nat) (rest : Bytes) (hx : x < W64) :
    decVF 8 57 acc (encVF 8 x ++ rest) = .ok (acc + x, rest) := by
  have h := decVF_encVF 8 x acc rest (Nat.le_refl _) hx
  rw [show 56 - 7 * 8 = 0 from rfl, Nat.pow_zero, Nat.mul_one, show 7 * 8 + 1 = 57 from rfl] at h
  exact h

/-- `decVarfloatBits` in terms of the loop, on an opaque input (keeps `unfold` from evaluating
    the encoder symbolically). -/
theorem decVarfloatBits_of_ok (bs : Bytes) (x : Nat) (rest : Bytes)
    (h : decVF 8 57 0 bs = .ok (x, rest)) :
    decVarfloatBits bs = .ok (vfUnword (x % W64), rest) := by
  unfold decVarfloatBits
  rw [maxVarLen64_pred, h]

theorem decVarfloatBits_of_error (bs : Bytes) (e : DecErr)
    (h : decVF 8 57 0 bs = .error e) :
    decVarfloatBits bs = .error e := by
  unfold decVarfloatBits
  rw [maxVarLen64_pred, h]

theorem encVarfloatBits_eq (b : Nat) : encVarfloatBits b = encVF 8 (vfWord b) := by
  unfold encVarfloatBits
  rw [maxVarLen64_pred]

theorem decVarfloatBits_encVarfloatBits (b : Nat) (hb : b < W64) (rest : Bytes) :
    decVarfloatBits (encVarfloatBits b ++ rest) = .ok (b, rest) := by
  rw [encVarfloatBits_eq,
    decVarfloatBits_of_ok _ _ _ (decVF_encVF8 (vfWord b) 0 rest (vfWord_lt b)),
    Nat.zero_add, Nat.mod_eq_of_lt (vfWord_lt b), vfUnword_vfWord b hb]

theorem decVarfloatBits_take (b k : Nat) (hk : k < (encVarfloatBits b).length) :
    decVarfloatBits ((encVarfloatBits b).take k) = .error .eof := by
  rw [encVarfloatBits_eq] at hk ⊢
  exact decVarfloatBits_of_error _ _ (decVF_take_encVF _ _ _ _ _ (vfWord_lt b) hk)

theorem decVarfloatBits_ok (bs : Bytes) (b : Nat) (rest : Bytes)
    (h : decVarfloatBits bs = .ok (b, rest)) :
    ∃ k, 1 ≤ k ∧ k ≤ 9 ∧ rest = bs.drop k := by
  unfold decVarfloatBits at h
  rw [maxVarLen64_pred] at h
  split at h
  · rename_i v' rest' heq
    simp at h
    obtain ⟨k, h1, h2, h3⟩ := decVF_ok _ _ _ _ _ _ heq
    exact ⟨k, h1, h2, by rw [← h.2]; exact h3⟩
  · simp at h

/-! ### sizes of varfloat64 -/

/-- The length of a varfloat encoding depends only on which shifts kill the word,
    i.e. on its number of trailing zeros. -/
theorem encVF_length_congr (f x w : Nat)
    (h : ∀ n, x * 2 ^ n % W64 = 0 ↔ w * 2 ^ n % W64 = 0) :
    (encVF f x).length = (encVF f w).length := by
  induction f generalizing x w with
  | zero => simp [encVF]
  | succ f ih =>
    have h7 : x * 128 % W64 = 0 ↔ w * 128 % W64 = 0 := h 7
    simp only [encVF]
    by_cases hx : x * 128 % W64 = 0
    · have hw := h7.mp hx
      simp [hx, hw]
    · have hw : ¬ w * 128 % W64 = 0 := fun hw => hx (h7.mpr hw)
      simp only [hx, hw, if_false, List.length_cons]
      rw [ih (x * 128 % W64) (w * 128 % W64)]
      intro n
      have := h (7 + n)
      rw [Nat.pow_add, ← Nat.mul_assoc, ← Nat.mul_assoc] at this
      rw [Nat.mod_mul_mod, Nat.mod_mul_mod]
      exact this

/-- If the low `t` bits of `x` are all zero then `2^t ∣ x`. -/
theorem pow_dvd_of_bits_zero (x t : Nat) (h : ∀ j, j < t → x / 2 ^ j % 2 = 0) : 2 ^ t ∣ x := by
  induction t with
  | zero => simp
  | succ t ih =>
    obtain ⟨q, hq⟩ := ih (fun j hj => h j (by omega))
    have := h t (by omega)
    rw [hq, Nat.mul_div_cancel_left _ (Nat.pow_pos (by decide))] at this
    refine ⟨q / 2, ?_⟩
    rw [hq, Nat.pow_succ, Nat.mul_assoc]
    congr 1
    omega

/-- An odd multiple of `2^k` is divisible by `2^64` exactly when `k ≥ 64`. -/
theorem odd_mul_pow_mod (m k : Nat) (hm : m % 2 = 1) : m * 2 ^ k % W64 = 0 ↔ 64 ≤ k := by
  constructor
  · intro h
    apply Decidable.byContradiction
    intro hk
    have hk : k < 64 := by omega
    have hd : 2 ^ (64 - k) * 2 ^ k ∣ m * 2 ^ k := by
      rw [← Nat.pow_add, show 64 - k + k = 64 by omega]
      exact Nat.dvd_of_mod_eq_zero h
    have hd' : 2 ^ (64 - k) ∣ m := Nat.dvd_of_mul_dvd_mul_right (Nat.pow_pos (by decide)) hd
    have h2 : 2 ∣ m := Nat.dvd_trans (Nat.dvd_trans (by simp) (Nat.pow_dvd_pow 2 (show 1 ≤ 64 - k by omega))) hd'
    omega
  · intro hk
    apply Nat.mod_eq_zero_of_dvd
    exact Nat.dvd_trans (Nat.pow_dvd_pow 2 hk) (Nat.dvd_mul_left _ _)

/-- Specification of `tzcnt64` on a non-zero 64-bit word. -/
theorem tzcnt64_spec (x : Nat) (h0 : x ≠ 0) (hx : x < W64) :
    tzcnt64 x < 64 ∧ ∃ m, m % 2 = 1 ∧ x = m * 2 ^ tzcnt64 x := by
  unfold tzcnt64
  simp only [h0, if_false]
  cases hfind : (List.range 64).find? (fun i => decide ((x / 2 ^ i) % 2 = 1)) with
  | none =>
    exfalso
    rw [List.find?_eq_none] at hfind
    have hd : 2 ^ 64 ∣ x := by
      apply pow_dvd_of_bits_zero
      intro j hj
      have := hfind j (List.mem_range.mpr hj)
      simp at this
      omega
    obtain ⟨q, hq⟩ := hd
    unfold W64 at hx
    cases q with
    | zero => simp at hq; exact h0 hq
    | succ q => rw [hq, Nat.mul_succ] at hx; omega
  | some t =>
    rw [List.find?_range_eq_some] at hfind
    obtain ⟨hp, hmem, hlt⟩ := hfind
    simp only [Option.getD_some]
    refine ⟨List.mem_range.mp hmem, x / 2 ^ t, by simpa using hp, ?_⟩
    have hd : 2 ^ t ∣ x := by
      apply pow_dvd_of_bits_zero
      intro j hj
      have := hlt j hj
      simp at this
      omega
    exact (Nat.div_mul_cancel hd).symm

theorem varfloat64SizeBits_eq (b : Nat) :
    varfloat64SizeBits b = (encVarfloatBits b).length := by
  unfold varfloat64SizeBits varfloatSizeTable encVarfloatBits
  have hx := vfWord_lt b
  generalize vfWord b = x at hx
  apply encVF_length_congr
  intro n
  rw [Nat.mod_mul_mod]
  by_cases h0 : x = 0
  · subst h0
    have : tzcnt64 0 = 64 := by simp [tzcnt64]
    rw [this]
    have : (W64 - 1) * 2 ^ 64 * 2 ^ n % W64 = 0 := by
      rw [Nat.mul_assoc, Nat.mul_comm, Nat.mul_assoc]
      exact Nat.mul_mod_right _ _
    simp [this]
  · obtain ⟨ht, m, hm, hxm⟩ := tzcnt64_spec x h0 hx
    generalize tzcnt64 x = t at *
    rw [Nat.mul_assoc, ← Nat.pow_add, odd_mul_pow_mod _ _ (by decide)]
    rw [hxm, Nat.mul_assoc, ← Nat.pow_add, odd_mul_pow_mod _ _ hm]

end Codec
end DDS
