/-
  DDS.Proofs.RealInst — the ideal (real-number) reading of the arithmetic `MOps` used by
  `DDS.Model.Mapping`.  The theorems of property C03 are about the model instantiated here.
-/
import DDS.Model.Mapping
import Mathlib.Analysis.SpecialFunctions.Log.Base
import Mathlib.Analysis.SpecialFunctions.Pow.Real
import Mathlib.Analysis.SpecialFunctions.Sqrt
import Mathlib.Algebra.Order.Floor.Ring

namespace DDS

noncomputable instance instMOpsReal : MOps ℝ where
  add := (· + ·)
  sub := (· - ·)
  mul := (· * ·)
  div := (· / ·)
  neg := (- ·)
  ofInt := fun i => (i : ℝ)
  ofRat := fun q => (q : ℝ)
  lt := fun a b => decide (a < b)      -- classical decidability
  le := fun a b => decide (a ≤ b)
  log := Real.log
  exp := Real.exp
  log2 := fun x => Real.logb 2 x
  exp2 := fun x => (2 : ℝ) ^ x                                      -- Real.rpow
  pow := fun x y => x ^ y                                            -- Real.rpow
  cbrt := fun x => if 0 ≤ x then x ^ ((1:ℝ)/3) else -((-x) ^ ((1:ℝ)/3))   -- the real cube root
  sqrt := Real.sqrt
  floor := fun x => (⌊x⌋ : ℝ)
  trunc := fun x => if 0 ≤ x then ⌊x⌋ else ⌈x⌉
  exponentOf := fun x => (⌊Real.logb 2 x⌋ : ℝ)
  significandPlusOne := fun x => x / (2 : ℝ) ^ ⌊Real.logb 2 x⌋        -- zpow
  buildFloat := fun e s => (2 : ℝ) ^ e * s                            -- zpow
  ln2 := Real.log 2
  expOverflow := 709.4361393031
  minNormal := (2 : ℝ) ^ (-1022 : ℤ)

end DDS
