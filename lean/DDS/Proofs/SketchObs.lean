/-
  DDS.Proofs.SketchObs — the observers of a sketch depend only on the contents its stores refine:
  a sketch `s` with `s.Refines cp cn` (any store kinds) answers like the spec sketch
  `Sketch.spec s.mapping cp cn s.zero`.

  One observer needs a guard.  `GetValueAtQuantile` can send a rank to the POSITIVE store while that
  store is empty: with `count ≥ 2^54` the float `count - 1` rounds back to `count`, so for `q = 1`
  neither `rank < negCount` nor `rank < zero + negCount` holds and `positiveStore.KeyAtRank` is
  asked on an empty store, whose answer is store-specific (dense: the `maxIndex` sentinel
  `MinInt32`; sparse: 0).  `quantile_empty_pos_counterexample` exhibits the divergence;
  `quantile_congr` therefore assumes that the positive branch is not taken on an empty positive
  content (`usesPos … = false`), which `quantile_congr_of_pos` discharges when `cp ≠ []` and
  `DDS.Props.C12.usesPos_false_of_exact` discharges when counting is exact and `count - 1 ≠ count`.

  Core Lean only.
-/
import DDS.Proofs.Refine

namespace DDS
namespace Sketch

variable {s : Sketch} {cp cn : Content}

theorem getCount_congr (h : s.Refines cp cn) :
    s.getCount = (Sketch.spec s.mapping cp cn s.zero).getCount := by
  unfold getCount posTotal negTotal
  rw [h.pos.total, h.neg.total]
  rfl

theorem posTotal_congr (h : s.Refines cp cn) : s.posTotal = .fin cp.total := by
  simp only [posTotal, h.pos.total]

theorem negTotal_congr (h : s.Refines cp cn) : s.negTotal = .fin cn.total := by
  simp only [negTotal, h.neg.total]

theorem isEmpty_congr (h : s.Refines cp cn) :
    s.isEmpty = (Sketch.spec s.mapping cp cn s.zero).isEmpty := by
  unfold isEmpty
  rw [h.pos.empty, h.neg.empty]
  rfl

theorem getMax_congr (env : MapEnv) (h : s.Refines cp cn) :
    s.getMax env = (Sketch.spec s.mapping cp cn s.zero).getMax env := by
  unfold getMax
  rw [h.pos.empty, h.pos.max, h.neg.min]
  rfl

theorem getMin_congr (env : MapEnv) (h : s.Refines cp cn) :
    s.getMin env = (Sketch.spec s.mapping cp cn s.zero).getMin env := by
  unfold getMin
  rw [h.neg.empty, h.neg.max, h.pos.min]
  rfl

theorem forEachList_congr (env : MapEnv) (h : s.Refines cp cn) :
    s.forEachList env = (Sketch.spec s.mapping cp cn s.zero).forEachList env := by
  unfold forEachList
  rw [h.pos.bins, h.neg.bins]
  rfl

theorem getSum_congr (env : MapEnv) (h : s.Refines cp cn) :
    s.getSum env = (Sketch.spec s.mapping cp cn s.zero).getSum env := by
  unfold getSum
  rw [forEachList_congr env h]

/-! ### quantiles -/

/-- the rank `GetValueAtQuantile(q)` looks up -/
def qrank (s : Sketch) (q : F64) : F64 :=
  let rank0 := F64.mul q (F64.sub s.getCount F64.one)
  if F64.lt rank0 (.fin 0) then .fin 0 else rank0

/-- does `GetValueAtQuantile(q)` consult the positive store? -/
def usesPos (s : Sketch) (q : F64) : Bool :=
  !(F64.lt (s.qrank q) s.negTotal) && !(F64.lt (s.qrank q) (F64.add s.zero s.negTotal))

theorem quantile_unfold (env : MapEnv) (s : Sketch) (q : F64) :
    s.quantile env q =
      if !(F64.le (.fin 0) q && F64.le q (.fin 1)) then .error .badQuantile
      else if F64.eq s.getCount (.fin 0) then .error .empty
      else if F64.lt (s.qrank q) s.negTotal then
        .ok (F64.neg (env.value (storeKeyAtRank s.neg (F64.sub (F64.sub s.negTotal F64.one) (s.qrank q)))))
      else if F64.lt (s.qrank q) (F64.add s.zero s.negTotal) then .ok (.fin 0)
      else .ok (env.value (storeKeyAtRank s.pos (F64.sub (F64.sub (s.qrank q) s.zero) s.negTotal))) :=
  rfl

theorem storeKeyAtRank_congr (st : Store) (c : Content) (h : st.Refines c) (hne : c ≠ [])
    (rank : F64) : storeKeyAtRank st rank = storeKeyAtRank (.sp c) rank := by
  have hs := Store.refines_sparse c h.wf
  cases rank with
  | fin r => exact (h.kar hne r).trans (hs.kar hne r).symm
  | ninf => exact (h.kar hne 0).trans (hs.kar hne 0).symm
  | pinf => simp only [storeKeyAtRank, h.max, hs.max]
  | nan => simp only [storeKeyAtRank, h.max, hs.max]

/-- the rank is never below zero: NaN, `+inf` or a non-negative finite number -/
theorem qrank_cases (s : Sketch) (q : F64) :
    s.qrank q = .nan ∨ s.qrank q = .pinf ∨ ∃ r : Rat, s.qrank q = .fin r ∧ 0 ≤ r := by
  unfold qrank
  simp only
  generalize F64.mul q (F64.sub s.getCount F64.one) = x
  cases x with
  | fin r =>
    by_cases hr : r < 0
    · right; right; exact ⟨0, by simp [F64.lt, hr], by grind⟩
    · right; right; exact ⟨r, by simp [F64.lt, hr], by grind⟩
  | pinf => right; left; rfl
  | ninf => right; right; exact ⟨0, rfl, by grind⟩
  | nan => left; rfl

/-- the negative store is consulted only when it is not empty -/
theorem neg_nonempty_of_lt (s : Sketch) (q : F64) (cn : Content)
    (h : F64.lt (s.qrank q) (.fin cn.total) = true) : cn ≠ [] := by
  intro hc
  subst hc
  rcases qrank_cases s q with h1 | h1 | ⟨r, h1, hr⟩
  · rw [h1] at h; cases h
  · rw [h1] at h; cases h
  · rw [h1] at h
    simp only [F64.lt, Content.total_nil] at h
    grind

/-- `GetValueAtQuantile` depends only on the refined contents, provided the positive store is not
    consulted while empty -/
theorem quantile_congr (env : MapEnv) (h : s.Refines cp cn) (q : F64)
    (hp : cp = [] → (F64.le (.fin 0) q && F64.le q (.fin 1)) = true →
      F64.eq s.getCount (.fin 0) = false → s.usesPos q = false) :
    s.quantile env q = (Sketch.spec s.mapping cp cn s.zero).quantile env q := by
  have hcount := getCount_congr h
  have hneg := negTotal_congr h
  have hrank : s.qrank q = (Sketch.spec s.mapping cp cn s.zero).qrank q := by
    unfold qrank; rw [hcount]
  have hneg' : (Sketch.spec s.mapping cp cn s.zero).negTotal = .fin cn.total := rfl
  have hzero : (Sketch.spec s.mapping cp cn s.zero).zero = s.zero := rfl
  rw [quantile_unfold, quantile_unfold, ← hrank, ← hcount, hneg, hneg', hzero]
  by_cases h1 : (!(F64.le (.fin 0) q && F64.le q (.fin 1))) = true
  · rw [if_pos h1, if_pos h1]
  · rw [if_neg h1, if_neg h1]
    by_cases h2 : F64.eq s.getCount (.fin 0) = true
    · rw [if_pos h2, if_pos h2]
    · rw [if_neg h2, if_neg h2]
      by_cases h3 : F64.lt (s.qrank q) (.fin cn.total) = true
      · rw [if_pos h3, if_pos h3]
        have hne := neg_nonempty_of_lt s q cn h3
        rw [storeKeyAtRank_congr s.neg cn h.neg hne]
        rfl
      · rw [if_neg h3, if_neg h3]
        by_cases h4 : F64.lt (s.qrank q) (F64.add s.zero (.fin cn.total)) = true
        · rw [if_pos h4, if_pos h4]
        · rw [if_neg h4, if_neg h4]
          have hne : cp ≠ [] := by
            intro hc
            have := hp hc (by simpa using h1) (by simpa using h2)
            unfold usesPos at this
            rw [hneg] at this
            simp only [Bool.not_eq_true] at h3 h4
            rw [h3, h4] at this
            cases this
          rw [storeKeyAtRank_congr s.pos cp h.pos hne]
          rfl

theorem quantile_congr_of_pos (env : MapEnv) (h : s.Refines cp cn) (q : F64) (hp : cp ≠ []) :
    s.quantile env q = (Sketch.spec s.mapping cp cn s.zero).quantile env q :=
  quantile_congr env h q (fun hc => absurd hc hp)

/-- the guard in its simplest form -/
theorem quantile_congr' (env : MapEnv) (h : s.Refines cp cn) (q : F64)
    (hp : cp = [] → s.usesPos q = false) :
    s.quantile env q = (Sketch.spec s.mapping cp cn s.zero).quantile env q :=
  quantile_congr env h q (fun hc _ _ => hp hc)

/-- `usesPos` itself only depends on the contents -/
theorem usesPos_congr (h : s.Refines cp cn) (q : F64) :
    s.usesPos q = (Sketch.spec s.mapping cp cn s.zero).usesPos q := by
  unfold usesPos qrank
  rw [getCount_congr h, negTotal_congr h]
  rfl

theorem quantiles_congr (env : MapEnv) (h : s.Refines cp cn) (qs : List F64)
    (hp : cp = [] → ∀ q ∈ qs, s.usesPos q = false) :
    s.quantiles env qs = (Sketch.spec s.mapping cp cn s.zero).quantiles env qs := by
  unfold quantiles
  induction qs with
  | nil => rfl
  | cons q rest ih =>
    rw [List.mapM_cons, List.mapM_cons,
      quantile_congr' env h q (fun hc => hp hc q (List.mem_cons_self ..)),
      ih (fun hc q hq => hp hc q (List.mem_cons_of_mem _ hq))]

/-! ### the guard of `quantile_congr` is needed -/

/-- total weight `2^54`, all of it negative, in a sketch whose positive store is a fresh dense one -/
def exBig : Sketch :=
  { mapping := none, pos := Store.new .dense, neg := .sp [(0, 18014398509481984)], zero := .fin 0 }

theorem exBig_refines : exBig.Refines [] [(0, 18014398509481984)] :=
  ⟨Store.refines_new_dense,
    Store.refines_sparse _ ((Content.wf_cons _ _).2 ⟨by decide +kernel, by simp, Content.wf_nil⟩)⟩

/-- `GetValueAtQuantile(1)` on `exBig` asks the EMPTY positive store for a key (`count - 1` rounds
    to `count = 2^54`, so the rank is not below `negCount`): the dense store answers with its
    `maxIndex` sentinel `MinInt32`, the spec (sparse) store with 0 — whatever the mapping is. -/
theorem quantile_empty_pos_counterexample (env : MapEnv) :
    exBig.usesPos (.fin 1) = true ∧
    exBig.quantile env (.fin 1) = .ok (env.value minInt32) ∧
    (Sketch.spec exBig.mapping [] [(0, 18014398509481984)] exBig.zero).quantile env (.fin 1) =
      .ok (env.value 0) := by
  refine ⟨by decide +kernel, ?_, ?_⟩
  · rw [quantile_unfold, if_neg (by decide +kernel), if_neg (by decide +kernel),
      if_neg (by decide +kernel), if_neg (by decide +kernel)]
    have : storeKeyAtRank exBig.pos
        (F64.sub (F64.sub (exBig.qrank (.fin 1)) exBig.zero) exBig.negTotal) = minInt32 := by
      decide +kernel
    rw [this]
  · rw [quantile_unfold, if_neg (by decide +kernel), if_neg (by decide +kernel),
      if_neg (by decide +kernel), if_neg (by decide +kernel)]
    have : storeKeyAtRank (Sketch.spec exBig.mapping [] [(0, 18014398509481984)] exBig.zero).pos
        (F64.sub (F64.sub ((Sketch.spec exBig.mapping [] [(0, 18014398509481984)] exBig.zero).qrank (.fin 1))
          (Sketch.spec exBig.mapping [] [(0, 18014398509481984)] exBig.zero).zero)
          (Sketch.spec exBig.mapping [] [(0, 18014398509481984)] exBig.zero).negTotal) = 0 := by
      decide +kernel
    rw [this]

end Sketch
end DDS
