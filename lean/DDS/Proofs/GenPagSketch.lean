/-
  DDS.Proofs.GenPagSketch — the DEFAULT sketch entirely on regenerated code: the regenerated sketch
  (`DDS/Generated/CodeSketch.lean`, generic over the interfaces `MapI`, `StoreI`) instantiated with the
  REGENERATED buffered-paginated store (`DDS/Generated/CodePaginated.lean`) behaves exactly like the same
  regenerated sketch over the hand-written model's stores (`instance : StoreI Store`, `DDS/Proofs/GenSketch.lean`),
  to which `GenSketch2` / `Props/Lift` (C01 …) apply.

  1. `GPS grow` — the regenerated store with the growth oracle of the Go runtime (`append`'s capacity policy) fixed
     as a type index; `instance : StoreI (GPS grow)`: every method runs the regenerated function with a fuel
     computed from the state (`addFuel`, `keyFuel`, `minFuel`, `maxFuel`, `reweightFuel`, `mergeFuel`,
     `encodeFuel` of the model image `ofGen g`).  Conventions copied from `instance : StoreI Store`: a panicking
     (or fuel-starved) mutator leaves the receiver unchanged; a non-finite weight leaves the receiver unchanged;
     `TotalCount` is `.fin` of the rational total; `KeyAtRank` at `-Inf` is rank 0, at `+Inf`/NaN the maximum
     index (0 when empty).  `KeyAtRank` of the class returns the key only (the buffer sort it performs on the
     Go side is unobservable: `C04GenPag.gen_reads_preserve_content`).
     NOT covered by any theorem here: `ForEachList` (defined through the model image; `GenPagIter.forEach_all`
     shows the regenerated `ForEach` visits exactly that list), `Encode`, `DecodeAndMergeWith` (regenerated code,
     heuristic fuel), the different-page-length fallback of `MergeWith` (never taken under the invariant).
  2. `Sim x st`: `x.g = toGen s cap`, `st = .pg s'`, both with `PStore.Inv`, SAME CONTENT.  Structural equality
     is impossible: the model instance's `AddWithCount` always passes the compaction bit `true`, the regenerated
     code compacts only when `len(buffer) == cap(buffer)` — the stores agree up to abstraction (`content`), and
     every observer is a function of the content (`C04Pag.observers_eq`).
     Method lemmas `sim_*`: related receivers give equal observations / related receivers again
     (`IsEmpty`, `TotalCount`, `MinIndex`, `MaxIndex`, `KeyAtRank`, `Add`, `AddWithCount`, `Clear`, `Copy`,
     `Reweight`, `MergeWith`).  Side condition for the adds: int32 index (finite weight `≥ 0`; other weights:
     both sides unchanged, no condition).
  3. `SkSim a b` for sketches (same mapping object, same zero count, stores in `Sim`) and parametricity of the
     regenerated sketch functions, for ANY mapping implementation `M`: `AddWithCount_param`, `Add_param`
     (same error, related receivers; side condition `Routed32`: the index of the side the value is routed to is an
     int32), `GetCount_param`, `IsEmpty_param`, `GetZeroCount_param`, `GetValueAtQuantile_param`,
     `GetMaxValue_param`, `GetMinValue_param` (equal results, no side condition), `Clear_param`, `Copy_param`,
     `MergeWith_param`, `Reweight_param`.
  4. `runAdds` (a history of `AddWithCount` calls with the errors returned), `runAdds_param`,
     `history_observers_param`: from `NewDDSketch m NewBufferedPaginatedStore NewBufferedPaginatedStore`, after any
     history with int32 routed indexes (refused calls, zero / fractional / non-finite counts included), the errors
     and every observer agree with the regenerated sketch over the model stores `Store.new .pag`.
     `DDS/Props/C01GenPag.lean` chains this with `GenSketch2` and `Props/Lift` to C01.

  No fuel hypothesis appears in the statements: the instance computes a sufficient fuel itself.
  Core Lean only.
-/
import DDS.Proofs.GenPaginated
import DDS.Props.C04Pag
import DDS.Props.C04GenPag
import DDS.Proofs.GenSketch
import DDS.Generated.CodeStoreDecode

namespace DDS.GenPagSketch

open DDS DDS.GoSem DDS.PStore DDS.GenPag DDS.Gen.Paginated

/-- the regenerated store; the growth oracle of the runtime is a type index -/
structure GPS (grow : Int → Int → Int) where
  g : GP

variable {grow : Int → Int → Int}

instance : Inhabited (GPS grow) := ⟨⟨NewBufferedPaginatedStore⟩⟩

/-- the value of a result, `d` on a panic or when fuel runs out -/
def okOr {α : Type} (r : Res α) (d : α) : α :=
  match r with
  | .ok a => a
  | _ => d

@[simp] theorem okOr_ok {α : Type} (a d : α) : okOr (.ok a) d = a := rfl

/-! ### the methods -/

def gAdd (x : GPS grow) (i : Int) : GPS grow :=
  ⟨okOr (BufferedPaginatedStore.Add (addFuel (ofGen x.g) i + 1) grow x.g i) x.g⟩

def gAddWithCount (x : GPS grow) (i : Int) (c : F64) : GPS grow :=
  match ratOfF64 c with
  | some w => ⟨okOr (BufferedPaginatedStore.AddWithCount (addFuel (ofGen x.g) i + 1) grow x.g i w) x.g⟩
  | none => x

def gCopy (x : GPS grow) : GPS grow := ⟨okOr (BufferedPaginatedStore.Copy 1 x.g) x.g⟩

def gClear (x : GPS grow) : GPS grow := ⟨okOr (BufferedPaginatedStore.Clear 1 x.g) x.g⟩

def gIsEmpty (x : GPS grow) : Bool := okOr (BufferedPaginatedStore.IsEmpty 1 x.g) true

def gTotalCount (x : GPS grow) : F64 := .fin (okOr (BufferedPaginatedStore.TotalCount 1 x.g) 0)

def gMinIndex (x : GPS grow) : Int × GoErr :=
  okOr (BufferedPaginatedStore.MinIndex (minFuel (ofGen x.g) + 1) x.g) (0, GenSketch.errUndefinedMinIndex)

def gMaxIndex (x : GPS grow) : Int × GoErr :=
  okOr (BufferedPaginatedStore.MaxIndex (maxFuel (ofGen x.g) + 1) x.g) (0, GenSketch.errUndefinedMaxIndex)

def gKeyAtRankQ (x : GPS grow) (r : Rat) : Int :=
  (okOr (BufferedPaginatedStore.KeyAtRank (keyFuel (ofGen x.g) + 1) x.g r) (x.g, 0)).2

/-- float rank: `-Inf` behaves as rank 0 (the store clamps negative ranks), `+Inf` and NaN are never below a
    cumulative count: the maximum index (as `Sketch.storeKeyAtRank`) -/
def gKeyAtRank (x : GPS grow) (r : F64) : Int :=
  match r with
  | .fin q => gKeyAtRankQ x q
  | .ninf => gKeyAtRankQ x 0
  | _ => (gMaxIndex x).1

def gMergeWith (x o : GPS grow) : GPS grow :=
  ⟨okOr (BufferedPaginatedStore.MergeWith (mergeFuel addFuel (ofGen x.g) (ofGen o.g) + 1) grow
    (fun s _ => .ok s) x.g o.g) x.g⟩

def gReweight (x : GPS grow) (w : F64) : GPS grow × GoErr :=
  if F64.le w (.fin 0) then (x, GenSketch.errStoreReweight)
  else match w with
    | .fin q =>
      match BufferedPaginatedStore.Reweight (reweightFuel (ofGen x.g) q + 1) grow x.g q with
      | .ok (g', e) => (⟨g'⟩, e)
      | _ => (x, GoErr.nil)
    | _ => (x, GoErr.nil)

def gEncode (x : GPS grow) (b : List (BitVec 8)) (t : Gen.Encoding.FlagType) : GPS grow × List (BitVec 8) :=
  match BufferedPaginatedStore.Encode (encodeFuel compactFuel (ofGen x.g) + 1) x.g b t with
  | .ok (g', b') => (⟨g'⟩, b')
  | _ => (x, b)

def gForEachList (x : GPS grow) : List (Int × F64) :=
  (ofGen x.g).binsList.map (fun p => (p.1, F64.fin p.2))

/-- the methods the generic `store.DecodeAndMergeWith` (the fallback of the paginated decoder) calls -/
@[reducible] def baseI : StoreI (GPS grow) where
  Add := gAdd
  AddWithCount := gAddWithCount
  Copy := gCopy
  Clear := gClear
  IsEmpty := gIsEmpty
  MaxIndex := gMaxIndex
  MinIndex := gMinIndex
  TotalCount := gTotalCount
  KeyAtRank := gKeyAtRank
  MergeWith := gMergeWith
  Reweight := gReweight
  Encode := gEncode
  ForEachList := gForEachList
  DecodeAndMergeWith x b _ := (x, b, GoErr.nil)

def gDecodeFuel (x : GPS grow) (b : List (BitVec 8)) : Nat :=
  deltasFuel compactFuel grow (ofGen x.g) x.g.bufferCap b + pageFuelMax + 3 * b.length + 64

def gDecode (x : GPS grow) (b : List (BitVec 8)) (sub : Gen.Encoding.SubFlag) :
    GPS grow × List (BitVec 8) × GoErr :=
  match BufferedPaginatedStore.DecodeAndMergeWith (gDecodeFuel x b) grow
      (fun g b sub =>
        match @Gen.StoreDecode.DecodeAndMergeWith (GPS grow) baseI (gDecodeFuel x b) ⟨g⟩ b sub with
        | .ok (y, b', e) => .ok (y.g, b', e)
        | .panic => .panic
        | .nofuel => .nofuel) x.g b sub with
  | .ok (g', b', e) => (⟨g'⟩, b', e)
  | _ => (x, b, GoErr.nil)

instance (priority := low) gpStoreI : StoreI (GPS grow) where
  Add := gAdd
  AddWithCount := gAddWithCount
  Copy := gCopy
  Clear := gClear
  IsEmpty := gIsEmpty
  MaxIndex := gMaxIndex
  MinIndex := gMinIndex
  TotalCount := gTotalCount
  KeyAtRank := gKeyAtRank
  MergeWith := gMergeWith
  Reweight := gReweight
  Encode := gEncode
  ForEachList := gForEachList
  DecodeAndMergeWith := gDecode

@[simp] theorem gps_add (x : GPS grow) (i : Int) : StoreI.Add x i = gAdd x i := rfl
@[simp] theorem gps_addWithCount (x : GPS grow) (i : Int) (c : F64) :
    StoreI.AddWithCount x i c = gAddWithCount x i c := rfl
@[simp] theorem gps_copy (x : GPS grow) : StoreI.Copy x = gCopy x := rfl
@[simp] theorem gps_clear (x : GPS grow) : StoreI.Clear x = gClear x := rfl
@[simp] theorem gps_isEmpty (x : GPS grow) : StoreI.IsEmpty x = gIsEmpty x := rfl
@[simp] theorem gps_maxIndex (x : GPS grow) : StoreI.MaxIndex x = gMaxIndex x := rfl
@[simp] theorem gps_minIndex (x : GPS grow) : StoreI.MinIndex x = gMinIndex x := rfl
@[simp] theorem gps_totalCount (x : GPS grow) : StoreI.TotalCount x = gTotalCount x := rfl
@[simp] theorem gps_keyAtRank (x : GPS grow) (r : F64) : StoreI.KeyAtRank x r = gKeyAtRank x r := rfl
@[simp] theorem gps_mergeWith (x o : GPS grow) : StoreI.MergeWith x o = gMergeWith x o := rfl
@[simp] theorem gps_reweight (x : GPS grow) (w : F64) : StoreI.Reweight x w = gReweight x w := rfl


/-! ### the model image of an embedded store -/

theorem ofGen_toGen (s : PStore) (cap : Int) : ofGen (toGen s cap) = s := by
  cases s with
  | mk buffer trigger pages minPageIndex pageLenLog2 =>
    simp only [ofGen, toGen, pagesL, Int.toNat_natCast, List.map_map]
    congr 1
    apply Array.ext'
    simp [Function.comp_def]

/-! ### the simulation relation -/

/-- the regenerated store and the model store hold the same content (both inside the invariant) -/
def Sim (x : GPS grow) (st : Store) : Prop :=
  ∃ (s s' : PStore) (cap : Int), x.g = toGen s cap ∧ st = .pg s' ∧ Inv s ∧ Inv s' ∧ content s = content s'

theorem sim_new : Sim (⟨NewBufferedPaginatedStore⟩ : GPS grow) (Store.new .pag) :=
  ⟨PStore.new, PStore.new, 4, new_spec, rfl, PStore.inv_new, PStore.inv_new, rfl⟩

theorem errMin_eq : Gen.Paginated.errUndefinedMinIndex = GenSketch.errUndefinedMinIndex := rfl
theorem errMax_eq : Gen.Paginated.errUndefinedMaxIndex = GenSketch.errUndefinedMaxIndex := rfl

/-! ### observers -/

theorem sim_isEmpty {x : GPS grow} {st : Store} (h : Sim x st) :
    (StoreI.IsEmpty x : Bool) = StoreI.IsEmpty st := by
  obtain ⟨s, s', cap, hx, rfl, hi, hi', hc⟩ := h
  simp only [gps_isEmpty, gIsEmpty, hx, isEmpty_spec, okOr_ok, GenSketch.store_isEmpty, Store.isEmpty]
  rw [(Props.C04Pag.observers_eq s hi).2.2.1, (Props.C04Pag.observers_eq s' hi').2.2.1, hc]

theorem sim_totalCount {x : GPS grow} {st : Store} (h : Sim x st) :
    (StoreI.TotalCount x : F64) = StoreI.TotalCount st := by
  obtain ⟨s, s', cap, hx, rfl, hi, hi', hc⟩ := h
  simp only [gps_totalCount, gTotalCount, hx, totalCount_spec, okOr_ok, GenSketch.store_totalCount,
    Store.totalCount]
  rw [(Props.C04Pag.observers_eq s hi).2.1, (Props.C04Pag.observers_eq s' hi').2.1, hc]

theorem sim_minIndex {x : GPS grow} {st : Store} (h : Sim x st) :
    (StoreI.MinIndex x : Int × GoErr) = StoreI.MinIndex st := by
  obtain ⟨s, s', cap, hx, rfl, hi, hi', hc⟩ := h
  simp only [gps_minIndex, gMinIndex, hx, ofGen_toGen, GenSketch.store_minIndex, GenSketch.storeMinIndex,
    Store.minIndex?]
  rw [MinIndex_eq_of_inv s cap _ hi (Nat.le_succ _), okOr_ok,
    (Props.C04Pag.observers_eq s hi).2.2.2.1, (Props.C04Pag.observers_eq s' hi').2.2.2.1, hc, errMin_eq]
  cases (content s').minIndex? <;> rfl

theorem sim_maxIndex {x : GPS grow} {st : Store} (h : Sim x st) :
    (StoreI.MaxIndex x : Int × GoErr) = StoreI.MaxIndex st := by
  obtain ⟨s, s', cap, hx, rfl, hi, hi', hc⟩ := h
  simp only [gps_maxIndex, gMaxIndex, hx, ofGen_toGen, GenSketch.store_maxIndex, GenSketch.storeMaxIndex,
    Store.maxIndex?]
  rw [MaxIndex_eq s cap _ (Nat.le_succ _), okOr_ok,
    (Props.C04Pag.observers_eq s hi).2.2.2.2.1, (Props.C04Pag.observers_eq s' hi').2.2.2.2.1, hc, errMax_eq]
  cases (content s').maxIndex? <;> rfl

theorem sim_keyAtRankQ {x : GPS grow} {s' : PStore} (h : Sim x (.pg s')) (q : Rat) :
    gKeyAtRankQ x q = s'.keyAtRank q := by
  obtain ⟨s, s'', cap, hx, hst, hi, hi', hc⟩ := h
  cases hst
  simp only [gKeyAtRankQ, hx, ofGen_toGen]
  rw [KeyAtRank_eq s cap q _ (Nat.le_succ _), okOr_ok,
    (Props.C04Pag.observers_eq s hi).2.2.2.2.2 q, (Props.C04Pag.observers_eq s' hi').2.2.2.2.2 q, hc]

theorem sim_keyAtRank {x : GPS grow} {st : Store} (h : Sim x st) (r : F64) :
    (StoreI.KeyAtRank x r : Int) = StoreI.KeyAtRank st r := by
  have hmax := sim_maxIndex h
  obtain ⟨s, s', cap, hx, rfl, hi, hi', hc⟩ := id h
  simp only [gps_keyAtRank, gKeyAtRank, GenSketch.store_keyAtRank, Sketch.storeKeyAtRank]
  have hm : (gMaxIndex x).1 = ((Store.pg s').maxIndex?).getD 0 := by
    simp only [gps_maxIndex, GenSketch.store_maxIndex, GenSketch.storeMaxIndex] at hmax
    rw [hmax]; cases (Store.pg s').maxIndex? <;> rfl
  cases r with
  | fin q => exact sim_keyAtRankQ h q
  | ninf => exact sim_keyAtRankQ h 0
  | pinf => exact hm
  | nan => exact hm


/-! ### mutators -/

theorem nonneg_of_not_lt_zero (c : F64) (hc : F64.lt c (.fin 0) = false) : ∀ w, c = .fin w → 0 ≤ w := by
  intro w hw; subst hw
  simp only [F64.lt, decide_eq_false_iff_not] at hc
  exact Rat.not_lt.mp hc

/-- `AddWithCount(i, c)`: int32 index, and a finite count is `≥ 0` (a non-finite count leaves both sides unchanged) -/
theorem sim_addWithCount {x : GPS grow} {st : Store} (h : Sim x st) (i : Int) (hi32 : Idx32 i) (c : F64)
    (hc : ∀ w, c = .fin w → 0 ≤ w) :
    Sim (StoreI.AddWithCount x i c : GPS grow) (StoreI.AddWithCount st i c) := by
  obtain ⟨s, s', cap, hx, rfl, hi, hi', hcs⟩ := id h
  cases c with
  | fin w =>
    have hw : 0 ≤ w := hc w rfl
    obtain ⟨s1, h1, hi1, hc1⟩ :=
      Props.C04Pag.add_content s hi i hi32 w hw (decide ((s.buffer.length : Int) = cap))
    obtain ⟨s1', h1', hi1', hc1'⟩ := Props.C04Pag.add_content s' hi' i hi32 w hw true
    have hspec := addWithCountSpec s cap grow i w (addFuel s i + 1) (Nat.le_succ _)
    rw [h1] at hspec
    obtain ⟨g', hg', cap1, rfl⟩ := hspec
    refine ⟨s1, s1', cap1, ?_, ?_, hi1, hi1', by rw [hc1, hc1', hcs]⟩
    · simp only [gps_addWithCount, gAddWithCount, ratOfF64, hx, ofGen_toGen, hg', okOr_ok]
    · simp only [GenSketch.store_addWithCount, GenSketch.storeAddF, Sketch.addF, Store.addWithCount, h1',
        Option.map_some, Option.getD_some]
  | pinf => exact h
  | ninf => exact h
  | nan => exact h

theorem addWithCount_one (s : PStore) (i : Int) (b : Bool) : s.addWithCount i 1 b = s.addUnit i b := by
  unfold PStore.addWithCount
  rw [if_neg (by decide), if_pos rfl]

/-- `Add(i)`: int32 index -/
theorem sim_add {x : GPS grow} {st : Store} (h : Sim x st) (i : Int) (hi32 : Idx32 i) :
    Sim (StoreI.Add x i : GPS grow) (StoreI.Add st i) := by
  obtain ⟨s, s', cap, hx, rfl, hi, hi', hcs⟩ := h
  obtain ⟨s1, h1, hi1, hc1⟩ :=
    Props.C04Pag.addUnit_content s hi i hi32 (decide ((s.buffer.length : Int) = cap))
  obtain ⟨s1', h1', hi1', hc1'⟩ := Props.C04Pag.add_content s' hi' i hi32 1 (by decide) true
  have hspec := addSpec s cap grow i (addFuel s i + 1) (Nat.le_succ _)
  rw [h1] at hspec
  obtain ⟨g', hg', cap1, rfl⟩ := hspec
  refine ⟨s1, s1', cap1, ?_, ?_, hi1, hi1', by rw [hc1, hc1', hcs]⟩
  · simp only [gps_add, gAdd, hx, ofGen_toGen, hg', okOr_ok]
  · simp only [GenSketch.store_add, Store.addWithCount, h1', Option.map_some, Option.getD_some]

theorem sim_clear {x : GPS grow} {st : Store} (h : Sim x st) :
    Sim (StoreI.Clear x : GPS grow) (StoreI.Clear st) := by
  obtain ⟨s, s', cap, hx, rfl, hi, hi', _⟩ := h
  obtain ⟨a1, a2⟩ := Props.C04Pag.clear_content s hi
  obtain ⟨b1, b2⟩ := Props.C04Pag.clear_content s' hi'
  refine ⟨s.clear, s'.clear, cap, ?_, rfl, a1, b1, by rw [a2, b2]⟩
  simp only [gps_clear, gClear, hx, GenPag.clear_spec, okOr_ok]

theorem sim_copy {x : GPS grow} {st : Store} (h : Sim x st) :
    Sim (StoreI.Copy x : GPS grow) (StoreI.Copy st) := by
  obtain ⟨s, s', cap, hx, rfl, hi, hi', hc⟩ := h
  refine ⟨s, s', (s.buffer.length : Int), ?_, rfl, hi, hi', hc⟩
  simp only [gps_copy, gCopy, hx, copy_spec, okOr_ok]


/-- same-kind `MergeWith` -/
theorem sim_mergeWith {x y : GPS grow} {st so : Store} (h : Sim x st) (h' : Sim y so) :
    Sim (StoreI.MergeWith x y : GPS grow) (StoreI.MergeWith st so) := by
  obtain ⟨s, s', cap, hx, rfl, hi, hi', hc⟩ := h
  obtain ⟨o, o', cap', hy, rfl, ho, ho', hco⟩ := h'
  obtain ⟨g', s1, hg, ⟨cap1, rfl⟩, hi1, hc1⟩ :=
    Props.C04GenPag.gen_merge s o hi ho cap cap' grow (fun s _ => .ok s)
      (mergeFuel addFuel s o + 1) (Nat.le_succ _)
  obtain ⟨s1', hm', hi1', hc1'⟩ := Props.C04Pag.mergeSame_content s' o' hi' ho'
  refine ⟨s1, s1', cap1, ?_, ?_, hi1, hi1', by rw [hc1, hc1', hc, hco]⟩
  · simp only [gps_mergeWith, gMergeWith, hx, hy, ofGen_toGen, hg, okOr_ok]
  · simp only [GenSketch.store_mergeWith, Store.mergeWith, hi'.log2, ho'.log2, if_true, hm', Option.map_some,
      Option.getD_some]

/-- `Reweight(w)`, every float factor: the same error, related receivers -/
theorem sim_reweight {x : GPS grow} {st : Store} (h : Sim x st) (w : F64) :
    (StoreI.Reweight x w).2 = (StoreI.Reweight st w).2 ∧
      Sim (StoreI.Reweight x w).1 (StoreI.Reweight st w).1 := by
  simp only [gps_reweight, gReweight, GenSketch.store_reweight, GenSketch.storeReweight]
  by_cases hle : F64.le w (.fin 0) = true
  · simp only [hle, if_true]; exact ⟨trivial, h⟩
  · simp only [hle, Bool.false_eq_true, if_false]
    cases w with
    | fin q =>
      have hq : ¬ q ≤ 0 := by
        intro hq; rw [GenSketch.le_fin_zero] at hle; exact hle (by simpa using hq)
      have hpos : 0 < q := Rat.not_le.mp hq
      obtain ⟨s, s', cap, hx, rfl, hi, hi', hc⟩ := id h
      by_cases h1 : q = 1
      · subst h1
        simp only [reweight_one]
        have : (Store.pg s').reweight 1 = some (.ok (.pg s')) := by
          unfold Store.reweight; rw [if_neg hq, if_pos rfl]
        simp only [this]
        exact ⟨trivial, h⟩
      · obtain ⟨s1, hr, hi1, hc1⟩ := Props.C04Pag.reweight_content s hi q hpos
        obtain ⟨s1', hr', hi1', hc1'⟩ := Props.C04Pag.reweight_content s' hi' q hpos
        have hg := reweight_spec page_spec s cap grow q (reweightFuel s q + 1) hpos h1 (Nat.le_succ _)
        rw [hr, GenDense.toRes_some] at hg
        have hm : (Store.pg s').reweight q = some (.ok (.pg s1')) := by
          unfold Store.reweight; rw [if_neg hq, if_neg h1]
          simp only [hr', Option.map_some]
        simp only [hx, ofGen_toGen, hg, hm]
        exact ⟨trivial, s1, s1', cap, rfl, rfl, hi1, hi1', by rw [hc1, hc1', hc]⟩
    | pinf => exact ⟨rfl, h⟩
    | ninf => exact absurd rfl hle
    | nan => exact ⟨rfl, h⟩

/-! ### sketches: the regenerated sketch code over the two store instances -/

section sketch

open DDS.Gen.Sketch

variable {M : Type} [MapI M] [Inhabited M]

/-- same mapping object, same zero count, stores in simulation -/
structure SkSim (a : DDSketch M (GPS grow)) (b : DDSketch M Store) : Prop where
  map : a.IndexMapping = b.IndexMapping
  pos : Sim a.positiveValueStore b.positiveValueStore
  neg : Sim a.negativeValueStore b.negativeValueStore
  zero : a.zeroCount = b.zeroCount

/-- `NewDDSketch(m, NewBufferedPaginatedStore(), NewBufferedPaginatedStore())` on both sides -/
theorem skSim_new (m : M) :
    SkSim (NewDDSketch m (⟨NewBufferedPaginatedStore⟩ : GPS grow) ⟨NewBufferedPaginatedStore⟩)
      (NewDDSketch m (Store.new .pag) (Store.new .pag)) :=
  ⟨rfl, sim_new, sim_new, rfl⟩

theorem GetCount_param {a : DDSketch M (GPS grow)} {b : DDSketch M Store} (h : SkSim a b) :
    DDSketch.GetCount a = DDSketch.GetCount b := by
  unfold DDSketch.GetCount
  rw [sim_totalCount h.pos, sim_totalCount h.neg, h.zero]

theorem GetZeroCount_param {a : DDSketch M (GPS grow)} {b : DDSketch M Store} (h : SkSim a b) :
    DDSketch.GetZeroCount a = DDSketch.GetZeroCount b := h.zero

theorem IsEmpty_param {a : DDSketch M (GPS grow)} {b : DDSketch M Store} (h : SkSim a b) :
    DDSketch.IsEmpty a = DDSketch.IsEmpty b := by
  unfold DDSketch.IsEmpty
  rw [sim_isEmpty h.pos, sim_isEmpty h.neg, h.zero]

/-- `GetValueAtQuantile`: the same answer (value and error), for every argument -/
theorem GetValueAtQuantile_param {a : DDSketch M (GPS grow)} {b : DDSketch M Store} (h : SkSim a b) (q : F64) :
    DDSketch.GetValueAtQuantile a q = DDSketch.GetValueAtQuantile b q := by
  unfold DDSketch.GetValueAtQuantile
  rw [GetCount_param h]
  simp only [sim_totalCount h.neg, sim_keyAtRank h.pos, sim_keyAtRank h.neg, h.zero, h.map]

theorem GetMaxValue_param {a : DDSketch M (GPS grow)} {b : DDSketch M Store} (h : SkSim a b) :
    DDSketch.GetMaxValue a = DDSketch.GetMaxValue b := by
  unfold DDSketch.GetMaxValue
  simp only [sim_isEmpty h.pos, sim_maxIndex h.pos, sim_minIndex h.neg, h.zero, h.map]

theorem GetMinValue_param {a : DDSketch M (GPS grow)} {b : DDSketch M Store} (h : SkSim a b) :
    DDSketch.GetMinValue a = DDSketch.GetMinValue b := by
  unfold DDSketch.GetMinValue
  simp only [sim_isEmpty h.neg, sim_maxIndex h.neg, sim_minIndex h.pos, h.zero, h.map]

theorem Clear_param {a : DDSketch M (GPS grow)} {b : DDSketch M Store} (h : SkSim a b) :
    SkSim (DDSketch.Clear a) (DDSketch.Clear b) :=
  ⟨h.map, sim_clear h.pos, sim_clear h.neg, rfl⟩

theorem Copy_param {a : DDSketch M (GPS grow)} {b : DDSketch M Store} (h : SkSim a b) :
    SkSim (DDSketch.Copy a) (DDSketch.Copy b) :=
  ⟨h.map, sim_copy h.pos, sim_copy h.neg, h.zero⟩

/-- `AddWithCount(value, count)`: the same error, and the receivers are related again.  Side conditions: the
    index the mapping assigns on the side the value is routed to is an int32. -/
theorem AddWithCount_param {a : DDSketch M (GPS grow)} {b : DDSketch M Store} (h : SkSim a b) (v c : F64)
    (hp : F64.lt (MapI.MinIndexableValue b.IndexMapping) v = true → Idx32 (MapI.Index b.IndexMapping v))
    (hn : F64.lt v (F64.neg (MapI.MinIndexableValue b.IndexMapping)) = true →
      Idx32 (MapI.Index b.IndexMapping (F64.neg v))) :
    (DDSketch.AddWithCount a v c).2 = (DDSketch.AddWithCount b v c).2 ∧
      SkSim (DDSketch.AddWithCount a v c).1 (DDSketch.AddWithCount b v c).1 := by
  cases a with
  | mk ma pa na za =>
  cases b with
  | mk mb pb nb zb =>
  obtain ⟨hm, hpos, hneg, hz⟩ := h
  simp only at hm hz hpos hneg hp hn
  subst hm hz
  unfold DDSketch.AddWithCount
  dsimp only
  by_cases h0 : F64.lt c (.fin 0) = true
  · simp only [h0, if_true]
    exact ⟨trivial, ⟨rfl, hpos, hneg, rfl⟩⟩
  · have hc := nonneg_of_not_lt_zero c (by simpa using h0)
    simp only [h0, Bool.false_eq_true, if_false]
    by_cases h1 : F64.lt (MapI.MinIndexableValue ma) v = true
    · simp only [h1, if_true]
      by_cases h2 : F64.lt (MapI.MaxIndexableValue ma) v = true
      · simp only [h2, if_true]
        exact ⟨trivial, ⟨rfl, hpos, hneg, rfl⟩⟩
      · simp only [h2, Bool.false_eq_true, if_false]
        exact ⟨trivial, ⟨rfl, sim_addWithCount hpos _ (hp h1) c hc, hneg, rfl⟩⟩
    · simp only [h1, Bool.false_eq_true, if_false]
      by_cases h3 : F64.lt v (F64.neg (MapI.MinIndexableValue ma)) = true
      · simp only [h3, if_true]
        by_cases h4 : F64.lt v (F64.neg (MapI.MaxIndexableValue ma)) = true
        · simp only [h4, if_true]
          exact ⟨trivial, ⟨rfl, hpos, hneg, rfl⟩⟩
        · simp only [h4, Bool.false_eq_true, if_false]
          exact ⟨trivial, ⟨rfl, hpos, sim_addWithCount hneg _ (hn h3) c hc, rfl⟩⟩
      · simp only [h3, Bool.false_eq_true, if_false]
        by_cases h5 : F64.isNaN v = true
        · simp only [h5, if_true]
          exact ⟨trivial, ⟨rfl, hpos, hneg, rfl⟩⟩
        · simp only [h5, Bool.false_eq_true, if_false]
          exact ⟨trivial, ⟨rfl, hpos, hneg, rfl⟩⟩

theorem Add_eq_AddWithCount {S : Type} [StoreI S] [Inhabited S] (g : DDSketch M S) (v : F64) :
    DDSketch.Add g v = DDSketch.AddWithCount g v (.fin 1) := rfl

theorem Add_param {a : DDSketch M (GPS grow)} {b : DDSketch M Store} (h : SkSim a b) (v : F64)
    (hp : F64.lt (MapI.MinIndexableValue b.IndexMapping) v = true → Idx32 (MapI.Index b.IndexMapping v))
    (hn : F64.lt v (F64.neg (MapI.MinIndexableValue b.IndexMapping)) = true →
      Idx32 (MapI.Index b.IndexMapping (F64.neg v))) :
    (DDSketch.Add a v).2 = (DDSketch.Add b v).2 ∧ SkSim (DDSketch.Add a v).1 (DDSketch.Add b v).1 := by
  rw [Add_eq_AddWithCount, Add_eq_AddWithCount]
  exact AddWithCount_param h v (.fin 1) hp hn


/-- `MergeWith`: same error (mapping mismatch or nil), related receivers -/
theorem MergeWith_param {a a' : DDSketch M (GPS grow)} {b b' : DDSketch M Store} (h : SkSim a b)
    (h' : SkSim a' b') :
    (DDSketch.MergeWith a a').2 = (DDSketch.MergeWith b b').2 ∧
      SkSim (DDSketch.MergeWith a a').1 (DDSketch.MergeWith b b').1 := by
  unfold DDSketch.MergeWith
  rw [h.map, h'.map]
  by_cases he : (!(MapI.Equals b.IndexMapping b'.IndexMapping)) = true
  · simp only [he, if_true]
    exact ⟨trivial, h⟩
  · simp only [he, Bool.false_eq_true, if_false]
    refine ⟨trivial, ⟨rfl, sim_mergeWith h.pos h'.pos, sim_mergeWith h.neg h'.neg, ?_⟩⟩
    show F64.add a.zeroCount a'.zeroCount = F64.add b.zeroCount b'.zeroCount
    rw [h.zero, h'.zero]

/-- `Reweight`: same error, related receivers, for every float factor -/
theorem Reweight_param {a : DDSketch M (GPS grow)} {b : DDSketch M Store} (h : SkSim a b) (w : F64) :
    (DDSketch.Reweight a w).2 = (DDSketch.Reweight b w).2 ∧
      SkSim (DDSketch.Reweight a w).1 (DDSketch.Reweight b w).1 := by
  cases a with
  | mk ma pa na za =>
  cases b with
  | mk mb pb nb zb =>
  obtain ⟨hm, hpos, hneg, hz⟩ := h
  simp only at hm hz hpos hneg
  subst hm hz
  unfold DDSketch.Reweight
  dsimp only
  by_cases h0 : F64.le w (.fin 0) = true
  · simp only [h0, if_true]
    exact ⟨trivial, ⟨rfl, hpos, hneg, rfl⟩⟩
  · simp only [h0, Bool.false_eq_true, if_false]
    by_cases h1 : F64.eq w (.fin 1) = true
    · simp only [h1, if_true]
      exact ⟨trivial, ⟨rfl, hpos, hneg, rfl⟩⟩
    · simp only [h1, Bool.false_eq_true, if_false]
      obtain ⟨e1, s1⟩ := sim_reweight hpos w
      obtain ⟨e2, s2⟩ := sim_reweight hneg w
      generalize (StoreI.Reweight pa w : GPS grow × GoErr) = ra at e1 s1
      generalize (StoreI.Reweight pb w : Store × GoErr) = rb at e1 s1
      generalize (StoreI.Reweight na w : GPS grow × GoErr) = rna at e2 s2
      generalize (StoreI.Reweight nb w : Store × GoErr) = rnb at e2 s2
      obtain ⟨ta, ea⟩ := ra
      obtain ⟨tb, eb⟩ := rb
      obtain ⟨tna, ena⟩ := rna
      obtain ⟨tnb, enb⟩ := rnb
      simp only at e1 s1 e2 s2
      subst e1 e2
      dsimp only
      by_cases h2 : (ea != GoErr.nil) = true
      · simp only [h2, if_true]
        exact ⟨trivial, ⟨rfl, s1, hneg, rfl⟩⟩
      · simp only [h2, Bool.false_eq_true, if_false]
        by_cases h3 : (ena != GoErr.nil) = true
        · simp only [h3, if_true]
          exact ⟨trivial, ⟨rfl, s1, s2, rfl⟩⟩
        · simp only [h3, Bool.false_eq_true, if_false]
          exact ⟨trivial, ⟨rfl, s1, s2, rfl⟩⟩

/-- `Add`/`AddWithCount` never change the mapping object -/
theorem AddWithCount_mapping {S : Type} [StoreI S] [Inhabited S] (g : DDSketch M S) (v c : F64) :
    (DDSketch.AddWithCount g v c).1.IndexMapping = g.IndexMapping := by
  unfold DDSketch.AddWithCount
  repeat' split
  all_goals rfl

/-- a history of `AddWithCount(value, count)` calls: the final receiver and the errors returned, in order -/
def runAdds {S : Type} [StoreI S] [Inhabited S] (g : DDSketch M S) : List (F64 × F64) → DDSketch M S × List GoErr
  | [] => (g, [])
  | (v, c) :: rest =>
    let r := DDSketch.AddWithCount g v c
    let r' := runAdds r.1 rest
    (r'.1, r.2 :: r'.2)

theorem runAdds_mapping {S : Type} [StoreI S] [Inhabited S] (l : List (F64 × F64)) :
    ∀ g : DDSketch M S, (runAdds g l).1.IndexMapping = g.IndexMapping := by
  induction l with
  | nil => intro g; rfl
  | cons p rest ih =>
    intro g
    obtain ⟨v, c⟩ := p
    show (runAdds (DDSketch.AddWithCount g v c).1 rest).1.IndexMapping = _
    rw [ih, AddWithCount_mapping]

/-- the index condition of `AddWithCount_param` for the mapping object `m` and the value `v` -/
def Routed32 (m : M) (v : F64) : Prop :=
  (F64.lt (MapI.MinIndexableValue m) v = true → Idx32 (MapI.Index m v)) ∧
  (F64.lt v (F64.neg (MapI.MinIndexableValue m)) = true → Idx32 (MapI.Index m (F64.neg v)))

/-- **histories**: every sequence of `AddWithCount` calls (any values, any counts — refused calls included) whose
    routed indexes are int32 returns the same errors on the regenerated store as on the model store, and ends in
    related sketches -/
theorem runAdds_param (l : List (F64 × F64)) :
    ∀ {a : DDSketch M (GPS grow)} {b : DDSketch M Store}, SkSim a b →
      (∀ p ∈ l, Routed32 b.IndexMapping p.1) →
      (runAdds a l).2 = (runAdds b l).2 ∧ SkSim (runAdds a l).1 (runAdds b l).1 := by
  induction l with
  | nil => intro a b h _; exact ⟨rfl, h⟩
  | cons p rest ih =>
    intro a b h hl
    obtain ⟨v, c⟩ := p
    have hv := hl (v, c) (List.mem_cons_self ..)
    obtain ⟨e1, s1⟩ := AddWithCount_param h v c hv.1 hv.2
    obtain ⟨e2, s2⟩ := ih s1 (fun q hq => by
      rw [AddWithCount_mapping]; exact hl q (List.mem_cons_of_mem _ hq))
    refine ⟨?_, s2⟩
    show (DDSketch.AddWithCount a v c).2 :: _ = (DDSketch.AddWithCount b v c).2 :: _
    rw [e1, e2]

/-- the payoff in generic form: after any such history from `NewDDSketch` on fresh paginated stores, every
    observer of the regenerated sketch over the regenerated store answers as over the model store -/
theorem history_observers_param (m : M) (l : List (F64 × F64)) (hl : ∀ p ∈ l, Routed32 m p.1) :
    let a := runAdds (NewDDSketch m (⟨NewBufferedPaginatedStore⟩ : GPS grow) ⟨NewBufferedPaginatedStore⟩) l
    let b := runAdds (NewDDSketch m (Store.new .pag) (Store.new .pag)) l
    a.2 = b.2 ∧ DDSketch.GetCount a.1 = DDSketch.GetCount b.1 ∧ DDSketch.IsEmpty a.1 = DDSketch.IsEmpty b.1 ∧
    (∀ q, DDSketch.GetValueAtQuantile a.1 q = DDSketch.GetValueAtQuantile b.1 q) ∧
    DDSketch.GetMinValue a.1 = DDSketch.GetMinValue b.1 ∧ DDSketch.GetMaxValue a.1 = DDSketch.GetMaxValue b.1 := by
  intro a b
  obtain ⟨he, hs⟩ := runAdds_param (grow := grow) l (skSim_new m) hl
  exact ⟨he, GetCount_param hs, IsEmpty_param hs, fun q => GetValueAtQuantile_param hs q,
    GetMinValue_param hs, GetMaxValue_param hs⟩

end sketch

end DDS.GenPagSketch
