/-
  DDS.Proofs.GenSketch4 — the REGENERATED sketch-level ENCODERS (`DDSketch.Encode`,
  `DDSketchWithExactSummaryStatistics.Encode` of `DDS/Generated/CodeSketch.lean`, translated from
  `/repo/ddsketch/ddsketch.go:373` and `:720` on every run) against the hand-written model
  `Sketch.encode` / `XSketch.encode` (`DDS/Model/Sketch.lean`) and the wire grammar `Wire.encBlocks`.

  1. normal forms of the two generated functions, for ANY instances `[MapI M] [StoreI S]`
     (`Encode_nf`, `XEncode_nf`): an optional flag + varfloat64 block (`optVF`), optional
     flag + float64LE blocks (`optLE`), then the pure tail `encTail` (mapping, positive store,
     negative store).
  2. `Encode_rel` / `Encode_rel_gen`, `XEncode_rel` / `XEncode_rel_gen`: with the model's instances
     (`MapI MapEnv`, `StoreI Store` of `DDS/Proofs/GenSketch.lean`), `9 ≤ fuel`:
        `s.encode om = some (s', blocks)` →
        `DDSketch.Encode fuel (toGen env s) b om = .ok (toGen env s', b ++ bn (Wire.encBlocks blocks))`.
     * the MAPPING: the generated structure always holds a mapping object, so (unless
       `omitIndexMapping`) it always writes a mapping block; the model writes none when
       `s.mapping = none`.  `Encode_rel` therefore asks `om = false → s.mapping = some env.id`
       (nothing is asked when the mapping is omitted).  `Encode_rel_gen` is the unconditional form:
       the generated encoder on `toGen env s` is the model's encoder on `s` WITH its mapping set to
       `some env.id`.
     * `none` (a model store operation panics, i.e. `Sketch.encodeStore` of one of the two stores is
       `none`): NOTHING is claimed by `Encode_rel`.  (The `StoreI Store` instance then leaves store and
       buffer unchanged; `Encode_model_total` records that with the model's instances the generated
       encoder never panics and never runs out of fuel.)
     * the EXACT variant: the generated code tests `count != 0`, `sum != 0`, `min != +Inf`,
       `max != -Inf` with `F64.ne`, in the order count, sum, min, max, and so does
       `XSketch.encode`; they agree on EVERY value of the statistics (NaN: `ne` is true, the block is
       written by both; the model's `F64` has a single zero, so `-0` is not a separate input) — no
       disagreement was found.
  3. `Encode_appends` / `XEncode_appends` — C06 clause "encoding only appends to the caller's buffer",
     on the generated code alone, for ANY instances whose `Encode` methods only append
     (`MapAppends M`, `StoreAppends S`), for ANY fuel: whenever the generated encoder returns `.ok`,
     the returned buffer is `b ++ out`; the returned sketch has the same mapping object and zero
     count (and, for the exact variant, the same statistics).  `Encode_ok` / `XEncode_ok`: with
     `9 ≤ fuel` it does return `.ok` (neither panic nor out of fuel).

  Corollaries with the model's C06 theorems: `DDS/Props/C06GenSketch.lean`.
-/
import DDS.Proofs.GenSketch2
import DDS.Proofs.GenDenseEncode
import DDS.Proofs.GenMapId

namespace DDS.GenSketch

open DDS DDS.GoSem DDS.Gen.Sketch DDS.Gen.Encoding DDS.GenEncoding DDS.Codec

/-! ### small facts -/

theorem bn_app (a b : List Nat) : bn (a ++ b) = bn a ++ bn b := by simp [bn]

theorem Res.bind_ok_id {α} (x : Res α) : Res.bind x (fun a => .ok a) = x := by
  cases x <;> rfl

theorem Res.bind_eq_ok {α β} {x : Res α} {k : α → Res β} {r : β} (h : Res.bind x k = .ok r) :
    ∃ a, x = .ok a ∧ k a = .ok r := by
  cases x with
  | ok a => exact ⟨a, rfl, h⟩
  | panic => cases h
  | nofuel => cases h

theorem inf_one : GoSem.inf (1 : Int) = F64.pinf := by decide
theorem inf_neg_one : GoSem.inf (-1 : Int) = F64.ninf := by decide

theorem flagSide_pos : flagSide FlagTypePositiveStore = .pos := by decide
theorem flagSide_neg : flagSide FlagTypeNegativeStore = .neg := by decide

/-! ### 1. normal forms of the generated encoders (any instances) -/

/-- `if c { EncodeFlag(b, f); EncodeVarfloat64(b, v) }` -/
def optVF (fuel : Nat) (c : Bool) (f : Flag) (v : F64) (b : List (BitVec 8)) : Res (List (BitVec 8)) :=
  if c then EncodeVarfloat64 fuel (EncodeFlag b f) v else .ok b

/-- `if c { EncodeFlag(b, f); EncodeFloat64LE(b, v) }` -/
def optLE (fuel : Nat) (c : Bool) (f : Flag) (v : F64) (b : List (BitVec 8)) : Res (List (BitVec 8)) :=
  if c then EncodeFloat64LE fuel (EncodeFlag b f) v else .ok b

section Generic
variable {M S : Type} [MapI M] [StoreI S] [Inhabited M] [Inhabited S]

/-- what `DDSketch.Encode` does after the zero-count block: mapping (unless omitted), positive store,
    negative store -/
def encTail (s : DDSketch M S) (b : List (BitVec 8)) (om : Bool) : DDSketch M S × List (BitVec 8) :=
  let b2 := if om then b else MapI.Encode s.IndexMapping b
  let p := StoreI.Encode s.positiveValueStore b2 FlagTypePositiveStore
  let n := StoreI.Encode s.negativeValueStore p.2 FlagTypeNegativeStore
  ({ s with positiveValueStore := p.1, negativeValueStore := n.1 }, n.2)

theorem Encode_nf (fuel : Nat) (s : DDSketch M S) (b : List (BitVec 8)) (om : Bool) :
    DDSketch.Encode fuel s b om =
      Res.bind (optVF fuel (F64.ne s.zeroCount (F64.fin 0)) FlagZeroCountVarFloat s.zeroCount b)
        (fun b1 => .ok (encTail s b1 om)) := by
  unfold DDSketch.Encode optVF
  simp only [Res.bind_ok_id]
  congr 1
  funext b1
  cases om <;> rfl

theorem XEncode_nf (fuel : Nat) (s : DDSketchWithExactSummaryStatistics M S) (b : List (BitVec 8))
    (om : Bool) :
    DDSketchWithExactSummaryStatistics.Encode fuel s b om =
      Res.bind (optVF fuel (F64.ne (Gen.Stat.SummaryStatistics.Count s.summaryStatistics) (F64.fin 0))
        FlagCount (Gen.Stat.SummaryStatistics.Count s.summaryStatistics) b) (fun b =>
      Res.bind (optLE fuel (F64.ne (Gen.Stat.SummaryStatistics.Sum s.summaryStatistics) (F64.fin 0))
        FlagSum (Gen.Stat.SummaryStatistics.Sum s.summaryStatistics) b) (fun b =>
      Res.bind (optLE fuel (F64.ne (Gen.Stat.SummaryStatistics.Min s.summaryStatistics) F64.pinf)
        FlagMin (Gen.Stat.SummaryStatistics.Min s.summaryStatistics) b) (fun b =>
      Res.bind (optLE fuel (F64.ne (Gen.Stat.SummaryStatistics.Max s.summaryStatistics) F64.ninf)
        FlagMax (Gen.Stat.SummaryStatistics.Max s.summaryStatistics) b) (fun b =>
      Res.bind (DDSketch.Encode fuel s.DDSketch b om) (fun r =>
        .ok ({ s with DDSketch := r.1 }, r.2)))))) := by
  unfold DDSketchWithExactSummaryStatistics.Encode optVF optLE
  simp only [Res.bind_ok_id, inf_one, inf_neg_one]

end Generic

/-! ### the optional blocks against the model's bytes -/

theorem optVF_eq (fuel : Nat) (hf : 9 ≤ fuel) (c : Bool) (f : Flag) (v : F64) (b : List (BitVec 8)) :
    optVF fuel c f v b = .ok (b ++ bn (if c then f.byte.toNat :: encVarfloat64 v else [])) := by
  unfold optVF
  cases c with
  | false => simp [bn]
  | true =>
    simp only [if_true]
    rw [GenDenseEncode.EncodeVarfloat64_eq fuel hf]
    show Res.ok (b ++ [f.byte] ++ bn _) = _
    rw [GenDenseEncode.block_bytes b f.byte _ rfl]

theorem optLE_eq (fuel : Nat) (c : Bool) (f : Flag) (v : F64) (b : List (BitVec 8)) :
    optLE fuel c f v b = .ok (b ++ bn (if c then f.byte.toNat :: encF64LE v.toBits.toNat else [])) := by
  unfold optLE
  cases c with
  | false => simp [bn]
  | true =>
    simp only [if_true]
    rw [GenMapId.EncodeFloat64LE_eq fuel]
    show Res.ok (b ++ [f.byte] ++ bn _) = _
    rw [GenDenseEncode.block_bytes b f.byte _ rfl]

/-! ### 3a. the codecs only append, for ANY fuel -/

/-- a finished `EncodeVarfloat64` loop has only appended to `b` -/
def LoopPrefix (b : List (BitVec 8)) :
    Loop (BitVec 64 × List (BitVec 8) × Int) (List (BitVec 8)) → Prop
  | .ret b' => ∃ out, b' = b ++ out
  | .done (_, b', _) => ∃ out, b' = b ++ out
  | _ => True

theorem LoopPrefix.weaken {b c : List (BitVec 8)} {l} (h : LoopPrefix (b ++ c) l) : LoopPrefix b l := by
  cases l with
  | ret b' => obtain ⟨out, rfl⟩ := h; exact ⟨c ++ out, by rw [List.append_assoc]⟩
  | done st =>
    obtain ⟨x, b', i⟩ := st
    obtain ⟨out, h⟩ := h
    exact ⟨c ++ out, by rw [h, List.append_assoc]⟩
  | panic => trivial
  | nofuel => trivial

theorem encVarfloat64_loop_prefix : ∀ (fuel : Nat) (x : BitVec 64) (b : List (BitVec 8)) (i : Int),
    LoopPrefix b (EncodeVarfloat64.loop1 fuel x b i) := by
  intro fuel
  induction fuel with
  | zero => intro x b i; trivial
  | succ fuel ih =>
    intro x b i
    unfold EncodeVarfloat64.loop1
    by_cases hi : i < 8
    · simp only [hi, decide_true, if_true]
      by_cases hz : (x <<< 7 == 0#64) = true
      · simp only [hz, if_true]
        exact ⟨_, rfl⟩
      · simp only [hz, Bool.false_eq_true, if_false]
        exact (ih _ _ _).weaken
    · simp only [hi, decide_false, Bool.false_eq_true, if_false]
      exact ⟨[], by simp⟩

theorem elim_prefix (l : Loop (BitVec 64 × List (BitVec 8) × Int) (List (BitVec 8)))
    (k : BitVec 64 × List (BitVec 8) × Int → Res (List (BitVec 8)))
    (hk : ∀ x b1 i, ∃ o, k (x, b1, i) = .ok (b1 ++ o))
    (b b' : List (BitVec 8)) (hp : LoopPrefix b l) (h : Loop.elim l k = .ok b') :
    ∃ out, b' = b ++ out := by
  cases l with
  | ret r =>
    rw [Loop.elim_ret, Res.ok.injEq] at h
    subst h; exact hp
  | done st =>
    obtain ⟨x, b1, i⟩ := st
    obtain ⟨o, ho⟩ := hk x b1 i
    obtain ⟨out, hb1⟩ := hp
    rw [Loop.elim_done, ho, Res.ok.injEq] at h
    exact ⟨out ++ o, by rw [← h, hb1, List.append_assoc]⟩
  | panic => cases h
  | nofuel => cases h

/-- `EncodeVarfloat64` only appends, whatever the fuel -/
theorem EncodeVarfloat64_prefix (fuel : Nat) (b : List (BitVec 8)) (v : F64) (b' : List (BitVec 8))
    (h : EncodeVarfloat64 fuel b v = .ok b') : ∃ out, b' = b ++ out :=
  elim_prefix _ _ (fun x _ _ => ⟨[BitVec.setWidth 8 (x >>> 56)], rfl⟩) b b'
    (encVarfloat64_loop_prefix fuel _ b 0) h

theorem optVF_prefix (fuel : Nat) (c : Bool) (f : Flag) (v : F64) (b b' : List (BitVec 8))
    (h : optVF fuel c f v b = .ok b') : ∃ out, b' = b ++ out := by
  unfold optVF at h
  cases c with
  | false =>
    simp only [Bool.false_eq_true, if_false, Res.ok.injEq] at h
    exact ⟨[], by simp [h]⟩
  | true =>
    simp only [if_true] at h
    obtain ⟨out, ho⟩ := EncodeVarfloat64_prefix fuel _ v b' h
    exact ⟨f.byte :: out, by rw [ho]; simp [EncodeFlag]⟩

theorem optLE_prefix (fuel : Nat) (c : Bool) (f : Flag) (v : F64) (b b' : List (BitVec 8))
    (h : optLE fuel c f v b = .ok b') : ∃ out, b' = b ++ out := by
  rw [optLE_eq] at h
  simp only [Res.ok.injEq] at h
  exact ⟨_, h.symm⟩

/-! ### 3. `Encode` only appends — on the generated code alone, for any instances -/

section Generic
variable {M S : Type} [MapI M] [StoreI S] [Inhabited M] [Inhabited S]

/-- the mapping's `Encode` only appends to the caller's buffer -/
def MapAppends (M : Type) [MapI M] : Prop :=
  ∀ (m : M) (b : List (BitVec 8)), ∃ out, MapI.Encode m b = b ++ out

/-- the store's `Encode` only appends to the caller's buffer -/
def StoreAppends (S : Type) [StoreI S] : Prop :=
  ∀ (st : S) (b : List (BitVec 8)) (t : FlagType), ∃ out, (StoreI.Encode st b t).2 = b ++ out

omit [Inhabited M] [Inhabited S] in
theorem encTail_appends (hM : MapAppends M) (hS : StoreAppends S) (s : DDSketch M S)
    (b : List (BitVec 8)) (om : Bool) :
    (∃ out, (encTail s b om).2 = b ++ out) ∧
      (encTail s b om).1.IndexMapping = s.IndexMapping ∧
      (encTail s b om).1.zeroCount = s.zeroCount := by
  refine ⟨?_, rfl, rfl⟩
  unfold encTail
  simp only []
  have h2 : ∃ o2, (if om = true then b else MapI.Encode s.IndexMapping b) = b ++ o2 := by
    cases om with
    | false => simpa using hM s.IndexMapping b
    | true => exact ⟨[], by simp⟩
  obtain ⟨o2, h2⟩ := h2
  rw [h2]
  obtain ⟨o3, h3⟩ := hS s.positiveValueStore (b ++ o2) FlagTypePositiveStore
  rw [h3]
  obtain ⟨o4, h4⟩ := hS s.negativeValueStore (b ++ o2 ++ o3) FlagTypeNegativeStore
  rw [h4]
  exact ⟨o2 ++ (o3 ++ o4), by simp only [List.append_assoc]⟩

/-- **C06 "encoding only appends to the caller's buffer"**, on the regenerated `DDSketch.Encode`, for
    ANY mapping and store implementations whose own `Encode` only appends, ANY fuel: a returned
    buffer is the caller's buffer followed by new bytes; the returned sketch has the same mapping
    object and zero count. -/
theorem Encode_appends (hM : MapAppends M) (hS : StoreAppends S) (fuel : Nat) (s : DDSketch M S)
    (b : List (BitVec 8)) (om : Bool) (r : DDSketch M S × List (BitVec 8))
    (h : DDSketch.Encode fuel s b om = .ok r) :
    (∃ out, r.2 = b ++ out) ∧ r.1.IndexMapping = s.IndexMapping ∧ r.1.zeroCount = s.zeroCount := by
  rw [Encode_nf] at h
  obtain ⟨b1, h1, h2⟩ := Res.bind_eq_ok h
  simp only [Res.ok.injEq] at h2
  subst h2
  obtain ⟨o1, rfl⟩ := optVF_prefix _ _ _ _ _ _ h1
  obtain ⟨⟨o2, ho⟩, hm, hz⟩ := encTail_appends hM hS s (b ++ o1) om
  exact ⟨⟨o1 ++ o2, by rw [ho, List.append_assoc]⟩, hm, hz⟩

/-- with `9 ≤ fuel` the regenerated encoder does return: no panic, no fuel exhaustion -/
theorem Encode_ok (hM : MapAppends M) (hS : StoreAppends S) (fuel : Nat) (hf : 9 ≤ fuel)
    (s : DDSketch M S) (b : List (BitVec 8)) (om : Bool) :
    ∃ s' out, DDSketch.Encode fuel s b om = .ok (s', b ++ out) ∧
      s'.IndexMapping = s.IndexMapping ∧ s'.zeroCount = s.zeroCount := by
  have hr : ∃ r, DDSketch.Encode fuel s b om = .ok r := by
    rw [Encode_nf, optVF_eq fuel hf, Res.bind_ok]
    exact ⟨_, rfl⟩
  obtain ⟨r, hr⟩ := hr
  obtain ⟨⟨out, ho⟩, hm, hz⟩ := Encode_appends hM hS fuel s b om r hr
  refine ⟨r.1, out, ?_, hm, hz⟩
  rw [hr, ← ho]

/-- the same for the exact-summary variant: the statistics blocks and then the plain `Encode`; the
    statistics themselves are returned unchanged -/
theorem XEncode_appends (hM : MapAppends M) (hS : StoreAppends S) (fuel : Nat)
    (s : DDSketchWithExactSummaryStatistics M S) (b : List (BitVec 8)) (om : Bool)
    (r : DDSketchWithExactSummaryStatistics M S × List (BitVec 8))
    (h : DDSketchWithExactSummaryStatistics.Encode fuel s b om = .ok r) :
    (∃ out, r.2 = b ++ out) ∧ r.1.summaryStatistics = s.summaryStatistics ∧
      r.1.DDSketch.IndexMapping = s.DDSketch.IndexMapping ∧
      r.1.DDSketch.zeroCount = s.DDSketch.zeroCount := by
  rw [XEncode_nf] at h
  obtain ⟨b1, h1, h⟩ := Res.bind_eq_ok h
  obtain ⟨b2, h2, h⟩ := Res.bind_eq_ok h
  obtain ⟨b3, h3, h⟩ := Res.bind_eq_ok h
  obtain ⟨b4, h4, h⟩ := Res.bind_eq_ok h
  obtain ⟨q, h5, h⟩ := Res.bind_eq_ok h
  simp only [Res.ok.injEq] at h
  subst h
  obtain ⟨o1, rfl⟩ := optVF_prefix _ _ _ _ _ _ h1
  obtain ⟨o2, rfl⟩ := optLE_prefix _ _ _ _ _ _ h2
  obtain ⟨o3, rfl⟩ := optLE_prefix _ _ _ _ _ _ h3
  obtain ⟨o4, rfl⟩ := optLE_prefix _ _ _ _ _ _ h4
  obtain ⟨⟨o5, ho⟩, hm, hz⟩ := Encode_appends hM hS fuel _ _ om q h5
  exact ⟨⟨o1 ++ (o2 ++ (o3 ++ (o4 ++ o5))), by simp only [ho, List.append_assoc]⟩, rfl, hm, hz⟩

theorem XEncode_ok (hM : MapAppends M) (hS : StoreAppends S) (fuel : Nat) (hf : 9 ≤ fuel)
    (s : DDSketchWithExactSummaryStatistics M S) (b : List (BitVec 8)) (om : Bool) :
    ∃ s' out, DDSketchWithExactSummaryStatistics.Encode fuel s b om = .ok (s', b ++ out) ∧
      s'.summaryStatistics = s.summaryStatistics := by
  have hr : ∃ r, DDSketchWithExactSummaryStatistics.Encode fuel s b om = .ok r := by
    rw [XEncode_nf, optVF_eq fuel hf, Res.bind_ok, optLE_eq, Res.bind_ok, optLE_eq, Res.bind_ok,
      optLE_eq, Res.bind_ok]
    obtain ⟨s', out, h, _⟩ := Encode_ok hM hS fuel hf s.DDSketch
      (b ++ bn (if F64.ne (Gen.Stat.SummaryStatistics.Count s.summaryStatistics) (F64.fin 0) = true
          then FlagCount.byte.toNat :: encVarfloat64 (Gen.Stat.SummaryStatistics.Count s.summaryStatistics)
          else []) ++
        bn (if F64.ne (Gen.Stat.SummaryStatistics.Sum s.summaryStatistics) (F64.fin 0) = true
          then FlagSum.byte.toNat :: encF64LE (Gen.Stat.SummaryStatistics.Sum s.summaryStatistics).toBits.toNat
          else []) ++
        bn (if F64.ne (Gen.Stat.SummaryStatistics.Min s.summaryStatistics) F64.pinf = true
          then FlagMin.byte.toNat :: encF64LE (Gen.Stat.SummaryStatistics.Min s.summaryStatistics).toBits.toNat
          else []) ++
        bn (if F64.ne (Gen.Stat.SummaryStatistics.Max s.summaryStatistics) F64.ninf = true
          then FlagMax.byte.toNat :: encF64LE (Gen.Stat.SummaryStatistics.Max s.summaryStatistics).toBits.toNat
          else [])) om
    rw [h, Res.bind_ok]
    exact ⟨_, rfl⟩
  obtain ⟨r, hr⟩ := hr
  obtain ⟨⟨out, ho⟩, hst, _⟩ := XEncode_appends hM hS fuel s b om r hr
  refine ⟨r.1, out, ?_, hst⟩
  rw [hr, ← ho]

end Generic

/-! ### the model's instances only append -/

theorem mapEnv_appends : MapAppends MapEnv := fun _ _ => ⟨_, rfl⟩

theorem store_appends : StoreAppends Store := by
  intro st b t
  show ∃ out, (storeEncode st b t).2 = b ++ out
  unfold storeEncode
  cases Sketch.encodeStore st (flagSide t) with
  | none => exact ⟨[], by simp⟩
  | some r => exact ⟨_, rfl⟩

/-- with the model's instances the regenerated encoder never panics and never runs out of fuel
    (`9 ≤ fuel`), whether or not the model's store operations do -/
theorem Encode_model_total (fuel : Nat) (hf : 9 ≤ fuel) (env : MapEnv) (s : Sketch)
    (b : List (BitVec 8)) (om : Bool) :
    ∃ g out, DDSketch.Encode fuel (toGen env s) b om = .ok (g, b ++ out) := by
  obtain ⟨g, out, h, _⟩ := Encode_ok mapEnv_appends store_appends fuel hf (toGen env s) b om
  exact ⟨g, out, h⟩

/-! ### 2. the generated encoders against the model -/

theorem map_encode (e : MapEnv) (b : List (BitVec 8)) :
    MapI.Encode e b = b ++ bn (Wire.encBlock e.id.toBlock) := rfl

theorem store_encode_pos (st st' : Store) (bl : List Block) (b : List (BitVec 8))
    (h : Sketch.encodeStore st .pos = some (st', bl)) :
    StoreI.Encode st b FlagTypePositiveStore = (st', b ++ bn (Wire.encBlocks bl)) := by
  show storeEncode st b FlagTypePositiveStore = _
  unfold storeEncode
  rw [flagSide_pos, h]
  rfl

theorem store_encode_neg (st st' : Store) (bl : List Block) (b : List (BitVec 8))
    (h : Sketch.encodeStore st .neg = some (st', bl)) :
    StoreI.Encode st b FlagTypeNegativeStore = (st', b ++ bn (Wire.encBlocks bl)) := by
  show storeEncode st b FlagTypeNegativeStore = _
  unfold storeEncode
  rw [flagSide_neg, h]
  rfl

/-- the blocks the model writes in front of the stores: zero count, mapping -/
def zeroBlocks (z : F64) : List Block :=
  if F64.ne z (.fin 0) then [.zeroCount (Sketch.vfBitsF z)] else []

def mappingBlocks (m : Option MapId) (om : Bool) : List Block :=
  if om then [] else match m with
    | some id => [id.toBlock]
    | none => []

/-- `Sketch.encode` succeeds exactly when both store encoders do -/
theorem encode_some (s : Sketch) (om : Bool) (s' : Sketch) (blocks : List Block)
    (h : s.encode om = some (s', blocks)) :
    ∃ p pb n nbl, Sketch.encodeStore s.pos .pos = some (p, pb) ∧
      Sketch.encodeStore s.neg .neg = some (n, nbl) ∧
      s' = { s with pos := p, neg := n } ∧
      blocks = zeroBlocks s.zero ++ mappingBlocks s.mapping om ++ pb ++ nbl := by
  unfold Sketch.encode at h
  cases hp : Sketch.encodeStore s.pos .pos with
  | none => simp [hp] at h
  | some rp =>
    obtain ⟨p, pb⟩ := rp
    cases hn : Sketch.encodeStore s.neg .neg with
    | none => simp [hp, hn] at h
    | some rn =>
      obtain ⟨n, nbl⟩ := rn
      simp only [hp, hn, Option.bind_eq_bind, Option.bind_some, Option.pure_def, Option.some.injEq,
        Prod.mk.injEq] at h
      exact ⟨p, pb, n, nbl, rfl, rfl, h.1.symm, h.2.symm⟩

theorem encBlocks_zeroBlocks (z : F64) :
    Wire.encBlocks (zeroBlocks z) =
      if F64.ne z (.fin 0) = true then FlagZeroCountVarFloat.byte.toNat :: encVarfloat64 z else [] := by
  unfold zeroBlocks
  split
  · rw [Wire.encBlocks_cons, Wire.encBlocks_nil, List.append_nil, FlagZeroCountVarFloat_byte]
    rfl
  · rfl

/-- the pure tail of the generated encoder, with the model's instances -/
theorem encTail_model (env : MapEnv) (s : Sketch) (b : List (BitVec 8)) (om : Bool)
    (p n : Store) (pb nbl : List Block)
    (hp : Sketch.encodeStore s.pos .pos = some (p, pb))
    (hn : Sketch.encodeStore s.neg .neg = some (n, nbl)) :
    encTail (toGen env s) b om =
      (toGen env { s with pos := p, neg := n },
        b ++ bn (Wire.encBlocks (mappingBlocks (some env.id) om ++ pb ++ nbl))) := by
  unfold encTail
  simp only [toGen_mapping, toGen_pos, toGen_neg, map_encode]
  rw [store_encode_pos _ _ _ _ hp]
  simp only []
  rw [store_encode_neg _ _ _ _ hn]
  simp only [Wire.encBlocks_append, bn_app]
  cases om with
  | true =>
    simp only [if_true, mappingBlocks, Wire.encBlocks_nil, bn, List.map_nil, List.nil_append,
      List.append_assoc]
    rfl
  | false =>
    simp only [Bool.false_eq_true, if_false, mappingBlocks, Wire.encBlocks_cons, Wire.encBlocks_nil,
      List.append_nil, List.append_assoc]
    rfl

/-- **`DDSketch.Encode`, unconditional form.**  The generated structure always carries a mapping
    object: the regenerated encoder on `toGen env s` is the model's encoder on `s` with its mapping
    set to `some env.id`. -/
theorem Encode_rel_gen (fuel : Nat) (hf : 9 ≤ fuel) (env : MapEnv) (s : Sketch) (b : List (BitVec 8))
    (om : Bool) (s' : Sketch) (blocks : List Block)
    (h : ({ s with mapping := some env.id } : Sketch).encode om = some (s', blocks)) :
    DDSketch.Encode fuel (toGen env s) b om =
      .ok (toGen env s', b ++ bn (Wire.encBlocks blocks)) := by
  obtain ⟨p, pb, n, nbl, hp, hn, rfl, rfl⟩ := encode_some _ _ _ _ h
  simp only [] at hp hn
  rw [Encode_nf, optVF_eq fuel hf, Res.bind_ok, encTail_model env s _ om p n pb nbl hp hn]
  simp only [toGen_zero, Wire.encBlocks_append, bn_app, encBlocks_zeroBlocks, List.append_assoc]
  rfl

/-- **`DDSketch.Encode` is the model's `Sketch.encode`**: where the model encodes (`some`), the
    regenerated code returns the model's sketch and appends the bytes of the model's blocks.
    The mapping object is the sketch's mapping unless the mapping block is omitted anyway. -/
theorem Encode_rel (fuel : Nat) (hf : 9 ≤ fuel) (env : MapEnv) (s : Sketch)
    (b : List (BitVec 8)) (om : Bool) (hm : om = false → s.mapping = some env.id)
    (s' : Sketch) (blocks : List Block) (h : s.encode om = some (s', blocks)) :
    DDSketch.Encode fuel (toGen env s) b om =
      .ok (toGen env s', b ++ bn (Wire.encBlocks blocks)) := by
  cases om with
  | false =>
    apply Encode_rel_gen fuel hf
    have : ({ s with mapping := some env.id } : Sketch) = s := by
      have hms := hm rfl
      cases s; simp only [] at hms; subst hms; rfl
    rw [this]; exact h
  | true =>
    obtain ⟨p, pb, n, nbl, hp, hn, rfl, rfl⟩ := encode_some _ _ _ _ h
    have h' : ({ s with mapping := some env.id } : Sketch).encode true =
        some ({ s with mapping := some env.id, pos := p, neg := n },
          zeroBlocks s.zero ++ mappingBlocks (some env.id) true ++ pb ++ nbl) := by
      unfold Sketch.encode
      simp only [hp, hn, Option.bind_eq_bind, Option.bind_some, Option.pure_def, if_true, zeroBlocks,
        mappingBlocks]
    have := Encode_rel_gen fuel hf env s b true _ _ h'
    exact this

/-- the returned sketch: only the stores may have been reorganised -/
theorem Encode_rel_frame (s : Sketch) (om : Bool) (s' : Sketch) (blocks : List Block)
    (h : s.encode om = some (s', blocks)) : s'.mapping = s.mapping ∧ s'.zero = s.zero := by
  obtain ⟨p, pb, n, nbl, _, _, rfl, _⟩ := encode_some _ _ _ _ h
  exact ⟨rfl, rfl⟩

/-! #### the exact-summary variant -/

theorem encBlocks_statBlocks (st : Summary) :
    Wire.encBlocks (RoundTrip.statBlocks st) =
      (if F64.ne st.count (.fin 0) = true then FlagCount.byte.toNat :: encVarfloat64 st.count else []) ++
      (if F64.ne st.getSum (.fin 0) = true then FlagSum.byte.toNat :: encF64LE st.getSum.toBits.toNat else []) ++
      (if F64.ne st.min .pinf = true then FlagMin.byte.toNat :: encF64LE st.min.toBits.toNat else []) ++
      (if F64.ne st.max .ninf = true then FlagMax.byte.toNat :: encF64LE st.max.toBits.toNat else []) := by
  unfold RoundTrip.statBlocks
  simp only [Wire.encBlocks_append]
  congr 1
  · congr 1
    · congr 1
      · split
        · rw [Wire.encBlocks_cons, Wire.encBlocks_nil, List.append_nil, FlagCount_byte]; rfl
        · rfl
      · split
        · rw [Wire.encBlocks_cons, Wire.encBlocks_nil, List.append_nil, FlagSum_byte]; rfl
        · rfl
    · split
      · rw [Wire.encBlocks_cons, Wire.encBlocks_nil, List.append_nil, FlagMin_byte]; rfl
      · rfl
  · split
    · rw [Wire.encBlocks_cons, Wire.encBlocks_nil, List.append_nil, FlagMax_byte]; rfl
    · rfl

/-- **`DDSketchWithExactSummaryStatistics.Encode`, unconditional form** (mapping set to the
    structure's mapping object, as in `Encode_rel_gen`) -/
theorem XEncode_rel_gen (fuel : Nat) (hf : 9 ≤ fuel) (env : MapEnv) (x : XSketch)
    (b : List (BitVec 8)) (om : Bool) (x' : XSketch) (blocks : List Block)
    (h : ({ x with sk := { x.sk with mapping := some env.id } } : XSketch).encode om
      = some (x', blocks)) :
    DDSketchWithExactSummaryStatistics.Encode fuel (toGenX env x) b om =
      .ok (toGenX env x', b ++ bn (Wire.encBlocks blocks)) := by
  rw [RoundTrip.xencode_eq] at h
  cases he : ({ x.sk with mapping := some env.id } : Sketch).encode om with
  | none => simp only [he, Option.map_none] at h; cases h
  | some r =>
    obtain ⟨sk', bl⟩ := r
    simp only [he, Option.map_some, Option.some.injEq, Prod.mk.injEq] at h
    obtain ⟨rfl, rfl⟩ := h
    rw [XEncode_nf, optVF_eq fuel hf, Res.bind_ok, optLE_eq, Res.bind_ok, optLE_eq, Res.bind_ok,
      optLE_eq, Res.bind_ok, toGenX_sk, Encode_rel_gen fuel hf env x.sk _ om sk' bl he, Res.bind_ok]
    simp only [toGenX_st, GenStat.count_eq, GenStat.sum_eq, GenStat.min_eq, GenStat.max_eq,
      GenStat.toModel_ofModel, Wire.encBlocks_append, encBlocks_statBlocks, bn_app,
      List.append_assoc]
    rfl

/-- **`DDSketchWithExactSummaryStatistics.Encode` is the model's `XSketch.encode`**: the statistics
    blocks (count as varfloat64 when `≠ 0`, sum / min / max as float64LE when `≠ 0` / `≠ +Inf` /
    `≠ −Inf`, in that order) are written under exactly the same conditions, with the same bytes, for
    EVERY value of the statistics. -/
theorem XEncode_rel (fuel : Nat) (hf : 9 ≤ fuel) (env : MapEnv) (x : XSketch)
    (b : List (BitVec 8)) (om : Bool) (hm : om = false → x.sk.mapping = some env.id)
    (x' : XSketch) (blocks : List Block) (h : x.encode om = some (x', blocks)) :
    DDSketchWithExactSummaryStatistics.Encode fuel (toGenX env x) b om =
      .ok (toGenX env x', b ++ bn (Wire.encBlocks blocks)) := by
  rw [RoundTrip.xencode_eq] at h
  cases he : x.sk.encode om with
  | none => simp only [he, Option.map_none] at h; cases h
  | some r =>
    obtain ⟨sk', bl⟩ := r
    simp only [he, Option.map_some, Option.some.injEq, Prod.mk.injEq] at h
    obtain ⟨rfl, rfl⟩ := h
    rw [XEncode_nf, optVF_eq fuel hf, Res.bind_ok, optLE_eq, Res.bind_ok, optLE_eq, Res.bind_ok,
      optLE_eq, Res.bind_ok, toGenX_sk, Encode_rel fuel hf env x.sk _ om hm sk' bl he, Res.bind_ok]
    simp only [toGenX_st, GenStat.count_eq, GenStat.sum_eq, GenStat.min_eq, GenStat.max_eq,
      GenStat.toModel_ofModel, Wire.encBlocks_append, encBlocks_statBlocks, bn_app,
      List.append_assoc]
    rfl

end DDS.GenSketch
