/-
  DDS.Proofs.GenPagSketch2 — continuation of `DDS/Proofs/GenPagSketch.lean` (same namespace): the regenerated
  sketch code over the REGENERATED buffered-paginated store (`GPS grow`) versus the same code over the model's
  stores, for merge trees, and the parts of the `StoreI (GPS grow)` instance no theorem covered so far.

  1. MERGE TREES.  `GTree` (leaves: histories of `AddWithCount(value, count)` calls; nodes: `MergeWith` of the right
     result into the left one), `GTree.eval mk t` for ANY store type (every leaf starts from the sketch `mk`;
     the errors of all calls are collected in order).  `evalTree_param`: from `SkSim`-related start sketches,
     a tree whose routed indexes are int32 returns the same errors and ends in `SkSim`-related sketches;
     `tree_observers_param`: from `NewDDSketch m NewBufferedPaginatedStore NewBufferedPaginatedStore`, every observer
     (`GetCount`, `IsEmpty`, `GetZeroCount`, `GetValueAtQuantile q` for all `q`, `GetMinValue`, `GetMaxValue`) agrees with the
     model-store side.  No fuel hypothesis, any mapping implementation `M`, any growth oracle.
     `sim_retarget`, `skSim_retarget`, `observers_of_common_target`: two regenerated sketches related to model
     sketches with the same contents observe alike (used by `DDS/Props/C02GenPag.lean` to compare a tree with
     the single sketch fed the concatenated input).
  2. `ForEachList` of the instance: `sim_forEachList` (equal lists under `Sim`), `forEachList_is_ForEach`
     (the list is exactly what the regenerated `ForEach` hands, in order, to a visitor that never stops).
  3. `Encode` of the instance (its fuel `encodeFuel compactFuel (ofGen g) + 1` is sufficient by
     `GenPagCodec.Encode_inv`: no corrected instance was needed): `sim_encode` (both encoders succeed, each
     appends the bytes of the model's blocks for ITS OWN compacted store, results related again),
     `sim_encode_denotes` (under `RoundTrip.PagOK` both block lists are well-formed bins blocks denoting the common
     content); the bytes themselves are NOT equal in general — see the section header.  Sketch level:
     `Encode_param` (`DDSketch.Encode` over the two instances: same outcome, common prefix, store blocks with the
     same denotation, receivers related again).
  NOT covered: `DecodeAndMergeWith` of the instance (`gDecode`), the exact-summary variant.

  Core Lean only.
-/
import DDS.Proofs.GenPagSketch

namespace DDS.GenPagSketch

open DDS DDS.GoSem DDS.PStore DDS.GenPag DDS.Gen.Paginated

variable {grow : Int → Int → Int}

/-! ### retargeting the simulation -/

/-- the model side of `Sim` may be replaced by any paginated model store with the same content -/
theorem sim_retarget {x : GPS grow} {p p' : PStore} (h : Sim x (.pg p)) (hi : Inv p')
    (hc : content p = content p') : Sim x (.pg p') := by
  obtain ⟨s, s', cap, hx, hst, hs, _, hcs⟩ := h
  cases hst
  exact ⟨s, p', cap, hx, rfl, hs, hi, by rw [hcs, hc]⟩

/-- the model side of a `Sim` is a paginated store inside the invariant -/
theorem sim_model_pg {x : GPS grow} {st : Store} (h : Sim x st) : ∃ p, st = .pg p ∧ Inv p := by
  obtain ⟨_, s', _, _, hst, _, hi', _⟩ := h
  exact ⟨s', hst, hi'⟩

/-! ### `ForEachList` of the instance -/

@[simp] theorem gps_forEachList (x : GPS grow) : StoreI.ForEachList x = gForEachList x := rfl
@[simp] theorem gps_encode (x : GPS grow) (b : List (BitVec 8)) (t : Gen.Encoding.FlagType) :
    StoreI.Encode x b t = gEncode x b t := rfl

/-- related stores enumerate the same bins (index, float count), in the same order -/
theorem sim_forEachList {x : GPS grow} {st : Store} (h : Sim x st) :
    (StoreI.ForEachList x : List (Int × F64)) = StoreI.ForEachList st := by
  obtain ⟨s, s', cap, hx, rfl, hi, hi', hc⟩ := h
  show gForEachList x = ((Store.pg s').binsList.getD []).map (fun p => (p.1, F64.fin p.2))
  unfold gForEachList
  rw [hx, ofGen_toGen]
  have e : s.binsList = s'.binsList := hc
  rw [e]
  rfl

/-- the list of the instance is what the regenerated `ForEach` enumerates: for every callback the regenerated
    `ForEach` is the walk (`GenPag.visit`) of the model image's `binsList`; with a callback that never stops it
    succeeds (result: the store with its buffer sorted) and the calls it makes, in order, are the entries of
    `ForEachList` (as rationals).  No invariant needed; fuel `forEachFuel s = len(buffer) + 1`. -/
theorem forEachList_is_ForEach (s : PStore) (cap : Int) (fuel : Nat) (hf : forEachFuel s ≤ fuel) :
    (StoreI.ForEachList (⟨toGen s cap⟩ : GPS grow) : List (Int × F64)) =
      (visitTrace (fun _ _ => .ok false) s.binsList).map (fun p => (p.1, F64.fin p.2)) ∧
    BufferedPaginatedStore.ForEach fuel (toGen s cap) (fun _ _ => .ok false)
      = .ok (toGen { s with buffer := PStore.sortInts s.buffer } cap) ∧
    ∀ f, BufferedPaginatedStore.ForEach fuel (toGen s cap) f = visit f (toGen s.sortRead cap) s.binsList := by
  obtain ⟨h1, h2⟩ := forEach_all s cap fuel hf
  refine ⟨?_, h1, fun f => forEach_eq_visit s cap f fuel hf⟩
  rw [h2]
  show gForEachList (⟨toGen s cap⟩ : GPS grow) = _
  unfold gForEachList
  rw [ofGen_toGen]

/-! ### `Encode` of the instance

  The instance runs the regenerated `BufferedPaginatedStore.Encode` with fuel `encodeFuel compactFuel (ofGen g) + 1`,
  which `GenPagCodec.Encode_inv` shows sufficient (the fuel is NOT heuristic).  What is true under `Sim`:
  both encoders succeed, both compact their receiver (the results are related again), and each appends to `b`
  the bytes of the MODEL's block list for ITS OWN compacted store (`sim_encode`).  The two block lists — hence the
  bytes — differ in general: `Sim` only says "same content", the split buffer / pages and the set of materialised
  pages are not determined by the content (the model's `AddWithCount` compacts at every add, the regenerated code
  when `len(buffer) == cap(buffer)`).  What IS equal is the denotation: under the encoder's range condition
  `RoundTrip.PagOK` on both stores (buffer shorter than `2^64`, counts that survive the varfloat transform), both
  block lists consist of well-formed bins blocks of the requested side and both DENOTE the common content
  (`sim_encode_denotes`, through `RoundTrip.storeEncodes_pag`). -/

open DDS.RoundTrip in
/-- `Encode` on related stores (buffer of the regenerated store shorter than `2^64`) -/
theorem sim_encode {x : GPS grow} {st : Store} (h : Sim x st) (side : Side) (t : Gen.Encoding.FlagType)
    (ht : t.byte.toNat = Wire.sideType side) (hs : GenSketch.flagSide t = side) (b b' : List (BitVec 8))
    (hlen : (ofGen x.g).buffer.length < 2 ^ 64) :
    ∃ (s1 s1' : PStore) (cap : Int) (bl bl' : List Block),
      Sketch.encodeStore (.pg (ofGen x.g)) side = some (.pg s1, bl) ∧
      Sketch.encodeStore st side = some (.pg s1', bl') ∧
      (StoreI.Encode x b t : GPS grow × List (BitVec 8)) =
        (⟨toGen s1 cap⟩, b ++ GenEncoding.bn (Wire.encBlocks bl)) ∧
      (StoreI.Encode st b' t : Store × List (BitVec 8)) = (.pg s1', b' ++ GenEncoding.bn (Wire.encBlocks bl')) ∧
      Sim (StoreI.Encode x b t).1 (StoreI.Encode st b' t).1 := by
  obtain ⟨s, s', cap, hx, rfl, hi, hi', hc⟩ := h
  rw [hx, ofGen_toGen] at hlen
  obtain ⟨s1, bl, e1, g1, i1, c1⟩ := Encode_inv compactFuel compactSpec (encodeFuel compactFuel s + 1) s cap side t ht b
    hi hlen (Nat.le_succ _)
  obtain ⟨s1', k1, i1', c1'⟩ := Props.C04Pag.compact_content s' hi'
  have e1' : Sketch.encodeStore (.pg s') side = some (.pg s1', pagBlocks s1' side) := by
    rw [encodeStore_pg, k1]; rfl
  have hG : (StoreI.Encode x b t : GPS grow × List (BitVec 8)) =
      (⟨toGen s1 cap⟩, b ++ GenEncoding.bn (Wire.encBlocks bl)) := by
    simp only [gps_encode, gEncode, hx, ofGen_toGen, g1]
  have hM : (StoreI.Encode (Store.pg s') b' t : Store × List (BitVec 8)) =
      (.pg s1', b' ++ GenEncoding.bn (Wire.encBlocks (pagBlocks s1' side))) := by
    show GenSketch.storeEncode (.pg s') b' t = _
    unfold GenSketch.storeEncode
    rw [hs, e1']
    rfl
  refine ⟨s1, s1', cap, bl, _, by rw [hx, ofGen_toGen]; exact e1, e1', hG, hM, ?_⟩
  rw [hG, hM]
  exact ⟨s1, s1', cap, rfl, rfl, i1, i1', by rw [c1, c1', hc]⟩

open DDS.RoundTrip in
/-- **the bytes written on related stores denote the same content** (the two buffers appended to may differ:
    the sketch encoder calls the negative store after the positive one) -/
theorem sim_encode_denotes {x : GPS grow} {s' : PStore} (h : Sim x (.pg s')) (side : Side)
    (t : Gen.Encoding.FlagType) (ht : t.byte.toNat = Wire.sideType side) (hs : GenSketch.flagSide t = side)
    (b b' : List (BitVec 8)) (hp : PagOK (ofGen x.g)) (hp' : PagOK s') :
    ∃ (x1 : GPS grow) (s1' : PStore) (bl bl' : List Block),
      (StoreI.Encode x b t : GPS grow × List (BitVec 8)) = (x1, b ++ GenEncoding.bn (Wire.encBlocks bl)) ∧
      (StoreI.Encode (Store.pg s') b' t : Store × List (BitVec 8)) =
        (.pg s1', b' ++ GenEncoding.bn (Wire.encBlocks bl')) ∧
      (∀ k ∈ bl, k.WF ∧ k.FiniteWeights ∧ IsBins side k) ∧ (∀ k ∈ bl', k.WF ∧ k.FiniteWeights ∧ IsBins side k) ∧
      Denotes (sideBins (Wire.interp bl) side) (content s') ∧
      Denotes (sideBins (Wire.interp bl') side) (content s') ∧
      Sim x1 (.pg s1') := by
  obtain ⟨s1, s1', cap, bl, bl', e1, e1', hG, hM, hS⟩ := sim_encode h side t ht hs b b' hp.bufLen
  obtain ⟨_, _, _, _, bl2, e2, w2, d2⟩ := storeEncodes_pag (ofGen x.g) hp side
  obtain ⟨_, _, _, _, bl2', e2', w2', d2'⟩ := storeEncodes_pag s' hp' side
  rw [e1] at e2
  rw [e1'] at e2'
  have hb : bl = bl2 := (Prod.mk.inj (Option.some.inj e2)).2
  have hb' : bl' = bl2' := (Prod.mk.inj (Option.some.inj e2')).2
  subst hb hb'
  have hcont : content (ofGen x.g) = content s' := by
    obtain ⟨s, s'', cap', hx, hst, _, _, hc⟩ := h
    cases hst
    rw [hx, ofGen_toGen]; exact hc
  rw [hcont] at d2
  rw [hG, hM] at hS
  exact ⟨_, s1', bl, bl', hG, hM, w2, w2', d2, d2', hS⟩

section sketch

open DDS.Gen.Sketch

variable {M : Type} [MapI M] [Inhabited M]

omit [MapI M] [Inhabited M] in
/-- the model side of `SkSim` may be replaced by any sketch with the same mapping object and zero count whose
    stores are paginated model stores with the same contents -/
theorem skSim_retarget {a : DDSketch M (GPS grow)} {b b' : DDSketch M Store} (h : SkSim a b)
    (hm : b.IndexMapping = b'.IndexMapping) (hz : b.zeroCount = b'.zeroCount)
    (hp : ∀ p p', b.positiveValueStore = .pg p → b'.positiveValueStore = .pg p' → content p = content p')
    (hn : ∀ p p', b.negativeValueStore = .pg p → b'.negativeValueStore = .pg p' → content p = content p')
    (hp' : ∃ p', b'.positiveValueStore = .pg p' ∧ Inv p')
    (hn' : ∃ p', b'.negativeValueStore = .pg p' ∧ Inv p') : SkSim a b' := by
  obtain ⟨pp, epp, ipp⟩ := hp'
  obtain ⟨pn, epn, ipn⟩ := hn'
  obtain ⟨qp, eqp, _⟩ := sim_model_pg h.pos
  obtain ⟨qn, eqn, _⟩ := sim_model_pg h.neg
  refine ⟨h.map.trans hm, ?_, ?_, h.zero.trans hz⟩
  · rw [epp]; exact sim_retarget (by rw [← eqp]; exact h.pos) ipp (hp qp pp eqp epp)
  · rw [epn]; exact sim_retarget (by rw [← eqn]; exact h.neg) ipn (hn qn pn eqn epn)

/-- two regenerated sketches related to the SAME model sketch answer every observer alike -/
theorem observers_of_common_target {a a' : DDSketch M (GPS grow)} {b : DDSketch M Store}
    (h : SkSim a b) (h' : SkSim a' b) :
    DDSketch.GetCount a = DDSketch.GetCount a' ∧ DDSketch.IsEmpty a = DDSketch.IsEmpty a' ∧
    DDSketch.GetZeroCount a = DDSketch.GetZeroCount a' ∧
    (∀ q, DDSketch.GetValueAtQuantile a q = DDSketch.GetValueAtQuantile a' q) ∧
    DDSketch.GetMinValue a = DDSketch.GetMinValue a' ∧ DDSketch.GetMaxValue a = DDSketch.GetMaxValue a' :=
  ⟨(GetCount_param h).trans (GetCount_param h').symm, (IsEmpty_param h).trans (IsEmpty_param h').symm,
    (GetZeroCount_param h).trans (GetZeroCount_param h').symm,
    fun q => (GetValueAtQuantile_param h q).trans (GetValueAtQuantile_param h' q).symm,
    (GetMinValue_param h).trans (GetMinValue_param h').symm,
    (GetMaxValue_param h).trans (GetMaxValue_param h').symm⟩

/-! ### merge trees -/

/-- a tree of merges: a leaf is a history of `AddWithCount(value, count)` calls on a fresh sketch, a node merges
    the right result into the left one -/
inductive GTree where
  | leaf (l : List (F64 × F64))
  | node (l r : GTree)

/-- all calls of the tree, left to right -/
def GTree.flat : GTree → List (F64 × F64)
  | .leaf l => l
  | .node l r => l.flat ++ r.flat

/-- evaluation with the regenerated sketch code over any store type: every leaf starts from `mk`; the result
    and the errors returned by all calls (adds of the left subtree, adds of the right subtree, then the
    `MergeWith` of the node) -/
def GTree.eval {S : Type} [StoreI S] [Inhabited S] (mk : DDSketch M S) : GTree → DDSketch M S × List GoErr
  | .leaf l => runAdds mk l
  | .node l r =>
    let a := GTree.eval mk l
    let b := GTree.eval mk r
    let m := DDSketch.MergeWith a.1 b.1
    (m.1, a.2 ++ b.2 ++ [m.2])

/-- **merge trees, parametricity**: the regenerated sketch code run on a merge tree over the regenerated
    paginated stores returns the same errors as over the model stores and ends in related sketches -/
theorem evalTree_param {a0 : DDSketch M (GPS grow)} {b0 : DDSketch M Store} (h0 : SkSim a0 b0) (t : GTree) :
    (∀ p ∈ t.flat, Routed32 b0.IndexMapping p.1) →
    (GTree.eval a0 t).2 = (GTree.eval b0 t).2 ∧ SkSim (GTree.eval a0 t).1 (GTree.eval b0 t).1 := by
  induction t with
  | leaf l => intro hl; exact runAdds_param l h0 hl
  | node l r ihl ihr =>
    intro hl
    obtain ⟨el, sl⟩ := ihl (fun p hp => hl p (List.mem_append_left _ hp))
    obtain ⟨er, sr⟩ := ihr (fun p hp => hl p (List.mem_append_right _ hp))
    obtain ⟨em, sm⟩ := MergeWith_param sl sr
    refine ⟨?_, sm⟩
    show (GTree.eval a0 l).2 ++ (GTree.eval a0 r).2 ++ [_] = (GTree.eval b0 l).2 ++ (GTree.eval b0 r).2 ++ [_]
    rw [el, er, em]

/-- every observer of the result of a merge tree on fresh regenerated paginated stores answers as over the
    model stores -/
theorem tree_observers_param (m : M) (t : GTree) (hl : ∀ p ∈ t.flat, Routed32 m p.1) :
    let a := GTree.eval (NewDDSketch m (⟨NewBufferedPaginatedStore⟩ : GPS grow) ⟨NewBufferedPaginatedStore⟩) t
    let b := GTree.eval (NewDDSketch m (Store.new .pag) (Store.new .pag)) t
    a.2 = b.2 ∧ SkSim a.1 b.1 ∧
    DDSketch.GetCount a.1 = DDSketch.GetCount b.1 ∧ DDSketch.IsEmpty a.1 = DDSketch.IsEmpty b.1 ∧
    DDSketch.GetZeroCount a.1 = DDSketch.GetZeroCount b.1 ∧
    (∀ q, DDSketch.GetValueAtQuantile a.1 q = DDSketch.GetValueAtQuantile b.1 q) ∧
    DDSketch.GetMinValue a.1 = DDSketch.GetMinValue b.1 ∧ DDSketch.GetMaxValue a.1 = DDSketch.GetMaxValue b.1 := by
  intro a b
  obtain ⟨he, hs⟩ := evalTree_param (grow := grow) (skSim_new m) t hl
  exact ⟨he, hs, GetCount_param hs, IsEmpty_param hs, GetZeroCount_param hs,
    fun q => GetValueAtQuantile_param hs q, GetMinValue_param hs, GetMaxValue_param hs⟩

/-! ### the sketch-level `Encode`, up to denotation -/

theorem flagSide_pos : GenSketch.flagSide Gen.Encoding.FlagTypePositiveStore = .pos := by decide
theorem flagSide_neg : GenSketch.flagSide Gen.Encoding.FlagTypeNegativeStore = .neg := by decide

open DDS.RoundTrip in
/-- **`DDSketch.Encode` over the two store instances**: the same outcome (both succeed, or both stop with the same
    failure of the zero-count prefix); on success the receivers are related again and the two byte strings are a
    COMMON prefix `b0` (zero-count block and mapping block: equal bytes) followed by the positive-store blocks and
    the negative-store blocks, which are well-formed bins blocks denoting the same contents `cp`, `cn` on both
    sides (the store bytes themselves differ in general).  Hypothesis: the encoder's range condition `PagOK` on
    the four stores. -/
theorem Encode_param {a : DDSketch M (GPS grow)} {b : DDSketch M Store} (h : SkSim a b) (fuel : Nat)
    (buf : List (BitVec 8)) (om : Bool)
    (hpp : PagOK (GenPag.ofGen a.positiveValueStore.g)) (hpn : PagOK (GenPag.ofGen a.negativeValueStore.g))
    (hpp' : ∀ s', b.positiveValueStore = .pg s' → PagOK s')
    (hpn' : ∀ s', b.negativeValueStore = .pg s' → PagOK s') :
    (∃ (a' : DDSketch M (GPS grow)) (b' : DDSketch M Store) (b0 : List (BitVec 8))
        (pbl pbl' nbl nbl' : List Block) (cp cn : Content),
      DDSketch.Encode fuel a buf om =
        .ok (a', b0 ++ GenEncoding.bn (Wire.encBlocks pbl) ++ GenEncoding.bn (Wire.encBlocks nbl)) ∧
      DDSketch.Encode fuel b buf om =
        .ok (b', b0 ++ GenEncoding.bn (Wire.encBlocks pbl') ++ GenEncoding.bn (Wire.encBlocks nbl')) ∧
      SkSim a' b' ∧
      (∀ k ∈ pbl, k.WF ∧ k.FiniteWeights ∧ IsBins .pos k) ∧ (∀ k ∈ pbl', k.WF ∧ k.FiniteWeights ∧ IsBins .pos k) ∧
      (∀ k ∈ nbl, k.WF ∧ k.FiniteWeights ∧ IsBins .neg k) ∧ (∀ k ∈ nbl', k.WF ∧ k.FiniteWeights ∧ IsBins .neg k) ∧
      Denotes (sideBins (Wire.interp pbl) .pos) cp ∧ Denotes (sideBins (Wire.interp pbl') .pos) cp ∧
      Denotes (sideBins (Wire.interp nbl) .neg) cn ∧ Denotes (sideBins (Wire.interp nbl') .neg) cn) ∨
    (DDSketch.Encode fuel a buf om = .panic ∧ DDSketch.Encode fuel b buf om = .panic) ∨
    (DDSketch.Encode fuel a buf om = .nofuel ∧ DDSketch.Encode fuel b buf om = .nofuel) := by
  cases a with
  | mk ma pa na za =>
  cases b with
  | mk mb pb nb zb =>
  obtain ⟨hm, hpos, hneg, hz⟩ := h
  simp only at hm hz hpos hneg hpp hpn hpp' hpn'
  subst hm hz
  obtain ⟨qp, eqp, _⟩ := sim_model_pg hpos
  obtain ⟨qn, eqn, _⟩ := sim_model_pg hneg
  subst eqp eqn
  unfold DDSketch.Encode
  dsimp only
  generalize (if F64.ne za (F64.fin 0) = true then
      (Gen.Encoding.EncodeVarfloat64 fuel (Gen.Encoding.EncodeFlag buf Gen.Encoding.FlagZeroCountVarFloat) za).bind
        fun b => Res.ok b
    else Res.ok buf) = pre
  cases pre with
  | panic => exact Or.inr (Or.inl ⟨rfl, rfl⟩)
  | nofuel => exact Or.inr (Or.inr ⟨rfl, rfl⟩)
  | ok b0 =>
    left
    simp only [Res.bind_ok]
    generalize (if (!om) = true then MapI.Encode ma b0 else b0) = b1
    obtain ⟨x1, p1, pbl, pbl', hG, hM, w, w', d, d', hS⟩ :=
      sim_encode_denotes hpos .pos Gen.Encoding.FlagTypePositiveStore GenEncoding.FlagTypePositiveStore_side
        flagSide_pos b1 b1 hpp (hpp' qp rfl)
    obtain ⟨x2, p2, nbl, nbl', hG2, hM2, w2, w2', d2, d2', hS2⟩ :=
      sim_encode_denotes hneg .neg Gen.Encoding.FlagTypeNegativeStore GenEncoding.FlagTypeNegativeStore_side
        flagSide_neg (b1 ++ GenEncoding.bn (Wire.encBlocks pbl)) (b1 ++ GenEncoding.bn (Wire.encBlocks pbl'))
        hpn (hpn' qn rfl)
    refine ⟨⟨ma, x1, x2, za⟩, ⟨ma, .pg p1, .pg p2, za⟩, b1, pbl, pbl', nbl, nbl', content qp, content qn,
      ?_, ?_, ⟨rfl, hS, hS2, rfl⟩, w, w', w2, w2', d, d', d2, d2'⟩
    · simp only [hG, hG2]
    · simp only [hM, hM2]

end sketch

end DDS.GenPagSketch
