/-
  DDS.Proofs.MappingReal — real-analysis lemmas about `DDS.Model.Mapping` instantiated at ℝ
  (`DDS.Proofs.RealInst`).

  Part 1: a small abstract theory of "interpolated logarithms"
          `v = 2^e (1+s) ↦ e + φ s` (binade decomposition, inverse, monotonicity, and the
          comparison with the true logarithm that yields the relative-accuracy guarantee).
  Part 2: the reading of the model's operations over ℝ.
  Part 3: the three kinds (log / linear / cubic) and the kind-generic theorems.
-/
import DDS.Proofs.RealInst
import Mathlib.Analysis.SpecialFunctions.Log.Deriv
import Mathlib.Analysis.Calculus.Deriv.MeanValue
import Mathlib.Analysis.Complex.ExponentialBounds
import Mathlib.Tactic

namespace DDS.RealMap

/-! ## Part 1a: binade decomposition -/

/-- binary exponent of a positive real -/
noncomputable def bexp (v : ℝ) : ℤ := ⌊Real.logb 2 v⌋
/-- significand minus one, in `[0,1)` -/
noncomputable def bsig (v : ℝ) : ℝ := v / (2:ℝ) ^ (bexp v) - 1

lemma two_zpow_pos (n : ℤ) : (0:ℝ) < (2:ℝ) ^ n := zpow_pos (by norm_num) n

lemma bexp_spec {v : ℝ} (hv : 0 < v) :
    (2:ℝ) ^ (bexp v) ≤ v ∧ v < (2:ℝ) ^ (bexp v + 1) := by
  have h1 : ((bexp v : ℤ) : ℝ) ≤ Real.logb 2 v := Int.floor_le _
  have h2 : Real.logb 2 v < ((bexp v + 1 : ℤ) : ℝ) := by
    push_cast; exact Int.lt_floor_add_one _
  constructor
  · rw [← Real.rpow_intCast]
    exact (Real.le_logb_iff_rpow_le (by norm_num) hv).1 h1
  · rw [← Real.rpow_intCast]
    exact (Real.logb_lt_iff_lt_rpow (by norm_num) hv).1 h2

lemma bsig_nonneg {v : ℝ} (hv : 0 < v) : 0 ≤ bsig v := by
  unfold bsig
  have h := (bexp_spec hv).1
  have hp := two_zpow_pos (bexp v)
  rw [sub_nonneg, le_div_iff₀ hp]; linarith

lemma bsig_lt_one {v : ℝ} (hv : 0 < v) : bsig v < 1 := by
  unfold bsig
  have h := (bexp_spec hv).2
  have hp := two_zpow_pos (bexp v)
  rw [zpow_add_one₀ (by norm_num : (2:ℝ) ≠ 0)] at h
  rw [sub_lt_iff_lt_add, div_lt_iff₀ hp]; linarith

lemma eq_build (v : ℝ) : v = (2:ℝ) ^ (bexp v) * (1 + bsig v) := by
  unfold bsig
  have hp := (two_zpow_pos (bexp v)).ne'
  field_simp
  ring

lemma bexp_build (n : ℤ) {u : ℝ} (h0 : 0 ≤ u) (h1 : u < 1) :
    bexp ((2:ℝ) ^ n * (1 + u)) = n := by
  have hp := two_zpow_pos n
  have hpos : 0 < (2:ℝ) ^ n * (1 + u) := by positivity
  unfold bexp
  rw [Int.floor_eq_iff]
  constructor
  · rw [Real.le_logb_iff_rpow_le (by norm_num) hpos, Real.rpow_intCast]
    nlinarith
  · have : ((n:ℝ) + 1) = ((n + 1 : ℤ) : ℝ) := by push_cast; ring
    rw [this, Real.logb_lt_iff_lt_rpow (by norm_num) hpos, Real.rpow_intCast,
      zpow_add_one₀ (by norm_num : (2:ℝ) ≠ 0)]
    nlinarith

lemma bsig_build (n : ℤ) {u : ℝ} (h0 : 0 ≤ u) (h1 : u < 1) :
    bsig ((2:ℝ) ^ n * (1 + u)) = u := by
  unfold bsig
  rw [bexp_build n h0 h1]
  have hp := (two_zpow_pos n).ne'
  field_simp
  ring

lemma bexp_mono {v w : ℝ} (hv : 0 < v) (hvw : v ≤ w) : bexp v ≤ bexp w :=
  Int.floor_le_floor (Real.logb_le_logb_of_le (by norm_num) hv hvw)

lemma log_eq_build {v : ℝ} (hv : 0 < v) :
    Real.log v = (bexp v : ℝ) * Real.log 2 + Real.log (1 + bsig v) := by
  have h := eq_build v
  have hs := bsig_nonneg hv
  conv_lhs => rw [h]
  rw [Real.log_mul (two_zpow_pos _).ne' (by linarith), Real.log_zpow]

/-! ## Part 1b: interpolated logarithms -/

/-- An interpolation `φ : [0,1] → [0,1]` of `s ↦ log₂ (1+s)` with inverse `ψ`, together with a
constant `c` such that `φ s - c * log (1+s)` is non-decreasing (this is what bounds the
relative width of the bins). -/
structure Interp where
  φ : ℝ → ℝ
  ψ : ℝ → ℝ
  c : ℝ
  φ0 : φ 0 = 0
  φ1 : φ 1 = 1
  φmono : StrictMonoOn φ (Set.Icc 0 1)
  ψmem : ∀ t, 0 ≤ t → t < 1 → 0 ≤ ψ t ∧ ψ t < 1
  φψ : ∀ t, 0 ≤ t → t < 1 → φ (ψ t) = t
  cpos : 0 < c
  hmono : MonotoneOn (fun s => φ s - c * Real.log (1 + s)) (Set.Icc 0 1)
  cln2 : c * Real.log 2 ≤ 1

namespace Interp
variable (I : Interp)

/-- the approximate base-2 logarithm -/
noncomputable def aLog (v : ℝ) : ℝ := (bexp v : ℝ) + I.φ (bsig v)
/-- its inverse -/
noncomputable def aInv (x : ℝ) : ℝ := (2:ℝ) ^ ⌊x⌋ * (1 + I.ψ (x - ⌊x⌋))

lemma φ_mem {s : ℝ} (h0 : 0 ≤ s) (h1 : s < 1) : 0 ≤ I.φ s ∧ I.φ s < 1 := by
  constructor
  · rw [← I.φ0]
    exact I.φmono.monotoneOn ⟨le_refl _, zero_le_one⟩ ⟨h0, h1.le⟩ h0
  · rw [← I.φ1]
    exact I.φmono ⟨h0, h1.le⟩ ⟨zero_le_one, le_refl _⟩ h1

lemma ψφ {s : ℝ} (h0 : 0 ≤ s) (h1 : s < 1) : I.ψ (I.φ s) = s := by
  obtain ⟨a, b⟩ := I.φ_mem h0 h1
  obtain ⟨c, d⟩ := I.ψmem _ a b
  exact I.φmono.injOn ⟨c, d.le⟩ ⟨h0, h1.le⟩ (I.φψ _ a b)

lemma floor_aLog {v : ℝ} (hv : 0 < v) : ⌊I.aLog v⌋ = bexp v := by
  obtain ⟨a, b⟩ := I.φ_mem (bsig_nonneg hv) (bsig_lt_one hv)
  rw [Int.floor_eq_iff]; unfold aLog
  constructor <;> linarith

theorem aInv_aLog {v : ℝ} (hv : 0 < v) : I.aInv (I.aLog v) = v := by
  unfold aInv
  rw [I.floor_aLog hv]
  have : I.aLog v - (bexp v : ℝ) = I.φ (bsig v) := by unfold aLog; ring
  rw [this, I.ψφ (bsig_nonneg hv) (bsig_lt_one hv)]
  exact (eq_build v).symm

theorem aLog_aInv (x : ℝ) : I.aLog (I.aInv x) = x := by
  have f0 : 0 ≤ x - ⌊x⌋ := by linarith [Int.floor_le x]
  have f1 : x - ⌊x⌋ < 1 := by linarith [Int.lt_floor_add_one x]
  obtain ⟨a, b⟩ := I.ψmem _ f0 f1
  unfold aLog aInv
  rw [bexp_build _ a b, bsig_build _ a b, I.φψ _ f0 f1]
  ring

theorem aInv_pos (x : ℝ) : 0 < I.aInv x := by
  have f0 : 0 ≤ x - ⌊x⌋ := by linarith [Int.floor_le x]
  have f1 : x - ⌊x⌋ < 1 := by linarith [Int.lt_floor_add_one x]
  obtain ⟨a, b⟩ := I.ψmem _ f0 f1
  have := two_zpow_pos ⌊x⌋
  unfold aInv; positivity

theorem aLog_strictMono {v w : ℝ} (hv : 0 < v) (hvw : v < w) : I.aLog v < I.aLog w := by
  have hw : 0 < w := hv.trans hvw
  obtain ⟨a, b⟩ := I.φ_mem (bsig_nonneg hv) (bsig_lt_one hv)
  obtain ⟨a', b'⟩ := I.φ_mem (bsig_nonneg hw) (bsig_lt_one hw)
  rcases (bexp_mono hv hvw.le).eq_or_lt with he | he
  · unfold aLog
    rw [he]
    have : bsig v < bsig w := by
      unfold bsig; rw [he]
      have hp := two_zpow_pos (bexp w)
      have := div_lt_div_of_pos_right hvw hp
      linarith
    have := I.φmono ⟨bsig_nonneg hv, (bsig_lt_one hv).le⟩ ⟨bsig_nonneg hw, (bsig_lt_one hw).le⟩ this
    linarith
  · have h1 : ((bexp v : ℤ) : ℝ) + 1 ≤ (bexp w : ℝ) := by exact_mod_cast he
    unfold aLog; linarith

theorem aLog_mono {v w : ℝ} (hv : 0 < v) (hvw : v ≤ w) : I.aLog v ≤ I.aLog w := by
  rcases hvw.eq_or_lt with h | h
  · rw [h]
  · exact (I.aLog_strictMono hv h).le

theorem aInv_strictMono {x y : ℝ} (h : x < y) : I.aInv x < I.aInv y := by
  by_contra hc
  rw [not_lt] at hc
  have := I.aLog_mono (I.aInv_pos y) hc
  rw [I.aLog_aInv, I.aLog_aInv] at this
  linarith

/-- the key comparison with the true logarithm: `aLog - c * log` is non-decreasing -/
theorem gap {v w : ℝ} (hv : 0 < v) (hvw : v ≤ w) :
    I.c * (Real.log w - Real.log v) ≤ I.aLog w - I.aLog v := by
  have hw : 0 < w := lt_of_lt_of_le hv hvw
  set κ : ℝ := 1 - I.c * Real.log 2 with hκ
  have κ0 : 0 ≤ κ := by have := I.cln2; linarith
  set h : ℝ → ℝ := fun s => I.φ s - I.c * Real.log (1 + s) with hh
  have h0 : h 0 = 0 := by simp [hh, I.φ0]
  have h1 : h 1 = κ := by
    simp only [hh, I.φ1, hκ]; norm_num
  have hlo : ∀ s, 0 ≤ s → s < 1 → 0 ≤ h s := fun s a b => by
    rw [← h0]; exact I.hmono ⟨le_refl _, zero_le_one⟩ ⟨a, b.le⟩ a
  have hhi : ∀ s, 0 ≤ s → s < 1 → h s ≤ κ := fun s a b => by
    rw [← h1]; exact I.hmono ⟨a, b.le⟩ ⟨zero_le_one, le_refl _⟩ b.le
  have g : ∀ u, 0 < u → I.aLog u - I.c * Real.log u = (bexp u : ℝ) * κ + h (bsig u) := by
    intro u hu
    rw [log_eq_build hu]; simp only [hh, hκ, aLog]; ring
  have gv := g v hv
  have gw := g w hw
  suffices (bexp v : ℝ) * κ + h (bsig v) ≤ (bexp w : ℝ) * κ + h (bsig w) by linarith
  rcases (bexp_mono hv hvw).eq_or_lt with he | he
  · rw [he]
    have : bsig v ≤ bsig w := by
      unfold bsig; rw [he]
      have hp := two_zpow_pos (bexp w)
      have := div_le_div_of_nonneg_right hvw hp.le
      linarith
    have := I.hmono ⟨bsig_nonneg hv, (bsig_lt_one hv).le⟩ ⟨bsig_nonneg hw, (bsig_lt_one hw).le⟩ this
    linarith
  · have e1 : ((bexp v : ℤ) : ℝ) + 1 ≤ (bexp w : ℝ) := by exact_mod_cast he
    have a := hhi _ (bsig_nonneg hv) (bsig_lt_one hv)
    have b := hlo _ (bsig_nonneg hw) (bsig_lt_one hw)
    nlinarith

/-- a step of width `d` in `aLog`-space multiplies the value by at most `exp (d / c)` -/
theorem aInv_add_le (x : ℝ) {d : ℝ} (hd : 0 ≤ d) :
    I.aInv (x + d) ≤ I.aInv x * Real.exp (d / I.c) := by
  have hv := I.aInv_pos x
  have hV := I.aInv_pos (x + d)
  have hle : I.aInv x ≤ I.aInv (x + d) := by
    rcases hd.eq_or_lt with h | h
    · rw [← h, add_zero]
    · exact (I.aInv_strictMono (by linarith)).le
  have hg := I.gap hv hle
  rw [I.aLog_aInv, I.aLog_aInv] at hg
  have hc := I.cpos
  have : Real.log (I.aInv (x + d)) ≤ Real.log (I.aInv x) + d / I.c := by
    rw [← sub_le_iff_le_add', le_div_iff₀ hc]; linarith
  calc I.aInv (x + d) = Real.exp (Real.log (I.aInv (x + d))) := (Real.exp_log hV).symm
    _ ≤ Real.exp (Real.log (I.aInv x) + d / I.c) := Real.exp_le_exp.2 this
    _ = I.aInv x * Real.exp (d / I.c) := by rw [Real.exp_add, Real.exp_log hv]

lemma aLog_gt {v : ℝ} (hv : 0 < v) : Real.logb 2 v - 1 < I.aLog v := by
  obtain ⟨a, b⟩ := I.φ_mem (bsig_nonneg hv) (bsig_lt_one hv)
  have : Real.logb 2 v < (bexp v : ℝ) + 1 := Int.lt_floor_add_one _
  unfold aLog; linarith

lemma aLog_lt {v : ℝ} (hv : 0 < v) : I.aLog v < Real.logb 2 v + 1 := by
  obtain ⟨a, b⟩ := I.φ_mem (bsig_nonneg hv) (bsig_lt_one hv)
  have : ((bexp v : ℤ) : ℝ) ≤ Real.logb 2 v := Int.floor_le _
  unfold aLog; linarith

end Interp

/-! ## Part 2: the model's operations, read over ℝ -/

open DDS Mapping

section ops
variable (a b : ℝ)
@[simp] lemma add_def : MOps.add a b = a + b := rfl
@[simp] lemma sub_def : MOps.sub a b = a - b := rfl
@[simp] lemma mul_def : MOps.mul a b = a * b := rfl
@[simp] lemma div_def : MOps.div a b = a / b := rfl
@[simp] lemma neg_def : MOps.neg a = -a := rfl
@[simp] lemma ofInt_def (i : ℤ) : (MOps.ofInt i : ℝ) = (i : ℝ) := rfl
@[simp] lemma ofRat_def (q : ℚ) : (MOps.ofRat q : ℝ) = (q : ℝ) := rfl
@[simp] lemma lt_def : (MOps.lt a b : Bool) = decide (a < b) := rfl
@[simp] lemma le_def : (MOps.le a b : Bool) = decide (a ≤ b) := rfl
@[simp] lemma log_def : MOps.log a = Real.log a := rfl
@[simp] lemma exp_def : MOps.exp a = Real.exp a := rfl
@[simp] lemma log2_def : MOps.log2 a = Real.logb 2 a := rfl
@[simp] lemma exp2_def : MOps.exp2 a = (2:ℝ) ^ a := rfl
@[simp] lemma pow_def : MOps.pow a b = a ^ b := rfl
lemma cbrt_def : MOps.cbrt a = if 0 ≤ a then a ^ ((1:ℝ)/3) else -((-a) ^ ((1:ℝ)/3)) := rfl
@[simp] lemma sqrt_def : MOps.sqrt a = Real.sqrt a := rfl
@[simp] lemma floor_def : (MOps.floor a : ℝ) = (⌊a⌋ : ℝ) := rfl
lemma trunc_def : MOps.trunc a = if 0 ≤ a then ⌊a⌋ else ⌈a⌉ := rfl
@[simp] lemma exponentOf_def : (MOps.exponentOf a : ℝ) = (bexp a : ℝ) := rfl
@[simp] lemma significandPlusOne_def : MOps.significandPlusOne a = a / (2:ℝ) ^ (bexp a) := rfl
@[simp] lemma buildFloat_def (e : ℤ) : MOps.buildFloat e a = (2:ℝ) ^ e * a := rfl
@[simp] lemma ln2_def : (MOps.ln2 : ℝ) = Real.log 2 := rfl
@[simp] lemma minNormal_def : (MOps.minNormal : ℝ) = (2:ℝ) ^ (-1022 : ℤ) := rfl
@[simp] lemma one_def : (Mapping.one : ℝ) = 1 := by simp [Mapping.one]
@[simp] lemma two_def : (Mapping.two : ℝ) = 2 := by simp [Mapping.two]
@[simp] lemma trunc_intCast (n : ℤ) : MOps.trunc (n : ℝ) = n := by simp [trunc_def]
lemma cA_def : (Mapping.cA : ℝ) = 6 / 35 := by norm_num [Mapping.cA, Consts.cubicA]
lemma cB_def : (Mapping.cB : ℝ) = -3 / 5 := by norm_num [Mapping.cB, Consts.cubicB]
lemma cC_def : (Mapping.cC : ℝ) = 10 / 7 := by norm_num [Mapping.cC, Consts.cubicC]
end ops

/-- `goFloor` over the reals -/
lemma goFloor_eq (x : ℝ) : Mapping.goFloor x = if 0 ≤ x then ⌊x⌋ else ⌈x⌉ - 1 := by
  unfold Mapping.goFloor
  by_cases h : 0 ≤ x <;> simp [h, trunc_def]

lemma goFloor_le (x : ℝ) : ((Mapping.goFloor x : ℤ) : ℝ) ≤ x := by
  rw [goFloor_eq]; split_ifs with h
  · exact Int.floor_le x
  · push_cast; linarith [Int.ceil_lt_add_one x]

lemma le_goFloor_add_one (x : ℝ) : x ≤ ((Mapping.goFloor x : ℤ) : ℝ) + 1 := by
  rw [goFloor_eq]; split_ifs with h
  · exact (Int.lt_floor_add_one x).le
  · push_cast; linarith [Int.le_ceil x]

lemma goFloor_mono {x y : ℝ} (h : x ≤ y) : Mapping.goFloor x ≤ Mapping.goFloor y := by
  rw [goFloor_eq, goFloor_eq]; split_ifs with hx hy hy
  · exact Int.floor_le_floor h
  · linarith
  · have : ⌈x⌉ ≤ 0 := Int.ceil_le.2 (by push_cast; linarith)
    have : 0 ≤ ⌊y⌋ := Int.floor_nonneg.2 hy
    omega
  · have := Int.ceil_le_ceil h; omega

lemma lt_goFloor {x : ℝ} {n : ℤ} (h : (n : ℝ) < x) : n ≤ Mapping.goFloor x := by
  have := le_goFloor_add_one x
  have : (n : ℝ) < ((Mapping.goFloor x + 1 : ℤ) : ℝ) := by push_cast; linarith
  have : n < Mapping.goFloor x + 1 := by exact_mod_cast this
  omega

lemma goFloor_lt {x : ℝ} {n : ℤ} (h : x < (n : ℝ)) : Mapping.goFloor x ≤ n := by
  have := goFloor_le x
  have : ((Mapping.goFloor x : ℤ) : ℝ) < (n : ℝ) := by linarith
  have : Mapping.goFloor x < n := by exact_mod_cast this
  omega

lemma le_fmax_left (a b : ℝ) : a ≤ Mapping.fmax a b := by
  unfold Mapping.fmax; by_cases h : a < b <;> simp [h, le_of_lt]

lemma fmin_le_left (a b : ℝ) : Mapping.fmin a b ≤ a := by
  unfold Mapping.fmin; by_cases h : b < a <;> simp [h, le_of_lt]

/-! ## the linear interpolation -/

noncomputable def linI : Interp where
  φ := id
  ψ := id
  c := 1
  φ0 := rfl
  φ1 := rfl
  φmono := strictMono_id.strictMonoOn _
  ψmem := fun _ a b => ⟨a, b⟩
  φψ := fun _ _ _ => rfl
  cpos := one_pos
  hmono := by
    intro a ha b hb hab
    simp only [id, one_mul]
    have ha0 : 0 < 1 + a := by linarith [ha.1]
    have hb0 : 0 < 1 + b := by linarith [hb.1]
    have := Real.log_le_sub_one_of_pos (div_pos hb0 ha0)
    rw [Real.log_div hb0.ne' ha0.ne'] at this
    have h2 : (1 + b) / (1 + a) - 1 ≤ b - a := by
      rw [div_sub_one ha0.ne', div_le_iff₀ ha0]; nlinarith [ha.1]
    linarith
  cln2 := by
    have := Real.log_le_sub_one_of_pos (by norm_num : (0:ℝ) < 2); linarith

/-! ## the cubic interpolation -/

/-- the cubic polynomial of the model, with the model's (generated) coefficients -/
noncomputable def cubφ (s : ℝ) : ℝ :=
  (((Mapping.cA : ℝ) * s + Mapping.cB) * s + Mapping.cC) * s

lemma cubφ_eq (s : ℝ) : cubφ s = ((6 / 35 * s + -3 / 5) * s + 10 / 7) * s := by
  unfold cubφ; rw [cA_def, cB_def, cC_def]

lemma cubφ_strictMono : StrictMono cubφ := by
  intro a b hab
  rw [cubφ_eq, cubφ_eq]
  have hq : 0 < 6 * (a ^ 2 + a * b + b ^ 2) - 21 * (a + b) + 50 := by
    nlinarith [sq_nonneg (a - b), sq_nonneg (a + b - 7 / 3)]
  have : ((6 / 35 * b + -3 / 5) * b + 10 / 7) * b - ((6 / 35 * a + -3 / 5) * a + 10 / 7) * a
      = (b - a) * (6 * (a ^ 2 + a * b + b ^ 2) - 21 * (a + b) + 50) / 35 := by ring
  have : 0 < (b - a) * (6 * (a ^ 2 + a * b + b ^ 2) - 21 * (a + b) + 50) / 35 := by
    have : 0 < b - a := by linarith
    positivity
  linarith

/-- the significand (plus one) computed by the model's Cardano formula from the fractional
part `t` -/
noncomputable def cubSp1 (t : ℝ) : ℝ :=
  let d0 : ℝ := MOps.ofRat (Consts.cubicB * Consts.cubicB - 3 * Consts.cubicA * Consts.cubicC)
  let k1 : ℝ := MOps.ofRat (2 * Consts.cubicB * Consts.cubicB * Consts.cubicB - 9 * Consts.cubicA * Consts.cubicB * Consts.cubicC)
  let k2 : ℝ := MOps.ofRat (27 * Consts.cubicA * Consts.cubicA)
  let d1 : ℝ := MOps.sub k1 (MOps.mul k2 t)
  let pp : ℝ := MOps.cbrt (MOps.div (MOps.sub d1 (MOps.sqrt (MOps.sub (MOps.mul d1 d1) (MOps.mul (MOps.mul (MOps.mul (MOps.ofInt 4) d0) d0) d0)))) Mapping.two)
  MOps.add (MOps.neg (MOps.div (MOps.add (MOps.add Mapping.cB pp) (MOps.div d0 pp)) (MOps.ofRat (3 * Consts.cubicA)))) Mapping.one

lemma cbrt_neg {y : ℝ} (hy : y < 0) : (MOps.cbrt y) ^ 3 = y ∧ MOps.cbrt y < 0 := by
  rw [cbrt_def, if_neg (not_le.2 hy)]
  have h : 0 < -y := by linarith
  have hr : 0 < (-y) ^ ((1:ℝ) / 3) := Real.rpow_pos_of_pos h _
  have h3 : ((-y) ^ ((1:ℝ) / 3)) ^ 3 = -y := by
    rw [← Real.rpow_natCast, ← Real.rpow_mul h.le]; norm_num
  constructor
  · have e : (-((-y) ^ ((1:ℝ) / 3))) ^ 3 = -(((-y) ^ ((1:ℝ) / 3)) ^ 3) := by ring
    rw [e, h3]; ring
  · linarith

lemma cubSp1_spec (t : ℝ) : cubφ (cubSp1 t - 1) = t := by
  set d0 : ℝ := -459 / 1225 with hd0
  set d1 : ℝ := 5454 / 6125 - 972 / 1225 * t with hd1
  set D : ℝ := d1 * d1 - 4 * d0 * d0 * d0 with hD
  have hDpos : 0 < D := by
    have : 0 ≤ d1 * d1 := mul_self_nonneg _
    rw [hD, hd0]; norm_num; nlinarith
  set r : ℝ := Real.sqrt D with hr
  have r0 : 0 ≤ r := Real.sqrt_nonneg _
  have r2 : r ^ 2 = D := Real.sq_sqrt hDpos.le
  have hrd : d1 < r := by
    by_contra hc
    rw [not_lt] at hc
    have : r ^ 2 ≤ d1 ^ 2 := by nlinarith
    have : -(4 * d0 * d0 * d0) ≤ 0 := by rw [r2, hD] at this; linarith
    rw [hd0] at this; norm_num at this
  set y : ℝ := (d1 - r) / 2 with hy
  have y0 : y < 0 := by rw [hy]; linarith
  have hq : y ^ 2 - d1 * y + d0 ^ 3 = 0 := by
    rw [hy]; rw [hD] at r2; linear_combination (1 / 4 : ℝ) * r2
  obtain ⟨hp3, hpneg⟩ := cbrt_neg y0
  set pp : ℝ := MOps.cbrt y with hpp
  have hpp0 : pp ≠ 0 := hpneg.ne
  have hu : (pp + d0 / pp) ^ 3 - 3 * d0 * (pp + d0 / pp) - d1 = 0 := by
    field_simp
    linear_combination hq + (pp ^ 3 + y - d1) * hp3
  have hsp : cubSp1 t = -((-3 / 5 + pp + d0 / pp) / (18 / 35)) + 1 := by
    unfold cubSp1
    simp only [add_def, sub_def, mul_def, div_def, neg_def, ofRat_def, ofInt_def, sqrt_def,
      one_def, two_def, cB_def, Int.cast_ofNat]
    have e0 : ((Consts.cubicB * Consts.cubicB - 3 * Consts.cubicA * Consts.cubicC : ℚ) : ℝ) = d0 := by
      norm_num [Consts.cubicA, Consts.cubicB, Consts.cubicC, hd0]
    have e1 : ((2 * Consts.cubicB * Consts.cubicB * Consts.cubicB - 9 * Consts.cubicA * Consts.cubicB * Consts.cubicC : ℚ) : ℝ) = 5454 / 6125 := by
      norm_num [Consts.cubicA, Consts.cubicB, Consts.cubicC]
    have e2 : ((27 * Consts.cubicA * Consts.cubicA : ℚ) : ℝ) = 972 / 1225 := by
      norm_num [Consts.cubicA, Consts.cubicB, Consts.cubicC]
    have e3 : ((3 * Consts.cubicA : ℚ) : ℝ) = 18 / 35 := by
      norm_num [Consts.cubicA, Consts.cubicB, Consts.cubicC]
    rw [e0, e1, e2, e3]
  rw [hsp, cubφ_eq]
  field_simp at hu ⊢
  rw [hd1, hd0] at hu
  rw [hd0]
  linear_combination (-225093750 : ℝ) * hu

lemma cub_hmono :
    MonotoneOn (fun s => cubφ s - 10 / 7 * Real.log (1 + s)) (Set.Icc 0 1) := by
  have hfun : (fun s => cubφ s - 10 / 7 * Real.log (1 + s)) =
      fun s => ((6 / 35 * s + -3 / 5) * s + 10 / 7) * s - 10 / 7 * Real.log (1 + s) := by
    funext s; rw [cubφ_eq]
  rw [hfun]
  have hd : ∀ s : ℝ, -1 < s →
      HasDerivAt (fun s => ((6 / 35 * s + -3 / 5) * s + 10 / 7) * s - 10 / 7 * Real.log (1 + s))
        ((18 / 35 * s ^ 2 - 6 / 5 * s + 10 / 7) - 10 / 7 * (1 / (1 + s))) s := by
    intro s hs
    have h1 : HasDerivAt (fun s : ℝ => ((6 / 35 * s + -3 / 5) * s + 10 / 7) * s)
        (18 / 35 * s ^ 2 - 6 / 5 * s + 10 / 7) s := by
      have := ((((hasDerivAt_id' s).const_mul (6 / 35 : ℝ)).add_const (-3 / 5 : ℝ)).mul
        (hasDerivAt_id' s)).add_const (10 / 7 : ℝ) |>.mul (hasDerivAt_id' s)
      refine HasDerivAt.congr_deriv (f := fun s : ℝ => ((6 / 35 * s + -3 / 5) * s + 10 / 7) * s) this ?_
      simp only [Pi.mul_apply]
      ring
    have h2 : HasDerivAt (fun s : ℝ => 10 / 7 * Real.log (1 + s)) (10 / 7 * (1 / (1 + s))) s := by
      have := ((hasDerivAt_id' s).const_add (1 : ℝ)).log (by linarith)
      exact this.const_mul _
    exact h1.sub h2
  apply monotoneOn_of_deriv_nonneg (convex_Icc 0 1)
  · intro s hs
    exact (hd s (by linarith [hs.1])).continuousAt.continuousWithinAt
  · intro s hs
    rw [interior_Icc] at hs
    exact (hd s (by linarith [hs.1])).differentiableAt.differentiableWithinAt
  · intro s hs
    rw [interior_Icc] at hs
    rw [(hd s (by linarith [hs.1])).deriv]
    have h1s : 0 < 1 + s := by linarith [hs.1]
    have e : (18 / 35 * s ^ 2 - 6 / 5 * s + 10 / 7) - 10 / 7 * (1 / (1 + s))
        = (2 * s / 35) * (3 * s - 2) ^ 2 / (1 + s) := by
      field_simp; ring
    rw [e]
    have := hs.1
    positivity

noncomputable def cubI : Interp where
  φ := cubφ
  ψ := fun t => cubSp1 t - 1
  c := 10 / 7
  φ0 := by rw [cubφ_eq]; norm_num
  φ1 := by rw [cubφ_eq]; norm_num
  φmono := cubφ_strictMono.strictMonoOn _
  ψmem := fun t a b => by
    have h := cubSp1_spec t
    constructor
    · by_contra hc
      rw [not_le] at hc
      have := cubφ_strictMono hc
      rw [h, cubφ_eq] at this; norm_num at this; linarith
    · by_contra hc
      rw [not_lt] at hc
      have := cubφ_strictMono.monotone hc
      rw [h, cubφ_eq] at this; norm_num at this; linarith
  φψ := fun t _ _ => cubSp1_spec t
  cpos := by norm_num
  hmono := cub_hmono
  cln2 := by
    have := Real.log_two_lt_d9
    norm_num at this ⊢
    linarith

/-! ## Part 3: the model's mappings -/

section model
variable (p : Mapping.Params ℝ)

/-- the interpolation underlying an interpolated kind -/
noncomputable def interpOf : MKind → Interp
  | .cubic => cubI
  | _ => linI

lemma approxLog_log (hk : p.kind = .log) (v : ℝ) : approxLog p v = Real.log v := by
  simp [approxLog, hk]

lemma approxInvLog_log (hk : p.kind = .log) (x : ℝ) : approxInvLog p x = Real.exp x := by
  simp [approxInvLog, hk]

lemma approxLog_linear (hk : p.kind = .linear) (v : ℝ) : approxLog p v = linI.aLog v := by
  simp [approxLog, hk, Interp.aLog, linI, bsig]; ring

/-- over the reals the normalisation of `buildFloat64` never changes the value of a significand `≥ 1` -/
lemma buildFloatN_real (e : ℤ) (s : ℝ) (hs : 1 ≤ s) : Mapping.buildFloatN e s = (2:ℝ) ^ e * s := by
  unfold Mapping.buildFloatN
  by_cases h2 : (2:ℝ) ≤ s
  · simp only [le_def, two_def, h2, decide_true, if_true, buildFloat_def, div_def]
    rw [zpow_add_one₀ (by norm_num : (2:ℝ) ≠ 0)]; ring
  · have h1 : ¬ s < 1 := not_lt.2 hs
    simp [h2, h1]

lemma approxInvLog_linear (hk : p.kind = .linear) (x : ℝ) : approxInvLog p x = linI.aInv x := by
  have h1 : (1:ℝ) ≤ x - ⌊x⌋ + 1 := by linarith [Int.floor_le x]
  simp only [approxInvLog, hk]
  rw [show (MOps.add (MOps.sub x (MOps.floor x)) Mapping.one : ℝ) = x - ⌊x⌋ + 1 by simp]
  rw [buildFloatN_real _ _ h1]
  simp [Interp.aInv, linI, add_comm]

lemma approxLog_cubic (hk : p.kind = .cubic) (v : ℝ) : approxLog p v = cubI.aLog v := by
  simp [approxLog, hk, Interp.aLog, cubI, bsig, cubφ]; ring

lemma approxInvLog_cubic (hk : p.kind = .cubic) (x : ℝ) : approxInvLog p x = cubI.aInv x := by
  have : approxInvLog p x =
      Mapping.buildFloatN (MOps.trunc (MOps.floor x)) (cubSp1 (MOps.sub x (MOps.floor x))) := by
    unfold approxInvLog; simp only [hk]; rfl
  rw [this]
  have ht : (MOps.sub x (MOps.floor x) : ℝ) = x - ⌊x⌋ := by simp
  have h1 : (1:ℝ) ≤ cubSp1 (MOps.sub x (MOps.floor x)) := by
    rw [ht]
    have := (cubI.ψmem (x - ⌊x⌋) (by linarith [Int.floor_le x]) (by linarith [Int.lt_floor_add_one x])).1
    have e : cubI.ψ (x - ⌊x⌋) = cubSp1 (x - ⌊x⌋) - 1 := rfl
    rw [e] at this; linarith
  rw [buildFloatN_real _ _ h1]
  simp [Interp.aInv, cubI]

lemma approxLog_interp (hk : p.kind ≠ .log) (v : ℝ) :
    approxLog p v = (interpOf p.kind).aLog v := by
  rcases h : p.kind with _ | _ | _
  · exact absurd h hk
  · exact approxLog_linear p h v
  · exact approxLog_cubic p h v

lemma approxInvLog_interp (hk : p.kind ≠ .log) (x : ℝ) :
    approxInvLog p x = (interpOf p.kind).aInv x := by
  rcases h : p.kind with _ | _ | _
  · exact absurd h hk
  · exact approxInvLog_linear p h x
  · exact approxInvLog_cubic p h x

/-! ### T1 -/

theorem approxInvLog_approxLog {v : ℝ} (hv : 0 < v) : approxInvLog p (approxLog p v) = v := by
  by_cases hk : p.kind = .log
  · rw [approxLog_log p hk, approxInvLog_log p hk, Real.exp_log hv]
  · rw [approxLog_interp p hk, approxInvLog_interp p hk, Interp.aInv_aLog _ hv]

theorem approxLog_approxInvLog (x : ℝ) : approxLog p (approxInvLog p x) = x := by
  by_cases hk : p.kind = .log
  · rw [approxInvLog_log p hk, approxLog_log p hk, Real.log_exp]
  · rw [approxInvLog_interp p hk, approxLog_interp p hk, Interp.aLog_aInv]

theorem approxLog_strictMono {v w : ℝ} (hv : 0 < v) (hvw : v < w) :
    approxLog p v < approxLog p w := by
  by_cases hk : p.kind = .log
  · rw [approxLog_log p hk, approxLog_log p hk]; exact Real.log_lt_log hv hvw
  · rw [approxLog_interp p hk, approxLog_interp p hk]; exact Interp.aLog_strictMono _ hv hvw

theorem approxInvLog_pos (x : ℝ) : 0 < approxInvLog p x := by
  by_cases hk : p.kind = .log
  · rw [approxInvLog_log p hk]; exact Real.exp_pos x
  · rw [approxInvLog_interp p hk]; exact Interp.aInv_pos _ x

theorem approxLog_mono {v w : ℝ} (hv : 0 < v) (hvw : v ≤ w) : approxLog p v ≤ approxLog p w := by
  rcases hvw.eq_or_lt with h | h
  · rw [h]
  · exact (approxLog_strictMono p hv h).le

theorem approxInvLog_strictMono {x y : ℝ} (h : x < y) : approxInvLog p x < approxInvLog p y := by
  by_contra hc
  rw [not_lt] at hc
  have := approxLog_mono p (approxInvLog_pos p y) hc
  rw [approxLog_approxInvLog, approxLog_approxInvLog] at this
  linarith

theorem approxInvLog_mono {x y : ℝ} (h : x ≤ y) : approxInvLog p x ≤ approxInvLog p y := by
  rcases h.eq_or_lt with h | h
  · rw [h]
  · exact (approxInvLog_strictMono p h).le

/-! ### the bin width and the multiplier -/

/-- the width of a bin in `approxLog`-space: `1 / multiplier` -/
noncomputable def width : ℝ :=
  match p.kind with
  | .log => Real.log p.gamma
  | _ => Real.logb 2 p.gamma

lemma multiplier_eq : multiplier p = 1 / width p := by
  unfold multiplier width
  rcases p.kind with _ | _ | _ <;> simp

lemma width_pos (hγ : 1 < p.gamma) : 0 < width p := by
  unfold width
  rcases p.kind with _ | _ | _ <;> simp
  · exact Real.log_pos hγ
  · exact Real.logb_pos (by norm_num) hγ
  · exact Real.logb_pos (by norm_num) hγ

lemma multiplier_pos (hγ : 1 < p.gamma) : 0 < multiplier p := by
  rw [multiplier_eq]; exact one_div_pos.2 (width_pos p hγ)

lemma index_eq (v : ℝ) : index p v = goFloor (approxLog p v / width p + p.indexOffset) := by
  unfold index; rw [multiplier_eq]; simp [div_eq_mul_inv]

lemma lowerBound_eq (i : ℤ) :
    lowerBound p i = approxInvLog p (((i : ℝ) - p.indexOffset) * width p) := by
  unfold lowerBound; rw [multiplier_eq]; simp

/-! ### T2 -/

theorem index_mono (hγ : 1 < p.gamma) {v w : ℝ} (hv : 0 < v) (hvw : v ≤ w) :
    index p v ≤ index p w := by
  rw [index_eq, index_eq]
  apply goFloor_mono
  have := approxLog_mono p hv hvw
  have hw := width_pos p hγ
  have := div_le_div_of_nonneg_right this hw.le
  linarith

theorem lowerBound_le (hγ : 1 < p.gamma) {v : ℝ} (hv : 0 < v) :
    lowerBound p (index p v) ≤ v := by
  have hw := width_pos p hγ
  rw [lowerBound_eq, index_eq]
  have h := goFloor_le (approxLog p v / width p + p.indexOffset)
  have h2 : ((goFloor (approxLog p v / width p + p.indexOffset) : ℤ) : ℝ) - p.indexOffset
      ≤ approxLog p v / width p := by linarith
  have h3 := mul_le_mul_of_nonneg_right h2 hw.le
  rw [div_mul_cancel₀ _ hw.ne'] at h3
  have := approxInvLog_mono p h3
  rwa [approxInvLog_approxLog p hv] at this

theorem le_lowerBound_succ (hγ : 1 < p.gamma) {v : ℝ} (hv : 0 < v) :
    v ≤ lowerBound p (index p v + 1) := by
  have hw := width_pos p hγ
  rw [lowerBound_eq, index_eq]
  have h := le_goFloor_add_one (approxLog p v / width p + p.indexOffset)
  have h2 : approxLog p v / width p ≤
      ((goFloor (approxLog p v / width p + p.indexOffset) + 1 : ℤ) : ℝ) - p.indexOffset := by
    push_cast; linarith
  have h3 := mul_le_mul_of_nonneg_right h2 hw.le
  rw [div_mul_cancel₀ _ hw.ne'] at h3
  have := approxInvLog_mono p h3
  rwa [approxInvLog_approxLog p hv] at this

theorem lowerBound_strictMono (hγ : 1 < p.gamma) {i j : ℤ} (h : i < j) :
    lowerBound p i < lowerBound p j := by
  have hw := width_pos p hγ
  rw [lowerBound_eq, lowerBound_eq]
  apply approxInvLog_strictMono
  have : (i : ℝ) < (j : ℝ) := by exact_mod_cast h
  apply mul_lt_mul_of_pos_right _ hw
  linarith

/-! ### T3 -/

/-- the ratio `(1+α)/(1-α)` guaranteed by the mapping -/
noncomputable def ratio : ℝ :=
  match p.kind with
  | .log => p.gamma
  | .linear => Real.exp (Real.logb 2 p.gamma)
  | .cubic => Real.exp (7 / 10 * Real.logb 2 p.gamma)

lemma relativeAccuracy_eq : relativeAccuracy p = 1 - 2 / (1 + ratio p) := by
  unfold relativeAccuracy ratio
  rcases p.kind with _ | _ | _ <;> simp

lemma one_lt_ratio (hγ : 1 < p.gamma) : 1 < ratio p := by
  have h2 : 0 < Real.logb 2 p.gamma := Real.logb_pos (by norm_num) hγ
  unfold ratio
  rcases p.kind with _ | _ | _ <;> simp
  · exact hγ
  · exact h2
  · exact h2

theorem relativeAccuracy_pos_lt_one (hγ : 1 < p.gamma) :
    0 < relativeAccuracy p ∧ relativeAccuracy p < 1 := by
  have h := one_lt_ratio p hγ
  rw [relativeAccuracy_eq]
  have h1 : 0 < 1 + ratio p := by linarith
  constructor
  · rw [sub_pos, div_lt_one h1]; linarith
  · have : 0 < 2 / (1 + ratio p) := by positivity
    linarith

lemma ratio_eq (hγ : 1 < p.gamma) :
    (1 + relativeAccuracy p) / (1 - relativeAccuracy p) = ratio p := by
  have h := one_lt_ratio p hγ
  rw [relativeAccuracy_eq]
  have h1 : (1 + ratio p) ≠ 0 := by linarith
  field_simp
  ring

theorem gamma_ofAlpha_gt_one (k : MKind) {a : ℝ} (h0 : 0 < a) (h1 : a < 1) :
    1 < (ofAlpha k a).gamma := by
  have hr : 1 < (1 + a) / (1 - a) := by
    rw [one_lt_div (by linarith)]; linarith
  have l2 : 0 < Real.log 2 := Real.log_pos (by norm_num)
  unfold ofAlpha gammaOfAlpha
  rcases k with _ | _ | _ <;> simp
  · exact hr
  · exact Real.one_lt_rpow hr l2
  · exact Real.one_lt_rpow hr (by positivity)

theorem relativeAccuracy_ofAlpha (k : MKind) {a : ℝ} (h0 : 0 < a) (h1 : a < 1) :
    relativeAccuracy (ofAlpha k a) = a := by
  have hr : 1 < (1 + a) / (1 - a) := by
    rw [one_lt_div (by linarith)]; linarith
  have hr0 : 0 < (1 + a) / (1 - a) := by linarith
  have l2 : 0 < Real.log 2 := Real.log_pos (by norm_num)
  have key : ratio (ofAlpha k a) = (1 + a) / (1 - a) := by
    unfold ratio ofAlpha gammaOfAlpha
    rcases k with _ | _ | _ <;> simp
    · rw [Real.logb, Real.log_rpow hr0, mul_div_assoc, mul_div_cancel₀ _ l2.ne',
        Real.exp_log hr0]
    · rw [Real.logb, Real.log_rpow hr0]
      have : 7 / 10 * (10 * Real.log 2 / 7 * Real.log ((1 + a) / (1 - a)) / Real.log 2)
          = Real.log ((1 + a) / (1 - a)) := by field_simp
      rw [this, Real.exp_log hr0]
  rw [relativeAccuracy_eq, key]
  have : (1 - a) ≠ 0 := by linarith
  field_simp
  ring

/-! ### T4 -/

theorem lowerBound_succ_le (hγ : 1 < p.gamma) (i : ℤ) :
    lowerBound p (i + 1) ≤ lowerBound p i * ratio p := by
  have hw := width_pos p hγ
  rw [lowerBound_eq, lowerBound_eq]
  have e : (((i + 1 : ℤ) : ℝ) - p.indexOffset) * width p
      = ((i : ℝ) - p.indexOffset) * width p + width p := by push_cast; ring
  rw [e]
  rcases hk : p.kind with _ | _ | _
  · rw [approxInvLog_log p hk, approxInvLog_log p hk, Real.exp_add]
    have h1 : width p = Real.log p.gamma := by simp [width, hk]
    have h2 : ratio p = p.gamma := by simp [ratio, hk]
    rw [h1, h2, Real.exp_log (by linarith)]
  · rw [approxInvLog_linear p hk, approxInvLog_linear p hk]
    have h := linI.aInv_add_le (((i : ℝ) - p.indexOffset) * width p) hw.le
    have h2 : ratio p = Real.exp (width p / linI.c) := by simp [ratio, width, hk, linI]
    rw [h2]; exact h
  · rw [approxInvLog_cubic p hk, approxInvLog_cubic p hk]
    have h := cubI.aInv_add_le (((i : ℝ) - p.indexOffset) * width p) hw.le
    have h2 : ratio p = Real.exp (width p / cubI.c) := by
      simp only [ratio, width, hk, cubI]; congr 1; ring
    rw [h2]; exact h

theorem lowerBound_ratio (hγ : 1 < p.gamma) (i : ℤ) :
    lowerBound p (i + 1) ≤
      lowerBound p i * ((1 + relativeAccuracy p) / (1 - relativeAccuracy p)) := by
  rw [ratio_eq p hγ]; exact lowerBound_succ_le p hγ i

/-! ### T5 -/

lemma lowerBound_pos (i : ℤ) : 0 < lowerBound p i := by
  rw [lowerBound_eq]; exact approxInvLog_pos p _

theorem accuracy (hγ : 1 < p.gamma) {v : ℝ} (hv : 0 < v) :
    |value p (index p v) - v| ≤ relativeAccuracy p * v := by
  obtain ⟨a0, a1⟩ := relativeAccuracy_pos_lt_one p hγ
  have h1 := lowerBound_le p hγ hv
  have h2 := le_lowerBound_succ p hγ hv
  have h3 := lowerBound_ratio p hγ (index p v)
  have hval : value p (index p v) = lowerBound p (index p v) * (1 + relativeAccuracy p) := by
    simp [value]
  rw [hval]
  set α := relativeAccuracy p
  set L := lowerBound p (index p v)
  have h4 : v * (1 - α) ≤ L * (1 + α) := by
    have : v ≤ L * (1 + α) / (1 - α) := by rw [mul_div_assoc]; exact h2.trans h3
    rwa [le_div_iff₀ (by linarith)] at this
  rw [abs_le]
  constructor <;> nlinarith

/-! ### T6 -/

lemma expLike_log (hk : p.kind = .log) (x : ℝ) : expLike p x = Real.exp x := by
  simp [expLike, hk]

lemma expLike_interp (hk : p.kind ≠ .log) (x : ℝ) : expLike p x = (2:ℝ) ^ x := by
  unfold expLike
  rcases h : p.kind with _ | _ | _
  · exact absurd h hk
  · simp
  · simp

lemma le_minIndexable :
    expLike p (((-2147483648 : ℝ) - p.indexOffset) * width p + 1) ≤ minIndexable p := by
  unfold minIndexable
  refine le_trans (le_of_eq ?_) (le_fmax_left _ _)
  rw [multiplier_eq]; simp

lemma maxIndexable_le :
    maxIndexable p ≤ expLike p (((2147483647 : ℝ) - p.indexOffset) * width p - 1) := by
  unfold maxIndexable
  refine le_trans (fmin_le_left _ _) (le_of_eq ?_)
  rw [multiplier_eq]; simp

theorem index_int32 (hγ : 1 < p.gamma) {v : ℝ} (hmin : minIndexable p ≤ v)
    (hmax : v ≤ maxIndexable p) :
    -2147483648 ≤ index p v ∧ index p v ≤ 2147483647 := by
  have hw := width_pos p hγ
  have hlo := (le_minIndexable p).trans hmin
  have hhi := hmax.trans (maxIndexable_le p)
  rw [index_eq]
  by_cases hk : p.kind = .log
  · rw [expLike_log p hk] at hlo hhi
    have hv : 0 < v := lt_of_lt_of_le (Real.exp_pos _) hlo
    rw [approxLog_log p hk]
    rw [← Real.le_log_iff_exp_le hv] at hlo
    rw [← Real.log_le_iff_le_exp hv] at hhi
    constructor
    · apply lt_goFloor
      push_cast
      have : ((-2147483648 : ℝ) - p.indexOffset) + 1 / width p ≤ Real.log v / width p := by
        rw [le_div_iff₀ hw, add_mul, one_div, inv_mul_cancel₀ hw.ne']; exact hlo
      have : 0 < 1 / width p := by positivity
      linarith
    · apply goFloor_lt
      push_cast
      have : Real.log v / width p ≤ ((2147483647 : ℝ) - p.indexOffset) - 1 / width p := by
        rw [div_le_iff₀ hw, sub_mul, one_div, inv_mul_cancel₀ hw.ne']; exact hhi
      have : 0 < 1 / width p := by positivity
      linarith
  · rw [expLike_interp p hk] at hlo hhi
    have hv : 0 < v := lt_of_lt_of_le (Real.rpow_pos_of_pos (by norm_num) _) hlo
    rw [approxLog_interp p hk]
    rw [← Real.le_logb_iff_rpow_le (by norm_num) hv] at hlo
    rw [← Real.logb_le_iff_le_rpow (by norm_num) hv] at hhi
    have g1 := (interpOf p.kind).aLog_gt hv
    have g2 := (interpOf p.kind).aLog_lt hv
    constructor
    · apply lt_goFloor
      push_cast
      have : ((-2147483648 : ℝ) - p.indexOffset) < (interpOf p.kind).aLog v / width p := by
        rw [lt_div_iff₀ hw]; linarith
      linarith
    · apply goFloor_lt
      push_cast
      have : (interpOf p.kind).aLog v / width p < ((2147483647 : ℝ) - p.indexOffset) := by
        rw [div_lt_iff₀ hw]; linarith
      linarith

end model
/-! ### satisfiability of the hypotheses of T6 -/

@[simp] lemma expOverflow_def : (MOps.expOverflow : ℝ) = 709.4361393031 := rfl

lemma fmax_le {a b c : ℝ} (h1 : a ≤ c) (h2 : b ≤ c) : Mapping.fmax a b ≤ c := by
  unfold Mapping.fmax; by_cases h : a < b <;> simp [h, h1, h2]

lemma le_fmin {a b c : ℝ} (h1 : c ≤ a) (h2 : c ≤ b) : c ≤ Mapping.fmin a b := by
  unfold Mapping.fmin; by_cases h : b < a <;> simp [h, h1, h2]

/-- the hypotheses of `index_int32` are satisfiable: with `gamma = 2` and offset `0`, the value `1`
is indexable, for every kind -/
lemma one_indexable (k : MKind) :
    minIndexable (⟨k, 2, 0⟩ : Params ℝ) ≤ 1 ∧ 1 ≤ maxIndexable (⟨k, 2, 0⟩ : Params ℝ) := by
  have l2 : (1:ℝ) / 2 < Real.log 2 := by have := Real.log_two_gt_d9; norm_num at this ⊢; linarith
  have l2' : Real.log 2 < 1 := by have := Real.log_two_lt_d9; norm_num at this ⊢; linarith
  have l0 : 0 < Real.log 2 := by linarith
  have hmn : (2:ℝ) ^ (-1022 : ℤ) ≤ 1 / 4 := by
    have h2 : (2:ℝ) ^ (-2 : ℤ) = 1 / 4 := by norm_num
    exact (zpow_le_zpow_right₀ (by norm_num : (1:ℝ) ≤ 2) (by norm_num : (-1022 : ℤ) ≤ -2)).trans_eq h2
  have hmn0 : (0:ℝ) < (2:ℝ) ^ (-1022 : ℤ) := two_zpow_pos _
  have hE : (2:ℝ) ≤ Real.exp 709.4361393031 := by
    have := Real.add_one_le_exp (709.4361393031 : ℝ); linarith
  have hB : ∀ g : ℝ, 0 < g → 1 ≤ Real.exp 709.4361393031 / (2 * g) * (g + 1) := by
    intro g hg
    rw [div_mul_eq_mul_div, le_div_iff₀ (by positivity)]
    nlinarith
  have hpow : ∀ z : ℝ, 0 < z → z ≤ 2 → (2:ℝ) ^ (-1022 : ℤ) * (2:ℝ) ^ z ≤ 1 := by
    intro z _ hz
    have : (2:ℝ) ^ z ≤ (2:ℝ) ^ (2:ℝ) := Real.rpow_le_rpow_of_exponent_le (by norm_num) hz
    have e : (2:ℝ) ^ (2:ℝ) = 4 := by rw [Real.rpow_two]; norm_num
    rw [e] at this
    have : 0 < (2:ℝ) ^ z := Real.rpow_pos_of_pos (by norm_num) _
    nlinarith
  have hz1 : 1 / Real.log 2 ≤ 2 := by rw [div_le_iff₀ l0]; linarith
  have hz2 : 7 / (10 * Real.log 2) ≤ 2 := by rw [div_le_iff₀ (by positivity)]; linarith
  constructor
  · unfold minIndexable
    apply fmax_le
    · unfold expLike multiplier
      rcases k with _ | _ | _ <;> simp
      · linarith
      · exact Real.rpow_le_one_of_one_le_of_nonpos (by norm_num) (by norm_num)
      · exact Real.rpow_le_one_of_one_le_of_nonpos (by norm_num) (by norm_num)
    · unfold adjustedGamma
      rcases k with _ | _ | _ <;>
        simp only [mul_def, minNormal_def, pow_def, div_def, one_def, ln2_def, ofInt_def]
      · linarith
      · exact hpow (1 / Real.log 2) (by positivity) hz1
      · have := hpow _ (by positivity) hz2
        simpa using this
  · unfold maxIndexable
    apply le_fmin
    · unfold expLike multiplier
      rcases k with _ | _ | _ <;> simp
      · linarith
      · exact Real.one_le_rpow (by norm_num) (by norm_num)
      · exact Real.one_le_rpow (by norm_num) (by norm_num)
    · unfold adjustedGamma
      rcases k with _ | _ | _ <;> simp
      · exact hB 2 (by norm_num)
      · have := hB ((2:ℝ) ^ (1 / Real.log 2)) (Real.rpow_pos_of_pos (by norm_num) _)
        simpa using this
      · exact hB _ (Real.rpow_pos_of_pos (by norm_num) _)

end DDS.RealMap
