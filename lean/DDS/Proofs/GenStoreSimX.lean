/-
  DDS.Proofs.GenStoreSimX — parametricity in the store implementation of the EXACT-SUMMARY variant of the
  regenerated sketch (`DDSketchWithExactSummaryStatistics.*` of `DDS/Generated/CodeSketch.lean`: an embedded
  `DDSketch` plus the regenerated `SummaryStatistics`), proved ONCE for every `T : StoreSim S₁ S₂`
  (`DDS/Proofs/GenStoreSim.lean`) and every mapping implementation `M`.

  0. Decomposition of the four mutating methods (ANY `M`, `S`; no simulation involved): the embedded sketch and
     the returned error are those of the plain method, and the statistics are touched only when the plain method
     returned a nil error — `XAddWithCount_eq`, `XAdd_eq`, `XMergeWith_eq`, `XReweight_eq`.  (The exact variant
     calls the plain method FIRST; a refused call leaves the statistics as they were: "validation before the
     statistics".)  The statistics never read the stores.
  1. `XSkSimG T a b`: embedded sketches in `SkSimG T`, statistics EQUAL.  Equal answers:
     `XIsEmpty_paramG`, `XGetCount_paramG`, `XGetZeroCount_paramG`, `XGetSum_paramG`, `XGetMinValue_paramG`,
     `XGetMaxValue_paramG`, `XGetValueAtQuantile_paramG`, `XGetValuesAtQuantiles_paramG` (every fuel), and for the
     PLAIN sketch `goBatch_paramG`, `GetValuesAtQuantiles_paramG`.  Same error and related receivers:
     `XClear_paramG`, `XCopy_paramG`, `XAddWithCount_paramG`, `XAdd_paramG` (side condition: the routed index is
     admissible, as for the plain sketch), `XMergeWith_paramG`, `XReweight_paramG`,
     `XFromData_paramG` (`NewDDSketchWithExactSummaryStatisticsFromData`: same error; related results when the
     error is nil — on a refusal the translation returns `default` stores, related only if `T.R default default`:
     `XFromData_paramG_default`).
  2. Histories: `xrunAdds` (a list of `AddWithCount(value, count)` calls on the exact variant),
     `xrunAdds_sk` / `xrunAdds_errs` (its embedded sketch / errors are those of `runAdds` on the embedded sketch),
     `xrunAdds_stats` (its statistics are the fold of the regenerated `SummaryStatistics.Add` over the ABSORBED
     calls `xabsorbed`: nil error and non-zero count), `xrunAdds_paramG`, `newX`, `xSkSimG_new`,
     `xobservers_paramG`, and the payoff `xhistory_observers_paramG`: same errors, `GetCount`, `GetSum`,
     `GetMinValue`, `GetMaxValue`, `IsEmpty`, `GetZeroCount`, every `GetValueAtQuantile`, every
     `GetValuesAtQuantiles`.

  No fuel hypothesis anywhere (the two batch loops are structural; `GenSketch3`).  Core Lean only.
-/
import DDS.Proofs.GenStoreSim
import DDS.Proofs.GenSketch3

namespace DDS.GenStoreSim

open DDS DDS.GoSem DDS.Gen.Sketch DDS.Gen.Stat DDS.GenPagSketch

/-! ### the four mutating methods, decomposed (any mapping, any store) -/

section decomposition

variable {M S : Type} [MapI M] [StoreI S] [Inhabited M] [Inhabited S]

theorem bne_nil_false {e : GoErr} (h : ¬ (e != GoErr.nil) = true) : e = GoErr.nil := by
  simpa using h

/-- `AddWithCount` of the exact variant: the plain `AddWithCount` first; the statistics absorb `(value, count)`
    only if that call returned nil and the count is not zero -/
theorem XAddWithCount_eq (g : DDSketchWithExactSummaryStatistics M S) (v c : F64) :
    DDSketchWithExactSummaryStatistics.AddWithCount g v c =
      ({ DDSketch := (DDSketch.AddWithCount g.DDSketch v c).1,
         summaryStatistics :=
           if ((DDSketch.AddWithCount g.DDSketch v c).2 != GoErr.nil) = true then g.summaryStatistics
           else if F64.eq c (.fin 0) = true then g.summaryStatistics
           else SummaryStatistics.Add g.summaryStatistics v c },
       (DDSketch.AddWithCount g.DDSketch v c).2) := by
  unfold DDSketchWithExactSummaryStatistics.AddWithCount
  rcases DDSketch.AddWithCount g.DDSketch v c with ⟨t, e⟩
  dsimp only
  by_cases he : (e != GoErr.nil) = true
  · simp only [he, if_true]
  · simp only [he, Bool.false_eq_true, if_false]
    have := bne_nil_false he
    subst this
    by_cases h0 : F64.eq c (.fin 0) = true
    · simp only [h0, if_true]
    · simp only [h0, Bool.false_eq_true, if_false]

/-- `Add` of the exact variant is its `AddWithCount(value, 1)` -/
theorem XAdd_eq (g : DDSketchWithExactSummaryStatistics M S) (v : F64) :
    DDSketchWithExactSummaryStatistics.Add g v =
      DDSketchWithExactSummaryStatistics.AddWithCount g v (.fin 1) := by
  have h10 : F64.eq (.fin 1) (.fin 0) = false := by decide
  rw [XAddWithCount_eq]
  unfold DDSketchWithExactSummaryStatistics.Add
  rw [Add_eq_AddWithCount]
  rcases DDSketch.AddWithCount g.DDSketch v (.fin 1) with ⟨t, e⟩
  dsimp only
  by_cases he : (e != GoErr.nil) = true
  · simp only [he, if_true]
  · simp only [he, Bool.false_eq_true, if_false, h10]
    have := bne_nil_false he
    subst this
    rfl

theorem XMergeWith_eq (g o : DDSketchWithExactSummaryStatistics M S) :
    DDSketchWithExactSummaryStatistics.MergeWith g o =
      ({ DDSketch := (DDSketch.MergeWith g.DDSketch o.DDSketch).1,
         summaryStatistics :=
           if ((DDSketch.MergeWith g.DDSketch o.DDSketch).2 != GoErr.nil) = true then g.summaryStatistics
           else SummaryStatistics.MergeWith g.summaryStatistics o.summaryStatistics },
       (DDSketch.MergeWith g.DDSketch o.DDSketch).2) := by
  unfold DDSketchWithExactSummaryStatistics.MergeWith
  rcases DDSketch.MergeWith g.DDSketch o.DDSketch with ⟨t, e⟩
  dsimp only
  by_cases he : (e != GoErr.nil) = true
  · simp only [he, if_true]
  · simp only [he, Bool.false_eq_true, if_false]
    have := bne_nil_false he
    subst this
    rfl

theorem XReweight_eq (g : DDSketchWithExactSummaryStatistics M S) (w : F64) :
    DDSketchWithExactSummaryStatistics.Reweight g w =
      ({ DDSketch := (DDSketch.Reweight g.DDSketch w).1,
         summaryStatistics :=
           if ((DDSketch.Reweight g.DDSketch w).2 != GoErr.nil) = true then g.summaryStatistics
           else SummaryStatistics.Reweight g.summaryStatistics w },
       (DDSketch.Reweight g.DDSketch w).2) := by
  unfold DDSketchWithExactSummaryStatistics.Reweight
  rcases DDSketch.Reweight g.DDSketch w with ⟨t, e⟩
  dsimp only
  by_cases he : (e != GoErr.nil) = true
  · simp only [he, if_true]
  · simp only [he, Bool.false_eq_true, if_false]
    have := bne_nil_false he
    subst this
    rfl

/-- a refused `AddWithCount` leaves the statistics alone, whatever the store ("validation first") -/
theorem XAddWithCount_refused_stats (g : DDSketchWithExactSummaryStatistics M S) (v c : F64)
    (h : (DDSketchWithExactSummaryStatistics.AddWithCount g v c).2 ≠ GoErr.nil) :
    (DDSketchWithExactSummaryStatistics.AddWithCount g v c).1.summaryStatistics = g.summaryStatistics := by
  rw [XAddWithCount_eq] at h ⊢
  have : ((DDSketch.AddWithCount g.DDSketch v c).2 != GoErr.nil) = true := by simpa using h
  simp only [this, if_true]

end decomposition

section sketch

variable {M : Type} [MapI M] [Inhabited M]
variable {S₁ S₂ : Type} [StoreI S₁] [StoreI S₂] [Inhabited S₁] [Inhabited S₂]
variable (T : StoreSim S₁ S₂)

/-- embedded sketches in simulation, statistics equal -/
structure XSkSimG (a : DDSketchWithExactSummaryStatistics M S₁) (b : DDSketchWithExactSummaryStatistics M S₂) :
    Prop where
  sk : SkSimG T a.DDSketch b.DDSketch
  st : a.summaryStatistics = b.summaryStatistics

/-! ### observers -/

theorem XIsEmpty_paramG {a : DDSketchWithExactSummaryStatistics M S₁} {b : DDSketchWithExactSummaryStatistics M S₂}
    (h : XSkSimG T a b) :
    DDSketchWithExactSummaryStatistics.IsEmpty a = DDSketchWithExactSummaryStatistics.IsEmpty b := by
  unfold DDSketchWithExactSummaryStatistics.IsEmpty
  rw [h.st]

theorem XGetCount_paramG {a : DDSketchWithExactSummaryStatistics M S₁} {b : DDSketchWithExactSummaryStatistics M S₂}
    (h : XSkSimG T a b) :
    DDSketchWithExactSummaryStatistics.GetCount a = DDSketchWithExactSummaryStatistics.GetCount b := by
  unfold DDSketchWithExactSummaryStatistics.GetCount
  rw [h.st]

theorem XGetZeroCount_paramG {a : DDSketchWithExactSummaryStatistics M S₁}
    {b : DDSketchWithExactSummaryStatistics M S₂} (h : XSkSimG T a b) :
    DDSketchWithExactSummaryStatistics.GetZeroCount a = DDSketchWithExactSummaryStatistics.GetZeroCount b :=
  h.sk.zero

theorem XGetSum_paramG {a : DDSketchWithExactSummaryStatistics M S₁} {b : DDSketchWithExactSummaryStatistics M S₂}
    (h : XSkSimG T a b) :
    DDSketchWithExactSummaryStatistics.GetSum a = DDSketchWithExactSummaryStatistics.GetSum b := by
  unfold DDSketchWithExactSummaryStatistics.GetSum
  rw [h.st]

/-- `GetMinValue`: the emptiness test is the one of the EMBEDDED sketch (it reads the stores), the value is the
    statistics' -/
theorem XGetMinValue_paramG {a : DDSketchWithExactSummaryStatistics M S₁}
    {b : DDSketchWithExactSummaryStatistics M S₂} (h : XSkSimG T a b) :
    DDSketchWithExactSummaryStatistics.GetMinValue a = DDSketchWithExactSummaryStatistics.GetMinValue b := by
  unfold DDSketchWithExactSummaryStatistics.GetMinValue
  rw [IsEmpty_paramG T h.sk, h.st]

theorem XGetMaxValue_paramG {a : DDSketchWithExactSummaryStatistics M S₁}
    {b : DDSketchWithExactSummaryStatistics M S₂} (h : XSkSimG T a b) :
    DDSketchWithExactSummaryStatistics.GetMaxValue a = DDSketchWithExactSummaryStatistics.GetMaxValue b := by
  unfold DDSketchWithExactSummaryStatistics.GetMaxValue
  rw [IsEmpty_paramG T h.sk, h.st]

theorem XGetValueAtQuantile_paramG {a : DDSketchWithExactSummaryStatistics M S₁}
    {b : DDSketchWithExactSummaryStatistics M S₂} (h : XSkSimG T a b) (q : F64) :
    DDSketchWithExactSummaryStatistics.GetValueAtQuantile a q =
      DDSketchWithExactSummaryStatistics.GetValueAtQuantile b q := by
  unfold DDSketchWithExactSummaryStatistics.GetValueAtQuantile
  rw [GetValueAtQuantile_paramG T h.sk q, h.st]

/-! ### the batch queries (plain sketch and exact variant) -/

theorem goBatch_paramG {a : DDSketch M S₁} {b : DDSketch M S₂} (h : SkSimG T a b) (qs : List F64) :
    GenSketch.goBatch a qs = GenSketch.goBatch b qs := by
  induction qs with
  | nil => rfl
  | cons q rest ih =>
    simp only [GenSketch.goBatch, GetValueAtQuantile_paramG T h q, ih]

/-- `GetValuesAtQuantiles` of the PLAIN sketch: the same outcome, for every list and every fuel on either side -/
theorem GetValuesAtQuantiles_paramG {a : DDSketch M S₁} {b : DDSketch M S₂} (h : SkSimG T a b)
    (f₁ f₂ : Nat) (qs : List F64) :
    DDSketch.GetValuesAtQuantiles f₁ a qs = DDSketch.GetValuesAtQuantiles f₂ b qs := by
  rw [GenSketch.GetValuesAtQuantiles_eq, GenSketch.GetValuesAtQuantiles_eq, goBatch_paramG T h]

theorem XGetValuesAtQuantiles_paramG {a : DDSketchWithExactSummaryStatistics M S₁}
    {b : DDSketchWithExactSummaryStatistics M S₂} (h : XSkSimG T a b) (f₁ f₂ : Nat) (qs : List F64) :
    DDSketchWithExactSummaryStatistics.GetValuesAtQuantiles f₁ a qs =
      DDSketchWithExactSummaryStatistics.GetValuesAtQuantiles f₂ b qs := by
  rw [GenSketch.XGetValuesAtQuantiles_eq, GenSketch.XGetValuesAtQuantiles_eq, goBatch_paramG T h.sk, h.st]

/-! ### mutators -/

theorem XClear_paramG {a : DDSketchWithExactSummaryStatistics M S₁} {b : DDSketchWithExactSummaryStatistics M S₂}
    (h : XSkSimG T a b) :
    XSkSimG T (DDSketchWithExactSummaryStatistics.Clear a) (DDSketchWithExactSummaryStatistics.Clear b) := by
  unfold DDSketchWithExactSummaryStatistics.Clear
  exact ⟨Clear_paramG T h.sk, by dsimp only; rw [h.st]⟩

theorem XCopy_paramG {a : DDSketchWithExactSummaryStatistics M S₁} {b : DDSketchWithExactSummaryStatistics M S₂}
    (h : XSkSimG T a b) :
    XSkSimG T (DDSketchWithExactSummaryStatistics.Copy a) (DDSketchWithExactSummaryStatistics.Copy b) := by
  unfold DDSketchWithExactSummaryStatistics.Copy
  exact ⟨Copy_paramG T h.sk, by dsimp only; rw [h.st]⟩

/-- `AddWithCount(value, count)` of the exact variant: the same error, related receivers (statistics equal
    again).  Side conditions: those of the plain `AddWithCount_paramG`. -/
theorem XAddWithCount_paramG {a : DDSketchWithExactSummaryStatistics M S₁}
    {b : DDSketchWithExactSummaryStatistics M S₂} (h : XSkSimG T a b) (v c : F64)
    (hp : F64.lt (MapI.MinIndexableValue b.DDSketch.IndexMapping) v = true →
      T.Adm (MapI.Index b.DDSketch.IndexMapping v))
    (hn : F64.lt v (F64.neg (MapI.MinIndexableValue b.DDSketch.IndexMapping)) = true →
      T.Adm (MapI.Index b.DDSketch.IndexMapping (F64.neg v))) :
    (DDSketchWithExactSummaryStatistics.AddWithCount a v c).2 =
        (DDSketchWithExactSummaryStatistics.AddWithCount b v c).2 ∧
      XSkSimG T (DDSketchWithExactSummaryStatistics.AddWithCount a v c).1
        (DDSketchWithExactSummaryStatistics.AddWithCount b v c).1 := by
  obtain ⟨e1, s1⟩ := AddWithCount_paramG T h.sk v c hp hn
  rw [XAddWithCount_eq, XAddWithCount_eq]
  exact ⟨e1, ⟨s1, by dsimp only; rw [e1, h.st]⟩⟩

theorem XAdd_paramG {a : DDSketchWithExactSummaryStatistics M S₁}
    {b : DDSketchWithExactSummaryStatistics M S₂} (h : XSkSimG T a b) (v : F64)
    (hp : F64.lt (MapI.MinIndexableValue b.DDSketch.IndexMapping) v = true →
      T.Adm (MapI.Index b.DDSketch.IndexMapping v))
    (hn : F64.lt v (F64.neg (MapI.MinIndexableValue b.DDSketch.IndexMapping)) = true →
      T.Adm (MapI.Index b.DDSketch.IndexMapping (F64.neg v))) :
    (DDSketchWithExactSummaryStatistics.Add a v).2 = (DDSketchWithExactSummaryStatistics.Add b v).2 ∧
      XSkSimG T (DDSketchWithExactSummaryStatistics.Add a v).1 (DDSketchWithExactSummaryStatistics.Add b v).1 := by
  rw [XAdd_eq, XAdd_eq]
  exact XAddWithCount_paramG T h v (.fin 1) hp hn

theorem XMergeWith_paramG {a a' : DDSketchWithExactSummaryStatistics M S₁}
    {b b' : DDSketchWithExactSummaryStatistics M S₂} (h : XSkSimG T a b) (h' : XSkSimG T a' b') :
    (DDSketchWithExactSummaryStatistics.MergeWith a a').2 = (DDSketchWithExactSummaryStatistics.MergeWith b b').2 ∧
      XSkSimG T (DDSketchWithExactSummaryStatistics.MergeWith a a').1
        (DDSketchWithExactSummaryStatistics.MergeWith b b').1 := by
  obtain ⟨e1, s1⟩ := MergeWith_paramG T h.sk h'.sk
  rw [XMergeWith_eq, XMergeWith_eq]
  exact ⟨e1, ⟨s1, by dsimp only; rw [e1, h.st, h'.st]⟩⟩

theorem XReweight_paramG {a : DDSketchWithExactSummaryStatistics M S₁}
    {b : DDSketchWithExactSummaryStatistics M S₂} (h : XSkSimG T a b) (w : F64) :
    (DDSketchWithExactSummaryStatistics.Reweight a w).2 = (DDSketchWithExactSummaryStatistics.Reweight b w).2 ∧
      XSkSimG T (DDSketchWithExactSummaryStatistics.Reweight a w).1
        (DDSketchWithExactSummaryStatistics.Reweight b w).1 := by
  obtain ⟨e1, s1⟩ := Reweight_paramG T h.sk w
  rw [XReweight_eq, XReweight_eq]
  exact ⟨e1, ⟨s1, by dsimp only; rw [e1, h.st]⟩⟩

/-- `NewDDSketchWithExactSummaryStatisticsFromData(sketch, statistics)`: the same verdict; accepted arguments
    are stored as they are, hence related -/
theorem XFromData_paramG {a : DDSketch M S₁} {b : DDSketch M S₂} (h : SkSimG T a b) (st : SummaryStatistics) :
    (NewDDSketchWithExactSummaryStatisticsFromData a st).2 =
        (NewDDSketchWithExactSummaryStatisticsFromData b st).2 ∧
      ((NewDDSketchWithExactSummaryStatisticsFromData b st).2 = GoErr.nil →
        XSkSimG T (NewDDSketchWithExactSummaryStatisticsFromData a st).1
          (NewDDSketchWithExactSummaryStatisticsFromData b st).1) := by
  unfold NewDDSketchWithExactSummaryStatisticsFromData
  rw [IsEmpty_paramG T h]
  by_cases hc : (DDSketch.IsEmpty b != F64.eq (SummaryStatistics.Count st) (.fin 0)) = true
  · simp only [hc, if_true]
    exact ⟨trivial, fun hx => by cases hx⟩
  · simp only [hc, Bool.false_eq_true, if_false]
    exact ⟨trivial, fun _ => ⟨h, rfl⟩⟩

/-- … and on a refusal the translation returns the zero value (default mapping and stores): related as soon as
    the default stores are -/
theorem XFromData_paramG_default {a : DDSketch M S₁} {b : DDSketch M S₂} (h : SkSimG T a b)
    (st : SummaryStatistics) (hd : T.R default default) :
    XSkSimG T (NewDDSketchWithExactSummaryStatisticsFromData a st).1
      (NewDDSketchWithExactSummaryStatisticsFromData b st).1 := by
  unfold NewDDSketchWithExactSummaryStatisticsFromData
  rw [IsEmpty_paramG T h]
  by_cases hc : (DDSketch.IsEmpty b != F64.eq (SummaryStatistics.Count st) (.fin 0)) = true
  · simp only [hc, if_true]
    exact ⟨⟨rfl, hd, hd, rfl⟩, rfl⟩
  · simp only [hc, Bool.false_eq_true, if_false]
    exact ⟨h, rfl⟩

/-- every observer of the exact variant agrees on related sketches -/
theorem xobservers_paramG {a : DDSketchWithExactSummaryStatistics M S₁}
    {b : DDSketchWithExactSummaryStatistics M S₂} (h : XSkSimG T a b) :
    DDSketchWithExactSummaryStatistics.GetCount a = DDSketchWithExactSummaryStatistics.GetCount b ∧
    DDSketchWithExactSummaryStatistics.GetSum a = DDSketchWithExactSummaryStatistics.GetSum b ∧
    DDSketchWithExactSummaryStatistics.GetMinValue a = DDSketchWithExactSummaryStatistics.GetMinValue b ∧
    DDSketchWithExactSummaryStatistics.GetMaxValue a = DDSketchWithExactSummaryStatistics.GetMaxValue b ∧
    DDSketchWithExactSummaryStatistics.IsEmpty a = DDSketchWithExactSummaryStatistics.IsEmpty b ∧
    DDSketchWithExactSummaryStatistics.GetZeroCount a = DDSketchWithExactSummaryStatistics.GetZeroCount b ∧
    (∀ q, DDSketchWithExactSummaryStatistics.GetValueAtQuantile a q =
      DDSketchWithExactSummaryStatistics.GetValueAtQuantile b q) ∧
    (∀ f₁ f₂ qs, DDSketchWithExactSummaryStatistics.GetValuesAtQuantiles f₁ a qs =
      DDSketchWithExactSummaryStatistics.GetValuesAtQuantiles f₂ b qs) :=
  ⟨XGetCount_paramG T h, XGetSum_paramG T h, XGetMinValue_paramG T h, XGetMaxValue_paramG T h,
    XIsEmpty_paramG T h, XGetZeroCount_paramG T h, fun q => XGetValueAtQuantile_paramG T h q,
    fun f₁ f₂ qs => XGetValuesAtQuantiles_paramG T h f₁ f₂ qs⟩

end sketch

/-! ### histories of `AddWithCount` calls on the exact variant -/

section histories

variable {M : Type} [MapI M] [Inhabited M]

/-- a history of `AddWithCount(value, count)` calls on the exact variant: the final receiver and the errors
    returned, in order -/
def xrunAdds {S : Type} [StoreI S] [Inhabited S] (g : DDSketchWithExactSummaryStatistics M S) :
    List (F64 × F64) → DDSketchWithExactSummaryStatistics M S × List GoErr
  | [] => (g, [])
  | (v, c) :: rest =>
    let r := DDSketchWithExactSummaryStatistics.AddWithCount g v c
    let r' := xrunAdds r.1 rest
    (r'.1, r.2 :: r'.2)

/-- the calls the statistics absorb: those answered nil, with a non-zero count -/
def xabsorbed : List (F64 × F64) → List GoErr → List (F64 × F64)
  | p :: l, e :: es =>
    if (e != GoErr.nil) = true then xabsorbed l es
    else if F64.eq p.2 (.fin 0) = true then xabsorbed l es
    else p :: xabsorbed l es
  | _, _ => []

variable {S : Type} [StoreI S] [Inhabited S]

/-- the embedded sketch of the history is the plain history of the embedded sketch -/
theorem xrunAdds_sk (l : List (F64 × F64)) : ∀ g : DDSketchWithExactSummaryStatistics M S,
    (xrunAdds g l).1.DDSketch = (runAdds g.DDSketch l).1 := by
  induction l with
  | nil => intro g; rfl
  | cons p rest ih =>
    intro g
    obtain ⟨v, c⟩ := p
    show (xrunAdds (DDSketchWithExactSummaryStatistics.AddWithCount g v c).1 rest).1.DDSketch =
      (runAdds (DDSketch.AddWithCount g.DDSketch v c).1 rest).1
    rw [ih, XAddWithCount_eq]

/-- … with the same errors -/
theorem xrunAdds_errs (l : List (F64 × F64)) : ∀ g : DDSketchWithExactSummaryStatistics M S,
    (xrunAdds g l).2 = (runAdds g.DDSketch l).2 := by
  induction l with
  | nil => intro g; rfl
  | cons p rest ih =>
    intro g
    obtain ⟨v, c⟩ := p
    show (DDSketchWithExactSummaryStatistics.AddWithCount g v c).2 ::
        (xrunAdds (DDSketchWithExactSummaryStatistics.AddWithCount g v c).1 rest).2 =
      (DDSketch.AddWithCount g.DDSketch v c).2 :: (runAdds (DDSketch.AddWithCount g.DDSketch v c).1 rest).2
    rw [ih, XAddWithCount_eq]

/-- the statistics of the history: the regenerated `SummaryStatistics.Add` folded over the absorbed calls — the
    stores are not consulted beyond the errors they caused -/
theorem xrunAdds_stats (l : List (F64 × F64)) : ∀ g : DDSketchWithExactSummaryStatistics M S,
    (xrunAdds g l).1.summaryStatistics =
      GenStat.genAddAllF g.summaryStatistics (xabsorbed l (xrunAdds g l).2) := by
  induction l with
  | nil => intro g; rfl
  | cons p rest ih =>
    intro g
    obtain ⟨v, c⟩ := p
    show (xrunAdds (DDSketchWithExactSummaryStatistics.AddWithCount g v c).1 rest).1.summaryStatistics =
      GenStat.genAddAllF g.summaryStatistics
        (xabsorbed ((v, c) :: rest) ((DDSketchWithExactSummaryStatistics.AddWithCount g v c).2 ::
          (xrunAdds (DDSketchWithExactSummaryStatistics.AddWithCount g v c).1 rest).2))
    rw [ih]
    generalize (xrunAdds (DDSketchWithExactSummaryStatistics.AddWithCount g v c).1 rest).2 = es
    rw [XAddWithCount_eq]
    dsimp only [xabsorbed]
    by_cases he : ((DDSketch.AddWithCount g.DDSketch v c).2 != GoErr.nil) = true
    · simp only [he, if_true]
    · simp only [he, Bool.false_eq_true, if_false]
      by_cases h0 : F64.eq c (.fin 0) = true
      · simp only [h0, if_true]
      · simp only [h0, Bool.false_eq_true, if_false]
        rfl

/-- if every call is answered nil and no count is zero, every call is absorbed -/
theorem xabsorbed_all (l : List (F64 × F64)) (hc : ∀ p ∈ l, F64.eq p.2 (.fin 0) = false) :
    xabsorbed l (List.replicate l.length GoErr.nil) = l := by
  induction l with
  | nil => rfl
  | cons p rest ih =>
    have h0 := hc p (List.mem_cons_self ..)
    have hnil : (GoErr.nil != GoErr.nil) = false := by decide
    simp only [List.length_cons, List.replicate_succ, xabsorbed, hnil, h0, Bool.false_eq_true, if_false]
    rw [ih (fun q hq => hc q (List.mem_cons_of_mem _ hq))]

end histories

section histories_param

variable {M : Type} [MapI M] [Inhabited M]
variable {S₁ S₂ : Type} [StoreI S₁] [StoreI S₂] [Inhabited S₁] [Inhabited S₂]
variable (T : StoreSim S₁ S₂)

/-- **histories** of the exact variant: the same errors, related receivers -/
theorem xrunAdds_paramG (l : List (F64 × F64)) :
    ∀ {a : DDSketchWithExactSummaryStatistics M S₁} {b : DDSketchWithExactSummaryStatistics M S₂},
      XSkSimG T a b → (∀ p ∈ l, RoutedG T b.DDSketch.IndexMapping p.1) →
      (xrunAdds a l).2 = (xrunAdds b l).2 ∧ XSkSimG T (xrunAdds a l).1 (xrunAdds b l).1 := by
  induction l with
  | nil => intro a b h _; exact ⟨rfl, h⟩
  | cons p rest ih =>
    intro a b h hl
    obtain ⟨v, c⟩ := p
    have hv := hl (v, c) (List.mem_cons_self ..)
    obtain ⟨e1, s1⟩ := XAddWithCount_paramG T h v c hv.1 hv.2
    obtain ⟨e2, s2⟩ := ih s1 (fun q hq => by
      rw [XAddWithCount_eq]
      dsimp only
      rw [AddWithCount_mapping]
      exact hl q (List.mem_cons_of_mem _ hq))
    refine ⟨?_, s2⟩
    show (DDSketchWithExactSummaryStatistics.AddWithCount a v c).2 :: _ =
      (DDSketchWithExactSummaryStatistics.AddWithCount b v c).2 :: _
    rw [e1, e2]

/-- the empty exact-variant sketch over the given stores: `NewDDSketch(m, p, n)` with
    `NewSummaryStatistics()` (what Go's `NewDDSketchWithExactSummaryStatistics` builds) -/
def newX {S : Type} [StoreI S] [Inhabited S] (m : M) (p n : S) : DDSketchWithExactSummaryStatistics M S :=
  { DDSketch := NewDDSketch m p n, summaryStatistics := NewSummaryStatistics }

/-- … is what `NewDDSketchWithExactSummaryStatisticsFromData` accepts when the two stores are empty -/
theorem newX_fromData {S : Type} [StoreI S] [Inhabited S] (m : M) (p n : S)
    (hp : (StoreI.IsEmpty p : Bool) = true) (hn : (StoreI.IsEmpty n : Bool) = true) :
    NewDDSketchWithExactSummaryStatisticsFromData (NewDDSketch m p n) NewSummaryStatistics =
      (newX m p n, GoErr.nil) := by
  unfold NewDDSketchWithExactSummaryStatisticsFromData
  have h1 : DDSketch.IsEmpty (NewDDSketch m p n) = true := by
    unfold DDSketch.IsEmpty NewDDSketch
    dsimp only
    rw [hp, hn]
    decide
  have h2 : F64.eq (SummaryStatistics.Count NewSummaryStatistics) (.fin 0) = true := by decide
  rw [h1, h2]
  rfl

theorem xSkSimG_new (m : M) {p₁ n₁ : S₁} {p₂ n₂ : S₂} (hp : T.R p₁ p₂) (hn : T.R n₁ n₂) :
    XSkSimG T (newX m p₁ n₁) (newX m p₂ n₂) :=
  ⟨skSimG_new T m hp hn, rfl⟩

/-- **the payoff**: after any history of `AddWithCount` calls with admissible routed indexes on the exact
    variant, from the empty sketch on related stores, the errors returned and EVERY observer agree -/
theorem xhistory_observers_paramG (m : M) {p₁ n₁ : S₁} {p₂ n₂ : S₂} (hp : T.R p₁ p₂) (hn : T.R n₁ n₂)
    (l : List (F64 × F64)) (hl : ∀ p ∈ l, RoutedG T m p.1) :
    let a := xrunAdds (newX m p₁ n₁) l
    let b := xrunAdds (newX m p₂ n₂) l
    a.2 = b.2 ∧
    DDSketchWithExactSummaryStatistics.GetCount a.1 = DDSketchWithExactSummaryStatistics.GetCount b.1 ∧
    DDSketchWithExactSummaryStatistics.GetSum a.1 = DDSketchWithExactSummaryStatistics.GetSum b.1 ∧
    DDSketchWithExactSummaryStatistics.GetMinValue a.1 = DDSketchWithExactSummaryStatistics.GetMinValue b.1 ∧
    DDSketchWithExactSummaryStatistics.GetMaxValue a.1 = DDSketchWithExactSummaryStatistics.GetMaxValue b.1 ∧
    DDSketchWithExactSummaryStatistics.IsEmpty a.1 = DDSketchWithExactSummaryStatistics.IsEmpty b.1 ∧
    DDSketchWithExactSummaryStatistics.GetZeroCount a.1 = DDSketchWithExactSummaryStatistics.GetZeroCount b.1 ∧
    (∀ q, DDSketchWithExactSummaryStatistics.GetValueAtQuantile a.1 q =
      DDSketchWithExactSummaryStatistics.GetValueAtQuantile b.1 q) ∧
    (∀ f₁ f₂ qs, DDSketchWithExactSummaryStatistics.GetValuesAtQuantiles f₁ a.1 qs =
      DDSketchWithExactSummaryStatistics.GetValuesAtQuantiles f₂ b.1 qs) := by
  intro a b
  obtain ⟨he, hs⟩ := xrunAdds_paramG T l (xSkSimG_new T m hp hn) hl
  exact ⟨he, xobservers_paramG T hs⟩

end histories_param

end DDS.GenStoreSim
