/-
  DDS.Proofs.GenDense — the REGENERATED plain `DenseStore` (`DDS/Generated/CodeDense.lean`, translated
  from `/repo/ddsketch/store/dense_store.go` on every run) equals the HAND-WRITTEN model `DDS.DStore`
  of kind `.plain` (`DDS/Model/Dense.lean`), method by method, for ALL inputs.

  Every theorem has the form  `generated fuel (toGen s) args = toRes toGen (model s args)`:
  the model says `some t` ⇒ the generated code returns `.ok (toGen t)`; the model says `none` (Go
  would panic) ⇒ the generated code returns `.panic`; `.nofuel` is never returned when the stated
  fuel bound holds (`RRel` of `GenDenseBase` is this equation).  No hypothesis on the store other
  than `s.kind = .plain` (the model dispatches on `kind`) is needed.

    adjust_rel        fuel ≥ s.bins.size + 2
    extendRange_rel   fuel ≥ extendFuel s a b   (= size + new length + 2, `GenDenseBase.extendFuel`)
    normalize_rel     fuel ≥ extendFuel s i i   (result `(toGen t, arrayIndex)`)
    addWithCount_rel  fuel ≥ extendFuel s i i
    add_rel, addBin_rel   the same (weight 1; `bin.index`, `bin.count`)
    keyAtRank_eq      any fuel; `.ok (s.keyAtRank r)` (a `range` loop: recursion on the slice)
    mergeWith_rel     fuel ≥ mergeFuel s o = max (extendFuel s o.min o.max) (width of o's window + 1);
                      the model is `DStore.mergeSame` (same-type fast path of `MergeWith`)
    reweight_nonpos / reweight_one / reweight_rel
                      `w ≤ 0` ⇒ `(s, error)`; `w = 1` ⇒ `(s, nil)`; else `DStore.reweight` and
                      `nil`, fuel ≥ reweightFuel s = width of the window + 1
    newDenseStore_eq' `NewDenseStore = toGen (DStore.new .plain)`
    genRun_rel        histories of `Op`s (add / clear / reweight)
  and `…_ex : ∃ f0, ∀ fuel ≥ f0, …` for each of them.

  No disagreement between generated code and model was found.  One difference in evaluation ORDER
  is invisible in the result: the generated merge loop reads `s.bins[idx-s.offset]` before
  `o.bins[idx-o.offset]`, the model reads `o.bins` first; both panic iff one of the reads fails
  (`optL_comm`).

  Core Lean only (Mathlib tactics come in through `DDS.Proofs.Num`, imported by the base for
  `growthIncrement_eq`).
-/
import DDS.Proofs.GenDenseBase

namespace DDS.GenDense

open DDS DDS.GoSem DDS.DStore

theorem adjust_rel (fuel : Nat) (s : DStore) (a b : Int) (hk : s.kind = .plain)
    (hf : s.bins.size + 2 ≤ fuel) :
    Gen.Dense.DenseStore.adjust fuel (toGen s) a b = toRes toGen (s.adjust a b) := by
  rw [denseAdjust_eq_centerCounts, DStore.adjust_plain s hk, centerCounts_rel fuel s a b hf]

theorem grow_kind (s t : DStore) (k : Int) (h : s.grow k = some t) : t.kind = s.kind := by
  unfold DStore.grow at h
  split at h
  · cases h
  · cases h; rfl

/-- the model's `extendRange` on a plain store, with the dispatch on `kind` resolved -/
theorem extendRange_plain (s : DStore) (hk : s.kind = .plain) (a b : Int) :
    s.extendRange a b =
      if s.count = 0 then
        (denseNewLength (min a s.minIndex) (max b s.maxIndex)).bind fun L =>
          (s.grow L).bind fun t =>
            centerCounts { t with offset := min a s.minIndex, minIndex := min a s.minIndex,
                                  maxIndex := max b s.maxIndex } (min a s.minIndex) (max b s.maxIndex)
      else if min a s.minIndex ≥ s.offset ∧ max b s.maxIndex < s.offset + s.len then
        some { s with minIndex := min a s.minIndex, maxIndex := max b s.maxIndex }
      else
        (denseNewLength (min a s.minIndex) (max b s.maxIndex)).bind fun L =>
          (if L > s.len then s.grow (L - s.len) else some s).bind fun t =>
            t.centerCounts (min a s.minIndex) (max b s.maxIndex) := by
  unfold DStore.extendRange
  simp only [DStore.getNewLength_plain s hk, hk]
  by_cases h0 : s.count = 0
  · simp only [h0, if_true]
    cases denseNewLength (min a s.minIndex) (max b s.maxIndex) with
    | none => rfl
    | some L =>
      simp only [Option.bind_eq_bind, Option.bind_some]
      cases hg : s.grow L with
      | none => rfl
      | some t =>
        simp only [Option.bind_some]
        rw [DStore.adjust_plain _ (by simp only; rw [grow_kind s t L hg, hk])]
  · simp only [h0, if_false]
    split
    · rfl
    · cases denseNewLength (min a s.minIndex) (max b s.maxIndex) with
      | none => rfl
      | some L =>
        simp only [Option.bind_eq_bind, Option.bind_some]
        split
        · cases hg : s.grow (L - s.len) with
          | none => rfl
          | some t =>
            simp only [Option.bind_some]
            rw [DStore.adjust_plain _ (by rw [grow_kind s t _ hg, hk])]
        · simp only [Option.pure_def, Option.bind_some]
          rw [DStore.adjust_plain _ hk]


theorem bind_ok_self {α : Type} (r : Res α) : (r.bind fun x => Res.ok x) = r := by
  cases r <;> rfl

/-- `centerCounts_rel` for a generated store given up to `toGen` -/
theorem centerCounts_rel' (fuel : Nat) (g : GS) (t : DStore) (a b : Int) (hg : g = toGen t)
    (hf : t.bins.size + 2 ≤ fuel) :
    (Gen.Dense.DenseStore.centerCounts fuel g a b).bind (fun x => Res.ok x)
      = toRes toGen (t.centerCounts a b) := by
  rw [bind_ok_self, hg, centerCounts_rel fuel t a b hf]

theorem extendRange_rel (fuel : Nat) (s : DStore) (a b : Int) (hk : s.kind = .plain)
    (hf : extendFuel s a b ≤ fuel) :
    Gen.Dense.DenseStore.extendRange fuel (toGen s) a b = toRes toGen (s.extendRange a b) := by
  rw [extendRange_plain s hk]
  unfold Gen.Dense.DenseStore.extendRange
  simp only [goMin_eq, goMax_eq, toGen_minIndex, toGen_maxIndex, toGen_offset, toGen_bins,
    toGen_count, isEmpty_eq, getNewLength_rel, denseAdjust_eq_centerCounts, len_toList]
  unfold extendFuel at hf
  rw [show s.len = (s.bins.size : Int) from rfl]
  by_cases h0 : s.count = 0
  · have he : s.isEmpty = true := by simp [DStore.isEmpty, h0]
    rw [if_pos he, if_pos h0]
    cases hL : denseNewLength (min a s.minIndex) (max b s.maxIndex) with
    | none => rfl
    | some L =>
      rw [hL] at hf
      simp only [toRes_some, id, Res.bind_ok, Option.bind_some, mkSlice_eq, DStore.grow, Option.getD_some] at hf ⊢
      by_cases hneg : L < 0
      · rw [if_pos hneg, if_pos hneg]; rfl
      · rw [if_neg hneg, if_neg hneg]
        simp only [optR_some, Option.bind_some]
        exact centerCounts_rel' fuel _ _ _ _ (by simp [toGen]) (by simp only [Array.size_append, Array.size_replicate]; omega)
  · have he : ¬ (s.isEmpty = true) := by simp [DStore.isEmpty, h0]
    rw [if_neg he, if_neg h0]
    by_cases hin : min a s.minIndex ≥ s.offset ∧ max b s.maxIndex < s.offset + s.bins.size
    · rw [if_pos (by simpa using hin), if_pos hin]
      rfl
    · rw [if_neg (by simpa using hin), if_neg hin]
      cases hL : denseNewLength (min a s.minIndex) (max b s.maxIndex) with
      | none => rfl
      | some L =>
        rw [hL] at hf
        simp only [toRes_some, id, Res.bind_ok, Option.bind_some, Option.getD_some] at hf ⊢
        by_cases hgt : L > s.bins.size
        · rw [if_pos (by simpa using hgt), if_pos hgt]
          simp only [DStore.grow]
          rw [if_neg (by omega)]
          simp only [Option.bind_some]
          exact centerCounts_rel' fuel _ _ _ _ (by simp [toGen]) (by simp only [Array.size_append, Array.size_replicate]; omega)
        · rw [if_neg (by simpa using hgt), if_neg hgt]
          simp only [Option.bind_some]
          exact centerCounts_rel' fuel _ _ _ _ rfl (by omega)


/-- `normalize` (plain store) -/
theorem normalize_rel (fuel : Nat) (s : DStore) (i : Int) (hk : s.kind = .plain)
    (hf : extendFuel s i i ≤ fuel) :
    Gen.Dense.DenseStore.normalize fuel (toGen s) i
      = toRes (fun p : DStore × Int => (toGen p.1, p.2)) (s.normalize i) := by
  unfold Gen.Dense.DenseStore.normalize DStore.normalize
  simp only [hk]
  by_cases hc : i < s.minIndex ∨ i > s.maxIndex
  · have hc' : (decide (i < (toGen s).minIndex) || decide ((toGen s).maxIndex < i)) = true := by
      rw [Bool.or_eq_true, decide_eq_true_eq, decide_eq_true_eq]; exact hc
    rw [if_pos hc', if_pos hc, extendRange_rel fuel s i i hk hf]
    cases s.extendRange i i <;> rfl
  · have hc' : ¬ ((decide (i < (toGen s).minIndex) || decide ((toGen s).maxIndex < i)) = true) := by
      rw [Bool.or_eq_true, decide_eq_true_eq, decide_eq_true_eq]; exact hc
    rw [if_neg hc', if_neg hc]
    rfl

/-- `AddWithCount` (plain store) -/
theorem addWithCount_rel (fuel : Nat) (s : DStore) (i : Int) (c : Rat) (hk : s.kind = .plain)
    (hf : extendFuel s i i ≤ fuel) :
    Gen.Dense.DenseStore.AddWithCount fuel (toGen s) i c = toRes toGen (s.addWithCount i c) := by
  unfold Gen.Dense.DenseStore.AddWithCount DStore.addWithCount
  by_cases h0 : c = 0
  · rw [if_pos (by simpa using h0), if_pos h0]; rfl
  · rw [if_neg (by simpa using h0), if_neg h0, normalize_rel fuel s i hk hf]
    cases s.normalize i with
    | none => rfl
    | some p =>
      obtain ⟨t, ai⟩ := p
      simp only [toRes_some, Res.bind_ok, toGen_bins, addAt_toList, Option.bind_eq_bind, Option.bind_some]
      cases addAt t.bins ai c <;> rfl

/-- `Add` (plain store) -/
theorem add_rel (fuel : Nat) (s : DStore) (i : Int) (hk : s.kind = .plain)
    (hf : extendFuel s i i ≤ fuel) :
    Gen.Dense.DenseStore.Add fuel (toGen s) i = toRes toGen (s.addWithCount i 1) := by
  unfold Gen.Dense.DenseStore.Add
  rw [bind_ok_self, addWithCount_rel fuel s i 1 hk hf]

/-- `AddBin` (plain store) -/
theorem addBin_rel (fuel : Nat) (s : DStore) (bin : Gen.Dense.Bin) (hk : s.kind = .plain)
    (hf : extendFuel s bin.index bin.index ≤ fuel) :
    Gen.Dense.DenseStore.AddBin fuel (toGen s) bin = toRes toGen (s.addWithCount bin.index bin.count) := by
  unfold Gen.Dense.DenseStore.AddBin
  by_cases h0 : bin.count = 0
  · rw [if_pos (by simpa using h0)]
    unfold DStore.addWithCount
    rw [if_pos h0]; rfl
  · rw [if_neg (by simpa using h0), bind_ok_self, addWithCount_rel fuel s _ _ hk hf]


/-! ### `KeyAtRank` (a `range` loop: no fuel needed, never panics) -/

theorem keyAtRank_loop (s : DStore) (r : Rat) (l : List Rat) (i : Int) (n : Rat) :
    Loop.elim (Gen.Dense.DenseStore.KeyAtRank.loop1 r (toGen s) l i n) (fun _ => Res.ok s.maxIndex)
      = .ok (DStore.keyAtRank.go s r l i n) := by
  induction l generalizing i n with
  | nil => rfl
  | cons b rest ih =>
    unfold Gen.Dense.DenseStore.KeyAtRank.loop1 DStore.keyAtRank.go
    by_cases h : r < n + b
    · have h' : n + b > r := h
      simp only [h, decide_true, if_true, Loop.elim_ret, toGen_offset]
    · have h' : ¬ (n + b > r) := h
      simp only [h, decide_false, Bool.false_eq_true, if_false]
      exact ih (i + 1) (n + b)

/-- `KeyAtRank`: for every fuel the generated code returns the model's key -/
theorem keyAtRank_eq (fuel : Nat) (s : DStore) (r : Rat) :
    Gen.Dense.DenseStore.KeyAtRank fuel (toGen s) r = .ok (s.keyAtRank r) := by
  unfold Gen.Dense.DenseStore.KeyAtRank DStore.keyAtRank
  simp only [toGen_bins, toGen_maxIndex]
  by_cases h : r < 0
  · simp only [h, decide_true, if_true]
    exact keyAtRank_loop s 0 _ 0 0
  · simp only [h, decide_false, Bool.false_eq_true, if_false]
    exact keyAtRank_loop s r _ 0 0


/-! ### kinds are preserved by the model's bulk operations -/

theorem resetBins_kind (s t : DStore) (a b : Int) (h : s.resetBins a b = some t) : t.kind = s.kind := by
  unfold DStore.resetBins at h
  simp only at h
  split at h
  · cases h; rfl
  · split at h
    · cases h; rfl
    · cases h

theorem shiftCounts_kind (s t : DStore) (shift : Int) (h : s.shiftCounts shift = some t) :
    t.kind = s.kind := by
  unfold DStore.shiftCounts at h
  simp only at h
  split at h
  · cases h
  · simp only [Option.map_eq_some_iff] at h
    obtain ⟨u, hu, rfl⟩ := h
    split at hu
    · have := resetBins_kind _ u _ _ hu; exact this
    · have := resetBins_kind _ u _ _ hu; exact this

theorem centerCounts_kind (s t : DStore) (a b : Int) (h : s.centerCounts a b = some t) :
    t.kind = s.kind := by
  unfold DStore.centerCounts at h
  simp only [Option.bind_eq_bind, Option.bind_eq_some_iff] at h
  obtain ⟨u, hu, h2⟩ := h
  cases h2
  exact shiftCounts_kind s u _ hu

theorem extendRange_kind (s t : DStore) (a b : Int) (hk : s.kind = .plain)
    (h : s.extendRange a b = some t) : t.kind = .plain := by
  rw [extendRange_plain s hk] at h
  split at h
  · simp only [Option.bind_eq_some_iff] at h
    obtain ⟨L, _, u, hu, h3⟩ := h
    rw [centerCounts_kind _ _ _ _ h3]
    simp only
    rw [grow_kind s u L hu, hk]
  · split at h
    · cases h; exact hk
    · simp only [Option.bind_eq_some_iff] at h
      obtain ⟨L, _, u, hu, h3⟩ := h
      rw [centerCounts_kind _ _ _ _ h3]
      split at hu
      · rw [grow_kind s u _ hu, hk]
      · cases hu; exact hk

/-! ### `MergeWith` (same-type fast path) -/

theorem optL_comm {α β σ ρ : Type} (A : Option α) (B : Option β) (K : α → β → Loop σ ρ) :
    optL A (fun a => optL B (fun b => K a b)) = optL B (fun b => optL A (fun a => K a b)) := by
  cases A <;> cases B <;> rfl

/-- one step of the model's merge fold: `bins[j - off] += o.bins[j - o.offset]` -/
def mergeStep (o : DStore) (off : Int) (b : Array Rat) (j : Int) : Option (Array Rat) :=
  (rd o.bins (j - o.offset)).bind fun c => addAt b (j - off) c

/-- the merge loop: `n` indexes `idx, …, o.maxIndex` -/
theorem mergeWith_loop (o : DStore) (n : Nat) :
    ∀ (fuel : Nat) (s : DStore) (idx : Int), (o.maxIndex - idx + 1).toNat = n → n + 1 ≤ fuel →
      Gen.Dense.DenseStore.MergeWith.loop1 (toGen o) fuel (toGen s) idx =
        match (irange idx n).foldlM (mergeStep o s.offset) s.bins with
        | some b => .done (toGen { s with bins := b }, idx + n)
        | none => .panic := by
  induction n with
  | zero =>
    intro fuel s idx hn hf
    obtain ⟨f, rfl⟩ : ∃ f, fuel = f + 1 := ⟨fuel - 1, by omega⟩
    unfold Gen.Dense.DenseStore.MergeWith.loop1
    have hc : ¬ (idx ≤ o.maxIndex) := by omega
    simp only [toGen_maxIndex, hc, decide_false, Bool.false_eq_true, if_false, irange_zero,
      List.foldlM_nil, Option.pure_def, Int.natCast_zero, Int.add_zero]
  | succ n ih =>
    intro fuel s idx hn hf
    obtain ⟨f, rfl⟩ : ∃ f, fuel = f + 1 := ⟨fuel - 1, by omega⟩
    unfold Gen.Dense.DenseStore.MergeWith.loop1
    have hc : idx ≤ o.maxIndex := by omega
    simp only [toGen_maxIndex, toGen_offset, toGen_bins, toGen_count, toGen_minIndex, hc, decide_true,
      if_true, irange_succ_left, List.foldlM_cons]
    rw [optL_comm, idx_toList]
    unfold mergeStep
    cases hrd : rd o.bins (idx - o.offset) with
    | none => rfl
    | some c =>
      simp only [optL_some, Option.bind_eq_bind, Option.bind_some]
      rw [addAt_toList_L]
      cases hadd : addAt s.bins (idx - s.offset) c with
      | none => rfl
      | some b' =>
        simp only [Option.map_some, optL_some, Option.bind_some]
        rw [toGen_mk_bins, ih f { s with bins := b' } (idx + 1) (by omega) (by omega)]
        simp only [Int.natCast_add, Int.natCast_one]
        rw [show idx + 1 + (n : Int) = idx + ((n : Int) + 1) by omega]
        rfl


/-- fuel for `MergeWith`: the `extendRange` call and the loop over `[o.minIndex, o.maxIndex]` -/
def mergeFuel (s o : DStore) : Nat :=
  max (extendFuel s o.minIndex o.maxIndex) ((o.maxIndex - o.minIndex + 1).toNat + 1)

/-- the part of `MergeWith` after the range has been extended -/
theorem mergeWith_tail (fuel : Nat) (s o : DStore)
    (hf : (o.maxIndex - o.minIndex + 1).toNat + 1 ≤ fuel) :
    Loop.elim (Gen.Dense.DenseStore.MergeWith.loop1 (toGen o) fuel (toGen s) o.minIndex)
        (fun p => Res.ok ({ p.1 with count := p.1.count + o.count } : GS))
      = toRes toGen
          (((idxRange o.minIndex o.maxIndex).foldlM (mergeStep o s.offset) s.bins).bind fun b =>
            some { s with bins := b, count := s.count + o.count }) := by
  rw [mergeWith_loop o _ fuel s o.minIndex rfl hf, idxRange_eq]
  cases List.foldlM (mergeStep o s.offset) s.bins (irange o.minIndex (o.maxIndex - o.minIndex + 1).toNat) <;> rfl

/-- `MergeWith` of two plain dense stores (the fast path of `DenseStore.MergeWith`) -/
theorem mergeWith_rel (fuel : Nat) (s o : DStore) (hk : s.kind = .plain)
    (hf : mergeFuel s o ≤ fuel) :
    Gen.Dense.DenseStore.MergeWith fuel (toGen s) (toGen o) = toRes toGen (s.mergeSame o) := by
  unfold Gen.Dense.DenseStore.MergeWith DStore.mergeSame
  unfold mergeFuel at hf
  rw [isEmpty_eq]
  by_cases he : o.isEmpty = true
  · rw [if_pos he, if_pos he]; rfl
  · rw [if_neg he, if_neg he]
    by_cases hc : o.minIndex < s.minIndex ∨ o.maxIndex > s.maxIndex
    · have hc' : (decide ((toGen o).minIndex < (toGen s).minIndex) || decide ((toGen s).maxIndex < (toGen o).maxIndex)) = true := by
        rw [Bool.or_eq_true, decide_eq_true_eq, decide_eq_true_eq]; exact hc
      simp only [hc', if_true, hc]
      rw [show (toGen o).minIndex = o.minIndex from rfl, show (toGen o).maxIndex = o.maxIndex from rfl,
        extendRange_rel fuel s _ _ hk (by omega)]
      cases hx : s.extendRange o.minIndex o.maxIndex with
      | none => rfl
      | some s1 =>
        have hk1 := extendRange_kind s s1 _ _ hk hx
        simp only [toRes_some, Res.bind_ok, Option.bind_eq_bind, Option.bind_some, hk1]
        exact (mergeWith_tail fuel s1 o (by omega)).trans (by rw [hk1]; rfl)
    · have hc' : ¬ ((decide ((toGen o).minIndex < (toGen s).minIndex) || decide ((toGen s).maxIndex < (toGen o).maxIndex)) = true) := by
        rw [Bool.or_eq_true, decide_eq_true_eq, decide_eq_true_eq]; exact hc
      simp only [hc', if_false, hc, hk, Option.pure_def, Option.bind_eq_bind, Option.bind_some]
      exact (mergeWith_tail fuel s o (by omega)).trans (by rw [hk]; rfl)


/-! ### `Reweight` -/

/-- one step of the model's reweight fold: `bins[j - off] *= w` -/
def reweightStep (off : Int) (w : Rat) (b : Array Rat) (j : Int) : Option (Array Rat) :=
  (rd b (j - off)).bind fun c => setAt b (j - off) (c * w)

theorem mulAt_toList_L {σ ρ : Type} (a : Array Rat) (i : Int) (w : Rat) (k : List Rat → Loop σ ρ) :
    optL (GoSem.idx a.toList i) (fun t => optL (GoSem.set a.toList i (t * w)) k)
      = optL (((rd a i).bind fun c => setAt a i (c * w)).map Array.toList) k := by
  rw [idx_toList]
  cases rd a i with
  | none => rfl
  | some c => simp only [optL_some, set_toList, Option.bind_some]

/-- the reweight loop: `n` indexes `idx, …, s.maxIndex` -/
theorem reweight_loop (w : Rat) (n : Nat) :
    ∀ (fuel : Nat) (s : DStore) (idx : Int), (s.maxIndex - idx + 1).toNat = n → n + 1 ≤ fuel →
      Gen.Dense.DenseStore.Reweight.loop1 w fuel (toGen s) idx =
        match (irange idx n).foldlM (reweightStep s.offset w) s.bins with
        | some b => .done (toGen { s with bins := b }, idx + n)
        | none => .panic := by
  induction n with
  | zero =>
    intro fuel s idx hn hf
    obtain ⟨f, rfl⟩ : ∃ f, fuel = f + 1 := ⟨fuel - 1, by omega⟩
    unfold Gen.Dense.DenseStore.Reweight.loop1
    have hc : ¬ (idx ≤ s.maxIndex) := by omega
    simp only [toGen_maxIndex, hc, decide_false, Bool.false_eq_true, if_false, irange_zero,
      List.foldlM_nil, Option.pure_def, Int.natCast_zero, Int.add_zero]
  | succ n ih =>
    intro fuel s idx hn hf
    obtain ⟨f, rfl⟩ : ∃ f, fuel = f + 1 := ⟨fuel - 1, by omega⟩
    unfold Gen.Dense.DenseStore.Reweight.loop1
    have hc : idx ≤ s.maxIndex := by omega
    simp only [toGen_maxIndex, toGen_offset, toGen_bins, toGen_count, toGen_minIndex, hc, decide_true,
      if_true, irange_succ_left, List.foldlM_cons]
    rw [mulAt_toList_L]
    unfold reweightStep
    cases hst : (rd s.bins (idx - s.offset)).bind fun c => setAt s.bins (idx - s.offset) (c * w) with
    | none => rfl
    | some b' =>
      simp only [Option.map_some, optL_some, Option.bind_eq_bind, Option.bind_some]
      rw [toGen_mk_bins, ih f { s with bins := b' } (idx + 1) (by simp only; omega) (by omega)]
      simp only [Int.natCast_add, Int.natCast_one]
      rw [show idx + 1 + (n : Int) = idx + ((n : Int) + 1) by omega]
      rfl

/-- fuel for `Reweight`: the width of the window plus one -/
def reweightFuel (s : DStore) : Nat := (s.maxIndex - s.minIndex + 1).toNat + 1

/-- `Reweight`, guard 1: a non-positive factor is rejected with an error, store unchanged -/
theorem reweight_nonpos (fuel : Nat) (s : DStore) (w : Rat) (hw : w ≤ 0) :
    Gen.Dense.DenseStore.Reweight fuel (toGen s) w
      = .ok (toGen s, GoErr.named "can't reweight by a negative factor") := by
  unfold Gen.Dense.DenseStore.Reweight
  simp only [hw, decide_true, if_true]

/-- `Reweight`, guard 2: the factor 1 leaves the store unchanged -/
theorem reweight_one (fuel : Nat) (s : DStore) :
    Gen.Dense.DenseStore.Reweight fuel (toGen s) 1 = .ok (toGen s, GoErr.nil) := by
  unfold Gen.Dense.DenseStore.Reweight
  have h : ¬ ((1 : Rat) ≤ 0) := by decide
  simp only [h, decide_false, Bool.false_eq_true, if_false, beq_self_eq_true, if_true]

/-- `Reweight`, the loop: for `0 < w ≠ 1` the generated code is the model's `reweight` -/
theorem reweight_rel (fuel : Nat) (s : DStore) (w : Rat) (hw : 0 < w) (hw1 : w ≠ 1)
    (hf : reweightFuel s ≤ fuel) :
    Gen.Dense.DenseStore.Reweight fuel (toGen s) w
      = toRes (fun t => (toGen t, GoErr.nil)) (s.reweight w) := by
  unfold Gen.Dense.DenseStore.Reweight DStore.reweight
  unfold reweightFuel at hf
  have h : ¬ (w ≤ 0) := Rat.not_le.mpr hw
  have h1 : (w == 1) = false := by simpa using hw1
  simp only [h, decide_false, Bool.false_eq_true, if_false, h1, toGen_count, toGen_minIndex]
  change Loop.elim (Gen.Dense.DenseStore.Reweight.loop1 w fuel (toGen { s with count := s.count * w }) s.minIndex) _ = _
  rw [reweight_loop w _ fuel { s with count := s.count * w } s.minIndex rfl hf, idxRange_eq]
  change _ = toRes _ ((List.foldlM (reweightStep s.offset w) s.bins
    (irange s.minIndex (s.maxIndex - s.minIndex + 1).toNat)).bind _)
  cases List.foldlM (reweightStep s.offset w) s.bins (irange s.minIndex (s.maxIndex - s.minIndex + 1).toNat) <;> rfl


/-! ### `NewDenseStore` -/

theorem newDenseStore_eq' : Gen.Dense.NewDenseStore = toGen (DStore.new .plain) := newDenseStore_eq

/-! ### enough fuel exists (and more fuel never hurts): `∃ f0, ∀ fuel ≥ f0, …` -/

theorem adjust_ex (s : DStore) (a b : Int) (hk : s.kind = .plain) :
    ∃ f0, ∀ fuel, f0 ≤ fuel →
      Gen.Dense.DenseStore.adjust fuel (toGen s) a b = toRes toGen (s.adjust a b) :=
  ⟨_, fun fuel hf => adjust_rel fuel s a b hk hf⟩

theorem extendRange_ex (s : DStore) (a b : Int) (hk : s.kind = .plain) :
    ∃ f0, ∀ fuel, f0 ≤ fuel →
      Gen.Dense.DenseStore.extendRange fuel (toGen s) a b = toRes toGen (s.extendRange a b) :=
  ⟨_, fun fuel hf => extendRange_rel fuel s a b hk hf⟩

theorem normalize_ex (s : DStore) (i : Int) (hk : s.kind = .plain) :
    ∃ f0, ∀ fuel, f0 ≤ fuel →
      Gen.Dense.DenseStore.normalize fuel (toGen s) i
        = toRes (fun p : DStore × Int => (toGen p.1, p.2)) (s.normalize i) :=
  ⟨_, fun fuel hf => normalize_rel fuel s i hk hf⟩

theorem addWithCount_ex (s : DStore) (i : Int) (c : Rat) (hk : s.kind = .plain) :
    ∃ f0, ∀ fuel, f0 ≤ fuel →
      Gen.Dense.DenseStore.AddWithCount fuel (toGen s) i c = toRes toGen (s.addWithCount i c) :=
  ⟨_, fun fuel hf => addWithCount_rel fuel s i c hk hf⟩

theorem add_ex (s : DStore) (i : Int) (hk : s.kind = .plain) :
    ∃ f0, ∀ fuel, f0 ≤ fuel →
      Gen.Dense.DenseStore.Add fuel (toGen s) i = toRes toGen (s.addWithCount i 1) :=
  ⟨_, fun fuel hf => add_rel fuel s i hk hf⟩

theorem addBin_ex (s : DStore) (bin : Gen.Dense.Bin) (hk : s.kind = .plain) :
    ∃ f0, ∀ fuel, f0 ≤ fuel →
      Gen.Dense.DenseStore.AddBin fuel (toGen s) bin = toRes toGen (s.addWithCount bin.index bin.count) :=
  ⟨_, fun fuel hf => addBin_rel fuel s bin hk hf⟩

theorem mergeWith_ex (s o : DStore) (hk : s.kind = .plain) :
    ∃ f0, ∀ fuel, f0 ≤ fuel →
      Gen.Dense.DenseStore.MergeWith fuel (toGen s) (toGen o) = toRes toGen (s.mergeSame o) :=
  ⟨_, fun fuel hf => mergeWith_rel fuel s o hk hf⟩

theorem reweight_ex (s : DStore) (w : Rat) (hw : 0 < w) (hw1 : w ≠ 1) :
    ∃ f0, ∀ fuel, f0 ≤ fuel →
      Gen.Dense.DenseStore.Reweight fuel (toGen s) w
        = toRes (fun t => (toGen t, GoErr.nil)) (s.reweight w) :=
  ⟨_, fun fuel hf => reweight_rel fuel s w hw hw1 hf⟩

/-- the same statements through the relation `RRel` (model `some t` ⇒ `.ok (toGen t)`, model `none`
    ⇒ `.panic`) -/
theorem addWithCount_RRel (fuel : Nat) (s : DStore) (i : Int) (c : Rat) (hk : s.kind = .plain)
    (hf : extendFuel s i i ≤ fuel) :
    RRel toGen (s.addWithCount i c) (Gen.Dense.DenseStore.AddWithCount fuel (toGen s) i c) :=
  addWithCount_rel fuel s i c hk hf

theorem mergeWith_RRel (fuel : Nat) (s o : DStore) (hk : s.kind = .plain) (hf : mergeFuel s o ≤ fuel) :
    RRel toGen (s.mergeSame o) (Gen.Dense.DenseStore.MergeWith fuel (toGen s) (toGen o)) :=
  mergeWith_rel fuel s o hk hf

/-! ### histories of operations (`Dense.Op`: add / clear / reweight) on the generated code -/

theorem normalize_kind (s t : DStore) (i ai : Int) (hk : s.kind = .plain)
    (h : s.normalize i = some (t, ai)) : t.kind = .plain := by
  unfold DStore.normalize at h
  simp only [hk] at h
  split at h
  · simp only [Option.bind_eq_bind, Option.bind_eq_some_iff] at h
    obtain ⟨u, hu, h2⟩ := h
    simp only [Option.pure_def, Option.some.injEq, Prod.mk.injEq] at h2
    rw [← h2.1]
    exact extendRange_kind s u i i hk hu
  · cases h; exact hk

theorem addWithCount_kind (s t : DStore) (i : Int) (c : Rat) (hk : s.kind = .plain)
    (h : s.addWithCount i c = some t) : t.kind = .plain := by
  unfold DStore.addWithCount at h
  split at h
  · cases h; exact hk
  · simp only [Option.bind_eq_bind, Option.bind_eq_some_iff] at h
    obtain ⟨⟨u, ai⟩, hu, b, _, h3⟩ := h
    cases h3
    exact normalize_kind s u i ai hk hu

theorem reweight_kind (s t : DStore) (w : Rat) (h : s.reweight w = some t) : t.kind = s.kind := by
  unfold DStore.reweight at h
  simp only [Option.bind_eq_bind, Option.bind_eq_some_iff] at h
  obtain ⟨b, _, h2⟩ := h
  cases h2; rfl

theorem applyOp_kind (s t : DStore) (op : Op) (hk : s.kind = .plain) (h : applyOp s op = some t) :
    t.kind = .plain := by
  cases op with
  | add i w => exact addWithCount_kind s t i w hk h
  | clear => cases h; exact hk
  | reweight w =>
    simp only [applyOp] at h
    split at h
    · cases h; exact hk
    · rw [reweight_kind s t w h, hk]

/-- one operation on the generated store; `Reweight`'s error value is dropped (as `applyOp` does) -/
def genApplyOp (fuel : Nat) (g : GS) : Op → Res GS
  | .add i w => Gen.Dense.DenseStore.AddWithCount fuel g i w
  | .clear => Gen.Dense.DenseStore.Clear fuel g
  | .reweight w => (Gen.Dense.DenseStore.Reweight fuel g w).bind fun p => .ok p.1

/-- a history of operations on the generated store -/
def genRun (fuel : Nat) : List Op → GS → Res GS
  | [], g => .ok g
  | op :: ops, g => (genApplyOp fuel g op).bind (genRun fuel ops)

/-- fuel for one operation -/
def opFuel (s : DStore) : Op → Nat
  | .add i _ => extendFuel s i i
  | .clear => 0
  | .reweight _ => reweightFuel s

theorem genApplyOp_rel (fuel : Nat) (s : DStore) (op : Op) (hk : s.kind = .plain)
    (hf : opFuel s op ≤ fuel) :
    genApplyOp fuel (toGen s) op = toRes toGen (applyOp s op) := by
  cases op with
  | add i w => exact addWithCount_rel fuel s i w hk hf
  | clear => exact clear_rel fuel s
  | reweight w =>
    simp only [genApplyOp, applyOp]
    by_cases h0 : w ≤ 0
    · rw [reweight_nonpos fuel s w h0, if_pos (Or.inl h0)]; rfl
    · by_cases h1 : w = 1
      · subst h1
        rw [reweight_one, if_pos (Or.inr rfl)]; rfl
      · rw [if_neg (by intro h; cases h <;> contradiction),
          reweight_rel fuel s w (Rat.not_le.mp h0) h1 hf]
        cases s.reweight w <;> rfl

/-- a whole history: some fuel suffices for all its steps, and the generated run is the model run -/
theorem genRun_rel (ops : List Op) : ∀ (s : DStore), s.kind = .plain →
    ∃ f0, ∀ fuel, f0 ≤ fuel → genRun fuel ops (toGen s) = toRes toGen (ops.foldlM applyOp s) := by
  induction ops with
  | nil => intro s _; exact ⟨0, fun _ _ => rfl⟩
  | cons op ops ih =>
    intro s hk
    cases hop : applyOp s op with
    | none =>
      refine ⟨opFuel s op, fun fuel hf => ?_⟩
      simp only [genRun, genApplyOp_rel fuel s op hk hf, List.foldlM_cons, hop]
      rfl
    | some t =>
      obtain ⟨f1, h1⟩ := ih t (applyOp_kind s t op hk hop)
      refine ⟨max (opFuel s op) f1, fun fuel hf => ?_⟩
      simp only [genRun, genApplyOp_rel fuel s op hk (by omega), List.foldlM_cons, hop, toRes_some,
        Res.bind_ok, Option.bind_eq_bind, Option.bind_some]
      exact h1 fuel (by omega)

end DDS.GenDense
