/-
  DDS.Proofs.GenSketch6 — the REGENERATED `changeStoreMapping` / `DDSketch.ChangeMapping`
  (`DDS/Generated/CodeSketch.lean`, translated from `/repo/ddsketch/ddsketch.go:494-527` on every run)
  against the HAND-WRITTEN model `DDS/Model/ChangeMapping.lean` (`spreadBin`, `spreadStore`,
  `accumulate`, `changeMapping`).

  Everything up to `ChangeMapping_eq` is generic: ANY mapping type `M` (`[MapI M]`) whose `LowerBound` /
  `Index` are those of an oracle `MapEnv` (`MapAgrees`, reflexive for `M = MapEnv`), ANY store type `S`
  (`[StoreI S]`): the statements do not depend on what a store is, only on the sequence of
  `AddWithCount` calls it receives (`addAll`).

  FUEL.  The generated inner loop `changeStoreMapping.loop2` and the model's `spreadBin` both count
  loop iterations (one unit per evaluation of the loop condition that is TRUE, plus — in the generated
  code only — one unit for the final evaluation that is FALSE).  `exitIndex new inHigh f j` is the index
  at which the loop condition `newMapping.LowerBound(outIndex) < inHigherBound` first fails, started at
  `j`, if that happens within `f` evaluations.  Then (`cm_loop2_eq`, an EQUATION, no side condition)

      loop2 … f st j = match exitIndex new inHigh f j with
                        | some j' => .done (addAll st (spreadBin new inLow inHigh count f j), j')
                        | none    => .nofuel

  i.e. with the SAME number `f` on both sides: when the generated loop finishes, the model's
  `spreadBin … f …` lists exactly the `AddWithCount` calls made, in order; it finishes iff the
  condition fails at some `j + k`, `k < f` (`exitIndex_eq_some_iff`, `exitIndex_eq_none_iff`; minimal
  fuel `j' - j + 1`); more fuel changes nothing on either side (`exitIndex_mono`,
  `spreadBin_fuel_mono`).  When the generated loop runs out of fuel (`.nofuel`) the model's `spreadBin`
  silently stops after `f` bins: that is the one place the two differ, and it is not a behaviour of the
  Go code (no fuel there).

  No disagreement found between the generated code and the model: `math.Max/Min` (`GoSem.fmax/fmin`)
  are the model's `fmaxG/fminG` (definitionally), `inSize` is `inHigh - inLow` computed once per source
  bin (the model recomputes the same float expression per target bin), the `continue` branch advances
  `outIndex` in both, `proportion*count` is `F64.mul proportion count` in both, the bins are visited in
  `ForEach` order in both.

  Core Lean only.
-/
import DDS.Proofs.GenSketch2
import DDS.Model.ChangeMapping

namespace DDS.GenSketch

open DDS DDS.GoSem DDS.Gen.Sketch DDS.ChangeMapping

/-! ### vocabulary -/

/-- the store after a sequence of `AddWithCount(index, weight)` calls -/
def addAll {S : Type} [StoreI S] (st : S) (l : List (Int × F64)) : S :=
  l.foldl (fun st p => StoreI.AddWithCount st p.1 p.2) st

@[simp] theorem addAll_nil {S : Type} [StoreI S] (st : S) : addAll st [] = st := rfl
@[simp] theorem addAll_cons {S : Type} [StoreI S] (st : S) (p : Int × F64) (l : List (Int × F64)) :
    addAll st (p :: l) = addAll (StoreI.AddWithCount st p.1 p.2) l := rfl
theorem addAll_append {S : Type} [StoreI S] (st : S) (l t : List (Int × F64)) :
    addAll st (l ++ t) = addAll (addAll st l) t := by
  simp [addAll, List.foldl_append]

/-- a mapping object of any type `M` behaves like the oracle `e` on the two methods `changeStoreMapping` calls -/
structure MapAgrees {M : Type} [MapI M] (m : M) (e : MapEnv) : Prop where
  lb : ∀ i, MapI.LowerBound m i = e.lowerBound i
  idx : ∀ v, MapI.Index m v = e.index v

theorem MapAgrees.refl (e : MapEnv) : MapAgrees e e := ⟨fun _ => rfl, fun _ => rfl⟩

/-- Go's `math.Max` / `math.Min` as translated are the model's -/
theorem fmaxG_eq_fmax (a b : F64) : fmaxG a b = GoSem.fmax a b := rfl
theorem fminG_eq_fmin (a b : F64) : fminG a b = GoSem.fmin a b := rfl

/-- where the loop `for outIndex := j; newMapping.LowerBound(outIndex) < inHigh; outIndex++` exits, if it
    does within `f` evaluations of its condition -/
def exitIndex (new : MapEnv) (inHigh : F64) : Nat → Int → Option Int
  | 0, _ => none
  | f + 1, j => if F64.lt (new.lowerBound j) inHigh then exitIndex new inHigh f (j + 1) else some j

theorem exitIndex_eq_some_iff (new : MapEnv) (inHigh : F64) (f : Nat) (j j' : Int) :
    exitIndex new inHigh f j = some j' ↔
      j ≤ j' ∧ j' < j + f ∧ F64.lt (new.lowerBound j') inHigh = false ∧
      ∀ i, j ≤ i → i < j' → F64.lt (new.lowerBound i) inHigh = true := by
  induction f generalizing j with
  | zero =>
    simp only [exitIndex, reduceCtorEq, false_iff]
    intro ⟨h1, h2, _⟩
    omega
  | succ f ih =>
    unfold exitIndex
    by_cases hg : F64.lt (new.lowerBound j) inHigh = true
    · rw [if_pos hg, ih]
      constructor
      · rintro ⟨h1, h2, h3, h4⟩
        refine ⟨by omega, by omega, h3, ?_⟩
        intro i hi1 hi2
        by_cases hij : i = j
        · subst hij; exact hg
        · exact h4 i (by omega) hi2
      · rintro ⟨h1, h2, h3, h4⟩
        have hne : j ≠ j' := by
          intro e; subst e; rw [hg] at h3; cases h3
        exact ⟨by omega, by omega, h3, fun i hi1 hi2 => h4 i (by omega) hi2⟩
    · rw [if_neg hg]
      have hg' : F64.lt (new.lowerBound j) inHigh = false := by simpa using hg
      constructor
      · intro h
        cases h
        exact ⟨by omega, by omega, hg', fun i hi1 hi2 => by omega⟩
      · rintro ⟨h1, h2, h3, h4⟩
        by_cases hij : j = j'
        · rw [hij]
        · have := h4 j (by omega) (by omega)
          rw [hg'] at this; cases this

theorem exitIndex_eq_none_iff (new : MapEnv) (inHigh : F64) (f : Nat) (j : Int) :
    exitIndex new inHigh f j = none ↔
      ∀ i, j ≤ i → i < j + f → F64.lt (new.lowerBound i) inHigh = true := by
  induction f generalizing j with
  | zero =>
    simp only [exitIndex, true_iff]
    intro i h1 h2; omega
  | succ f ih =>
    unfold exitIndex
    by_cases hg : F64.lt (new.lowerBound j) inHigh = true
    · rw [if_pos hg, ih]
      constructor
      · intro h i hi1 hi2
        by_cases hij : i = j
        · subst hij; exact hg
        · exact h i (by omega) (by omega)
      · intro h i hi1 hi2
        exact h i (by omega) (by omega)
    · rw [if_neg hg]
      simp only [reduceCtorEq, false_iff]
      intro h
      exact hg (h j (by omega) (by omega))

/-- the loop exits as soon as the condition fails somewhere within the fuel -/
theorem exitIndex_isSome_of (new : MapEnv) (inHigh : F64) (f : Nat) (j : Int) (k : Nat) (hk : k < f)
    (hstop : F64.lt (new.lowerBound (j + k)) inHigh = false) :
    (exitIndex new inHigh f j).isSome = true := by
  cases h : exitIndex new inHigh f j with
  | some _ => rfl
  | none =>
    rw [exitIndex_eq_none_iff] at h
    have := h (j + k) (by omega) (by omega)
    rw [hstop] at this; cases this

/-- more fuel does not move the exit -/
theorem exitIndex_mono (new : MapEnv) (inHigh : F64) {f f' : Nat} {j j' : Int}
    (h : exitIndex new inHigh f j = some j') (hf : f ≤ f') : exitIndex new inHigh f' j = some j' := by
  rw [exitIndex_eq_some_iff] at h ⊢
  obtain ⟨h1, h2, h3, h4⟩ := h
  exact ⟨h1, by omega, h3, h4⟩

/-- the minimal fuel of the generated loop: one unit per visited bin, one for the failing test -/
theorem exitIndex_min_fuel (new : MapEnv) (inHigh : F64) {f : Nat} {j j' : Int}
    (h : exitIndex new inHigh f j = some j') : (j' - j).toNat + 1 ≤ f ∧
      exitIndex new inHigh ((j' - j).toNat + 1) j = some j' := by
  rw [exitIndex_eq_some_iff] at h ⊢
  obtain ⟨h1, h2, h3, h4⟩ := h
  exact ⟨by omega, h1, by omega, h3, h4⟩

/-- … and once the loop exits within `f`, the model's `spreadBin` does not depend on the fuel beyond `f` -/
theorem spreadBin_fuel_mono (new : MapEnv) (inLow inHigh count : F64) {f : Nat} {j j' : Int}
    (h : exitIndex new inHigh f j = some j') {f' : Nat} (hf : f ≤ f') :
    spreadBin new inLow inHigh count f' j = spreadBin new inLow inHigh count f j := by
  induction f generalizing j f' with
  | zero => simp [exitIndex] at h
  | succ f ih =>
    obtain ⟨g, rfl⟩ : ∃ g, f' = g + 1 := ⟨f' - 1, by omega⟩
    unfold exitIndex at h
    unfold spreadBin
    by_cases hg : F64.lt (new.lowerBound j) inHigh = true
    · rw [if_pos hg] at h
      have := ih h (f' := g) (by omega)
      simp only [hg, if_true, this]
    · simp only [hg]
      rfl

/-! ### the inner loop -/

/-- **the inner loop is `spreadBin`**, for any mapping and store types, all floats, same fuel on both sides -/
theorem cm_loop2_eq {M S : Type} [MapI M] [StoreI S] [Inhabited M] [Inhabited S] (newM : M) (new : MapEnv)
    (hnew : MapAgrees newM new) (inHigh inLow count : F64) (f : Nat) (st : S) (j : Int) :
    changeStoreMapping.loop2 (M := M) (S := S) newM inHigh inLow (F64.sub inHigh inLow) count f st j =
      match exitIndex new inHigh f j with
      | some j' => .done (addAll st (spreadBin new inLow inHigh count f j), j')
      | none => .nofuel := by
  induction f generalizing st j with
  | zero => rfl
  | succ f ih =>
    unfold changeStoreMapping.loop2 exitIndex spreadBin
    simp only [hnew.lb, fmaxG_eq_fmax, fminG_eq_fmin]
    by_cases hg : F64.lt (new.lowerBound j) inHigh = true
    · simp only [hg, if_true]
      by_cases hi : F64.le (F64.sub (GoSem.fmin (new.lowerBound (j + 1)) inHigh)
          (GoSem.fmax (new.lowerBound j) inLow)) (.fin 0) = true
      · simp only [hi, if_true]
        exact ih st (j + 1)
      · simp only [hi, Bool.false_eq_true, if_false]
        rw [ih]
        rfl
    · simp only [hg, Bool.false_eq_true, if_false]
      rfl

/-- if the generated loop finishes (`.done`) on fuel `f`, the model's `spreadBin … f …` lists exactly the
    contributions it added, and it stopped at the first index whose lower bound is not `< inHigh` -/
theorem loop2_done {M S : Type} [MapI M] [StoreI S] [Inhabited M] [Inhabited S] (newM : M) (new : MapEnv)
    (hnew : MapAgrees newM new) (inHigh inLow count : F64) (f : Nat) (st st' : S) (j j' : Int)
    (h : changeStoreMapping.loop2 (M := M) (S := S) newM inHigh inLow (F64.sub inHigh inLow) count f st j
      = .done (st', j')) :
    st' = addAll st (spreadBin new inLow inHigh count f j) ∧
    j ≤ j' ∧ j' < j + f ∧ F64.lt (new.lowerBound j') inHigh = false ∧
    (∀ i, j ≤ i → i < j' → F64.lt (new.lowerBound i) inHigh = true) ∧
    ∀ f', f ≤ f' → spreadBin new inLow inHigh count f' j = spreadBin new inLow inHigh count f j := by
  rw [cm_loop2_eq newM new hnew] at h
  cases he : exitIndex new inHigh f j with
  | none => rw [he] at h; cases h
  | some k =>
    rw [he] at h
    simp only [Loop.done.injEq, Prod.mk.injEq] at h
    obtain ⟨h1, h2⟩ := h
    subst h2
    have := (exitIndex_eq_some_iff new inHigh f j k).1 he
    exact ⟨h1.symm, this.1, this.2.1, this.2.2.1, this.2.2.2,
      fun f' hf => spreadBin_fuel_mono new inLow inHigh count he hf⟩

/-- the loop finishes iff the condition fails within the fuel; it never panics or returns -/
theorem loop2_finishes {M S : Type} [MapI M] [StoreI S] [Inhabited M] [Inhabited S] (newM : M) (new : MapEnv)
    (hnew : MapAgrees newM new) (inHigh inLow count : F64) (f : Nat) (st : S) (j : Int) (k : Nat) (hk : k < f)
    (hstop : F64.lt (new.lowerBound (j + k)) inHigh = false) :
    ∃ j', changeStoreMapping.loop2 (M := M) (S := S) newM inHigh inLow (F64.sub inHigh inLow) count f st j =
      .done (addAll st (spreadBin new inLow inHigh count f j), j') := by
  rw [cm_loop2_eq newM new hnew]
  have := exitIndex_isSome_of new inHigh f j k hk hstop
  cases he : exitIndex new inHigh f j with
  | none => rw [he] at this; cases this
  | some j' => exact ⟨j', rfl⟩

theorem loop2_nofuel {M S : Type} [MapI M] [StoreI S] [Inhabited M] [Inhabited S] (newM : M) (new : MapEnv)
    (hnew : MapAgrees newM new) (inHigh inLow count : F64) (f : Nat) (st : S) (j : Int)
    (hrun : ∀ i, j ≤ i → i < j + f → F64.lt (new.lowerBound i) inHigh = true) :
    changeStoreMapping.loop2 (M := M) (S := S) newM inHigh inLow (F64.sub inHigh inLow) count f st j = .nofuel := by
  rw [cm_loop2_eq newM new hnew, (exitIndex_eq_none_iff new inHigh f j).2 hrun]

/-! ### one store -/

/-- `spreadStore` for float counts (what `ForEach` hands to the callback): the model's `spreadStore` is the
    case of finite counts (`spreadStoreF_fin`) -/
def spreadStoreF (old new : MapEnv) (scale : F64) (bins : List (Int × F64)) (fuel : Nat) : List (Int × F64) :=
  bins.flatMap fun (index, count) =>
    let inLow := F64.mul (old.lowerBound index) scale
    let inHigh := F64.mul (old.lowerBound (index + 1)) scale
    spreadBin new inLow inHigh count fuel (new.index inLow)

theorem spreadStoreF_fin (old new : MapEnv) (scale : F64) (bins : List (Int × Rat)) (fuel : Nat) :
    spreadStoreF old new scale (bins.map fun p => (p.1, F64.fin p.2)) fuel = spreadStore old new scale bins fuel := by
  simp only [spreadStoreF, spreadStore, List.flatMap_map]

/-- every inner loop started for a source bin of `idxs` exits within `fuel` -/
def allExit (old new : MapEnv) (scale : F64) (fuel : Nat) (idxs : List Int) : Bool :=
  idxs.all fun index =>
    (exitIndex new (F64.mul (old.lowerBound (index + 1)) scale) fuel
      (new.index (F64.mul (old.lowerBound index) scale))).isSome

/-- sufficient: `fuel` exceeds the number of target bins below each scaled source bin's upper bound -/
theorem allExit_of (old new : MapEnv) (scale : F64) (fuel : Nat) (idxs : List Int)
    (h : ∀ index ∈ idxs, ∃ k : Nat, k < fuel ∧
      F64.lt (new.lowerBound (new.index (F64.mul (old.lowerBound index) scale) + k))
        (F64.mul (old.lowerBound (index + 1)) scale) = false) :
    allExit old new scale fuel idxs = true := by
  simp only [allExit, List.all_eq_true]
  intro index hmem
  obtain ⟨k, hk, hs⟩ := h index hmem
  exact exitIndex_isSome_of new _ fuel _ k hk hs

/-- the outer loop (over the `ForEach` list): an equation -/
theorem cm_loop1_eq {M S : Type} [MapI M] [StoreI S] [Inhabited M] [Inhabited S] (oldM newM : M)
    (old new : MapEnv) (hold : MapAgrees oldM old) (hnew : MapAgrees newM new) (scale : F64) (fuel : Nat)
    (bins : List (Int × F64)) (st : S) :
    changeStoreMapping.loop1 (M := M) (S := S) fuel oldM scale newM bins st =
      if allExit old new scale fuel (bins.map (·.1)) then
        .done (addAll st (spreadStoreF old new scale bins fuel))
      else .nofuel := by
  induction bins generalizing st with
  | nil => rfl
  | cons b rest ih =>
    obtain ⟨index, count⟩ := b
    unfold changeStoreMapping.loop1
    simp only [hold.lb, hnew.idx]
    rw [cm_loop2_eq newM new hnew]
    simp only [allExit, List.map_cons, List.all_cons]
    cases he : exitIndex new (F64.mul (old.lowerBound (index + 1)) scale) fuel
        (new.index (F64.mul (old.lowerBound index) scale)) with
    | none => simp [Loop.elimL]
    | some j' =>
      simp only [Loop.elimL, Option.isSome_some, Bool.true_and]
      rw [ih]
      simp only [allExit, spreadStoreF, List.flatMap_cons, addAll_append]
      rfl

/-- **`changeStoreMapping`** for any mapping and store types: the target store receives exactly the model's
    contributions, in order, when no inner loop runs out of fuel; otherwise the outcome is `nofuel` -/
theorem changeStoreMapping_eq {M S : Type} [MapI M] [StoreI S] [Inhabited M] [Inhabited S] (oldM newM : M)
    (old new : MapEnv) (hold : MapAgrees oldM old) (hnew : MapAgrees newM new) (scale : F64) (fuel : Nat)
    (oldStore newStore : S) :
    changeStoreMapping fuel oldM newM oldStore newStore scale =
      if allExit old new scale fuel ((StoreI.ForEachList oldStore).map (·.1)) then
        .ok (addAll newStore (spreadStoreF old new scale (StoreI.ForEachList oldStore) fuel))
      else .nofuel := by
  unfold changeStoreMapping
  rw [cm_loop1_eq oldM newM old new hold hnew]
  split <;> rfl

/-- … specialised to the model's stores: the source store's bins `bins`, any target store -/
theorem changeStoreMapping_model (old new : MapEnv) (scale : F64) (fuel : Nat) (oldStore newStore : Store)
    (bins : List (Int × Rat)) (hb : oldStore.binsList = some bins)
    (hex : allExit old new scale fuel (bins.map (·.1)) = true) :
    changeStoreMapping fuel old new oldStore newStore scale =
      .ok ((spreadStore old new scale bins fuel).foldl (fun st p => StoreI.AddWithCount st p.1 p.2) newStore) := by
  rw [changeStoreMapping_eq old new old new (MapAgrees.refl old) (MapAgrees.refl new)]
  have hl : StoreI.ForEachList oldStore = bins.map fun p => (p.1, F64.fin p.2) := by
    show (oldStore.binsList.getD []).map _ = _
    rw [hb]; rfl
  rw [hl, spreadStoreF_fin]
  have : (bins.map fun p => (p.1, F64.fin p.2)).map (·.1) = bins.map (·.1) := by
    simp [List.map_map, Function.comp_def]
  rw [this, hex]
  rfl

/-- the other outcome: some inner loop does not exit within `fuel`; the generated code reports `nofuel`
    (the model's `spreadStore` silently truncates that bin's contributions after `fuel` target bins) -/
theorem changeStoreMapping_model_nofuel (old new : MapEnv) (scale : F64) (fuel : Nat) (oldStore newStore : Store)
    (bins : List (Int × Rat)) (hb : oldStore.binsList = some bins)
    (hex : allExit old new scale fuel (bins.map (·.1)) = false) :
    changeStoreMapping fuel old new oldStore newStore scale = .nofuel := by
  rw [changeStoreMapping_eq old new old new (MapAgrees.refl old) (MapAgrees.refl new)]
  have hl : StoreI.ForEachList oldStore = bins.map fun p => (p.1, F64.fin p.2) := by
    show (oldStore.binsList.getD []).map _ = _
    rw [hb]; rfl
  have : (bins.map fun p => (p.1, F64.fin p.2)).map (·.1) = bins.map (·.1) := by
    simp [List.map_map, Function.comp_def]
  rw [hl, this, hex]
  rfl

/-! ### sparse targets: `AddWithCount` of finite weights is `Content.add` -/

/-- `Wire.contentOf` from any starting content -/
def contentFrom (c : Content) (l : List (Int × F64)) : Option Content :=
  l.foldlM (fun (acc : Content) p =>
    match p.2 with
    | .fin w => some (acc.add p.1 w)
    | _ => none) c

theorem accumulate_eq_contentFrom (l : List (Int × F64)) : accumulate l = contentFrom [] l := rfl

/-- a sparse target that receives finite contributions holds their exact accumulation -/
theorem addAll_sparse (c c' : Content) (l : List (Int × F64)) (h : contentFrom c l = some c') :
    addAll (Store.sp c) l = Store.sp c' := by
  induction l generalizing c with
  | nil =>
    simp only [contentFrom, List.foldlM_nil, Option.pure_def, Option.some.injEq] at h
    subst h; rfl
  | cons p rest ih =>
    obtain ⟨i, w⟩ := p
    simp only [contentFrom, List.foldlM_cons, Option.bind_eq_bind] at h
    cases w with
    | fin q =>
      simp only [Option.bind_some] at h
      rw [addAll_cons]
      have : StoreI.AddWithCount (Store.sp c) i (F64.fin q) = Store.sp (c.add i q) := by
        simp [storeAddF, Sketch.addF, Store.addWithCount]
      rw [this]
      exact ih (c.add i q) h
    | _ => simp at h

theorem addAll_sparse_empty (c' : Content) (l : List (Int × F64)) (h : accumulate l = some c') :
    addAll (Store.sp []) l = Store.sp c' :=
  addAll_sparse [] c' l h

/-! ### the whole sketch -/

/-- **`DDSketch.ChangeMapping`** for any mapping and store types: an equation.  Identity shortcut: the two
    target stores untouched and a `Copy` of the receiver.  Otherwise both sides are re-binned into the
    targets, and the new sketch carries the NEW mapping object, the two targets and the receiver's zero
    count; `nofuel` iff an inner loop does not exit. -/
theorem ChangeMapping_eq {M S : Type} [MapI M] [StoreI S] [Inhabited M] [Inhabited S] (g : DDSketch M S)
    (newM : M) (old new : MapEnv) (hold : MapAgrees g.IndexMapping old) (hnew : MapAgrees newM new)
    (scale : F64) (fuel : Nat) (pos neg : S) :
    DDSketch.ChangeMapping fuel g newM pos neg scale =
      if (F64.eq scale (.fin 1) && MapI.Equals g.IndexMapping newM) = true then
        .ok (pos, neg, DDSketch.Copy g)
      else if (allExit old new scale fuel ((StoreI.ForEachList g.positiveValueStore).map (·.1)) &&
          allExit old new scale fuel ((StoreI.ForEachList g.negativeValueStore).map (·.1))) = true then
        let pos' := addAll pos (spreadStoreF old new scale (StoreI.ForEachList g.positiveValueStore) fuel)
        let neg' := addAll neg (spreadStoreF old new scale (StoreI.ForEachList g.negativeValueStore) fuel)
        .ok (pos', neg', { IndexMapping := newM, positiveValueStore := pos', negativeValueStore := neg',
                           zeroCount := g.zeroCount })
      else .nofuel := by
  unfold DDSketch.ChangeMapping
  by_cases hid : (F64.eq scale (.fin 1) && MapI.Equals g.IndexMapping newM) = true
  · rw [if_pos hid, if_pos hid]
  · rw [if_neg hid, if_neg hid]
    rw [changeStoreMapping_eq g.IndexMapping newM old new hold hnew,
      changeStoreMapping_eq g.IndexMapping newM old new hold hnew]
    by_cases hp : allExit old new scale fuel ((StoreI.ForEachList g.positiveValueStore).map (·.1)) = true
    · by_cases hn : allExit old new scale fuel ((StoreI.ForEachList g.negativeValueStore).map (·.1)) = true
      · simp only [hp, hn, if_true, Res.bind_ok, Bool.and_self, NewDDSketch]
      · simp only [hp, hn, if_true, Res.bind_ok, Bool.and_false, Bool.false_eq_true, if_false,
          Res.bind_nofuel]
    · simp only [hp, Bool.false_eq_true, if_false, Res.bind_nofuel, Bool.false_and]

/-- the identity shortcut, generated code AND model: with scale exactly 1 and an `Equals` mapping both
    return (a copy of) the receiver; the generated code leaves the two target stores untouched -/
theorem ChangeMapping_identity (old new : MapEnv) (s : Sketch) (scale : F64) (fuel : Nat) (pos neg : Store)
    (hs : F64.eq scale F64.one = true) (hm : old.id.equals new.id = true) :
    DDSketch.ChangeMapping fuel (toGen old s) new pos neg scale = .ok (pos, neg, toGen old s) ∧
    changeMapping old new s scale fuel = some s := by
  constructor
  · rw [ChangeMapping_eq (toGen old s) new old new (MapAgrees.refl old) (MapAgrees.refl new)]
    have : (F64.eq scale (.fin 1) && MapI.Equals (toGen old s).IndexMapping new) = true := by
      show (F64.eq scale F64.one && old.id.equals new.id) = true
      rw [hs, hm]; rfl
    rw [if_pos this]
    rfl
  · simp [changeMapping, hs, hm]

/-- the general path on the model's stores, ANY two target stores: new mapping, zero count kept, the
    targets have received exactly `spreadStore`'s contributions of the two sides -/
theorem ChangeMapping_general (old new : MapEnv) (s : Sketch) (scale : F64) (fuel : Nat) (pos neg : Store)
    (p n : List (Int × Rat)) (hp : s.pos.binsList = some p) (hn : s.neg.binsList = some n)
    (hne : (F64.eq scale F64.one && old.id.equals new.id) = false)
    (hexp : allExit old new scale fuel (p.map (·.1)) = true)
    (hexn : allExit old new scale fuel (n.map (·.1)) = true) :
    DDSketch.ChangeMapping fuel (toGen old s) new pos neg scale =
      .ok (addAll pos (spreadStore old new scale p fuel), addAll neg (spreadStore old new scale n fuel),
        toGen new { mapping := some new.id, pos := addAll pos (spreadStore old new scale p fuel),
                    neg := addAll neg (spreadStore old new scale n fuel), zero := s.zero }) := by
  unfold DDSketch.ChangeMapping
  have hid : (F64.eq scale (.fin 1) && MapI.Equals (toGen old s).IndexMapping new) = false := hne
  rw [hid]
  simp only [Bool.false_eq_true, if_false, toGen_mapping, toGen_pos, toGen_neg]
  rw [changeStoreMapping_model old new scale fuel s.pos pos p hp hexp,
    changeStoreMapping_model old new scale fuel s.neg neg n hn hexn]
  rfl

/-- **generated `ChangeMapping` vs the model's `changeMapping`**, general path, EMPTY SPARSE targets (the
    model abstracts the targets as the contents they end up holding): whenever the model answers `some t`
    and no inner loop runs out of fuel, the generated code returns `t`'s two stores and the sketch `t` on
    the new mapping object. -/
theorem ChangeMapping_rel (old new : MapEnv) (s t : Sketch) (scale : F64) (fuel : Nat)
    (p n : List (Int × Rat)) (hp : s.pos.binsList = some p) (hn : s.neg.binsList = some n)
    (hne : (F64.eq scale F64.one && old.id.equals new.id) = false)
    (hexp : allExit old new scale fuel (p.map (·.1)) = true)
    (hexn : allExit old new scale fuel (n.map (·.1)) = true)
    (hm : changeMapping old new s scale fuel = some t) :
    DDSketch.ChangeMapping fuel (toGen old s) new (Store.sp []) (Store.sp []) scale =
      .ok (t.pos, t.neg, toGen new t) := by
  rw [ChangeMapping_general old new s scale fuel _ _ p n hp hn hne hexp hexn]
  unfold changeMapping at hm
  rw [hne] at hm
  simp only [Bool.false_eq_true, if_false, hp, hn, Option.bind_eq_bind, Option.bind_some,
    Option.pure_def] at hm
  cases hcp : accumulate (spreadStore old new scale p fuel) with
  | none => simp [hcp] at hm
  | some cp =>
    cases hcn : accumulate (spreadStore old new scale n fuel) with
    | none => simp [hcp, hcn] at hm
    | some cn =>
      simp only [hcp, hcn, Option.bind_some, Option.some.injEq] at hm
      subst hm
      rw [addAll_sparse_empty cp _ hcp, addAll_sparse_empty cn _ hcn]

/-- the result read back as a model sketch -/
theorem ChangeMapping_rel_ofGen (old new : MapEnv) (s t : Sketch) (scale : F64) (fuel : Nat)
    (p n : List (Int × Rat)) (hp : s.pos.binsList = some p) (hn : s.neg.binsList = some n)
    (hne : (F64.eq scale F64.one && old.id.equals new.id) = false)
    (hexp : allExit old new scale fuel (p.map (·.1)) = true)
    (hexn : allExit old new scale fuel (n.map (·.1)) = true)
    (hm : changeMapping old new s scale fuel = some t) :
    ∃ r, DDSketch.ChangeMapping fuel (toGen old s) new (Store.sp []) (Store.sp []) scale = .ok r ∧
      ofGen r.2.2 = t ∧ r.1 = t.pos ∧ r.2.1 = t.neg := by
  refine ⟨_, ChangeMapping_rel old new s t scale fuel p n hp hn hne hexp hexn hm, ?_, rfl, rfl⟩
  apply ofGen_toGen
  have := hm
  unfold changeMapping at this
  rw [hne] at this
  simp only [Bool.false_eq_true, if_false, hp, hn, Option.bind_eq_bind, Option.bind_some,
    Option.pure_def] at this
  cases hcp : accumulate (spreadStore old new scale p fuel) with
  | none => simp [hcp] at this
  | some cp =>
    cases hcn : accumulate (spreadStore old new scale n fuel) with
    | none => simp [hcp, hcn] at this
    | some cn =>
      simp only [hcp, hcn, Option.bind_some, Option.some.injEq] at this
      subst this
      rfl

/-- running out of fuel on the general path: the generated code says so; the model does not notice -/
theorem ChangeMapping_nofuel (old new : MapEnv) (s : Sketch) (scale : F64) (fuel : Nat) (pos neg : Store)
    (p n : List (Int × Rat)) (hp : s.pos.binsList = some p) (hn : s.neg.binsList = some n)
    (hne : (F64.eq scale F64.one && old.id.equals new.id) = false)
    (hex : (allExit old new scale fuel (p.map (·.1)) && allExit old new scale fuel (n.map (·.1))) = false) :
    DDSketch.ChangeMapping fuel (toGen old s) new pos neg scale = .nofuel := by
  unfold DDSketch.ChangeMapping
  have hid : (F64.eq scale (.fin 1) && MapI.Equals (toGen old s).IndexMapping new) = false := hne
  rw [hid]
  simp only [Bool.false_eq_true, if_false, toGen_mapping, toGen_pos, toGen_neg]
  by_cases hexp : allExit old new scale fuel (p.map (·.1)) = true
  · have hexn : allExit old new scale fuel (n.map (·.1)) = false := by
      rw [hexp] at hex; simpa using hex
    rw [changeStoreMapping_model old new scale fuel s.pos pos p hp hexp,
      changeStoreMapping_model_nofuel old new scale fuel s.neg _ n hn hexn]
    rfl
  · have hexp' : allExit old new scale fuel (p.map (·.1)) = false := by simpa using hexp
    rw [changeStoreMapping_model_nofuel old new scale fuel s.pos pos p hp hexp']
    rfl

end DDS.GenSketch
