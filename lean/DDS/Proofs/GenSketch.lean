/-
  DDS.Proofs.GenSketch — the REGENERATED sketch-level code (`DDS/Generated/CodeSketch.lean`,
  translated from `/repo/ddsketch/ddsketch.go` on every run: `DDSketch` and
  `DDSketchWithExactSummaryStatistics`, generic over the Go interfaces `mapping.IndexMapping` and
  `store.Store`) equals the HAND-WRITTEN model `DDS.Sketch` / `DDS.XSketch`
  (`DDS/Model/Sketch.lean`), method by method, for all inputs.

  How the two are tied together
  * `instance : MapI MapEnv`   — the interface `mapping.IndexMapping` is implemented by the model's
    mapping oracle `MapEnv`, field by field; `Equals a b := a.id.equals b.id` (the model's
    `MapId.equals`, i.e. what `Sketch.mappingEquals` computes on `some a.id`, `some b.id`).
  * `instance : StoreI Store`  — the interface `store.Store` is implemented by the model's stores.
    The model's store operations return `Option` (`none` = the Go code would panic); the class
    methods must be total, so a panicking operation falls back to the unchanged receiver
    (`.getD st`).  Every equivalence below that goes through such a method is stated against the
    model's result: where the model says `none` (panic / outside the model) NOTHING is claimed about
    the generated code, where it says `some …` the generated code returns exactly that.  The
    no-panic side is what the refinement theorems (`DDS/Proofs/Lift.lean`: `good_add`, `good_merge`,
    `good_reweight`) discharge.
      - `MaxIndex` / `MinIndex` of an empty store: index `0` with `errUndefinedMaxIndex` /
        `errUndefinedMinIndex` (store.go:29-30; every Go store returns `0, err…`);
      - `Reweight w`: error ≠ nil exactly when `w ≤ 0` (IEEE; the three Go stores test `w <= 0`).
  * `toGen env s` — the generated structure for the model sketch `s` with mapping object `env`;
    `ofGen` goes back (`mapping := some env.id`).  `toGenX` / `ofGenX` for the exact-summary variant
    (through `GenStat.ofModel` / `GenStat.toModel`).
  * results: `QRel` (value, error) and `StepRel` / `XStepRel` (new receiver, error) relate the
    model's `Except SkErr …` / `Option (Except SkErr …)` to Go's pairs.  `goErr?` gives the Go error
    value of each API refusal of the model.  `StepRel` INCLUDES THE FRAME CONDITION: on a refusal
    the returned receiver is the old one, unchanged.

  THIS FILE: the instances, the two structures and the result relations.  The method-by-method
  theorems (`AddWithCount_rel`, `GetValueAtQuantile_rel`, `MergeWith_rel`, `Reweight_rel`, …,
  `XAddWithCount_rel`, …) are in `DDS/Proofs/GenSketch2.lean`; property-level corollaries on the
  generated code in `DDS/Props/GenSketchProps.lean`.

  ERROR IDENTITY of `GetMaxValue` / `GetMinValue` on an empty sketch: the Go code hands back the
  store's `errUndefinedMinIndex`, not `errEmptySketch`; the model has the single refusal `.empty`.
  `GenSketch2.ExtRel` therefore names the store's error (values and nil-ness agree with `QRel`).

  DISCREPANCY found (model artefact, see `exact_addWithCount_zero_discrepancy`): the model's
  `XSketch.addWithCount` with a zero count returns the receiver unchanged, whereas the Go code has
  already run the plain `AddWithCount(value, 0)`, which executes `zeroCount += 0` for a value in
  the zero bucket.  On a real float64 `z + 0 = z`; the model's `F64` also contains rationals that
  are not on the binary64 grid, and for those `z + 0` rounds.  The exact-variant theorem is stated
  under `F64.add zero 0 = zero` (true for every float64).

  Core Lean only.
-/
import DDS.Generated.CodeSketch
import DDS.Proofs.GenStat
import DDS.Proofs.SketchDefs

namespace DDS.GenSketch

open DDS DDS.GoSem DDS.Gen.Sketch

/-! ### Go error values -/

/-- `errUndefinedMinIndex` (store/store.go:29) -/
def errUndefinedMinIndex : GoErr := GoErr.named "MinIndex of empty store is undefined"
/-- `errUndefinedMaxIndex` (store/store.go:30) -/
def errUndefinedMaxIndex : GoErr := GoErr.named "MaxIndex of empty store is undefined"
/-- the error of the three stores' `Reweight` (dense_store.go:266, sparse.go:165,
    buffered_paginated.go:580) -/
def errStoreReweight : GoErr := GoErr.named "can't reweight by a negative factor"
/-- `GetValueAtQuantile` (ddsketch.go:168) -/
def errBadQuantile : GoErr := GoErr.named "The quantile must be between 0 and 1."
/-- `MergeWith` (ddsketch.go:308) -/
def errMismatch : GoErr := GoErr.named "Cannot merge sketches with different index mappings."
/-- `Reweight` (ddsketch.go:531) -/
def errReweight : GoErr := GoErr.named "can't reweight by a negative factor"
/-- `NewDDSketchWithExactSummaryStatisticsFromData` (ddsketch.go:576) -/
def errStatsMismatch : GoErr := GoErr.named "sketch and summary statistics do not match"

/-- the Go error value of each API refusal of the model (`none`: a decoding error, not produced by
    any method of this file) -/
def goErr? : SkErr → Option GoErr
  | .negativeCount => some ErrNegativeCount
  | .tooHigh => some ErrUntrackableTooHigh
  | .tooLow => some ErrUntrackableTooLow
  | .nan => some ErrUntrackableNaN
  | .badQuantile => some errBadQuantile
  | .empty => some errEmptySketch
  | .mismatch => some errMismatch
  | .nonPositiveFactor => some errReweight
  | _ => none

theorem goErr?_ne_nil {e : SkErr} {g : GoErr} (h : goErr? e = some g) : g ≠ GoErr.nil := by
  cases e <;> simp [goErr?] at h <;> subst h <;> decide

/-! ### the mapping interface, implemented by the oracle -/

instance : Inhabited MapEnv :=
  ⟨{ id := default, minIndexable := default, maxIndexable := default, relAcc := default,
     value := fun _ => default, lowerBound := fun _ => default, index := fun _ => default }⟩

/-- Go error values of `mapping.Decode` and of the constructors it calls -/
def errUnknownMapping : GoErr := GoErr.named "unknown mapping"
def errBadGamma : GoErr := GoErr.named "Gamma must be greater than 1."

/-- `mapping.Decode` through the model: the two little-endian floats after a mapping flag and `MapId.ofBlock`
    (the oracle functions of the resulting `MapEnv` are defaults: only its identity is decoded) -/
def mapDecode (b : List (BitVec 8)) (flag : Gen.Encoding.Flag) : List (BitVec 8) × MapEnv × GoErr :=
  let sub := Wire.flagSub flag.byte.toNat
  let known := sub = Consts.subFlagIndexMappingBaseLogarithmic ∨ sub = Consts.subFlagIndexMappingBaseLinear ∨
    sub = Consts.subFlagIndexMappingBaseCubic
  if ¬ known then (b, default, errUnknownMapping)
  else match Codec.decF64LE (b.map BitVec.toNat) with
    | .error _ => (b, default, GoErr.eof)
    | .ok (g, bs1) =>
      match Codec.decF64LE bs1 with
      | .error _ => (bs1.map (BitVec.ofNat 8), default, GoErr.eof)
      | .ok (o, bs2) =>
        match MapId.ofBlock sub g o with
        | .ok id => (bs2.map (BitVec.ofNat 8), { (default : MapEnv) with id := id }, GoErr.nil)
        | .error .unknownMapping => (bs2.map (BitVec.ofNat 8), default, errUnknownMapping)
        | .error .gammaTooSmall => (bs2.map (BitVec.ofNat 8), default, errBadGamma)

instance : MapI MapEnv where
  Equals a b := a.id.equals b.id
  Index e := e.index
  Value e := e.value
  LowerBound e := e.lowerBound
  RelativeAccuracy e := e.relAcc
  MinIndexableValue e := e.minIndexable
  MaxIndexableValue e := e.maxIndexable
  Encode e b := b ++ (Wire.encBlock e.id.toBlock).map (BitVec.ofNat 8)
  isNil _ := false
  Decode := mapDecode

@[simp] theorem map_equals (a b : MapEnv) : MapI.Equals a b = a.id.equals b.id := rfl
@[simp] theorem map_index (e : MapEnv) (v : F64) : MapI.Index e v = e.index v := rfl
@[simp] theorem map_value (e : MapEnv) (i : Int) : MapI.Value e i = e.value i := rfl
@[simp] theorem map_lowerBound (e : MapEnv) (i : Int) : MapI.LowerBound e i = e.lowerBound i := rfl
@[simp] theorem map_relAcc (e : MapEnv) : MapI.RelativeAccuracy e = e.relAcc := rfl
@[simp] theorem map_min (e : MapEnv) : MapI.MinIndexableValue e = e.minIndexable := rfl
@[simp] theorem map_max (e : MapEnv) : MapI.MaxIndexableValue e = e.maxIndexable := rfl

/-- the instance's `Equals` is the model's comparison of the two mapping identities -/
theorem map_equals_mappingEquals (a b : MapEnv) :
    MapI.Equals a b = Sketch.mappingEquals (some a.id) (some b.id) := rfl

/-! ### the store interface, implemented by the model's stores -/

/-- `AddWithCount(i, c)` with a float count; falls back to the receiver where the model panics or
    the count is not finite -/
def storeAddF (st : Store) (i : Int) (c : F64) : Store := (Sketch.addF st i c).getD st

def storeMaxIndex (st : Store) : Int × GoErr :=
  match st.maxIndex? with
  | some k => (k, GoErr.nil)
  | none => (0, errUndefinedMaxIndex)

def storeMinIndex (st : Store) : Int × GoErr :=
  match st.minIndex? with
  | some k => (k, GoErr.nil)
  | none => (0, errUndefinedMinIndex)

/-- `Reweight(w)`: refused exactly when `w <= 0`; otherwise the model's result (receiver unchanged
    where the model panics or the factor is not finite) -/
def storeReweight (st : Store) (w : F64) : Store × GoErr :=
  if F64.le w (.fin 0) then (st, errStoreReweight)
  else match w with
    | .fin q =>
      match st.reweight q with
      | some (.ok t) => (t, GoErr.nil)
      | _ => (st, GoErr.nil)
    | _ => (st, GoErr.nil)

/-- the side a store flag type stands for -/
def flagSide (t : Gen.Encoding.FlagType) : Side :=
  if t == Gen.Encoding.FlagTypePositiveStore then .pos else .neg

/-- `Store.Encode` through the model's `Sketch.encodeStore` (blocks) and `Wire.encBlocks` (bytes); a panicking
    model operation leaves store and buffer unchanged (nothing is claimed there) -/
def storeEncode (st : Store) (b : List (BitVec 8)) (t : Gen.Encoding.FlagType) : Store × List (BitVec 8) :=
  match Sketch.encodeStore st (flagSide t) with
  | some (st', blocks) => (st', b ++ (Wire.encBlocks blocks).map (BitVec.ofNat 8))
  | none => (st, b)

/-- the Go error value of each decoding error of the model (`io.EOF`, the store's "unknown bin encoding",
    `errUnknownFlag` of the plain fallback, the errors of `mapping.Decode` and of the constructors it calls,
    the two `errors.New` of `decodeAndMergeWith`) -/
def decErr : SkErr → GoErr
  | .eof => GoErr.eof
  | .unknownBinEncoding => GoErr.named "unknown bin encoding"
  | .unknownFlag => errUnknownFlag
  | .unknownMapping => errUnknownMapping
  | .badGamma => errBadGamma
  | .mismatch => GoErr.named "index mapping mismatch"
  | .missingMapping => GoErr.named "missing index mapping"
  | _ => GoErr.named "decoding error"

/-- `Store.DecodeAndMergeWith` through the model's `Sketch.decodeStore`; on an error the store has absorbed
    the bins read so far in Go, which the model does not expose: the instance returns the unchanged store (the
    sketch-level decoder returns as soon as it sees the error).  The `SubFlag` the sketch decoder hands over is
    `flag.SubFlag()`, which keeps the sub-flag bits IN PLACE (`flag & 0xFC`); the model's `decodeStore` takes
    the sub-flag number `Wire.flagSub` (shifted down). -/
def storeDecode (st : Store) (b : List (BitVec 8)) (sub : Gen.Encoding.SubFlag) : Store × List (BitVec 8) × GoErr :=
  match Sketch.decodeStore st (Wire.flagSub sub.byte.toNat) (b.map BitVec.toNat) with
  | some (.ok (st', rest)) => (st', rest.map (BitVec.ofNat 8), GoErr.nil)
  | some (.error e) => (st, b, decErr e)
  | none => (st, b, GoErr.nil)

instance : StoreI Store where
  Add st i := (st.addWithCount i 1).getD st
  AddWithCount := storeAddF
  Copy st := st
  Clear st := st.clear
  IsEmpty st := st.isEmpty
  MaxIndex := storeMaxIndex
  MinIndex := storeMinIndex
  TotalCount st := .fin st.totalCount
  KeyAtRank := Sketch.storeKeyAtRank
  MergeWith st o := (st.mergeWith o).getD st
  Reweight := storeReweight
  Encode := storeEncode
  DecodeAndMergeWith := storeDecode
  ForEachList st := (st.binsList.getD []).map (fun p => (p.1, F64.fin p.2))

@[simp] theorem store_add (st : Store) (i : Int) : StoreI.Add st i = (st.addWithCount i 1).getD st := rfl
@[simp] theorem store_addWithCount (st : Store) (i : Int) (c : F64) :
    StoreI.AddWithCount st i c = storeAddF st i c := rfl
@[simp] theorem store_copy (st : Store) : StoreI.Copy st = st := rfl
@[simp] theorem store_clear (st : Store) : StoreI.Clear st = st.clear := rfl
@[simp] theorem store_isEmpty (st : Store) : StoreI.IsEmpty st = st.isEmpty := rfl
@[simp] theorem store_maxIndex (st : Store) : StoreI.MaxIndex st = storeMaxIndex st := rfl
@[simp] theorem store_minIndex (st : Store) : StoreI.MinIndex st = storeMinIndex st := rfl
@[simp] theorem store_totalCount (st : Store) : StoreI.TotalCount st = .fin st.totalCount := rfl
@[simp] theorem store_keyAtRank (st : Store) (r : F64) :
    StoreI.KeyAtRank st r = Sketch.storeKeyAtRank st r := rfl
@[simp] theorem store_mergeWith (st o : Store) : StoreI.MergeWith st o = (st.mergeWith o).getD st := rfl
@[simp] theorem store_reweight (st : Store) (w : F64) : StoreI.Reweight st w = storeReweight st w := rfl

/-! #### the instance is the model wherever the model does not panic -/

theorem store_addWithCount_some (st st' : Store) (i : Int) (w : Rat)
    (h : st.addWithCount i w = some st') : StoreI.AddWithCount st i (.fin w) = st' := by
  simp [storeAddF, Sketch.addF, h]

theorem store_addF_some (st st' : Store) (i : Int) (c : F64)
    (h : Sketch.addF st i c = some st') : StoreI.AddWithCount st i c = st' := by
  simp [storeAddF, h]

theorem store_add_some (st st' : Store) (i : Int)
    (h : st.addWithCount i 1 = some st') : StoreI.Add st i = st' := by
  simp [h]

theorem store_mergeWith_some (st o st' : Store) (h : st.mergeWith o = some st') :
    StoreI.MergeWith st o = st' := by
  simp [h]

theorem store_maxIndex_some (st : Store) (k : Int) (h : st.maxIndex? = some k) :
    StoreI.MaxIndex st = (k, GoErr.nil) := by
  simp [storeMaxIndex, h]

theorem store_maxIndex_none (st : Store) (h : st.maxIndex? = none) :
    StoreI.MaxIndex st = (0, errUndefinedMaxIndex) := by
  simp [storeMaxIndex, h]

theorem store_minIndex_some (st : Store) (k : Int) (h : st.minIndex? = some k) :
    StoreI.MinIndex st = (k, GoErr.nil) := by
  simp [storeMinIndex, h]

theorem store_minIndex_none (st : Store) (h : st.minIndex? = none) :
    StoreI.MinIndex st = (0, errUndefinedMinIndex) := by
  simp [storeMinIndex, h]

/-- error ≠ nil exactly when the model returns `none` -/
theorem store_maxIndex_err_iff (st : Store) :
    (StoreI.MaxIndex st).2 ≠ GoErr.nil ↔ st.maxIndex? = none := by
  cases h : st.maxIndex? <;> simp [storeMaxIndex, h, errUndefinedMaxIndex]

theorem store_minIndex_err_iff (st : Store) :
    (StoreI.MinIndex st).2 ≠ GoErr.nil ↔ st.minIndex? = none := by
  cases h : st.minIndex? <;> simp [storeMinIndex, h, errUndefinedMinIndex]

/-- `le (.fin q) 0` is `q ≤ 0` -/
theorem le_fin_zero (q : Rat) : F64.le (.fin q) (.fin 0) = decide (q ≤ 0) := by
  by_cases h : q ≤ 0
  · have : q < 0 ∨ q = 0 := by grind
    rcases this with h1 | h1 <;> simp [F64.le, F64.lt, F64.eq, h, h1]
  · have h1 : ¬ q < 0 := by grind
    have h2 : ¬ q = 0 := by grind
    simp [F64.le, F64.lt, F64.eq, h, h1, h2]

/-- error ≠ nil exactly when the factor is `≤ 0` (IEEE) -/
theorem store_reweight_err_iff (st : Store) (w : F64) :
    (StoreI.Reweight st w).2 ≠ GoErr.nil ↔ F64.le w (.fin 0) = true := by
  simp only [store_reweight, storeReweight]
  by_cases h : F64.le w (.fin 0) = true
  · simp [h, errStoreReweight]
  · simp only [h, Bool.false_eq_true, if_false, iff_false, ne_eq, Classical.not_not]
    cases w with
    | fin q =>
      simp only []
      cases hr : st.reweight q with
      | none => rfl
      | some r => cases r <;> rfl
    | _ => rfl

/-- a refused `Reweight` leaves the store unchanged -/
theorem store_reweight_refused (st : Store) (w : F64) (h : F64.le w (.fin 0) = true) :
    StoreI.Reweight st w = (st, errStoreReweight) := by
  simp [storeReweight, h]

/-- the model's refusal is the instance's refusal -/
theorem store_reweight_error (st : Store) (q : Rat) (e : Store.RwErr)
    (h : st.reweight q = some (.error e)) : StoreI.Reweight st (.fin q) = (st, errStoreReweight) := by
  apply store_reweight_refused
  rw [le_fin_zero]
  unfold Store.reweight at h
  by_cases h0 : q ≤ 0
  · simp [h0]
  · rw [if_neg h0] at h
    split at h
    · cases h
    · cases st with
      | d s => cases hr : DStore.reweight s q <;> simp [hr] at h
      | sp c => simp at h
      | pg s => cases hr : PStore.reweight s q <;> simp [hr] at h

/-- the model's accepted `Reweight` is the instance's -/
theorem store_reweight_ok (st t : Store) (q : Rat) (h : st.reweight q = some (.ok t)) :
    StoreI.Reweight st (.fin q) = (t, GoErr.nil) := by
  have h0 : ¬ q ≤ 0 := by
    intro h0
    simp [Store.reweight, h0] at h
  simp [storeReweight, le_fin_zero, h0, h]

/-! ### the two structures -/

/-- the generated `DDSketch` of a model sketch, with the mapping object `env` -/
def toGen (env : MapEnv) (s : Sketch) : DDSketch MapEnv Store :=
  { IndexMapping := env, positiveValueStore := s.pos, negativeValueStore := s.neg, zeroCount := s.zero }

/-- … and back: the identity of the mapping object is the sketch's mapping -/
def ofGen (g : DDSketch MapEnv Store) : Sketch :=
  { mapping := some g.IndexMapping.id, pos := g.positiveValueStore, neg := g.negativeValueStore,
    zero := g.zeroCount }

@[simp] theorem toGen_ofGen (g : DDSketch MapEnv Store) : toGen g.IndexMapping (ofGen g) = g := rfl

theorem ofGen_toGen (env : MapEnv) (s : Sketch) (h : s.mapping = some env.id) :
    ofGen (toGen env s) = s := by
  cases s; simp only [ofGen, toGen] at *; simp [h]

@[simp] theorem ofGen_mapping (g : DDSketch MapEnv Store) : (ofGen g).mapping = some g.IndexMapping.id := rfl
@[simp] theorem toGen_mapping (env : MapEnv) (s : Sketch) : (toGen env s).IndexMapping = env := rfl
@[simp] theorem toGen_pos (env : MapEnv) (s : Sketch) : (toGen env s).positiveValueStore = s.pos := rfl
@[simp] theorem toGen_neg (env : MapEnv) (s : Sketch) : (toGen env s).negativeValueStore = s.neg := rfl
@[simp] theorem toGen_zero (env : MapEnv) (s : Sketch) : (toGen env s).zeroCount = s.zero := rfl

theorem toGen_injective (env : MapEnv) (s s' : Sketch) (hm : s.mapping = s'.mapping)
    (h : toGen env s = toGen env s') : s = s' := by
  cases s; cases s'
  simp only [toGen, DDSketch.mk.injEq] at h
  simp only [] at hm
  simp [h, hm]

/-- the generated exact-summary sketch of a model `XSketch` -/
def toGenX (env : MapEnv) (x : XSketch) : DDSketchWithExactSummaryStatistics MapEnv Store :=
  { DDSketch := toGen env x.sk, summaryStatistics := GenStat.ofModel x.st }

def ofGenX (g : DDSketchWithExactSummaryStatistics MapEnv Store) : XSketch :=
  { sk := ofGen g.DDSketch, st := GenStat.toModel g.summaryStatistics }

@[simp] theorem toGenX_ofGenX (g : DDSketchWithExactSummaryStatistics MapEnv Store) :
    toGenX g.DDSketch.IndexMapping (ofGenX g) = g := rfl

theorem ofGenX_toGenX (env : MapEnv) (x : XSketch) (h : x.sk.mapping = some env.id) :
    ofGenX (toGenX env x) = x := by
  cases x with | mk sk st =>
  simp only [ofGenX, toGenX, GenStat.toModel_ofModel]
  rw [ofGen_toGen env sk h]

@[simp] theorem toGenX_sk (env : MapEnv) (x : XSketch) : (toGenX env x).DDSketch = toGen env x.sk := rfl
@[simp] theorem toGenX_st (env : MapEnv) (x : XSketch) :
    (toGenX env x).summaryStatistics = GenStat.ofModel x.st := rfl

/-! ### result relations -/

/-- model `Except SkErr F64` vs Go `(float64, error)`: a value comes with a nil error; a refusal
    comes with NaN and the documented error -/
def QRel : Except SkErr F64 → F64 × GoErr → Prop
  | .ok v, r => r = (v, GoErr.nil)
  | .error e, r => r.1 = F64.nan ∧ goErr? e = some r.2

/-- model `Option (Except SkErr Sketch)` vs Go (new receiver, error), for a call on `toGen env s`:
    `none` (panic / outside the model): nothing claimed; a refusal: THE RECEIVER IS UNCHANGED and the
    error is the documented one; success: the new receiver is the model's, error nil -/
def StepRel (env : MapEnv) (s : Sketch) :
    Option (Except SkErr Sketch) → DDSketch MapEnv Store × GoErr → Prop
  | none, _ => True
  | some (.error e), r => r.1 = toGen env s ∧ goErr? e = some r.2
  | some (.ok s'), r => r = (toGen env s', GoErr.nil)

/-- the same for the exact-summary variant -/
def XStepRel (env : MapEnv) (x : XSketch) :
    Option (Except SkErr XSketch) → DDSketchWithExactSummaryStatistics MapEnv Store × GoErr → Prop
  | none, _ => True
  | some (.error e), r => r.1 = toGenX env x ∧ goErr? e = some r.2
  | some (.ok x'), r => r = (toGenX env x', GoErr.nil)

theorem QRel.ok {m : Except SkErr F64} {r : F64 × GoErr} {v : F64} (h : QRel m r) (hm : m = .ok v) :
    r = (v, GoErr.nil) := by subst hm; exact h

theorem QRel.error {m : Except SkErr F64} {r : F64 × GoErr} {e : SkErr} (h : QRel m r)
    (hm : m = .error e) : ∃ g, goErr? e = some g ∧ r = (F64.nan, g) := by
  subst hm; exact ⟨r.2, h.2, Prod.ext h.1 rfl⟩

/-- the Go error is nil exactly when the model answers a value -/
theorem QRel.nil_iff {m : Except SkErr F64} {r : F64 × GoErr} (h : QRel m r) :
    r.2 = GoErr.nil ↔ ∃ v, m = .ok v := by
  cases m with
  | ok v => simp only [QRel] at h; subst h; simp
  | error e => simp only [QRel] at h; simp only [reduceCtorEq, exists_false, iff_false]; exact goErr?_ne_nil h.2

theorem StepRel.ok {env : MapEnv} {s s' : Sketch} {m : Option (Except SkErr Sketch)}
    {r : DDSketch MapEnv Store × GoErr} (h : StepRel env s m r) (hm : m = some (.ok s')) :
    r = (toGen env s', GoErr.nil) := by subst hm; exact h

/-- refusal: the documented error AND the receiver unchanged -/
theorem StepRel.error {env : MapEnv} {s : Sketch} {e : SkErr} {m : Option (Except SkErr Sketch)}
    {r : DDSketch MapEnv Store × GoErr} (h : StepRel env s m r) (hm : m = some (.error e)) :
    ∃ g, goErr? e = some g ∧ r = (toGen env s, g) := by
  subst hm; exact ⟨r.2, h.2, Prod.ext h.1 rfl⟩

theorem XStepRel.ok {env : MapEnv} {x x' : XSketch} {m : Option (Except SkErr XSketch)}
    {r : DDSketchWithExactSummaryStatistics MapEnv Store × GoErr} (h : XStepRel env x m r)
    (hm : m = some (.ok x')) : r = (toGenX env x', GoErr.nil) := by subst hm; exact h

theorem XStepRel.error {env : MapEnv} {x : XSketch} {e : SkErr} {m : Option (Except SkErr XSketch)}
    {r : DDSketchWithExactSummaryStatistics MapEnv Store × GoErr} (h : XStepRel env x m r)
    (hm : m = some (.error e)) : ∃ g, goErr? e = some g ∧ r = (toGenX env x, g) := by
  subst hm; exact ⟨r.2, h.2, Prod.ext h.1 rfl⟩

end DDS.GenSketch
