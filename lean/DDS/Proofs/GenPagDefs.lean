/-
  DDS.Proofs.GenPagDefs — shared vocabulary for the equivalence between the REGENERATED buffered-paginated
  store (`DDS/Generated/CodePaginated.lean`, translated on every run from
  `/repo/ddsketch/store/buffered_paginated.go` through the desugaring pre-pass of `hx trans`, DESIGN §4.2c)
  and the HAND-WRITTEN model `DDS.PStore` (`DDS/Model/Paginated.lean`).

  * `toGen s cap` embeds a model store into the generated structure; `cap` is the capacity of the Go
    buffer, hidden state of the runtime that the generated code tracks in the shadow field `bufferCap`
    and the hand model replaces by an input bit of `addUnit` (`doCompact = (len(buffer) == cap(buffer))`).
  * `Rel g s`: `g` is `toGen s cap` for some capacity.
  * `ROk r m` relates a generated result with the model's `Option`: `none` (Go would panic) ↔ `.panic`,
    `some s'` ↔ `.ok g'` with `Rel g' s'`.  In particular the generated code never runs out of fuel when the
    stated fuel bound holds.
  * the `…Spec` propositions are the INTERFACES between the proof files (`GenPagBase`, `GenPagAdd`,
    `GenPagRead`, `GenPagIter`, `GenPagCodec`), so that they can be developed independently: a file
    that needs `page`/`compact`/`Add` takes the corresponding `Spec` as a hypothesis; `GenPaginated.lean`
    instantiates them.
-/
import DDS.Generated.CodePaginated
import DDS.Model.Paginated
import DDS.Proofs.GenDenseBase

namespace DDS.GenPag

open DDS DDS.GoSem DDS.GenDense

/-- the generated structure -/
abbrev GP := DDS.Gen.Paginated.BufferedPaginatedStore

/-- pages of the model as the generated code holds them -/
def pagesL (s : PStore) : List (List Rat) := s.pages.toList.map Array.toList

/-- model store ↦ generated store with buffer capacity `cap` -/
def toGen (s : PStore) (cap : Int) : GP :=
  { buffer := s.buffer, bufferCap := cap, bufferCompactionTriggerLen := (s.trigger : Int),
    pages := pagesL s, minPageIndex := s.minPageIndex,
    pageLenLog2 := (s.pageLenLog2 : Int), pageLenMask := (2 : Int) ^ s.pageLenLog2 - 1 }

/-- generated store ↦ model store (forgets the capacity; meaningful when trigger and log2 are non-negative and
    the mask is `2^log2 - 1`) -/
def ofGen (g : GP) : PStore :=
  { buffer := g.buffer, trigger := g.bufferCompactionTriggerLen.toNat,
    pages := (g.pages.map List.toArray).toArray, minPageIndex := g.minPageIndex,
    pageLenLog2 := g.pageLenLog2.toNat }

@[simp] theorem toGen_buffer (s : PStore) (c : Int) : (toGen s c).buffer = s.buffer := rfl
@[simp] theorem toGen_bufferCap (s : PStore) (c : Int) : (toGen s c).bufferCap = c := rfl
@[simp] theorem toGen_trigger (s : PStore) (c : Int) : (toGen s c).bufferCompactionTriggerLen = (s.trigger : Int) := rfl
@[simp] theorem toGen_pages (s : PStore) (c : Int) : (toGen s c).pages = pagesL s := rfl
@[simp] theorem toGen_minPageIndex (s : PStore) (c : Int) : (toGen s c).minPageIndex = s.minPageIndex := rfl
@[simp] theorem toGen_pageLenLog2 (s : PStore) (c : Int) : (toGen s c).pageLenLog2 = (s.pageLenLog2 : Int) := rfl
@[simp] theorem toGen_pageLenMask (s : PStore) (c : Int) : (toGen s c).pageLenMask = (2 : Int) ^ s.pageLenLog2 - 1 := rfl

/-- `g` is the image of the model store `s` (for some buffer capacity) -/
def Rel (g : GP) (s : PStore) : Prop := ∃ cap : Int, g = toGen s cap

theorem rel_toGen (s : PStore) (cap : Int) : Rel (toGen s cap) s := ⟨cap, rfl⟩

/-- result of a generated mutator vs. the model's `Option` -/
def ROk (r : Res GP) (m : Option PStore) : Prop :=
  match m with
  | none => r = .panic
  | some s' => ∃ g', r = .ok g' ∧ Rel g' s'

/-- the page a slot answer of the model denotes in the generated code (`none` ↦ nil) -/
def pageOf (s : PStore) (k? : Option Nat) : List Rat :=
  match k? with
  | none => []
  | some k => (s.pages.getD k #[]).toList

/-- fuel that `page` needs: its only loop clears the `addedLen ≤ minPageIndex - p + 8` new slots of a left extension -/
def pageFuel (s : PStore) (p : Int) : Nat :=
  if s.minPageIndex = maxInt ∨ s.minPageIndex ≤ p then 1 else (s.minPageIndex - p + 9).toNat + 1

/-- INTERFACE: `page` (the capacity is untouched) -/
def PageSpec : Prop :=
  ∀ (s : PStore) (cap : Int) (p : Int) (e : Bool) (fuel : Nat), pageFuel s p ≤ fuel →
    Gen.Paginated.BufferedPaginatedStore.page fuel (toGen s cap) p e
      = toRes (fun (r : PStore × Option Nat) => (toGen r.1 cap, pageOf r.1 r.2)) (s.page p e)

/-- INTERFACE: `compact` for some fuel bound `cf s` (the proof file defines the bound) -/
def CompactSpec (cf : PStore → Nat) : Prop :=
  ∀ (s : PStore) (cap : Int) (fuel : Nat), cf s ≤ fuel →
    Gen.Paginated.BufferedPaginatedStore.compact fuel (toGen s cap)
      = toRes (fun (s' : PStore) => toGen s' cap) s.compact

/-- INTERFACE: `Add`; the model's compaction bit is `len(buffer) == cap(buffer)` -/
def AddSpec (af : PStore → Int → Nat) : Prop :=
  ∀ (s : PStore) (cap : Int) (grow : Int → Int → Int) (i : Int) (fuel : Nat), af s i ≤ fuel →
    ROk (Gen.Paginated.BufferedPaginatedStore.Add fuel grow (toGen s cap) i)
        (s.addUnit i (decide ((s.buffer.length : Int) = cap)))

/-- INTERFACE: `AddWithCount` -/
def AddWithCountSpec (af : PStore → Int → Nat) : Prop :=
  ∀ (s : PStore) (cap : Int) (grow : Int → Int → Int) (i : Int) (c : Rat) (fuel : Nat), af s i ≤ fuel →
    ROk (Gen.Paginated.BufferedPaginatedStore.AddWithCount fuel grow (toGen s cap) i c)
        (s.addWithCount i c (decide ((s.buffer.length : Int) = cap)))

end DDS.GenPag
