/-
  DDS.Proofs.MapId — helper lemmas about the identity of an index mapping (`MapId`): its two
  serialized forms (mapping block of the binary format, `IndexMapping` protobuf message) and
  the tolerance comparison `MapId.equals`.
-/
import DDS.Proofs.Num
import DDS.Proofs.Codec
import DDS.Model.Proto

namespace DDS
namespace MapId
open F64

/-! ### bit patterns -/

theorem ofNat_toBits (x : F64) : UInt64.ofNat x.toBits.toNat = x.toBits := UInt64.ofNat_toNat

theorem toBits_lt (x : F64) : x.toBits.toNat < W64 := x.toBits.toNat_lt

/-! ### kinds and sub-flags -/

theorem subFlag_le (k : MKind) : subFlag k ≤ 4 := by cases k <;> decide

theorem kind_of_subFlag (k : MKind) :
    (if subFlag k = Consts.subFlagIndexMappingBaseLogarithmic then some MKind.log
      else if subFlag k = Consts.subFlagIndexMappingBaseLinear then some MKind.linear
      else if subFlag k = Consts.subFlagIndexMappingBaseCubic then some MKind.cubic
      else none) = some k := by
  cases k <;> decide

theorem kind_of_interpolation (k : MKind) :
    (if Proto.interpolationOf k = 0 then some MKind.log
      else if Proto.interpolationOf k = 1 then some MKind.linear
      else if Proto.interpolationOf k = 3 then some MKind.cubic else none) = some k := by
  cases k <;> decide

/-! ### the mapping block of the binary format (self-contained: `DDS.Proofs.Wire` is not imported,
    so that this file can be used together with the `SpecSketch` family of modules) -/

theorem flag_mk' (t s : Nat) (ht : t < 2 ^ Consts.numBitsForType) :
    Wire.flagType (Wire.mkFlag t s) = t ∧ Wire.flagSub (Wire.mkFlag t s) = s := by
  unfold Wire.flagType Wire.flagSub Wire.mkFlag
  generalize 2 ^ Consts.numBitsForType = m at *
  constructor
  · rw [Nat.add_mul_mod_self_right, Nat.mod_eq_of_lt ht]
  · rw [Nat.add_mul_div_right _ _ (by omega), Nat.div_eq_of_lt ht, Nat.zero_add]

/-- one step of `parseBlock` on a mapping flag, on opaque bytes -/
theorem parseBlock_mapping_of (f : Nat) (bs bs1 bs2 : Bytes) (g o : Nat)
    (ht : Wire.flagType f = Consts.flagTypeIndexMapping) (hs : Wire.flagSub f ≤ 4)
    (h1 : Codec.decF64LE bs = .ok (g, bs1)) (h2 : Codec.decF64LE bs1 = .ok (o, bs2)) :
    Wire.parseBlock (f :: bs) = .ok (.mapping (Wire.flagSub f) g o, bs2) := by
  simp only [Wire.parseBlock, ht, if_pos hs, if_true,
    if_neg (show ¬ Consts.flagTypeIndexMapping = Consts.flagTypePositiveStore by decide),
    if_neg (show ¬ Consts.flagTypeIndexMapping = Consts.flagTypeNegativeStore by decide)]
  rw [h1]
  show (Wire.liftDec (Codec.decF64LE bs1) >>= _) = _
  rw [h2]
  rfl

theorem parseBlock_encBlock_mapping (sub g o : Nat) (hs : sub ≤ 4) (hg : g < W64) (ho : o < W64)
    (rest : Bytes) :
    Wire.parseBlock (Wire.encBlock (.mapping sub g o) ++ rest) = .ok (.mapping sub g o, rest) := by
  obtain ⟨h1, h2⟩ := flag_mk' Consts.flagTypeIndexMapping sub (by decide)
  have e : Wire.encBlock (.mapping sub g o) ++ rest =
      Wire.mkFlag Consts.flagTypeIndexMapping sub ::
        (Codec.encF64LE g ++ (Codec.encF64LE o ++ rest)) := by
    simp [Wire.encBlock]
  rw [e, parseBlock_mapping_of _ _ _ rest g o h1 (by rw [h2]; exact hs)
    (Codec.decF64LE_encF64LE g hg _) (Codec.decF64LE_encF64LE o ho rest), h2]

/-! ### `ofBlock` -/

theorem ofBlock_toBlock (m : MapId)
    (hg : F64.ofBits (F64.toBits m.gamma) = m.gamma)
    (ho : F64.ofBits (F64.toBits m.indexOffset) = m.indexOffset)
    (h1 : F64.le m.gamma (.fin 1) = false) :
    ofBlock (subFlag m.kind) m.gamma.toBits.toNat m.indexOffset.toBits.toNat = .ok m := by
  unfold ofBlock
  simp only [kind_of_subFlag, ofNat_toBits, hg, ho, h1]
  rfl

theorem ofBlock_unknown (sub g o : Nat)
    (h0 : sub ≠ 0) (h1 : sub ≠ 1) (h3 : sub ≠ 3) : ofBlock sub g o = .error .unknownMapping := by
  unfold ofBlock
  have e0 : Consts.subFlagIndexMappingBaseLogarithmic = 0 := rfl
  have e1 : Consts.subFlagIndexMappingBaseLinear = 1 := rfl
  have e3 : Consts.subFlagIndexMappingBaseCubic = 3 := rfl
  simp only [e0, e1, e3, if_neg h0, if_neg h1, if_neg h3]

theorem ofBlock_gamma_le_one (sub g o : Nat) (hs : sub = 0 ∨ sub = 1 ∨ sub = 3)
    (hg : F64.le (F64.ofBits (UInt64.ofNat g)) (.fin 1) = true) :
    ofBlock sub g o = .error .gammaTooSmall := by
  unfold ofBlock
  have e0 : Consts.subFlagIndexMappingBaseLogarithmic = 0 := rfl
  have e1 : Consts.subFlagIndexMappingBaseLinear = 1 := rfl
  have e3 : Consts.subFlagIndexMappingBaseCubic = 3 := rfl
  rcases hs with h | h | h <;> subst h <;> simp [e0, e1, e3, hg]

/-! ### the protobuf form -/

theorem mappingFromProto_mappingToProto (m : MapId)
    (hg : F64.ofBits (F64.toBits m.gamma) = m.gamma)
    (ho : F64.ofBits (F64.toBits m.indexOffset) = m.indexOffset)
    (h1 : F64.le m.gamma (.fin 1) = false) :
    Proto.mappingFromProto (some (Proto.mappingToProto m)) = .ok m := by
  unfold Proto.mappingFromProto Proto.mappingToProto Proto.f64bits
  simp only [kind_of_interpolation, ofNat_toBits, hg, ho, h1]
  rfl

/-! ### the tolerance comparison on finite floats -/

theorem tol_eq : F64.ofBits 0x3d719799812dea11 = .fin (4951760157141521 / 4951760157141521099596496896) := by
  simp [F64.ofBits, pow2_eq_zpow]
  norm_num

/-- the tolerance constant -/
def tolQ : Rat := 4951760157141521 / 4951760157141521099596496896

theorem tol_eq' : F64.ofBits 0x3d719799812dea11 = .fin tolQ := tol_eq

theorem tolQ_pos : 0 < tolQ := by unfold tolQ; norm_num

theorem tolQ_lt : tolQ < 1 / 10^12 + 1 / 10^28 := by unfold tolQ; norm_num

theorem fabs_fin (x : Rat) : fabs (.fin x) = .fin |x| := by
  unfold fabs
  by_cases h : x < 0
  · simp [F64.lt, h, F64.neg, abs_of_neg h]
  · simp [F64.lt, h, abs_of_nonneg (not_lt.mp h)]

theorem fmaxF_fin (a b : Rat) : fmaxF (.fin a) (.fin b) = .fin (max a b) := by
  unfold fmaxF
  by_cases h : a < b
  · simp [F64.isNaN, F64.lt, h, max_eq_right h.le]
  · simp [F64.isNaN, F64.lt, h, max_eq_left (not_lt.mp h)]

theorem le_fin (a b : Rat) : F64.le (.fin a) (.fin b) = decide (a ≤ b) := by
  unfold F64.le F64.lt F64.eq
  by_cases h : a < b
  · simp [h, h.le]
  · by_cases h2 : a = b
    · simp [h2]
    · have : ¬ a ≤ b := fun hle => h (lt_of_le_of_ne hle h2)
      simp [h, h2, this]

theorem eq_fin (a b : Rat) : F64.eq (.fin a) (.fin b) = decide (a = b) := by
  unfold F64.eq
  by_cases h : a = b <;> simp [h]

theorem sub_fin (a b : Rat) : F64.sub (.fin a) (.fin b) = roundF64 (a - b) := by
  show roundF64 (a + -b) = _
  rw [← sub_eq_add_neg]

/-- `withinTolerance` is symmetric on finite floats -/
theorem withinTolerance_symm (x y : Rat) :
    withinTolerance (.fin x) (.fin y) = withinTolerance (.fin y) (.fin x) := by
  unfold withinTolerance
  simp only [tol_eq', fabs_fin, fmaxF_fin, sub_fin]
  have hsub : fabs (roundF64 (x - y)) = fabs (roundF64 (y - x)) := by
    rw [show y - x = -(x - y) by ring, roundF64_neg]
    cases h : roundF64 (x - y) with
    | fin q => simp [F64.neg, fabs_fin]
    | pinf => simp [F64.neg, fabs, F64.lt]
    | ninf => simp [F64.neg, fabs, F64.lt]
    | nan => simp [F64.neg, fabs, F64.lt]
  rw [hsub, max_comm |y| |x|, Bool.or_comm (F64.eq (.fin y) (.fin 0)), Bool.and_comm (F64.le (.fin |y|) _)]

theorem withinTolerance_refl (x : Rat) : withinTolerance (.fin x) (.fin x) = true := by
  unfold withinTolerance
  simp only [tol_eq', fabs_fin, fmaxF_fin, sub_fin, sub_self, roundF64_zero, abs_zero, max_self]
  by_cases hx : x = 0
  · subst hx
    simp [eq_fin, le_fin, tolQ_pos.le]
  · have hm : F64.mul (.fin tolQ) (.fin |x|) = roundF64 (tolQ * |x|) := rfl
    have hnn : 0 ≤ tolQ * |x| := mul_nonneg tolQ_pos.le (abs_nonneg x)
    rw [hm]
    have : F64.le (.fin 0) (roundF64 (tolQ * |x|)) = true := by
      rw [roundF64_eq]
      have hr := rv_nonneg hnn
      have hp := pow2_pos 1024
      split_ifs with h1 h2
      · rfl
      · linarith
      · rw [le_fin]; simpa using hr
    simp [eq_fin, hx, this]

/-! ### gammas that are far apart -/

theorem pow2_neg1022_le : pow2 (-1022) ≤ 1 / 10^13 := by
  have h1 : pow2 (-1022) ≤ pow2 (-44) := pow2_mono (by norm_num)
  have h2 : pow2 (-44) ≤ 1 / 10^13 := by
    rw [pow2_eq_zpow, show (-44 : Int) = -(44 : Nat) by norm_num, zpow_neg, zpow_natCast]
    norm_num
  exact le_trans h1 h2

/-- the numeric core: the relative gap `2·10⁻¹²/(1+2·10⁻¹²)`, even shrunk by one rounding, exceeds the
    tolerance enlarged by one rounding -/
theorem gap_const :
    tolQ * (1 + pow2 (-53)) < (1 - 1 / (1 + 2 / 10^12)) * (1 - pow2 (-53)) := by
  rw [pow2_neg53]; unfold tolQ; norm_num

theorem withinTolerance_apart (ga gb : Rat) (h1 : 1 ≤ ga) (hab : ga * (1 + 2 / 10^12) < gb)
    (hb' : gb ≤ pow2 1023) : withinTolerance (.fin ga) (.fin gb) = false := by
  have hga : 0 < ga := by linarith
  have hlt : ga < gb := by nlinarith
  have hgb : 1 < gb := by linarith
  have hB : rv (pow2 1023) = pow2 1023 := rv_pow2 1023 (by norm_num)
  have hB2 : pow2 1023 < pow2 1024 := pow2_strictMono (by norm_num)
  -- the difference
  have hd : |ga - gb| ≤ pow2 1023 := by
    rw [abs_of_neg (by linarith)]; linarith
  obtain ⟨hr1, _⟩ := roundF64_fin_of_abs_le hB hB2 hd
  -- the scaled tolerance
  have htq := tolQ_pos
  have htl : tolQ < 1 := by unfold tolQ; norm_num
  have ht : |tolQ * gb| ≤ pow2 1023 := by
    rw [abs_of_pos (mul_pos htq (by linarith))]
    have : tolQ * gb ≤ 1 * gb := mul_le_mul_of_nonneg_right htl.le (by linarith)
    linarith
  obtain ⟨hr2, _⟩ := roundF64_fin_of_abs_le hB hB2 ht
  clear hB hB2 hb' hd ht
  rename_i hx1 hx2
  clear hx1 hx2
  -- the gap, in exact rationals
  have hc : 0 < 1 - 1 / (1 + 2 / (10:Rat)^12) := by norm_num
  have hgap : gb * (1 - 1 / (1 + 2 / 10^12)) < gb - ga := by
    have : ga < gb / (1 + 2 / 10^12) := by
      rw [lt_div_iff₀ (by norm_num)]; exact hab
    have e : gb * (1 - 1 / (1 + 2 / 10^12)) = gb - gb / (1 + 2 / 10^12) := by ring
    rw [e]; linarith
  have hgap1 : (1 : Rat) / 10^12 < gb - ga := by
    have : (1:Rat) / 10^12 ≤ 1 * (1 - 1 / (1 + 2 / 10^12)) := by norm_num
    nlinarith
  -- relative errors
  have hn1 : pow2 (-1022) ≤ |ga - gb| := by
    rw [abs_of_neg (by linarith)]
    have := pow2_neg1022_le
    have : (1:Rat) / 10^13 ≤ 1 / 10^12 := by norm_num
    linarith
  have hn2 : pow2 (-1022) ≤ |tolQ * gb| := by
    rw [abs_of_pos (by positivity)]
    have := pow2_neg1022_le
    have : (1:Rat) / 10^13 ≤ tolQ * 1 := by unfold tolQ; norm_num
    nlinarith
  have e1 := roundF64_rel_err _ _ hn1 hr1
  have e2 := roundF64_rel_err _ _ hn2 hr2
  rw [abs_of_neg (by linarith : ga - gb < 0)] at e1
  rw [abs_of_pos (by positivity : 0 < tolQ * gb)] at e2
  have e1' := (abs_le.mp e1).2
  have e2' := (abs_le.mp e2).2
  have hp53 : 0 < pow2 (-53) := pow2_pos _
  have hp53' : pow2 (-53) < 1 := by rw [pow2_neg53]; norm_num
  have hneg : rv (ga - gb) < 0 := by
    have : -(ga - gb) * pow2 (-53) < -(ga - gb) := by nlinarith
    linarith
  have hkey : rv (tolQ * gb) < -rv (ga - gb) := by
    have hk := gap_const
    have l1 : rv (tolQ * gb) ≤ gb * (tolQ * (1 + pow2 (-53))) := by linarith
    have l2 : (gb - ga) * (1 - pow2 (-53)) ≤ -rv (ga - gb) := by linarith
    have l3 : gb * (tolQ * (1 + pow2 (-53))) < gb * ((1 - 1 / (1 + 2 / 10^12)) * (1 - pow2 (-53))) :=
      mul_lt_mul_of_pos_left hk (by linarith)
    have l4 : gb * ((1 - 1 / (1 + 2 / 10^12)) * (1 - pow2 (-53))) ≤ (gb - ga) * (1 - pow2 (-53)) := by
      have : 0 < 1 - pow2 (-53) := by linarith
      nlinarith
    linarith
  unfold withinTolerance
  simp only [tol_eq', fabs_fin, fmaxF_fin, sub_fin, hr1]
  have hm : F64.mul (.fin tolQ) (.fin (max |ga| |gb|)) = .fin (rv (tolQ * gb)) := by
    rw [abs_of_pos hga, abs_of_pos (by linarith : 0 < gb), max_eq_right hlt.le]
    exact hr2
  rw [hm, abs_of_neg hneg, le_fin, eq_fin, eq_fin]
  have : ¬ (-rv (ga - gb) ≤ rv (tolQ * gb)) := not_le.mpr hkey
  simp [this, hga.ne', (by linarith : gb ≠ 0), le_fin]

end MapId
end DDS
