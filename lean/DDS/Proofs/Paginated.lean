/-
  DDS.Proofs.Paginated — refinement proofs for the `BufferedPaginatedStore` model
  (`DDS.Model.Paginated`).  Core Lean only (`omega` for page arithmetic, `grind` for `Rat`).

  Content is observed pointwise through
    `wt s i = line s i + (s.buffer.count i : Rat)`,
  `line s i` being the page-line value at `i` (0 when the page does not exist).

  * `Inv` is the invariant; it holds of `PStore.new` (`inv_new`) and is preserved, for EVERY value
    of the compaction bit, by `page`, `addAtPage`, `compact`, `addUnit`, `addWithCount`,
    `mergeSame`, `mergeBins`, `clear`, `reweight`, `sortRead` (`*_ok` / `*_spec`), hence by every
    operation history (`run_ok`).
  * `range` records that the page table stays far inside int64 (no wrap-around of the Go
    arithmetic `minPageIndex+len(pages)` outside the sentinel state); `pageRange`/`bufRange` record
    that all weight sits on int32 indexes.
  * Parts: (I) pure list lemmas on `sortInts`/`runs`/`mergeIter`/`firstExceeding`;
    (II) abstraction and invariant; (III) page arithmetic, `page`, `addAtPage`, compaction, adds,
    merges, clear, reweight, histories; (IV) the `MinIndex`/`MaxIndex` page scans;
    (V) `pageLines`, `binsList`, `content`, `totalCount`, `isEmpty`, `keyAtRank`.
  * Main statements: `inv_new`, `page_spec`, `addAtPage_spec`, `compact_ok`, `addUnit_ok`,
    `addWithCount_ok`, `mergeSame_ok`, `mergeBins_ok`, `clear_spec`, `reweight_ok`, `sortRead_spec`,
    `run_ok`; `binsList_spec`, `content_wf`, `lookup_content`, `totalCount_eq`, `isEmpty_iff`,
    `minIndex_spec`, `maxIndex_spec`, `minIndex?_eq`, `maxIndex?_eq`, `keyAtRank_spec`,
    `abs_eq_content`.  No state satisfying `Inv` makes the model panic or misplace weight.
-/
import DDS.Model.Paginated
import DDS.Proofs.Bins

namespace DDS
namespace PStore

/-! # Part I — pure list lemmas (iteration and rank search) -/

section Iter
open Content

/-- runs with counts cast to `Rat` -/
def castRuns (rs : List (Int × Nat)) : Content := rs.map (fun r => (r.1, (r.2 : Rat)))

@[simp] theorem castRuns_nil : castRuns [] = [] := rfl

@[simp] theorem castRuns_cons (r : Int × Nat) (rs : List (Int × Nat)) :
    castRuns (r :: rs) = (r.1, (r.2 : Rat)) :: castRuns rs := rfl

theorem castRuns_append (a b : List (Int × Nat)) : castRuns (a ++ b) = castRuns a ++ castRuns b := by
  simp [castRuns]

theorem mem_castRuns {rs : List (Int × Nat)} {p : Int × Rat} (hp : p ∈ castRuns rs) :
    ∃ r ∈ rs, p = (r.1, (r.2 : Rat)) := by
  unfold castRuns at hp
  obtain ⟨r, hr, rfl⟩ := List.mem_map.1 hp
  exact ⟨r, hr, rfl⟩

/-! ## Sorted as Pairwise -/

theorem sorted_iff_pairwise (m : Content) : Content.Sorted m ↔ m.Pairwise (fun a b => a.1 < b.1) := by
  induction m with
  | nil => simp
  | cons p rest ih => rw [sorted_cons, List.pairwise_cons, ih]

/-! ## generic list helpers -/

theorem mem_takeWhile_imp' {α : Type} {p : α → Bool} {l : List α} {x : α}
    (hx : x ∈ l.takeWhile p) : p x = true := by
  induction l with
  | nil => simp at hx
  | cons a l ih =>
    rw [List.takeWhile_cons] at hx
    split at hx
    · rcases List.mem_cons.1 hx with rfl | hx
      · assumption
      · exact ih hx
    · simp at hx

theorem dropWhile_head_not {α : Type} {p : α → Bool} {l : List α} {y : α} {t : List α}
    (h : l.dropWhile p = y :: t) : p y = false := by
  induction l with
  | nil => simp at h
  | cons a l ih =>
    rw [List.dropWhile_cons] at h
    split at h
    · exact ih h
    · rename_i hp
      simp only [List.cons.injEq] at h
      rw [← h.1]; simpa using hp

/-! ## wsum of appends -/

theorem wsum_append (P : Int → Bool) (a b : Content) : wsum P (a ++ b) = wsum P a + wsum P b := by
  induction a with
  | nil => simp only [List.nil_append, wsum_nil]; grind
  | cons p a ih => simp only [List.cons_append, wsum_cons, ih]; grind

theorem cumul_eq_wsum (m : Content) (k : Int) : cumul m k = wsum (fun i => decide (i ≤ k)) m := by
  induction m with
  | nil => rfl
  | cons p rest ih => simp only [cumul_cons, wsum_cons, ih, decide_eq_true_eq]

theorem lookup_append (a b : Content) (j : Int) : lookup (a ++ b) j = lookup a j + lookup b j := by
  simp only [lookup_eq_wsum, wsum_append]

theorem total_append (a b : Content) : total (a ++ b) = total a + total b := by
  simp only [total_eq_wsum, wsum_append]

/-! ## sortInts -/

theorem sortInts_perm (l : List Int) : (sortInts l).Perm l := List.mergeSort_perm l _

theorem sortInts_sorted (l : List Int) : (sortInts l).Pairwise (· ≤ ·) := by
  have := List.pairwise_mergeSort (le := fun (a b : Int) => decide (a ≤ b))
    (by intro a b c; simp only [decide_eq_true_eq]; omega)
    (by intro a b; simp only [Bool.or_eq_true, decide_eq_true_eq]; omega) l
  unfold sortInts
  simpa using this

theorem count_sortInts (l : List Int) (j : Int) : (sortInts l).count j = l.count j :=
  (sortInts_perm l).count_eq j

theorem length_sortInts (l : List Int) : (sortInts l).length = l.length :=
  (sortInts_perm l).length_eq

/-! ## runs -/

@[simp] theorem runs_nil : runs [] = [] := rfl

theorem runs_cons (x : Int) (xs : List Int) :
    runs (x :: xs) =
      match runs xs with
      | (y, n) :: more => if x = y then (y, n + 1) :: more else (x, 1) :: (y, n) :: more
      | [] => [(x, 1)] := by
  rw [runs]
  cases runs xs with
  | nil => rfl
  | cons p t => obtain ⟨y, n⟩ := p; rfl

/-- total weight of the keys satisfying `P` in the runs = number of entries satisfying `P` -/
theorem wsum_runs (P : Int → Bool) (l : List Int) :
    wsum P (castRuns (runs l)) = (l.countP P : Rat) := by
  induction l with
  | nil => simp
  | cons x xs ih =>
    rw [runs_cons]
    rw [List.countP_cons]
    split
    · rename_i y n more heq
      rw [heq] at ih
      simp only [castRuns_cons, wsum_cons] at ih
      split
      · subst_vars
        simp only [castRuns_cons, wsum_cons]
        split <;> grind
      · simp only [castRuns_cons, wsum_cons]
        split <;> grind
    · rename_i heq
      rw [heq] at ih
      simp only [castRuns_nil, wsum_nil] at ih
      simp only [castRuns_cons, castRuns_nil, wsum_cons, wsum_nil]
      split <;> grind

theorem lookup_runs (l : List Int) (j : Int) :
    Content.lookup (castRuns (runs l)) j = (l.count j : Rat) := by
  rw [lookup_eq_wsum, wsum_runs, List.count_eq_countP]
  congr 2

theorem total_runs (l : List Int) : Content.total (castRuns (runs l)) = (l.length : Rat) := by
  rw [total_eq_wsum, wsum_runs]
  congr 1
  simp

theorem runs_pos (l : List Int) : ∀ r ∈ runs l, 0 < r.2 := by
  induction l with
  | nil => simp
  | cons x xs ih =>
    rw [runs_cons]
    split
    · rename_i y n more heq
      rw [heq] at ih
      split
      · intro r hr
        rcases List.mem_cons.1 hr with rfl | hr
        · simp
        · exact ih r (List.mem_cons_of_mem _ hr)
      · intro r hr
        rcases List.mem_cons.1 hr with rfl | hr
        · simp
        · exact ih r hr
    · simp

theorem runs_keys (l : List Int) : ∀ r ∈ runs l, r.1 ∈ l := by
  induction l with
  | nil => simp
  | cons x xs ih =>
    rw [runs_cons]
    split
    · rename_i y n more heq
      rw [heq] at ih
      split
      · intro r hr
        rcases List.mem_cons.1 hr with rfl | hr
        · exact List.mem_cons_of_mem _ (ih (y, n) (List.mem_cons_self ..))
        · exact List.mem_cons_of_mem _ (ih r (List.mem_cons_of_mem _ hr))
      · intro r hr
        rcases List.mem_cons.1 hr with rfl | hr
        · exact List.mem_cons_self ..
        · exact List.mem_cons_of_mem _ (ih r hr)
    · simp

theorem runs_pairwise (l : List Int) (h : l.Pairwise (· ≤ ·)) :
    (runs l).Pairwise (fun a b => a.1 < b.1) := by
  induction l with
  | nil => simp
  | cons x xs ih =>
    obtain ⟨hx, hxs⟩ := List.pairwise_cons.1 h
    have ih := ih hxs
    have hk := runs_keys xs
    rw [runs_cons]
    split
    · rename_i y n more heq
      rw [heq] at ih hk
      obtain ⟨hy, hmore⟩ := List.pairwise_cons.1 ih
      split
      · exact List.pairwise_cons.2 ⟨hy, hmore⟩
      · have hxy : x ≤ y := hx y (hk (y, n) (List.mem_cons_self ..))
        refine List.pairwise_cons.2 ⟨?_, ih⟩
        intro r hr
        rcases List.mem_cons.1 hr with rfl | hr
        · simp only; omega
        · have := hy r hr; simp only at this ⊢; omega
    · simp

/-! ## mergeIter: unfolding -/

@[simp] theorem mergeIter_nil (rs : List (Int × Nat)) : mergeIter [] rs = castRuns rs := by
  rw [mergeIter]; rfl

theorem mergeIter_cons_zero (idx : Int) (c : Rat) (more : List (Int × Rat)) (rs : List (Int × Nat))
    (hc : c = 0) : mergeIter ((idx, c) :: more) rs = mergeIter more rs := by
  rw [mergeIter, if_pos hc]

theorem mergeIter_cons_eq (idx : Int) (c : Rat) (more : List (Int × Rat)) (rs : List (Int × Nat))
    (hc : c ≠ 0) (n : Nat) (after' : List (Int × Nat))
    (h : rs.dropWhile (fun r => decide (r.1 < idx)) = (idx, n) :: after') :
    mergeIter ((idx, c) :: more) rs =
      castRuns (rs.takeWhile (fun r => decide (r.1 < idx))) ++ (idx, c + (n : Rat)) :: mergeIter more after' := by
  rw [mergeIter, if_neg hc]
  simp only [h, if_true]
  rfl

theorem mergeIter_cons_ne (idx : Int) (c : Rat) (more : List (Int × Rat)) (rs : List (Int × Nat))
    (hc : c ≠ 0)
    (h : ∀ r ∈ (rs.dropWhile (fun r => decide (r.1 < idx))).head?, r.1 ≠ idx) :
    mergeIter ((idx, c) :: more) rs =
      castRuns (rs.takeWhile (fun r => decide (r.1 < idx))) ++
        (idx, c) :: mergeIter more (rs.dropWhile (fun r => decide (r.1 < idx))) := by
  rw [mergeIter, if_neg hc]
  simp only
  split
  · rename_i y n after' heq
    rw [heq] at h
    have : y ≠ idx := h (y, n) (by simp)
    rw [if_neg this]
    rfl
  · rename_i heq
    rw [heq]
    rfl

/-! ## mergeIter: weights -/

theorem wsum_mergeIter (P : Int → Bool) (lines : List (Int × Rat)) (rs : List (Int × Nat)) :
    wsum P (mergeIter lines rs) = wsum P lines + wsum P (castRuns rs) := by
  induction lines generalizing rs with
  | nil => simp only [mergeIter_nil, wsum_nil]; grind
  | cons p more ih =>
    obtain ⟨idx, c⟩ := p
    by_cases hc : c = 0
    · rw [mergeIter_cons_zero _ _ _ _ hc, ih, wsum_cons]; subst hc; grind
    · have hsplit : wsum P (castRuns rs) =
          wsum P (castRuns (rs.takeWhile (fun r => decide (r.1 < idx)))) +
          wsum P (castRuns (rs.dropWhile (fun r => decide (r.1 < idx)))) := by
        rw [← wsum_append, ← castRuns_append, List.takeWhile_append_dropWhile]
      by_cases hex : ∃ n after', rs.dropWhile (fun r => decide (r.1 < idx)) = (idx, n) :: after'
      · obtain ⟨n, after', heq⟩ := hex
        rw [mergeIter_cons_eq _ _ _ _ hc n after' heq, wsum_append, wsum_cons, ih, hsplit, heq]
        simp only [castRuns_cons, wsum_cons]
        split <;> grind
      · rw [mergeIter_cons_ne _ _ _ _ hc, wsum_append, wsum_cons, ih, hsplit, wsum_cons]
        · grind
        · intro r hr heq
          apply hex
          cases hd : rs.dropWhile (fun r => decide (r.1 < idx)) with
          | nil => rw [hd] at hr; simp at hr
          | cons r' t =>
            rw [hd] at hr
            simp only [List.head?_cons, Option.mem_def, Option.some.injEq] at hr
            subst hr
            obtain ⟨y, n⟩ := r'
            simp only at heq
            subst heq
            exact ⟨n, t, rfl⟩

theorem lookup_mergeIter (lines : List (Int × Rat)) (rs : List (Int × Nat)) (j : Int) :
    Content.lookup (mergeIter lines rs) j = Content.lookup lines j + Content.lookup (castRuns rs) j := by
  simp only [lookup_eq_wsum, wsum_mergeIter]

theorem total_mergeIter (lines : List (Int × Rat)) (rs : List (Int × Nat)) :
    Content.total (mergeIter lines rs) = Content.total lines + Content.total (castRuns rs) := by
  simp only [total_eq_wsum, wsum_mergeIter]

theorem cumul_mergeIter (lines : List (Int × Rat)) (rs : List (Int × Nat)) (k : Int) :
    cumul (mergeIter lines rs) k = cumul lines k + cumul (castRuns rs) k := by
  simp only [cumul_eq_wsum, wsum_mergeIter]

/-! ## mergeIter: keys and canonical form -/

theorem wf_iff (m : Content) :
    WF m ↔ m.Pairwise (fun a b => a.1 < b.1) ∧ ∀ p ∈ m, 0 < p.2 := by
  unfold WF; rw [sorted_iff_pairwise]

/-- every key of `mergeIter lines rs` is a key of `lines` or a key of `rs` -/
theorem mergeIter_keys (lines : List (Int × Rat)) (rs : List (Int × Nat)) :
    ∀ p ∈ mergeIter lines rs, (∃ q ∈ lines, q.1 = p.1) ∨ (∃ r ∈ rs, r.1 = p.1) := by
  induction lines generalizing rs with
  | nil =>
    intro p hp
    rw [mergeIter_nil] at hp
    obtain ⟨r, hr, rfl⟩ := mem_castRuns hp
    exact Or.inr ⟨r, hr, rfl⟩
  | cons q more ih =>
    obtain ⟨idx, c⟩ := q
    intro p hp
    by_cases hc : c = 0
    · rw [mergeIter_cons_zero _ _ _ _ hc] at hp
      rcases ih rs p hp with ⟨q, hq, h⟩ | h
      · exact Or.inl ⟨q, List.mem_cons_of_mem _ hq, h⟩
      · exact Or.inr h
    · have htk : ∀ r ∈ rs.takeWhile (fun r => decide (r.1 < idx)), r ∈ rs :=
        fun r hr => (List.takeWhile_sublist _).subset hr
      have hdr : ∀ r ∈ rs.dropWhile (fun r => decide (r.1 < idx)), r ∈ rs :=
        fun r hr => (List.dropWhile_sublist _).subset hr
      by_cases hex : ∃ n after', rs.dropWhile (fun r => decide (r.1 < idx)) = (idx, n) :: after'
      · obtain ⟨n, after', heq⟩ := hex
        rw [mergeIter_cons_eq _ _ _ _ hc n after' heq] at hp
        rcases List.mem_append.1 hp with hp | hp
        · obtain ⟨r, hr, rfl⟩ := mem_castRuns hp
          exact Or.inr ⟨r, htk r hr, rfl⟩
        · rcases List.mem_cons.1 hp with rfl | hp
          · exact Or.inl ⟨(idx, c), List.mem_cons_self .., rfl⟩
          · rcases ih after' p hp with ⟨q, hq, h⟩ | ⟨r, hr, h⟩
            · exact Or.inl ⟨q, List.mem_cons_of_mem _ hq, h⟩
            · exact Or.inr ⟨r, hdr r (by rw [heq]; exact List.mem_cons_of_mem _ hr), h⟩
      · rw [mergeIter_cons_ne _ _ _ _ hc] at hp
        · rcases List.mem_append.1 hp with hp | hp
          · obtain ⟨r, hr, rfl⟩ := mem_castRuns hp
            exact Or.inr ⟨r, htk r hr, rfl⟩
          · rcases List.mem_cons.1 hp with rfl | hp
            · exact Or.inl ⟨(idx, c), List.mem_cons_self .., rfl⟩
            · rcases ih _ p hp with ⟨q, hq, h⟩ | ⟨r, hr, h⟩
              · exact Or.inl ⟨q, List.mem_cons_of_mem _ hq, h⟩
              · exact Or.inr ⟨r, hdr r hr, h⟩
        · intro r hr heq
          apply hex
          cases hd : rs.dropWhile (fun r => decide (r.1 < idx)) with
          | nil => rw [hd] at hr; simp at hr
          | cons r' t =>
            rw [hd] at hr
            simp only [List.head?_cons, Option.mem_def, Option.some.injEq] at hr
            subst hr
            obtain ⟨y, n⟩ := r'
            simp only at heq
            subst heq
            exact ⟨n, t, rfl⟩

/-- a block `runs-before ++ (idx, w) :: tail` is canonical -/
theorem wf_block (before : List (Int × Nat)) (idx : Int) (w : Rat) (tl : Content)
    (hb : before.Pairwise (fun a b => a.1 < b.1)) (hbpos : ∀ r ∈ before, 0 < r.2)
    (hblt : ∀ r ∈ before, r.1 < idx) (hw : 0 < w) (htl : WF tl) (hgt : ∀ q ∈ tl, idx < q.1) :
    WF (castRuns before ++ (idx, w) :: tl) := by
  rw [wf_iff] at htl ⊢
  constructor
  · rw [List.pairwise_append]
    refine ⟨?_, List.pairwise_cons.2 ⟨hgt, htl.1⟩, ?_⟩
    · unfold castRuns
      rw [List.pairwise_map]
      exact hb
    · intro a ha b hb'
      obtain ⟨r, hr, rfl⟩ := mem_castRuns ha
      have h1 := hblt r hr
      rcases List.mem_cons.1 hb' with rfl | hb'
      · exact h1
      · have := hgt b hb'; simp only; omega
  · intro p hp
    rcases List.mem_append.1 hp with hp | hp
    · obtain ⟨r, hr, rfl⟩ := mem_castRuns hp
      have := hbpos r hr
      simp only
      exact_mod_cast this
    · rcases List.mem_cons.1 hp with rfl | hp
      · exact hw
      · exact htl.2 p hp

theorem wf_castRuns (rs : List (Int × Nat)) (hr : rs.Pairwise (fun a b => a.1 < b.1))
    (hpos : ∀ r ∈ rs, 0 < r.2) : WF (castRuns rs) := by
  rw [wf_iff]
  constructor
  · unfold castRuns
    rw [List.pairwise_map]
    exact hr
  · intro p hp
    obtain ⟨r, hr, rfl⟩ := mem_castRuns hp
    have := hpos r hr
    simp only
    exact_mod_cast this

theorem wf_mergeIter (lines : List (Int × Rat)) (rs : List (Int × Nat))
    (hl : lines.Pairwise (fun a b => a.1 < b.1)) (hnn : ∀ p ∈ lines, 0 ≤ p.2)
    (hr : rs.Pairwise (fun a b => a.1 < b.1)) (hpos : ∀ r ∈ rs, 0 < r.2) :
    Content.WF (mergeIter lines rs) := by
  induction lines generalizing rs with
  | nil => rw [mergeIter_nil]; exact wf_castRuns rs hr hpos
  | cons q more ih =>
    obtain ⟨idx, c⟩ := q
    obtain ⟨hidx, hmore⟩ := List.pairwise_cons.1 hl
    have hnn' : ∀ p ∈ more, 0 ≤ p.2 := fun p hp => hnn p (List.mem_cons_of_mem _ hp)
    have hc0 : 0 ≤ c := hnn (idx, c) (List.mem_cons_self ..)
    by_cases hc : c = 0
    · rw [mergeIter_cons_zero _ _ _ _ hc]
      exact ih rs hmore hnn' hr hpos
    · have hcpos : 0 < c := by grind
      have htk : (rs.takeWhile (fun r => decide (r.1 < idx))).Sublist rs := List.takeWhile_sublist _
      have hdr : (rs.dropWhile (fun r => decide (r.1 < idx))).Sublist rs := List.dropWhile_sublist _
      have hblt : ∀ r ∈ rs.takeWhile (fun r => decide (r.1 < idx)), r.1 < idx := by
        intro r hr
        have := mem_takeWhile_imp' hr
        simpa using this
      have hdp := hr.sublist hdr
      by_cases hex : ∃ n after', rs.dropWhile (fun r => decide (r.1 < idx)) = (idx, n) :: after'
      · obtain ⟨n, after', heq⟩ := hex
        rw [mergeIter_cons_eq _ _ _ _ hc n after' heq]
        rw [heq] at hdp hdr
        obtain ⟨hy, hafter'⟩ := List.pairwise_cons.1 hdp
        have hpos' : ∀ r ∈ after', 0 < r.2 :=
          fun r hr => hpos r (hdr.subset (List.mem_cons_of_mem _ hr))
        apply wf_block _ _ _ _ (hr.sublist htk) (fun r hr => hpos r (htk.subset hr)) hblt
        · have : (0 : Rat) ≤ (n : Rat) := by exact_mod_cast Nat.zero_le n
          grind
        · exact ih after' hmore hnn' hafter' hpos'
        · intro q hq
          rcases mergeIter_keys more after' q hq with ⟨q', hq', h⟩ | ⟨r, hr, h⟩
          · rw [← h]; exact hidx q' hq'
          · rw [← h]; exact hy r hr
      · have hne : ∀ r ∈ (rs.dropWhile (fun r => decide (r.1 < idx))).head?, r.1 ≠ idx := by
          intro r hr heq
          apply hex
          cases hd : rs.dropWhile (fun r => decide (r.1 < idx)) with
          | nil => rw [hd] at hr; simp at hr
          | cons r' t =>
            rw [hd] at hr
            simp only [List.head?_cons, Option.mem_def, Option.some.injEq] at hr
            subst hr
            obtain ⟨y, n⟩ := r'
            simp only at heq
            subst heq
            exact ⟨n, t, rfl⟩
        rw [mergeIter_cons_ne _ _ _ _ hc hne]
        apply wf_block _ _ _ _ (hr.sublist htk) (fun r hr => hpos r (htk.subset hr)) hblt hcpos
        · exact ih _ hmore hnn' hdp (fun r hr => hpos r (hdr.subset hr))
        · intro q hq
          rcases mergeIter_keys more _ q hq with ⟨q', hq', h⟩ | ⟨r, hr', h⟩
          · rw [← h]; exact hidx q' hq'
          · rw [← h]
            cases hd : rs.dropWhile (fun r => decide (r.1 < idx)) with
            | nil => rw [hd] at hr'; simp at hr'
            | cons r' t =>
              have hnot := dropWhile_head_not hd
              have hne' := hne r' (by rw [hd]; simp)
              simp only [decide_eq_false_iff_not] at hnot
              rw [hd] at hr' hdp
              obtain ⟨hy, _⟩ := List.pairwise_cons.1 hdp
              rcases List.mem_cons.1 hr' with rfl | hr'
              · omega
              · have := hy r hr'; omega

/-! ## the spec rank search on weakly sorted lists with non-negative weights -/

theorem cumul_nonneg' (m : Content) (h : ∀ p ∈ m, 0 ≤ p.2) (k : Int) : 0 ≤ cumul m k := by
  induction m with
  | nil => simp
  | cons q rest ih =>
    have hq := h q (List.mem_cons_self ..)
    have := ih (fun p hp => h p (List.mem_cons_of_mem _ hp))
    simp only [cumul_cons]; grind

theorem cumul_mono' (m : Content) (h : ∀ p ∈ m, 0 ≤ p.2) (k k' : Int) (hk : k ≤ k') :
    cumul m k ≤ cumul m k' := by
  induction m with
  | nil => simp
  | cons q rest ih =>
    have hq := h q (List.mem_cons_self ..)
    have := ih (fun p hp => h p (List.mem_cons_of_mem _ hp))
    simp only [cumul_cons]
    by_cases h1 : q.1 ≤ k
    · have h2 : q.1 ≤ k' := by omega
      simp only [if_pos h1, if_pos h2]; grind
    · simp only [if_neg h1]; split <;> grind

theorem cumul_le_total' (m : Content) (h : ∀ p ∈ m, 0 ≤ p.2) (k : Int) : cumul m k ≤ total m := by
  induction m with
  | nil => simp
  | cons q rest ih =>
    have hq := h q (List.mem_cons_self ..)
    have := ih (fun p hp => h p (List.mem_cons_of_mem _ hp))
    simp only [cumul_cons, total_cons]; split <;> grind

/-- characterisation of a successful spec search on a weakly sorted list with non-negative weights -/
theorem firstExceeding_some_weak (m : Content) (hs : m.Pairwise (fun a b => a.1 ≤ b.1))
    (hnn : ∀ p ∈ m, 0 ≤ p.2) (acc r : Rat) (hacc : acc ≤ r) (k : Int)
    (hk : Content.firstExceeding m acc r = some k) :
    acc + cumul m (k - 1) ≤ r ∧ r < acc + cumul m k := by
  induction m generalizing acc with
  | nil => simp [Content.firstExceeding] at hk
  | cons q rest ih =>
    obtain ⟨hq, hrest⟩ := List.pairwise_cons.1 hs
    have hq0 := hnn q (List.mem_cons_self ..)
    have hnn' : ∀ p ∈ rest, 0 ≤ p.2 := fun p hp => hnn p (List.mem_cons_of_mem _ hp)
    rw [firstExceeding_cons] at hk
    split at hk
    · rename_i hlt
      simp only [Option.some.injEq] at hk
      subst hk
      have h0 : cumul rest (q.1 - 1) = 0 :=
        cumul_eq_zero_of_lt rest _ (fun p hp => by have := hq p hp; omega)
      have h1 := cumul_nonneg' rest hnn' q.1
      have hne : ¬ q.1 ≤ q.1 - 1 := by omega
      simp only [cumul_cons, if_neg hne, h0, Int.le_refl, if_true]
      constructor <;> grind
    · rename_i hnlt
      obtain ⟨w, hw⟩ := firstExceeding_mem _ _ _ _ hk
      have hqk : q.1 ≤ k := hq _ hw
      obtain ⟨h1, h2⟩ := ih hrest hnn' (acc + q.2) (by grind) hk
      simp only [cumul_cons, if_pos hqk]
      constructor
      · split <;> grind
      · grind

/-- the spec search only depends on the cumulative-weight function -/
theorem firstExceeding_congr (m₁ m₂ : Content)
    (hs₁ : m₁.Pairwise (fun a b => a.1 ≤ b.1)) (hnn₁ : ∀ p ∈ m₁, 0 ≤ p.2)
    (hs₂ : m₂.Pairwise (fun a b => a.1 ≤ b.1)) (hnn₂ : ∀ p ∈ m₂, 0 ≤ p.2)
    (hc : ∀ k, cumul m₁ k = cumul m₂ k) (acc r : Rat) (hacc : acc ≤ r) :
    Content.firstExceeding m₁ acc r = Content.firstExceeding m₂ acc r := by
  cases h1 : Content.firstExceeding m₁ acc r with
  | none =>
    cases h2 : Content.firstExceeding m₂ acc r with
    | none => rfl
    | some k₂ =>
      exfalso
      have := firstExceeding_none_spec m₁ acc r hacc h1
      obtain ⟨_, hb⟩ := firstExceeding_some_weak m₂ hs₂ hnn₂ acc r hacc k₂ h2
      have := cumul_le_total' m₁ hnn₁ k₂
      have := hc k₂
      grind
  | some k₁ =>
    obtain ⟨ha₁, hb₁⟩ := firstExceeding_some_weak m₁ hs₁ hnn₁ acc r hacc k₁ h1
    cases h2 : Content.firstExceeding m₂ acc r with
    | none =>
      exfalso
      have := firstExceeding_none_spec m₂ acc r hacc h2
      have := cumul_le_total' m₂ hnn₂ k₁
      have := hc k₁
      grind
    | some k₂ =>
      obtain ⟨ha₂, hb₂⟩ := firstExceeding_some_weak m₂ hs₂ hnn₂ acc r hacc k₂ h2
      congr 1
      rcases Int.lt_trichotomy k₁ k₂ with hlt | heq | hgt
      · exfalso
        have := cumul_mono' m₂ hnn₂ k₁ (k₂ - 1) (by omega)
        have := hc k₁
        grind
      · exact heq
      · exfalso
        have := cumul_mono' m₁ hnn₁ k₂ (k₁ - 1) (by omega)
        have := hc k₂
        grind

theorem firstExceeding_append (a b : Content) (acc r : Rat) :
    Content.firstExceeding (a ++ b) acc r =
      match Content.firstExceeding a acc r with
      | some k => some k
      | none => Content.firstExceeding b (acc + total a) r := by
  induction a generalizing acc with
  | nil =>
    simp only [List.nil_append, Content.firstExceeding, total_nil]
    congr 1; grind
  | cons p a ih =>
    simp only [List.cons_append, firstExceeding_cons, total_cons]
    split
    · rfl
    · rw [ih]
      have : acc + p.2 + total a = acc + (p.2 + total a) := by grind
      rw [this]

/-! ## the page-store rank search as a spec search over the ungrouped interleaving -/

/-- buffered entries as unit-weight bins -/
def units (l : List Int) : Content := l.map (fun x => (x, (1 : Rat)))

@[simp] theorem units_nil : units [] = [] := rfl
@[simp] theorem units_cons (x : Int) (l : List Int) : units (x :: l) = (x, 1) :: units l := rfl

theorem mem_units {l : List Int} {p : Int × Rat} (hp : p ∈ units l) : p.1 ∈ l ∧ p.2 = 1 := by
  unfold units at hp
  obtain ⟨x, hx, rfl⟩ := List.mem_map.1 hp
  exact ⟨hx, rfl⟩

theorem wsum_units (P : Int → Bool) (l : List Int) : wsum P (units l) = (l.countP P : Rat) := by
  induction l with
  | nil => simp
  | cons x xs ih =>
    simp only [units_cons, wsum_cons, ih, List.countP_cons]
    split <;> grind

theorem total_units (l : List Int) : total (units l) = (l.length : Rat) := by
  induction l with
  | nil => simp
  | cons x xs ih => simp only [units_cons, total_cons, ih, List.length_cons]; grind

/-- interleaving of all page lines (zero lines included) with the buffered entries, ungrouped -/
def merge2 : List (Int × Rat) → List Int → Content
  | [], buf => units buf
  | (idx, c) :: more, buf =>
    units (buf.takeWhile (fun x => decide (x < idx))) ++
      (idx, c) :: merge2 more (buf.dropWhile (fun x => decide (x < idx)))

theorem rest_eq (rank : Rat) (buf : List Int) (acc : Rat) :
    firstExceeding.rest rank buf acc = Content.firstExceeding (units buf) acc rank := by
  induction buf generalizing acc with
  | nil => simp [firstExceeding.rest, Content.firstExceeding]
  | cons x xs ih =>
    rw [firstExceeding.rest, units_cons, firstExceeding_cons, ih]

/-- closed form of the buffer drain in front of the line `idx` -/
theorem drain_eq (rank : Rat) (idx : Int) (buf : List Int) (acc : Rat) (fuel : Nat)
    (hf : buf.length ≤ fuel) :
    (firstExceeding.drain rank idx buf acc fuel).1 =
        Content.firstExceeding (units (buf.takeWhile (fun x => decide (x < idx)))) acc rank ∧
      ((firstExceeding.drain rank idx buf acc fuel).1 = none →
        (firstExceeding.drain rank idx buf acc fuel).2.1 = buf.dropWhile (fun x => decide (x < idx)) ∧
        (firstExceeding.drain rank idx buf acc fuel).2.2 =
          acc + total (units (buf.takeWhile (fun x => decide (x < idx))))) := by
  induction buf generalizing acc fuel with
  | nil =>
    cases fuel <;> simp [firstExceeding.drain, Content.firstExceeding] <;> grind
  | cons x xs ih =>
    cases fuel with
    | zero => simp at hf
    | succ f =>
      have hf' : xs.length ≤ f := by simpa using hf
      rw [firstExceeding.drain]
      by_cases hx : x < idx
      · simp only [List.takeWhile_cons, List.dropWhile_cons, hx, decide_true, if_true,
          units_cons, firstExceeding_cons, total_cons]
        by_cases hr : rank < acc + 1
        · simp only [if_pos hr]
          simp
        · simp only [if_neg hr]
          obtain ⟨h1, h2⟩ := ih (acc + 1) f hf'
          refine ⟨h1, ?_⟩
          intro hn
          obtain ⟨h3, h4⟩ := h2 hn
          refine ⟨h3, ?_⟩
          rw [h4]; grind
      · simp only [List.takeWhile_cons, List.dropWhile_cons, hx, decide_false]
        simp only [Bool.false_eq_true, if_false, units_nil, total_nil, true_and, forall_const]
        exact ⟨rfl, by grind⟩

theorem firstExceeding_eq_merge2 (lines : List (Int × Rat)) (buf : List Int) (acc rank : Rat) :
    firstExceeding lines buf acc rank = Content.firstExceeding (merge2 lines buf) acc rank := by
  induction lines generalizing buf acc with
  | nil => rw [firstExceeding, merge2, rest_eq]
  | cons p more ih =>
    obtain ⟨idx, c⟩ := p
    rw [firstExceeding, merge2, firstExceeding_append, firstExceeding_cons]
    obtain ⟨h1, h2⟩ := drain_eq rank idx buf acc buf.length (Nat.le_refl _)
    generalize firstExceeding.drain rank idx buf acc buf.length = d at h1 h2
    obtain ⟨o, b', a'⟩ := d
    simp only at h1 h2
    rw [← h1]
    cases o with
    | some k => rfl
    | none =>
      obtain ⟨h3, h4⟩ := h2 rfl
      subst h3 h4
      simp only
      rw [ih]

theorem wsum_merge2 (P : Int → Bool) (lines : List (Int × Rat)) (buf : List Int) :
    wsum P (merge2 lines buf) = wsum P lines + (buf.countP P : Rat) := by
  induction lines generalizing buf with
  | nil => rw [merge2, wsum_units, wsum_nil]; grind
  | cons p more ih =>
    obtain ⟨idx, c⟩ := p
    have hsplit : (buf.countP P : Rat) =
        ((buf.takeWhile (fun x => decide (x < idx))).countP P : Rat) +
        ((buf.dropWhile (fun x => decide (x < idx))).countP P : Rat) := by
      rw [← Rat.natCast_add, ← List.countP_append, List.takeWhile_append_dropWhile]
    rw [merge2, wsum_append, wsum_cons, ih, wsum_units, wsum_cons, hsplit]
    grind

theorem merge2_keys (lines : List (Int × Rat)) (buf : List Int) :
    ∀ p ∈ merge2 lines buf, (∃ q ∈ lines, q.1 = p.1) ∨ p.1 ∈ buf := by
  induction lines generalizing buf with
  | nil =>
    intro p hp
    rw [merge2] at hp
    exact Or.inr (mem_units hp).1
  | cons q more ih =>
    obtain ⟨idx, c⟩ := q
    intro p hp
    rw [merge2] at hp
    rcases List.mem_append.1 hp with hp | hp
    · exact Or.inr ((List.takeWhile_sublist _).subset (mem_units hp).1)
    · rcases List.mem_cons.1 hp with rfl | hp
      · exact Or.inl ⟨(idx, c), List.mem_cons_self .., rfl⟩
      · rcases ih _ p hp with ⟨q, hq, h⟩ | h
        · exact Or.inl ⟨q, List.mem_cons_of_mem _ hq, h⟩
        · exact Or.inr ((List.dropWhile_sublist _).subset h)

theorem merge2_nonneg (lines : List (Int × Rat)) (buf : List Int) (hnn : ∀ p ∈ lines, 0 ≤ p.2) :
    ∀ p ∈ merge2 lines buf, 0 ≤ p.2 := by
  induction lines generalizing buf with
  | nil =>
    intro p hp
    rw [merge2] at hp
    rw [(mem_units hp).2]; grind
  | cons q more ih =>
    obtain ⟨idx, c⟩ := q
    intro p hp
    rw [merge2] at hp
    rcases List.mem_append.1 hp with hp | hp
    · rw [(mem_units hp).2]; grind
    · rcases List.mem_cons.1 hp with rfl | hp
      · exact hnn _ (List.mem_cons_self ..)
      · exact ih _ (fun p hp => hnn p (List.mem_cons_of_mem _ hp)) p hp

theorem units_pairwise (l : List Int) (h : l.Pairwise (· ≤ ·)) :
    (units l).Pairwise (fun a b => a.1 ≤ b.1) := by
  unfold units
  rw [List.pairwise_map]
  exact h

/-- all entries that survive `dropWhile (· < idx)` of a sorted list are `≥ idx` -/
theorem dropWhile_ge (l : List Int) (h : l.Pairwise (· ≤ ·)) (idx : Int) :
    ∀ x ∈ l.dropWhile (fun x => decide (x < idx)), idx ≤ x := by
  intro x hx
  cases hd : l.dropWhile (fun x => decide (x < idx)) with
  | nil => rw [hd] at hx; simp at hx
  | cons y t =>
    have hnot := dropWhile_head_not hd
    simp only [decide_eq_false_iff_not] at hnot
    have hp := h.sublist (List.dropWhile_sublist (fun x => decide (x < idx)))
    rw [hd] at hp hx
    obtain ⟨hy, _⟩ := List.pairwise_cons.1 hp
    rcases List.mem_cons.1 hx with rfl | hx
    · omega
    · have := hy x hx; omega

theorem merge2_pairwise (lines : List (Int × Rat)) (buf : List Int)
    (hl : lines.Pairwise (fun a b => a.1 < b.1)) (hb : buf.Pairwise (· ≤ ·)) :
    (merge2 lines buf).Pairwise (fun a b => a.1 ≤ b.1) := by
  induction lines generalizing buf with
  | nil => rw [merge2]; exact units_pairwise buf hb
  | cons q more ih =>
    obtain ⟨idx, c⟩ := q
    obtain ⟨hidx, hmore⟩ := List.pairwise_cons.1 hl
    have htk : (buf.takeWhile (fun x => decide (x < idx))).Sublist buf := List.takeWhile_sublist _
    have hdr : (buf.dropWhile (fun x => decide (x < idx))).Sublist buf := List.dropWhile_sublist _
    have hge : ∀ p ∈ merge2 more (buf.dropWhile (fun x => decide (x < idx))), idx ≤ p.1 := by
      intro p hp
      rcases merge2_keys _ _ p hp with ⟨q, hq, h⟩ | h
      · rw [← h]; exact Int.le_of_lt (hidx q hq)
      · exact dropWhile_ge buf hb idx _ h
    rw [merge2, List.pairwise_append]
    refine ⟨units_pairwise _ (hb.sublist htk), List.pairwise_cons.2 ⟨hge, ih _ hmore (hb.sublist hdr)⟩, ?_⟩
    intro a ha b hb'
    have h1 : a.1 < idx := by
      have := mem_takeWhile_imp' (mem_units ha).1
      simpa using this
    rcases List.mem_cons.1 hb' with rfl | hb'
    · exact Int.le_of_lt h1
    · have := hge b hb'; omega

/-- the page-store rank search (interleaving page lines with the sorted buffer, one buffered entry at
    a time, zero lines included) finds the same key as the spec search over the merged canonical bins -/
theorem firstExceeding_eq (lines : List (Int × Rat)) (buf : List Int) (acc rank : Rat)
    (hl : lines.Pairwise (fun a b => a.1 < b.1)) (hnn : ∀ p ∈ lines, 0 ≤ p.2)
    (hb : buf.Pairwise (· ≤ ·)) (hacc : acc ≤ rank) :
    firstExceeding lines buf acc rank = Content.firstExceeding (mergeIter lines (runs buf)) acc rank := by
  rw [firstExceeding_eq_merge2]
  have hwf := wf_mergeIter lines (runs buf) hl hnn (runs_pairwise buf hb) (runs_pos buf)
  rw [wf_iff] at hwf
  apply firstExceeding_congr _ _ (merge2_pairwise lines buf hl hb) (merge2_nonneg lines buf hnn)
    (hwf.1.imp (fun h => Int.le_of_lt h)) (fun p hp => Rat.le_of_lt (hwf.2 p hp)) _ acc rank hacc
  intro k
  rw [cumul_eq_wsum, cumul_eq_wsum, wsum_merge2, wsum_mergeIter, wsum_runs]

end Iter

/-! # Part II — abstraction and invariant -/

/-! ## abstraction -/

/-- the page holding page index `p` (`#[]` when outside the page table or not materialised) -/
def pageAt (s : PStore) (p : Int) : Array Rat :=
  match s.slot? p with
  | some k => s.pages.getD k #[]
  | none => #[]

/-- the page-line value at index `i` (0 if the page does not exist) -/
def line (s : PStore) (i : Int) : Rat := (s.pageAt (s.pageIndex i)).getD (s.lineIndex i) 0

/-- weight held at index `i`: its page line + number of occurrences in the buffer -/
def wt (s : PStore) (i : Int) : Rat := s.line i + (s.buffer.count i : Rat)

/-- page indexes of int32 indexes: `[-2^26, 2^26)` -/
def PageIdx32 (p : Int) : Prop := -67108864 ≤ p ∧ p < 67108864

def Idx32 (i : Int) : Prop := minInt32 ≤ i ∧ i ≤ maxInt32

/-- The invariant.  Pages are addressed by slot (`s.pages.getD k #[]`, `#[]` outside the table);
    the membership forms `∀ pg ∈ s.pages, …` are `Inv.pageSizes_mem`, `Inv.sentinel_mem`,
    `Inv.nonneg_mem`.  `range` uses the constants `4·2^26+64`, `-(3·2^26+32)`, `3·2^26+33`, an
    inductive envelope of the page table under clear/re-centre/extend cycles with int32 indexes. -/
structure Inv (s : PStore) : Prop where
  log2      : s.pageLenLog2 = Consts.defaultPageLenLog2
  pageSizes : ∀ k, (s.pages.getD k #[]).size = 0 ∨ (s.pages.getD k #[]).size = s.pageLen
  sentinel  : s.minPageIndex = maxInt → ∀ k, (s.pages.getD k #[]).size = 0
  nonneg    : ∀ k l, 0 ≤ (s.pages.getD k #[]).getD l 0
  /-- the page table stays far inside the int64 range (no wrap-around in the Go arithmetic) -/
  range     : (s.pages.size : Int) ≤ 268435520 ∧
              (s.minPageIndex ≠ maxInt →
                -201326624 ≤ s.minPageIndex ∧ s.minPageIndex + (s.pages.size : Int) ≤ 201326625)
  /-- materialised pages sit on page indexes of int32 indexes -/
  pageRange : ∀ k, (s.pages.getD k #[]).size ≠ 0 → PageIdx32 (s.minPageIndex + (k : Int))
  bufRange  : ∀ x ∈ s.buffer, Idx32 x

/-! # Part III — operations -/

/-! ## page arithmetic -/

theorem Inv.pageLen_eq {s : PStore} (h : Inv s) : s.pageLen = 32 := by
  simp [pageLen, h.log2, Consts.defaultPageLenLog2]

theorem lineIndex_lt (s : PStore) (hL : s.pageLen = 32) (i : Int) : s.lineIndex i < s.pageLen := by
  simp only [lineIndex, hL]; omega

theorem index_pageIndex_lineIndex (s : PStore) (hL : s.pageLen = 32) (i : Int) :
    s.index (s.pageIndex i) (s.lineIndex i) = i := by
  simp only [index, pageIndex, lineIndex, hL]; omega

theorem pageIndex_index (s : PStore) (hL : s.pageLen = 32) (p : Int) (l : Nat) (hl : l < s.pageLen) :
    s.pageIndex (s.index p l) = p := by
  simp only [index, pageIndex, hL] at *; omega

theorem lineIndex_index (s : PStore) (hL : s.pageLen = 32) (p : Int) (l : Nat) (hl : l < s.pageLen) :
    s.lineIndex (s.index p l) = l := by
  simp only [index, lineIndex, hL] at *; omega

theorem index_inj (s : PStore) (hL : s.pageLen = 32) (i : Int) (p : Int) (l : Nat) (hl : l < s.pageLen) :
    s.index p l = i ↔ (s.pageIndex i = p ∧ s.lineIndex i = l) := by
  simp only [index, pageIndex, lineIndex, hL] at *; omega

theorem pageIdx32_of_idx32 (s : PStore) (hL : s.pageLen = 32) (i : Int) (hi : Idx32 i) :
    PageIdx32 (s.pageIndex i) := by
  simp only [Idx32, minInt32, maxInt32, PageIdx32, pageIndex, hL] at *; omega

theorem idx32_of_pageIdx32 (s : PStore) (hL : s.pageLen = 32) (i : Int) (hp : PageIdx32 (s.pageIndex i)) :
    Idx32 i := by
  simp only [Idx32, minInt32, maxInt32, PageIdx32, pageIndex, hL] at *; omega


/-! ## array helpers -/


theorem getD_replicate_empty (n k : Nat) : (Array.replicate n (#[] : Array Rat)).getD k #[] = #[] := by
  simp only [Array.getD_eq_getD_getElem?, Array.getElem?_replicate]; split <;> rfl
  

theorem getD_append_replicate_left (n : Nat) (a : Array (Array Rat)) (k : Nat) :
    (Array.replicate n #[] ++ a).getD k #[] = if k < n then #[] else a.getD (k - n) #[] := by
  simp only [Array.getD_eq_getD_getElem?, Array.getElem?_append, Array.size_replicate, Array.getElem?_replicate]
  split <;> simp

theorem getD_append_replicate_right (a : Array (Array Rat)) (n k : Nat) :
    (a ++ Array.replicate n #[]).getD k #[] = a.getD k #[] := by
  simp only [Array.getD_eq_getD_getElem?, Array.getElem?_append, Array.getElem?_replicate]
  split
  · rfl
  · rename_i h
    have : a.size ≤ k := by omega
    simp only [this, Array.getElem?_eq_none, Option.getD_none]; split <;> rfl
    
theorem getD_setIfInBounds {α} (a : Array α) (k j : Nat) (v d : α) :
    (a.setIfInBounds k v).getD j d = if j = k ∧ k < a.size then v else a.getD j d := by
  simp only [Array.getD_eq_getD_getElem?, Array.getElem?_setIfInBounds]
  by_cases h : k = j
  · subst h; by_cases h2 : k < a.size <;> simp [h2]
  · have : ¬ (j = k ∧ k < a.size) := by omega
    simp [h, this]

theorem array_eq_empty_of_size {α} (a : Array α) (h : a.size = 0) : a = #[] :=
  Array.eq_empty_of_size_eq_zero h

/-! ## slots -/

theorem slot?_eq_some (s : PStore) (p : Int) (k : Nat) :
    s.slot? p = some k ↔
      s.minPageIndex ≤ p ∧ p < s.minPageIndex + (s.pages.size : Int) ∧ k = (p - s.minPageIndex).toNat := by
  unfold slot?
  split
  · simp only [Option.some.injEq]; constructor
    · intro h; omega
    · intro h; omega
  · constructor
    · intro h; cases h
    · intro h; omega

theorem slot?_eq_none (s : PStore) (p : Int) :
    s.slot? p = none ↔ ¬ (s.minPageIndex ≤ p ∧ p < s.minPageIndex + (s.pages.size : Int)) := by
  unfold slot?
  split
  · simp; omega
  · simp; omega

theorem slot?_lt (s : PStore) (p : Int) (k : Nat) (h : s.slot? p = some k) : k < s.pages.size := by
  rw [slot?_eq_some] at h; omega

theorem pageAt_def (s : PStore) (p : Int) :
    s.pageAt p = if s.minPageIndex ≤ p ∧ p < s.minPageIndex + (s.pages.size : Int)
      then s.pages.getD (p - s.minPageIndex).toNat #[] else #[] := by
  unfold pageAt slot?
  split
  · next k hk =>
    split at hk
    · cases hk; rename_i h; rw [if_pos (by omega)]
    · cases hk
  · next hk =>
    split at hk
    · cases hk
    · rename_i h; rw [if_neg (by omega)]

theorem pageAt_of_slot (s : PStore) (p : Int) (k : Nat) (h : s.slot? p = some k) :
    s.pageAt p = s.pages.getD k #[] := by
  unfold pageAt; rw [h]

theorem pageAt_of_allEmpty (s : PStore) (h : ∀ k, (s.pages.getD k #[]).size = 0) (q : Int) :
    s.pageAt q = #[] := by
  rw [pageAt_def]; split
  · exact array_eq_empty_of_size _ (h _)
  · rfl

theorem pageAt_slot_add (s : PStore) (k : Nat) (hk : k < s.pages.size) :
    s.pageAt (s.minPageIndex + (k : Int)) = s.pages.getD k #[] := by
  rw [pageAt_def, if_pos (by omega)]; congr 1; omega

theorem Inv.not_sentinel_of_slot {s : PStore} (_h : Inv s) (p : Int) (hp : PageIdx32 p) (k : Nat)
    (hk : s.slot? p = some k) : s.minPageIndex ≠ maxInt := by
  rw [slot?_eq_some] at hk
  simp only [PageIdx32, maxInt] at *; omega

theorem newPagesLen_bounds (r : Int) : r ≤ newPagesLen r ∧ newPagesLen r ≤ r + 7 := by
  unfold newPagesLen; omega



theorem zeroPage_size (s : PStore) : s.zeroPage.size = s.pageLen := by simp [zeroPage]

theorem zeroPage_getD (s : PStore) (l : Nat) : s.zeroPage.getD l 0 = 0 := by
  simp only [zeroPage, Array.getD_eq_getD_getElem?, Array.getElem?_replicate]; split <;> rfl

theorem empty_getD (l : Nat) : (#[] : Array Rat).getD l 0 = 0 := by simp

theorem materialize_spec (s : PStore) (h : Inv s) (p : Int) (hp : PageIdx32 p) (k : Nat)
    (hk : s.slot? p = some k) :
    Inv (s.materialize k) ∧ (s.materialize k).buffer = s.buffer ∧
    (s.materialize k).trigger = s.trigger ∧ (s.materialize k).minPageIndex = s.minPageIndex ∧
    (s.materialize k).pages.size = s.pages.size ∧ (s.materialize k).pageLenLog2 = s.pageLenLog2 ∧
    (∀ q, (s.materialize k).pageAt q =
      if q = p ∧ (s.pageAt p).size = 0 then s.zeroPage else s.pageAt q) := by
  have hns := h.not_sentinel_of_slot p hp k hk
  have hpa := pageAt_of_slot s p k hk
  have hk' := (slot?_eq_some s p k).1 hk
  unfold materialize
  split
  · rename_i he
    refine ⟨?_, rfl, rfl, rfl, by simp, rfl, ?_⟩
    · constructor
      · exact h.log2
      · intro j
        show ((s.pages.setIfInBounds k s.zeroPage).getD j #[]).size = 0 ∨ _ = s.pageLen
        rw [getD_setIfInBounds]; split
        · right; exact zeroPage_size s
        · exact h.pageSizes j
      · intro hc; exact absurd hc hns
      · intro j l
        show 0 ≤ ((s.pages.setIfInBounds k s.zeroPage).getD j #[]).getD l 0
        rw [getD_setIfInBounds]; split
        · rw [zeroPage_getD]; exact Rat.le_refl
        · exact h.nonneg j l
      · have := h.range
        simpa using this
      · intro j
        show ((s.pages.setIfInBounds k s.zeroPage).getD j #[]).size ≠ 0 → PageIdx32 (s.minPageIndex + j)
        rw [getD_setIfInBounds]; split
        · rename_i hj; intro _
          have : s.minPageIndex + (j:Int) = p := by omega
          rw [this]; exact hp
        · exact h.pageRange j
      · exact h.bufRange
    · intro q
      rw [pageAt_def, pageAt_def s q]
      simp only [Array.size_setIfInBounds]
      rw [hpa]
      by_cases hq : q = p
      · subst hq
        rw [if_pos ⟨hk'.1, hk'.2.1⟩, if_pos ⟨rfl, he⟩, getD_setIfInBounds, if_pos (by omega)]
      · have hc : ¬ (q = p ∧ (s.pages.getD k #[]).size = 0) := fun hc => hq hc.1
        rw [if_neg hc]
        by_cases hr : s.minPageIndex ≤ q ∧ q < s.minPageIndex + (s.pages.size : Int)
        · rw [if_pos hr, if_pos hr, getD_setIfInBounds, if_neg (by omega)]
        · rw [if_neg hr, if_neg hr]
  · rename_i he
    refine ⟨h, rfl, rfl, rfl, rfl, rfl, ?_⟩
    intro q
    rw [if_neg]
    rw [hpa]; intro hc; exact he hc.2


/-- the page-table extension performed by `page` when the slot is outside the table -/
def extend (s : PStore) (p : Int) : Option PStore :=
  if p < s.minPageIndex then
    if s.minPageIndex = maxInt then
      let s := if s.pages.size = 0 then { s with pages := Array.replicate (newPagesLen 1).toNat #[] } else s
      some { s with minPageIndex := p - Int.tdiv (s.pages.size : Int) 2 }
    else
      let newLen := newPagesLen (s.minPageIndex - p + 1 + (s.pages.size : Int))
      let addedLen := newLen - (s.pages.size : Int)
      if addedLen < 0 then none
      else some { s with pages := Array.replicate addedLen.toNat #[] ++ s.pages,
                         minPageIndex := s.minPageIndex - addedLen }
  else
    let added := newPagesLen (p - s.minPageIndex + 1) - (s.pages.size : Int)
    if added < 0 then none else some { s with pages := s.pages ++ Array.replicate added.toNat #[] }

theorem page_of_slot_none (s : PStore) (p : Int) (h : s.slot? p = none) :
    s.page p true = match extend s p with
      | none => none
      | some s =>
        let k := p - s.minPageIndex
        if 0 ≤ k ∧ k < (s.pages.size : Int) then some (s.materialize k.toNat, some k.toNat) else none := by
  unfold page; rw [h]; rfl

theorem inv_of_pages (s s' : PStore) (h : Inv s) (hlog : s'.pageLenLog2 = s.pageLenLog2)
    (hbuf : s'.buffer = s.buffer)
    (hpg : ∀ k', s'.pages.getD k' #[] = #[] ∨
      ∃ k, s'.pages.getD k' #[] = s.pages.getD k #[] ∧
        s'.minPageIndex + (k' : Int) = s.minPageIndex + (k : Int) ∧ s.minPageIndex ≠ maxInt)
    (hsent : s'.minPageIndex = maxInt → ∀ k, (s'.pages.getD k #[]).size = 0)
    (hrange : (s'.pages.size : Int) ≤ 268435520 ∧
              (s'.minPageIndex ≠ maxInt →
                -201326624 ≤ s'.minPageIndex ∧ s'.minPageIndex + (s'.pages.size : Int) ≤ 201326625)) :
    Inv s' := by
  have hL : s'.pageLen = s.pageLen := by simp [pageLen, hlog]
  constructor
  · rw [hlog]; exact h.log2
  · intro k'
    rcases hpg k' with h1 | ⟨k, h1, _⟩
    · left; rw [h1]; rfl
    · rw [h1, hL]; exact h.pageSizes k
  · exact hsent
  · intro k' l
    rcases hpg k' with h1 | ⟨k, h1, _⟩
    · rw [h1]; simp
    · rw [h1]; exact h.nonneg k l
  · exact hrange
  · intro k' hne
    rcases hpg k' with h1 | ⟨k, h1, h2, _⟩
    · rw [h1] at hne; exact absurd rfl hne
    · rw [h2]; rw [h1] at hne; exact h.pageRange k hne
  · rw [hbuf]; exact h.bufRange

theorem extend_spec (s : PStore) (h : Inv s) (p : Int) (hp : PageIdx32 p) (hs : s.slot? p = none) :
    ∃ s₁, extend s p = some s₁ ∧ Inv s₁ ∧ s₁.buffer = s.buffer ∧ s₁.trigger = s.trigger ∧
      s₁.pageLenLog2 = s.pageLenLog2 ∧ (∀ q, s₁.pageAt q = s.pageAt q) ∧
      s₁.minPageIndex ≤ p ∧ p < s₁.minPageIndex + (s₁.pages.size : Int) := by
  rw [slot?_eq_none] at hs
  have hr := h.range
  unfold extend
  split
  · rename_i hlt
    split
    · -- sentinel
      rename_i hsen
      have hall := h.sentinel hsen
      have hpa : ∀ q, s.pageAt q = #[] := pageAt_of_allEmpty s hall
      split
      · rename_i hz
        refine ⟨_, rfl, ?_, rfl, rfl, rfl, ?_, ?_, ?_⟩
        · refine inv_of_pages s _ h (by rfl) (by rfl) ?_ ?_ ?_
          · intro k'; left; exact getD_replicate_empty _ _
          · intro _ k; show ((Array.replicate _ _).getD k #[]).size = 0
            rw [getD_replicate_empty]; rfl
          · have h8 : (newPagesLen 1).toNat = 8 := by decide
            simp only [Array.size_replicate, h8, PageIdx32, maxInt] at *
            rw [Int.tdiv_eq_ediv_of_nonneg (by omega)]
            omega
        · intro q
          rw [hpa]; apply pageAt_of_allEmpty
          intro k; show ((Array.replicate _ _).getD k #[]).size = 0
          rw [getD_replicate_empty]; rfl
        · simp only [Array.size_replicate, newPagesLen]
          rw [Int.tdiv_eq_ediv_of_nonneg (by omega)]; omega
        · simp only [Array.size_replicate, newPagesLen]
          rw [Int.tdiv_eq_ediv_of_nonneg (by omega)]; omega
      · rename_i hz
        refine ⟨_, rfl, ?_, rfl, rfl, rfl, ?_, ?_, ?_⟩
        · refine inv_of_pages s _ h (by rfl) (by rfl) ?_ ?_ ?_
          · intro k'; left; exact array_eq_empty_of_size _ (hall k')
          · intro _ k; exact hall k
          · simp only [PageIdx32, maxInt] at *
            rw [Int.tdiv_eq_ediv_of_nonneg (by omega)]
            omega
        · intro q
          rw [hpa]; apply pageAt_of_allEmpty
          exact hall
        · show p - Int.tdiv (s.pages.size : Int) 2 ≤ p
          rw [Int.tdiv_eq_ediv_of_nonneg (by omega)]; omega
        · show p < p - Int.tdiv (s.pages.size : Int) 2 + (s.pages.size : Int)
          rw [Int.tdiv_eq_ediv_of_nonneg (by omega)]; omega
    · -- extend left
      rename_i hsen
      have hb := newPagesLen_bounds (s.minPageIndex - p + 1 + (s.pages.size : Int))
      have hr2 := hr.2 hsen
      simp only []
      split
      · omega
      · generalize hA : newPagesLen (s.minPageIndex - p + 1 + (s.pages.size : Int)) - (s.pages.size : Int) = A at *
        have hA0 : 0 ≤ A := by omega
        have hget : ∀ k', (Array.replicate A.toNat (#[] : Array Rat) ++ s.pages).getD k' #[] =
            if k' < A.toNat then #[] else s.pages.getD (k' - A.toNat) #[] := fun k' =>
          getD_append_replicate_left _ _ _
        refine ⟨_, rfl, ?_, rfl, rfl, rfl, ?_, ?_, ?_⟩
        · refine inv_of_pages s _ h (by rfl) (by rfl) ?_ ?_ ?_
          · intro k'
            show (Array.replicate A.toNat (#[] : Array Rat) ++ s.pages).getD k' #[] = #[] ∨ _
            rw [hget]
            split
            · left; rfl
            · right; refine ⟨k' - A.toNat, rfl, ?_, hsen⟩
              show s.minPageIndex - A + (k' : Int) = _
              omega
          · intro hc
            exfalso
            have : s.minPageIndex - A = maxInt := hc
            simp only [PageIdx32, maxInt] at *; omega
          · simp only [Array.size_append, Array.size_replicate, PageIdx32, maxInt] at *
            omega
        · intro q
          rw [pageAt_def, pageAt_def s q]
          simp only [Array.size_append, Array.size_replicate]
          rw [hget]
          by_cases hq : s.minPageIndex ≤ q ∧ q < s.minPageIndex + (s.pages.size : Int)
          · rw [if_pos hq, if_pos (by omega), if_neg (by omega)]
            congr 1; omega
          · rw [if_neg hq]
            split
            · split
              · rfl
              · rw [Array.getD_eq_getD_getElem?, Array.getElem?_eq_none (by omega)]; rfl
            · rfl
        · show s.minPageIndex - A ≤ p
          omega
        · simp only [Array.size_append, Array.size_replicate]
          omega
  · -- extend right
    rename_i hge
    have hb := newPagesLen_bounds (p - s.minPageIndex + 1)
    have hsen : s.minPageIndex ≠ maxInt := by simp only [PageIdx32, maxInt] at *; omega
    have hr2 := hr.2 hsen
    simp only []
    split
    · omega
    · generalize hA : newPagesLen (p - s.minPageIndex + 1) - (s.pages.size : Int) = A at *
      have hA0 : 0 ≤ A := by omega
      refine ⟨_, rfl, ?_, rfl, rfl, rfl, ?_, ?_, ?_⟩
      · refine inv_of_pages s _ h (by rfl) (by rfl) ?_ ?_ ?_
        · intro k'
          right
          refine ⟨k', getD_append_replicate_right _ _ _, rfl, hsen⟩
        · intro hc; exact absurd hc hsen
        · simp only [Array.size_append, Array.size_replicate, PageIdx32, maxInt] at *
          omega
      · intro q
        rw [pageAt_def, pageAt_def s q]
        simp only [Array.size_append, Array.size_replicate]
        rw [getD_append_replicate_right]
        by_cases hq : s.minPageIndex ≤ q ∧ q < s.minPageIndex + (s.pages.size : Int)
        · rw [if_pos hq, if_pos (by omega)]
        · rw [if_neg hq]
          split
          · rw [Array.getD_eq_getD_getElem?, Array.getElem?_eq_none (by omega)]; rfl
          · rfl
      · exact Int.not_lt.1 hge
      · simp only [Array.size_append, Array.size_replicate]
        omega


theorem pageAt_size (s : PStore) (h : Inv s) (q : Int) :
    (s.pageAt q).size = 0 ∨ (s.pageAt q).size = s.pageLen := by
  rw [pageAt_def]; split
  · exact h.pageSizes _
  · left; rfl

theorem page_spec' (s : PStore) (h : Inv s) (p : Int) (hp : PageIdx32 p) (ensure : Bool) :
    ∃ s' k?, s.page p ensure = some (s', k?) ∧ Inv s' ∧ s'.buffer = s.buffer ∧
      s'.trigger = s.trigger ∧ s'.pageLenLog2 = s.pageLenLog2 ∧
      (∀ q, s'.pageAt q =
        if q = p ∧ ensure = true ∧ (s.pageAt p).size = 0 then s.zeroPage else s.pageAt q) ∧
      (match k? with
       | none => (s'.pageAt p).size = 0
       | some k => s'.slot? p = some k ∧ (s'.pageAt p).size = s'.pageLen) := by
  cases hs : s.slot? p with
  | some k =>
    have hk' := (slot?_eq_some s p k).1 hs
    cases ensure with
    | false =>
      refine ⟨s, if (s.pages.getD k #[]).size = 0 then none else some k, ?_, h, rfl, rfl, rfl, ?_, ?_⟩
      · unfold page; rw [hs]; rfl
      · intro q; rw [if_neg (by simp)]
      · have hpa := pageAt_of_slot s p k hs
        split
        · rename_i heq
          split at heq
          · rw [hpa]; assumption
          · cases heq
        · rename_i k' heq
          split at heq
          · cases heq
          · cases heq
            refine ⟨hs, ?_⟩
            rcases pageAt_size s h p with h0 | h0
            · rw [hpa] at h0; contradiction
            · exact h0
    | true =>
      obtain ⟨hI, hb, ht, hm, hsz, hl, hpa⟩ := materialize_spec s h p hp k hs
      have hs' : (s.materialize k).slot? p = some k := by
        rw [slot?_eq_some, hm, hsz]; exact hk'
      have hpa' := pageAt_of_slot _ p k hs'
      refine ⟨s.materialize k, if ((s.materialize k).pages.getD k #[]).size = 0 then none else some k,
        ?_, hI, hb, ht, hl, ?_, ?_⟩
      · unfold page; rw [hs]; rfl
      · intro q; rw [hpa q]; simp
      · split
        · rename_i heq
          split at heq
          · rw [hpa']; assumption
          · cases heq
        · rename_i k' heq
          split at heq
          · cases heq
          · cases heq
            refine ⟨hs', ?_⟩
            rcases pageAt_size _ hI p with h0 | h0
            · rw [hpa'] at h0; contradiction
            · exact h0
  | none =>
    cases ensure with
    | false =>
      refine ⟨s, none, ?_, h, rfl, rfl, rfl, ?_, ?_⟩
      · unfold page; rw [hs]; rfl
      · intro q; rw [if_neg (by simp)]
      · show (s.pageAt p).size = 0
        unfold pageAt; rw [hs]; rfl
    | true =>
      obtain ⟨s₁, he, hI₁, hb₁, ht₁, hl₁, hpa₁, hlo, hhi⟩ := extend_spec s h p hp hs
      have hs₁ : s₁.slot? p = some (p - s₁.minPageIndex).toNat := by
        rw [slot?_eq_some]; exact ⟨hlo, hhi, rfl⟩
      obtain ⟨hI, hb, ht, hm, hsz, hl, hpa⟩ := materialize_spec s₁ hI₁ p hp _ hs₁
      have hs' : (s₁.materialize (p - s₁.minPageIndex).toNat).slot? p = some (p - s₁.minPageIndex).toNat := by
        rw [slot?_eq_some, hm, hsz]; exact ⟨hlo, hhi, rfl⟩
      have hL : s₁.pageLen = s.pageLen := by simp [pageLen, hl₁]
      have hz : s₁.zeroPage = s.zeroPage := by simp [zeroPage, hL]
      have hpe : s.pageAt p = #[] := by unfold pageAt; rw [hs]
      refine ⟨s₁.materialize (p - s₁.minPageIndex).toNat, some (p - s₁.minPageIndex).toNat, ?_, hI,
        hb.trans hb₁, ht.trans ht₁, hl.trans hl₁, ?_, ?_⟩
      · rw [page_of_slot_none s p hs, he]
        simp only []
        rw [if_pos (by omega)]
      · intro q; rw [hpa q, hpa₁, hpa₁, hz]; simp
      · refine ⟨hs', ?_⟩
        rw [hpa p, hpa₁, hpe, if_pos ⟨rfl, rfl⟩, zeroPage_size]
        simp [pageLen, hl]



theorem pageLen_congr {s s' : PStore} (h : s'.pageLenLog2 = s.pageLenLog2) : s'.pageLen = s.pageLen := by
  simp [pageLen, h]

theorem pageIndex_congr {s s' : PStore} (h : s'.pageLenLog2 = s.pageLenLog2) (i : Int) :
    s'.pageIndex i = s.pageIndex i := by simp [pageIndex, pageLen_congr h]

theorem lineIndex_congr {s s' : PStore} (h : s'.pageLenLog2 = s.pageLenLog2) (i : Int) :
    s'.lineIndex i = s.lineIndex i := by simp [lineIndex, pageLen_congr h]

theorem index_congr {s s' : PStore} (h : s'.pageLenLog2 = s.pageLenLog2) (p : Int) (l : Nat) :
    s'.index p l = s.index p l := by simp [index, pageLen_congr h]

/-- lines are unchanged when pages are only materialised -/
theorem line_of_pageAt_materialized (s s' : PStore) (hl : s'.pageLenLog2 = s.pageLenLog2) (p : Int) (b : Prop)
    [Decidable b]
    (hpa : ∀ q, s'.pageAt q = if q = p ∧ b ∧ (s.pageAt p).size = 0 then s.zeroPage else s.pageAt q)
    (i : Int) : s'.line i = s.line i := by
  unfold line
  rw [pageIndex_congr hl, lineIndex_congr hl, hpa]
  split
  · rename_i hc
    rw [zeroPage_getD, hc.1, array_eq_empty_of_size _ hc.2.2]; simp
  · rfl

theorem wt_of_line (s s' : PStore) (hb : s'.buffer = s.buffer) (hl : ∀ i, s'.line i = s.line i) (i : Int) :
    s'.wt i = s.wt i := by
  unfold wt; rw [hb, hl]

/-- `page`: succeeds, keeps the invariant and every weight; with `ensureExists` the returned slot
    addresses a full-size page. -/
theorem page_spec (s : PStore) (h : Inv s) (p : Int) (hp : PageIdx32 p) (ensure : Bool) :
    ∃ s' k?, s.page p ensure = some (s', k?) ∧ Inv s' ∧ (∀ i, wt s' i = wt s i) ∧
      (ensure = true → ∃ k, k? = some k ∧ s'.slot? p = some k ∧
        (s'.pages.getD k #[]).size = s'.pageLen) := by
  obtain ⟨s', k?, h1, h2, hb, ht, hl, hpa, hk⟩ := page_spec' s h p hp ensure
  refine ⟨s', k?, h1, h2, ?_, ?_⟩
  · exact wt_of_line s s' hb (line_of_pageAt_materialized s s' hl p _ hpa)
  · intro he
    cases k? with
    | none =>
      exfalso
      simp only [] at hk
      rw [hpa p] at hk
      have hL := h.pageLen_eq
      split at hk
      · rw [zeroPage_size] at hk; omega
      · rename_i hc
        apply hc; exact ⟨rfl, he, hk⟩
    | some k =>
      refine ⟨k, rfl, hk.1, ?_⟩
      rw [← pageAt_of_slot _ p k hk.1]; exact hk.2

theorem getD_getD_setIfInBounds (a : Array Rat) (l m : Nat) (v : Rat) :
    (a.setIfInBounds l v).getD m 0 = if m = l ∧ l < a.size then v else a.getD m 0 :=
  getD_setIfInBounds a l m v 0

theorem addAtPage_spec' (s : PStore) (h : Inv s) (p : Int) (k : Nat) (hk : s.slot? p = some k)
    (l : Nat) (hl : l < (s.pageAt p).size) (c : Rat) (hc : 0 ≤ c) :
    ∃ s', s.addAtPage k l c = some s' ∧ Inv s' ∧ s'.buffer = s.buffer ∧ s'.trigger = s.trigger ∧
      s'.pageLenLog2 = s.pageLenLog2 ∧ s'.minPageIndex = s.minPageIndex ∧
      s'.pages.size = s.pages.size ∧
      (∀ q, s'.pageAt q =
        if q = p then (s.pageAt p).setIfInBounds l ((s.pageAt p).getD l 0 + c) else s.pageAt q) := by
  have hpa := pageAt_of_slot s p k hk
  have hk' := (slot?_eq_some s p k).1 hk
  rw [hpa] at hl
  have hne : (s.pages.getD k #[]).size ≠ 0 := by omega
  have hns : s.minPageIndex ≠ maxInt := fun hc => hne (h.sentinel hc k)
  refine ⟨{ s with pages := s.pages.setIfInBounds k ((s.pages.getD k #[]).setIfInBounds l ((s.pages.getD k #[]).getD l 0 + c)) },
    ?_, ?_, rfl, rfl, rfl, rfl, by simp, ?_⟩
  · unfold addAtPage
    simp only []
    rw [if_pos ⟨slot?_lt s p k hk, hl⟩]
  · constructor
    · exact h.log2
    · intro j
      show ((s.pages.setIfInBounds k _).getD j #[]).size = 0 ∨ _ = s.pageLen
      rw [getD_setIfInBounds]; split
      · rw [Array.size_setIfInBounds]; exact h.pageSizes k
      · exact h.pageSizes j
    · intro hc; exact absurd hc hns
    · intro j m
      show 0 ≤ ((s.pages.setIfInBounds k _).getD j #[]).getD m 0
      rw [getD_setIfInBounds]; split
      · rw [getD_getD_setIfInBounds]; split
        · have := h.nonneg k l; grind
        · exact h.nonneg k m
      · exact h.nonneg j m
    · have := h.range; simpa using this
    · intro j
      show ((s.pages.setIfInBounds k _).getD j #[]).size ≠ 0 → PageIdx32 (s.minPageIndex + j)
      rw [getD_setIfInBounds]; split
      · rename_i hj; rw [Array.size_setIfInBounds, hj.1]; exact h.pageRange k
      · exact h.pageRange j
    · exact h.bufRange
  · intro q
    rw [pageAt_def, pageAt_def s q]
    simp only [Array.size_setIfInBounds]
    rw [hpa]
    by_cases hq : q = p
    · subst hq
      rw [if_pos ⟨hk'.1, hk'.2.1⟩, if_pos rfl, getD_setIfInBounds, if_pos (by omega)]
    · rw [if_neg hq]
      by_cases hr : s.minPageIndex ≤ q ∧ q < s.minPageIndex + (s.pages.size : Int)
      · rw [if_pos hr, if_pos hr, getD_setIfInBounds, if_neg (by omega)]
      · rw [if_neg hr, if_neg hr]


theorem eq_iff_page_line (s : PStore) (hL : s.pageLen = 32) (i j : Int) :
    j = i ↔ (s.pageIndex j = s.pageIndex i ∧ s.lineIndex j = s.lineIndex i) := by
  simp only [pageIndex, lineIndex, hL]; omega

theorem addAtPage_line (s : PStore) (h : Inv s) (i : Int) (k : Nat)
    (hk : s.slot? (s.pageIndex i) = some k) (hne : (s.pageAt (s.pageIndex i)).size ≠ 0)
    (c : Rat) (hc : 0 ≤ c) :
    ∃ s', s.addAtPage k (s.lineIndex i) c = some s' ∧ Inv s' ∧ s'.buffer = s.buffer ∧
      s'.trigger = s.trigger ∧ s'.pageLenLog2 = s.pageLenLog2 ∧ s'.minPageIndex = s.minPageIndex ∧
      s'.pages.size = s.pages.size ∧ (∀ q, (s'.pageAt q).size = (s.pageAt q).size) ∧
      ∀ j, s'.line j = s.line j + if j = i then c else 0 := by
  have hL := h.pageLen_eq
  have hsz : (s.pageAt (s.pageIndex i)).size = s.pageLen := by
    rcases pageAt_size s h (s.pageIndex i) with h0 | h0
    · exact absurd h0 hne
    · exact h0
  have hlt : s.lineIndex i < (s.pageAt (s.pageIndex i)).size := by
    rw [hsz]; exact lineIndex_lt s hL i
  obtain ⟨s', h1, h2, hb, ht, hl, hm, hs, hpa⟩ :=
    addAtPage_spec' s h (s.pageIndex i) k hk (s.lineIndex i) hlt c hc
  refine ⟨s', h1, h2, hb, ht, hl, hm, hs, ?_, ?_⟩
  · intro q; rw [hpa]; split
    · rename_i hq; rw [hq]; simp
    · rfl
  · intro j
    unfold line
    rw [pageIndex_congr hl, lineIndex_congr hl, hpa]
    by_cases hp : s.pageIndex j = s.pageIndex i
    · rw [if_pos hp, getD_getD_setIfInBounds, hp]
      by_cases hli : s.lineIndex j = s.lineIndex i
      · rw [if_pos ⟨hli, hlt⟩, if_pos ((eq_iff_page_line s hL i j).2 ⟨hp, hli⟩), hli]
      · rw [if_neg (fun hc => hli hc.1), if_neg (fun hc => hli ((eq_iff_page_line s hL i j).1 hc).2)]
        grind
    · rw [if_neg hp, if_neg (fun hc => hp ((eq_iff_page_line s hL i j).1 hc).1)]
      grind

/-- `addAtPage` on the slot of a materialised page: exactly one line changes, by `c` -/
theorem addAtPage_spec (s : PStore) (h : Inv s) (i : Int) (k : Nat)
    (hk : s.slot? (s.pageIndex i) = some k) (hne : (s.pages.getD k #[]).size ≠ 0)
    (c : Rat) (hc : 0 ≤ c) :
    ∃ s', s.addAtPage k (s.lineIndex i) c = some s' ∧ Inv s' ∧
      ∀ j, wt s' j = wt s j + if j = i then c else 0 := by
  rw [← pageAt_of_slot s _ k hk] at hne
  obtain ⟨s', h1, h2, hb, _, _, _, _, _, hline⟩ := addAtPage_line s h i k hk hne c hc
  refine ⟨s', h1, h2, ?_⟩
  intro j; unfold wt; rw [hb, hline]; grind



theorem inv_with_buffer (s : PStore) (h : Inv s) (b : List Int) (t : Nat) (hb : ∀ x ∈ b, Idx32 x) :
    Inv { s with buffer := b, trigger := t } :=
  ⟨h.log2, h.pageSizes, h.sentinel, h.nonneg, h.range, h.pageRange, hb⟩

theorem slot?_congr {s s' : PStore} (hm : s'.minPageIndex = s.minPageIndex)
    (hs : s'.pages.size = s.pages.size) (p : Int) : s'.slot? p = s.slot? p := by
  unfold slot?; rw [hm, hs]

theorem spanPage_append (s : PStore) (p : Int) (l : List Int) :
    (spanPage s p l).1 ++ (spanPage s p l).2 = l := by
  induction l with
  | nil => simp [spanPage]
  | cons x xs ih =>
    unfold spanPage
    split
    · simp only [List.cons_append, ih]
    · simp

theorem spanPage_fst_page (s : PStore) (p : Int) (l : List Int) :
    ∀ x ∈ (spanPage s p l).1, s.pageIndex x = p := by
  induction l with
  | nil => simp [spanPage]
  | cons x xs ih =>
    unfold spanPage
    split
    · rename_i hx
      intro y hy
      simp only [List.mem_cons] at hy
      rcases hy with rfl | hy
      · exact hx
      · exact ih y hy
    · simp

theorem spanPage_snd_length (s : PStore) (x : Int) (xs : List Int) :
    (spanPage s (s.pageIndex x) (x :: xs)).2.length ≤ xs.length := by
  unfold spanPage
  rw [if_pos rfl]
  exact spanPage_length s _ xs

/-- adding `c` on the lines of a list of indexes of one materialised page -/
theorem foldAdd_spec (grp : List Int) (c : Rat) (hc : 0 ≤ c) (s : PStore) (h : Inv s) (p : Int) (k : Nat)
    (hk : s.slot? p = some k) (hne : (s.pageAt p).size ≠ 0) (hg : ∀ x ∈ grp, s.pageIndex x = p) :
    ∃ s', grp.foldlM (fun acc i => addAtPage acc k (acc.lineIndex i) c) s = some s' ∧ Inv s' ∧
      s'.buffer = s.buffer ∧ s'.trigger = s.trigger ∧ s'.pageLenLog2 = s.pageLenLog2 ∧
      ∀ j, s'.line j = s.line j + c * (grp.count j : Rat) := by
  induction grp generalizing s with
  | nil => exact ⟨s, rfl, h, rfl, rfl, rfl, fun j => by simp; grind⟩
  | cons x xs ih =>
    have hx : s.pageIndex x = p := hg x (List.mem_cons_self ..)
    obtain ⟨s₁, h1, hI₁, hb₁, ht₁, hl₁, hm₁, hs₁, hsz₁, hline₁⟩ :=
      addAtPage_line s h x k (by rw [hx]; exact hk) (by rw [hx]; exact hne) c hc
    obtain ⟨s', h2, hI, hb, ht, hl, hline⟩ := ih s₁ hI₁ (by rw [slot?_congr hm₁ hs₁]; exact hk)
      (by rw [hsz₁]; exact hne)
      (fun y hy => by rw [pageIndex_congr hl₁]; exact hg y (List.mem_cons_of_mem _ hy))
    refine ⟨s', ?_, hI, hb.trans hb₁, ht.trans ht₁, hl.trans hl₁, ?_⟩
    · simp only [List.foldlM_cons, h1]; exact h2
    · intro j
      rw [hline, hline₁, List.count_cons]
      by_cases hj : j = x
      · subst hj; simp; grind
      · have : ¬ (x == j) = true := by simp; omega
        simp [hj, this]; grind


theorem compactLoop_spec (fuel : Nat) : ∀ (l kept : List Int) (s : PStore), Inv s →
    (∀ x ∈ l, Idx32 x) → l.length < fuel →
    ∃ s' kept', compactLoop s fuel l kept = some (s', kept') ∧ Inv s' ∧ s'.buffer = s.buffer ∧
      s'.trigger = s.trigger ∧ s'.pageLenLog2 = s.pageLenLog2 ∧
      (∀ j, s'.line j + (kept'.count j : Rat) = s.line j + (l.count j : Rat) + (kept.count j : Rat)) ∧
      (∀ x ∈ kept', x ∈ l ∨ x ∈ kept) := by
  induction fuel with
  | zero => intro l kept s _ _ hlen; omega
  | succ fuel ih =>
    intro l kept s h hl hlen
    cases l with
    | nil =>
      refine ⟨s, kept.reverse, by simp [compactLoop], h, rfl, rfl, rfl, ?_, ?_⟩
      · intro j; simp; grind
      · intro x hx; right; simpa using hx
    | cons x xs =>
      have hL := h.pageLen_eq
      rcases hsp : spanPage s (s.pageIndex x) (x :: xs) with ⟨grp, rest⟩
      have happ := spanPage_append s (s.pageIndex x) (x :: xs)
      have hpg := spanPage_fst_page s (s.pageIndex x) (x :: xs)
      have hrl := spanPage_snd_length s x xs
      rw [hsp] at happ hpg hrl
      simp only [] at happ hpg hrl
      have hcount : ∀ j, ((x :: xs).count j : Rat) = (grp.count j : Rat) + (rest.count j : Rat) := by
        intro j; rw [← happ, List.count_append]; simp
      have hmem : ∀ y, y ∈ grp ∨ y ∈ rest → y ∈ x :: xs := by
        intro y hy; rw [← happ]; exact List.mem_append.2 hy
      have hp32 : PageIdx32 (s.pageIndex x) :=
        pageIdx32_of_idx32 s hL x (hl x (List.mem_cons_self ..))
      obtain ⟨s₁, k?, hpage, hI₁, hb₁, ht₁, hl₁, hpa₁, hk₁⟩ :=
        page_spec' s h (s.pageIndex x) hp32 (decide (grp.length * 64 ≥ s.pageLen * 64))
      have hline₁ := line_of_pageAt_materialized s s₁ hl₁ _ _ hpa₁
      rw [compactLoop]
      simp only [hsp, hpage]
      cases k? with
      | some k =>
        simp only [] at hk₁
        have hne : (s₁.pageAt (s.pageIndex x)).size ≠ 0 := by
          rw [hk₁.2, pageLen_congr hl₁, hL]; omega
        obtain ⟨s₂, hfold, hI₂, hb₂, ht₂, hl₂, hline₂⟩ :=
          foldAdd_spec grp 1 (by decide) s₁ hI₁ (s.pageIndex x) k hk₁.1 hne
            (fun y hy => by rw [pageIndex_congr hl₁]; exact hpg y hy)
        simp only [hfold]
        obtain ⟨s', kept', h1, hI, hb, ht, hl', hcnt, hm⟩ := ih rest kept s₂ hI₂
          (fun y hy => hl y (hmem y (Or.inr hy))) (by simp only [List.length_cons] at hlen; omega)
        refine ⟨s', kept', h1, hI, hb.trans (hb₂.trans hb₁), ht.trans (ht₂.trans ht₁),
          hl'.trans (hl₂.trans hl₁), ?_, ?_⟩
        · intro j
          rw [hcnt, hline₂, hline₁, hcount]; grind
        · intro y hy
          rcases hm y hy with h3 | h3
          · exact Or.inl (hmem y (Or.inr h3))
          · exact Or.inr h3
      | none =>
        simp only []
        obtain ⟨s', kept', h1, hI, hb, ht, hl', hcnt, hm⟩ := ih rest (grp.reverse ++ kept) s₁ hI₁
          (fun y hy => hl y (hmem y (Or.inr hy))) (by simp only [List.length_cons] at hlen; omega)
        refine ⟨s', kept', h1, hI, hb.trans hb₁, ht.trans ht₁, hl'.trans hl₁, ?_, ?_⟩
        · intro j
          rw [hcnt, hline₁, hcount, List.count_append, List.count_reverse]; simp; grind
        · intro y hy
          rcases hm y hy with h3 | h3
          · exact Or.inl (hmem y (Or.inr h3))
          · rcases List.mem_append.1 h3 with h4 | h4
            · exact Or.inl (hmem y (Or.inl (List.mem_reverse.1 h4)))
            · exact Or.inr h4


theorem mem_sortInts (l : List Int) (j : Int) : j ∈ sortInts l ↔ j ∈ l :=
  (sortInts_perm l).mem_iff

/-- compaction never drops or duplicates an index -/
theorem compact_ok' (s : PStore) (h : Inv s) :
    ∃ s', s.compact = some s' ∧ Inv s' ∧ s'.pageLenLog2 = s.pageLenLog2 ∧
      (∀ x ∈ s'.buffer, x ∈ s.buffer) ∧ ∀ i, wt s' i = wt s i := by
  obtain ⟨s₁, kept, h1, hI, hb, ht, hl, hcnt, hm⟩ :=
    compactLoop_spec ((sortInts s.buffer).length + 1) (sortInts s.buffer) [] s h
      (fun x hx => h.bufRange x ((mem_sortInts _ _).1 hx)) (by omega)
  have hm' : ∀ x ∈ kept, x ∈ s.buffer := by
    intro x hx
    rcases hm x hx with h3 | h3
    · exact (mem_sortInts _ _).1 h3
    · simp at h3
  refine ⟨{ s₁ with buffer := kept, trigger := kept.length + s₁.pageLen }, ?_, ?_, hl, hm', ?_⟩
  · unfold compact
    simp only [h1, Option.bind_eq_bind, Option.bind_some, Option.pure_def]
  · exact inv_with_buffer s₁ hI kept _ (fun x hx => h.bufRange x (hm' x hx))
  · intro i
    have := hcnt i
    rw [count_sortInts] at this
    show s₁.line i + (kept.count i : Rat) = s.line i + (s.buffer.count i : Rat)
    rw [this]; simp; grind

theorem compact_ok (s : PStore) (h : Inv s) :
    ∃ s', s.compact = some s' ∧ Inv s' ∧ ∀ i, wt s' i = wt s i := by
  obtain ⟨s', h1, h2, _, _, h3⟩ := compact_ok' s h
  exact ⟨s', h1, h2, h3⟩


theorem wt_append_buffer (s : PStore) (i j : Int) :
    wt { s with buffer := s.buffer ++ [i] } j = wt s j + if j = i then 1 else 0 := by
  show s.line j + ((s.buffer ++ [i]).count j : Rat) = s.line j + (s.buffer.count j : Rat) + _
  rw [List.count_append, List.count_singleton]
  by_cases hj : j = i
  · subst hj; simp; grind
  · have : ¬ (i == j) = true := by simp; omega
    simp [hj, this]; grind

theorem inv_append_buffer (s : PStore) (h : Inv s) (i : Int) (hi : Idx32 i) :
    Inv { s with buffer := s.buffer ++ [i] } := by
  refine ⟨h.log2, h.pageSizes, h.sentinel, h.nonneg, h.range, h.pageRange, ?_⟩
  intro x hx
  rcases List.mem_append.1 hx with h1 | h1
  · exact h.bufRange x h1
  · simp at h1; subst h1; exact hi

theorem addUnit_ok (s : PStore) (h : Inv s) (i : Int) (hi : Idx32 i) (b : Bool) :
    ∃ s', s.addUnit i b = some s' ∧ Inv s' ∧ ∀ j, wt s' j = wt s j + if j = i then 1 else 0 := by
  unfold addUnit
  cases hs : s.slot? (s.pageIndex i) with
  | some k =>
    simp only []
    split
    · rename_i k' hk'
      split at hk'
      · cases hk'
        rename_i hpos
        exact addAtPage_spec s h i k hs (by omega) 1 (by decide)
      · cases hk'
    · by_cases hc : (b = true ∧ s.buffer.length ≥ s.trigger)
      · obtain ⟨s₁, h1, hI, h3⟩ := compact_ok s h
        refine ⟨{ s₁ with buffer := s₁.buffer ++ [i] }, ?_, inv_append_buffer s₁ hI i hi, ?_⟩
        · simp [hc, h1]
        · intro j; rw [wt_append_buffer, h3]
      · refine ⟨{ s with buffer := s.buffer ++ [i] }, ?_, inv_append_buffer s h i hi, ?_⟩
        · simp [hc]
        · intro j; rw [wt_append_buffer]
  | none =>
    simp only []
    by_cases hc : (b = true ∧ s.buffer.length ≥ s.trigger)
    · obtain ⟨s₁, h1, hI, h3⟩ := compact_ok s h
      refine ⟨{ s₁ with buffer := s₁.buffer ++ [i] }, ?_, inv_append_buffer s₁ hI i hi, ?_⟩
      · simp [hc, h1]
      · intro j; rw [wt_append_buffer, h3]
    · refine ⟨{ s with buffer := s.buffer ++ [i] }, ?_, inv_append_buffer s h i hi, ?_⟩
      · simp [hc]
      · intro j; rw [wt_append_buffer]

theorem addWithCount_ok (s : PStore) (h : Inv s) (i : Int) (hi : Idx32 i) (w : Rat) (hw : 0 ≤ w)
    (b : Bool) :
    ∃ s', s.addWithCount i w b = some s' ∧ Inv s' ∧
      ∀ j, wt s' j = wt s j + if j = i then w else 0 := by
  unfold addWithCount
  split
  · rename_i h0
    refine ⟨s, rfl, h, ?_⟩
    intro j; rw [h0]; split <;> grind
  · split
    · rename_i h1
      rw [h1]; exact addUnit_ok s h i hi b
    · have hL := h.pageLen_eq
      obtain ⟨s₁, k?, hpage, hI₁, hwt₁, hk₁⟩ :=
        page_spec s h (s.pageIndex i) (pageIdx32_of_idx32 s hL i hi) true
      obtain ⟨k, rfl, hslot, hsz⟩ := hk₁ rfl
      have hl₁ : s₁.pageLenLog2 = s.pageLenLog2 := by rw [hI₁.log2, h.log2]
      rw [← pageIndex_congr hl₁] at hslot
      obtain ⟨s', h1, hI, hwt⟩ := addAtPage_spec s₁ hI₁ i k hslot
        (by rw [hsz, hI₁.pageLen_eq]; omega) w hw
      refine ⟨s', ?_, hI, ?_⟩
      · simp only [hpage, Option.bind_eq_bind, Option.bind_some]
        exact h1
      · intro j; rw [hwt, hwt₁]



theorem getD_map_const_empty (a : Array (Array Rat)) (k : Nat) :
    (a.map (fun _ => (#[] : Array Rat))).getD k #[] = #[] := by
  simp only [Array.getD_eq_getD_getElem?, Array.getElem?_map]
  cases a[k]? <;> rfl

theorem getD_map_map (a : Array (Array Rat)) (f : Array Rat → Array Rat) (hf : f #[] = #[]) (k : Nat) :
    (a.map f).getD k #[] = f (a.getD k #[]) := by
  simp only [Array.getD_eq_getD_getElem?, Array.getElem?_map]
  cases a[k]? <;> simp [hf]

theorem getD_map_mul (a : Array Rat) (w : Rat) (l : Nat) :
    (a.map (· * w)).getD l 0 = a.getD l 0 * w := by
  simp only [Array.getD_eq_getD_getElem?, Array.getElem?_map]
  cases a[l]? <;> simp

/-- `Clear`: retained page slots are emptied; the stale trigger is harmless -/
theorem clear_spec (s : PStore) (h : Inv s) : Inv s.clear ∧ ∀ j, wt s.clear j = 0 := by
  have hall : ∀ k, (s.clear.pages.getD k #[]).size = 0 := by
    intro k; show ((s.pages.map _).getD k #[]).size = 0
    rw [getD_map_const_empty]; rfl
  constructor
  · constructor
    · exact h.log2
    · intro k; left; exact hall k
    · intro _; exact hall
    · intro k l
      rw [array_eq_empty_of_size _ (hall k)]; simp
    · refine ⟨?_, fun hc => absurd rfl hc⟩
      have := h.range.1
      simpa [clear] using this
    · intro k hk; exact absurd (hall k) hk
    · intro x hx; simp [clear] at hx
  · intro j
    unfold wt line
    rw [pageAt_of_allEmpty _ hall]
    simp [clear]; grind

theorem foldAddUnit_ok (l : List Int) (hl : ∀ x ∈ l, Idx32 x) (s : PStore) (h : Inv s) :
    ∃ s', l.foldlM (fun acc i => acc.addUnit i true) s = some s' ∧ Inv s' ∧
      ∀ j, wt s' j = wt s j + (l.count j : Rat) := by
  induction l generalizing s with
  | nil => exact ⟨s, rfl, h, fun j => by simp; grind⟩
  | cons x xs ih =>
    obtain ⟨s₁, h1, hI₁, hw₁⟩ := addUnit_ok s h x (hl x (List.mem_cons_self ..)) true
    obtain ⟨s', h2, hI, hw⟩ := ih (fun y hy => hl y (List.mem_cons_of_mem _ hy)) s₁ hI₁
    refine ⟨s', ?_, hI, ?_⟩
    · simp only [List.foldlM_cons, h1]; exact h2
    · intro j
      rw [hw, hw₁, List.count_cons]
      by_cases hj : j = x
      · subst hj; simp; grind
      · have : ¬ (x == j) = true := by simp; omega
        simp [hj, this]; grind

/-- fallback merge: `other.ForEach(s.AddWithCount)` -/
theorem mergeBins_ok (s : PStore) (h : Inv s) (l : List (Int × Rat))
    (hl : ∀ p ∈ l, Idx32 p.1 ∧ 0 ≤ p.2) :
    ∃ s', s.mergeBins l = some s' ∧ Inv s' ∧ ∀ j, wt s' j = wt s j + Content.lookup l j := by
  unfold mergeBins
  induction l generalizing s with
  | nil => exact ⟨s, rfl, h, fun j => by simp; grind⟩
  | cons x xs ih =>
    have hx := hl x (List.mem_cons_self ..)
    obtain ⟨s₁, h1, hI₁, hw₁⟩ := addWithCount_ok s h x.1 hx.1 x.2 hx.2 true
    obtain ⟨s', h2, hI, hw⟩ := ih s₁ hI₁ (fun y hy => hl y (List.mem_cons_of_mem _ hy))
    refine ⟨s', ?_, hI, ?_⟩
    · simp only [List.foldlM_cons, h1]; exact h2
    · intro j
      rw [hw, hw₁, Content.lookup_cons]
      by_cases hj : j = x.1
      · subst hj; simp; grind
      · have : ¬ x.1 = j := by omega
        simp [hj, this]; grind

theorem lookup_map_const (l : List Int) (w : Rat) (j : Int) :
    Content.lookup (l.map (fun i => (i, w))) j = (l.count j : Rat) * w := by
  induction l with
  | nil => simp
  | cons x xs ih =>
    simp only [List.map_cons, Content.lookup_cons, ih, List.count_cons]
    by_cases hj : x = j
    · subst hj; simp; grind
    · have : ¬ (x == j) = true := by simp; omega
      simp [hj, this]; grind

/-- `Reweight` (`w > 0`): every weight scales; buffered unit entries are re-added with weight `w` -/
theorem reweight_ok (s : PStore) (h : Inv s) (w : Rat) (hw : 0 < w) :
    ∃ s', s.reweight w = some s' ∧ Inv s' ∧ ∀ j, wt s' j = wt s j * w := by
  let s₀ : PStore := { s with buffer := [], pages := s.pages.map (fun pg => pg.map (· * w)) }
  have hget : ∀ k, s₀.pages.getD k #[] = (s.pages.getD k #[]).map (· * w) := by
    intro k
    exact getD_map_map s.pages (fun pg => pg.map (· * w)) (by simp) k
  have hI₀ : Inv s₀ := by
    constructor
    · exact h.log2
    · intro k; rw [hget, Array.size_map]; exact h.pageSizes k
    · intro hc k; rw [hget, Array.size_map]; exact h.sentinel hc k
    · intro k l; rw [hget, getD_map_mul]
      exact Rat.mul_nonneg (h.nonneg k l) (Rat.le_of_lt hw)
    · have := h.range; simpa [s₀] using this
    · intro k; rw [hget, Array.size_map]; exact h.pageRange k
    · intro x hx; simp [s₀] at hx
  have hline₀ : ∀ j, s₀.line j = s.line j * w := by
    intro j
    unfold line
    show (s₀.pageAt (s.pageIndex j)).getD (s.lineIndex j) 0 = _
    rw [pageAt_def, pageAt_def s]
    show (if s.minPageIndex ≤ s.pageIndex j ∧ s.pageIndex j < s.minPageIndex + ((s.pages.map _).size : Int)
      then s₀.pages.getD _ #[] else #[]).getD _ 0 = _
    rw [Array.size_map]
    split
    · rw [hget, getD_map_mul]
    · simp
  have hfold : s.reweight w = s₀.mergeBins (s.buffer.map (fun i => (i, w))) := by
    unfold reweight mergeBins
    rw [List.foldlM_map]
  obtain ⟨s', h1, hI, hwt⟩ := mergeBins_ok s₀ hI₀ (s.buffer.map (fun i => (i, w))) (by
    intro p hp
    obtain ⟨i, hi, rfl⟩ := List.mem_map.1 hp
    exact ⟨h.bufRange i hi, Rat.le_of_lt hw⟩)
  refine ⟨s', hfold.trans h1, hI, ?_⟩
  intro j
  rw [hwt, lookup_map_const]
  unfold wt
  rw [hline₀]
  show s.line j * w + (([] : List Int).count j : Rat) + _ = _
  simp; grind



theorem foldAddLines_spec (xs : List Rat) : ∀ (n : Nat) (s : PStore), Inv s → ∀ (p : Int) (k : Nat),
    s.slot? p = some k → (s.pageAt p).size ≠ 0 → (∀ c ∈ xs, 0 ≤ c) → n + xs.length ≤ 32 →
    ∃ s', (xs.zipIdx n).foldlM (fun (a : PStore) (cl : Rat × Nat) => addAtPage a k cl.2 cl.1) s = some s' ∧
      Inv s' ∧ s'.buffer = s.buffer ∧
      ∀ j, s'.line j = s.line j +
        if s.pageIndex j = p ∧ n ≤ s.lineIndex j then xs.getD (s.lineIndex j - n) 0 else 0 := by
  induction xs with
  | nil =>
    intro n s h p k _ _ _ _
    exact ⟨s, rfl, h, rfl, fun j => by simp; grind⟩
  | cons x xs ih =>
    intro n s h p k hk hne hx hn
    have hL := h.pageLen_eq
    simp only [List.length_cons] at hn
    have hnl : n < s.pageLen := by omega
    have hpi := pageIndex_index s hL p n hnl
    have hli := lineIndex_index s hL p n hnl
    obtain ⟨s₁, h1, hI₁, hb₁, ht₁, hl₁, hm₁, hs₁, hsz₁, hline₁⟩ :=
      addAtPage_line s h (s.index p n) k (by rw [hpi]; exact hk) (by rw [hpi]; exact hne) x
        (hx x (List.mem_cons_self ..))
    rw [hli] at h1
    obtain ⟨s', h2, hI, hb, hline⟩ := ih (n + 1) s₁ hI₁ p k (by rw [slot?_congr hm₁ hs₁]; exact hk)
      (by rw [hsz₁]; exact hne) (fun c hc => hx c (List.mem_cons_of_mem _ hc)) (by omega)
    refine ⟨s', ?_, hI, hb.trans hb₁, ?_⟩
    · simp only [List.zipIdx_cons, List.foldlM_cons, h1]; exact h2
    · intro j
      rw [hline, hline₁, pageIndex_congr hl₁, lineIndex_congr hl₁]
      have hinj := index_inj s hL j p n hnl
      by_cases hp : s.pageIndex j = p
      · by_cases hl : s.lineIndex j = n
        · have hj : j = s.index p n := ((hinj).2 ⟨hp, hl⟩).symm
          rw [if_pos hj, if_neg (by omega), if_pos ⟨hp, by omega⟩, hl]
          simp; grind
        · have hj : ¬ j = s.index p n := fun hc => hl ((hinj.1 hc.symm).2)
          rw [if_neg hj]
          by_cases hge : n ≤ s.lineIndex j
          · rw [if_pos ⟨hp, by omega⟩, if_pos ⟨hp, hge⟩]
            have : s.lineIndex j - n = (s.lineIndex j - (n + 1)) + 1 := by omega
            rw [this, List.getD_cons_succ]; grind
          · rw [if_neg (by omega), if_neg (by omega)]; grind
      · have hj : ¬ j = s.index p n := fun hc => hp ((hinj.1 hc.symm).1)
        rw [if_neg hj, if_neg (fun hc => hp hc.1), if_neg (fun hc => hp hc.1)]; grind


/-- loop body of the page-merging phase of `mergeSame` -/
def mergePageBody (om : Int) (acc : PStore) (pgoff : Array Rat × Nat) : Option PStore := do
  let (pg, off) := pgoff
  if pg.size = 0 then pure acc
  else
    let (acc, k?) ← acc.page (om + (off : Int)) true
    let k ← k?
    (pg.toList.zipIdx).foldlM (fun (a : PStore) (cl : Rat × Nat) => addAtPage a k cl.2 cl.1) acc

theorem mergeSame_eq (s o : PStore) :
    s.mergeSame o = (do
      let s ← (o.pages.toList.zipIdx).foldlM (mergePageBody o.minPageIndex) s
      o.buffer.foldlM (fun acc i => acc.addUnit i true) s) := rfl

theorem toList_getD (pg : Array Rat) (m : Nat) : pg.toList.getD m 0 = pg.getD m 0 := by
  simp [Array.getD_eq_getD_getElem?, List.getD_eq_getElem?_getD]

theorem foldMergePages_spec (xs : List (Array Rat)) : ∀ (n : Nat) (om : Int) (s : PStore), Inv s →
    (∀ m, (xs.getD m #[]).size = 0 ∨ (xs.getD m #[]).size = 32) →
    (∀ m l, 0 ≤ (xs.getD m #[]).getD l 0) →
    (∀ m : Nat, (xs.getD m #[]).size ≠ 0 → PageIdx32 (om + (n : Int) + (m : Int))) →
    ∃ s', (xs.zipIdx n).foldlM (mergePageBody om) s = some s' ∧ Inv s' ∧ s'.buffer = s.buffer ∧
      ∀ j, s'.line j = s.line j +
        if om + (n : Int) ≤ s.pageIndex j then
          (xs.getD (s.pageIndex j - om - (n : Int)).toNat #[]).getD (s.lineIndex j) 0 else 0 := by
  induction xs with
  | nil =>
    intro n om s h _ _ _
    exact ⟨s, rfl, h, rfl, fun j => by simp <;> grind⟩
  | cons pg xs ih =>
    intro n om s h hsz hnn hrg
    have hsz0 := hsz 0
    have hnn0 := hnn 0
    have hrg0 := hrg 0
    simp only [List.getD_cons_zero] at hsz0 hnn0 hrg0
    have hsz' : ∀ m, (xs.getD m #[]).size = 0 ∨ (xs.getD m #[]).size = 32 := fun m => by
      have := hsz (m + 1); simpa using this
    have hnn' : ∀ m l, 0 ≤ (xs.getD m #[]).getD l 0 := fun m l => by
      have := hnn (m + 1) l; simpa using this
    have hrg' : ∀ m : Nat, (xs.getD m #[]).size ≠ 0 → PageIdx32 (om + ((n + 1 : Nat) : Int) + (m : Int)) := by
      intro m hm
      have := hrg (m + 1) (by simpa using hm)
      have e : om + ((n + 1 : Nat) : Int) + (m : Int) = om + (n : Int) + ((m + 1 : Nat) : Int) := by omega
      rw [e]; exact this
    have hgetD : ∀ (q : Int) (l : Nat), om + (n : Int) ≤ q →
        ((pg :: xs).getD (q - om - (n : Int)).toNat #[]).getD l 0 =
          (if q = om + (n : Int) then pg.getD l 0 else 0) +
          (if om + ((n + 1 : Nat) : Int) ≤ q then (xs.getD (q - om - ((n + 1 : Nat) : Int)).toNat #[]).getD l 0 else 0) := by
      intro q l hq
      by_cases hq2 : q = om + (n : Int)
      · have : (q - om - (n : Int)).toNat = 0 := by omega
        rw [this, if_pos hq2, if_neg (by omega)]; simp <;> grind
      · have : (q - om - (n : Int)).toNat = (q - om - ((n + 1 : Nat) : Int)).toNat + 1 := by omega
        rw [this, if_neg hq2, if_pos (by omega), List.getD_cons_succ]; simp <;> grind
    by_cases hz : pg.size = 0
    · obtain ⟨s', h2, hI, hb, hline⟩ := ih (n + 1) om s h hsz' hnn' hrg'
      refine ⟨s', ?_, hI, hb, ?_⟩
      · simp only [List.zipIdx_cons, List.foldlM_cons]
        have : mergePageBody om s (pg, n) = some s := by simp [mergePageBody, hz]
        simp only [this]; exact h2
      · intro j
        rw [hline]
        by_cases hq : om + (n : Int) ≤ s.pageIndex j
        · rw [if_pos hq, hgetD _ _ hq, array_eq_empty_of_size pg hz]; rw [empty_getD, ite_self, Rat.zero_add]
        · rw [if_neg hq, if_neg (by omega)]
    · have h32 : pg.size = 32 := by rcases hsz0 with h0 | h0; exact absurd h0 hz; exact h0
      have hp32 : PageIdx32 (om + (n : Int)) := by
        have := hrg0 hz; simpa using this
      obtain ⟨s₁, k?, hpage, hI₁, hb₁, ht₁, hl₁, hpa₁, hk₁⟩ := page_spec' s h (om + (n : Int)) hp32 true
      have hline₁ := line_of_pageAt_materialized s s₁ hl₁ _ _ hpa₁
      have hL₁ := hI₁.pageLen_eq
      cases k? with
      | none =>
        exfalso
        simp only [] at hk₁
        rw [hpa₁] at hk₁
        split at hk₁
        · rw [zeroPage_size, h.pageLen_eq] at hk₁; omega
        · rename_i hc; exact hc ⟨rfl, rfl, hk₁⟩
      | some k =>
        simp only [] at hk₁
        obtain ⟨s₂, hfold, hI₂, hb₂, hline₂⟩ := foldAddLines_spec pg.toList 0 s₁ hI₁ (om + (n : Int)) k
          hk₁.1 (by rw [hk₁.2, hL₁]; omega)
          (by
            intro c hc
            obtain ⟨i, hi, rfl⟩ := List.getElem_of_mem hc
            have := hnn0 i
            rw [Array.getD_eq_getD_getElem?] at this
            simp only [Array.length_toList] at hi
            simpa [hi] using this)
          (by simp [h32])
        have hl₂ : s₂.pageLenLog2 = s.pageLenLog2 := by rw [hI₂.log2, h.log2]
        obtain ⟨s', h2, hI, hb, hline⟩ := ih (n + 1) om s₂ hI₂ hsz' hnn' hrg'
        refine ⟨s', ?_, hI, hb.trans (hb₂.trans hb₁), ?_⟩
        · simp only [List.zipIdx_cons, List.foldlM_cons]
          have : mergePageBody om s (pg, n) = some s₂ := by
            simp only [mergePageBody, hz, if_false, hpage, Option.bind_eq_bind, Option.bind_some]
            exact hfold
          simp only [this]; exact h2
        · intro j
          rw [hline, hline₂, hline₁, pageIndex_congr hl₂, lineIndex_congr hl₂, pageIndex_congr hl₁,
            lineIndex_congr hl₁]
          by_cases hq : om + (n : Int) ≤ s.pageIndex j
          · rw [if_pos hq, hgetD _ _ hq, toList_getD]
            by_cases hq2 : s.pageIndex j = om + (n : Int)
            · rw [if_pos ⟨hq2, by omega⟩, if_pos hq2]; simp only [Nat.sub_zero, Rat.add_assoc]
            · rw [if_neg (fun hc => hq2 hc.1), if_neg hq2]; simp only [Rat.zero_add, Rat.add_zero]
          · rw [if_neg hq, if_neg (by omega), if_neg (by omega)]; simp only [Rat.add_zero]


theorem toList_getD_pages (a : Array (Array Rat)) (m : Nat) : a.toList.getD m #[] = a.getD m #[] := by
  simp [Array.getD_eq_getD_getElem?, List.getD_eq_getElem?_getD]

theorem getD_pages_oob (a : Array (Array Rat)) (k : Nat) (h : a.size ≤ k) : a.getD k #[] = #[] := by
  rw [Array.getD_eq_getD_getElem?, Array.getElem?_eq_none h]; rfl

/-- same-kind fast path of `MergeWith`: pointwise sum -/
theorem mergeSame_ok (s o : PStore) (hs : Inv s) (ho : Inv o) :
    ∃ s', s.mergeSame o = some s' ∧ Inv s' ∧ ∀ j, wt s' j = wt s j + wt o j := by
  have hLo := ho.pageLen_eq
  have hlog : s.pageLenLog2 = o.pageLenLog2 := by rw [hs.log2, ho.log2]
  obtain ⟨s₁, h1, hI₁, hb₁, hline₁⟩ := foldMergePages_spec o.pages.toList 0 o.minPageIndex s hs
    (fun m => by rw [toList_getD_pages, ← hLo]; exact ho.pageSizes m)
    (fun m l => by rw [toList_getD_pages]; exact ho.nonneg m l)
    (fun m hm => by
      rw [toList_getD_pages] at hm
      have := ho.pageRange m hm
      simpa using this)
  obtain ⟨s', h2, hI, hwt⟩ := foldAddUnit_ok o.buffer ho.bufRange s₁ hI₁
  refine ⟨s', ?_, hI, ?_⟩
  · rw [mergeSame_eq]
    simp only [h1, Option.bind_eq_bind, Option.bind_some]
    exact h2
  · intro j
    rw [hwt]
    unfold wt
    rw [hb₁, hline₁]
    have : (if o.minPageIndex + ((0 : Nat) : Int) ≤ s.pageIndex j then
        (o.pages.toList.getD (s.pageIndex j - o.minPageIndex - ((0 : Nat) : Int)).toNat #[]).getD (s.lineIndex j) 0
        else 0) = o.line j := by
      unfold line
      rw [pageIndex_congr hlog, lineIndex_congr hlog, pageAt_def, toList_getD_pages]
      by_cases h1 : o.minPageIndex ≤ o.pageIndex j
      · rw [if_pos (by omega)]
        by_cases h2 : o.pageIndex j < o.minPageIndex + (o.pages.size : Int)
        · rw [if_pos ⟨h1, h2⟩]; congr 2; omega
        · rw [if_neg (fun hc => h2 hc.2)]
          rw [getD_pages_oob _ _ (by omega)]
      · rw [if_neg (by omega), if_neg (fun hc => h1 hc.1)]; simp
    rw [this]
    simp only [Rat.add_assoc, Rat.add_comm, Rat.add_left_comm]


theorem inv_new : Inv PStore.new := by
  constructor
  · rfl
  · intro k; left; simp [PStore.new]
  · intro _ k; simp [PStore.new]
  · intro k l; simp [PStore.new]
  · constructor
    · simp [PStore.new]
    · intro hc; exact absurd rfl hc
  · intro k hk; simp [PStore.new] at hk
  · intro x hx; simp [PStore.new] at hx

theorem wt_new (j : Int) : wt PStore.new j = 0 := by
  unfold wt line
  rw [pageAt_of_allEmpty _ (by intro k; simp [PStore.new])]
  simp [PStore.new]; grind

/-- a read that sorts the buffer in place (`Bins`, `ForEach`, `KeyAtRank`, serialisation) -/
def sortRead (s : PStore) : PStore := { s with buffer := sortInts s.buffer }

theorem sortRead_spec (s : PStore) (h : Inv s) : Inv s.sortRead ∧ ∀ j, wt s.sortRead j = wt s j := by
  constructor
  · exact inv_with_buffer s h _ s.trigger (fun x hx => h.bufRange x ((mem_sortInts _ _).1 hx))
  · intro j
    show s.line j + ((sortInts s.buffer).count j : Rat) = _
    rw [count_sortInts]; rfl

/-- operations of a history; `add` carries the allocator's compaction bit -/
inductive Op where
  | add (i : Int) (w : Rat) (compactBit : Bool)
  | clear
  | reweight (w : Rat)
  | sortRead

/-- admissible arguments: int32 indexes, weights `≥ 0`, reweighting factors `> 0` -/
def Op.ok : Op → Prop
  | .add i w _ => Idx32 i ∧ 0 ≤ w
  | .clear => True
  | .reweight w => 0 < w
  | .sortRead => True

def step (s : PStore) : Op → Option PStore
  | .add i w b => s.addWithCount i w b
  | .clear => some s.clear
  | .reweight w => s.reweight w
  | .sortRead => some s.sortRead

def run (s : PStore) (ops : List Op) : Option PStore := ops.foldlM step s

/-- the spec-level effect of an operation on the content -/
def specStep (c : Content) : Op → Content
  | .add i w _ => c.add i w
  | .clear => []
  | .reweight w => c.scale w
  | .sortRead => c

def specRun (c : Content) (ops : List Op) : Content := ops.foldl specStep c

theorem step_ok (s : PStore) (h : Inv s) (c : Content) (hc : ∀ j, wt s j = c.lookup j) (op : Op)
    (hop : op.ok) :
    ∃ s', step s op = some s' ∧ Inv s' ∧ ∀ j, wt s' j = (specStep c op).lookup j := by
  cases op with
  | add i w b =>
    obtain ⟨s', h1, h2, h3⟩ := addWithCount_ok s h i hop.1 w hop.2 b
    refine ⟨s', h1, h2, ?_⟩
    intro j; rw [h3, hc]; exact (Content.lookup_add c i w j).symm
  | clear =>
    obtain ⟨h2, h3⟩ := clear_spec s h
    exact ⟨s.clear, rfl, h2, fun j => by rw [h3]; rfl⟩
  | reweight w =>
    obtain ⟨s', h1, h2, h3⟩ := reweight_ok s h w hop
    refine ⟨s', h1, h2, ?_⟩
    intro j; rw [h3, hc]; exact (Content.lookup_scale c w j).symm
  | sortRead =>
    obtain ⟨h2, h3⟩ := sortRead_spec s h
    exact ⟨s.sortRead, rfl, h2, fun j => by rw [h3]; exact hc j⟩

theorem run_ok_from (ops : List Op) (hops : ∀ op ∈ ops, op.ok) (s : PStore) (h : Inv s) (c : Content)
    (hc : ∀ j, wt s j = c.lookup j) :
    ∃ s', run s ops = some s' ∧ Inv s' ∧ ∀ j, wt s' j = (specRun c ops).lookup j := by
  induction ops generalizing s c with
  | nil => exact ⟨s, rfl, h, hc⟩
  | cons op ops ih =>
    obtain ⟨s₁, h1, hI₁, hc₁⟩ := step_ok s h c hc op (hops op (List.mem_cons_self ..))
    obtain ⟨s', h2, hI, hc'⟩ := ih (fun o ho => hops o (List.mem_cons_of_mem _ ho)) s₁ hI₁ _ hc₁
    refine ⟨s', ?_, hI, hc'⟩
    unfold run
    simp only [List.foldlM_cons, h1]
    exact h2

/-- every history of admissible operations (arbitrary compaction bits) from `PStore.new` succeeds,
    keeps `Inv`, and holds pointwise the weights of the spec content accumulated by the same ops -/
theorem run_ok (ops : List Op) (hops : ∀ op ∈ ops, op.ok) :
    ∃ s, run PStore.new ops = some s ∧ Inv s ∧ ∀ j, wt s j = (specRun [] ops).lookup j :=
  run_ok_from ops hops PStore.new inv_new [] (fun j => by rw [wt_new]; rfl)

theorem specRun_wf (ops : List Op) (hops : ∀ op ∈ ops, op.ok) (c : Content) (hc : c.WF) :
    (specRun c ops).WF := by
  induction ops generalizing c with
  | nil => exact hc
  | cons op ops ih =>
    apply ih (fun o ho => hops o (List.mem_cons_of_mem _ ho))
    have hop := hops op (List.mem_cons_self ..)
    cases op with
    | add i w b => exact Content.wf_add c i w hc hop.2
    | clear => exact Content.wf_nil
    | reweight w => exact Content.wf_scale c w hc hop
    | sortRead => exact hc

/-! # Part IV — the `MinIndex` / `MaxIndex` scans -/

/-! ## basic facts on `line` / `wt` -/

theorem scan_line_eq (s : PStore) (j : Int) :
    s.line j = if s.minPageIndex ≤ s.pageIndex j ∧ s.pageIndex j < s.minPageIndex + (s.pages.size : Int)
      then (s.pages.getD (s.pageIndex j - s.minPageIndex).toNat #[]).getD (s.lineIndex j) 0 else 0 := by
  unfold line; rw [pageAt_def]; split <;> simp

theorem scan_line_nonneg (s : PStore) (h : Inv s) (j : Int) : 0 ≤ s.line j := by
  rw [scan_line_eq]; split
  · exact h.nonneg _ _
  · exact Rat.le_refl

theorem scan_line_at (s : PStore) (j : Int) (k : Nat) (hk : k < s.pages.size)
    (hp : s.pageIndex j = s.minPageIndex + (k : Int)) :
    s.line j = (s.pages.getD k #[]).getD (s.lineIndex j) 0 := by
  rw [scan_line_eq, if_pos (by omega)]
  have : (s.pageIndex j - s.minPageIndex).toNat = k := by omega
  rw [this]

theorem scan_line_pos (s : PStore) (j : Int) (hj : 0 < s.line j) :
    ∃ k, k < s.pages.size ∧ s.pageIndex j = s.minPageIndex + (k : Int) := by
  rw [scan_line_eq] at hj
  split at hj
  · exact ⟨(s.pageIndex j - s.minPageIndex).toNat, by omega, by omega⟩
  · exact absurd hj (Rat.lt_irrefl)

theorem scan_wt_pos_iff (s : PStore) (h : Inv s) (j : Int) :
    0 < s.wt j ↔ (0 < s.line j ∨ j ∈ s.buffer) := by
  have h0 := scan_line_nonneg s h j
  have hc : (0 : Rat) ≤ (s.buffer.count j : Rat) := Rat.natCast_nonneg
  unfold wt
  constructor
  · intro hw
    by_cases hm : j ∈ s.buffer
    · exact Or.inr hm
    · left
      have : s.buffer.count j = 0 := List.count_eq_zero_of_not_mem hm
      rw [this] at hw
      simp at hw
      grind
  · intro hw
    rcases hw with hw | hw
    · grind
    · have : (0 : Rat) < (s.buffer.count j : Rat) := Rat.natCast_pos.mpr (List.count_pos_iff.mpr hw)
      grind

theorem scan_wt_zero (s : PStore) (h : Inv s) (j : Int) (hl : s.line j ≤ 0) (hb : j ∉ s.buffer) :
    s.wt j = 0 := by
  have h0 := scan_line_nonneg s h j
  unfold wt
  have : s.buffer.count j = 0 := List.count_eq_zero_of_not_mem hb
  rw [this]
  have : s.line j = 0 := Rat.le_antisymm hl h0
  rw [this]; simp; grind

/-! ## `listMin?`, `listMax?` -/

theorem scan_foldl_min (l : List Int) (a : Int) :
    (l.foldl min a = a ∨ l.foldl min a ∈ l) ∧ l.foldl min a ≤ a ∧ ∀ x ∈ l, l.foldl min a ≤ x := by
  induction l generalizing a with
  | nil => simp
  | cons y ys ih =>
    simp only [List.foldl_cons, List.mem_cons]
    have := ih (min a y)
    rcases this with ⟨h1, h2, h3⟩
    refine ⟨?_, by omega, ?_⟩
    · rcases h1 with h1 | h1
      · rw [h1]; omega
      · exact Or.inr (Or.inr h1)
    · intro x hx
      rcases hx with hx | hx
      · omega
      · exact h3 x hx

theorem scan_foldl_max (l : List Int) (a : Int) :
    (l.foldl max a = a ∨ l.foldl max a ∈ l) ∧ a ≤ l.foldl max a ∧ ∀ x ∈ l, x ≤ l.foldl max a := by
  induction l generalizing a with
  | nil => simp
  | cons y ys ih =>
    simp only [List.foldl_cons, List.mem_cons]
    have := ih (max a y)
    rcases this with ⟨h1, h2, h3⟩
    refine ⟨?_, by omega, ?_⟩
    · rcases h1 with h1 | h1
      · rw [h1]; omega
      · exact Or.inr (Or.inr h1)
    · intro x hx
      rcases hx with hx | hx
      · omega
      · exact h3 x hx

theorem scan_listMin_none (l : List Int) (h : listMin? l = none) : l = [] := by
  cases l with
  | nil => rfl
  | cons x xs => simp [listMin?] at h

theorem scan_listMin_some (l : List Int) (m : Int) (h : listMin? l = some m) :
    m ∈ l ∧ ∀ x ∈ l, m ≤ x := by
  cases l with
  | nil => simp [listMin?] at h
  | cons y ys =>
    simp only [listMin?, Option.some.injEq] at h
    have := scan_foldl_min ys y
    rw [h] at this
    rcases this with ⟨h1, h2, h3⟩
    simp only [List.mem_cons]
    refine ⟨?_, ?_⟩
    · rcases h1 with h1 | h1
      · exact Or.inl h1
      · exact Or.inr h1
    · intro x hx
      rcases hx with hx | hx
      · omega
      · exact h3 x hx

theorem scan_listMax_none (l : List Int) (h : listMax? l = none) : l = [] := by
  cases l with
  | nil => rfl
  | cons x xs => simp [listMax?] at h

theorem scan_listMax_some (l : List Int) (m : Int) (h : listMax? l = some m) :
    m ∈ l ∧ ∀ x ∈ l, x ≤ m := by
  cases l with
  | nil => simp [listMax?] at h
  | cons y ys =>
    simp only [listMax?, Option.some.injEq] at h
    have := scan_foldl_max ys y
    rw [h] at this
    rcases this with ⟨h1, h2, h3⟩
    simp only [List.mem_cons]
    refine ⟨?_, ?_⟩
    · rcases h1 with h1 | h1
      · exact Or.inl h1
      · exact Or.inr h1
    · intro x hx
      rcases hx with hx | hx
      · omega
      · exact h3 x hx

/-! ## `find?` over `range` -/

theorem scan_find_range_some (n l : Nat) (f : Nat → Bool) (h : (List.range n).find? f = some l) :
    f l = true ∧ l < n ∧ ∀ l', l' < l → f l' = false := by
  rw [List.find?_range_eq_some] at h
  refine ⟨h.1, List.mem_range.1 h.2.1, ?_⟩
  intro l' hl'
  have := h.2.2 l' hl'
  simpa using this

theorem scan_find_range_none (n : Nat) (f : Nat → Bool) (h : (List.range n).find? f = none) :
    ∀ l, l < n → f l = false := by
  rw [List.find?_eq_none] at h
  intro l hl
  have := h l (List.mem_range.2 hl)
  simpa using this

/-! ## `minIndex?` -/

/-- result specification of the `MinIndex` page scan -/
def scan_MinRes (s : PStore) (r : Option Int) : Prop :=
  match r with
  | none => s.buffer = [] ∧ ∀ j, s.line j ≤ 0
  | some k => (0 < s.line k ∨ k ∈ s.buffer) ∧ ∀ j, (0 < s.line j ∨ j ∈ s.buffer) → k ≤ j

theorem scan_min_loop (s : PStore) (h : Inv s) (b : Option Int)
    (hbn : b = none → s.buffer = [])
    (hbs : ∀ m, b = some m → m ∈ s.buffer ∧ ∀ x ∈ s.buffer, m ≤ x) :
    ∀ (n a : Nat), a + n = s.pages.size →
      (∀ j, 0 < s.line j → s.pageIndex j < s.minPageIndex + (a : Int) → ∃ m, b = some m ∧ m ≤ j) →
      scan_MinRes s (minIndex?.scan s b (List.range' a n)) := by
  have hL := h.pageLen_eq
  intro n
  induction n with
  | zero =>
    intro a ha H
    have H' : ∀ j, 0 < s.line j → ∃ m, b = some m ∧ m ≤ j := by
      intro j hj
      obtain ⟨k, hk, hp⟩ := scan_line_pos s j hj
      exact H j hj (by omega)
    simp only [List.range'_zero, minIndex?.scan]
    cases hb : b with
    | none =>
      refine ⟨hbn hb, ?_⟩
      intro j
      apply Rat.not_lt.1
      intro hj
      obtain ⟨m, hm, _⟩ := H' j hj
      rw [hb] at hm; cases hm
    | some m =>
      obtain ⟨hm1, hm2⟩ := hbs m hb
      refine ⟨Or.inr hm1, ?_⟩
      intro j hj
      rcases hj with hj | hj
      · obtain ⟨m', hm', hle⟩ := H' j hj
        rw [hb] at hm'; cases hm'; exact hle
      · exact hm2 j hj
  | succ n ih =>
    intro a ha H
    have hlt : a < s.pages.size := by omega
    rw [List.range'_succ]
    have Hnext : (∀ j, s.pageIndex j = s.minPageIndex + (a : Int) → 0 < s.line j →
        ∃ m, b = some m ∧ m ≤ j) →
        scan_MinRes s (minIndex?.scan s b (List.range' (a + 1) n)) := by
      intro H2
      apply ih (a + 1) (by omega)
      intro j hj hp
      by_cases hpe : s.pageIndex j = s.minPageIndex + (a : Int)
      · exact H2 j hpe hj
      · exact H j hj (by omega)
    have hline : ∀ j, s.pageIndex j = s.minPageIndex + (a : Int) →
        s.line j = (s.pages.getD a #[]).getD (s.lineIndex j) 0 :=
      fun j hp => scan_line_at s j a hlt hp
    have hempty : (s.pages.getD a #[]).size = 0 →
        scan_MinRes s (minIndex?.scan s b (List.range' (a + 1) n)) := by
      intro he
      apply Hnext
      intro j hp hj
      rw [hline j hp, array_eq_empty_of_size _ he] at hj
      simp at hj
    have hposl : ∀ l, l < 32 → (s.pages.getD a #[]).getD l 0 > 0 →
        0 < s.line (s.index (s.minPageIndex + (a : Int)) l) := by
      intro l hl hv
      rw [hline _ (pageIndex_index s hL _ l (by omega)), lineIndex_index s hL _ l (by omega)]
      exact hv
    simp only [minIndex?.scan]
    generalize s.pages.getD a #[] = pg at *
    cases b with
    | none =>
      have hbuf := hbn rfl
      simp only [Bool.not_true, Bool.false_eq_true, if_false]
      split
      · rename_i he; exact hempty he
      · split
        · rename_i l hf
          obtain ⟨hf1, hf2, hf3⟩ := scan_find_range_some _ _ _ hf
          simp only [decide_eq_true_eq, decide_eq_false_iff_not] at hf1 hf3
          refine ⟨Or.inl (hposl l (by omega) hf1), ?_⟩
          intro j hj
          rw [hbuf] at hj
          rcases hj with hj | hj
          · by_cases hp1 : s.pageIndex j < s.minPageIndex + (a : Int)
            · obtain ⟨m, hm, _⟩ := H j hj hp1; cases hm
            · by_cases hp2 : s.pageIndex j = s.minPageIndex + (a : Int)
              · have hj' := hj
                rw [hline j hp2] at hj'
                have : ¬ s.lineIndex j < l := fun hc => hf3 _ hc hj'
                simp only [index, pageIndex, lineIndex, hL] at *; omega
              · simp only [index, pageIndex, lineIndex, hL] at *; omega
          · cases hj
        · rename_i hf
          have hf' := scan_find_range_none _ _ hf
          simp only [decide_eq_false_iff_not] at hf'
          apply Hnext
          intro j hp hj
          rw [hline j hp] at hj
          exact absurd hj (hf' _ (lineIndex_lt s hL j))
    | some m =>
      obtain ⟨hm1, hm2⟩ := hbs m rfl
      simp only []
      split
      · rename_i hc
        simp only [Bool.not_eq_true', decide_eq_false_iff_not] at hc
        refine ⟨Or.inr hm1, ?_⟩
        intro j hj
        rcases hj with hj | hj
        · by_cases hp1 : s.pageIndex j < s.minPageIndex + (a : Int)
          · obtain ⟨m', hm', hle⟩ := H j hj hp1; cases hm'; exact hle
          · simp only [index, pageIndex, lineIndex, hL] at *; omega
        · exact hm2 j hj
      · rename_i hc
        simp only [Bool.not_eq_true', decide_eq_false_iff_not, Decidable.not_not] at hc
        split
        · rename_i he; exact hempty he
        · have hle : (if s.minPageIndex + (a : Int) = s.pageIndex m then s.lineIndex m else s.pageLen) ≤ 32 := by
            have := lineIndex_lt s hL m
            split <;> omega
          split
          · rename_i l hf
            obtain ⟨hf1, hf2, hf3⟩ := scan_find_range_some _ _ _ hf
            simp only [decide_eq_true_eq, decide_eq_false_iff_not] at hf1 hf3
            refine ⟨Or.inl (hposl l (by omega) hf1), ?_⟩
            have hml : s.index (s.minPageIndex + (a : Int)) l ≤ m := by
              split at hf2
              · simp only [index, pageIndex, lineIndex, hL] at *; omega
              · simp only [index, pageIndex, lineIndex, hL] at *; omega
            intro j hj
            rcases hj with hj | hj
            · by_cases hp1 : s.pageIndex j < s.minPageIndex + (a : Int)
              · obtain ⟨m', hm', hle'⟩ := H j hj hp1; cases hm'
                simp only [index, pageIndex, lineIndex, hL] at *; omega
              · by_cases hp2 : s.pageIndex j = s.minPageIndex + (a : Int)
                · have hj' := hj
                  rw [hline j hp2] at hj'
                  have : ¬ s.lineIndex j < l := fun hc => hf3 _ hc hj'
                  simp only [index, pageIndex, lineIndex, hL] at *; omega
                · simp only [index, pageIndex, lineIndex, hL] at *; omega
            · have := hm2 j hj; omega
          · rename_i hf
            have hf' := scan_find_range_none _ _ hf
            simp only [decide_eq_false_iff_not] at hf'
            apply Hnext
            intro j hp hj
            refine ⟨m, rfl, ?_⟩
            rw [hline j hp] at hj
            have hge : ¬ s.lineIndex j < (if s.minPageIndex + (a : Int) = s.pageIndex m then s.lineIndex m else s.pageLen) :=
              fun hc => hf' _ hc hj
            have := lineIndex_lt s hL j
            split at hge
            · simp only [index, pageIndex, lineIndex, hL] at *; omega
            · omega

theorem scan_min_res (s : PStore) (h : Inv s) : scan_MinRes s s.minIndex? := by
  unfold minIndex?
  have := scan_min_loop s h (listMin? s.buffer) (scan_listMin_none _) (scan_listMin_some _)
    s.pages.size 0 (by omega) (by
      intro j hj hp
      obtain ⟨k, hk, hp'⟩ := scan_line_pos s j hj
      omega)
  rw [← List.range_eq_range'] at this
  exact this

/-- `MinIndex()`: the buffer scan + the page scan with its early exits return the least index of
    positive weight (`none` iff the store is empty) -/
theorem minIndex_spec (s : PStore) (h : Inv s) :
    match s.minIndex? with
    | none => ∀ j, wt s j = 0
    | some k => 0 < wt s k ∧ ∀ j, 0 < wt s j → k ≤ j := by
  have hr := scan_min_res s h
  unfold scan_MinRes at hr
  split
  · rename_i heq
    rw [heq] at hr
    intro j
    apply scan_wt_zero s h j (hr.2 j)
    rw [hr.1]; simp
  · rename_i k heq
    rw [heq] at hr
    refine ⟨(scan_wt_pos_iff s h k).2 hr.1, ?_⟩
    intro j hj
    exact hr.2 j ((scan_wt_pos_iff s h j).1 hj)

/-! ## `maxIndex?` -/

theorem scan_find_rev_some (n l : Nat) (g : Nat → Bool) (h : (List.range n).reverse.find? g = some l) :
    g l = true ∧ l < n ∧ ∀ l', l < l' → l' < n → g l' = false := by
  induction n with
  | zero => simp at h
  | succ n ih =>
    rw [List.range_succ, List.reverse_append, List.reverse_singleton, List.singleton_append,
      List.find?_cons] at h
    cases hg : g n with
    | true =>
      rw [hg] at h
      simp only [Option.some.injEq] at h
      subst h
      exact ⟨hg, by omega, fun l' h1 h2 => by omega⟩
    | false =>
      rw [hg] at h
      obtain ⟨h1, h2, h3⟩ := ih h
      refine ⟨h1, by omega, ?_⟩
      intro l' hl1 hl2
      by_cases hn : l' = n
      · rw [hn]; exact hg
      · exact h3 l' hl1 (by omega)

theorem scan_find_rev_none (n : Nat) (g : Nat → Bool) (h : (List.range n).reverse.find? g = none) :
    ∀ l, l < n → g l = false := by
  rw [List.find?_eq_none] at h
  intro l hl
  have := h l (List.mem_reverse.2 (List.mem_range.2 hl))
  simpa using this

/-- result specification of the `MaxIndex` page scan -/
def scan_MaxRes (s : PStore) (r : Option Int) : Prop :=
  match r with
  | none => s.buffer = [] ∧ ∀ j, s.line j ≤ 0
  | some k => (0 < s.line k ∨ k ∈ s.buffer) ∧ ∀ j, (0 < s.line j ∨ j ∈ s.buffer) → j ≤ k

theorem scan_max_loop (s : PStore) (h : Inv s) (b : Option Int)
    (hbn : b = none → s.buffer = [])
    (hbs : ∀ m, b = some m → m ∈ s.buffer ∧ ∀ x ∈ s.buffer, x ≤ m) :
    ∀ (a : Nat), a ≤ s.pages.size →
      (∀ j, 0 < s.line j → s.minPageIndex + (a : Int) ≤ s.pageIndex j → ∃ m, b = some m ∧ j ≤ m) →
      scan_MaxRes s (maxIndex?.scan s b (List.range a).reverse) := by
  have hL := h.pageLen_eq
  intro a
  induction a with
  | zero =>
    intro ha H
    have H' : ∀ j, 0 < s.line j → ∃ m, b = some m ∧ j ≤ m := by
      intro j hj
      obtain ⟨k, hk, hp⟩ := scan_line_pos s j hj
      exact H j hj (by omega)
    simp only [List.range_zero, List.reverse_nil, maxIndex?.scan]
    cases hb : b with
    | none =>
      refine ⟨hbn hb, ?_⟩
      intro j
      apply Rat.not_lt.1
      intro hj
      obtain ⟨m, hm, _⟩ := H' j hj
      rw [hb] at hm; cases hm
    | some m =>
      obtain ⟨hm1, hm2⟩ := hbs m hb
      refine ⟨Or.inr hm1, ?_⟩
      intro j hj
      rcases hj with hj | hj
      · obtain ⟨m', hm', hle⟩ := H' j hj
        rw [hb] at hm'; cases hm'; exact hle
      · exact hm2 j hj
  | succ a ih =>
    intro ha H
    have hlt : a < s.pages.size := by omega
    rw [List.range_succ, List.reverse_append, List.reverse_singleton, List.singleton_append]
    have Hnext : (∀ j, s.pageIndex j = s.minPageIndex + (a : Int) → 0 < s.line j →
        ∃ m, b = some m ∧ j ≤ m) →
        scan_MaxRes s (maxIndex?.scan s b (List.range a).reverse) := by
      intro H2
      apply ih (by omega)
      intro j hj hp
      by_cases hpe : s.pageIndex j = s.minPageIndex + (a : Int)
      · exact H2 j hpe hj
      · exact H j hj (by omega)
    have hline : ∀ j, s.pageIndex j = s.minPageIndex + (a : Int) →
        s.line j = (s.pages.getD a #[]).getD (s.lineIndex j) 0 :=
      fun j hp => scan_line_at s j a hlt hp
    have hempty : (s.pages.getD a #[]).size = 0 →
        scan_MaxRes s (maxIndex?.scan s b (List.range a).reverse) := by
      intro he
      apply Hnext
      intro j hp hj
      rw [hline j hp, array_eq_empty_of_size _ he] at hj
      simp at hj
    have hposl : ∀ l, l < 32 → (s.pages.getD a #[]).getD l 0 > 0 →
        0 < s.line (s.index (s.minPageIndex + (a : Int)) l) := by
      intro l hl hv
      rw [hline _ (pageIndex_index s hL _ l (by omega)), lineIndex_index s hL _ l (by omega)]
      exact hv
    have hsz := h.pageSizes a
    rw [hL] at hsz
    simp only [maxIndex?.scan]
    generalize s.pages.getD a #[] = pg at *
    cases b with
    | none =>
      have hbuf := hbn rfl
      simp only [Bool.not_true, Bool.false_eq_true, if_false]
      split
      · rename_i he; exact hempty he
      · rename_i hne
        have hsz' : pg.size = 32 := by omega
        rw [List.find?_filter, hsz']
        split
        · rename_i l hf
          obtain ⟨hf1, hf2, hf3⟩ := scan_find_rev_some _ _ _ hf
          simp only [decide_eq_true_eq, decide_eq_false_iff_not] at hf1 hf3
          refine ⟨Or.inl (hposl l hf2 hf1.2), ?_⟩
          intro j hj
          rw [hbuf] at hj
          rcases hj with hj | hj
          · by_cases hp1 : s.minPageIndex + (a : Int) + 1 ≤ s.pageIndex j
            · obtain ⟨m, hm, _⟩ := H j hj (by omega); cases hm
            · by_cases hp2 : s.pageIndex j = s.minPageIndex + (a : Int)
              · have hj' := hj
                rw [hline j hp2] at hj'
                have hlj := lineIndex_lt s hL j
                have : ¬ l < s.lineIndex j := by
                  intro hc
                  exact hf3 _ hc (by omega) ⟨by omega, hj'⟩
                simp only [index, pageIndex, lineIndex, hL] at *; omega
              · simp only [index, pageIndex, lineIndex, hL] at *; omega
          · cases hj
        · rename_i hf
          have hf' := scan_find_rev_none _ _ hf
          simp only [decide_eq_true_eq, decide_eq_false_iff_not] at hf'
          apply Hnext
          intro j hp hj
          rw [hline j hp] at hj
          have hlj := lineIndex_lt s hL j
          exact absurd ⟨by omega, hj⟩ (hf' _ (by omega : s.lineIndex j < 32))
    | some m =>
      obtain ⟨hm1, hm2⟩ := hbs m rfl
      simp only []
      split
      · rename_i hc
        simp only [Bool.not_eq_true', decide_eq_false_iff_not] at hc
        refine ⟨Or.inr hm1, ?_⟩
        intro j hj
        rcases hj with hj | hj
        · by_cases hp1 : s.minPageIndex + (a : Int) + 1 ≤ s.pageIndex j
          · obtain ⟨m', hm', hle⟩ := H j hj (by omega); cases hm'; exact hle
          · simp only [index, pageIndex, lineIndex, hL] at *; omega
        · exact hm2 j hj
      · rename_i hc
        simp only [Bool.not_eq_true', decide_eq_false_iff_not, Decidable.not_not] at hc
        split
        · rename_i he; exact hempty he
        · rename_i hne
          have hsz' : pg.size = 32 := by omega
          rw [List.find?_filter, hsz']
          split
          · rename_i l hf
            obtain ⟨hf1, hf2, hf3⟩ := scan_find_rev_some _ _ _ hf
            simp only [decide_eq_true_eq, decide_eq_false_iff_not] at hf1 hf3
            refine ⟨Or.inl (hposl l hf2 hf1.2), ?_⟩
            have hml : m ≤ s.index (s.minPageIndex + (a : Int)) l := by
              have hf1' := hf1.1
              split at hf1'
              · simp only [index, pageIndex, lineIndex, hL] at *; omega
              · simp only [index, pageIndex, lineIndex, hL] at *; omega
            intro j hj
            rcases hj with hj | hj
            · by_cases hp1 : s.minPageIndex + (a : Int) + 1 ≤ s.pageIndex j
              · obtain ⟨m', hm', hle'⟩ := H j hj (by omega); cases hm'
                simp only [index, pageIndex, lineIndex, hL] at *; omega
              · by_cases hp2 : s.pageIndex j = s.minPageIndex + (a : Int)
                · have hj' := hj
                  rw [hline j hp2] at hj'
                  have hlj := lineIndex_lt s hL j
                  have : ¬ l < s.lineIndex j := by
                    intro hc
                    apply hf3 _ hc (by omega)
                    refine ⟨?_, hj'⟩
                    have hf1' := hf1.1
                    split at hf1' <;> split <;> omega
                  simp only [index, pageIndex, lineIndex, hL] at *; omega
                · simp only [index, pageIndex, lineIndex, hL] at *; omega
            · have := hm2 j hj; omega
          · rename_i hf
            have hf' := scan_find_rev_none _ _ hf
            simp only [decide_eq_true_eq, decide_eq_false_iff_not] at hf'
            apply Hnext
            intro j hp hj
            refine ⟨m, rfl, ?_⟩
            rw [hline j hp] at hj
            have hlj := lineIndex_lt s hL j
            have h1 : ¬ (s.lineIndex j ≥ if s.minPageIndex + (a : Int) = s.pageIndex m then s.lineIndex m else 0) :=
              fun hc => hf' _ (by omega : s.lineIndex j < 32) ⟨hc, hj⟩
            split at h1
            · simp only [index, pageIndex, lineIndex, hL] at *; omega
            · omega

theorem scan_max_res (s : PStore) (h : Inv s) : scan_MaxRes s s.maxIndex? := by
  unfold maxIndex?
  exact scan_max_loop s h (listMax? s.buffer) (scan_listMax_none _) (scan_listMax_some _)
    s.pages.size (by omega) (by
      intro j hj hp
      obtain ⟨k, hk, hp'⟩ := scan_line_pos s j hj
      omega)

/-- `MaxIndex()` -/
theorem maxIndex_spec (s : PStore) (h : Inv s) :
    match s.maxIndex? with
    | none => ∀ j, wt s j = 0
    | some k => 0 < wt s k ∧ ∀ j, 0 < wt s j → j ≤ k := by
  have hr := scan_max_res s h
  unfold scan_MaxRes at hr
  split
  · rename_i heq
    rw [heq] at hr
    intro j
    apply scan_wt_zero s h j (hr.2 j)
    rw [hr.1]; simp
  · rename_i k heq
    rw [heq] at hr
    refine ⟨(scan_wt_pos_iff s h k).2 hr.1, ?_⟩
    intro j hj
    exact hr.2 j ((scan_wt_pos_iff s h j).1 hj)

/-! # Part V — iteration, content and the remaining observers -/

/-- the lines of one page, from line number `m` on -/
def linesOf (s : PStore) (p : Int) (ys : List Rat) (m : Nat) : List (Int × Rat) :=
  (ys.zipIdx m).map fun (c, l) => (s.index p l, c)

/-- the lines of a list of pages, the first one sitting at offset `n` -/
def linesFrom (s : PStore) (xs : List (Array Rat)) (n : Nat) : List (Int × Rat) :=
  (xs.zipIdx n).flatMap fun (pg, off) => linesOf s (s.minPageIndex + (off : Int)) pg.toList 0

theorem pageLines_eq (s : PStore) : s.pageLines = linesFrom s s.pages.toList 0 := rfl

theorem linesOf_nil (s : PStore) (p : Int) (m : Nat) : linesOf s p [] m = [] := rfl

theorem linesOf_cons (s : PStore) (p : Int) (y : Rat) (ys : List Rat) (m : Nat) :
    linesOf s p (y :: ys) m = (s.index p m, y) :: linesOf s p ys (m + 1) := by
  simp [linesOf, List.zipIdx_cons]

theorem linesFrom_nil (s : PStore) (n : Nat) : linesFrom s [] n = [] := rfl

theorem linesFrom_cons (s : PStore) (pg : Array Rat) (xs : List (Array Rat)) (n : Nat) :
    linesFrom s (pg :: xs) n =
      linesOf s (s.minPageIndex + (n : Int)) pg.toList 0 ++ linesFrom s xs (n + 1) := by
  simp [linesFrom, List.zipIdx_cons]

theorem mem_linesOf (s : PStore) (p : Int) (ys : List Rat) (m : Nat) (q : Int × Rat)
    (hq : q ∈ linesOf s p ys m) :
    ∃ l, m ≤ l ∧ l < m + ys.length ∧ q.1 = s.index p l ∧ q.2 ∈ ys := by
  induction ys generalizing m with
  | nil => simp [linesOf_nil] at hq
  | cons y ys ih =>
    rw [linesOf_cons] at hq
    rcases List.mem_cons.1 hq with rfl | hq
    · exact ⟨m, by omega, by simp, rfl, List.mem_cons_self ..⟩
    · obtain ⟨l, h1, h2, h3, h4⟩ := ih (m + 1) hq
      exact ⟨l, by omega, by simp only [List.length_cons]; omega, h3, List.mem_cons_of_mem _ h4⟩

theorem index_lt_index (s : PStore) (hL : s.pageLen = 32) (p p' : Int) (l l' : Nat)
    (hl : l < 32) (h : p < p' ∨ (p = p' ∧ l < l')) : s.index p l < s.index p' l' := by
  simp only [index, hL]; omega

theorem linesOf_pairwise (s : PStore) (hL : s.pageLen = 32) (p : Int) (ys : List Rat) (m : Nat)
    (hm : m + ys.length ≤ 32) : (linesOf s p ys m).Pairwise (fun a b => a.1 < b.1) := by
  induction ys generalizing m with
  | nil => simp [linesOf_nil]
  | cons y ys ih =>
    simp only [List.length_cons] at hm
    rw [linesOf_cons, List.pairwise_cons]
    refine ⟨?_, ih (m + 1) (by omega)⟩
    intro q hq
    obtain ⟨l, h1, h2, h3, _⟩ := mem_linesOf s p ys (m + 1) q hq
    rw [h3]
    exact index_lt_index s hL p p m l (by omega) (Or.inr ⟨rfl, by omega⟩)

theorem lookup_linesOf (s : PStore) (hL : s.pageLen = 32) (p : Int) (ys : List Rat) (m : Nat)
    (hm : m + ys.length ≤ 32) (j : Int) :
    Content.lookup (linesOf s p ys m) j =
      if s.pageIndex j = p ∧ m ≤ s.lineIndex j then ys.getD (s.lineIndex j - m) 0 else 0 := by
  induction ys generalizing m with
  | nil => simp [linesOf_nil]
  | cons y ys ih =>
    simp only [List.length_cons] at hm
    rw [linesOf_cons, Content.lookup_cons, ih (m + 1) (by omega)]
    have hinj := index_inj s hL j p m (by omega)
    simp only []
    by_cases hp : s.pageIndex j = p
    · by_cases hl : s.lineIndex j = m
      · rw [if_pos (hinj.2 ⟨hp, hl⟩), if_neg (by omega), if_pos ⟨hp, by omega⟩, hl]
        simp [Rat.add_zero]
      · rw [if_neg (fun hc => hl (hinj.1 hc).2)]
        by_cases hge : m ≤ s.lineIndex j
        · rw [if_pos ⟨hp, by omega⟩, if_pos ⟨hp, hge⟩]
          have : s.lineIndex j - m = (s.lineIndex j - (m + 1)) + 1 := by omega
          rw [this, List.getD_cons_succ, Rat.zero_add]
        · rw [if_neg (by omega), if_neg (by omega), Rat.zero_add]
    · rw [if_neg (fun hc => hp (hinj.1 hc).1), if_neg (fun hc => hp hc.1), if_neg (fun hc => hp hc.1),
        Rat.zero_add]

theorem total_linesOf (s : PStore) (p : Int) (ys : List Rat) (m : Nat) (a : Rat) :
    ys.foldl (· + ·) a = a + Content.total (linesOf s p ys m) := by
  induction ys generalizing m a with
  | nil => simp [linesOf_nil, Rat.add_zero]
  | cons y ys ih =>
    rw [linesOf_cons, List.foldl_cons, ih (m + 1), Content.total_cons, Rat.add_assoc]



theorem mem_linesFrom (s : PStore) (xs : List (Array Rat)) (n : Nat) (q : Int × Rat)
    (hq : q ∈ linesFrom s xs n) :
    ∃ off l pg, n ≤ off ∧ pg ∈ xs ∧ l < pg.size ∧ q.1 = s.index (s.minPageIndex + (off : Int)) l ∧
      q.2 ∈ pg.toList := by
  induction xs generalizing n with
  | nil => simp [linesFrom_nil] at hq
  | cons pg xs ih =>
    rw [linesFrom_cons] at hq
    rcases List.mem_append.1 hq with hq | hq
    · obtain ⟨l, _, h2, h3, h4⟩ := mem_linesOf s _ _ 0 q hq
      exact ⟨n, l, pg, Nat.le_refl _, List.mem_cons_self .., by simpa using h2, h3, h4⟩
    · obtain ⟨off, l, pg', h1, h2, h3, h4, h5⟩ := ih (n + 1) hq
      exact ⟨off, l, pg', by omega, List.mem_cons_of_mem _ h2, h3, h4, h5⟩

theorem linesFrom_pairwise (s : PStore) (hL : s.pageLen = 32) (xs : List (Array Rat)) (n : Nat)
    (hsz : ∀ pg ∈ xs, pg.size ≤ 32) : (linesFrom s xs n).Pairwise (fun a b => a.1 < b.1) := by
  induction xs generalizing n with
  | nil => simp [linesFrom_nil]
  | cons pg xs ih =>
    have h0 := hsz pg (List.mem_cons_self ..)
    have hsz' : ∀ pg ∈ xs, pg.size ≤ 32 := fun p hp => hsz p (List.mem_cons_of_mem _ hp)
    rw [linesFrom_cons, List.pairwise_append]
    refine ⟨linesOf_pairwise s hL _ _ 0 (by simpa using h0), ih (n + 1) hsz', ?_⟩
    intro a ha b hb
    obtain ⟨l, _, h2, h3, _⟩ := mem_linesOf s _ _ 0 a ha
    obtain ⟨off, l', pg', h1', _, _, h4', _⟩ := mem_linesFrom s xs (n + 1) b hb
    rw [h3, h4']
    simp only [Array.length_toList] at h2
    exact index_lt_index s hL _ _ l l' (by omega) (Or.inl (by omega))

theorem lookup_linesFrom (s : PStore) (hL : s.pageLen = 32) (xs : List (Array Rat)) (n : Nat)
    (hsz : ∀ pg ∈ xs, pg.size ≤ 32) (j : Int) :
    Content.lookup (linesFrom s xs n) j =
      if s.minPageIndex + (n : Int) ≤ s.pageIndex j then
        (xs.getD (s.pageIndex j - s.minPageIndex - (n : Int)).toNat #[]).getD (s.lineIndex j) 0
      else 0 := by
  induction xs generalizing n with
  | nil => simp [linesFrom_nil]
  | cons pg xs ih =>
    have h0 := hsz pg (List.mem_cons_self ..)
    have hsz' : ∀ pg ∈ xs, pg.size ≤ 32 := fun p hp => hsz p (List.mem_cons_of_mem _ hp)
    rw [linesFrom_cons, lookup_append, ih (n + 1) hsz',
      lookup_linesOf s hL _ _ 0 (by simpa using h0), toList_getD]
    by_cases hq : s.minPageIndex + (n : Int) ≤ s.pageIndex j
    · rw [if_pos hq]
      by_cases hq2 : s.pageIndex j = s.minPageIndex + (n : Int)
      · have : (s.pageIndex j - s.minPageIndex - (n : Int)).toNat = 0 := by omega
        rw [this, if_pos ⟨hq2, by omega⟩, if_neg (by omega), List.getD_cons_zero, Rat.add_zero]
        rfl
      · have : (s.pageIndex j - s.minPageIndex - (n : Int)).toNat =
            (s.pageIndex j - s.minPageIndex - ((n + 1 : Nat) : Int)).toNat + 1 := by omega
        rw [this, if_neg (fun hc => hq2 hc.1), if_pos (by omega), List.getD_cons_succ, Rat.zero_add]
    · rw [if_neg hq, if_neg (by omega), if_neg (by omega), Rat.add_zero]

theorem total_linesFrom (s : PStore) (xs : List (Array Rat)) (n : Nat) (a : Rat) :
    xs.foldl (fun acc pg => pg.foldl (· + ·) acc) a = a + Content.total (linesFrom s xs n) := by
  induction xs generalizing n a with
  | nil => simp [linesFrom_nil, Rat.add_zero]
  | cons pg xs ih =>
    rw [linesFrom_cons, List.foldl_cons, ih (n + 1), total_append, ← Array.foldl_toList,
      total_linesOf s (s.minPageIndex + (n : Int)) pg.toList 0, Rat.add_assoc]

/-! ## the page lines -/

theorem mem_pages_toList (s : PStore) (pg : Array Rat) (hpg : pg ∈ s.pages.toList) :
    ∃ k, k < s.pages.size ∧ pg = s.pages.getD k #[] := by
  obtain ⟨i, hi, rfl⟩ := List.getElem_of_mem hpg
  simp only [Array.length_toList] at hi
  exact ⟨i, hi, by simp [Array.getD_eq_getD_getElem?, hi]⟩

theorem pages_size_le (s : PStore) (h : Inv s) : ∀ pg ∈ s.pages.toList, pg.size ≤ 32 := by
  intro pg hpg
  obtain ⟨k, _, rfl⟩ := mem_pages_toList s pg hpg
  have := h.pageSizes k
  rw [h.pageLen_eq] at this
  omega

theorem pageLines_pairwise (s : PStore) (h : Inv s) :
    s.pageLines.Pairwise (fun a b => a.1 < b.1) :=
  linesFrom_pairwise s h.pageLen_eq _ 0 (pages_size_le s h)

theorem pageLines_nonneg (s : PStore) (h : Inv s) : ∀ q ∈ s.pageLines, 0 ≤ q.2 := by
  intro q hq
  obtain ⟨off, l, pg, _, hpg, _, _, hc⟩ := mem_linesFrom s _ 0 q hq
  obtain ⟨k, _, rfl⟩ := mem_pages_toList s pg hpg
  obtain ⟨i, hi, hqi⟩ := List.getElem_of_mem hc
  simp only [Array.length_toList] at hi
  have := h.nonneg k i
  generalize s.pages.getD k #[] = pg at *
  rw [← hqi]
  simpa [Array.getD_eq_getD_getElem?, hi] using this

theorem lookup_pageLines (s : PStore) (h : Inv s) (j : Int) :
    Content.lookup s.pageLines j = s.line j := by
  rw [pageLines_eq, lookup_linesFrom s h.pageLen_eq _ 0 (pages_size_le s h), scan_line_eq,
    toList_getD_pages]
  by_cases h1 : s.minPageIndex ≤ s.pageIndex j
  · rw [if_pos (by omega)]
    by_cases h2 : s.pageIndex j < s.minPageIndex + (s.pages.size : Int)
    · rw [if_pos ⟨h1, h2⟩]; congr 2; omega
    · rw [if_neg (fun hc => h2 hc.2), getD_pages_oob _ _ (by omega)]; simp
  · rw [if_neg (by omega), if_neg (fun hc => h1 hc.1)]

theorem totalCount_eq_lines (s : PStore) :
    s.totalCount = (s.buffer.length : Rat) + Content.total s.pageLines := by
  unfold totalCount
  rw [← Array.foldl_toList, total_linesFrom s _ 0]; rfl



/-! ## `binsList` and the abstract content -/

/-- the abstract content of a store: its merged iteration -/
def content (s : PStore) : Content := s.binsList

theorem binsList_wf (s : PStore) (h : Inv s) : Content.WF s.binsList :=
  wf_mergeIter _ _ (pageLines_pairwise s h) (pageLines_nonneg s h)
    (runs_pairwise _ (sortInts_sorted _)) (runs_pos _)

theorem lookup_binsList (s : PStore) (h : Inv s) (j : Int) : Content.lookup s.binsList j = wt s j := by
  unfold binsList
  rw [lookup_mergeIter, lookup_pageLines s h, lookup_runs, count_sortInts]; rfl

theorem content_wf (s : PStore) (h : Inv s) : (content s).WF := binsList_wf s h

theorem lookup_content (s : PStore) (h : Inv s) (j : Int) : (content s).lookup j = wt s j :=
  lookup_binsList s h j

theorem wt_nonneg (s : PStore) (h : Inv s) (j : Int) : 0 ≤ wt s j := by
  rw [← lookup_binsList s h]; exact Content.lookup_nonneg _ (binsList_wf s h).2 j

/-- the merged iteration enumerates each non-empty index exactly once, in increasing order -/
theorem binsList_spec (s : PStore) (h : Inv s) :
    let l := s.binsList
    (∀ p ∈ l, 0 < p.2 ∧ wt s p.1 = p.2) ∧ (∀ j, 0 < wt s j → (j, wt s j) ∈ l) ∧
      l.Pairwise (fun a b => a.1 < b.1) := by
  have hwf := binsList_wf s h
  refine ⟨?_, ?_, (sorted_iff_pairwise _).1 hwf.1⟩
  · intro p hp
    refine ⟨hwf.2 p hp, ?_⟩
    rw [← lookup_binsList s h]; exact Content.lookup_pos_of_mem _ hwf p hp
  · intro j hj
    rw [← lookup_binsList s h] at hj
    obtain ⟨w, hw⟩ := (Content.lookup_pos_iff _ hwf j).1 hj
    have := Content.lookup_pos_of_mem _ hwf _ hw
    simp only at this
    rw [← lookup_binsList s h, this]; exact hw

/-- the spec content accumulated by any sequence of operations is the store's content -/
theorem content_eq_of_lookup (s : PStore) (h : Inv s) (c : Content) (hc : c.WF)
    (hl : ∀ j, wt s j = c.lookup j) : content s = c :=
  Content.ext _ _ (content_wf s h) hc (fun j => by rw [lookup_content s h, hl])

theorem totalCount_eq (s : PStore) (_h : Inv s) : s.totalCount = (content s).total := by
  rw [totalCount_eq_lines]
  show _ = Content.total (mergeIter s.pageLines (runs (sortInts s.buffer)))
  rw [total_mergeIter, total_runs, length_sortInts, Rat.add_comm]

theorem content_eq_nil_iff (s : PStore) (h : Inv s) : content s = [] ↔ ∀ j, wt s j = 0 := by
  constructor
  · intro hc j; rw [← lookup_content s h, hc]; rfl
  · intro hz
    exact content_eq_of_lookup s h [] Content.wf_nil (fun j => by rw [hz]; rfl)

theorem getD_of_lt (a : Array Rat) (l : Nat) (h : l < a.size) : a.getD l 0 = a[l] := by
  simp [Array.getD_eq_getD_getElem?, h]

theorem getD_of_ge (a : Array Rat) (l : Nat) (h : ¬ l < a.size) : a.getD l 0 = 0 := by
  have : a.size ≤ l := by omega
  simp [Array.getD_eq_getD_getElem?, this]

theorem isEmpty_iff (s : PStore) (h : Inv s) : s.isEmpty = true ↔ ∀ j, wt s j = 0 := by
  have hL := h.pageLen_eq
  unfold isEmpty
  simp only [Bool.and_eq_true, List.isEmpty_iff, Array.all_eq_true', Bool.not_eq_true',
    decide_eq_false_iff_not]
  constructor
  · rintro ⟨hb, hp⟩ j
    apply scan_wt_zero s h j
    · rw [scan_line_eq]; split
      · rename_i hr
        apply Rat.not_lt.1
        by_cases hlt : s.lineIndex j < (s.pages.getD (s.pageIndex j - s.minPageIndex).toNat #[]).size
        · have hk : (s.pageIndex j - s.minPageIndex).toNat < s.pages.size := by omega
          have hmem : s.pages.getD (s.pageIndex j - s.minPageIndex).toNat #[] ∈ s.pages := by
            simp [Array.getD_eq_getD_getElem?, hk]
          have := hp _ hmem _ (Array.getElem_mem hlt)
          rw [getD_of_lt _ _ hlt]; exact this
        · rw [getD_of_ge _ _ hlt]; exact Rat.lt_irrefl
      · exact Rat.le_refl
    · rw [hb]; simp
  · intro hz
    constructor
    · apply List.eq_nil_iff_forall_not_mem.2
      intro x hx
      have := (scan_wt_pos_iff s h x).2 (Or.inr hx)
      rw [hz] at this; exact absurd this Rat.lt_irrefl
    · intro pg hpg c hc hpos
      obtain ⟨k, hk, rfl⟩ := mem_pages_toList s pg (by simpa using hpg)
      obtain ⟨l, hl, rfl⟩ := Array.getElem_of_mem hc
      have hsz : (s.pages.getD k #[]).size = 32 := by
        have := h.pageSizes k; rw [hL] at this; omega
      have hl32 : l < s.pageLen := by omega
      have hline := scan_line_at s (s.index (s.minPageIndex + (k : Int)) l) k hk
        (pageIndex_index s hL _ l hl32)
      rw [lineIndex_index s hL _ l hl32] at hline
      have : 0 < s.line (s.index (s.minPageIndex + (k : Int)) l) := by
        rw [hline, getD_of_lt _ _ hl]; exact hpos
      have := (scan_wt_pos_iff s h _).2 (Or.inl this)
      rw [hz] at this; exact absurd this Rat.lt_irrefl


theorem minIndex?_eq (s : PStore) (h : Inv s) : s.minIndex? = (content s).minIndex? := by
  have hspec := minIndex_spec s h
  have hwf := content_wf s h
  cases hm : s.minIndex? with
  | none =>
    rw [hm] at hspec
    rw [(content_eq_nil_iff s h).2 hspec]; rfl
  | some k =>
    rw [hm] at hspec
    obtain ⟨hk, hmin⟩ := hspec
    symm
    apply Content.minIndex?_eq_of _ hwf.1 k
    · rw [← lookup_content s h] at hk
      exact (Content.lookup_pos_iff _ hwf k).1 hk
    · intro p hp
      apply hmin
      rw [← lookup_content s h, Content.lookup_pos_of_mem _ hwf p hp]
      exact hwf.2 p hp

theorem maxIndex?_eq (s : PStore) (h : Inv s) : s.maxIndex? = (content s).maxIndex? := by
  have hspec := maxIndex_spec s h
  have hwf := content_wf s h
  cases hm : s.maxIndex? with
  | none =>
    rw [hm] at hspec
    rw [(content_eq_nil_iff s h).2 hspec]; rfl
  | some k =>
    rw [hm] at hspec
    obtain ⟨hk, hmax⟩ := hspec
    symm
    apply Content.maxIndex?_eq_of _ hwf.1 k
    · rw [← lookup_content s h] at hk
      exact (Content.lookup_pos_iff _ hwf k).1 hk
    · intro p hp
      apply hmax
      rw [← lookup_content s h, Content.lookup_pos_of_mem _ hwf p hp]
      exact hwf.2 p hp

/-- `KeyAtRank` (the interleaved rank search, then the `MaxIndex` fallback) agrees with the spec -/
theorem keyAtRank_spec (s : PStore) (h : Inv s) (r : Rat) :
    s.keyAtRank r = (content s).keyAtRank r := by
  unfold keyAtRank Content.keyAtRank
  have hr : (0 : Rat) ≤ (if r < 0 then 0 else r) := by split <;> grind
  simp only []
  rw [firstExceeding_eq _ _ 0 _ (pageLines_pairwise s h) (pageLines_nonneg s h) (sortInts_sorted _) hr,
    maxIndex?_eq s h]
  rfl

theorem isEmpty_eq (s : PStore) (h : Inv s) : s.isEmpty = (content s).isEmpty := by
  have h1 := isEmpty_iff s h
  have h2 := content_eq_nil_iff s h
  cases hc : content s with
  | nil =>
    rw [hc] at h2
    rw [h1.2 (h2.1 rfl)]; rfl
  | cons p rest =>
    rw [hc] at h2
    cases he : s.isEmpty with
    | false => rfl
    | true => exact absurd (h2.2 (h1.1 he)) (by simp)

/-! ## the invariant in membership form, and the model's `abs` -/

theorem mem_pages_getD (s : PStore) (pg : Array Rat) (hpg : pg ∈ s.pages) :
    ∃ k, k < s.pages.size ∧ pg = s.pages.getD k #[] :=
  mem_pages_toList s pg (by simpa using hpg)

theorem Inv.pageSizes_mem {s : PStore} (h : Inv s) : ∀ pg ∈ s.pages, pg.size = 0 ∨ pg.size = s.pageLen := by
  intro pg hpg
  obtain ⟨k, _, rfl⟩ := mem_pages_getD s pg hpg
  exact h.pageSizes k

theorem Inv.sentinel_mem {s : PStore} (h : Inv s) (hs : s.minPageIndex = maxInt) :
    ∀ pg ∈ s.pages, pg.size = 0 := by
  intro pg hpg
  obtain ⟨k, _, rfl⟩ := mem_pages_getD s pg hpg
  exact h.sentinel hs k

theorem Inv.nonneg_mem {s : PStore} (h : Inv s) : ∀ pg ∈ s.pages, ∀ c ∈ pg, 0 ≤ c := by
  intro pg hpg c hc
  obtain ⟨k, _, rfl⟩ := mem_pages_getD s pg hpg
  obtain ⟨l, hl, rfl⟩ := Array.getElem_of_mem hc
  have := h.nonneg k l
  rw [getD_of_lt _ _ hl] at this
  exact this

/-- all the weight sits on int32 indexes -/
theorem Inv.idx32_of_wt_pos {s : PStore} (h : Inv s) (j : Int) (hj : 0 < wt s j) : Idx32 j := by
  rcases (scan_wt_pos_iff s h j).1 hj with hl | hb
  · obtain ⟨k, hk, hp⟩ := scan_line_pos s j hl
    have hne : (s.pages.getD k #[]).size ≠ 0 := by
      intro h0
      rw [scan_line_at s j k hk hp, array_eq_empty_of_size _ h0] at hl
      simp at hl
    have := h.pageRange k hne
    rw [← hp] at this
    exact idx32_of_pageIdx32 s h.pageLen_eq j this
  · exact h.bufRange j hb

/-- the model's fold-based abstraction `abs` is the merged iteration -/
theorem abs_eq_content (s : PStore) (h : Inv s) : s.abs = content s := by
  have habs : s.abs = (Content.merge [] s.pageLines).merge (s.buffer.map (fun i => (i, (1 : Rat)))) := by
    unfold abs Content.merge
    rw [List.foldl_map]
  symm
  apply content_eq_of_lookup s h
  · rw [habs]
    apply Content.wf_merge_of_nonneg
    · exact Content.wf_merge_of_nonneg _ _ Content.wf_nil (pageLines_nonneg s h)
    · intro p hp
      obtain ⟨i, _, rfl⟩ := List.mem_map.1 hp
      show (0 : Rat) ≤ 1
      decide
  · intro j
    rw [habs, Content.lookup_merge, Content.lookup_merge, lookup_pageLines s h, lookup_map_const]
    unfold wt
    simp only [Content.lookup_nil, Rat.zero_add, Rat.mul_one]


end PStore
end DDS
