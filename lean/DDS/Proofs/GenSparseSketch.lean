/-
  DDS.Proofs.GenSparseSketch — the sketch over the REGENERATED sparse store (`DDS/Generated/CodeSparse.lean`,
  `CodeSparseMerge.lean`, `CodeSparseIter.lean`, `CodeSparseDecode.lean`): the regenerated sketch
  (`DDS/Generated/CodeSketch.lean`) instantiated with the regenerated `SparseStore` behaves exactly like the same
  regenerated sketch over the hand-written model's store `Store.sp c` (`instance : StoreI Store`,
  `DDS/Proofs/GenSketch.lean`), FOR EVERY LAWFUL ITERATION ORDER of Go's `range` over the map.

  1. `GSS ord` — the regenerated `SparseStore` wrapped, the iteration-order oracle `ord : GoSem.MapOrder` fixed as a
     type index (like the growth oracle of `GPS grow`); `instance : StoreI (GSS ord)` (`gsStoreI`): every method
     runs the regenerated function.  The range loops are structural: the fuel is the constant `1` (`16` for
     `Encode`, whose varint codecs need `≥ 9`).  Conventions of `instance : StoreI Store` / `GenPagSketch` /
     `GenDenseSketch`: a panicking mutator leaves the receiver unchanged; a non-finite weight leaves the receiver
     unchanged; `TotalCount` is `.fin` of the rational total; `KeyAtRank` at `-Inf` is rank 0, at `+Inf`/NaN the
     maximum index (0 when empty).
     * `MergeWith x o` is the regenerated `SparseMerge.SparseStore.MergeWith` (generic in the argument's type),
       which consults its argument through `StoreI.ForEachList` ONLY (`mergeWith_inst`: two instances with the same
       `ForEachList` give the same result) — so the knot "instance needs `MergeWith` needs instance" is tied through
       the instance `feI` whose only meaningful field is `ForEachList`; `gMergeWith_eq` states the method with the
       final instance.
     * `ForEachList x` is what the regenerated stateful `SparseIter.SparseStore.ForEach` hands to the collecting
       visitor, i.e. `mrange ord` of the map (`gForEachList_eq`).
     * `DecodeAndMergeWith` is the regenerated wrapper `SparseDecode.SparseStore.DecodeAndMergeWith` on the raw
       structure, with the instance `rawI ord` (the methods above carried to `SparseStore`); `rawI_adds` shows it
       meets `GenDecodeWrap.SparseAdds`, so `sparse_decode_ok / _sim / _error` apply to it; `gDecode_ok`: where the
       model's `decodeStore (.sp c)` succeeds (no index wrap, finite weights `≥ 0`) the method returns the model's
       store and remaining bytes with a nil error.
     NOT covered by a theorem here: `Encode` (see `GenSparse.encode_any_order_denotes`).
  2. `SSim x st := ∃ c, Rep x.g c ∧ st = .sp c ∧ Key64 c` — the map IS the canonical content (`GenSparse.Rep`: the
     same list, strictly increasing keys, weights `> 0`) and every key is an `int64` (`Key64`).  WHY `Key64`: the
     regenerated `MaxIndex` (hence `KeyAtRank`) starts its scan from `-2^63`, `MinIndex` from `2^63 - 1`
     (`GenSparse.maxIndex_eq`, `minIndex_eq`: artefacts of `GoSem`'s unbounded `int`).  Admissible indexes:
     `Adm64 i := -2^63 ≤ i ∧ i < 2^63` — every Go `int`.  Finite weights `≥ 0` for the adds (the interface of
     `StoreSim`): `Rep` does not survive a negative weight (`GenSparse`, phantom zero entries).
     Method lemmas `ssim_*` (all for a LAWFUL `ord`, except `ssim_isEmpty`, `ssim_add`, `ssim_addWithCount` which
     do not iterate), `sparseStoreSim ord h : StoreSim (GSS ord) Store`.
  3. `sparse_history_observers`: from `NewDDSketch m NewSparseStore NewSparseStore`, after any history of
     `AddWithCount` calls whose routed indexes are `int64` (refused calls, zero / fractional / non-finite counts
     included), the errors and every observer agree with the regenerated sketch over the model stores
     `Store.new .sparse`; `sparse_runAdds` (related final sketches); `sparse_routed_of_32` (int32 ⇒ admissible).
     `DDS/Props/C01GenSparse.lean` chains this to C01.

  No fuel hypothesis appears in the statements.  No disagreement found.  Core Lean only.
-/
import DDS.Proofs.GenStoreSim
import DDS.Proofs.GenDecodeWrap
import DDS.Proofs.GenForEach

namespace DDS.GenSparseSketch

open DDS DDS.GoSem DDS.Gen.Sparse DDS.GenSparse DDS.GenStoreSim
open DDS.GenPagSketch (okOr okOr_ok runAdds)
open DDS.GenDecodeWrap (finBins spAddWithCount SparseAdds sparse_mergeWith_perm)
open DDS.GenForEach (collect visitS_collect sparse_forEach_eq_visitS)

/-- the regenerated sparse store; the iteration order of `range` over the map is a type index -/
structure GSS (ord : MapOrder) where
  g : SparseStore

variable {ord : MapOrder}

instance : Inhabited (GSS ord) := ⟨⟨NewSparseStore⟩⟩

/-! ### the methods -/

def gAdd (x : GSS ord) (i : Int) : GSS ord := ⟨x.g.Add i⟩

def gAddWithCount (x : GSS ord) (i : Int) (c : F64) : GSS ord :=
  match ratOfF64 c with
  | some w => ⟨x.g.AddWithCount i w⟩
  | none => x

def gCopy (x : GSS ord) : GSS ord := ⟨okOr (x.g.Copy 1 ord) x.g⟩

def gClear (x : GSS ord) : GSS ord := ⟨okOr (x.g.Clear 1 ord) x.g⟩

def gIsEmpty (x : GSS ord) : Bool := x.g.IsEmpty

def gTotalCount (x : GSS ord) : F64 := .fin (okOr (x.g.TotalCount 1 ord) 0)

def gMinIndex (x : GSS ord) : Int × GoErr :=
  okOr (x.g.MinIndex 1 ord) (0, GenSketch.errUndefinedMinIndex)

def gMaxIndex (x : GSS ord) : Int × GoErr :=
  okOr (x.g.MaxIndex 1 ord) (0, GenSketch.errUndefinedMaxIndex)

def gKeyAtRankQ (x : GSS ord) (r : Rat) : Int := okOr (x.g.KeyAtRank 1 ord r) 0

/-- float rank: `-Inf` behaves as rank 0, `+Inf` and NaN are never below a cumulative count: the maximum index
    (as `Sketch.storeKeyAtRank`) -/
def gKeyAtRank (x : GSS ord) (r : F64) : Int :=
  match r with
  | .fin q => gKeyAtRankQ x q
  | .ninf => gKeyAtRankQ x 0
  | _ => (gMaxIndex x).1

def gReweight (x : GSS ord) (w : F64) : GSS ord × GoErr :=
  if F64.le w (.fin 0) then (x, GenSketch.errStoreReweight)
  else match w with
    | .fin q =>
      match x.g.Reweight 1 ord q with
      | .ok (g', e) => (⟨g'⟩, e)
      | _ => (x, GoErr.nil)
    | _ => (x, GoErr.nil)

def gEncode (x : GSS ord) (b : List (BitVec 8)) (t : Gen.Encoding.FlagType) : GSS ord × List (BitVec 8) :=
  (x, okOr (x.g.Encode 16 ord b t) b)

/-- the bins the regenerated stateful `ForEach` hands to the collecting visitor, as `float64` weights -/
def gForEachList (x : GSS ord) : List (Int × F64) :=
  finBins (okOr (Gen.SparseIter.SparseStore.ForEach 1 ord x.g [] collect) [])

/-- … they are the entries of the map in the order the oracle picks -/
theorem gForEachList_eq (x : GSS ord) : gForEachList x = finBins (mrange ord x.g.counts) := by
  unfold gForEachList
  rw [sparse_forEach_eq_visitS, visitS_collect, okOr_ok, List.nil_append]

/-- the instance with the given `MergeWith` and `DecodeAndMergeWith`, every other method the regenerated one -/
@[reducible] def mkI (mw : GSS ord → GSS ord → GSS ord)
    (dec : GSS ord → List (BitVec 8) → Gen.Encoding.SubFlag → GSS ord × List (BitVec 8) × GoErr) :
    StoreI (GSS ord) where
  Add := gAdd
  AddWithCount := gAddWithCount
  Copy := gCopy
  Clear := gClear
  IsEmpty := gIsEmpty
  MaxIndex := gMaxIndex
  MinIndex := gMinIndex
  TotalCount := gTotalCount
  KeyAtRank := gKeyAtRank
  MergeWith := mw
  Reweight := gReweight
  Encode := gEncode
  ForEachList := gForEachList
  DecodeAndMergeWith := dec

/-- the instance the regenerated `MergeWith` reads its argument through (it calls `ForEach` only) -/
@[reducible] def feI : StoreI (GSS ord) := mkI (fun x _ => x) (fun x b _ => (x, b, GoErr.nil))

/-- `MergeWith(other)`: the regenerated generic fallback loop over the argument's `ForEach` -/
def gMergeWith (x o : GSS ord) : GSS ord :=
  ⟨okOr (@Gen.SparseMerge.SparseStore.MergeWith (GSS ord) feI 1 x.g o) x.g⟩

/-- the methods the generic `store.DecodeAndMergeWith` calls -/
@[reducible] def baseI : StoreI (GSS ord) := mkI gMergeWith (fun x b _ => (x, b, GoErr.nil))

/-- `baseI` carried to the raw structure (what the regenerated decode wrapper is written against) -/
@[reducible] def rawI (ord : MapOrder) : StoreI SparseStore where
  Add g i := (gAdd (⟨g⟩ : GSS ord) i).g
  AddWithCount g i c := (gAddWithCount (⟨g⟩ : GSS ord) i c).g
  Copy g := (gCopy (⟨g⟩ : GSS ord)).g
  Clear g := (gClear (⟨g⟩ : GSS ord)).g
  IsEmpty g := gIsEmpty (⟨g⟩ : GSS ord)
  MaxIndex g := gMaxIndex (⟨g⟩ : GSS ord)
  MinIndex g := gMinIndex (⟨g⟩ : GSS ord)
  TotalCount g := gTotalCount (⟨g⟩ : GSS ord)
  KeyAtRank g r := gKeyAtRank (⟨g⟩ : GSS ord) r
  MergeWith g o := (gMergeWith (⟨g⟩ : GSS ord) ⟨o⟩).g
  Reweight g w := ((gReweight (⟨g⟩ : GSS ord) w).1.g, (gReweight (⟨g⟩ : GSS ord) w).2)
  Encode g b t := ((gEncode (⟨g⟩ : GSS ord) b t).1.g, (gEncode (⟨g⟩ : GSS ord) b t).2)
  ForEachList g := gForEachList (⟨g⟩ : GSS ord)
  DecodeAndMergeWith g b _ := (g, b, GoErr.nil)

/-- `SparseStore.DecodeAndMergeWith`: the regenerated wrapper around the generic `store.DecodeAndMergeWith` -/
def gDecode (x : GSS ord) (b : List (BitVec 8)) (sub : Gen.Encoding.SubFlag) :
    GSS ord × List (BitVec 8) × GoErr :=
  match @Gen.SparseDecode.SparseStore.DecodeAndMergeWith (rawI ord) (3 * b.length + 64) x.g b sub with
  | .ok (g', b', e) => (⟨g'⟩, b', e)
  | _ => (x, b, GoErr.nil)

instance (priority := low) gsStoreI : StoreI (GSS ord) := mkI gMergeWith gDecode

@[simp] theorem gss_add (x : GSS ord) (i : Int) : StoreI.Add x i = gAdd x i := rfl
@[simp] theorem gss_addWithCount (x : GSS ord) (i : Int) (c : F64) :
    StoreI.AddWithCount x i c = gAddWithCount x i c := rfl
@[simp] theorem gss_copy (x : GSS ord) : StoreI.Copy x = gCopy x := rfl
@[simp] theorem gss_clear (x : GSS ord) : StoreI.Clear x = gClear x := rfl
@[simp] theorem gss_isEmpty (x : GSS ord) : StoreI.IsEmpty x = gIsEmpty x := rfl
@[simp] theorem gss_maxIndex (x : GSS ord) : StoreI.MaxIndex x = gMaxIndex x := rfl
@[simp] theorem gss_minIndex (x : GSS ord) : StoreI.MinIndex x = gMinIndex x := rfl
@[simp] theorem gss_totalCount (x : GSS ord) : StoreI.TotalCount x = gTotalCount x := rfl
@[simp] theorem gss_keyAtRank (x : GSS ord) (r : F64) : StoreI.KeyAtRank x r = gKeyAtRank x r := rfl
@[simp] theorem gss_mergeWith (x o : GSS ord) : StoreI.MergeWith x o = gMergeWith x o := rfl
@[simp] theorem gss_reweight (x : GSS ord) (w : F64) : StoreI.Reweight x w = gReweight x w := rfl
@[simp] theorem gss_forEachList (x : GSS ord) : StoreI.ForEachList x = gForEachList x := rfl

/-! ### the regenerated `MergeWith` consults its argument through `ForEachList` only -/

theorem mergeLoop_inst {S : Type} (I I' : StoreI S) : ∀ (l : List (Int × F64)) (s : SparseStore),
    @Gen.SparseMerge.SparseStore.MergeWith.loop1 S I l s = @Gen.SparseMerge.SparseStore.MergeWith.loop1 S I' l s := by
  intro l
  induction l with
  | nil => intro s; rfl
  | cons p rest ih =>
    intro s
    obtain ⟨i, c⟩ := p
    simp only [Gen.SparseMerge.SparseStore.MergeWith.loop1]
    cases ratOfF64 c with
    | none => rfl
    | some w => simp only [optL_some]; exact ih _

/-- two instances enumerating the same bins for the argument give the same merge -/
theorem mergeWith_inst {S : Type} (I I' : StoreI S) (fuel fuel' : Nat) (s : SparseStore) (o : S)
    (h : I.ForEachList o = I'.ForEachList o) :
    @Gen.SparseMerge.SparseStore.MergeWith S I fuel s o = @Gen.SparseMerge.SparseStore.MergeWith S I' fuel' s o := by
  unfold Gen.SparseMerge.SparseStore.MergeWith
  rw [mergeLoop_inst I I', h]

/-- the method, stated with the final instance: `MergeWith` of two `GSS` is the regenerated `SparseStore.MergeWith`
    handed the argument as a `store.Store` -/
theorem gMergeWith_eq (x o : GSS ord) :
    (StoreI.MergeWith x o : GSS ord) = ⟨okOr (Gen.SparseMerge.SparseStore.MergeWith 1 x.g o) x.g⟩ := by
  show gMergeWith x o = _
  unfold gMergeWith
  rw [mergeWith_inst feI gsStoreI 1 1 x.g o rfl]

/-- the raw instance is one the decode theorems of `GenDecodeWrap` accept -/
theorem rawI_adds (ord : MapOrder) : SparseAdds (rawI ord) := by
  refine ⟨fun g i c => ?_, fun _ _ => rfl⟩
  show (gAddWithCount (⟨g⟩ : GSS ord) i c).g = spAddWithCount g i c
  unfold gAddWithCount spAddWithCount
  cases ratOfF64 c <;> rfl

/-! ### the simulation relation -/

/-- every key is a Go `int` (64 bits) -/
def Key64 (c : Content) : Prop := ∀ p ∈ c, -(2:Int)^63 ≤ p.1 ∧ p.1 < (2:Int)^63

/-- the admissible indexes: every Go `int` -/
def Adm64 (i : Int) : Prop := -(2:Int)^63 ≤ i ∧ i < (2:Int)^63

/-- the regenerated map is the canonical content the model side holds; keys are `int64` -/
def SSim (x : GSS ord) (st : Store) : Prop :=
  ∃ c : Content, Rep x.g c ∧ st = .sp c ∧ Key64 c

theorem key64_nil : Key64 [] := fun _ hp => by cases hp

theorem key64_add {c : Content} (h : Key64 c) {i : Int} (hi : Adm64 i) (w : Rat) : Key64 (c.add i w) := by
  intro p hp
  rcases Content.mem_add hp with hp | hp
  · exact h p hp
  · rw [hp]; exact hi

theorem key64_merge {c co : Content} (h : Key64 c) (ho : Key64 co) : Key64 (c.merge co) := by
  intro p hp
  rcases Content.mem_merge hp with hp | ⟨q, hq, hqp⟩
  · exact h p hp
  · rw [← hqp]; exact ho q hq

theorem key64_scale {c : Content} (h : Key64 c) (w : Rat) : Key64 (c.scale w) := by
  intro p hp
  obtain ⟨q, hq, rfl⟩ := Content.mem_scale hp
  exact h q hq

theorem Key64.low {c : Content} (h : Key64 c) : ∀ p ∈ c, -(2:Int)^63 ≤ p.1 := fun p hp => (h p hp).1
theorem Key64.high {c : Content} (h : Key64 c) : ∀ p ∈ c, p.1 < (2:Int)^63 := fun p hp => (h p hp).2

theorem ssim_new : SSim (⟨NewSparseStore⟩ : GSS ord) (Store.new .sparse) :=
  ⟨[], rep_new, rfl, key64_nil⟩

theorem errMin_eq : Gen.Sparse.errUndefinedMinIndex = GenSketch.errUndefinedMinIndex := rfl
theorem errMax_eq : Gen.Sparse.errUndefinedMaxIndex = GenSketch.errUndefinedMaxIndex := rfl

/-! ### observers -/

theorem ssim_isEmpty {x : GSS ord} {st : Store} (h : SSim x st) :
    (StoreI.IsEmpty x : Bool) = StoreI.IsEmpty st := by
  obtain ⟨c, hr, rfl, _⟩ := h
  simp only [gss_isEmpty, gIsEmpty, isEmpty_eq hr.repS, GenSketch.store_isEmpty]

theorem ssim_totalCount (hl : ord.Lawful) {x : GSS ord} {st : Store} (h : SSim x st) :
    (StoreI.TotalCount x : F64) = StoreI.TotalCount st := by
  obtain ⟨c, hr, rfl, _⟩ := h
  simp only [gss_totalCount, gTotalCount, totalCount_eq hr.repS 1 ord hl, okOr_ok, GenSketch.store_totalCount]

theorem ssim_minIndex (hl : ord.Lawful) {x : GSS ord} {st : Store} (h : SSim x st) :
    (StoreI.MinIndex x : Int × GoErr) = StoreI.MinIndex st := by
  obtain ⟨c, hr, rfl, hk⟩ := h
  simp only [gss_minIndex, gMinIndex, minIndex_eq hr.repS 1 ord hl hk.high, okOr_ok, GenSketch.store_minIndex,
    GenSketch.storeMinIndex, errMin_eq]
  cases (Store.sp c).minIndex? <;> rfl

theorem ssim_maxIndex (hl : ord.Lawful) {x : GSS ord} {st : Store} (h : SSim x st) :
    (StoreI.MaxIndex x : Int × GoErr) = StoreI.MaxIndex st := by
  obtain ⟨c, hr, rfl, hk⟩ := h
  simp only [gss_maxIndex, gMaxIndex, maxIndex_eq hr.repS 1 ord hl hk.low, okOr_ok, GenSketch.store_maxIndex,
    GenSketch.storeMaxIndex, errMax_eq]
  cases (Store.sp c).maxIndex? <;> rfl

theorem ssim_keyAtRank (hl : ord.Lawful) {x : GSS ord} {st : Store} (h : SSim x st) (r : F64) :
    (StoreI.KeyAtRank x r : Int) = StoreI.KeyAtRank st r := by
  obtain ⟨c, hr, rfl, hk⟩ := h
  simp only [gss_keyAtRank, gKeyAtRank, gKeyAtRankQ, gMaxIndex, GenSketch.store_keyAtRank,
    Sketch.storeKeyAtRank, keyAtRank_eq hr.repS 1 ord hl hk.low, maxIndex_eq hr.repS 1 ord hl hk.low, okOr_ok]
  cases r with
  | fin q => rfl
  | ninf => rfl
  | pinf => cases (Store.sp c).maxIndex? <;> rfl
  | nan => cases (Store.sp c).maxIndex? <;> rfl

/-! ### mutators -/

/-- `AddWithCount(i, c)`: `int64` index; a finite count must be `≥ 0` (the sparse store's contract) -/
theorem ssim_addWithCount {x : GSS ord} {st : Store} (h : SSim x st) (i : Int) (hi : Adm64 i) (c : F64)
    (hc : ∀ w, c = .fin w → 0 ≤ w) :
    SSim (StoreI.AddWithCount x i c : GSS ord) (StoreI.AddWithCount st i c) := by
  obtain ⟨ct, hr, rfl, hk⟩ := id h
  cases c with
  | fin w => exact ⟨ct.add i w, addWithCount_rep hr i w (hc w rfl), rfl, key64_add hk hi w⟩
  | pinf => exact h
  | ninf => exact h
  | nan => exact h

theorem ssim_add {x : GSS ord} {st : Store} (h : SSim x st) (i : Int) (hi : Adm64 i) :
    SSim (StoreI.Add x i : GSS ord) (StoreI.Add st i) := by
  obtain ⟨ct, hr, rfl, hk⟩ := h
  exact ⟨ct.add i 1, add_rep hr i, rfl, key64_add hk hi 1⟩

theorem ssim_clear (hl : ord.Lawful) {x : GSS ord} {st : Store} (h : SSim x st) :
    SSim (StoreI.Clear x : GSS ord) (StoreI.Clear st) := by
  obtain ⟨c, hr, rfl, _⟩ := h
  refine ⟨[], ?_, rfl, key64_nil⟩
  simp only [gss_clear, gClear, clear_eq hr.repS 1 ord hl, okOr_ok]
  exact rep_new

theorem ssim_copy (hl : ord.Lawful) {x : GSS ord} {st : Store} (h : SSim x st) :
    SSim (StoreI.Copy x : GSS ord) (StoreI.Copy st) := by
  obtain ⟨c, hr, rfl, hk⟩ := h
  refine ⟨c, ?_, rfl, hk⟩
  simp only [gss_copy, gCopy, copy_eq hr.repS 1 ord hl, okOr_ok]
  exact ⟨rfl, hr.2⟩

/-- `MergeWith` of two regenerated sparse stores: the argument is ranged over in the oracle's order -/
theorem ssim_mergeWith (hl : ord.Lawful) {x y : GSS ord} {st so : Store} (h : SSim x st) (h' : SSim y so) :
    SSim (StoreI.MergeWith x y : GSS ord) (StoreI.MergeWith st so) := by
  obtain ⟨c, hr, rfl, hk⟩ := h
  obtain ⟨co, hro, rfl, hko⟩ := h'
  refine ⟨c.merge co, ?_, rfl, key64_merge hk hko⟩
  have hm := @sparse_mergeWith_perm (GSS ord) feI 1 x.g c hr y co (mrange ord y.g.counts) (gForEachList_eq y)
    (by rw [hro.1]; exact mrange_perm ord hl co hro.2.1) (fun p hp => Rat.le_of_lt (hro.2.2 p hp))
  simp only [gss_mergeWith, gMergeWith, hm, okOr_ok]
  exact ⟨rfl, Content.wf_merge c co hr.2 hro.2⟩

/-- `Reweight(w)`, every float factor: the same error, related receivers -/
theorem ssim_reweight (hl : ord.Lawful) {x : GSS ord} {st : Store} (h : SSim x st) (w : F64) :
    (StoreI.Reweight x w).2 = (StoreI.Reweight st w).2 ∧
      SSim (StoreI.Reweight x w).1 (StoreI.Reweight st w).1 := by
  simp only [gss_reweight, gReweight, GenSketch.store_reweight, GenSketch.storeReweight]
  by_cases hle : F64.le w (.fin 0) = true
  · simp only [hle, if_true]; exact ⟨trivial, h⟩
  · simp only [hle, Bool.false_eq_true, if_false]
    cases w with
    | fin q =>
      have hq : ¬ q ≤ 0 := by
        intro hq; rw [GenSketch.le_fin_zero] at hle; exact hle (by simpa using hq)
      have hpos : 0 < q := Rat.not_le.mp hq
      obtain ⟨c, hr, rfl, hk⟩ := id h
      obtain ⟨c', hm, hg, h1, h2⟩ := (reweight_eq hr.repS 1 ord hl q).2 hpos
      simp only [hm, hg]
      refine ⟨trivial, c', ⟨rfl, ?_⟩, rfl, ?_⟩
      · by_cases e : q = 1
        · rw [h1 e]; exact hr.2
        · rw [h2 e]; exact Content.wf_scale c q hr.2 hpos
      · by_cases e : q = 1
        · rw [h1 e]; exact hk
        · rw [h2 e]; exact key64_scale hk q
    | pinf => exact ⟨rfl, h⟩
    | ninf => exact absurd rfl hle
    | nan => exact ⟨rfl, h⟩

/-! ### `DecodeAndMergeWith` of the instance (the regenerated wrapper) against the model's `decodeStore` -/

section decode
open DDS.GenStoreDecode DDS.GenEncoding DDS.GenDecodeWrap

/-- where the model's `decodeStore` succeeds on `.sp c` (indexes that do not wrap, finite weights `≥ 0`), the
    method of the instance returns the model's store, the model's remaining bytes and a nil error — no fuel
    hypothesis (the instance's fuel `3 * len(b) + 64` is sufficient), no condition on the iteration order (the
    decoder only calls `Add` / `AddWithCount`) -/
theorem gDecode_ok {x : GSS ord} {c : Content} (h : Rep x.g c) (st' : Store) (sub : Nat) (b : List (BitVec 8))
    (rest : List Nat) (hw : NoWrap sub (nb b))
    (hP : ∀ l b' e, decodeCalls (3 * b.length + 64) b (subflag sub) = .ok (l, b', e) → ∀ y ∈ l.calls, NonnegCall y)
    (hm : Sketch.decodeStore (.sp c) sub (nb b) = some (.ok (st', rest))) :
    ∃ c', st' = .sp c' ∧ Rep (⟨c'⟩ : SparseStore) c' ∧
      (StoreI.DecodeAndMergeWith x b (subflag sub) : GSS ord × List (BitVec 8) × GoErr)
        = (⟨⟨c'⟩⟩, bn rest, GoErr.nil) := by
  obtain ⟨c', h1, h2, h3⟩ := sparse_decode_ok (rawI ord) (rawI_adds ord) x.g c h st' sub b rest
    (3 * b.length + 64) (by omega) hw hP hm
  refine ⟨c', h1, h2, ?_⟩
  show gDecode x b (subflag sub) = _
  unfold gDecode
  rw [h3]

end decode

/-! ### the `StoreSim` instance and the sketch-level corollaries -/

/-- the regenerated sparse store simulates the model's sparse store, for every lawful iteration order of the map;
    admissible indexes: every `int64` -/
def sparseStoreSim (ord : MapOrder) (hl : ord.Lawful) : StoreSim (GSS ord) Store where
  R := SSim
  Adm := Adm64
  isEmpty := ssim_isEmpty
  totalCount := ssim_totalCount hl
  minIndex := ssim_minIndex hl
  maxIndex := ssim_maxIndex hl
  keyAtRank := ssim_keyAtRank hl
  addWithCount := fun h i hi c hc => ssim_addWithCount h i hi c hc
  add := fun h i hi => ssim_add h i hi
  clear := ssim_clear hl
  copy := ssim_copy hl
  mergeWith := ssim_mergeWith hl
  reweight := ssim_reweight hl

section sketch

open DDS.Gen.Sketch

variable {M : Type} [MapI M] [Inhabited M]

theorem adm64_of_idx32 {i : Int} (h : PStore.Idx32 i) : Adm64 i := by
  unfold PStore.Idx32 minInt32 maxInt32 at h
  unfold Adm64
  omega

omit [Inhabited M] in
/-- int32 routed indexes (the hypothesis of the paginated store and of `Props/Lift`) are admissible -/
theorem sparse_routed_of_32 (hl : ord.Lawful) (m : M) (v : F64) (h : GenPagSketch.Routed32 m v) :
    RoutedG (sparseStoreSim ord hl) m v :=
  ⟨fun a => adm64_of_idx32 (h.1 a), fun a => adm64_of_idx32 (h.2 a)⟩

/-- after any history of `AddWithCount` calls with `int64` routed indexes from
    `NewDDSketch(m, NewSparseStore(), NewSparseStore())` the two sketches are related and the errors agree -/
theorem sparse_runAdds (ord : MapOrder) (hl : ord.Lawful) (m : M) (l : List (F64 × F64))
    (hr : ∀ p ∈ l, RoutedG (sparseStoreSim ord hl) m p.1) :
    let a := runAdds (NewDDSketch m (⟨NewSparseStore⟩ : GSS ord) ⟨NewSparseStore⟩) l
    let b := runAdds (NewDDSketch m (Store.new .sparse) (Store.new .sparse)) l
    a.2 = b.2 ∧ SkSimG (sparseStoreSim ord hl) a.1 b.1 :=
  runAdds_paramG (sparseStoreSim ord hl) l (skSimG_new (sparseStoreSim ord hl) m ssim_new ssim_new) hr

/-- **the sparse sketch on regenerated code**: … and every observer agrees, for every lawful iteration order -/
theorem sparse_history_observers (ord : MapOrder) (hl : ord.Lawful) (m : M) (l : List (F64 × F64))
    (hr : ∀ p ∈ l, RoutedG (sparseStoreSim ord hl) m p.1) :
    let a := runAdds (NewDDSketch m (⟨NewSparseStore⟩ : GSS ord) ⟨NewSparseStore⟩) l
    let b := runAdds (NewDDSketch m (Store.new .sparse) (Store.new .sparse)) l
    a.2 = b.2 ∧ DDSketch.GetCount a.1 = DDSketch.GetCount b.1 ∧ DDSketch.IsEmpty a.1 = DDSketch.IsEmpty b.1 ∧
    (∀ q, DDSketch.GetValueAtQuantile a.1 q = DDSketch.GetValueAtQuantile b.1 q) ∧
    DDSketch.GetMinValue a.1 = DDSketch.GetMinValue b.1 ∧ DDSketch.GetMaxValue a.1 = DDSketch.GetMaxValue b.1 :=
  history_observers_paramG (sparseStoreSim ord hl) m ssim_new ssim_new l hr

/-- a single `AddWithCount` -/
theorem sparse_AddWithCount_param (hl : ord.Lawful) {a : DDSketch M (GSS ord)} {b : DDSketch M Store}
    (h : SkSimG (sparseStoreSim ord hl) a b) (v c : F64) (hv : RoutedG (sparseStoreSim ord hl) b.IndexMapping v) :
    (DDSketch.AddWithCount a v c).2 = (DDSketch.AddWithCount b v c).2 ∧
      SkSimG (sparseStoreSim ord hl) (DDSketch.AddWithCount a v c).1 (DDSketch.AddWithCount b v c).1 :=
  AddWithCount_paramG (sparseStoreSim ord hl) h v c hv.1 hv.2

end sketch

end DDS.GenSparseSketch
