/-
  DDS.Proofs.Growth — the hypothesis `DStore.GrowthOK` of `DDS.Proofs.Dense` /
  `DDS.Proofs.Collapsing` is a THEOREM: for spans below `2^33` (every span of int32 indexes)
  the float computation of `DenseStore.getNewLength` returns a length that covers the span
  (`DDS.denseNewLength_ge`, `DDS.Proofs.Num`).

  `DDS.Proofs.Dense` and `DDS.Proofs.Collapsing` use core Lean only and therefore keep
  `hG : GrowthOK` as a parameter; this file (which may import Mathlib through `DDS.Proofs.Num`)
  discharges it and restates the headline theorems without it, in the namespace `DDS.Uncond`.
-/
import DDS.Proofs.Num
import DDS.Proofs.Refine
import DDS.Proofs.Collapsing

namespace DDS
namespace DStore

/-- the growth hypothesis holds: `getNewLength` covers every span below `2^33` -/
theorem growthOK : GrowthOK := fun a b hab hsp => denseNewLength_ge a b hab hsp

end DStore

/-! ## the headline theorems of `Dense`, `Collapsing`, `Refine` without the hypothesis -/

namespace Uncond

open DStore

/-! ### plain dense store -/

theorem addWithCount_ok (s : DStore) (h : Inv s) (i : Int) (w : Rat) (hw : 0 ≤ w)
    (hsp : SpanOK s i i) :
    ∃ s', s.addWithCount i w = some s' ∧ Inv s' ∧
      (∀ j, wt s' j = wt s j + (if j = i then w else 0)) ∧ s'.count = s.count + w :=
  DStore.addWithCount_ok growthOK s h i w hw hsp

/-- the int32 form: a store holding int32 indexes accepts every int32 index -/
theorem addWithCount_ok32 (s : DStore) (h : Inv s) (hb : Bounded32 s) (i : Int)
    (hi : minInt32 ≤ i ∧ i ≤ maxInt32) (w : Rat) (hw : 0 ≤ w) :
    ∃ s', s.addWithCount i w = some s' ∧ Inv s' ∧ Bounded32 s' ∧
      (∀ j, wt s' j = wt s j + (if j = i then w else 0)) ∧ s'.count = s.count + w := by
  obtain ⟨s', h1, h2, h3, h4⟩ :=
    DStore.addWithCount_ok growthOK s h i w hw (spanOK_of_bounded32 s h hb i i hi hi)
  exact ⟨s', h1, h2, addWithCount_bounded32 growthOK s h hb i w hw hi s' h1, h3, h4⟩

theorem mergeSame_ok (s o : DStore) (hs : Inv s) (ho : Inv o)
    (hsp : SpanOK s o.minIndex o.maxIndex) :
    ∃ s', s.mergeSame o = some s' ∧ Inv s' ∧ (∀ j, wt s' j = wt s j + wt o j) ∧
      s'.count = s.count + o.count :=
  DStore.mergeSame_ok growthOK s o hs ho hsp

theorem mergeSame_ok32 (s o : DStore) (hs : Inv s) (ho : Inv o) (bs : Bounded32 s)
    (bo : Bounded32 o) :
    ∃ s', s.mergeSame o = some s' ∧ Inv s' ∧ Bounded32 s' ∧ (∀ j, wt s' j = wt s j + wt o j) ∧
      s'.count = s.count + o.count := by
  obtain ⟨ow1, ow2, ow3, ow4⟩ := ho.window32 bo
  obtain ⟨s', h1, h2, h3, h4⟩ := DStore.mergeSame_ok growthOK s o hs ho
    (spanOK_of_bounded32 s hs bs _ _ ⟨ow1, ow2⟩ ⟨ow3, ow4⟩)
  exact ⟨s', h1, h2, mergeSame_bounded32 growthOK s o hs ho bs bo s' h1, h3, h4⟩

theorem mergeBins_ok (s : DStore) (h : Inv s) (hb : Bounded32 s)
    (l : List (Int × Rat)) (hl : ∀ p ∈ l, 0 ≤ p.2)
    (hl32 : ∀ p ∈ l, minInt32 ≤ p.1 ∧ p.1 ≤ maxInt32) :
    ∃ s', s.mergeBins l = some s' ∧ Inv s' ∧
      (∀ j, wt s' j = wt s j + ((l.filter (fun p => p.1 = j)).map (·.2)).sum) ∧
      s'.count = s.count + (l.map (·.2)).sum ∧ Bounded32 s' :=
  DStore.mergeBins_ok growthOK s h hb l hl hl32

theorem run_ok (ops : List Op)
    (hops : ∀ op ∈ ops, match op with
      | .add i w => 0 ≤ w ∧ minInt32 ≤ i ∧ i ≤ maxInt32 | _ => True) :
    ∃ s, ops.foldlM applyOp (DStore.new .plain) = some s ∧ Inv s :=
  DStore.run_ok growthOK ops hops

theorem run_ok32 (ops : List Op)
    (hops : ∀ op ∈ ops, match op with
      | .add i w => 0 ≤ w ∧ minInt32 ≤ i ∧ i ≤ maxInt32 | _ => True) :
    ∃ s, ops.foldlM applyOp (DStore.new .plain) = some s ∧ Inv s ∧ Bounded32 s :=
  DStore.run_ok32 growthOK ops hops

theorem dense_add (s : DStore) (h : Inv s) (hb : Bounded32 s) (c : Content)
    (hc : (Store.d s).Refines c) (i : Int) (hi : minInt32 ≤ i ∧ i ≤ maxInt32) (w : Rat)
    (hw : 0 ≤ w) :
    ∃ s', (Store.d s).addWithCount i w = some (.d s') ∧ Inv s' ∧ Bounded32 s' ∧
      (Store.d s').Refines (c.add i w) :=
  Store.dense_add growthOK s h hb c hc i hi w hw

/-! ### collapsing stores -/

theorem low_addWithCount_ok (N : Nat) (s : DStore) (h : InvLow N s)
    (ht : Tight32 s) (i : Int) (w : Rat) (hw : 0 ≤ w) (hi : minInt32 ≤ i ∧ i ≤ maxInt32) :
    ∃ s', s.addWithCount i w = some s' ∧ InvLow N s' ∧ Tight32 s' ∧ s'.count = s.count + w ∧
      content s' = Content.specLow N ((content s).add i w) :=
  DStore.low_addWithCount_ok growthOK N s h ht i w hw hi

theorem high_addWithCount_ok (N : Nat) (s : DStore) (h : InvHigh N s)
    (ht : Tight32 s) (i : Int) (w : Rat) (hw : 0 ≤ w) (hi : minInt32 ≤ i ∧ i ≤ maxInt32) :
    ∃ s', s.addWithCount i w = some s' ∧ InvHigh N s' ∧ Tight32 s' ∧ s'.count = s.count + w ∧
      content s' = Content.specHigh N ((content s).add i w) :=
  DStore.high_addWithCount_ok growthOK N s h ht i w hw hi

theorem low_mergeSame_ok (N M : Nat) (s o : DStore) (hs : InvLow N s)
    (ho : InvLow M o) (ts : Tight32 s) (tso : Tight32 o) :
    ∃ s', s.mergeSame o = some s' ∧ InvLow N s' ∧ Tight32 s' ∧ s'.count = s.count + o.count ∧
      content s' = Content.specLow N ((content s).merge (content o)) :=
  DStore.low_mergeSame_ok growthOK N M s o hs ho ts tso

theorem high_mergeSame_ok (N M : Nat) (s o : DStore) (hs : InvHigh N s)
    (ho : InvHigh M o) (ts : Tight32 s) (tso : Tight32 o) :
    ∃ s', s.mergeSame o = some s' ∧ InvHigh N s' ∧ Tight32 s' ∧ s'.count = s.count + o.count ∧
      content s' = Content.specHigh N ((content s).merge (content o)) :=
  DStore.high_mergeSame_ok growthOK N M s o hs ho ts tso

theorem low_mergeBins_ok (N : Nat) (s : DStore) (h : InvLow N s) (ht : Tight32 s)
    (l : List (Int × Rat)) (hl : ∀ p ∈ l, 0 ≤ p.2)
    (hl32 : ∀ p ∈ l, minInt32 ≤ p.1 ∧ p.1 ≤ maxInt32) :
    ∃ s', s.mergeBins l = some s' ∧ InvLow N s' ∧ Tight32 s' ∧
      s'.count = s.count + (l.map (·.2)).sum ∧
      content s' = Content.specLow N ((content s).merge (Content.ofList l)) :=
  DStore.low_mergeBins_ok growthOK N s h ht l hl hl32

theorem high_mergeBins_ok (N : Nat) (s : DStore) (h : InvHigh N s) (ht : Tight32 s)
    (l : List (Int × Rat)) (hl : ∀ p ∈ l, 0 ≤ p.2)
    (hl32 : ∀ p ∈ l, minInt32 ≤ p.1 ∧ p.1 ≤ maxInt32) :
    ∃ s', s.mergeBins l = some s' ∧ InvHigh N s' ∧ Tight32 s' ∧
      s'.count = s.count + (l.map (·.2)).sum ∧
      content s' = Content.specHigh N ((content s).merge (Content.ofList l)) :=
  DStore.high_mergeBins_ok growthOK N s h ht l hl hl32

theorem low_history (N : Nat) (hN : 1 ≤ N) (ops : List Op) (hops : ∀ op ∈ ops, op.ok32) :
    ∃ s, ops.foldlM applyOp (DStore.new (.low N)) = some s ∧ InvLow N s ∧ Tight32 s ∧
      content s = Content.specLow N (exactContent ops) :=
  DStore.low_history growthOK N hN ops hops

theorem high_history (N : Nat) (hN : 1 ≤ N) (ops : List Op) (hops : ∀ op ∈ ops, op.ok32) :
    ∃ s, ops.foldlM applyOp (DStore.new (.high N)) = some s ∧ InvHigh N s ∧ Tight32 s ∧
      content s = Content.specHigh N (exactContent ops) :=
  DStore.high_history growthOK N hN ops hops

/-! ### non-vacuity: every set of hypotheses above is met by a concrete store -/

/-- `addWithCount_ok` / `addWithCount_ok32` / `dense_add`: the fresh store, index 5 -/
example : ∃ s', (DStore.new .plain).addWithCount 5 1 = some s' ∧ Inv s' ∧ Bounded32 s' ∧
    wt s' 5 = 1 ∧ s'.count = 1 := by
  obtain ⟨s', h1, h2, h3, h4, h5⟩ :=
    addWithCount_ok32 (DStore.new .plain) inv_new bounded32_new 5 (by decide) 1 (by decide)
  refine ⟨s', h1, h2, h3, ?_, ?_⟩
  · rw [h4, if_pos rfl]; simp [wt, DStore.new, at0_empty]
  · rw [h5]; simp [DStore.new]

example : SpanOK (DStore.new .plain) 5 5 := by unfold SpanOK; decide

example : ∃ s', (Store.d (DStore.new .plain)).addWithCount 5 1 = some (.d s') ∧
    (Store.d s').Refines (Content.add [] 5 1) := by
  obtain ⟨s', h1, _, _, h4⟩ := dense_add (DStore.new .plain) inv_new bounded32_new []
    Store.refines_new_dense 5 (by decide) 1 (by decide)
  exact ⟨s', h1, h4⟩

/-- `mergeSame_ok` / `mergeSame_ok32`: a store holding index 5 merged into one holding index -7 -/
example : ∃ a b m, (DStore.new .plain).addWithCount (-7) 2 = some a ∧
    (DStore.new .plain).addWithCount 5 1 = some b ∧ a.mergeSame b = some m ∧ Inv m ∧
    wt m 5 = 1 ∧ wt m (-7) = 2 := by
  obtain ⟨a, a1, a2, a3, a4, _⟩ :=
    addWithCount_ok32 (DStore.new .plain) inv_new bounded32_new (-7) (by decide) 2 (by decide)
  obtain ⟨b, b1, b2, b3, b4, _⟩ :=
    addWithCount_ok32 (DStore.new .plain) inv_new bounded32_new 5 (by decide) 1 (by decide)
  obtain ⟨m, m1, m2, _, m4, _⟩ := mergeSame_ok32 a b a2 b2 a3 b3
  have hw0 : ∀ j, wt (DStore.new .plain) j = 0 := fun j => by simp [wt, DStore.new, at0_empty]
  refine ⟨a, b, m, a1, b1, m1, m2, ?_, ?_⟩
  · rw [m4, a4, b4, hw0, if_neg (by decide), if_pos rfl]; decide +kernel
  · rw [m4, a4, b4, hw0, if_pos rfl, if_neg (by decide)]; decide +kernel

/-- `mergeBins_ok`: three bins into the fresh store -/
example : ∃ s', (DStore.new .plain).mergeBins [(1, 2), (4, 1), (9, 3)] = some s' ∧ Inv s' ∧
    Bounded32 s' ∧ s'.count = 6 := by
  obtain ⟨s', h1, h2, _, h4, h5⟩ := mergeBins_ok (DStore.new .plain) inv_new bounded32_new
    [(1, 2), (4, 1), (9, 3)] (by decide) (by decide)
  refine ⟨s', h1, h2, h5, ?_⟩
  rw [h4]; decide +kernel

/-- `run_ok` / `run_ok32`: a history with every kind of operation -/
example : ∃ s, [Op.add 3 1, .add (-2) 2, .reweight 3, .clear, .add 7 1].foldlM applyOp
    (DStore.new .plain) = some s ∧ Inv s ∧ Bounded32 s :=
  run_ok32 _ (by
    intro op hop
    simp only [List.mem_cons, List.not_mem_nil, or_false] at hop
    rcases hop with rfl | rfl | rfl | rfl | rfl <;>
      first | exact ⟨by decide, by decide, by decide⟩ | trivial)

/-- `low_addWithCount_ok` / `high_addWithCount_ok`: the fresh stores with 2 bins -/
example : ∃ s', (DStore.new (.low 2)).addWithCount 5 1 = some s' ∧ InvLow 2 s' ∧ Tight32 s' ∧
    content s' = [(5, 1)] := by
  obtain ⟨s', h1, h2, h3, _, h5⟩ := low_addWithCount_ok 2 (DStore.new (.low 2))
    (invLow_new 2 (by omega)) (tight32_new _) 5 1 (by decide) (by decide)
  refine ⟨s', h1, h2, h3, ?_⟩
  rw [h5, low_content_empty 2 _ (invLow_new 2 (by omega)) rfl]; decide +kernel

example : ∃ s', (DStore.new (.high 2)).addWithCount 5 1 = some s' ∧ InvHigh 2 s' ∧ Tight32 s' ∧
    content s' = [(5, 1)] := by
  obtain ⟨s', h1, h2, h3, _, h5⟩ := high_addWithCount_ok 2 (DStore.new (.high 2))
    (invHigh_new 2 (by omega)) (tight32_new _) 5 1 (by decide) (by decide)
  refine ⟨s', h1, h2, h3, ?_⟩
  rw [h5, high_content_empty 2 _ (invHigh_new 2 (by omega)) rfl]; decide +kernel

/-- `low_history` + `low_mergeSame_ok`: a 16-bin store holding 0, 4, 9, 10 merged into a 3-bin
    store holding 1: everything below 8 ends up on 8 -/
example : ∃ s o m, [Op.add 1 1].foldlM applyOp (DStore.new (.low 3)) = some s ∧
    [Op.add 0 1, .add 4 2, .add 9 1, .add 10 1].foldlM applyOp (DStore.new (.low 16)) = some o ∧
    s.mergeSame o = some m ∧ InvLow 3 m ∧ content m = [(8, 4), (9, 1), (10, 1)] := by
  obtain ⟨s, s1, s2, s3, s4⟩ := low_history 3 (by omega) [Op.add 1 1] (by
    intro op hop
    simp only [List.mem_cons, List.not_mem_nil, or_false] at hop
    subst hop; exact ⟨by decide, by decide, by decide⟩)
  obtain ⟨o, o1, o2, o3, o4⟩ := low_history 16 (by omega)
    [Op.add 0 1, .add 4 2, .add 9 1, .add 10 1] (by
    intro op hop
    simp only [List.mem_cons, List.not_mem_nil, or_false] at hop
    rcases hop with rfl | rfl | rfl | rfl <;> exact ⟨by decide, by decide, by decide⟩)
  obtain ⟨m, m1, m2, _, _, m5⟩ := low_mergeSame_ok 3 16 s o s2 o2 s3 o3
  refine ⟨s, o, m, s1, o1, m1, m2, ?_⟩
  rw [m5, s4, o4]; decide +kernel

/-- `high_history` + `high_mergeSame_ok` + `high_mergeBins_ok` -/
example : ∃ s o m m', [Op.add 1 1].foldlM applyOp (DStore.new (.high 3)) = some s ∧
    [Op.add 0 1, .add 4 2, .add 9 1, .add 10 1].foldlM applyOp (DStore.new (.high 16)) = some o ∧
    s.mergeSame o = some m ∧ InvHigh 3 m ∧ content m = [(0, 1), (1, 1), (2, 4)] ∧
    s.mergeBins [(7, 1)] = some m' ∧ content m' = [(1, 1), (3, 1)] := by
  obtain ⟨s, s1, s2, s3, s4⟩ := high_history 3 (by omega) [Op.add 1 1] (by
    intro op hop
    simp only [List.mem_cons, List.not_mem_nil, or_false] at hop
    subst hop; exact ⟨by decide, by decide, by decide⟩)
  obtain ⟨o, o1, o2, o3, o4⟩ := high_history 16 (by omega)
    [Op.add 0 1, .add 4 2, .add 9 1, .add 10 1] (by
    intro op hop
    simp only [List.mem_cons, List.not_mem_nil, or_false] at hop
    rcases hop with rfl | rfl | rfl | rfl <;> exact ⟨by decide, by decide, by decide⟩)
  obtain ⟨m, m1, m2, _, _, m5⟩ := high_mergeSame_ok 3 16 s o s2 o2 s3 o3
  obtain ⟨m', n1, _, _, _, n5⟩ := high_mergeBins_ok 3 s s2 s3 [(7, 1)] (by decide) (by decide)
  refine ⟨s, o, m, m', s1, o1, m1, m2, ?_, n1, ?_⟩
  · rw [m5, s4, o4]; decide +kernel
  · rw [n5, s4]; decide +kernel

/-- `low_mergeBins_ok` -/
example : ∃ s m', [Op.add 1 1].foldlM applyOp (DStore.new (.low 3)) = some s ∧
    s.mergeBins [(7, 1)] = some m' ∧ content m' = [(5, 1), (7, 1)] := by
  obtain ⟨s, s1, s2, s3, s4⟩ := low_history 3 (by omega) [Op.add 1 1] (by
    intro op hop
    simp only [List.mem_cons, List.not_mem_nil, or_false] at hop
    subst hop; exact ⟨by decide, by decide, by decide⟩)
  obtain ⟨m', n1, _, _, _, n5⟩ := low_mergeBins_ok 3 s s2 s3 [(7, 1)] (by decide) (by decide)
  refine ⟨s, m', s1, n1, ?_⟩
  rw [n5, s4]; decide +kernel

end Uncond
end DDS
