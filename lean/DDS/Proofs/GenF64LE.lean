/-
  DDS.Proofs.GenF64LE — the regenerated `DecodeFloat64LE` (encoding.go:128, `DDS/Generated/CodeEncoding.lean`)
  against the model's `Codec.decF64LE`, and what `GenSketch7` had left conditional on it.

  1. `f64LESpec : GenSketch7.F64LESpec` — the statement is TRUE AS WRITTEN, for every fuel: the regenerated
     function has no loop, its fuel argument is unused, it never gives `.panic` / `.nofuel`.
     Core: `leU64_spec` (`GoSem.leU64` on ≥ 8 bytes = `Codec.leValue` of the first eight `toNat`s), from
     `or_byte` (or-ing a shifted byte above an accumulator is an addition; `C18Bits.acc_or_bits`).
  2. `xfb_spec'`, `XDecodeAndMergeWith_rel_gen'`, `XDecodeAndMergeWith_rel'`, `DecodeExact_relO'`: the
     theorems of `GenSketch7` that took `F64LESpec` as a hypothesis, without it (same statements otherwise;
     fuel bound `len b + 9 ≤ fuel`).
  3a. round trip of the regenerated pair (C18): `decode_encode_bits` (every float, every fuel on both sides:
     the decoder returns `F64.ofBits v.toBits`, the following bytes, nil), `decode_encode` /
     `decode_encode_rep` (the value itself when `F64.ofBits v.toBits = v`: every representable finite value).
     The model's float type has ONE NaN and ONE zero, so the value `v` itself is only recovered up to that.
  3b. `decodeLoop_noMS`: the model's `Sketch.decodeLoop` never refuses with `.missingStats` (any fuel, sketch,
     auxiliary state, input) — so does `decodeStore`, `decItems`, `fallback`.
  3c. `XDecRel1` = `XDecRel` with ONE Go error per refusal (`decErrX e`) instead of the disjunction;
     `XDecodeAndMergeWith_rel1_gen`, `XDecodeAndMergeWith_rel1`, `DecodeExact_rel1O`; `XDecRel1_imp` gives back
     `XDecRel`.
  No disagreement found between generated code and model.
-/
import DDS.Proofs.GenSketch7
import DDS.Proofs.GenMapId
import DDS.Props.C18Bits

set_option linter.unusedVariables false
set_option linter.unusedSectionVars false

namespace DDS.GenF64LE

open DDS DDS.GoSem DDS.Gen.Sketch DDS.GenSketch DDS.GenSketch7
open DDS.Gen.Encoding DDS.GenEncoding DDS.Codec

/-! ## 1. `binary.LittleEndian.Uint64` reads `Codec.leValue` -/

/-- one more byte or-ed above an accumulator that only has bits below `8 i` -/
theorem or_byte (x : BitVec 64) (a : BitVec 8) (i : Nat) (hi : i < 8) (hx : x.toNat < 2 ^ (8 * i)) :
    (x ||| a.setWidth 64 <<< (8 * i)).toNat = x.toNat + a.toNat * 2 ^ (8 * i) ∧
      (x ||| a.setWidth 64 <<< (8 * i)).toNat < 2 ^ (8 * (i + 1)) := by
  have ha : a.toNat < 256 := a.isLt
  have hm : a.toNat * 2 ^ (8 * i) ≤ 255 * 2 ^ (8 * i) := Nat.mul_le_mul_right _ (by omega)
  have hp : (2 : Nat) ^ (8 * (i + 1)) = 256 * 2 ^ (8 * i) := by
    rw [Nat.mul_add, Nat.pow_add, Nat.mul_comm]
  have hle : (2 : Nat) ^ (8 * (i + 1)) ≤ 2 ^ 64 := Nat.pow_le_pow_right (by decide) (by omega)
  have hlt : x.toNat + a.toNat * 2 ^ (8 * i) < 2 ^ (8 * (i + 1)) := by rw [hp]; omega
  have e : (x ||| a.setWidth 64 <<< (8 * i)).toNat = x.toNat + a.toNat * 2 ^ (8 * i) := by
    rw [Props.C18Bits.acc_or_bits x (a.setWidth 64) (8 * i) hx, setWidth64_toNat]
    unfold W64
    exact Nat.mod_eq_of_lt (by omega)
  exact ⟨e, by rw [e]; exact hlt⟩

/-- the eight or-ed shifted bytes of `GoSem.leU64` -/
def orBytes (a0 a1 a2 a3 a4 a5 a6 a7 : BitVec 8) : BitVec 64 :=
  0#64 ||| a0.setWidth 64 <<< (8 * 0) ||| a1.setWidth 64 <<< (8 * 1) ||| a2.setWidth 64 <<< (8 * 2)
    ||| a3.setWidth 64 <<< (8 * 3) ||| a4.setWidth 64 <<< (8 * 4) ||| a5.setWidth 64 <<< (8 * 5)
    ||| a6.setWidth 64 <<< (8 * 6) ||| a7.setWidth 64 <<< (8 * 7)

theorem leU64_cons8 (a0 a1 a2 a3 a4 a5 a6 a7 : BitVec 8) (rest : List (BitVec 8)) :
    GoSem.leU64 (a0 :: a1 :: a2 :: a3 :: a4 :: a5 :: a6 :: a7 :: rest)
      = some (orBytes a0 a1 a2 a3 a4 a5 a6 a7) := by
  unfold GoSem.leU64
  rw [if_neg (by simp only [List.length_cons]; omega)]
  rfl

theorem orBytes_toNat (a0 a1 a2 a3 a4 a5 a6 a7 : BitVec 8) :
    (orBytes a0 a1 a2 a3 a4 a5 a6 a7).toNat
      = leValue [a0.toNat, a1.toNat, a2.toNat, a3.toNat, a4.toNat, a5.toNat, a6.toNat, a7.toNat] := by
  unfold orBytes
  obtain ⟨e0, b0⟩ := or_byte 0#64 a0 0 (by decide) (by decide)
  obtain ⟨e1, b1⟩ := or_byte _ a1 1 (by decide) b0
  obtain ⟨e2, b2⟩ := or_byte _ a2 2 (by decide) b1
  obtain ⟨e3, b3⟩ := or_byte _ a3 3 (by decide) b2
  obtain ⟨e4, b4⟩ := or_byte _ a4 4 (by decide) b3
  obtain ⟨e5, b5⟩ := or_byte _ a5 5 (by decide) b4
  obtain ⟨e6, b6⟩ := or_byte _ a6 6 (by decide) b5
  obtain ⟨e7, b7⟩ := or_byte _ a7 7 (by decide) b6
  rw [e7, e6, e5, e4, e3, e2, e1, e0]
  simp only [leValue, BitVec.toNat_ofNat, Nat.reducePow, Nat.reduceMul, Nat.zero_mod]
  omega

/-- **`GoSem.leU64` on at least eight bytes is `Codec.leValue` of the first eight** -/
theorem leU64_spec (l : List (BitVec 8)) (h : 8 ≤ l.length) :
    ∃ v, GoSem.leU64 l = some v ∧ v.toNat = leValue ((nb l).take 8) := by
  rcases l with _ | ⟨a0, _ | ⟨a1, _ | ⟨a2, _ | ⟨a3, _ | ⟨a4, _ | ⟨a5, _ | ⟨a6, _ | ⟨a7, rest⟩⟩⟩⟩⟩⟩⟩⟩ <;>
    try (simp only [List.length_cons, List.length_nil] at h; omega)
  refine ⟨_, leU64_cons8 a0 a1 a2 a3 a4 a5 a6 a7 rest, ?_⟩
  rw [orBytes_toNat]
  rfl

theorem ofBitVec_eq (v : BitVec 64) : UInt64.ofBitVec v = UInt64.ofNat v.toNat := by
  apply UInt64.eq_of_toBitVec_eq
  apply BitVec.eq_of_toNat_eq
  simp

theorem nb_length (b : List (BitVec 8)) : (nb b).length = b.length := by simp [nb]

/-- **`DecodeFloat64LE` is the model's `decF64LE`, for EVERY fuel** (the function has no loop: the fuel
    argument is not used; never `.panic`, never `.nofuel`) -/
theorem f64LESpec : F64LESpec := by
  intro fuel b
  unfold DecodeFloat64LE decF64LE
  rw [nb_length]
  by_cases hl : b.length < 8
  · have : decide (GoSem.len b < (8 : Int)) = true := by
      rw [decide_eq_true_eq]; unfold GoSem.len; omega
    rw [this, if_pos rfl, if_pos hl]
  · have : decide (GoSem.len b < (8 : Int)) = false := by
      rw [decide_eq_false_iff_not]; unfold GoSem.len; omega
    rw [this, if_neg (by decide), if_neg hl]
    obtain ⟨v, hv, hn⟩ := leU64_spec b (by omega)
    rw [hv, optR_some, show ((8 : Int)) = ((8 : Nat) : Int) from rfl, sliceFrom_nat b 8 (by omega),
      optR_some]
    show Res.ok (b.drop 8, GoSem.float64frombits v, GoErr.nil) = _
    unfold GoSem.float64frombits
    rw [ofBitVec_eq, hn]

/-! ## 2. the theorems of `GenSketch7` without the hypothesis -/

section Inst
variable {M : Type} [MapI M] [Inhabited M]

theorem xfb_spec' (fuel : Nat) (hf : 9 ≤ fuel) : FbSpecS (XR (M := M)) (xfb (M := M) fuel) :=
  xfb_spec f64LESpec fuel hf

theorem XDecodeAndMergeWith_rel_gen' {idOf : M → Option MapId} (law : MapLaw idOf)
    (fuel : Nat) (g : DDSketchWithExactSummaryStatistics M Store) (b : List (BitVec 8))
    (hf : b.length + 9 ≤ fuel) :
    XDecRel idOf ((ofGenXI idOf g).decodeAndMergeWith (nb b))
      (Gen.SketchIter.DDSketchWithExactSummaryStatistics.DecodeAndMergeWith fuel g b) :=
  XDecodeAndMergeWith_rel_gen law f64LESpec fuel g b hf

theorem XDecodeAndMergeWith_rel' (env : MapEnv) (x : XSketch)
    (hm : x.sk.mapping = some env.id) (fuel : Nat) (b : List (BitVec 8)) (hf : b.length + 9 ≤ fuel) :
    XDecRel (fun e : MapEnv => some e.id) (x.decodeAndMergeWith (nb b))
      (Gen.SketchIter.DDSketchWithExactSummaryStatistics.DecodeAndMergeWith fuel (toGenX env x) b) :=
  XDecodeAndMergeWith_rel f64LESpec env x hm fuel b hf

theorem DecodeExact_relO' (fuel : Nat) (b : List (BitVec 8)) (k : StoreKind)
    (m : Option MapEnv) (hf : b.length + 9 ≤ fuel) :
    XDecRel (fun o : Option MapEnv => o.map (fun e => e.id))
      ((XSketch.new (m.map (fun e => e.id)) k).decodeAndMergeWith (nb b))
      (Gen.SketchIter.DecodeDDSketchWithExactSummaryStatistics fuel b (provider k) m) :=
  DecodeExact_relO f64LESpec fuel b k m hf

end Inst

/-! ## 3a. the round trip of the regenerated pair -/

/-- decoding the eight bytes the model writes for a 64-bit pattern, followed by anything -/
theorem DecodeFloat64LE_enc (fuel : Nat) (n : Nat) (hn : n < W64) (rest : List (BitVec 8)) :
    DecodeFloat64LE fuel (bn (encF64LE n) ++ rest) = .ok (rest, F64.ofBits (UInt64.ofNat n), GoErr.nil) := by
  have hl : (bn (encF64LE n)).length = 8 := by simp [bn, encF64LE]
  have hnb : nb (bn (encF64LE n) ++ rest) = encF64LE n ++ nb rest := by
    rw [nb_append, nb_bn _ (GenMapId.encF64LE_bytes n)]
  rw [f64LESpec fuel, hnb, decF64LE_encF64LE n hn]
  show Res.ok ((bn (encF64LE n) ++ rest).drop 8, _, _) = _
  rw [List.drop_left' hl]

/-- **round trip on the regenerated pair**: `DecodeFloat64LE (EncodeFloat64LE b v)` read from where the
    encoder started writing gives back the float of the bit pattern of `v`, the bytes that follow, a nil
    error — every fuel on both sides, every float -/
theorem decode_encode_bits (f1 f2 : Nat) (b rest : List (BitVec 8)) (v : F64) :
    ∃ bs, EncodeFloat64LE f1 b v = .ok (b ++ bs) ∧
      DecodeFloat64LE f2 (bs ++ rest) = .ok (rest, F64.ofBits v.toBits, GoErr.nil) := by
  refine ⟨_, GenMapId.EncodeFloat64LE_eq f1 b v, ?_⟩
  rw [DecodeFloat64LE_enc f2 _ (by unfold W64; exact v.toBits.toNat_lt) rest, UInt64.ofNat_toNat]

/-- the value itself for every float that is its own bit pattern's value (all representable finite
    values by `F64.toBits_ofBits_rep`, the infinities; the model has one NaN and one zero) -/
theorem decode_encode (f1 f2 : Nat) (b rest : List (BitVec 8)) (v : F64)
    (hv : F64.ofBits v.toBits = v) :
    ∃ bs, EncodeFloat64LE f1 b v = .ok (b ++ bs) ∧
      DecodeFloat64LE f2 (bs ++ rest) = .ok (rest, v, GoErr.nil) := by
  obtain ⟨bs, h1, h2⟩ := decode_encode_bits f1 f2 b rest v
  exact ⟨bs, h1, by rw [h2, hv]⟩

theorem decode_encode_rep (f1 f2 : Nat) (b rest : List (BitVec 8)) (q : Rat) (hq : F64.isRep q = true) :
    ∃ bs, EncodeFloat64LE f1 b (.fin q) = .ok (b ++ bs) ∧
      DecodeFloat64LE f2 (bs ++ rest) = .ok (rest, .fin q, GoErr.nil) :=
  decode_encode f1 f2 b rest _ (F64.toBits_ofBits_rep q hq)

/-! ## 3b. the decoder loop never refuses with `.missingStats` -/

theorem liftDec_error {α} (x : Except DecErr α) (e : SkErr) (h : Sketch.liftDec x = .error e) :
    e = .eof := by
  cases x with
  | error d => cases h; rfl
  | ok a => cases h

theorem map_ok_ne {α β} (o : Option α) (f : α → β) (e : SkErr) :
    o.map (fun a => (Except.ok (f a) : Except SkErr β)) ≠ some (.error e) := by
  cases o with
  | none => intro h; cases h
  | some a => intro h; cases h

/-- the refusals that are not `.missingStats` -/
def NoMS {α} (r : Option (Except SkErr α)) : Prop := ∀ e, r = some (.error e) → e ≠ .missingStats

theorem NoMS_err {α} (e : SkErr) (h : e ≠ .missingStats) : NoMS (α := α) (some (.error e)) := by
  intro e' h'; cases h'; exact h
theorem NoMS_ok {α} (a : α) : NoMS (some (.ok a)) := by intro e h; cases h
theorem NoMS_none {α} : NoMS (α := α) none := by intro e h; cases h
theorem NoMS_map {α β} (o : Option α) (f : α → β) :
    NoMS (o.map (fun a => (Except.ok (f a) : Except SkErr β))) := by
  intro e h; exact absurd h (map_ok_ne o f e)
theorem NoMS_lift {α β} (x : Except DecErr α) (e : SkErr) (h : Sketch.liftDec x = .error e) :
    NoMS (α := β) (some (.error e)) := by
  rw [liftDec_error x e h]; exact NoMS_err _ (by decide)

theorem decItems_noMS (item : Store → Int → Bytes → Option (Except SkErr (Store × Int × Bytes)))
    (hitem : ∀ st i bs, NoMS (item st i bs)) :
    ∀ (n : Nat) (st : Store) (i : Int) (bs : Bytes), NoMS (Sketch.decItems item n st i bs) := by
  intro n
  induction n with
  | zero => intro st i bs; exact NoMS_ok _
  | succ n ih =>
    intro st i bs
    unfold Sketch.decItems
    have hi := hitem st i bs
    split
    · exact NoMS_none
    · rename_i e he; rw [he] at hi; exact NoMS_err _ (hi _ rfl)
    · exact ih _ _ _

theorem decodeStore_noMS (st : Store) (sub : Nat) (bs : Bytes) : NoMS (Sketch.decodeStore st sub bs) := by
  unfold Sketch.decodeStore
  split
  · split
    · rename_i e he; exact NoMS_lift _ e he
    · apply decItems_noMS
      intro st i bs
      split
      · rename_i e he; exact NoMS_lift _ e he
      · split
        · rename_i e he; exact NoMS_lift _ e he
        · exact NoMS_map _ _
  · split
    · split
      · rename_i e he; exact NoMS_lift _ e he
      · apply decItems_noMS
        intro st i bs
        split
        · rename_i e he; exact NoMS_lift _ e he
        · exact NoMS_map _ _
    · split
      · split
        · rename_i e he; exact NoMS_lift _ e he
        · split
          · rename_i e he; exact NoMS_lift _ e he
          · split
            · rename_i e he; exact NoMS_lift _ e he
            · apply decItems_noMS
              intro st i bs
              split
              · rename_i e he; exact NoMS_lift _ e he
              · exact NoMS_map _ _
      · exact NoMS_err _ (by decide)

theorem fallback_noMS (aux : Sketch.DecAux) (f : Nat) (bs : Bytes) (e : SkErr)
    (h : Sketch.fallback aux f bs = .error e) : e ≠ .missingStats := by
  unfold Sketch.fallback at h
  simp only at h
  split at h
  · cases h; decide
  · split at h
    · split at h
      · rename_i e' he; cases h; rw [liftDec_error _ _ he]; decide
      · cases h
    · split at h
      · split at h
        · rename_i e' he; cases h; rw [liftDec_error _ _ he]; decide
        · cases h
      · split at h
        · split at h
          · rename_i e' he; cases h; rw [liftDec_error _ _ he]; decide
          · cases h
        · cases h; decide

/-- **the decoder loop never refuses with `.missingStats`** (any fuel, sketch, auxiliary state, input) -/
theorem decodeLoop_noMS : ∀ (n : Nat) (s : Sketch) (aux : Sketch.DecAux) (bs : Bytes),
    NoMS (Sketch.decodeLoop n s aux bs) := by
  intro n
  induction n with
  | zero =>
    intro s aux bs
    cases bs with
    | nil => rw [Sketch.decodeLoop_nil]; exact NoMS_ok _
    | cons f tl => exact NoMS_none
  | succ n ih =>
    intro s aux bs
    cases bs with
    | nil => rw [Sketch.decodeLoop_nil]; exact NoMS_ok _
    | cons f tl =>
      rcases Sketch.flagType_cases f with h | h | h | h
      · rw [Sketch.loop_pos n s aux f tl h]
        have hd := decodeStore_noMS s.pos (Wire.flagSub f) tl
        split
        · exact NoMS_none
        · rename_i e he; rw [he] at hd; exact NoMS_err _ (hd _ rfl)
        · exact ih _ _ _
      · rw [Sketch.loop_neg n s aux f tl h]
        have hd := decodeStore_noMS s.neg (Wire.flagSub f) tl
        split
        · exact NoMS_none
        · rename_i e he; rw [he] at hd; exact NoMS_err _ (hd _ rfl)
        · exact ih _ _ _
      · rw [Sketch.loop_map n s aux f tl h]
        split
        · rename_i e he
          rw [liftDec_error _ _ he]
          split <;> exact NoMS_err _ (by decide)
        · split
          · exact NoMS_err _ (by decide)
          · split
            · rename_i e he; exact NoMS_lift _ e he
            · split
              · exact NoMS_err _ (by decide)
              · exact NoMS_err _ (by decide)
              · split
                · split
                  · exact ih _ _ _
                  · exact NoMS_err _ (by decide)
                · exact ih _ _ _
      · by_cases hz : f = Sketch.zeroFlag
        · subst hz
          rw [Sketch.loop_zero]
          split
          · rename_i e he; exact NoMS_lift _ e he
          · exact ih _ _ _
        · rw [Sketch.loop_fallback n s aux f tl h hz]
          split
          · rename_i e he; exact NoMS_err _ (fallback_noMS _ _ _ _ he)
          · exact ih _ _ _

/-! ## 3c. the exact variant's decoder with ONE error value per refusal -/

section Collapse
variable {M : Type} [MapI M] [Inhabited M]

/-- `XDecRel` without the disjunction: the refusal `e` of the model is exactly the Go error `decErrX e` -/
def XDecRel1 (idOf : M → Option MapId) :
    Option (Except SkErr XSketch) → Res (DDSketchWithExactSummaryStatistics M Store × GoErr) → Prop
  | none, _ => True
  | some (.error e), r => ∃ g', r = .ok (g', decErrX e)
  | some (.ok x'), r => ∃ g', r = .ok (g', GoErr.nil) ∧ ofGenXI idOf g' = x'

theorem XDecRel1_imp (idOf : M → Option MapId) (o : Option (Except SkErr XSketch))
    (r : Res (DDSketchWithExactSummaryStatistics M Store × GoErr)) (h : XDecRel1 idOf o r) :
    XDecRel idOf o r := by
  match o, h with
  | none, _ => trivial
  | some (.error e), ⟨g', hg⟩ => exact ⟨g', Or.inl hg⟩
  | some (.ok x'), h => exact h

/-- **`XDecodeAndMergeWith_rel1_gen`** (fuel `≥ len b + 9`, no hypothesis on the codec): the regenerated
    `DDSketchWithExactSummaryStatistics.DecodeAndMergeWith` against `XSketch.decodeAndMergeWith`, every
    refusal `e` of the model being the Go error `decErrX e` -/
theorem XDecodeAndMergeWith_rel1_gen {idOf : M → Option MapId} (law : MapLaw idOf)
    (fuel : Nat) (g : DDSketchWithExactSummaryStatistics M Store) (b : List (BitVec 8))
    (hf : b.length + 9 ≤ fuel) :
    XDecRel1 idOf ((ofGenXI idOf g).decodeAndMergeWith (nb b))
      (Gen.SketchIter.DDSketchWithExactSummaryStatistics.DecodeAndMergeWith fuel g b) := by
  have h := decodeAndMergeWithS_rel law (XR (M := M)) (xfb fuel) (xfb_spec' fuel (by omega)) fuel
    g.DDSketch b { stats := some (GenStat.toModel g.summaryStatistics) } g rfl hf
  rw [XDecode_unfold]
  unfold XSketch.decodeAndMergeWith
  show XDecRel1 idOf (match Sketch.decodeLoop ((nb b).length + 1) (ofGenI idOf g.DDSketch)
      { stats := some (GenStat.toModel g.summaryStatistics) } (nb b) with
    | none => none
    | some (.error e) => some (.error e)
    | some (.ok (sk, aux)) =>
      if sk.mapping.isNone then some (.error .missingMapping)
      else
        let st := aux.stats.getD (GenStat.toModel g.summaryStatistics)
        if F64.eq st.count (.fin 0) && !sk.isEmpty then some (.error .missingStats)
        else some (.ok { sk := sk, st := st })) _
  cases hm : Sketch.decodeLoop ((nb b).length + 1) (ofGenI idOf g.DDSketch)
      { stats := some (GenStat.toModel g.summaryStatistics) } (nb b) with
  | none => trivial
  | some r =>
    rw [hm] at h
    cases r with
    | error e =>
      obtain ⟨st', g', hg⟩ := h
      rw [hg]
      simp only [Res.bind_ok, decErr_ne_nil, if_true]
      have hne : e ≠ .missingStats := decodeLoop_noMS _ _ _ _ e hm
      exact ⟨_, by rw [decErrX_eq e hne]⟩
    | ok r =>
      obtain ⟨s', aux'⟩ := r
      obtain ⟨st', g', hs, hR', hg⟩ := h
      rw [hg]
      unfold XR at hR'
      simp only [Res.bind_ok]
      cases hi : s'.mapping.isNone with
      | true =>
        simp only [if_true, decErr_ne_nil]
        exact ⟨_, rfl⟩
      | false =>
        simp only [Bool.false_eq_true, if_false, nil_bne_nil, hR', Option.getD_some]
        have hemp : DDSketch.IsEmpty g' = s'.isEmpty := by rw [← hs]; rfl
        rw [hemp]
        by_cases hc : (F64.eq (GenStat.toModel st'.summaryStatistics).count (.fin 0) && !s'.isEmpty) = true
        · rw [if_pos hc]
          have hc2 : (F64.eq (Gen.Stat.SummaryStatistics.Count st'.summaryStatistics) (.fin 0)
              && !s'.isEmpty) = true := hc
          simp only [hc2, if_true]
          exact ⟨_, rfl⟩
        · rw [if_neg hc]
          have hc2 : (F64.eq (Gen.Stat.SummaryStatistics.Count st'.summaryStatistics) (.fin 0)
              && !s'.isEmpty) = false := by
            have : (F64.eq (GenStat.toModel st'.summaryStatistics).count (.fin 0) && !s'.isEmpty) = false := by
              simpa using hc
            exact this
          simp only [hc2, Bool.false_eq_true, if_false]
          refine ⟨_, rfl, ?_⟩
          unfold ofGenXI
          simp only [hs]

/-- on `toGenX env x` (`x.sk.mapping = some env.id`) -/
theorem XDecodeAndMergeWith_rel1 (env : MapEnv) (x : XSketch)
    (hm : x.sk.mapping = some env.id) (fuel : Nat) (b : List (BitVec 8)) (hf : b.length + 9 ≤ fuel) :
    XDecRel1 (fun e : MapEnv => some e.id) (x.decodeAndMergeWith (nb b))
      (Gen.SketchIter.DDSketchWithExactSummaryStatistics.DecodeAndMergeWith fuel (toGenX env x) b) := by
  have h := XDecodeAndMergeWith_rel1_gen mapEnv_law fuel (toGenX env x) b hf
  have e : ofGenXI (fun e : MapEnv => some e.id) (toGenX env x) = x := by
    unfold ofGenXI
    rw [toGenX_sk, toGenX_st, ofGenI_mapEnv, ofGen_toGen env x.sk hm, GenStat.toModel_ofModel]
  rw [e] at h
  exact h

/-- `DecodeDDSketchWithExactSummaryStatistics` (ddsketch.go:755), possibly nil mapping argument -/
theorem DecodeExact_rel1O (fuel : Nat) (b : List (BitVec 8)) (k : StoreKind)
    (m : Option MapEnv) (hf : b.length + 9 ≤ fuel) :
    XDecRel1 (fun o : Option MapEnv => o.map (fun e => e.id))
      ((XSketch.new (m.map (fun e => e.id)) k).decodeAndMergeWith (nb b))
      (Gen.SketchIter.DecodeDDSketchWithExactSummaryStatistics fuel b (provider k) m) := by
  rw [DecodeExact_eqO]
  have h := XDecodeAndMergeWith_rel1_gen optMapEnv_law fuel
    { DDSketch := toGenO m (Sketch.new (m.map (fun e => e.id)) k),
      summaryStatistics := Gen.Stat.NewSummaryStatistics } b hf
  have e : ofGenXI (fun o : Option MapEnv => o.map (fun e => e.id))
      { DDSketch := toGenO m (Sketch.new (m.map (fun e => e.id)) k),
        summaryStatistics := Gen.Stat.NewSummaryStatistics } = XSketch.new (m.map (fun e => e.id)) k := by
    unfold ofGenXI XSketch.new
    simp only [GenStat.new_eq]
    congr 1
  rw [e] at h
  exact h

end Collapse

end DDS.GenF64LE
