/-
  DDS.Proofs.GenF64LE — the regenerated `DecodeFloat64LE` (encoding.go:128) against the model's
  `Codec.decF64LE`, and the theorems of `GenSketch7` that took this as a hypothesis, now without it.
-/
import DDS.Proofs.GenSketch7
import DDS.Proofs.GenMapId
import DDS.Props.C18Bits

set_option linter.unusedVariables false
set_option linter.unusedSectionVars false

namespace DDS.GenF64LE

open DDS DDS.GoSem DDS.Gen.Sketch DDS.GenSketch DDS.GenSketch7
open DDS.Gen.Encoding DDS.GenEncoding DDS.Codec

/-! ## 1. `binary.LittleEndian.Uint64` reads `Codec.leValue` -/

/-- one more byte or-ed above an accumulator that only has bits below `8 i` -/
theorem or_byte (x : BitVec 64) (a : BitVec 8) (i : Nat) (hi : i < 8) (hx : x.toNat < 2 ^ (8 * i)) :
    (x ||| a.setWidth 64 <<< (8 * i)).toNat = x.toNat + a.toNat * 2 ^ (8 * i) ∧
      (x ||| a.setWidth 64 <<< (8 * i)).toNat < 2 ^ (8 * (i + 1)) := by
  have ha : a.toNat < 256 := a.isLt
  have hm : a.toNat * 2 ^ (8 * i) ≤ 255 * 2 ^ (8 * i) := Nat.mul_le_mul_right _ (by omega)
  have hp : (2 : Nat) ^ (8 * (i + 1)) = 256 * 2 ^ (8 * i) := by
    rw [Nat.mul_add, Nat.pow_add, Nat.mul_comm]
  have hle : (2 : Nat) ^ (8 * (i + 1)) ≤ 2 ^ 64 := Nat.pow_le_pow_right (by decide) (by omega)
  have hlt : x.toNat + a.toNat * 2 ^ (8 * i) < 2 ^ (8 * (i + 1)) := by rw [hp]; omega
  have e : (x ||| a.setWidth 64 <<< (8 * i)).toNat = x.toNat + a.toNat * 2 ^ (8 * i) := by
    rw [Props.C18Bits.acc_or_bits x (a.setWidth 64) (8 * i) hx, setWidth64_toNat]
    unfold W64
    exact Nat.mod_eq_of_lt (by omega)
  exact ⟨e, by rw [e]; exact hlt⟩

/-- the eight or-ed shifted bytes of `GoSem.leU64` -/
def orBytes (a0 a1 a2 a3 a4 a5 a6 a7 : BitVec 8) : BitVec 64 :=
  0#64 ||| a0.setWidth 64 <<< (8 * 0) ||| a1.setWidth 64 <<< (8 * 1) ||| a2.setWidth 64 <<< (8 * 2)
    ||| a3.setWidth 64 <<< (8 * 3) ||| a4.setWidth 64 <<< (8 * 4) ||| a5.setWidth 64 <<< (8 * 5)
    ||| a6.setWidth 64 <<< (8 * 6) ||| a7.setWidth 64 <<< (8 * 7)

theorem leU64_cons8 (a0 a1 a2 a3 a4 a5 a6 a7 : BitVec 8) (rest : List (BitVec 8)) :
    GoSem.leU64 (a0 :: a1 :: a2 :: a3 :: a4 :: a5 :: a6 :: a7 :: rest)
      = some (orBytes a0 a1 a2 a3 a4 a5 a6 a7) := by
  unfold GoSem.leU64
  rw [if_neg (by simp only [List.length_cons]; omega)]
  rfl

theorem orBytes_toNat (a0 a1 a2 a3 a4 a5 a6 a7 : BitVec 8) :
    (orBytes a0 a1 a2 a3 a4 a5 a6 a7).toNat
      = leValue [a0.toNat, a1.toNat, a2.toNat, a3.toNat, a4.toNat, a5.toNat, a6.toNat, a7.toNat] := by
  unfold orBytes
  obtain ⟨e0, b0⟩ := or_byte 0#64 a0 0 (by decide) (by decide)
  obtain ⟨e1, b1⟩ := or_byte _ a1 1 (by decide) b0
  obtain ⟨e2, b2⟩ := or_byte _ a2 2 (by decide) b1
  obtain ⟨e3, b3⟩ := or_byte _ a3 3 (by decide) b2
  obtain ⟨e4, b4⟩ := or_byte _ a4 4 (by decide) b3
  obtain ⟨e5, b5⟩ := or_byte _ a5 5 (by decide) b4
  obtain ⟨e6, b6⟩ := or_byte _ a6 6 (by decide) b5
  obtain ⟨e7, b7⟩ := or_byte _ a7 7 (by decide) b6
  rw [e7, e6, e5, e4, e3, e2, e1, e0]
  simp only [leValue, BitVec.toNat_ofNat, Nat.reducePow, Nat.reduceMul, Nat.zero_mod]
  omega

/-- **`GoSem.leU64` on at least eight bytes is `Codec.leValue` of the first eight** -/
theorem leU64_spec (l : List (BitVec 8)) (h : 8 ≤ l.length) :
    ∃ v, GoSem.leU64 l = some v ∧ v.toNat = leValue ((nb l).take 8) := by
  rcases l with _ | ⟨a0, _ | ⟨a1, _ | ⟨a2, _ | ⟨a3, _ | ⟨a4, _ | ⟨a5, _ | ⟨a6, _ | ⟨a7, rest⟩⟩⟩⟩⟩⟩⟩⟩ <;>
    try (simp only [List.length_cons, List.length_nil] at h; omega)
  refine ⟨_, leU64_cons8 a0 a1 a2 a3 a4 a5 a6 a7 rest, ?_⟩
  rw [orBytes_toNat]
  rfl

theorem ofBitVec_eq (v : BitVec 64) : UInt64.ofBitVec v = UInt64.ofNat v.toNat := by
  apply UInt64.eq_of_toBitVec_eq
  apply BitVec.eq_of_toNat_eq
  simp

theorem nb_length (b : List (BitVec 8)) : (nb b).length = b.length := by simp [nb]

/-- **`DecodeFloat64LE` is the model's `decF64LE`, for EVERY fuel** (the function has no loop: the fuel
    argument is not used; never `.panic`, never `.nofuel`) -/
theorem f64LESpec : F64LESpec := by
  intro fuel b
  unfold DecodeFloat64LE decF64LE
  rw [nb_length]
  by_cases hl : b.length < 8
  · have : decide (GoSem.len b < (8 : Int)) = true := by
      rw [decide_eq_true_eq]; unfold GoSem.len; omega
    rw [this, if_pos rfl, if_pos hl]
  · have : decide (GoSem.len b < (8 : Int)) = false := by
      rw [decide_eq_false_iff_not]; unfold GoSem.len; omega
    rw [this, if_neg (by decide), if_neg hl]
    obtain ⟨v, hv, hn⟩ := leU64_spec b (by omega)
    rw [hv, optR_some, show ((8 : Int)) = ((8 : Nat) : Int) from rfl, sliceFrom_nat b 8 (by omega),
      optR_some]
    show Res.ok (b.drop 8, GoSem.float64frombits v, GoErr.nil) = _
    unfold GoSem.float64frombits
    rw [ofBitVec_eq, hn]

end DDS.GenF64LE
