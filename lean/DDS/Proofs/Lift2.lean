/-
  DDS.Proofs.Lift2 — helper lemmas for `DDS.Props.Lift2`:

  * rank lookups on highest-collapsed contents (`cumul_foldHigh`, `keyAtRank_foldHigh`,
    `keyAtRank_specHigh`, `storeKeyAtRank_specHigh`, `quantile_specHigh_retained`): the mirror
    image of the lowest-collapsing development of `DDS.Props.Lift`;
  * which bin `GetValueAtQuantile(q)` selects on the spec sketch built by unit adds
    (`selKey_bin`): the bin of the order statistic of rank `⌊q(n-1)⌋` or `⌈q(n-1)⌉`;
  * the edges of the unit contents in terms of the input values (`edgeLow_units_le`,
    `le_edgeHigh_units`).
-/
import DDS.Props.Lift
import DDS.Props.C11

namespace DDS.Lift

open DDS

/-! ## uniqueness of the answer of `KeyAtRank` -/

/-- the specification of `Content.keyAtRank_spec` determines the key -/
theorem keyAtRank_unique (m : Content) (h : m.WF) (r : Rat) (k : Int)
    (hk : ∃ w, (k, w) ∈ m)
    (hspec : ((if r < 0 then 0 else r) < m.cumul k ∧
        ∀ p ∈ m, p.1 < k → m.cumul p.1 ≤ (if r < 0 then 0 else r)) ∨
      (m.total ≤ (if r < 0 then 0 else r) ∧ m.maxIndex? = some k)) :
    m.keyAtRank r = k := by
  obtain ⟨w, hw⟩ := hk
  have hne : m ≠ [] := List.ne_nil_of_mem hw
  have A := Content.keyAtRank_spec m h hne r
  obtain ⟨w0, hw0⟩ := Content.keyAtRank_mem m r hne
  simp only at A
  generalize m.keyAtRank r = k0 at A hw0 ⊢
  generalize (if r < 0 then 0 else r) = r' at A hspec
  have hle := Content.cumul_le_total m h.2
  rcases A with ⟨a1, a2⟩ | ⟨a1, a2⟩
  · rcases hspec with ⟨b1, b2⟩ | ⟨b1, b2⟩
    · rcases lt_trichotomy k0 k with hlt | heq | hgt
      · have := b2 _ hw0 hlt
        simp only at this
        linarith
      · exact heq
      · have := a2 _ hw hgt
        simp only at this
        linarith
    · have := hle k0
      linarith
  · rcases hspec with ⟨b1, b2⟩ | ⟨b1, b2⟩
    · have := hle k
      linarith
    · rw [a2] at b2
      exact Option.some.inj b2

/-! ## rank lookups survive the highest-collapsing below the edge -/

theorem cumul_foldHigh (m : Content) (e k : Int) :
    (Content.foldHigh m e).cumul k = if k < e then m.cumul k else m.total := by
  unfold Content.foldHigh
  rw [Content.cumul_eq_wsum, Content.wsum_relabel]
  by_cases hk : k < e
  · rw [if_pos hk, Content.cumul_eq_wsum]
    apply Content.wsum_congr
    intro i
    simp only [decide_eq_decide]
    split <;> omega
  · rw [if_neg hk, Content.total_eq_wsum]
    apply Content.wsum_congr
    intro i
    simp only [decide_eq_true_eq]
    split <;> omega

/-- the largest key of the content folded (from above) at `e` -/
theorem maxIndex_foldHigh (m : Content) (h : m.WF) (e mx : Int) (hmx : m.maxIndex? = some mx) :
    (Content.foldHigh m e).maxIndex? = some (min mx e) := by
  apply Content.maxIndex?_eq_of _ (Content.wf_foldHigh m h e).1
  · obtain ⟨w, hw⟩ := Content.maxIndex_mem m mx hmx
    have := Content.key_mem_relabel (fun i => if e < i then e else i) m h _ hw
    simp only at this
    have e1 : (if e < mx then e else mx) = min mx e := by
      split <;> omega
    rw [e1] at this
    exact this
  · intro p hp
    obtain ⟨q, hq, hqp⟩ := Content.mem_relabel hp
    have := Content.le_maxIndex m h mx hmx q hq
    split at hqp <;> omega

/-- `KeyAtRank` on the content folded (from above) at `e` answers the un-folded key, moved onto
    the edge when it lies above it -/
theorem keyAtRank_foldHigh (m : Content) (h : m.WF) (hne : m ≠ []) (e : Int) (r : Rat) :
    (Content.foldHigh m e).keyAtRank r = min (m.keyAtRank r) e := by
  have hwf' := Content.wf_foldHigh m h e
  have htot : (Content.foldHigh m e).total = m.total := Content.total_relabel _ m
  have A := Content.keyAtRank_spec m h hne r
  obtain ⟨wk, hwk⟩ := Content.keyAtRank_mem m r hne
  simp only at A
  generalize m.keyAtRank r = k at A hwk ⊢
  -- the candidate is a key of the folded content
  have hkey : ∃ w, (min k e, w) ∈ Content.foldHigh m e := by
    have := Content.key_mem_relabel (fun i => if e < i then e else i) m h _ hwk
    simp only at this
    have e1 : (if e < k then e else k) = min k e := by
      split <;> omega
    rw [e1] at this
    exact this
  -- keys of the folded content strictly below the edge are keys of `m`
  have hback : ∀ p ∈ Content.foldHigh m e, p.1 < e → ∃ w, (p.1, w) ∈ m := by
    intro p hp hpe
    obtain ⟨q, hq, hqp⟩ := Content.mem_relabel hp
    have : q.1 = p.1 := by
      split at hqp <;> omega
    exact ⟨q.2, by rw [← this]; exact hq⟩
  have hkeys : ∀ p ∈ Content.foldHigh m e, p.1 ≤ e := by
    intro p hp
    obtain ⟨q, hq, hqp⟩ := Content.mem_relabel hp
    split at hqp <;> omega
  apply keyAtRank_unique _ hwf' r _ hkey
  generalize (if r < 0 then 0 else r) = r' at A ⊢
  have hle := Content.cumul_le_total m h.2
  rcases A with ⟨a1, a2⟩ | ⟨a1, a2⟩
  · left
    by_cases hke : k < e
    · rw [min_eq_left (le_of_lt hke)]
      refine ⟨by rw [cumul_foldHigh, if_pos hke]; exact a1, ?_⟩
      intro p hp hpk
      obtain ⟨w, hw⟩ := hback p hp (by omega)
      rw [cumul_foldHigh, if_pos (by omega)]
      exact a2 (p.1, w) hw hpk
    · rw [min_eq_right (by omega)]
      refine ⟨by rw [cumul_foldHigh, if_neg (by omega)]; exact lt_of_lt_of_le a1 (hle k), ?_⟩
      intro p hp hpe
      obtain ⟨w, hw⟩ := hback p hp hpe
      rw [cumul_foldHigh, if_pos hpe]
      exact a2 (p.1, w) hw (by show p.1 < k; omega)
  · right
    exact ⟨by rw [htot]; exact a1, maxIndex_foldHigh m h e k a2⟩

theorem keyAtRank_specHigh (N : Nat) (m : Content) (h : m.WF) (mn : Int)
    (hmn : m.minIndex? = some mn) (r : Rat) :
    (Content.specHigh N m).keyAtRank r = min (m.keyAtRank r) (mn + (N : Int) - 1) := by
  have hne : m ≠ [] := fun hc => by rw [hc] at hmn; cases hmn
  rw [Content.specHigh_of_min N m mn hmn]
  exact keyAtRank_foldHigh m h hne _ r

/-- the float-rank lookup of the sparse store on the highest-collapsed content: the exact answer,
    moved onto the edge `min + N − 1` when it lies above it -/
theorem storeKeyAtRank_specHigh (N : Nat) (c : Content) (h : c.WF) (mn : Int)
    (hmn : c.minIndex? = some mn) (rk : F64) :
    Sketch.storeKeyAtRank (.sp (Content.specHigh N c)) rk =
      min (Sketch.storeKeyAtRank (.sp c) rk) (mn + (N : Int) - 1) := by
  have hwf' := Content.wf_specHigh N c h
  have hne : c ≠ [] := fun hc => by rw [hc] at hmn; cases hmn
  obtain ⟨mx, hmx⟩ : ∃ mx, c.maxIndex? = some mx := by
    cases hm : c.maxIndex? with
    | none => exact absurd (Content.maxIndex?_eq_none.1 hm) hne
    | some mx => exact ⟨mx, rfl⟩
  have hmx' : (Content.specHigh N c).maxIndex? = some (min mx (mn + (N : Int) - 1)) := by
    rw [Content.specHigh_of_min N c mn hmn]
    exact maxIndex_foldHigh c h _ mx hmx
  cases rk with
  | fin r =>
    show (Store.sp _).keyAtRank r = min ((Store.sp c).keyAtRank r) _
    rw [Store.sp_keyAtRank _ hwf', Store.sp_keyAtRank _ h, keyAtRank_specHigh N c h mn hmn]
  | ninf =>
    show (Store.sp _).keyAtRank 0 = min ((Store.sp c).keyAtRank 0) _
    rw [Store.sp_keyAtRank _ hwf', Store.sp_keyAtRank _ h, keyAtRank_specHigh N c h mn hmn]
  | pinf =>
    show ((Content.specHigh N c).maxIndex?).getD 0 = min ((c.maxIndex?).getD 0) _
    rw [hmx', hmx]; rfl
  | nan =>
    show ((Content.specHigh N c).maxIndex?).getD 0 = min ((c.maxIndex?).getD 0) _
    rw [hmx', hmx]; rfl

/-- the upper edge of a highest-collapsing store with `N` bins holding the exact content `c`:
    `min + N − 1` (anything for the empty content) -/
def edgeHigh (N : Nat) (c : Content) : Int :=
  match c.minIndex? with
  | some mn => mn + (N : Int) - 1
  | none => 0

/-- spec level: highest-collapsing both contents with limit `N` does not change the answer of
    `GetValueAtQuantile(q)` when the bin the exact sketch selects is at or below the edge
    `min + N − 1` of its side (and never changes refusals or zero-bucket answers) -/
theorem quantile_specHigh_retained (env : MapEnv) (N : Nat) (m : Option MapId)
    (cp cn : Content) (hcp : cp.WF) (hcn : cn.WF) (z : F64) (q : F64)
    (hsel : ∀ side k, selKey (Sketch.spec m cp cn z) q = some (side, k) →
      k ≤ edgeHigh N (if side then cp else cn)) :
    (Sketch.spec m (Content.specHigh N cp) (Content.specHigh N cn) z).quantile env q =
      (Sketch.spec m cp cn z).quantile env q := by
  have hcount : (Sketch.spec m (Content.specHigh N cp) (Content.specHigh N cn) z).getCount =
      (Sketch.spec m cp cn z).getCount := by
    simp only [Sketch.getCount, Sketch.posTotal, Sketch.negTotal, Sketch.spec, Store.totalCount,
      Content.total_specHigh]
  have hneg : (Sketch.spec m (Content.specHigh N cp) (Content.specHigh N cn) z).negTotal =
      (Sketch.spec m cp cn z).negTotal := by
    simp only [Sketch.negTotal, Sketch.spec, Store.totalCount, Content.total_specHigh]
  have hrank : (Sketch.spec m (Content.specHigh N cp) (Content.specHigh N cn) z).qrank q =
      (Sketch.spec m cp cn z).qrank q := by
    simp only [Sketch.qrank, hcount]
  have hzero : (Sketch.spec m (Content.specHigh N cp) (Content.specHigh N cn) z).zero =
      (Sketch.spec m cp cn z).zero := rfl
  have keyEq : ∀ (c : Content), c.WF → ∀ rk k, Sketch.storeKeyAtRank (.sp c) rk = k →
      k ≤ edgeHigh N c →
      Sketch.storeKeyAtRank (.sp (Content.specHigh N c)) rk = k := by
    intro c hc rk k hk hedge
    cases hmn : c.minIndex? with
    | none =>
      have : c = [] := Content.minIndex?_eq_none.1 hmn
      subst this
      exact hk
    | some mn =>
      rw [storeKeyAtRank_specHigh N c hc mn hmn, hk]
      unfold edgeHigh at hedge
      rw [hmn] at hedge
      exact min_eq_left hedge
  rw [Sketch.quantile_unfold, Sketch.quantile_unfold, hcount, hneg, hrank, hzero]
  unfold selKey at hsel
  by_cases h1 : (!(F64.le (.fin 0) q && F64.le q (.fin 1))) = true
  · rw [if_pos h1, if_pos h1]
  · rw [if_neg h1, if_neg h1]
    rw [if_neg h1] at hsel
    by_cases h2 : F64.eq (Sketch.spec m cp cn z).getCount (.fin 0) = true
    · rw [if_pos h2, if_pos h2]
    · rw [if_neg h2, if_neg h2]
      rw [if_neg h2] at hsel
      by_cases h3 : F64.lt ((Sketch.spec m cp cn z).qrank q) (Sketch.spec m cp cn z).negTotal = true
      · rw [if_pos h3, if_pos h3]
        rw [if_pos h3] at hsel
        have := hsel false _ rfl
        have e := keyEq cn hcn (F64.sub (F64.sub (Sketch.spec m cp cn z).negTotal F64.one)
          ((Sketch.spec m cp cn z).qrank q)) _ rfl (by simpa using this)
        exact congrArg (fun k => Except.ok (F64.neg (env.value k))) e
      · rw [if_neg h3, if_neg h3]
        rw [if_neg h3] at hsel
        by_cases h4 : F64.lt ((Sketch.spec m cp cn z).qrank q)
            (F64.add (Sketch.spec m cp cn z).zero (Sketch.spec m cp cn z).negTotal) = true
        · rw [if_pos h4, if_pos h4]
        · rw [if_neg h4, if_neg h4]
          rw [if_neg h4] at hsel
          have := hsel true _ rfl
          have e := keyEq cp hcp (F64.sub (F64.sub ((Sketch.spec m cp cn z).qrank q)
            (Sketch.spec m cp cn z).zero) (Sketch.spec m cp cn z).negTotal) _ rfl
            (by simpa using this)
          exact congrArg (fun k => Except.ok (env.value k)) e

/-! ## which bin the spec sketch built by unit adds selects -/

/-- the selection of `GetValueAtQuantile` for a (zero-collapsed) value: its side and the index of
    its magnitude; `none` for the zero bucket -/
def selOf (env : MapEnv) (y : Rat) : Option (Bool × Int) :=
  if 0 < y then some (true, idxOf env y)
  else if y < 0 then some (false, idxOf env y)
  else none

theorem selOf_zero (env : MapEnv) : selOf env 0 = none := by simp [selOf]

theorem selOf_pos (env : MapEnv) {x : Rat} (h : 0 < x) : selOf env x = some (true, idxOf env x) := by
  unfold selOf; rw [if_pos h]

theorem selOf_neg (env : MapEnv) {x : Rat} (h : 0 < x) :
    selOf env (-x) = some (false, idxOf env x) := by
  unfold selOf
  rw [if_neg (by linarith), if_pos (by linarith), idxOf_neg]

/-- the head of `selKey`, evaluated like `DDS.quantile_eval` (`r` is the rounded product) -/
theorem selKey_eval (m : Option MapId) (cp cn : Content) (z nn np : Nat)
    (hcp : cp.total = (np : Rat)) (hcn : cn.total = (nn : Rat))
    (hn1 : 1 ≤ nn + z + np) (hn2 : nn + z + np ≤ 2 ^ 53)
    (q : Rat) (hq0 : 0 ≤ q) (hq1 : q ≤ 1) (r : Rat)
    (hr : F64.mul (.fin q) (.fin (((nn + z + np : Nat) : Rat) - 1)) = .fin r) (hr0 : 0 ≤ r) :
    selKey ⟨m, .sp cp, .sp cn, .fin (z : Rat)⟩ (.fin q) =
      if r < (nn : Rat) then
        some (false, Sketch.storeKeyAtRank (.sp cn) (F64.sub (.fin ((nn : Rat) - 1)) (.fin r)))
      else if r < ((z + nn : Nat) : Rat) then none
      else some (true, Sketch.storeKeyAtRank (.sp cp)
          (F64.sub (F64.sub (.fin r) (.fin (z : Rat))) (.fin (nn : Rat)))) := by
  obtain ⟨n, hn⟩ : ∃ n, n = nn + z + np := ⟨_, rfl⟩
  rw [← hn] at hn1 hn2 hr
  have ec : Sketch.getCount ⟨m, .sp cp, .sp cn, .fin (z : Rat)⟩ = .fin (n : Rat) := by
    unfold Sketch.getCount Sketch.posTotal Sketch.negTotal
    simp only [Store.totalCount, hcp, hcn]
    rw [add_nat z np (by omega), add_nat (z + np) nn (by omega)]
    congr 2; omega
  have es : F64.sub (.fin (n : Rat)) F64.one = .fin ((n : Rat) - 1) := by
    have := F64.sub_int (n : Int) 1 (abs_le.2 ⟨by omega, by omega⟩)
    push_cast at this
    exact this
  have en : F64.sub (.fin (nn : Rat)) F64.one = .fin ((nn : Rat) - 1) := by
    have := F64.sub_int (nn : Int) 1 (abs_le.2 ⟨by omega, by omega⟩)
    push_cast at this
    exact this
  have hn0 : ¬ ((n : Rat) = 0) := by
    have : (1 : Rat) ≤ (n : Rat) := by exact_mod_cast hn1
    intro h; linarith
  unfold selKey Sketch.qrank
  simp only [ec, es, hr, Sketch.negTotal, Store.totalCount, hcn, en, F64.le_fin, F64.lt_fin,
    F64.eq_fin, hq0, hq1, decide_true, Bool.and_self, Bool.not_true, Bool.false_eq_true,
    if_false, beq_iff_eq, hn0, not_lt.2 hr0, decide_false, add_nat z nn (by omega),
    decide_eq_true_eq]

/-- **core**: the companion of `DDS.quantile_bin_core` for the selected bin — on the sketch
    holding the unit contents of the sorted magnitudes `M` (negative side), `z` zeros and the
    sorted positives `P`, `GetValueAtQuantile(q)` selects the side and bin of the element of rank
    `⌊q(n-1)⌋` or `⌈q(n-1)⌉` of the ground truth -/
theorem selKey_core (env : MapEnv) (α mn mx : Rat) (C : Contract env α mn mx)
    (m : Option MapId) (P M : List Rat) (z : Nat)
    (hP : P.Pairwise (· ≤ ·)) (hM : M.Pairwise (· ≤ ·))
    (hPr : ∀ x ∈ P, mn < x ∧ x ≤ mx) (hMr : ∀ x ∈ M, mn < x ∧ x ≤ mx)
    (hn1 : 1 ≤ M.length + z + P.length) (hn2 : M.length + z + P.length ≤ 2 ^ 53)
    (q : Rat) (hq0 : 0 ≤ q) (hq1 : q ≤ 1) :
    ∃ k : Nat, k < M.length + z + P.length ∧
      ((k : Int) = ⌊q * (((M.length + z + P.length : Nat) : Rat) - 1)⌋ ∨
       (k : Int) = ⌈q * (((M.length + z + P.length : Nat) : Rat) - 1)⌉) ∧
      selKey
        ⟨m, .sp (unitsOf (P.map (idxOf env))), .sp (unitsOf (M.map (idxOf env))), .fin (z : Rat)⟩
        (.fin q) = selOf env ((threeWay M z P)[k]!) := by
  have hmn := C.minPos
  obtain ⟨nn, hnn⟩ : ∃ nn, nn = M.length := ⟨_, rfl⟩
  obtain ⟨np, hnp⟩ : ∃ np, np = P.length := ⟨_, rfl⟩
  obtain ⟨IP, hIPe⟩ : ∃ IP, IP = P.map (idxOf env) := ⟨_, rfl⟩
  obtain ⟨IM, hIMe⟩ : ∃ IM, IM = M.map (idxOf env) := ⟨_, rfl⟩
  have hIP : IP.Pairwise (· ≤ ·) := hIPe ▸ idx_pairwise env α mn mx C P hP hPr
  have hIM : IM.Pairwise (· ≤ ·) := hIMe ▸ idx_pairwise env α mn mx C M hM hMr
  have hIPl : IP.length = np := by rw [hIPe, hnp, List.length_map]
  have hIMl : IM.length = nn := by rw [hIMe, hnn, List.length_map]
  rw [← hnn, ← hnp] at hn1 hn2 ⊢
  rw [← hIPe, ← hIMe]
  have hcp : (unitsOf IP).total = (np : Rat) := by rw [total_unitsOf, hIPl]
  have hcn : (unitsOf IM).total = (nn : Rat) := by rw [total_unitsOf, hIMl]
  obtain ⟨r, hr, hL, hU, _⟩ := quantile_eval env m (unitsOf IP) (unitsOf IM) z nn np hcp hcn
    hn1 hn2 q hq0 hq1
  have hr0 : 0 ≤ r := by
    have h0 : (0 : Rat) ≤ q * (((nn + z + np : Nat) : Rat) - 1) := by
      apply mul_nonneg hq0
      have : (1 : Rat) ≤ ((nn + z + np : Nat) : Rat) := by exact_mod_cast hn1
      linarith
    have : (0 : Int) ≤ ⌊q * (((nn + z + np : Nat) : Rat) - 1)⌋ := Int.floor_nonneg.2 h0
    have : (0 : Rat) ≤ ((⌊q * (((nn + z + np : Nat) : Rat) - 1)⌋ : Int) : Rat) := by
      exact_mod_cast this
    linarith
  rw [selKey_eval m _ _ z nn np hcp hcn hn1 hn2 q hq0 hq1 r hr hr0]
  obtain ⟨n, hn⟩ : ∃ n, n = nn + z + np := ⟨_, rfl⟩
  rw [← hn] at hL hU hn1 hn2 ⊢
  have hnR : (1 : Rat) ≤ (n : Rat) := by exact_mod_cast hn1
  obtain ⟨t, ht⟩ : ∃ t, t = q * ((n : Rat) - 1) := ⟨_, rfl⟩
  rw [← ht] at hL hU ⊢
  have ht0 : 0 ≤ t := by rw [ht]; exact mul_nonneg hq0 (by linarith)
  have ht1 : t ≤ (n : Rat) - 1 := by
    rw [ht]; nlinarith
  obtain ⟨lo, hlo⟩ : ∃ lo : Int, lo = ⌊r⌋ := ⟨_, rfl⟩
  obtain ⟨hi, hhi⟩ : ∃ hi : Int, hi = ⌈r⌉ := ⟨_, rfl⟩
  have f1 : (lo : Rat) ≤ r := hlo ▸ Int.floor_le r
  have f2 : r < (lo : Rat) + 1 := hlo ▸ Int.lt_floor_add_one r
  have f3 : r ≤ (hi : Rat) := hhi ▸ Int.le_ceil r
  have g1 : ⌊t⌋ ≤ lo := hlo ▸ Int.le_floor.2 hL
  have g2 : hi ≤ ⌈t⌉ := hhi ▸ Int.ceil_le.2 hU
  have g3 : lo ≤ hi := by rw [hlo, hhi]; exact Int.floor_le_ceil r
  have g4 : hi ≤ lo + 1 := by rw [hlo, hhi]; exact Int.ceil_le_floor_add_one r
  have g5 : ⌈t⌉ ≤ ⌊t⌋ + 1 := Int.ceil_le_floor_add_one t
  have g6 : 0 ≤ ⌊t⌋ := Int.floor_nonneg.2 ht0
  have g7 : ⌈t⌉ ≤ (n : Int) - 1 := Int.ceil_le.2 (by push_cast; exact ht1)
  by_cases c1 : r < (nn : Rat)
  · rw [if_pos c1]
    have hlonn : lo < (nn : Int) := by
      have : (lo : Rat) < (nn : Rat) := lt_of_le_of_lt f1 c1
      exact_mod_cast this
    obtain ⟨r', hr', b1, b2⟩ := round_between ((nn : Rat) - 1 + -r) ((nn : Int) - 1 - hi)
      ((nn : Int) - 1 - lo) (by push_cast; linarith) (by push_cast; linarith)
      (abs_le.2 ⟨by omega, by omega⟩) (abs_le.2 ⟨by omega, by omega⟩)
    push_cast at b1 b2
    rw [sub_fin, hr']
    have claim : ∃ pn : Nat, pn < nn ∧ ((pn : Rat) ≤ r' ∨ pn = 0) ∧
        (r' < (pn : Rat) + 1 ∨ pn + 1 = nn) ∧
        ((nn : Int) - 1 - pn = lo ∨ (nn : Int) - 1 - pn = hi) := by
      by_cases e : r' = (nn : Rat) - 1 - lo
      · obtain ⟨pn, hpn⟩ := Int.eq_ofNat_of_zero_le (show 0 ≤ (nn : Int) - 1 - lo by omega)
        have hpnR : (pn : Rat) = (nn : Rat) - 1 - lo := by
          have : (((nn : Int) - 1 - lo : Int) : Rat) = ((pn : Int) : Rat) := by rw [hpn]
          push_cast at this; linarith
        exact ⟨pn, by omega, Or.inl (by linarith), Or.inl (by linarith), Or.inl (by omega)⟩
      · have hlt : r' < (nn : Rat) - 1 - lo := lt_of_le_of_ne b2 e
        have hne : hi = lo + 1 := by
          by_contra hc
          have h' : hi = lo := by omega
          rw [h'] at b1; linarith
        have hneR : (hi : Rat) = (lo : Rat) + 1 := by rw [hne]; push_cast; ring
        by_cases e2 : lo = (nn : Int) - 1
        · have e2R : (lo : Rat) = (nn : Rat) - 1 := by rw [e2]; push_cast; ring
          exact ⟨0, by omega, Or.inr rfl, Or.inl (by push_cast; linarith), Or.inl (by omega)⟩
        · obtain ⟨pn, hpn⟩ := Int.eq_ofNat_of_zero_le (show 0 ≤ (nn : Int) - 2 - lo by omega)
          have hpnR : (pn : Rat) = (nn : Rat) - 2 - lo := by
            have : (((nn : Int) - 2 - lo : Int) : Rat) = ((pn : Int) : Rat) := by rw [hpn]
            push_cast at this; linarith
          exact ⟨pn, by omega, Or.inl (by linarith), Or.inl (by linarith), Or.inr (by omega)⟩
    obtain ⟨pn, p1, p2, p3, p4⟩ := claim
    have key := kar_units_sorted IM hIM pn (by omega) r' p2 (by rw [hIMl]; exact p3)
    refine ⟨nn - 1 - pn, by omega, by omega, ?_⟩
    have hpnM : pn < M.length := by omega
    rw [threeWay_get_neg' M z P (nn - 1 - pn) pn (by omega),
      selOf_neg env (by linarith [(hMr _ (List.getElem_mem hpnM)).1])]
    rw [storeKeyAtRank_fin, key]
    simp only [hIMe, List.getElem_map]
  · rw [if_neg c1]
    have c1' : (nn : Rat) ≤ r := not_lt.1 c1
    have hnnlo : (nn : Int) ≤ lo := by
      have : (nn : Rat) < (lo : Rat) + 1 := lt_of_le_of_lt c1' f2
      have : (nn : Int) < lo + 1 := by exact_mod_cast this
      omega
    by_cases c2 : r < ((z + nn : Nat) : Rat)
    · rw [if_pos c2]
      have hlo2 : lo < (z : Int) + nn := by
        have : (lo : Rat) < ((z + nn : Nat) : Rat) := lt_of_le_of_lt f1 c2
        exact_mod_cast this
      obtain ⟨k, hk⟩ := Int.eq_ofNat_of_zero_le (show 0 ≤ lo by omega)
      refine ⟨k, by omega, by omega, ?_⟩
      rw [threeWay_get_zero M z P k (by omega) (by omega), selOf_zero]
    · rw [if_neg c2]
      have c2' : ((z + nn : Nat) : Rat) ≤ r := not_lt.1 c2
      have hlo2 : (z : Int) + nn ≤ lo := by
        have : ((z + nn : Nat) : Rat) < (lo : Rat) + 1 := lt_of_le_of_lt c2' f2
        have : ((z + nn : Nat) : Int) < lo + 1 := by exact_mod_cast this
        omega
      obtain ⟨r1, hr1, a1, a2⟩ := round_between (r + -(z : Rat)) (lo - (z : Int)) (hi - (z : Int))
        (by push_cast; linarith) (by push_cast; linarith)
        (abs_le.2 ⟨by omega, by omega⟩) (abs_le.2 ⟨by omega, by omega⟩)
      obtain ⟨r2, hr2, b1, b2⟩ := round_between (r1 + -(nn : Rat)) (lo - (z : Int) - (nn : Int))
        (hi - (z : Int) - (nn : Int))
        (by push_cast at a1 ⊢; linarith) (by push_cast at a2 ⊢; linarith)
        (abs_le.2 ⟨by omega, by omega⟩) (abs_le.2 ⟨by omega, by omega⟩)
      push_cast at b1 b2
      rw [sub_fin, hr1, sub_fin, hr2]
      have claim : ∃ pp : Nat, pp < np ∧ (pp : Rat) ≤ r2 ∧
          (r2 < (pp : Rat) + 1 ∨ pp + 1 = np) ∧
          ((nn : Int) + z + pp = lo ∨ (nn : Int) + z + pp = hi) := by
        obtain ⟨mm, hmm⟩ := Int.eq_ofNat_of_zero_le (show 0 ≤ lo - (z : Int) - (nn : Int) by omega)
        have hmmR : (mm : Rat) = (lo : Rat) - z - nn := by
          have : ((lo - (z : Int) - (nn : Int) : Int) : Rat) = ((mm : Int) : Rat) := by rw [hmm]
          push_cast at this; linarith
        by_cases e : r2 < (mm : Rat) + 1
        · exact ⟨mm, by omega, by linarith, Or.inl e, Or.inl (by omega)⟩
        · have hne : hi = lo + 1 := by
            by_contra hc
            have h' : hi = lo := by omega
            rw [h'] at b2; linarith
          have hneR : (hi : Rat) = (lo : Rat) + 1 := by rw [hne]; push_cast; ring
          by_cases e2 : mm + 1 < np
          · exact ⟨mm + 1, e2, by push_cast; linarith, Or.inl (by push_cast; linarith),
              Or.inr (by omega)⟩
          · exact ⟨mm, by omega, by linarith, Or.inr (by omega), Or.inl (by omega)⟩
      obtain ⟨pp, p1, p2, p3, p4⟩ := claim
      have key := kar_units_sorted IP hIP pp (by omega) r2 (Or.inl p2) (by rw [hIPl]; exact p3)
      refine ⟨nn + z + pp, by omega, by omega, ?_⟩
      have hppP : pp < P.length := by omega
      rw [hnn, threeWay_get_pos M z P pp hppP,
        selOf_pos env (by linarith [(hPr _ (List.getElem_mem hppP)).1])]
      rw [storeKeyAtRank_fin, key]
      simp only [hIPe, List.getElem_map]

/-- **the selected bin is the bin of an order statistic of rank `⌊q(n-1)⌋` or `⌈q(n-1)⌉`**
    (companion of `C01.quantile_bin`, which gives the answered VALUE) -/
theorem selKey_bin (env : MapEnv) (α mn mx : Rat) (C : Contract env α mn mx)
    (xs : List Rat) (hx : ∀ x ∈ xs, rabs x ≤ mx) (hne : xs ≠ []) (hn : xs.length ≤ 2 ^ 53)
    (s : Sketch)
    (hs : Sketch.addAll env (Sketch.new (some env.id) .sparse) (xs.map (fun x => (x, 1))) = some s)
    (q : Rat) (hq0 : 0 ≤ q) (hq1 : q ≤ 1) :
    ∃ k : Nat, k < xs.length ∧
      ((k : Int) = ⌊q * ((xs.length : Rat) - 1)⌋ ∨ (k : Int) = ⌈q * ((xs.length : Rat) - 1)⌉) ∧
      selKey s (.fin q) = selOf env ((sortedInputs mn xs)[k]!) := by
  have hmn := C.minPos
  rw [addAll_state env α mn mx C xs hx hn s hs, sortedInputs_split mn hmn xs]
  have hlen : (Msorted mn xs).length + zeroCnt mn xs + (Psorted mn xs).length = xs.length := by
    have := length_split mn hmn xs
    rw [Msorted, Psorted, (sortAsc_perm _).length_eq, (sortAsc_perm _).length_eq, List.length_map]
    exact this
  have hpos : 0 < xs.length := List.length_pos_iff.2 hne
  have hPr : ∀ x ∈ Psorted mn xs, mn < x ∧ x ≤ mx := by
    intro x hxP
    obtain ⟨h1, h2⟩ := mem_Psorted.1 hxP
    exact ⟨h2, (rabs_le_iff.1 (hx x h1)).2⟩
  have hMr : ∀ x ∈ Msorted mn xs, mn < x ∧ x ≤ mx := by
    intro x hxM
    obtain ⟨h1, h2⟩ := mem_Msorted.1 hxM
    have := (rabs_le_iff.1 (hx _ h1)).1
    exact ⟨h2, by linarith⟩
  have := selKey_core env α mn mx C (some env.id) (Psorted mn xs) (Msorted mn xs)
    (zeroCnt mn xs) (sortAsc_pairwise _) (sortAsc_pairwise _) hPr hMr (by omega) (by omega)
    q hq0 hq1
  rw [hlen] at this
  exact this

/-! ## the edges of the unit contents, in terms of the input values -/

/-- `x` (an element of the ground truth `sortedInputs mn xs`) lies in a bin that
    lowest-collapsing stores with `N` bins retain: the bin of every input of the same sign is
    less than `N` above the bin of `x`, i.e. `index x ≥ maxIndex − N + 1` where `maxIndex` is the
    largest bin index among the inputs of that sign (nothing is required of the zero bucket) -/
def RetainedLow (env : MapEnv) (mn : Rat) (N : Nat) (xs : List Rat) (x : Rat) : Prop :=
  (0 < x → ∀ y ∈ xs, mn < y → idxOf env y < idxOf env x + (N : Int)) ∧
  (x < 0 → ∀ y ∈ xs, y < -mn → idxOf env y < idxOf env x + (N : Int))

/-- the same for highest-collapsing stores: the bin of `x` is less than `N` above the bin of every
    input of the same sign, i.e. `index x ≤ minIndex + N − 1` -/
def RetainedHigh (env : MapEnv) (mn : Rat) (N : Nat) (xs : List Rat) (x : Rat) : Prop :=
  (0 < x → ∀ y ∈ xs, mn < y → idxOf env x < idxOf env y + (N : Int)) ∧
  (x < 0 → ∀ y ∈ xs, y < -mn → idxOf env x < idxOf env y + (N : Int))

theorem edgeLow_unitsOf_le (N : Nat) (I : List Int) (i : Int) (hI : I ≠ [])
    (h : ∀ j ∈ I, j < i + (N : Int)) : edgeLow N (unitsOf I) ≤ i := by
  unfold edgeLow
  cases hm : (unitsOf I).maxIndex? with
  | none => exact absurd (Content.maxIndex?_eq_none.1 hm) (unitsOf_ne_nil hI)
  | some mxi =>
    obtain ⟨w, hw⟩ := Content.maxIndex_mem _ mxi hm
    have := h mxi (mem_unitsOf hw)
    simp only
    omega

theorem le_edgeHigh_unitsOf (N : Nat) (I : List Int) (i : Int) (hI : I ≠ [])
    (h : ∀ j ∈ I, i < j + (N : Int)) : i ≤ edgeHigh N (unitsOf I) := by
  unfold edgeHigh
  cases hm : (unitsOf I).minIndex? with
  | none => exact absurd (Content.minIndex?_eq_none.1 hm) (unitsOf_ne_nil hI)
  | some mni =>
    obtain ⟨w, hw⟩ := Content.minIndex_mem _ mni hm
    have := h mni (mem_unitsOf hw)
    simp only
    omega

/-- an element of the ground truth that is not zero is an input of magnitude above `mn` -/
theorem sortedInputs_nonzero {mn : Rat} {xs : List Rat} {y : Rat}
    (hy : y ∈ sortedInputs mn xs) (h0 : y ≠ 0) : y ∈ xs ∧ mn < rabs y := by
  obtain ⟨x, hxm, rfl⟩ := mem_sortedInputs.1 hy
  unfold zeroSmall at h0 ⊢
  split at h0
  · exact absurd rfl h0
  · rename_i hc
    rw [if_neg hc]
    exact ⟨hxm, not_le.1 hc⟩

/-- the bins selected on the spec sketch built by unit adds, for a quantile whose order
    statistics satisfy `P`: membership facts needed to compare with the edges -/
theorem selKey_side_facts (env : MapEnv) (α mn mx : Rat) (C : Contract env α mn mx)
    (xs : List Rat) (hx : ∀ x ∈ xs, rabs x ≤ mx) (hne : xs ≠ []) (hn : xs.length ≤ 2 ^ 53)
    (s₀ : Sketch)
    (hs : Sketch.addAll env (Sketch.new (some env.id) .sparse) (xs.map (fun x => (x, 1))) = some s₀)
    (q : Rat) (hq0 : 0 ≤ q) (hq1 : q ≤ 1) (side : Bool) (key : Int)
    (hsel : selKey s₀ (.fin q) = some (side, key)) :
    ∃ k : Nat, k < xs.length ∧
      ((k : Int) = ⌊q * ((xs.length : Rat) - 1)⌋ ∨ (k : Int) = ⌈q * ((xs.length : Rat) - 1)⌉) ∧
      (sortedInputs mn xs)[k]! ∈ xs ∧ key = idxOf env ((sortedInputs mn xs)[k]!) ∧
      ((side = true ∧ mn < (sortedInputs mn xs)[k]!) ∨
       (side = false ∧ (sortedInputs mn xs)[k]! < -mn)) := by
  have hmn := C.minPos
  obtain ⟨k, hk, hfc, hkey⟩ := selKey_bin env α mn mx C xs hx hne hn s₀ hs q hq0 hq1
  have hk' : k < (sortedInputs mn xs).length := by rw [length_sortedInputs]; exact hk
  have hmem : (sortedInputs mn xs)[k]! ∈ sortedInputs mn xs := by
    rw [getElem!_pos _ k hk']; exact List.getElem_mem hk'
  rw [hsel] at hkey
  refine ⟨k, hk, hfc, ?_⟩
  generalize (sortedInputs mn xs)[k]! = y at hmem hkey ⊢
  unfold selOf at hkey
  by_cases h1 : 0 < y
  · rw [if_pos h1] at hkey
    obtain ⟨hy1, hy2⟩ := sortedInputs_nonzero hmem (ne_of_gt h1)
    rw [rabs_of_pos h1] at hy2
    simp only [Option.some.injEq, Prod.mk.injEq] at hkey
    exact ⟨hy1, hkey.2, Or.inl ⟨hkey.1, hy2⟩⟩
  · rw [if_neg h1] at hkey
    by_cases h2 : y < 0
    · rw [if_pos h2] at hkey
      obtain ⟨hy1, hy2⟩ := sortedInputs_nonzero hmem (ne_of_lt h2)
      rw [rabs_of_neg h2] at hy2
      simp only [Option.some.injEq, Prod.mk.injEq] at hkey
      exact ⟨hy1, hkey.2, Or.inr ⟨hkey.1, by linarith⟩⟩
    · rw [if_neg h2] at hkey
      cases hkey

/-- if the order statistics of ranks `⌊q(n-1)⌋` and `⌈q(n-1)⌉` lie in bins retained by
    lowest-collapsing stores, the bin selected for `q` on the exact sketch is at or above the edge
    of its side -/
theorem selKey_retained_low (env : MapEnv) (α mn mx : Rat) (C : Contract env α mn mx)
    (xs : List Rat) (hx : ∀ x ∈ xs, rabs x ≤ mx) (hne : xs ≠ []) (hn : xs.length ≤ 2 ^ 53)
    (s₀ : Sketch)
    (hs : Sketch.addAll env (Sketch.new (some env.id) .sparse) (xs.map (fun x => (x, 1))) = some s₀)
    (cp cn : Content) (z : F64) (h3 : s₀ = Sketch.spec (some env.id) cp cn z) (N : Nat)
    (q : Rat) (hq0 : 0 ≤ q) (hq1 : q ≤ 1)
    (hret : ∀ k : Nat, k < xs.length →
      ((k : Int) = ⌊q * ((xs.length : Rat) - 1)⌋ ∨ (k : Int) = ⌈q * ((xs.length : Rat) - 1)⌉) →
      RetainedLow env mn N xs ((sortedInputs mn xs)[k]!)) :
    ∀ side key, selKey s₀ (.fin q) = some (side, key) →
      edgeLow N (if side then cp else cn) ≤ key := by
  intro side key hsel
  obtain ⟨k, hk, hfc, hmem, hkey, hside⟩ :=
    selKey_side_facts env α mn mx C xs hx hne hn s₀ hs q hq0 hq1 side key hsel
  have hmn := C.minPos
  have hR := hret k hk hfc
  have hst := addAll_state env α mn mx C xs hx hn s₀ hs
  rw [h3] at hst
  simp only [Sketch.spec, Sketch.mk.injEq, Store.sp.injEq, true_and] at hst
  obtain ⟨hp, hng, _⟩ := hst
  generalize (sortedInputs mn xs)[k]! = y at hmem hkey hside hR
  rw [hkey]
  rcases hside with ⟨rfl, hy⟩ | ⟨rfl, hy⟩
  · simp only [if_true]
    rw [hp]
    apply edgeLow_unitsOf_le
    · intro hc
      have : y ∈ Psorted mn xs := mem_Psorted.2 ⟨hmem, hy⟩
      have := List.mem_map_of_mem (f := idxOf env) this
      rw [hc] at this
      simp at this
    · intro j hj
      obtain ⟨v, hv, rfl⟩ := List.mem_map.1 hj
      obtain ⟨v1, v2⟩ := mem_Psorted.1 hv
      exact hR.1 (by linarith) v v1 v2
  · simp only [Bool.false_eq_true, if_false]
    rw [hng]
    apply edgeLow_unitsOf_le
    · intro hc
      have : -y ∈ Msorted mn xs := mem_Msorted.2 ⟨by rw [neg_neg]; exact hmem, by linarith⟩
      have := List.mem_map_of_mem (f := idxOf env) this
      rw [hc] at this
      simp at this
    · intro j hj
      obtain ⟨v, hv, rfl⟩ := List.mem_map.1 hj
      obtain ⟨v1, v2⟩ := mem_Msorted.1 hv
      have := hR.2 (by linarith) (-v) v1 (by linarith)
      rw [idxOf_neg] at this
      exact this

/-- the same for highest-collapsing stores: the selected bin is at or below the edge -/
theorem selKey_retained_high (env : MapEnv) (α mn mx : Rat) (C : Contract env α mn mx)
    (xs : List Rat) (hx : ∀ x ∈ xs, rabs x ≤ mx) (hne : xs ≠ []) (hn : xs.length ≤ 2 ^ 53)
    (s₀ : Sketch)
    (hs : Sketch.addAll env (Sketch.new (some env.id) .sparse) (xs.map (fun x => (x, 1))) = some s₀)
    (cp cn : Content) (z : F64) (h3 : s₀ = Sketch.spec (some env.id) cp cn z) (N : Nat)
    (q : Rat) (hq0 : 0 ≤ q) (hq1 : q ≤ 1)
    (hret : ∀ k : Nat, k < xs.length →
      ((k : Int) = ⌊q * ((xs.length : Rat) - 1)⌋ ∨ (k : Int) = ⌈q * ((xs.length : Rat) - 1)⌉) →
      RetainedHigh env mn N xs ((sortedInputs mn xs)[k]!)) :
    ∀ side key, selKey s₀ (.fin q) = some (side, key) →
      key ≤ edgeHigh N (if side then cp else cn) := by
  intro side key hsel
  obtain ⟨k, hk, hfc, hmem, hkey, hside⟩ :=
    selKey_side_facts env α mn mx C xs hx hne hn s₀ hs q hq0 hq1 side key hsel
  have hmn := C.minPos
  have hR := hret k hk hfc
  have hst := addAll_state env α mn mx C xs hx hn s₀ hs
  rw [h3] at hst
  simp only [Sketch.spec, Sketch.mk.injEq, Store.sp.injEq, true_and] at hst
  obtain ⟨hp, hng, _⟩ := hst
  generalize (sortedInputs mn xs)[k]! = y at hmem hkey hside hR
  rw [hkey]
  rcases hside with ⟨rfl, hy⟩ | ⟨rfl, hy⟩
  · simp only [if_true]
    rw [hp]
    apply le_edgeHigh_unitsOf
    · intro hc
      have : y ∈ Psorted mn xs := mem_Psorted.2 ⟨hmem, hy⟩
      have := List.mem_map_of_mem (f := idxOf env) this
      rw [hc] at this
      simp at this
    · intro j hj
      obtain ⟨v, hv, rfl⟩ := List.mem_map.1 hj
      obtain ⟨v1, v2⟩ := mem_Psorted.1 hv
      exact hR.1 (by linarith) v v1 v2
  · simp only [Bool.false_eq_true, if_false]
    rw [hng]
    apply le_edgeHigh_unitsOf
    · intro hc
      have : -y ∈ Msorted mn xs := mem_Msorted.2 ⟨by rw [neg_neg]; exact hmem, by linarith⟩
      have := List.mem_map_of_mem (f := idxOf env) this
      rw [hc] at this
      simp at this
    · intro j hj
      obtain ⟨v, hv, rfl⟩ := List.mem_map.1 hj
      obtain ⟨v1, v2⟩ := mem_Msorted.1 hv
      have := hR.2 (by linarith) (-v) v1 (by linarith)
      rw [idxOf_neg] at this
      exact this

end DDS.Lift
