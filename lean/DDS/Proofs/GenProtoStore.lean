/-
  DDS.Proofs.GenProtoStore — the REGENERATED protobuf conversions of the stores against the hand-written model.
-/
import DDS.Generated.CodeDenseProto
import DDS.Generated.CodeSparseProto
import DDS.Generated.CodePaginatedProto
import DDS.Generated.CodeStoreProto
import DDS.Generated.CodeDenseFromProto
import DDS.Proofs.GenForEach
import DDS.Proofs.GenDecodeWrap
import DDS.Proofs.GenPagAdd
import DDS.Proofs.Proto
import DDS.Props.C04Pag

set_option linter.unusedVariables false

namespace DDS.GenProtoStore

open DDS DDS.GoSem DDS.Proto

/-! ## 0. `int32(index)` -/

/-- Go's `int32(i)` read back as an `int`: the value after the wrapping conversion -/
def wrap32 (i : Int) : Int := (BitVec.ofInt 32 i).toInt

theorem wrap32_eq_bmod (i : Int) : wrap32 i = i.bmod (2 ^ 32) := by
  unfold wrap32; rw [BitVec.toInt_ofInt]

theorem wrap32_of_I32 (i : Int) (h : I32 i) : wrap32 i = i := by
  rw [wrap32_eq_bmod]
  unfold I32 at h
  apply Int.bmod_eq_of_le <;> omega

theorem I32_of_Idx32 {i : Int} (h : PStore.Idx32 i) : I32 i := by
  unfold PStore.Idx32 minInt32 maxInt32 at h
  unfold I32
  omega

theorem wrap32_of_Idx32 (i : Int) (h : PStore.Idx32 i) : wrap32 i = i := wrap32_of_I32 i (I32_of_Idx32 h)

/-- the wrap is real: `int32(2^31) = -2^31` -/
example : wrap32 (2 ^ 31) = -2 ^ 31 := by decide

theorem toInt_I32 (b : BitVec 32) : I32 b.toInt := by
  unfold I32
  have := BitVec.toInt_lt (x := b)
  have := BitVec.le_toInt (x := b)
  omega

/-! ## 1. `store.MergeWithProto` (generic) is the fold of `AddWithCount` over the calls of the message -/

/-- the calls `AddWithCount(index, count)` a `Store` message stands for: the `BinCounts` entries in the order the
    oracle enumerates the map (keys through `int32`), then the contiguous counts from the offset on -/
def msgCalls {F : Type} (ord : MapOrder) (pb : GoPb.Store F) : List (Int × F) :=
  (mrange ord pb.BinCounts).map (fun p => (wrap32 p.1, p.2)) ++
    pb.ContiguousBinCounts.zipIdx.map (fun cv => ((cv.2 : Int) + pb.ContiguousBinIndexOffset.toInt, cv.1))

section generic
variable {S : Type} [StoreI S]

/-- run `AddWithCount` on the calls, oldest first -/
def addAll (s : S) (calls : List (Int × F64)) : S := calls.foldl (fun s p => StoreI.AddWithCount s p.1 p.2) s

@[simp] theorem addAll_nil (s : S) : addAll s [] = s := rfl
theorem addAll_cons (s : S) (p : Int × F64) (l : List (Int × F64)) :
    addAll s (p :: l) = addAll (StoreI.AddWithCount s p.1 p.2) l := rfl
theorem addAll_append (s : S) (a b : List (Int × F64)) : addAll s (a ++ b) = addAll (addAll s a) b := by
  unfold addAll; rw [List.foldl_append]

open DDS.Gen.StoreProto in
theorem gen_loop2 (l : List (Int × F64)) : ∀ store : S,
    MergeWithProto.loop2 l store = .done (addAll store (l.map (fun p => (wrap32 p.1, p.2)))) := by
  induction l with
  | nil => intro store; rfl
  | cons p l ih =>
    intro store
    obtain ⟨i, c⟩ := p
    unfold MergeWithProto.loop2
    exact ih _

open DDS.Gen.StoreProto in
theorem gen_loop1 (pb : GoPb.Store F64) (l : List F64) : ∀ (k : Nat) (store : S),
    MergeWithProto.loop1 pb l (k : Int) store
      = .done (addAll store ((l.zipIdx k).map
          (fun cv => ((cv.2 : Int) + pb.ContiguousBinIndexOffset.toInt, cv.1)))) := by
  induction l with
  | nil => intro k store; rfl
  | cons c l ih =>
    intro k store
    unfold MergeWithProto.loop1
    have := ih (k + 1) (StoreI.AddWithCount store ((k : Int) + pb.ContiguousBinIndexOffset.toInt) c)
    rw [Int.natCast_add] at this
    exact this

/-- MAIN (generic `MergeWithProto`; every implementation `S` of `store.Store`, every receiver, message, oracle and
    fuel — the two loops are structural): the receiver after the calls of the message -/
theorem mergeWithProto_eq_fold (fuel : Nat) (ord : MapOrder) (store : S) (pb : GoPb.Store F64) :
    Gen.StoreProto.MergeWithProto fuel ord store pb = .ok (addAll store (msgCalls ord pb)) := by
  unfold Gen.StoreProto.MergeWithProto msgCalls
  rw [gen_loop2, Loop.elim_done]
  have := gen_loop1 pb pb.ContiguousBinCounts 0 (addAll store ((mrange ord pb.BinCounts).map (fun p => (wrap32 p.1, p.2))))
  rw [Int.natCast_zero] at this
  rw [this, Loop.elim_done, addAll_append]

/-- `FromProto` = a new dense store, then `MergeWithProto` (for whatever instance the binder receives) -/
theorem fromProto_eq (I : StoreI Gen.Dense.DenseStore) (fuel : Nat) (ord : MapOrder) (pb : GoPb.Store F64) :
    @Gen.DenseFromProto.FromProto I fuel ord pb
      = .ok (@addAll _ I Gen.Dense.NewDenseStore (msgCalls ord pb)) := by
  unfold Gen.DenseFromProto.FromProto
  dsimp only
  rw [mergeWithProto_eq_fold]; rfl

end generic

/-- parametricity: a relation kept by `AddWithCount` is kept by `MergeWithProto` -/
theorem addAll_rel {S T : Type} [StoreI S] [StoreI T] (R : S → T → Prop)
    (hstep : ∀ s t i c, R s t → R (StoreI.AddWithCount s i c) (StoreI.AddWithCount t i c))
    (l : List (Int × F64)) : ∀ s t, R s t → R (addAll s l) (addAll t l) := by
  induction l with
  | nil => intro s t h; exact h
  | cons p l ih => intro s t h; exact ih _ _ (hstep s t p.1 p.2 h)

end DDS.GenProtoStore
