/-
  DDS.Proofs.GenProtoStore — the REGENERATED protobuf conversions of the stores (`DDS/Generated/CodeDenseProto.lean`,
  `CodeSparseProto.lean`, `CodePaginatedProto.lean`, `CodeStoreProto.lean`, `CodeDenseFromProto.lean`; messages mirrored
  in `DDS/Model/GoPb.lean`) against the hand-written model (`DDS/Model/Proto.lean`).

  EMBEDDING.  The regenerated store units keep exact weights (`GoPb.Store Rat`), the model's abstract message `PbStore`
  keeps binary64 bit patterns; `pbOfGo : GoPb.Store Rat → PbStore` (weights through `ratBits`, the `int32` offset as
  its value) is the abstraction, `toF64` turns an exact message into the float message the generic `MergeWithProto`
  reads.  `wrap32 i` is Go's `int32(i)` (`= i.bmod 2^32`, `= i` for an int32 — `wrap32_of_I32 / _of_Idx32`).

  1. `ToProto`
     dense      `dense_toProto` (store empty or `minIndex ≤ maxIndex`; no loop, any fuel): `= toRes id (denseMsg s)` —
                the window read as ONE slice expression is the model's index-by-index read (`slice_eq_mapM`), panic
                exactly where the model panics; `denseMsg_model` (`pbOfGo` of it = `storeToProto (.d s)` with the
                offset through `wrap32`), `denseMsg_model32` / `dense_toProto_model` (= the model's message under
                `StoreKeys32`), side conditions from `DStore.Inv` (`dense_side_of_inv`, `dense_keys32_of_inv`).
     paginated  `pag_toProto` (EVERY store and capacity, NO invariant, fuel `len(buffer) + 1`): empty store ↦ the empty
                message and the store untouched; otherwise `(toGen s.sortRead cap, sparseMsg (msetFrom [] s.binsList))`,
                the store with its buffer sorted and the map `binCounts[int32(i)] = c` over the model's bins.
                `pag_toProto_model`: bins key-sorted with int32 keys (true under `PStore.Inv`, `pag_side_of_inv`) ⟹ the
                map IS the list of bins and `pbOfGo` of the message is `storeToProto (.pg s)`.
     sparse     `sparse_toProto` (every store, oracle, fuel), `sparse_toProto_model` (`RepS`, EVERY lawful order,
                int32 keys): the message is `sparseMsg c`, abstraction `storeToProto (.sp c)`.  Order independence:
                `msetFrom_perm / msetFrom_of_perm` (distinct keys written in any order give the sorted content).
  2. `MergeWithProto`
     generic    `mergeWithProto_eq_fold` (EVERY implementation `S`, receiver, message, oracle, fuel):
                `= .ok (addAll store (msgCalls ord pb))`, the fold of `AddWithCount` over the calls of the message (map
                entries in the oracle's order with `int32` keys, then contiguous count number `k` at `k + offset`);
                `addAll_rel` (parametricity); `fromProto_eq`: `FromProto = .ok (addAll NewDenseStore calls)`;
                `dense_fromProto_sim`: with an instance running the regenerated dense `AddWithCount` the result is the
                image of the model's dense store built by the same merge.
     on the model's stores (`instance : StoreI Store`), ANY kind, EVERY oracle: `mergeWithProto_good_store` — good
                receiver holding `clamp E`, finite weights `≥ 0`, int32 indexes unless the weight is 0 ⟹ never panics,
                good store of the same kind holding `clamp (E.merge (msgBins ord pb))`.  The bins ADD UP (C09):
                `lookup_msgBins`, `lookup_merge_msgBins` (map entries + contiguous counts, index by index, any lawful
                order), `merge_order_irrelevant` (the merged content does not depend on the oracle: the order only
                permutes adds, `sparseBins_perm`).
     paginated  `pag_mergeWithProto_eq` (every store/message/oracle/fuel): `= gAdds …` the regenerated `AddWithCount`
                on the calls; `gAdds_sim` (NO invariant): follows the model's adds under SOME compaction schedule
                (`Sched`; the bit `len == cap` is hidden runtime state), panic iff the model panics, never out of fuel
                for `pagFuel s calls ≤ fuel` (maximum of `GenPag.addFuel` over the stores reachable under either bit —
                a function of store and calls); `sched_content`, `pag_mergeWithProto` (`Inv`, weights `≥ 0`, int32
                indexes): result `toGen s' cap'`, `Inv s'`, `content s' = (content s).merge calls`.
  3. reading back (`msgCalls_sparseMsg`, `merge_nil_perm`, `merge_nil_of_lookup`, `consumer_roundtrip`): used by
     `DDS/Props/C09GenStore.lean`.

  DIFFERENCES FOUND (kernel-checked, none reachable under the store invariants)
  * `invertedEx_gen / _model`: a non-empty dense store with `maxIndex < minIndex - 1`: Go's `make` panics on the
    negative length, the model reads an empty window and answers.  Hence the hypothesis of `dense_toProto`.
  * `wrapEx_gen / _model`: the dense offset goes through `int32` (`2^31 ↦ -2^31`), the model's message keeps the
    unbounded index; `sparse_wrap_example`: `{0 ↦ 1, 2^32 ↦ 2}` travels as `{0 ↦ 2}` (keys collide after the wrap).
    Under int32 indexes (all store invariants) there is no wrap.
  * zero-weight bins of a message are no-ops on both sides; negative weights are outside the model's contract
    (`BinsOK`), non-finite weights are ignored by `instance : StoreI Store` and excluded by `Finite`.
  NOT DONE: the link `Proto.mergeWithProto st (bit-pattern message)` = the fold here (needs bit round-trip of weights);
  dense → dense round trip through the window's zero bins (only the lookup-form `consumer_roundtrip` is provided).
-/
import DDS.Generated.CodeDenseProto
import DDS.Generated.CodeSparseProto
import DDS.Generated.CodePaginatedProto
import DDS.Generated.CodeStoreProto
import DDS.Generated.CodeDenseFromProto
import DDS.Proofs.GenForEach
import DDS.Proofs.GenDecodeWrap
import DDS.Proofs.GenPagAdd
import DDS.Proofs.Proto
import DDS.Props.C04Pag
import DDS.Proofs.Lift3

set_option linter.unusedVariables false

namespace DDS.GenProtoStore

open DDS DDS.GoSem DDS.Proto

/-! ## 0. `int32(index)` -/

/-- Go's `int32(i)` read back as an `int`: the value after the wrapping conversion -/
def wrap32 (i : Int) : Int := (BitVec.ofInt 32 i).toInt

theorem wrap32_eq_bmod (i : Int) : wrap32 i = i.bmod (2 ^ 32) := by
  unfold wrap32; rw [BitVec.toInt_ofInt]

theorem wrap32_of_I32 (i : Int) (h : I32 i) : wrap32 i = i := by
  rw [wrap32_eq_bmod]
  unfold I32 at h
  apply Int.bmod_eq_of_le <;> omega

theorem I32_of_Idx32 {i : Int} (h : PStore.Idx32 i) : I32 i := by
  unfold PStore.Idx32 minInt32 maxInt32 at h
  unfold I32
  omega

theorem wrap32_of_Idx32 (i : Int) (h : PStore.Idx32 i) : wrap32 i = i := wrap32_of_I32 i (I32_of_Idx32 h)

/-- the wrap is real: `int32(2^31) = -2^31` -/
example : wrap32 (2 ^ 31) = -2 ^ 31 := by decide

theorem toInt_I32 (b : BitVec 32) : I32 b.toInt := by
  unfold I32
  have := BitVec.toInt_lt (x := b)
  have := BitVec.le_toInt (x := b)
  omega

/-! ## 1. `store.MergeWithProto` (generic) is the fold of `AddWithCount` over the calls of the message -/

/-- the calls `AddWithCount(index, count)` a `Store` message stands for: the `BinCounts` entries in the order the
    oracle enumerates the map (keys through `int32`), then the contiguous counts from the offset on -/
def msgCalls {F : Type} (ord : MapOrder) (pb : GoPb.Store F) : List (Int × F) :=
  (mrange ord pb.BinCounts).map (fun p => (wrap32 p.1, p.2)) ++
    pb.ContiguousBinCounts.zipIdx.map (fun cv => ((cv.2 : Int) + pb.ContiguousBinIndexOffset.toInt, cv.1))

section generic
variable {S : Type} [StoreI S]

/-- run `AddWithCount` on the calls, oldest first -/
def addAll (s : S) (calls : List (Int × F64)) : S := calls.foldl (fun s p => StoreI.AddWithCount s p.1 p.2) s

@[simp] theorem addAll_nil (s : S) : addAll s [] = s := rfl
theorem addAll_cons (s : S) (p : Int × F64) (l : List (Int × F64)) :
    addAll s (p :: l) = addAll (StoreI.AddWithCount s p.1 p.2) l := rfl
theorem addAll_append (s : S) (a b : List (Int × F64)) : addAll s (a ++ b) = addAll (addAll s a) b := by
  unfold addAll; rw [List.foldl_append]

open DDS.Gen.StoreProto in
theorem gen_loop2 (l : List (Int × F64)) : ∀ store : S,
    MergeWithProto.loop2 l store = .done (addAll store (l.map (fun p => (wrap32 p.1, p.2)))) := by
  induction l with
  | nil => intro store; rfl
  | cons p l ih =>
    intro store
    obtain ⟨i, c⟩ := p
    unfold MergeWithProto.loop2
    exact ih _

open DDS.Gen.StoreProto in
theorem gen_loop1 (pb : GoPb.Store F64) (l : List F64) : ∀ (k : Nat) (store : S),
    MergeWithProto.loop1 pb l (k : Int) store
      = .done (addAll store ((l.zipIdx k).map
          (fun cv => ((cv.2 : Int) + pb.ContiguousBinIndexOffset.toInt, cv.1)))) := by
  induction l with
  | nil => intro k store; rfl
  | cons c l ih =>
    intro k store
    unfold MergeWithProto.loop1
    have := ih (k + 1) (StoreI.AddWithCount store ((k : Int) + pb.ContiguousBinIndexOffset.toInt) c)
    rw [Int.natCast_add] at this
    exact this

/-- MAIN (generic `MergeWithProto`; every implementation `S` of `store.Store`, every receiver, message, oracle and
    fuel — the two loops are structural): the receiver after the calls of the message -/
theorem mergeWithProto_eq_fold (fuel : Nat) (ord : MapOrder) (store : S) (pb : GoPb.Store F64) :
    Gen.StoreProto.MergeWithProto fuel ord store pb = .ok (addAll store (msgCalls ord pb)) := by
  unfold Gen.StoreProto.MergeWithProto msgCalls
  rw [gen_loop2, Loop.elim_done]
  have := gen_loop1 pb pb.ContiguousBinCounts 0 (addAll store ((mrange ord pb.BinCounts).map (fun p => (wrap32 p.1, p.2))))
  rw [Int.natCast_zero] at this
  rw [this, Loop.elim_done, addAll_append]

/-- `FromProto` = a new dense store, then `MergeWithProto` (for whatever instance the binder receives) -/
theorem fromProto_eq (I : StoreI Gen.Dense.DenseStore) (fuel : Nat) (ord : MapOrder) (pb : GoPb.Store F64) :
    @Gen.DenseFromProto.FromProto I fuel ord pb
      = .ok (@addAll _ I Gen.Dense.NewDenseStore (msgCalls ord pb)) := by
  unfold Gen.DenseFromProto.FromProto
  dsimp only
  rw [mergeWithProto_eq_fold]; rfl

end generic

/-- parametricity: a relation kept by `AddWithCount` is kept by `MergeWithProto` -/
theorem addAll_rel {S T : Type} [StoreI S] [StoreI T] (R : S → T → Prop)
    (hstep : ∀ s t i c, R s t → R (StoreI.AddWithCount s i c) (StoreI.AddWithCount t i c))
    (l : List (Int × F64)) : ∀ s t, R s t → R (addAll s l) (addAll t l) := by
  induction l with
  | nil => intro s t h; exact h
  | cons p l ih => intro s t h; exact ih _ _ (hstep s t p.1 p.2 h)

/-! ## 2. `ToProto`: the embedding of messages -/

/-- the regenerated message (exact weights) ↦ the model's abstract message (weights as binary64 bit patterns, the
    `int32` offset as its value) -/
def pbOfGo (m : GoPb.Store Rat) : PbStore :=
  { binCounts := m.BinCounts.map (fun p => (p.1, ratBits p.2)),
    contiguous := m.ContiguousBinCounts.map ratBits,
    contiguousOffset := m.ContiguousBinIndexOffset.toInt }

/-- the empty message -/
def emptyMsg : GoPb.Store Rat := { BinCounts := [], ContiguousBinCounts := [], ContiguousBinIndexOffset := 0#32 }

theorem pbOfGo_empty : pbOfGo emptyMsg = {} := rfl

/-! ### 2a. the dense store -/

section dense
open DDS.DStore DDS.GenDense

theorem mapM_none_of_mem {α β : Type} (f : α → Option β) : ∀ (l : List α) (x : α), x ∈ l → f x = none →
    l.mapM f = none
  | y :: l, x, hx, hf => by
    rw [List.mapM_cons]
    rcases List.mem_cons.1 hx with rfl | h
    · rw [hf]; rfl
    · cases f y with
      | none => rfl
      | some b => rw [mapM_none_of_mem f l x h hf]; rfl

theorem length_of_mapM {α β : Type} (f : α → Option β) : ∀ (l : List α) (cs : List β), l.mapM f = some cs →
    cs.length = l.length
  | [], cs, h => by
    simp at h; subst h; rfl
  | y :: l, cs, h => by
    rw [List.mapM_cons] at h
    cases hy : f y with
    | none => rw [hy] at h; simp at h
    | some b =>
      rw [hy] at h
      cases hl : l.mapM f with
      | none => rw [hl] at h; simp at h
      | some bs =>
        rw [hl] at h
        simp at h
        subst h
        simp [length_of_mapM f l bs hl]

theorem mapM_irange_some (a : Array Rat) (off : Int) : ∀ (n : Nat) (lo : Int), 0 ≤ lo - off →
    lo - off + n ≤ a.size →
    (irange lo n).mapM (fun i => rd a (i - off))
      = some ((a.toList.take ((lo - off).toNat + n)).drop (lo - off).toNat) := by
  intro n
  induction n with
  | zero =>
    intro lo h1 h2
    rw [irange_zero]
    simp
  | succ n ih =>
    intro lo h1 h2
    rw [irange_succ_left, List.mapM_cons]
    have hk : (lo - off).toNat < a.size := by omega
    have hrd : rd a (lo - off) = some (a.getD (lo - off).toNat 0) := by
      unfold rd; rw [if_pos (by omega)]
    rw [hrd, ih (lo + 1) (by omega) (by omega)]
    have e : (lo + 1 - off).toNat = (lo - off).toNat + 1 := by omega
    rw [e]
    simp only [Option.pure_def, Option.bind_eq_bind, Option.bind_some]
    have hlen : (lo - off).toNat < (a.toList.take ((lo - off).toNat + (n + 1))).length := by
      rw [List.length_take, Array.length_toList]; omega
    rw [List.drop_eq_getElem_cons hlen]
    congr 2
    · rw [List.getElem_take, Array.getElem_toList]
      simp [Array.getD, hk]
    · congr 2; omega

theorem mem_irange (lo : Int) (n : Nat) (k : Nat) (hk : k < n) : lo + (k : Int) ∈ irange lo n := by
  unfold irange
  exact List.mem_map.2 ⟨k, List.mem_range.2 hk, rfl⟩

/-- the window read as one slice expression = the window read index by index -/
theorem slice_eq_mapM (a : Array Rat) (off lo : Int) (n : Nat) (hn : 0 < n) :
    GoSem.slice a.toList (lo - off) (lo - off + n) = (irange lo n).mapM (fun i => rd a (i - off)) := by
  unfold GoSem.slice
  by_cases hin : 0 ≤ lo - off ∧ lo - off + n ≤ a.size
  · rw [if_neg (by rw [Array.length_toList]; omega), mapM_irange_some a off n lo hin.1 hin.2]
    congr 3
    omega
  · rw [if_pos (by rw [Array.length_toList]; omega)]
    symm
    by_cases h0 : 0 ≤ lo - off
    · apply mapM_none_of_mem _ _ (lo + ((n - 1 : Nat) : Int)) (mem_irange lo n (n - 1) (by omega))
      unfold rd; rw [if_neg (by omega)]
    · apply mapM_none_of_mem _ _ (lo + ((0 : Nat) : Int)) (mem_irange lo n 0 hn)
      unfold rd; rw [if_neg (by omega)]

/-- the message of a dense model store with exact weights: the window `minIndex..maxIndex` read index by index
    (`none` = an index outside the array, a Go panic), the offset through `int32` -/
def denseMsg (s : DStore) : Option (GoPb.Store Rat) :=
  if s.isEmpty then some emptyMsg
  else ((idxRange s.minIndex s.maxIndex).mapM (fun i => rd s.bins (i - s.offset))).map
    (fun cs => { BinCounts := [], ContiguousBinCounts := cs, ContiguousBinIndexOffset := BitVec.ofInt 32 s.minIndex })

/-- MAIN (dense `ToProto`; every store that is empty or has `minIndex ≤ maxIndex`, any fuel — no loop): the
    regenerated function builds the model's message, panics exactly where the model does -/
theorem dense_toProto (s : DStore) (fuel : Nat) (h : s.isEmpty = true ∨ s.minIndex ≤ s.maxIndex) :
    Gen.DenseProto.DenseStore.ToProto fuel (toGen s) = toRes id (denseMsg s) := by
  unfold Gen.DenseProto.DenseStore.ToProto denseMsg
  rw [isEmpty_eq]
  by_cases he : s.isEmpty = true
  · rw [if_pos he, if_pos he]; rfl
  · have hle : s.minIndex ≤ s.maxIndex := by rcases h with h | h; exact absurd h he; exact h
    rw [if_neg he, if_neg he]
    simp only [toGen_minIndex, toGen_maxIndex, toGen_offset, toGen_bins]
    have hN : 0 < (s.maxIndex - s.minIndex + 1).toNat := by omega
    have e1 : GoSem.mkSlice (s.maxIndex - s.minIndex + 1) (0 : Rat)
        = some (List.replicate (s.maxIndex - s.minIndex + 1).toNat 0) := by
      unfold GoSem.mkSlice; rw [if_neg (by omega)]
    have e2 : s.maxIndex - s.offset + 1 = s.minIndex - s.offset + ((s.maxIndex - s.minIndex + 1).toNat : Int) := by
      omega
    rw [e1, e2, slice_eq_mapM _ _ _ _ hN, idxRange_eq]
    simp only [GoSem.optR_some]
    cases hm : (irange s.minIndex (s.maxIndex - s.minIndex + 1).toNat).mapM (fun i => rd s.bins (i - s.offset)) with
    | none => rfl
    | some cs =>
      have hl : cs.length = (s.maxIndex - s.minIndex + 1).toNat := by
        rw [length_of_mapM _ _ _ hm]; simp [irange]
      have hc : GoSem.copySlice (List.replicate (s.maxIndex - s.minIndex + 1).toNat (0 : Rat)) cs = cs := by
        unfold GoSem.copySlice
        rw [List.length_replicate, ← hl, List.take_length, List.drop_replicate, Nat.sub_self]
        simp
      simp only [GoSem.optR_some, hc, Option.map_some, toRes_some, id]

/-- an abstract message with its offset passed through `int32` -/
def wrapOffset (m : PbStore) : PbStore := { m with contiguousOffset := wrap32 m.contiguousOffset }

/-- the exact message, abstracted, is the model's `storeToProto` — up to the `int32(minIndex)` wrap -/
theorem denseMsg_model (s : DStore) : (denseMsg s).map pbOfGo = (storeToProto (.d s)).map wrapOffset := by
  unfold denseMsg storeToProto
  by_cases he : s.isEmpty = true
  · simp only [he, if_true, Option.map_some]; rfl
  · simp only [he, Bool.false_eq_true, if_false]
    cases (idxRange s.minIndex s.maxIndex).mapM (fun i => rd s.bins (i - s.offset)) with
    | none => rfl
    | some cs => rfl

/-- … and exactly the model's message when `minIndex` is an `int32` (`StoreKeys32`, which the store invariant
    `Inv` + `Bounded32` gives) -/
theorem denseMsg_model32 (s : DStore) (h32 : StoreKeys32 (.d s)) :
    (denseMsg s).map pbOfGo = storeToProto (.d s) := by
  rw [denseMsg_model]
  unfold storeToProto
  by_cases he : s.isEmpty = true
  · simp only [he, if_true, Option.map_some]; rfl
  · simp only [he, Bool.false_eq_true, if_false]
    have hm : wrap32 s.minIndex = s.minIndex := wrap32_of_I32 _ (h32 (by simpa using he))
    cases (idxRange s.minIndex s.maxIndex).mapM (fun i => rd s.bins (i - s.offset)) with
    | none => rfl
    | some cs =>
      simp only [Option.pure_def, Option.bind_eq_bind, Option.bind_some, Option.map_some, wrapOffset, hm]

/-- COROLLARY: where the model builds `pb`, the regenerated `ToProto` returns a message whose abstraction is `pb`;
    where the model panics, so does the regenerated code -/
theorem dense_toProto_model (s : DStore) (fuel : Nat) (h : s.isEmpty = true ∨ s.minIndex ≤ s.maxIndex)
    (h32 : StoreKeys32 (.d s)) :
    match storeToProto (.d s) with
    | some pb => ∃ m, Gen.DenseProto.DenseStore.ToProto fuel (toGen s) = .ok m ∧ pbOfGo m = pb ∧ m.BinCounts = []
    | none => Gen.DenseProto.DenseStore.ToProto fuel (toGen s) = .panic := by
  rw [dense_toProto s fuel h, ← denseMsg_model32 s h32]
  have hb : ∀ m, denseMsg s = some m → m.BinCounts = [] := by
    intro m hm
    unfold denseMsg at hm
    split at hm
    · cases hm; rfl
    · cases hx : (idxRange s.minIndex s.maxIndex).mapM (fun i => rd s.bins (i - s.offset)) with
      | none => rw [hx] at hm; cases hm
      | some cs => rw [hx] at hm; cases hm; rfl
  cases hd : denseMsg s with
  | none => rfl
  | some m => exact ⟨m, rfl, rfl, hb m hd⟩

/-- under the store invariant the side conditions hold -/
theorem dense_side_of_inv (s : DStore) (h : DStore.Inv s) : s.isEmpty = true ∨ s.minIndex ≤ s.maxIndex := by
  by_cases h0 : s.count = 0
  · left; unfold DStore.isEmpty; simp [h0]
  · right; exact (h.window h0).2.1

theorem dense_keys32_of_inv (s : DStore) (h : DStore.Inv s) (hb : DStore.Bounded32 s) : StoreKeys32 (.d s) := by
  intro _
  have := h.window32 hb
  unfold minInt32 maxInt32 at this
  unfold I32
  omega

/-- DISAGREEMENT (not reachable under `Inv`): a non-empty store whose window is inverted (`maxIndex < minIndex - 1`):
    Go's `make([]float64, maxIndex-minIndex+1)` panics on the negative length, the model reads an empty window -/
def invertedEx : DStore :=
  { kind := .plain, bins := #[1], count := 1, offset := 0, minIndex := 2, maxIndex := 0, isCollapsed := false }

theorem invertedEx_gen : Gen.DenseProto.DenseStore.ToProto 0 (toGen invertedEx) = .panic := by rfl
theorem invertedEx_model : storeToProto (.d invertedEx) = some { contiguous := [], contiguousOffset := 2 } := by
  decide +kernel

/-- the `int32` wrap of the offset, stated: a (non-invariant) store whose window starts at `2^31` -/
def wrapEx : DStore :=
  { kind := .plain, bins := #[1], count := 1, offset := 2 ^ 31, minIndex := 2 ^ 31, maxIndex := 2 ^ 31,
    isCollapsed := false }

theorem wrapEx_gen : Gen.DenseProto.DenseStore.ToProto 0 (toGen wrapEx)
    = .ok { BinCounts := [], ContiguousBinCounts := [1], ContiguousBinIndexOffset := BitVec.ofInt 32 (-2 ^ 31) } := by
  rfl
theorem wrapEx_model : (storeToProto (.d wrapEx)).map (·.contiguousOffset) = some (2 ^ 31) := by decide +kernel

end dense

/-! ### 2b. maps built by `binCounts[int32(index)] = count` -/

section msets
open DDS.GenSparse

/-- the map after `binCounts[int32(index)] = count` for each bin of `l`, starting from `acc` -/
def msetFrom (acc : GoMap Rat) (l : List (Int × Rat)) : GoMap Rat :=
  l.foldl (fun m p => mset m (wrap32 p.1) p.2) acc

theorem msetFrom_nil (acc : GoMap Rat) : msetFrom acc [] = acc := rfl
theorem msetFrom_cons (acc : GoMap Rat) (p : Int × Rat) (l : List (Int × Rat)) :
    msetFrom acc (p :: l) = msetFrom (mset acc (wrap32 p.1) p.2) l := rfl

/-- writing distinct `int32` keys, in any order: the result is key-sorted and holds exactly the entries written -/
theorem msetFrom_perm (l : List (Int × Rat)) (hk : ∀ p ∈ l, I32 p.1) : ∀ (acc : Content), acc.Sorted →
    (keys (acc ++ l)).Nodup → Content.Sorted (msetFrom acc l) ∧ List.Perm (msetFrom acc l) (acc ++ l) := by
  induction l with
  | nil => intro acc hs _; exact ⟨hs, by simp [msetFrom_nil]⟩
  | cons p rest ih =>
    intro acc hs hnd
    obtain ⟨k, v⟩ := p
    rw [msetFrom_cons, wrap32_of_I32 k (hk (k, v) (List.mem_cons_self ..))]
    have hk' : ∀ q ∈ acc, q.1 ≠ k := by
      intro q hq hqk
      unfold keys at hnd
      rw [List.map_append, List.map_cons, List.nodup_append] at hnd
      exact hnd.2.2 q.1 (List.mem_map.2 ⟨q, hq, rfl⟩) k (List.mem_cons_self ..) hqk
    have hperm : (mset acc k v ++ rest).Perm (acc ++ (k, v) :: rest) :=
      ((mset_perm acc k v hk').append_right rest).trans List.perm_middle.symm
    obtain ⟨h2, h3⟩ := ih (fun q hq => hk q (List.mem_cons_of_mem _ hq)) (mset acc k v) (mset_sorted acc hs k v)
      ((hperm.map Prod.fst).nodup_iff.2 hnd)
    exact ⟨h2, h3.trans hperm⟩

/-- the bins of a key-sorted content with `int32` keys, written in ANY order, give the content itself -/
theorem msetFrom_of_perm (c : Content) (hs : c.Sorted) (hk : ∀ p ∈ c, I32 p.1) (l : List (Int × Rat))
    (hp : l.Perm c) : msetFrom [] l = c := by
  obtain ⟨h2, h3⟩ := msetFrom_perm l (fun p hp' => hk p (hp.mem_iff.1 hp')) [] trivial (by
    rw [List.nil_append]
    exact (hp.map Prod.fst).nodup_iff.2 (keys_nodup hs))
  exact eq_of_perm_sorted (h3.trans (by rw [List.nil_append]; exact hp)) h2 hs

end msets

/-! ### 2c. the paginated store -/

section pag
open DDS.GenPag DDS.GenForEach DDS.Gen.PaginatedProto DDS.Gen.PaginatedIter

/-- the message with sparse entries `m` only -/
def sparseMsg (m : GoMap Rat) : GoPb.Store Rat :=
  { BinCounts := m, ContiguousBinCounts := [], ContiguousBinIndexOffset := 0#32 }

/-- MAIN (paginated `ToProto`; every store, capacity; NO invariant; fuel `forEachFuel s = len(buffer) + 1`): an empty
    store gives the empty message and is returned untouched; otherwise the map holds `binCounts[int32(i)] = c` for
    the model's bins in increasing order, and the store comes back with its buffer sorted -/
theorem pag_toProto (s : PStore) (cap : Int) (fuel : Nat) (hf : forEachFuel s ≤ fuel) :
    BufferedPaginatedStore.ToProto fuel (toGen s cap)
      = if s.isEmpty then .ok (toGen s cap, emptyMsg)
        else .ok (toGen s.sortRead cap, sparseMsg (msetFrom [] s.binsList)) := by
  unfold BufferedPaginatedStore.ToProto
  rw [isEmpty_spec, Res.bind_ok]
  by_cases he : s.isEmpty = true
  · rw [if_pos he, if_pos he]; rfl
  · rw [if_neg he, if_neg he]
    have h := pag_forEach_eq_visitS s cap ([] : GoMap Rat)
      (fun st i c => .ok (mset st (wrap32 i) c, false)) fuel hf
    have h' := visitS_total (fun (st : GoMap Rat) i c => mset st (wrap32 i) c) s.binsList []
    rw [h'] at h
    dsimp only
    exact (congrArg (fun r => Res.bind r _) h).trans rfl

/-- on a store whose bins are key-sorted with `int32` keys (true under `PStore.Inv`: `pag_side_of_inv`) the map is the
    list of the model's bins, and the abstraction of the message is the model's `storeToProto` -/
theorem pag_toProto_model (s : PStore) (cap : Int) (fuel : Nat) (hf : forEachFuel s ≤ fuel)
    (hs : Content.Sorted s.binsList) (h32 : ∀ p ∈ s.binsList, I32 p.1) :
    ∃ m, BufferedPaginatedStore.ToProto fuel (toGen s cap)
        = .ok (toGen (if s.isEmpty then s else s.sortRead) cap, m) ∧
      m = (if s.isEmpty then emptyMsg else sparseMsg s.binsList) ∧
      some (pbOfGo m) = storeToProto (.pg s) := by
  rw [pag_toProto s cap fuel hf, msetFrom_of_perm s.binsList hs h32 s.binsList (List.Perm.refl _)]
  by_cases he : s.isEmpty = true
  · simp only [he, if_true]
    exact ⟨_, rfl, rfl, by simp only [storeToProto, he, if_true]; rfl⟩
  · simp only [he, Bool.false_eq_true, if_false]
    exact ⟨_, rfl, rfl, by simp only [storeToProto, he, Bool.false_eq_true, if_false]; rfl⟩

theorem pag_side_of_inv (s : PStore) (h : PStore.Inv s) :
    Content.Sorted s.binsList ∧ ∀ p ∈ s.binsList, I32 p.1 :=
  ⟨(Props.C04Pag.content_wf s h).1, fun p hp => I32_of_Idx32 (Lift.pag_keys32 s h p hp)⟩

end pag

/-! ### 2d. the sparse store -/

section sparse
open DDS.GenSparse DDS.Gen.Sparse DDS.Gen.SparseProto

theorem sparse_loop1 (l : List (Int × Rat)) : ∀ acc : GoMap Rat,
    SparseStore.ToProto.loop1 l acc = .done (msetFrom acc l) := by
  induction l with
  | nil => intro acc; rfl
  | cons p l ih =>
    intro acc
    obtain ⟨i, c⟩ := p
    unfold SparseStore.ToProto.loop1
    exact ih _

/-- sparse `ToProto` (every store, oracle, fuel): `binCounts[int32(i)] = c` for the entries in the oracle's order -/
theorem sparse_toProto (fuel : Nat) (ord : MapOrder) (g : SparseStore) :
    SparseStore.ToProto fuel ord g = .ok (sparseMsg (msetFrom [] (mrange ord g.counts))) := by
  unfold SparseStore.ToProto
  dsimp only
  rw [sparse_loop1]; rfl

/-- MAIN (sparse `ToProto`, EVERY lawful order): with `int32` keys the map of the message is the content itself, and
    its abstraction is the model's `storeToProto` -/
theorem sparse_toProto_model {g : SparseStore} {c : Content} (h : RepS g c) (fuel : Nat) (ord : MapOrder)
    (hl : ord.Lawful) (h32 : ∀ p ∈ c, I32 p.1) :
    SparseStore.ToProto fuel ord g = .ok (sparseMsg c) ∧ some (pbOfGo (sparseMsg c)) = storeToProto (.sp c) := by
  refine ⟨?_, rfl⟩
  rw [sparse_toProto, h.1, msetFrom_of_perm c h.2 h32 _ (mrange_perm ord hl c h.2)]

/-- without `int32` keys the wrap merges entries: `{0 ↦ 1, 2^32 ↦ 2}` travels as `{0 ↦ 2}` -/
theorem sparse_wrap_example :
    SparseStore.ToProto 0 MapOrder.ascending ⟨[(0, 1), (2 ^ 32, 2)]⟩ = .ok (sparseMsg [(0, 2)]) := by rfl

end sparse

/-! ## 3. `MergeWithProto` on the model's stores: contents add up, for every lawful order -/

section mrangeV

theorem find_of_memV {V : Type} : ∀ {m : GoMap V}, List.Pairwise (fun a b => a < b) (m.map Prod.fst) →
    ∀ {p : Int × V}, p ∈ m → m.find? (fun q => q.1 == p.1) = some p
  | q :: rest, hs, p, hp => by
    rw [List.find?_cons]
    rw [List.map_cons, List.pairwise_cons] at hs
    rcases List.mem_cons.1 hp with rfl | hp'
    · simp
    · have hlt := hs.1 p.1 (List.mem_map.2 ⟨p, hp', rfl⟩)
      have : (q.1 == p.1) = false := by simp; omega
      rw [this]
      exact find_of_memV hs.2 hp'

/-- a lawful `range` over a key-sorted map of any value type visits every entry exactly once -/
theorem mrange_permV {V : Type} (ord : MapOrder) (hl : ord.Lawful) (m : GoMap V)
    (hs : List.Pairwise (fun a b => a < b) (m.map Prod.fst)) : (mrange ord m).Perm m := by
  unfold mrange
  refine ((hl (m.map Prod.fst)).filterMap _).trans ?_
  rw [List.filterMap_map]
  have : List.filterMap ((fun k => (m.find? (fun p => p.1 == k)).map (fun p => (k, p.2))) ∘ Prod.fst) m
      = List.filterMap some m := by
    apply List.filterMap_congr
    intro p hp
    simp only [Function.comp, find_of_memV hs hp, Option.map_some]
  rw [this, List.filterMap_some]

end mrangeV

section model
open DDS.Lift DDS.GenSketch

/-- on the model's stores (`instance : StoreI Store`) the fold of `AddWithCount` is the model's `addBins` wherever
    that does not panic -/
theorem addAll_of_addBins : ∀ (calls : List (Int × F64)) (st st' : Store),
    Sketch.addBins st calls = some st' → addAll st calls = st'
  | [], st, st', h => by simp only [Sketch.addBins, Option.some.injEq] at h; subst h; rfl
  | p :: rest, st, st', h => by
    rw [addAll_cons]
    simp only [Sketch.addBins] at h
    cases ha : Sketch.addF st p.1 p.2 with
    | none => rw [ha] at h; cases h
    | some st1 =>
      rw [ha] at h
      rw [store_addF_some st st1 p.1 p.2 ha]
      exact addAll_of_addBins rest st1 st' h

/-- the rational bins a message stands for (a non-finite weight reads 0; see `Finite`) -/
def msgBins (ord : MapOrder) (pb : GoPb.Store F64) : List (Int × Rat) :=
  (msgCalls ord pb).map (fun p => (p.1, (ratOfF64 p.2).getD 0))

/-- every weight of the message is a finite float -/
def Finite (pb : GoPb.Store F64) : Prop :=
  (∀ p ∈ pb.BinCounts, ∃ q : Rat, p.2 = .fin q) ∧ (∀ c ∈ pb.ContiguousBinCounts, ∃ q : Rat, c = .fin q)

theorem mem_mrange {V : Type} (ord : MapOrder) (m : GoMap V) (p : Int × V) (hp : p ∈ mrange ord m) :
    ∃ q ∈ m, q.2 = p.2 := by
  unfold mrange at hp
  obtain ⟨k, _, hk⟩ := List.mem_filterMap.1 hp
  cases hf : m.find? (fun p => p.1 == k) with
  | none => rw [hf] at hk; cases hk
  | some q =>
    rw [hf] at hk
    simp only [Option.map_some, Option.some.injEq] at hk
    exact ⟨q, List.mem_of_find?_eq_some hf, by rw [← hk]⟩

theorem msgCalls_fin (ord : MapOrder) (pb : GoPb.Store F64) (hfin : Finite pb) :
    ∀ p ∈ msgCalls ord pb, ∃ q : Rat, p.2 = .fin q := by
  intro p hp
  unfold msgCalls at hp
  rcases List.mem_append.1 hp with h | h
  · obtain ⟨x, hx, rfl⟩ := List.mem_map.1 h
    obtain ⟨y, hy, hxy⟩ := mem_mrange ord _ x hx
    obtain ⟨q, hq⟩ := hfin.1 y hy
    exact ⟨q, by rw [← hxy, hq]⟩
  · obtain ⟨cv, hcv, rfl⟩ := List.mem_map.1 h
    exact hfin.2 cv.1 (List.fst_mem_of_mem_zipIdx hcv)

theorem msgCalls_finBins (ord : MapOrder) (pb : GoPb.Store F64) (hfin : Finite pb) :
    msgCalls ord pb = RoundTrip.finBins (msgBins ord pb) := by
  unfold msgBins RoundTrip.finBins
  rw [List.map_map]
  symm
  refine (List.map_congr_left ?_).trans (List.map_id _)
  intro p hp
  obtain ⟨q, hq⟩ := msgCalls_fin ord pb hfin p hp
  obtain ⟨i, c⟩ := p
  simp only at hq
  subst hq
  rfl

/-- MAIN (generic `MergeWithProto` on the model's stores, ANY kind, EVERY oracle, any fuel).  The receiver is a good
    store holding the clamped form of the exact content `E` (`E = contentOf st` for the unbounded kinds); the message
    has finite weights `≥ 0` and `int32` indexes (`BinsOK`: any index for a zero weight).  Then the merge never panics,
    keeps the store good and of its kind, and the store holds `clamp (E.merge bins)`: the message's bins added up -/
theorem mergeWithProto_good_store (fuel : Nat) (ord : MapOrder) (st : Store) (hg : Good st)
    (E : Content) (hE : E.WF) (hcE : contentOf st = st.clamp.apply E) (pb : GoPb.Store F64) (hfin : Finite pb)
    (hok : BinsOK (msgBins ord pb)) :
    ∃ st', Gen.StoreProto.MergeWithProto fuel ord st pb = .ok st' ∧ Good st' ∧ st'.kind = st.kind ∧
      contentOf st' = st.clamp.apply (E.merge (msgBins ord pb)) := by
  obtain ⟨st', a1, a2, a3, a4⟩ := addList_good (msgBins ord pb) hok st hg E hE hcE
  refine ⟨st', ?_, a2, a3, a4⟩
  rw [← addBins_finBins] at a1
  rw [mergeWithProto_eq_fold, msgCalls_finBins ord pb hfin, addAll_of_addBins _ _ _ a1]

/-- the sparse entries of the message as rational bins, in the oracle's order -/
def sparseBins (ord : MapOrder) (pb : GoPb.Store F64) : List (Int × Rat) :=
  (mrange ord pb.BinCounts).map (fun p => (wrap32 p.1, (ratOfF64 p.2).getD 0))

/-- the contiguous counts of the message as rational bins: entry number `k` sits at index `k + offset` -/
def contigBins (pb : GoPb.Store F64) : List (Int × Rat) :=
  pb.ContiguousBinCounts.zipIdx.map
    (fun cv => ((cv.2 : Int) + pb.ContiguousBinIndexOffset.toInt, (ratOfF64 cv.1).getD 0))

/-- the entries of the `BinCounts` map as rational bins, in storage (ascending) order -/
def mapBins (pb : GoPb.Store F64) : List (Int × Rat) := pb.BinCounts.map (fun p => (p.1, (ratOfF64 p.2).getD 0))

theorem msgBins_eq (ord : MapOrder) (pb : GoPb.Store F64) : msgBins ord pb = sparseBins ord pb ++ contigBins pb := by
  unfold msgBins msgCalls sparseBins contigBins
  rw [List.map_append, List.map_map, List.map_map]; rfl

/-- ORDER INDEPENDENCE: for a lawful oracle the sparse bins are a permutation of the map's entries (the keys of a
    well-formed message are `int32` values: no wrap) -/
theorem sparseBins_perm (ord : MapOrder) (hl : ord.Lawful) (pb : GoPb.Store F64) (hwf : pb.WF) :
    (sparseBins ord pb).Perm (mapBins pb) := by
  unfold sparseBins mapBins
  have h1 : (mrange ord pb.BinCounts).map (fun p => (wrap32 p.1, (ratOfF64 p.2).getD 0))
      = (mrange ord pb.BinCounts).map (fun p => (p.1, (ratOfF64 p.2).getD 0)) := by
    apply List.map_congr_left
    intro p hp
    have hp' : p ∈ pb.BinCounts := (mrange_permV ord hl _ hwf.2).mem_iff.1 hp
    rw [wrap32_of_I32 p.1 (hwf.1 p hp')]
  rw [h1]
  exact (mrange_permV ord hl _ hwf.2).map _

/-- C09 on the regenerated code: index by index, the bins of a message weigh what its `BinCounts` entries give plus
    what its contiguous counts give — whatever the iteration order -/
theorem lookup_msgBins (ord : MapOrder) (hl : ord.Lawful) (pb : GoPb.Store F64) (hwf : pb.WF) (j : Int) :
    Content.lookup (msgBins ord pb) j = Content.lookup (mapBins pb) j + Content.lookup (contigBins pb) j := by
  rw [msgBins_eq, PStore.lookup_append, GenSparse.perm_lookup (sparseBins_perm ord hl pb hwf)]

/-- the content after the merge does not depend on the oracle -/
theorem merge_order_irrelevant (E : Content) (hE : E.WF) (pb : GoPb.Store F64) (hwf : pb.WF)
    (o1 o2 : MapOrder) (h1 : o1.Lawful) (h2 : o2.Lawful)
    (hn1 : ∀ p ∈ msgBins o1 pb, 0 ≤ p.2) (hn2 : ∀ p ∈ msgBins o2 pb, 0 ≤ p.2) :
    E.merge (msgBins o1 pb) = E.merge (msgBins o2 pb) := by
  apply Content.ext _ _ (Content.wf_merge_of_nonneg _ _ hE hn1) (Content.wf_merge_of_nonneg _ _ hE hn2)
  intro j
  rw [Content.lookup_merge, Content.lookup_merge, lookup_msgBins o1 h1 pb hwf, lookup_msgBins o2 h2 pb hwf]

/-- the weights add up on top of what the store held (the statement of `C09.mergeWithProto_adds`) -/
theorem lookup_merge_msgBins (E : Content) (ord : MapOrder) (hl : ord.Lawful) (pb : GoPb.Store F64) (hwf : pb.WF)
    (j : Int) :
    (E.merge (msgBins ord pb)).lookup j
      = E.lookup j + Content.lookup (mapBins pb) j + Content.lookup (contigBins pb) j := by
  rw [Content.lookup_merge, lookup_msgBins ord hl pb hwf, Rat.add_assoc]

end model

/-! ## 4. the paginated store's own `MergeWithProto` -/

section pagMerge
open DDS.GenPag DDS.PStore DDS.Gen.Paginated DDS.Gen.PaginatedProto

/-- the regenerated `AddWithCount` on a list of calls -/
def gAdds (fuel : Nat) (grow : Int → Int → Int) : GP → List (Int × Rat) → Res GP
  | g, [] => .ok g
  | g, (i, c) :: rest => (BufferedPaginatedStore.AddWithCount fuel grow g i c).bind (fun g' => gAdds fuel grow g' rest)

theorem gAdds_append (fuel : Nat) (grow : Int → Int → Int) (a b : List (Int × Rat)) : ∀ g : GP,
    gAdds fuel grow g (a ++ b) = (gAdds fuel grow g a).bind (fun g' => gAdds fuel grow g' b) := by
  induction a with
  | nil => intro g; rfl
  | cons p a ih =>
    intro g
    obtain ⟨i, c⟩ := p
    simp only [List.cons_append, gAdds]
    cases BufferedPaginatedStore.AddWithCount fuel grow g i c with
    | ok g' => exact ih g'
    | panic => rfl
    | nofuel => rfl

/-- a `Res` as the outcome of a loop that never returns early -/
def toLoop {α ρ : Type} : Res α → Loop α ρ
  | .ok a => .done a
  | .panic => .panic
  | .nofuel => .nofuel

theorem pm_loop2 (fuel : Nat) (grow : Int → Int → Int) (l : List (Int × Rat)) : ∀ g : GP,
    BufferedPaginatedStore.MergeWithProto.loop2 fuel grow l g
      = toLoop (gAdds fuel grow g (l.map (fun p => (wrap32 p.1, p.2)))) := by
  induction l with
  | nil => intro g; rfl
  | cons p l ih =>
    intro g
    obtain ⟨i, c⟩ := p
    unfold BufferedPaginatedStore.MergeWithProto.loop2
    simp only [List.map_cons, gAdds]
    show Res.bindL (BufferedPaginatedStore.AddWithCount fuel grow g (wrap32 i) c) _ = _
    cases BufferedPaginatedStore.AddWithCount fuel grow g (wrap32 i) c with
    | ok g' => exact ih g'
    | panic => rfl
    | nofuel => rfl

theorem pm_loop1 (fuel : Nat) (grow : Int → Int → Int) (pb : GoPb.Store Rat) (l : List Rat) : ∀ (k : Nat) (g : GP),
    BufferedPaginatedStore.MergeWithProto.loop1 fuel grow pb l (k : Int) g
      = toLoop (gAdds fuel grow g ((l.zipIdx k).map
          (fun cv => ((cv.2 : Int) + pb.ContiguousBinIndexOffset.toInt, cv.1)))) := by
  induction l with
  | nil => intro k g; rfl
  | cons c l ih =>
    intro k g
    unfold BufferedPaginatedStore.MergeWithProto.loop1
    simp only [List.zipIdx_cons, List.map_cons, gAdds]
    rw [Int.add_comm]
    cases BufferedPaginatedStore.AddWithCount fuel grow g ((k : Int) + pb.ContiguousBinIndexOffset.toInt) c with
    | ok g' =>
      have := ih (k + 1) g'
      rw [Int.natCast_add] at this
      exact this
    | panic => rfl
    | nofuel => rfl

/-- paginated `MergeWithProto` (every store, message, oracle, fuel): the regenerated `AddWithCount` run on the calls of
    the message -/
theorem pag_mergeWithProto_eq (fuel : Nat) (ord : MapOrder) (grow : Int → Int → Int) (g : GP) (pb : GoPb.Store Rat) :
    BufferedPaginatedStore.MergeWithProto fuel ord grow g pb = gAdds fuel grow g (msgCalls ord pb) := by
  unfold BufferedPaginatedStore.MergeWithProto msgCalls
  rw [pm_loop2, gAdds_append]
  cases gAdds fuel grow g ((mrange ord pb.BinCounts).map (fun p => (wrap32 p.1, p.2))) with
  | ok g' =>
    have := pm_loop1 fuel grow pb pb.ContiguousBinCounts 0 g'
    rw [Int.natCast_zero] at this
    simp only [toLoop, Loop.elim_done, Res.bind_ok, this]
    cases gAdds fuel grow g' (pb.ContiguousBinCounts.zipIdx.map
      (fun cv => ((cv.2 : Int) + pb.ContiguousBinIndexOffset.toInt, cv.1))) <;> rfl
  | panic => rfl
  | nofuel => rfl

/-- the model's adds under SOME compaction schedule (the bit `len(buffer) == cap(buffer)` of each call is hidden state
    of the Go runtime): `none` = one of the adds panics -/
inductive Sched : PStore → List (Int × Rat) → Option PStore → Prop
  | nil (s : PStore) : Sched s [] (some s)
  | stepNone (s : PStore) (i : Int) (c : Rat) (rest : List (Int × Rat)) (b : Bool) :
      s.addWithCount i c b = none → Sched s ((i, c) :: rest) none
  | stepSome (s : PStore) (i : Int) (c : Rat) (rest : List (Int × Rat)) (b : Bool) (s' : PStore) (r : Option PStore) :
      s.addWithCount i c b = some s' → Sched s' rest r → Sched s ((i, c) :: rest) r

/-- fuel for the calls: the maximum of `addFuel` over the stores reachable under either value of each bit (a
    function of the store and the calls) -/
def pagFuel : PStore → List (Int × Rat) → Nat
  | _, [] => 0
  | s, (i, c) :: rest =>
    max (addFuel s i)
      (max (match s.addWithCount i c true with | some s' => pagFuel s' rest | none => 0)
           (match s.addWithCount i c false with | some s' => pagFuel s' rest | none => 0))

theorem pagFuel_step (s s' : PStore) (i : Int) (c : Rat) (rest : List (Int × Rat)) (b : Bool)
    (h : s.addWithCount i c b = some s') :
    addFuel s i ≤ pagFuel s ((i, c) :: rest) ∧ pagFuel s' rest ≤ pagFuel s ((i, c) :: rest) := by
  cases b <;> simp only [pagFuel, h] <;> omega

/-- SIMULATION (every store, capacity, `grow`, calls; NO invariant): with `pagFuel s calls ≤ fuel` the regenerated adds
    follow the model under some compaction schedule — panic exactly when the model does, never out of fuel -/
theorem gAdds_sim (fuel : Nat) (grow : Int → Int → Int) : ∀ (calls : List (Int × Rat)) (s : PStore) (cap : Int),
    pagFuel s calls ≤ fuel → ∃ r, Sched s calls r ∧ ROk (gAdds fuel grow (toGen s cap) calls) r := by
  intro calls
  induction calls with
  | nil => intro s cap _; exact ⟨some s, Sched.nil s, toGen s cap, rfl, cap, rfl⟩
  | cons p rest ih =>
    intro s cap hf
    obtain ⟨i, c⟩ := p
    cases hm : s.addWithCount i c (decide ((s.buffer.length : Int) = cap)) with
    | none =>
      have hfu : addFuel s i ≤ fuel := by
        have : addFuel s i ≤ pagFuel s ((i, c) :: rest) := by simp only [pagFuel]; omega
        omega
      have h := addWithCountSpec s cap grow i c fuel hfu
      rw [hm] at h
      refine ⟨none, Sched.stepNone s i c rest _ hm, ?_⟩
      show gAdds fuel grow (toGen s cap) ((i, c) :: rest) = .panic
      simp only [gAdds]
      rw [show BufferedPaginatedStore.AddWithCount fuel grow (toGen s cap) i c = .panic from h]; rfl
    | some s' =>
      obtain ⟨f1, f2⟩ := pagFuel_step s s' i c rest _ hm
      have h := addWithCountSpec s cap grow i c fuel (by omega)
      rw [hm] at h
      obtain ⟨g', hg', cap', rfl⟩ := h
      obtain ⟨r, hr1, hr2⟩ := ih s' cap' (by omega)
      refine ⟨r, Sched.stepSome s i c rest _ s' r hm hr1, ?_⟩
      simp only [gAdds, hg', Res.bind_ok]
      exact hr2

/-- under the store invariant, with `int32` indexes and weights `≥ 0`, every schedule succeeds and ends with the
    content merged with the bins (zero-weight bins included: they add nothing) -/
theorem sched_content (calls : List (Int × Rat)) (s : PStore) (r : Option PStore) (h : Sched s calls r) :
    Inv s → (∀ p ∈ calls, Idx32 p.1 ∧ 0 ≤ p.2) →
    ∃ s', r = some s' ∧ Inv s' ∧ content s' = (content s).merge calls := by
  induction h with
  | nil s => intro hI _; exact ⟨s, rfl, hI, rfl⟩
  | stepNone s i c rest b hm =>
    intro hI hc
    obtain ⟨hi, hw⟩ := hc (i, c) (List.mem_cons_self ..)
    obtain ⟨s', h1, _⟩ := Props.C04Pag.add_content s hI i hi c hw b
    rw [hm] at h1; cases h1
  | stepSome s i c rest b s' r hm _ ih =>
    intro hI hc
    obtain ⟨hi, hw⟩ := hc (i, c) (List.mem_cons_self ..)
    obtain ⟨s1, h1, h2, h3⟩ := Props.C04Pag.add_content s hI i hi c hw b
    rw [hm] at h1; cases h1
    obtain ⟨s2, e1, e2, e3⟩ := ih h2 (fun p hp => hc p (List.mem_cons_of_mem _ hp))
    exact ⟨s2, e1, e2, by rw [e3, h3]; rfl⟩

/-- MAIN (paginated `MergeWithProto`): a store with the invariant, a message with weights `≥ 0` whose contiguous
    indexes are `int32` (the map keys are by type), any oracle, capacity and `grow`: the receiver ends as the image of a
    model store with the invariant whose content is the receiver's merged with the message's bins -/
theorem pag_mergeWithProto (s : PStore) (hI : Inv s) (cap : Int) (grow : Int → Int → Int) (ord : MapOrder)
    (pb : GoPb.Store Rat) (hc : ∀ p ∈ msgCalls ord pb, Idx32 p.1 ∧ 0 ≤ p.2) (fuel : Nat)
    (hf : pagFuel s (msgCalls ord pb) ≤ fuel) :
    ∃ s' cap', BufferedPaginatedStore.MergeWithProto fuel ord grow (toGen s cap) pb = .ok (toGen s' cap') ∧
      Inv s' ∧ content s' = (content s).merge (msgCalls ord pb) := by
  rw [pag_mergeWithProto_eq]
  obtain ⟨r, hr1, hr2⟩ := gAdds_sim fuel grow (msgCalls ord pb) s cap hf
  obtain ⟨s', rfl, h2, h3⟩ := sched_content _ s r hr1 hI hc
  obtain ⟨g', hg', cap', rfl⟩ := hr2
  exact ⟨s', cap', hg', h2, h3⟩

end pagMerge

/-! ## 5. the bins of the message `ToProto` builds, read back -/

section back

/-- merging a permutation of a canonical content into the empty content gives that content -/
theorem merge_nil_perm (c : Content) (hc : c.WF) (L : List (Int × Rat)) (hp : L.Perm c) : Content.merge [] L = c := by
  apply Content.ext _ _ (Content.wf_merge_of_nonneg [] L Content.wf_nil
    (fun p hp' => Rat.le_of_lt (hc.2 p (hp.mem_iff.1 hp')))) hc
  intro j
  rw [Content.lookup_merge, Content.lookup_nil, GenSparse.perm_lookup hp j, Rat.zero_add]

/-- the calls of a sparse-entries message over a key-sorted `int32` content: a permutation of the content -/
theorem msgCalls_sparseMsg (ord : MapOrder) (hl : ord.Lawful) (c : Content) (hs : c.Sorted)
    (h32 : ∀ p ∈ c, I32 p.1) : (msgCalls ord (sparseMsg c)).Perm c := by
  unfold msgCalls sparseMsg
  simp only [List.zipIdx_nil, List.map_nil, List.append_nil]
  have hp := GenSparse.mrange_perm ord hl c hs
  have h1 : (mrange ord c).map (fun p => (wrap32 p.1, p.2)) = mrange ord c := by
    refine (List.map_congr_left ?_).trans (List.map_id _)
    intro p hp'
    rw [wrap32_of_I32 p.1 (h32 p (hp.mem_iff.1 hp'))]; rfl
  rw [h1]; exact hp

theorem msgCalls_emptyMsg (ord : MapOrder) : msgCalls ord emptyMsg = [] := by
  simp [msgCalls, emptyMsg, mrange]

end back

/-! ## 6. from the exact-weight message of a store unit to the float message of the generic `MergeWithProto` -/

section consumer
open DDS.Lift

/-- the message with its exact weights as floats (what the sketch level hands to `MergeWithProto`) -/
def toF64 (m : GoPb.Store Rat) : GoPb.Store F64 :=
  { BinCounts := m.BinCounts.map (fun p => (p.1, F64.fin p.2)),
    ContiguousBinCounts := m.ContiguousBinCounts.map F64.fin,
    ContiguousBinIndexOffset := m.ContiguousBinIndexOffset }

theorem mrange_mapV {V W : Type} (f : V → W) (ord : MapOrder) (m : GoMap V) :
    mrange ord (m.map (fun p => (p.1, f p.2))) = (mrange ord m).map (fun p => (p.1, f p.2)) := by
  unfold mrange
  rw [List.map_map, List.map_filterMap]
  have : (Prod.fst ∘ fun p : Int × V => (p.1, f p.2)) = Prod.fst := rfl
  rw [this]
  apply List.filterMap_congr
  intro k _
  rw [List.find?_map]
  have e : ((fun p : Int × W => p.1 == k) ∘ fun p : Int × V => (p.1, f p.2)) = (fun p => p.1 == k) := rfl
  rw [e]
  cases m.find? (fun p : Int × V => p.1 == k) <;> rfl

theorem msgCalls_toF64 (ord : MapOrder) (m : GoPb.Store Rat) :
    msgCalls ord (toF64 m) = RoundTrip.finBins (msgCalls ord m) := by
  unfold msgCalls toF64 RoundTrip.finBins
  simp only [mrange_mapV, List.map_append, List.map_map, List.zipIdx_map]
  rfl

theorem msgBins_toF64 (ord : MapOrder) (m : GoPb.Store Rat) : msgBins ord (toF64 m) = msgCalls ord m := by
  unfold msgBins
  rw [msgCalls_toF64]
  unfold RoundTrip.finBins
  rw [List.map_map]
  exact (List.map_congr_left (fun p _ => rfl)).trans (List.map_id _)

theorem finite_toF64 (m : GoPb.Store Rat) : Finite (toF64 m) := by
  constructor
  · intro p hp
    obtain ⟨q, _, rfl⟩ := List.mem_map.1 hp
    exact ⟨q.2, rfl⟩
  · intro c hc
    obtain ⟨q, _, rfl⟩ := List.mem_map.1 hc
    exact ⟨q, rfl⟩

/-- merging bins that weigh, index by index, what a canonical content does into the empty content gives it -/
theorem merge_nil_of_lookup (c : Content) (hc : c.WF) (L : List (Int × Rat)) (hn : ∀ p ∈ L, 0 ≤ p.2)
    (hl : ∀ j, Content.lookup L j = c.lookup j) : Content.merge [] L = c := by
  apply Content.ext _ _ (Content.wf_merge_of_nonneg [] L Content.wf_nil hn) hc
  intro j
  rw [Content.lookup_merge, Content.lookup_nil, hl j, Rat.zero_add]

/-- **any consumer kind** (generic `MergeWithProto`, the model's stores, every oracle and fuel): a message `m` whose
    calls weigh, index by index, what the canonical content `c` does (weights `≥ 0`, `int32` indexes unless the weight
    is 0), merged into a NEW store of kind `k`, gives a good store of kind `k` holding `c` clamped by the rule of `k` -/
theorem consumer_roundtrip (k : StoreKind) (hk : KindOK k) (c : Content) (hc : c.WF) (ord : MapOrder)
    (m : GoPb.Store Rat) (hok : BinsOK (msgCalls ord m)) (hl : ∀ j, Content.lookup (msgCalls ord m) j = c.lookup j)
    (fuel : Nat) :
    ∃ st', Gen.StoreProto.MergeWithProto fuel ord (Store.new k) (toF64 m) = .ok st' ∧ Good st' ∧ st'.kind = k ∧
      contentOf st' = (clampOfKind k).apply c := by
  obtain ⟨g, c0, k0⟩ := good_new k hk
  have hc0 : contentOf (Store.new k) = (Store.new k).clamp.apply [] := by rw [c0, clamp_apply_nil]
  obtain ⟨st', a1, a2, a3, a4⟩ := mergeWithProto_good_store fuel ord (Store.new k) g [] Content.wf_nil hc0
    (toF64 m) (finite_toF64 m) (by rw [msgBins_toF64]; exact hok)
  refine ⟨st', a1, a2, a3.trans k0, ?_⟩
  rw [a4, msgBins_toF64, clamp_new, merge_nil_of_lookup c hc _ (fun p hp => (hok p hp).1) hl]

end consumer

/-! ## 7. `FromProto` on the regenerated dense store -/

section denseFrom
open DDS.GenDense DDS.GenDecodeWrap

/-- `FromProto` with any instance whose `AddWithCount` runs the regenerated dense `AddWithCount` (`DenseAdds`, e.g.
    `GenDecodeWrap.denseI`): the result is the image of the plain dense model store that the generic `MergeWithProto`
    builds from `Store.new .dense` on the model side — every message, oracle, fuel -/
theorem dense_fromProto_sim (I : StoreI GS) (hI : DenseAdds I) (fuel : Nat) (ord : MapOrder) (pb : GoPb.Store F64) :
    ∃ d : DStore, @Gen.DenseFromProto.FromProto I fuel ord pb = .ok (toGen d) ∧ d.kind = .plain ∧
      Gen.StoreProto.MergeWithProto fuel ord (Store.new .dense) pb = .ok (.d d) := by
  have h0 : DRel Gen.Dense.NewDenseStore (Store.new .dense) := ⟨DStore.new .plain, newDenseStore_eq, rfl, rfl⟩
  have h := @addAll_rel GS Store I _ DRel
    (fun g st i c hr => drel_step I hI g st (i, some c) hr) (msgCalls ord pb) _ _ h0
  obtain ⟨d, h1, h2, h3⟩ := h
  refine ⟨d, ?_, h3, ?_⟩
  · rw [fromProto_eq, h1]
  · rw [mergeWithProto_eq_fold, h2]

end denseFrom

end DDS.GenProtoStore
